package main

// C11 — FromJSONSchema yields a schema equivalent to the JSON Schema it was given.
//
//	c11 kw <keyword>     impl: "<documented> <strictRejects>"   behavioural: {kw: sample} through FromJSONSchema(StrictMode)
//	c11 conv <D>         impl: "<nonstrict> <strict>"            conversion outcome ok|error|panic without / with StrictMode
//	c11 inst <D> <J>     impl: "<P> <V> <R>"
//	    P = verdict of FromJSONSchema(doc).ParseAny(x), x decoded from JSON text by encoding/json ("!" when ParseAny panics)
//	    V = independent validator (kaptinlin/jsonschema, format assertion on) on the ORIGINAL document
//	    R = independent validator on ToJSONSchema(FromJSONSchema(doc)) (round trip; "-" when that conversion fails)
//	    The property on the implementation alone: P = V and R = V.
//	    A fourth column PI ("~" when not applicable): the Parse verdict when integral numbers of the instance are handed
//	    over as Go int — only for documents whose numbers can only meet integer schemas (no number type, no numeric
//	    const/enum, no untyped position) — so that integer bounds are exercised although Int() rejects float64.
//
//	D  ::= true | false | ( node KW* )
//	KW ::= ( type T ) | ( types T* ) | ( minLength N ) | ( maxLength N ) | ( pattern PAT ) | ( minimum Q ) | ( maximum Q )
//	     | ( exclusiveMinimum Q ) | ( exclusiveMaximum Q ) | ( multipleOf Q ) | ( enum P* ) | ( const P )
//	     | ( items D ) | ( prefixItems D* ) | ( minItems N ) | ( maxItems N ) | ( properties ( STR D )* ) | ( required STR* )
//	     | ( additionalProperties D ) | ( anyOf D* ) | ( oneOf D* ) | ( allOf D* ) | ( not D ) | ( format STR GOOD* )
//	     | ( ref D ) | ( other STR )
//	PAT ::= ( pre STR ) | ( suf STR ) | ( has STR ) | noUp | noLow       Q in quarters, P ::= n | t | f | qZ | s:…
//	In a ROOT document whose only keyword is const or enum, P may also be an array ( a J* ) or an object ( o ( STR J )* )
//	(members.go; the Lean side has these members as `Json` values: Model/FromJson.lean `fromEnumJ` / `fromConstJ`).
//	`( ref D )` is written into the document as {"$ref":"#/$defs/dK"} with D hoisted into the root's $defs.
//	`( format NAME GOOD* )`: GOOD = the strings of this case's instance universe that satisfy the format
//	(format sample pool, checked at start-up against gozod's dedicated schema and the validator).

import (
	"encoding/json"
	"fmt"
	"os"
	"regexp"
	"strconv"
	"strings"

	"github.com/kaptinlin/gozod"
	"github.com/kaptinlin/gozod/core"
	lib "github.com/kaptinlin/jsonschema"

	"verifharness/hx"
)

type Prop struct {
	K string
	D *D
}

type KW struct {
	Name  string
	N     int64
	Pat   [2]string // kind, literal
	Prims []*J
	Sub   *D
	Subs  []*D
	Props []Prop
	Strs  []string
}

type D struct {
	Bool *bool
	Kws  []KW
}

func (d *D) get(name string) *KW {
	if d.Bool != nil {
		return nil
	}
	for i := range d.Kws {
		if d.Kws[i].Name == name {
			return &d.Kws[i]
		}
	}
	return nil
}

// ---------------------------------------------------------------- op text

func (d *D) String() string {
	if d.Bool != nil {
		if *d.Bool {
			return "true"
		}
		return "false"
	}
	var b strings.Builder
	b.WriteString("( node")
	for _, k := range d.Kws {
		b.WriteString(" " + k.String())
	}
	return b.String() + " )"
}

func (k KW) String() string {
	switch k.Name {
	case "type":
		return "( type " + k.Strs[0] + " )"
	case "types":
		return "( types " + strings.Join(k.Strs, " ") + " )"
	case "minLength", "maxLength", "minItems", "maxItems", "minimum", "maximum", "exclusiveMinimum", "exclusiveMaximum", "multipleOf":
		return fmt.Sprintf("( %s %d )", k.Name, k.N)
	case "pattern":
		if k.Pat[0] == "noUp" || k.Pat[0] == "noLow" {
			return "( pattern " + k.Pat[0] + " )"
		}
		return "( pattern ( " + k.Pat[0] + " " + encStr(k.Pat[1]) + " ) )"
	case "enum", "const":
		var ps []string
		for _, p := range k.Prims {
			ps = append(ps, p.String())
		}
		return "( " + k.Name + " " + strings.Join(ps, " ") + " )"
	case "items", "additionalProperties", "not", "ref":
		return "( " + k.Name + " " + k.Sub.String() + " )"
	case "prefixItems", "anyOf", "oneOf", "allOf":
		var ps []string
		for _, s := range k.Subs {
			ps = append(ps, s.String())
		}
		if len(ps) == 0 {
			return "( " + k.Name + " )"
		}
		return "( " + k.Name + " " + strings.Join(ps, " ") + " )"
	case "properties":
		var ps []string
		for _, p := range k.Props {
			ps = append(ps, "( "+encStr(p.K)+" "+p.D.String()+" )")
		}
		if len(ps) == 0 {
			return "( properties )"
		}
		return "( properties " + strings.Join(ps, " ") + " )"
	case "required":
		var ps []string
		for _, s := range k.Strs {
			ps = append(ps, encStr(s))
		}
		if len(ps) == 0 {
			return "( required )"
		}
		return "( required " + strings.Join(ps, " ") + " )"
	case "format":
		ps := []string{encStr(k.Strs[0])}
		for _, g := range k.Strs[1:] {
			ps = append(ps, encStr(g))
		}
		return "( format " + strings.Join(ps, " ") + " )"
	case "other":
		return "( other " + encStr(k.Strs[0]) + " )"
	}
	panic("KW.String " + k.Name)
}

// ---------------------------------------------------------------- JSON document

func patRegex(p [2]string) string {
	switch p[0] {
	case "pre":
		return "^" + regexp.QuoteMeta(p[1]) + ".*"
	case "suf":
		return ".*" + regexp.QuoteMeta(p[1]) + "$"
	case "has":
		return regexp.QuoteMeta(p[1])
	case "noUp":
		return "^[^A-Z]*$"
	}
	return "^[^a-z]*$"
}

func jstr(s string) string { b, _ := json.Marshal(s); return string(b) }

// keywords outside the model, written with VACUOUS values (every instance satisfies them), so that they exercise
// strict mode and the dispatch without needing their semantics in the model.
var otherSamples = map[string]string{"uniqueItems": "false", "minProperties": "0", "maxProperties": "9999",
	"propertyNames": "{}", "dependentRequired": "{}", "if": "{}", "unevaluatedProperties": "true", "not": "false",
	"dependentSchemas": "{}", "minContains": "0"}

// annotation keywords (title / description / examples are captured as metadata, the others are ignored): they assert
// nothing, are not "unsupported", and must change neither the conversion outcome nor any verdict.
var annotationSamples = map[string]string{"title": `"T"`, "description": `"some text"`, "examples": `[1,"a",null,[1]]`,
	"default": `null`, "$comment": `"c"`, "deprecated": "true", "readOnly": "false", "writeOnly": "false"}

var annotationNames = []string{"title", "description", "examples", "default", "$comment", "deprecated", "readOnly", "writeOnly"}

var otherNames = []string{"uniqueItems", "minProperties", "maxProperties", "propertyNames", "dependentRequired", "if",
	"unevaluatedProperties", "not"}

type docCtx struct{ defs []string }

func (d *D) json(c *docCtx) string {
	if d.Bool != nil {
		if *d.Bool {
			return "true"
		}
		return "false"
	}
	var kv []string
	add := func(k, v string) { kv = append(kv, jstr(k)+":"+v) }
	list := func(ds []*D) string {
		ps := make([]string, len(ds))
		for i, s := range ds {
			ps[i] = s.json(c)
		}
		return "[" + strings.Join(ps, ",") + "]"
	}
	for _, k := range d.Kws {
		switch k.Name {
		case "type":
			add("type", jstr(k.Strs[0]))
		case "types":
			ps := make([]string, len(k.Strs))
			for i, s := range k.Strs {
				ps[i] = jstr(s)
			}
			add("type", "["+strings.Join(ps, ",")+"]")
		case "minLength", "maxLength", "minItems", "maxItems":
			add(k.Name, strconv.FormatInt(k.N, 10))
		case "minimum", "maximum", "exclusiveMinimum", "exclusiveMaximum", "multipleOf":
			add(k.Name, qText(k.N))
		case "pattern":
			add("pattern", jstr(patRegex(k.Pat)))
		case "const":
			add("const", k.Prims[0].JSON())
		case "enum":
			ps := make([]string, len(k.Prims))
			for i, p := range k.Prims {
				ps[i] = p.JSON()
			}
			add("enum", "["+strings.Join(ps, ",")+"]")
		case "items", "additionalProperties", "not":
			add(k.Name, k.Sub.json(c))
		case "ref":
			body := k.Sub.json(c)
			name := "d" + strconv.Itoa(len(c.defs))
			c.defs = append(c.defs, jstr(name)+":"+body)
			add("$ref", jstr("#/$defs/"+name))
		case "prefixItems", "anyOf", "oneOf", "allOf":
			add(k.Name, list(k.Subs))
		case "properties":
			ps := make([]string, len(k.Props))
			for i, p := range k.Props {
				ps[i] = jstr(p.K) + ":" + p.D.json(c)
			}
			add("properties", "{"+strings.Join(ps, ",")+"}")
		case "required":
			ps := make([]string, len(k.Strs))
			for i, s := range k.Strs {
				ps[i] = jstr(s)
			}
			add("required", "["+strings.Join(ps, ",")+"]")
		case "format":
			add("format", jstr(k.Strs[0]))
		case "other":
			if v, ok := annotationSamples[k.Strs[0]]; ok {
				add(k.Strs[0], v)
			} else {
				add(k.Strs[0], otherSamples[k.Strs[0]])
			}
		}
	}
	return "{" + strings.Join(kv, ",") + "}"
}

func (d *D) Doc() string {
	c := &docCtx{}
	body := d.json(c)
	if len(c.defs) == 0 || d.Bool != nil {
		return body
	}
	defs := `"$defs":{` + strings.Join(c.defs, ",") + "}"
	if body == "{}" {
		return "{" + defs + "}"
	}
	return "{" + defs + "," + body[1:]
}

// ---------------------------------------------------------------- format sample pool

var formatPool = map[string][2][]string{
	"email":     {{"a@b.co", "first.last@example.org"}, {"a@", "not an email"}},
	"uuid":      {{"123e4567-e89b-42d3-a456-426614174000"}, {"123e4567", "zzze4567-e89b-42d3-a456-426614174000"}},
	"ipv4":      {{"1.2.3.4", "192.168.0.1"}, {"1.2.3", "256.1.1.1"}},
	"ipv6":      {{"::1", "2001:db8::8a2e:370:7334"}, {"1.2.3.4", ":::"}},
	"date":      {{"2024-02-29", "1999-12-31"}, {"2024-13-01", "24-02-29"}},
	"date-time": {{"2024-02-29T12:30:00Z"}, {"2024-02-29", "2024-02-29T25:00:00Z"}},
	"time":      {{"12:30:00Z"}, {"25:00:00", "noon"}},
	"uri":       {{"https://example.com/a?b=c"}, {"://x", "not a uri"}},
}

var formatNames []string
var poolDropped int

func formatSchema(name string) core.ZodSchema {
	sch, err := lib.NewCompiler().Compile([]byte(`{"type":"string","format":` + jstr(name) + `}`))
	if err != nil {
		return nil
	}
	z, err := gozod.FromJSONSchema(sch)
	if err != nil {
		return nil
	}
	return z
}

// checkPool keeps only samples on which gozod's dedicated schema and the validator (format assertion on) agree with
// the pool's label, so that format cases measure the converter and not the recognisers (C20's business).
func checkPool() {
	for _, name := range []string{"email", "uuid", "ipv4", "ipv6", "date", "date-time", "time", "uri"} {
		z := formatSchema(name)
		comp := lib.NewCompiler()
		comp.SetAssertFormat(true)
		v, err := comp.Compile([]byte(`{"type":"string","format":` + jstr(name) + `}`))
		if z == nil || err != nil {
			continue
		}
		var kept [2][]string
		for side := 0; side < 2; side++ {
			for _, s := range formatPool[name][side] {
				_, perr := z.ParseAny(s)
				vv := v.ValidateJSON([]byte(jstr(s))).IsValid()
				if (perr == nil) == (side == 0) && vv == (side == 0) {
					kept[side] = append(kept[side], s)
				} else {
					poolDropped++
				}
			}
		}
		if len(kept[0]) > 0 && len(kept[1]) > 0 {
			formatPool[name] = kept
			formatNames = append(formatNames, name)
		}
	}
}

// ---------------------------------------------------------------- generator

type gen struct{ r *hx.Rng }

var words = []string{"a", "b", "ab", "x.y", "zz", "A"}
var keys = []string{"a", "b", "c"}

func kwN(name string, n int64) KW { return KW{Name: name, N: n} }
func kwT(t string) KW             { return KW{Name: "type", Strs: []string{t}} }
func node(kws ...KW) *D           { return &D{Kws: kws} }
func bschema(b bool) *D           { return &D{Bool: &b} }

func (g *gen) stringKws() []KW {
	var ks []KW
	if g.r.Chance(50) {
		ks = append(ks, kwN("minLength", int64(g.r.Intn(4))))
	}
	if g.r.Chance(50) {
		ks = append(ks, kwN("maxLength", int64(1+g.r.Intn(5))))
	}
	if g.r.Chance(25) {
		k := hx.Pick(g.r, []string{"pre", "suf", "has", "noUp", "noLow"})
		ks = append(ks, KW{Name: "pattern", Pat: [2]string{k, hx.Pick(g.r, words)}})
	}
	if g.r.Chance(15) && len(formatNames) > 0 {
		name := hx.Pick(g.r, formatNames)
		ks = append(ks, KW{Name: "format", Strs: append([]string{name}, formatPool[name][0]...)})
	}
	return ks
}

func (g *gen) numberKws(integer bool) []KW {
	var ks []KW
	v := func() int64 {
		q := int64(g.r.Intn(25)) - 8
		if integer && g.r.Chance(80) {
			q = q / 4 * 4
		}
		return q
	}
	if g.r.Chance(45) {
		ks = append(ks, kwN("minimum", v()))
	}
	if g.r.Chance(45) {
		ks = append(ks, kwN("maximum", v()+8))
	}
	if g.r.Chance(20) {
		ks = append(ks, kwN("exclusiveMinimum", v()))
	}
	if g.r.Chance(20) {
		ks = append(ks, kwN("exclusiveMaximum", v()+8))
	}
	// both bound forms on one side: equal values, or one looser / tighter than the other
	if g.r.Chance(18) {
		b := v()
		d := hx.Pick(g.r, []int64{0, 0, 0, -4, 4, 1})
		if g.r.Bool() {
			ks = append(ks, kwN("minimum", b), kwN("exclusiveMinimum", b+d))
		} else {
			ks = append(ks, kwN("maximum", b+8), kwN("exclusiveMaximum", b+8+d))
		}
		ks = dedupKwsFirstLast(ks)
	}
	if g.r.Chance(20) {
		m := int64(1 + g.r.Intn(8))
		if integer {
			m = 4 * int64(1+g.r.Intn(3))
		}
		ks = append(ks, kwN("multipleOf", m))
	}
	return ks
}

func (g *gen) arrayKws(d int) []KW {
	var ks []KW
	if g.r.Chance(30) {
		n := 1 + g.r.Intn(3)
		var subs []*D
		for i := 0; i < n; i++ {
			subs = append(subs, g.doc(d-1))
		}
		ks = append(ks, KW{Name: "prefixItems", Subs: subs})
	}
	if g.r.Chance(65) {
		ks = append(ks, KW{Name: "items", Sub: g.doc(d - 1)})
	}
	if g.r.Chance(35) {
		ks = append(ks, kwN("minItems", int64(g.r.Intn(3))))
	}
	if g.r.Chance(35) {
		ks = append(ks, kwN("maxItems", int64(1+g.r.Intn(3))))
	}
	return ks
}

func (g *gen) objectKws(d int) []KW {
	var ks []KW
	var names []string
	if g.r.Chance(75) {
		n := 1 + g.r.Intn(3)
		var ps []Prop
		for i := 0; i < n; i++ {
			ps = append(ps, Prop{keys[i], g.doc(d - 1)})
			names = append(names, keys[i])
		}
		ks = append(ks, KW{Name: "properties", Props: ps})
	}
	if g.r.Chance(70) {
		var req []string
		for _, n := range names {
			if g.r.Chance(70) {
				req = append(req, n)
			}
		}
		if g.r.Chance(8) {
			req = append(req, "q")
		}
		ks = append(ks, KW{Name: "required", Strs: req})
	}
	switch g.r.Intn(6) {
	case 0, 1:
		ks = append(ks, KW{Name: "additionalProperties", Sub: bschema(false)})
	case 2:
		ks = append(ks, KW{Name: "additionalProperties", Sub: bschema(true)})
	case 3:
		ks = append(ks, KW{Name: "additionalProperties", Sub: g.doc(d - 1)})
	}
	return ks
}

func (g *gen) typed(t string, d int) []KW {
	switch t {
	case "string":
		return g.stringKws()
	case "number":
		return g.numberKws(false)
	case "integer":
		return g.numberKws(true)
	case "array":
		if d > 0 {
			return g.arrayKws(d)
		}
	case "object":
		if d > 0 {
			return g.objectKws(d)
		}
	}
	return nil
}

var allTypes = []string{"string", "number", "integer", "boolean", "null", "array", "object"}

func (g *gen) members(d, n int) []*D {
	var ms []*D
	for i := 0; i < n; i++ {
		ms = append(ms, g.doc(d-1))
	}
	return ms
}

func (g *gen) doc(d int) *D {
	k := g.r.Intn(100)
	var out *D
	switch {
	case k < 3:
		return bschema(g.r.Chance(70))
	case k < 7:
		out = node() // no keywords
	case k < 55 || d <= 0:
		ts := []string{"string", "string", "number", "number", "integer", "boolean", "null", "array", "array", "object", "object", "object"}
		t := hx.Pick(g.r, ts)
		out = node(append([]KW{kwT(t)}, g.typed(t, d)...)...)
	case k < 62:
		n := 1 + g.r.Intn(3) // a one-element type array is a class of its own
		seen := map[string]bool{}
		var ts []string
		for len(ts) < n {
			t := hx.Pick(g.r, allTypes)
			if !seen[t] {
				seen[t] = true
				ts = append(ts, t)
			}
		}
		kws := []KW{{Name: "types", Strs: ts}}
		for _, t := range ts {
			if g.r.Chance(50) {
				kws = append(kws, g.typed(t, d)...)
			}
		}
		out = node(dedupKws(kws)...)
	case k < 68:
		out = node(KW{Name: "const", Prims: []*J{g.scalar()}})
	case k < 76:
		n := 1 + g.r.Intn(3)
		ps := g.memberList(n, false)
		if g.r.Chance(35) { // all strings (the Enum path), incl. strings that spell other JSON values
			for i := range ps {
				if ps[i].T != "s" {
					ps[i] = jStr(hx.Pick(g.r, memberWords))
				}
			}
		}
		out = node(KW{Name: "enum", Prims: ps})
	case k < 83:
		out = node(KW{Name: "anyOf", Subs: g.members(d, 1+g.r.Intn(3))})
	case k < 88:
		out = node(KW{Name: "oneOf", Subs: g.members(d, 1+g.r.Intn(3))})
	case k < 91:
		out = node(KW{Name: "allOf", Subs: g.members(d, 1+g.r.Intn(3))})
	case k < 94:
		out = g.objectComposition(d)
	case k < 98:
		out = node(KW{Name: "ref", Sub: g.doc(d - 1)})
	default:
		out = node(kwT("string"), KW{Name: "other", Strs: []string{hx.Pick(g.r, otherNames)}})
	}
	// const / enum next to the type keyword(s) of its own members — the usual way such documents are written
	if out.Bool == nil && g.r.Chance(30) {
		for _, name := range []string{"const", "enum"} {
			if k := out.get(name); k != nil && out.get("type") == nil && out.get("types") == nil {
				if ts := memberTypes(k.Prims, g.r.Bool()); len(ts) == 1 {
					out.Kws = append(out.Kws, kwT(ts[0]))
				} else if len(ts) > 1 {
					out.Kws = append(out.Kws, KW{Name: "types", Strs: ts})
				}
				if g.r.Bool() {
					out.Kws[0], out.Kws[len(out.Kws)-1] = out.Kws[len(out.Kws)-1], out.Kws[0]
				}
			}
		}
	}
	// sibling keywords next to composition / const / enum / ref / a type (class c), and stray keywords
	if g.r.Chance(14) && out.Bool == nil {
		t := hx.Pick(g.r, []string{"string", "number", "array", "object"})
		extra := g.typed(t, d)
		if g.r.Chance(60) && out.get("type") == nil && out.get("types") == nil {
			extra = append([]KW{kwT(t)}, extra...)
		}
		out.Kws = dedupKws(append(out.Kws, extra...))
	}
	if g.r.Chance(3) && out.Bool == nil {
		out.Kws = dedupKws(append(out.Kws, KW{Name: "other", Strs: []string{hx.Pick(g.r, otherNames)}}))
	}
	if g.r.Chance(6) && out.Bool == nil {
		a := KW{Name: "other", Strs: []string{hx.Pick(g.r, annotationNames)}}
		if g.r.Bool() {
			out.Kws = dedupKws(append([]KW{a}, out.Kws...))
		} else {
			out.Kws = dedupKws(append(out.Kws, a))
		}
	}
	return out
}

// dedupKwsFirstLast keeps the LAST occurrence of each keyword (the deliberately paired bounds win).
func dedupKwsFirstLast(ks []KW) []KW {
	seen := map[string]bool{}
	var rev []KW
	for i := len(ks) - 1; i >= 0; i-- {
		if !seen[ks[i].Name] {
			seen[ks[i].Name] = true
			rev = append(rev, ks[i])
		}
	}
	for i, j := 0, len(rev)-1; i < j; i, j = i+1, j-1 {
		rev[i], rev[j] = rev[j], rev[i]
	}
	return rev
}

func dedupKws(ks []KW) []KW {
	seen := map[string]bool{}
	var out []KW
	for _, k := range ks {
		n := k.Name
		if n == "types" {
			n = "type"
		}
		if n == "other" {
			n = "other:" + k.Strs[0]
		}
		if seen[n] {
			continue
		}
		seen[n] = true
		out = append(out, k)
	}
	return out
}

// ---------------------------------------------------------------- instances

func strOfLen(n int64, c string) *J {
	if n < 0 {
		n = 0
	}
	return jStr(strings.Repeat(c, int(n)))
}

func (g *gen) cands(d *D, depth int) []*J {
	generic := []*J{jNull(), jBool(true), jInt(1), jQ(6), jStr("m"), jArr(), jObj()}
	if d.Bool != nil {
		return generic
	}
	var out []*J
	around := func(n int64, f func(int64) *J) { out = append(out, f(n), f(n-1), f(n+1)) }
	pre, suf := "", ""
	for _, k := range d.Kws {
		switch k.Name {
		case "pattern":
			switch k.Pat[0] {
			case "pre":
				pre = k.Pat[1]
			case "suf":
				suf = k.Pat[1]
			case "has":
				pre = k.Pat[1]
			}
		}
	}
	mk := func(n int64) *J {
		k := int(n) - len(pre) - len(suf)
		if k < 0 {
			k = 0
		}
		return jStr(pre + strings.Repeat("m", k) + suf)
	}
	for _, k := range d.Kws {
		switch k.Name {
		case "minLength", "maxLength":
			around(k.N, mk)
			out = append(out, strOfLen(k.N, "é"), strOfLen((k.N+1)/2, "é"))
		case "pattern":
			out = append(out, mk(3), jStr("q"+pre+suf+"Q"), jStr("MM"), jStr("mm"))
		case "format":
			if p, ok := formatPool[k.Strs[0]]; ok {
				for _, s := range append(append([]string{}, p[0]...), p[1]...) {
					out = append(out, jStr(s))
				}
			}
		case "minimum", "maximum", "exclusiveMinimum", "exclusiveMaximum":
			out = append(out, jQ(k.N), jQ(k.N-1), jQ(k.N+1), jQ(k.N/4*4), jQ(k.N/4*4+4), jQ(k.N/4*4-4))
		case "multipleOf":
			out = append(out, jQ(k.N), jQ(2*k.N), jQ(k.N+1), jQ(0))
		case "const", "enum":
			out = append(out, memberCands(k.Prims)...)
		case "items", "prefixItems", "minItems", "maxItems":
			// handled below (arrays are built once)
		case "anyOf", "oneOf", "allOf":
			out = append(out, g.jointObjectCands(k.Subs, depth)...)
			for _, m := range k.Subs {
				for i, c := range g.cands(m, depth+1) {
					if i < subLimit(m, 9) {
						out = append(out, c)
					}
				}
			}
		case "ref", "not":
			for i, c := range g.cands(k.Sub, depth+1) {
				if i < subLimit(k.Sub, 12) {
					out = append(out, c)
				}
			}
		}
	}
	// arrays
	items, prefix := d.get("items"), d.get("prefixItems")
	if items != nil || prefix != nil || d.get("minItems") != nil || d.get("maxItems") != nil {
		var pc [][]*J
		if prefix != nil {
			for _, m := range prefix.Subs {
				pc = append(pc, g.cands(m, depth+1))
			}
		}
		rc := []*J{jInt(1), jStr("m"), jNull()}
		if items != nil {
			rc = g.cands(items.Sub, depth+1)
		}
		build := func(n int) *J {
			var xs []*J
			for i := 0; i < n; i++ {
				if i < len(pc) {
					xs = append(xs, pc[i][0])
				} else {
					xs = append(xs, rc[0])
				}
			}
			return jArr(xs...)
		}
		for n := 0; n <= len(pc)+2; n++ {
			out = append(out, build(n))
		}
		for _, name := range []string{"minItems", "maxItems"} {
			if k := d.get(name); k != nil {
				out = append(out, build(int(k.N)), build(int(k.N)+1))
				if k.N > 0 {
					out = append(out, build(int(k.N)-1))
				}
			}
		}
		for i := range pc {
			for j, c := range pc[i] {
				if j > 0 && j < subLimit(prefix.Subs[i], 4) {
					b := build(len(pc))
					b.A[i] = c
					out = append(out, b)
				}
			}
		}
		for j, c := range rc {
			if j > 0 && (j < 5 || (items != nil && j < subLimit(items.Sub, 5))) {
				b := build(len(pc) + 1)
				b.A[len(pc)] = c
				out = append(out, b)
			}
		}
	}
	// objects
	props, req, addl := d.get("properties"), d.get("required"), d.get("additionalProperties")
	if props != nil || req != nil || addl != nil {
		base := jObj()
		if props != nil {
			for _, p := range props.Props {
				base = base.with(p.K, g.cands(p.D, depth+1)[0])
			}
		}
		if req != nil {
			for _, k := range req.Strs {
				if base.get(k) == nil {
					base = base.with(k, jInt(1))
				}
			}
		}
		out = append(out, base, jObj())
		for _, k := range base.Ks {
			out = append(out, base.without(k), base.without(k).with(k, jNull()))
		}
		if props != nil {
			for _, p := range props.Props {
				for j, c := range g.cands(p.D, depth+1) {
					if j > 0 && j < subLimit(p.D, 5) {
						out = append(out, base.without(p.K).with(p.K, c))
					}
				}
			}
		}
		out = append(out, base.with("zz", jInt(1)), base.with("zz", jStr("x")))
		if addl != nil {
			for j, c := range g.cands(addl.Sub, depth+1) {
				if j < subLimit(addl.Sub, 4) {
					out = append(out, base.with("zz", c), jObj().with("zz", c))
				}
			}
		}
	}
	if len(out) == 0 {
		out = append(out, jStr("mm"), jQ(2))
	}
	return append(out, generic...)
}

// subLimit: how many of a sub-schema's candidates a parent position uses. A const/enum sub-schema gets all its members
// and their relatives (members.go), so that a collision between two members shows below properties / items / anyOf too.
func subLimit(d *D, base int) int {
	if d != nil && d.Bool == nil {
		for _, name := range []string{"const", "enum"} {
			if k := d.get(name); k != nil {
				return base + 4*len(k.Prims) + 2
			}
		}
	}
	return base
}

// ---------------------------------------------------------------- strict-mode keyword table

var documented = map[string]bool{"type": true, "minLength": true, "maxLength": true, "pattern": true, "minimum": true, "maximum": true,
	"exclusiveMinimum": true, "exclusiveMaximum": true, "multipleOf": true, "items": true, "prefixItems": true, "minItems": true,
	"maxItems": true, "properties": true, "required": true, "additionalProperties": true, "const": true, "enum": true,
	"anyOf": true, "oneOf": true, "allOf": true, "format": true, "$ref": true}

var kwSamples = [][2]string{
	{"type", `"string"`}, {"minLength", `1`}, {"maxLength", `3`}, {"pattern", `"^a"`}, {"minimum", `1`}, {"maximum", `3`},
	{"exclusiveMinimum", `1`}, {"exclusiveMaximum", `3`}, {"multipleOf", `2`}, {"items", `{}`}, {"prefixItems", `[{}]`},
	{"minItems", `1`}, {"maxItems", `3`}, {"properties", `{"a":{}}`}, {"required", `["a"]`}, {"additionalProperties", `false`},
	{"const", `1`}, {"enum", `["a"]`}, {"anyOf", `[{}]`}, {"oneOf", `[{}]`}, {"allOf", `[{}]`}, {"format", `"email"`},
	{"not", `{"type":"string"}`}, {"if", `{}`}, {"then", `{}`}, {"else", `{}`}, {"patternProperties", `{"^a":{}}`},
	{"propertyNames", `{}`}, {"unevaluatedProperties", `false`}, {"unevaluatedItems", `false`}, {"dependentSchemas", `{"a":{}}`},
	{"dependentRequired", `{"a":["b"]}`}, {"contains", `{}`}, {"minContains", `1`}, {"maxContains", `2`}, {"uniqueItems", `true`},
	{"minProperties", `1`}, {"maxProperties", `2`}, {"contentEncoding", `"base64"`}, {"contentMediaType", `"application/json"`},
}

func b01(b bool) string { return hx.B01(b) }

func outcome(sch *lib.Schema, strict bool) (string, core.ZodSchema) {
	var z core.ZodSchema
	var err error
	pm := hx.Safely(func() { z, err = gozod.FromJSONSchema(sch, gozod.FromJSONSchemaOptions{StrictMode: strict}) })
	switch {
	case pm != "":
		return "panic", nil
	case err != nil:
		return "error", nil
	}
	return "ok", z
}

// intOnly: every position of the document that can see a number is an integer schema.
func intOnly(d *D) (ok bool, sawInt bool) {
	if d == nil {
		return true, false
	}
	if d.Bool != nil {
		return !*d.Bool, false
	}
	var types []string
	for _, k := range d.Kws {
		switch k.Name {
		case "type", "types":
			types = k.Strs
		case "const", "enum":
			for _, p := range k.Prims {
				if p.T == "q" || p.composite() {
					return false, false
				}
			}
			return true, false
		case "ref", "anyOf", "oneOf", "allOf", "other", "not", "format":
			return false, false
		}
	}
	if len(types) == 0 {
		return false, false
	}
	ok = true
	for _, t := range types {
		switch t {
		case "number":
			return false, false
		case "integer":
			sawInt = true
		case "array":
			for _, k := range d.Kws {
				var subs []*D
				if k.Name == "items" {
					subs = []*D{k.Sub}
				} else if k.Name == "prefixItems" {
					subs = k.Subs
				}
				for _, sd := range subs {
					o, si := intOnly(sd)
					ok = ok && o
					sawInt = sawInt || si
				}
			}
			if d.get("items") == nil {
				ok = false // untyped rest elements
			}
		case "object":
			return false, false
		}
	}
	return ok, sawInt
}

func intify(v any) any {
	switch x := v.(type) {
	case float64:
		if x == float64(int64(x)) {
			return int(x)
		}
	case []any:
		for i := range x {
			x[i] = intify(x[i])
		}
	}
	return v
}

func hasKnownFormat(d *D) bool {
	if d == nil || d.Bool != nil {
		return false
	}
	for _, k := range d.Kws {
		if k.Name == "format" {
			if _, ok := formatPool[k.Strs[0]]; ok {
				return true
			}
		}
		if hasKnownFormat(k.Sub) {
			return true
		}
		for _, s := range k.Subs {
			if hasKnownFormat(s) {
				return true
			}
		}
		for _, p := range k.Props {
			if hasKnownFormat(p.D) {
				return true
			}
		}
	}
	return false
}

// walkDocs visits a document and every sub-schema below it.
func walkDocs(d *D, f func(*D)) {
	if d == nil || d.Bool != nil {
		return
	}
	f(d)
	for _, k := range d.Kws {
		walkDocs(k.Sub, f)
		for _, s := range k.Subs {
			walkDocs(s, f)
		}
		for _, p := range k.Props {
			walkDocs(p.D, f)
		}
	}
}

func corpus() []*D {
	str := func(ks ...KW) *D { return node(append([]KW{kwT("string")}, ks...)...) }
	null := node(kwT("null"))
	p := func(k string, d *D) Prop { return Prop{k, d} }
	return []*D{
		node(kwT("integer")), // (a)
		node(KW{Name: "enum", Prims: []*J{jStr("a"), jInt(1), jNull(), jBool(true)}}), // (b)
		node(KW{Name: "const", Prims: []*J{jNull()}}),
		str(KW{Name: "allOf", Subs: []*D{node(kwN("minLength", 2))}}),                                  // (c)
		node(kwN("minLength", 3), KW{Name: "anyOf", Subs: []*D{str(), node(kwT("number"))}}),           // (c)
		str(kwN("minLength", 30), KW{Name: "format", Strs: append([]string{"email"}, formatPool["email"][0]...)}), // (c)
		node(KW{Name: "types", Strs: []string{"string", "integer"}}, kwN("minimum", 8)),               // (c)
		node(kwT("array"), KW{Name: "prefixItems", Subs: []*D{str(), node(kwT("number"))}}),            // (d)
		node(kwT("object"), KW{Name: "properties", Props: []Prop{p("a", str())}}, KW{Name: "additionalProperties", Sub: node(kwT("number"))}), // (e)
		node(KW{Name: "types", Strs: []string{"string", "null"}}),                                      // (f)
		node(KW{Name: "anyOf", Subs: []*D{str(), null}}),
		str(kwN("minLength", 2), kwN("maxLength", 3)), // (h)
		node(kwT("object"), KW{Name: "required", Strs: []string{"a"}}),
		node(kwT("object"), KW{Name: "properties", Props: []Prop{p("a", node(KW{Name: "enum", Prims: []*J{jStr("x")}})), p("b", node())}}),
		node(KW{Name: "ref", Sub: str()}, kwN("minLength", 3)),
		node(kwN("minLength", 2)),
		node(kwT("object"), KW{Name: "properties", Props: []Prop{p("a", str())}}, KW{Name: "required", Strs: []string{"a"}}),
		node(kwT("number"), kwN("multipleOf", 2), kwN("exclusiveMinimum", 0)),
		node(kwT("number"), kwN("minimum", 8), kwN("exclusiveMinimum", 8)),
		node(kwT("number"), kwN("maximum", 8), kwN("exclusiveMaximum", 8)),
		node(kwT("number"), kwN("minimum", 8), kwN("exclusiveMinimum", 4)),
		node(kwT("number"), kwN("minimum", 4), kwN("exclusiveMinimum", 8)),
		node(kwT("number"), kwN("maximum", 8), kwN("exclusiveMaximum", 12), kwN("minimum", 0), kwN("exclusiveMinimum", 0)),
		node(kwT("integer"), kwN("minimum", 8), kwN("exclusiveMinimum", 8)),
		node(kwT("integer"), kwN("maximum", 8), kwN("exclusiveMaximum", 8)),
		node(KW{Name: "enum", Prims: []*J{jQ(10), jStr("2.5"), jNull(), jStr("null")}}),
		node(KW{Name: "enum", Prims: []*J{jStr("false"), jBool(false), jStr("")}}),
		node(KW{Name: "enum", Prims: []*J{jStr("[2,[]]"), jArr(jInt(2), jArr()), jObj().with("a", jInt(1)), jStr("{\"a\":1}")}}),
		node(KW{Name: "const", Prims: []*J{jObj().with("a", jInt(1)).with("b", jArr())}}),
	}
}

func main() {
	if len(os.Args) == 4 && os.Args[1] == "-reads" {
		os.Exit(readsMain(os.Args[2], os.Args[3]))
	}
	cfg := hx.ParseFlags()
	out, err := hx.NewOut(cfg.OutDir)
	if err != nil {
		fmt.Fprintln(os.Stderr, err)
		os.Exit(3)
	}
	checkPool()
	for _, ks := range kwSamples {
		doc := `{"` + ks[0] + `":` + ks[1] + `}`
		obs := "compile-error"
		if sch, err := lib.NewCompiler().Compile([]byte(doc)); err == nil {
			o, _ := outcome(sch, true)
			obs = b01(documented[ks[0]]) + " " + b01(o != "ok")
		}
		out.Emit("c11 kw "+ks[0], obs)
	}
	emitFormats(out, hx.NewRng(cfg.Seed+7919), cfg.Thorough())
	g := &gen{r: hx.NewRng(cfg.Seed)}
	n := 650
	if cfg.Thorough() {
		n = 9000
	}
	docs := corpus()
	for i := 0; i < n; i++ {
		docs = append(docs, g.doc(2))
		if i%10 == 3 { // compositions of object schemas sharing property names (compose.go)
			docs = append(docs, g.objectComposition(2))
		}
		if i%8 == 0 { // root const / enum documents whose members may be arrays and objects
			if g.r.Chance(30) {
				docs = append(docs, node(KW{Name: "const", Prims: []*J{g.compositeVal(2)}}))
			} else {
				docs = append(docs, node(KW{Name: "enum", Prims: g.memberList(1+g.r.Intn(3), true)}))
			}
		}
	}
	seen := map[string]bool{}
	panics, skipped := 0, 0
	for _, d := range docs {
		text := d.String()
		if seen[text] {
			continue
		}
		seen[text] = true
		doc := d.Doc()
		comp := lib.NewCompiler()
		comp.SetAssertFormat(true)
		sch, err := comp.Compile([]byte(doc))
		if err != nil {
			skipped++
			continue
		}
		for _, k := range d.Kws {
			out.Count("kw:" + k.Name)
		}
		walkDocs(d, func(sd *D) {
			for _, name := range []string{"allOf", "anyOf", "oneOf"} {
				if k := sd.get(name); k != nil && len(k.Subs) > 1 {
					n, shared := 0, false
					seenP := map[string]bool{}
					for _, m := range k.Subs {
						if objectish(m) {
							n++
							if p := m.get("properties"); p != nil {
								for _, pr := range p.Props {
									shared = shared || seenP[pr.K]
								}
								for _, pr := range p.Props {
									seenP[pr.K] = true
								}
							}
						}
					}
					if n >= 2 {
						c := "composition:" + name + "-of-objects"
						if shared {
							c += "+shared-property"
						}
						out.Count(c)
					}
				}
			}
			for _, k := range sd.Kws {
				if k.Name == "const" || k.Name == "enum" {
					out.Count("members:" + memberClass(k.Prims))
				}
			}
		})
		o1, z := outcome(sch, false)
		o2, _ := outcome(sch, true)
		out.Count("conv:" + o1 + "/" + o2)
		out.Emit("c11 conv "+text, o1+" "+o2)
		if z == nil {
			continue
		}
		var rt *lib.Schema
		_ = hx.Safely(func() {
			if back, err := gozod.ToJSONSchema(z); err == nil {
				if raw, err := json.Marshal(back); err == nil {
					rc := lib.NewCompiler()
					rc.SetAssertFormat(true)
					rt, _ = rc.Compile(raw)
				}
			}
		})
		seenI := map[string]bool{}
		cs := g.cands(d, 0)
		if len(cs) > 70 {
			cs = cs[:70]
		}
		for _, in := range cs {
			it := in.String()
			if seenI[it] {
				continue
			}
			seenI[it] = true
			js := in.JSON()
			var v any
			_ = json.Unmarshal([]byte(js), &v)
			var perr error
			pm := hx.Safely(func() { _, perr = z.ParseAny(v) })
			if pm != "" {
				panics++
			}
			p := b01(perr == nil)
			if pm != "" {
				p = "!"
			}
			vv := b01(sch.ValidateJSON([]byte(js)).IsValid())
			r := "-"
			if hasKnownFormat(d) {
				r = "~" // ToJSONSchema of the dedicated format schemas is outside the model
			} else if rt != nil {
				r = b01(rt.ValidateJSON([]byte(js)).IsValid())
			}
			pi := "~"
			if io, si := intOnly(d); io && si {
				var v2 any
				_ = json.Unmarshal([]byte(js), &v2)
				v2 = intify(v2)
				var e2 error
				pm2 := hx.Safely(func() { _, e2 = z.ParseAny(v2) })
				pi = b01(pm2 == "" && e2 == nil)
			}
			obs := p + " " + vv + " " + r + " " + pi
			out.Count("verdict:" + obs)
			out.Emit("c11 inst "+text+" "+it, obs)
		}
	}
	_ = out.Close(map[string]any{"docs": len(seen), "parse_panics": panics, "uncompilable_docs_skipped": skipped, "format_pool_samples_dropped": poolDropped})
}
