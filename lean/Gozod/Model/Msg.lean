/-
  Model of message resolution (C18): internal/issues/finalize.go FinalizeIssue /
  ExtractConfigLevelError, the check-level message applied by internal/engine/checker.go
  executeChecks, and the *wiring* of an issue site: which of the message sources the code that
  raises the issue hands to FinalizeIssue.

  Transcribed after the fixes 79de057 (a nil config falls back to the global configuration), 3d47918 and
  9a0fec3 (the per-parse context reaches nested schemas), dbf0311 (message functions); the site tables are regenerated from
  /repo on every run (last pinned at 455c79d: 7990727, 870d509, eac1fcf, 453f053, 67fecb7, 3f5a91c, 455c79d landed).
-/
namespace Gozod.Msg

/-- the five configurable message sources, in the priority order of the property statement
    (the sixth, the built-in English text, is always there) -/
inductive Source where
  | check    -- the failing check's own message          String().Min(5, "…")
  | schema   -- the raising schema's own message          String("…")
  | parse    -- the per-parse error map                   Parse(v, &ParseContext{Error: …})
  | custom   -- the global custom error map               SetConfig(&ZodConfig{CustomError: …})
  | locale   -- the global locale                         SetConfig(locales.De())
  deriving DecidableEq, Repr, Inhabited

def Source.all : List Source := [.check, .schema, .parse, .custom, .locale]

/-! ## FinalizeIssue

  `ρ` is the raw issue; an error map is a function `ρ → String`; a source that is not configured
  is `none` (nil map / nil ctx / nil Inst). -/

abbrev ErrMap (ρ : Type) := ρ → String

structure Sources (ρ : Type) where
  /-- `iss.Message` on entry: the check's own message (executeChecks overwrites it with
      `(*ci.Def.Error)(iss)` when the check has one) or a text preset by the raising code -/
  rawMsg : String
  /-- ExtractSchemaLevelError: the error map reachable from `iss.Inst` -/
  inst : Option (ErrMap ρ)
  /-- `ctx.Error` -/
  parse : Option (ErrMap ρ)
  /-- `config.CustomError`, `config.LocaleError` (config = argument, or core.Config() when nil) -/
  custom : Option (ErrMap ρ)
  locale : Option (ErrMap ρ)
  /-- GenerateDefaultMessage -/
  dflt : ErrMap ρ

def app {ρ : Type} (m : Option (ErrMap ρ)) (iss : ρ) : String :=
  match m with
  | some f => f iss
  | none => ""

/-- ExtractConfigLevelError -/
def configLevel {ρ : Type} (custom locale : Option (ErrMap ρ)) (iss : ρ) : String :=
  let c := app custom iss
  if c ≠ "" then c else
  let l := app locale iss
  if l ≠ "" then l else ""

/-- FinalizeIssue's message, statement by statement -/
def finalize {ρ : Type} (s : Sources ρ) (iss : ρ) : String :=
  let message := s.rawMsg
  if message ≠ "" then message else
  let message := app s.inst iss
  let message := if message = "" then app s.parse iss else message
  let message := if message = "" then configLevel s.custom s.locale iss else message
  if message = "" then s.dflt iss else message

/-- the first non-empty string of a list, else the default -/
def firstNonEmpty : List String → String → String
  | [], d => d
  | m :: r, d => if m ≠ "" then m else firstNonEmpty r d

/-! ## Sites -/

/-- a set of sources -/
structure SrcSet where
  check : Bool
  schema : Bool
  parse : Bool
  custom : Bool
  locale : Bool
  deriving DecidableEq, Repr, Inhabited

def SrcSet.has (s : SrcSet) : Source → Bool
  | .check => s.check | .schema => s.schema | .parse => s.parse | .custom => s.custom | .locale => s.locale

def SrcSet.inter (a b : SrcSet) : SrcSet :=
  ⟨a.check && b.check, a.schema && b.schema, a.parse && b.parse, a.custom && b.custom, a.locale && b.locale⟩

def SrcSet.diff (a b : SrcSet) : SrcSet :=
  ⟨a.check && !b.check, a.schema && !b.schema, a.parse && !b.parse, a.custom && !b.custom, a.locale && !b.locale⟩

def SrcSet.subset (a b : SrcSet) : Bool :=
  (!a.check || b.check) && (!a.schema || b.schema) && (!a.parse || b.parse) && (!a.custom || b.custom) && (!a.locale || b.locale)

def SrcSet.empty : SrcSet := ⟨false, false, false, false, false⟩

/-- "cspgl" letters, as in the harness -/
def SrcSet.ofString (s : String) : SrcSet :=
  let cs := s.toList
  ⟨cs.contains 'c', cs.contains 's', cs.contains 'p', cs.contains 'g', cs.contains 'l'⟩

/-- an issue site: a leaf (issue kind raised by a schema type) below a wrapper, with the sources
    that can be configured for it and the sources its code hands to FinalizeIssue -/
structure Site where
  leaf : String
  wrapper : String
  kind : String
  applicable : SrcSet
  passes : SrcSet
  /-- what the message is when nothing is configured: "d" built-in text, "e" empty -/
  base : String
  /-- the sources that reach FinalizeIssue when the failing check has a message *function* that
      answers "" for the issue.  Equal to `passes` without `check` at every site except `Refine`:
      a refinement without a message presets the text "Invalid input" (nothing is consulted), one
      with a message function does not, so a declining function lets the lower sources through. -/
  passesSilentCheck : SrcSet
  deriving Repr, DecidableEq

/-- the winner the property demands: the first configured source in priority order, else the
    built-in text ("c" "s" "p" "g" "l" "d") -/
def firstConfigured (cfg : SrcSet) : String :=
  if cfg.check then "c" else if cfg.schema then "s" else if cfg.parse then "p"
  else if cfg.custom then "g" else if cfg.locale then "l" else "d"

/-- sentinel error maps: a configured source answers with its own tag -/
def sentinel (on : Bool) (tag : String) : Option (ErrMap Unit) := if on then some (fun _ => tag) else none

/-- the message a site produces under sentinel maps: FinalizeIssue applied to the sources that are
    both configured and passed by the site -/
def siteMessage (passes cfg : SrcSet) : String :=
  let on := passes.inter cfg
  finalize
    { rawMsg := if on.check then "c" else ""
      inst := sentinel on.schema "s"
      parse := sentinel on.parse "p"
      custom := sentinel on.custom "g"
      locale := sentinel on.locale "l"
      dflt := fun _ => "d" } ()

def Site.winner (s : Site) (cfg : SrcSet) : String :=
  let w := siteMessage s.passes cfg
  if w = "d" then s.base else w

/-- the winner when the sources in `silent ⊆ cfg` are message functions that answer "" -/
def Site.winnerSilent (s : Site) (cfg silent : SrcSet) : String :=
  let eff := cfg.diff silent
  let w := siteMessage (if silent.check then s.passesSilentCheck else s.passes) eff
  if w = "d" then s.base else w

/-! ## Round 4: the static catalogue of issue sites, issue-dependent maps, nesting -/

/-- one call in the library's source that creates an issue or reaches FinalizeIssue (regenerated by the go/ast
    translator harness/cmd/c18/sites.go into `Gen/IssueSites.lean`).
    * `cls`  "finalize" (FinalizeIssue itself) | "helper" (a function of internal/issues that reaches it, classified through
             the summary derived from ITS source) | "raw" (a raw issue is built and flows to a finaliser elsewhere) |
             "nested" (a nested schema's Parse: does the caller's context travel with it?) |
             "ctxcopy" (a ParseContext built field by field from the caller's: is the Error map among the fields?)
    * `ctx`  "caller" | "nil" | "fresh" | "unknown" | "-"      what is handed to FinalizeIssue as the ParseContext
    * `cfg`  "fallback" (nil → core.Config()) | "global" | "param" | "unknown" | "-"
    * `inst` "set" | "unset" | "flow" | "-"                    the raising schema / check instance on the raw issue
    * `msg`  "empty" | "preset" | "flow" | "-"                 a message written before the chain runs
    * `reached` the leaves of the behavioural catalogue whose issue this very call finalised (captured at run time)
    * `cells` / `dead`: leaf coverage (round 4b), see the fields -/
structure IssueSite where
  key : String      -- file:func:callee#k
  gkey : String     -- file:func:callee   (the key of the gap list; stable under line shifts)
  line : Nat
  inIssuesPkg : Bool
  cls : String
  code : String
  param : String
  ctx : String
  cfg : String
  inst : String
  msg : String
  reached : List String
  /-- round 4b: last line of the call, the called function, the first cell of the leaf-coverage search (harness/cmd/c18/reach.go:
      constructor family x modifier variant x input) whose parse resolved a message at this very call (runtime stack link), and
      whether the translator found the enclosing function unreachable from the public API (`deadFuncs`, by name) -/
  lineEnd : Nat := 0
  callee : String := ""
  cells : List String := []
  dead : Bool := false
  deriving Repr, DecidableEq

def IssueSite.reaches (s : IssueSite) : Bool := s.cls == "finalize" || s.cls == "helper"

/-- the sources the call does NOT hand on (check messages are applied by executeChecks before any of these calls).
    The helpers of internal/issues without an instance parameter are charged to their callers, not to themselves. -/
def IssueSite.drops (s : IssueSite) : SrcSet :=
  if s.msg == "preset" then ⟨false, true, true, true, true⟩ else
  let cfgBad := s.reaches && !(s.cfg == "fallback" || s.cfg == "global" || s.cfg == "param")
  ⟨false,
   s.reaches && s.inst == "unset" && !s.inIssuesPkg,
   (s.reaches || s.cls == "nested" || s.cls == "ctxcopy") && !(s.ctx == "caller"),
   cfgBad, cfgBad⟩

/-- the sources FinalizeIssue sees at a site that drops `d` -/
def dropSources {ρ : Type} (d : SrcSet) (s : Sources ρ) : Sources ρ :=
  { rawMsg := if d.check then "" else s.rawMsg
    inst := if d.schema then none else s.inst
    parse := if d.parse then none else s.parse
    custom := if d.custom then none else s.custom
    locale := if d.locale then none else s.locale
    dflt := s.dflt }

/-- features of a raw issue that the issue-dependent maps of the run look at -/
structure RawFeat where
  code : String
  inputIsString : Bool
  hasOrigin : Bool
  deriving Repr, DecidableEq

/-- does a map of the given kind answer for the issue?  (harness/cmd/c18/deep.go depAnswers)
    K always · T only invalid_type · N every code but invalid_type · I only for a string input · O only with an origin ·
    Z only too_small / too_big · F only invalid_format · E never -/
def depAnswers (kind : Char) (f : RawFeat) : Bool :=
  if kind == 'K' then true
  else if kind == 'T' then f.code == "invalid_type"
  else if kind == 'N' then !(f.code == "invalid_type")
  else if kind == 'I' then f.inputIsString
  else if kind == 'O' then f.hasOrigin
  else if kind == 'Z' then f.code == "too_small" || f.code == "too_big"
  else if kind == 'F' then f.code == "invalid_format"
  else false

/-- an issue-dependent error map: its tag when it answers, "" when it declines; '-' = source not configured -/
def depMap (kind : Char) (tag : String) : Option (ErrMap RawFeat) :=
  if kind == '-' then none else some (fun f => if depAnswers kind f then tag else "")

/-- the five sources of a `dep` cell; `spec` = the map kinds of c,s,p,g,l -/
def depSources (spec : List Char) (f : RawFeat) : Sources RawFeat :=
  let k := fun i => spec.getD i '-'
  { rawMsg := app (depMap (k 0) "c") f
    inst := depMap (k 1) "s"
    parse := depMap (k 2) "p"
    custom := depMap (k 3) "g"
    locale := depMap (k 4) "l"
    dflt := fun _ => "d" }

/-- complement within the five sources -/
def SrcSet.compl (a : SrcSet) : SrcSet := ⟨!a.check, !a.schema, !a.parse, !a.custom, !a.locale⟩

/-- model of a `dep` cell: FinalizeIssue on the sources the site passes -/
def Site.winnerDep (s : Site) (spec : List Char) (f : RawFeat) : String :=
  let silentCheck := (spec.getD 0 '-') != '-' && !(depAnswers (spec.getD 0 '-') f)
  let passes := if silentCheck then s.passesSilentCheck else s.passes
  let w := finalize (dropSources passes.compl (depSources spec f)) f
  if w = "d" then s.base else w

/-- what the property demands of a `dep` cell: the first configured source that has an answer for the issue -/
def specDep (spec : List Char) (f : RawFeat) : String :=
  let a := fun (i : Nat) (tag : String) => if depAnswers (spec.getD i '-') f then tag else ""
  firstNonEmpty [a 0 "c", a 1 "s", a 2 "p", a 3 "g", a 4 "l"] "d"

/-! ### nesting: a position (wrapper) parses the schema below it and re-reports its issues -/

/-- how a container position treats the issue of the schema nested in it:
    `forwardsCtx` the nested Parse receives the caller's context (else the per-parse map is lost below this position);
    re-reporting keeps the message the nested parse resolved (the issue comes back finalised, its Message non-empty,
    and FinalizeIssue returns a non-empty `iss.Message` unchanged). -/
structure Position where
  name : String
  forwardsCtx : Bool
  deriving Repr, DecidableEq

/-- the message of a leaf's issue below a chain of positions (outermost first): each position hands the sources on to the
    parse below it (dropping the per-parse map when it does not forward the context) and re-finalises what comes back
    with the message preset. -/
def nestedMessage {ρ : Type} (leafDrops : SrcSet) : List Position → Sources ρ → ρ → String
  | [], s, iss => finalize (dropSources leafDrops s) iss
  | p :: ps, s, iss =>
    let below := nestedMessage leafDrops ps (if p.forwardsCtx then s else { s with parse := none }) iss
    finalize { s with rawMsg := below } iss

end Gozod.Msg
