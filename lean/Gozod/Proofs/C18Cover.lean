/-
  C18, round 4b — (1) leaf coverage of the static catalogue of issue sites, (2) "every issue the library can produce" is closed
  under the creators of internal/issues (C04's regenerated `Gen/IssueCreators.lean`, `Gen/IssueCodes.lean`).
  See notes/C18.md.
-/
import Gozod.Model.Msg
import Gozod.Gen.IssueSites
import Gozod.Gen.LocaleTable
import Gozod.Gen.IssueCreators
import Gozod.Gen.IssueCodes
namespace Gozod.C18
open Gozod.Msg

/-! ## Leaf coverage: every finalising call is reached by the run, or is dead code, or is listed with a reason -/

/-- finalising calls (file:func:callee#k) that neither a leaf of the behavioural catalogue nor a cell of the coverage search
    (harness/cmd/c18/reach.go: 80+ constructor families x modifier variants x 57 inputs, plus typed entry points) reaches and
    that the translator does not find dead by name.  Reasons:
    * `conv`   engine: the final `CreateInvalidTypeError` of a convert-to-constraint-type helper; taken only when a validated value
               of type T (or *T, **T) is not convertible to the schema's constraint type R — for the instantiations the library
               makes (R ∈ {T, *T}) `convertToType` succeeds first.  Not proved unreachable: no input of the search takes it.
    * `nil`    engine: the fall-through after `processModifiers` in handleNil*: processModifiersCore answers `handled = true`
               for every nil input except a prefault, and the callers resolve a prefault before they call handleNil*.
    * `strict` engine: StrictParse paths whose input is already of the constraint type; the type switch before them is total
               for the types the library instantiates.
    * `typed`  types: the default branch of `switch result.(type)` after engine.ParseComplex — ParseComplex only yields
               T, *T or nil, which the preceding cases take.
    * `guard`  types: a guard for a schema value that the constructors cannot produce (nil internals, nil validator).
    * `preset` the issue's message is written before FinalizeIssue runs (a foreign error text): no message source is consulted
               there, so the recording map that makes the runtime link is never called.  The call IS executed by the run
               (cells `Intersection…`, `StructShape…`), it just cannot be attributed by the stack link.
    * `fold`   finalize.go: MapPropertiesToIssue re-finalises an `element_error` that was finalised before (message preset).
    * `rereport` the raw issues handed to CreateArrayValidationIssues at this call are the element / field issues the nested parse
               has finalised already (message preset); the container's own issues take another call.  Executed by the run
               (every container leaf with a failing element), not attributable by the stack link. -/
def unreachedListed : List (String × String) := [
  ("internal/engine/parser.go:ParseComplexStrict:CreateInvalidTypeError#1", "strict"),
  ("internal/engine/parser.go:handleNilPointer:CreateInvalidTypeError#1", "nil"),
  ("internal/engine/parser.go:handleNilComplex:CreateInvalidTypeError#1", "nil"),
  ("internal/engine/parser.go:coerceToType:CreateInvalidTypeError#1", "conv"),
  ("internal/engine/parser.go:convertNonNilToConstraintType:CreateInvalidTypeError#1", "conv"),
  ("internal/engine/parser.go:convertToDoublePtr:CreateInvalidTypeError#1", "conv"),
  ("internal/engine/parser.go:convertToPtr:CreateInvalidTypeError#1", "conv"),
  ("internal/engine/parser.go:convertToValue:CreateInvalidTypeError#1", "conv"),
  ("internal/engine/parser.go:parseTypedValue:CreateInvalidTypeError#1", "conv"),
  ("internal/engine/parser.go:parseTypedValue:CreateInvalidTypeError#2", "conv"),
  ("internal/engine/parser.go:validateAndReturn:CreateInvalidTypeError#1", "conv"),
  ("internal/engine/parser.go:parsePrimitiveStrictNil:CreateInvalidTypeError#1", "strict"),
  ("internal/engine/parser.go:parsePrimitiveStrictWithChecks:CreateInvalidTypeError#1", "strict"),
  ("internal/engine/parser.go:handleNilPointerStrict:CreateInvalidTypeError#1", "nil"),
  ("internal/engine/parser.go:applyTransformToResult:CreateInvalidTypeError#1", "conv"),
  ("internal/issues/creators.go:CreateCustomError:FinalizeIssue#1", "preset"),
  ("internal/issues/finalize.go:FinalizeIssue:MapPropertiesToIssue#1", "fold"),
  ("internal/issues/finalize.go:MapPropertiesToIssue:FinalizeIssue#1", "fold"),
  ("types/array.go:ZodArray.Parse:CreateInvalidTypeError#1", "typed"),
  ("types/array.go:ZodArray.validate:CreateInvalidTypeError#1", "guard"),
  ("types/enum.go:ZodEnum.validateEnum:CreateArrayValidationIssues#1", "preset"),
  ("types/intersection.go:collectSchemaIssues:FinalizeIssue#1", "preset"),
  ("types/intersection.go:ZodIntersection.validateValue:FinalizeIssue#1", "preset"),
  ("types/intersection.go:mergeMaps:CreateIncompatibleTypesError#1", "guard"),
  ("types/intersection.go:mergeSlices:CreateIncompatibleTypesError#1", "guard"),
  ("types/intersection.go:mergeSlices:CreateIncompatibleTypesError#2", "guard"),
  ("types/map.go:ZodMap.Parse:CreateTypeConversionError#1", "typed"),
  ("types/map.go:ZodMap.extractType:CreateNonOptionalError#1", "nil"),
  ("types/map.go:ZodMap.validateMap:CreateArrayValidationIssues#1", "rereport"),
  ("types/never.go:newNeverValidator:CreateInvalidTypeError#1", "guard"),
  ("types/nil.go:nilValidator:CreateInvalidTypeError#1", "guard"),
  ("types/object.go:ZodObject.Parse:CreateTypeConversionError#1", "typed"),
  ("types/record.go:ZodRecord.Parse:CreateTypeConversionError#1", "typed"),
  ("types/record.go:ZodRecord.validateRecord:CreateInvalidTypeError#1", "guard"),
  ("types/set.go:ZodSet.Parse:CreateTypeConversionError#1", "typed"),
  ("types/set.go:ZodSet.validateForEngine:CreateArrayValidationIssues#1", "rereport"),
  ("types/struct.go:ZodStruct.Parse:CreateTypeConversionError#1", "typed"),
  ("types/struct.go:ZodStruct.createStructTypeError:CreateCustomError#1", "preset"),
  ("types/struct.go:ZodStruct.parseStructWithDefaults:CreateInvalidTypeError#1", "nil"),
  ("types/struct.go:ZodStruct.parseStructWithDefaults:CreateInvalidTypeError#2", "nil"),
  ("types/struct.go:ZodStruct.parseStructWithDefaults:CreateArrayValidationIssues#1", "rereport"),
  ("types/tuple.go:ZodTuple.Parse:CreateInvalidTypeError#1", "typed"),
  ("types/tuple.go:ZodTuple.validateTupleForEngine:CreateArrayValidationIssues#1", "rereport")]

def siteCovered (s : IssueSite) : Bool :=
  !s.reaches || !s.reached.isEmpty || !s.cells.isEmpty || s.dead || (unreachedListed.lookup s.key).isSome

/-- **c18_sites_covered** (decided over the regenerated table): every call that reaches FinalizeIssue is reached by a leaf of
    the behavioural catalogue or by a cell of the coverage search (runtime stack link), or lies in a function the translator
    finds unreachable from the public API, or is listed in `unreachedListed` with its reason.  A new finalising call that no
    cell reaches changes this obligation. -/
theorem c18_sites_covered : ∀ s ∈ Gozod.Gen.issueSites, siteCovered s = true := by
  decide +kernel

/-- the coverage is not vacuous: at least 50 finalising calls carry a runtime witness -/
theorem c18_sites_witnessed :
    (Gozod.Gen.issueSites.filter fun s => s.reaches && (!s.reached.isEmpty || !s.cells.isEmpty)).length ≥ 50 := by
  decide +kernel

/-! ## Static table = run, for the calls only the coverage search reaches (audit M6: `c18_static_dynamic` alone is vacuous for
    the rows without a leaf) -/

def srcUnion' (a b : SrcSet) : SrcSet :=
  ⟨a.check || b.check, a.schema || b.schema, a.parse || b.parse, a.custom || b.custom, a.locale || b.locale⟩

/-- one observation of the run agrees with the static rows: with only `src` configured the message is that source's iff
    neither the row of the first frame outside internal/issues nor the row of FinalizeIssue's caller drops it -/
def reachObsOk (o : String × String × String × String) : Bool :=
  match Gozod.Gen.issueSites.find? (fun s => s.key == o.1), Gozod.Gen.issueSites.find? (fun s => s.key == o.2.1) with
  | some ro, some rf => siteMessage (srcUnion' ro.drops rf.drops).compl (.ofString o.2.2.1) == o.2.2.2
  | _, _ => false

/-- **c18_static_dynamic_cells** (decided over the regenerated tables): every observation of the coverage search — a
    constructor family x variant x input whose parse resolved a message at a call of the static table, parsed again with one
    source configured — shows exactly what the go/ast table says about that call: a source the rows hand on decides the
    message, a source a row drops does not. -/
theorem c18_static_dynamic_cells : ∀ o ∈ Gozod.Gen.reachObs, reachObsOk o = true := by
  decide +kernel

theorem c18_reach_obs_nonvacuous : Gozod.Gen.reachObs.length ≥ 100 := by
  decide +kernel

/-! ## The producible set is closed under the creators -/

open Gozod.Gen in
def codeName (i : Nat) : String := (IssueCodes.codes.getD i ("?", "?")).2

/-- the issue codes a creator of internal/issues stamps on what it yields, resolved through the callee chain of C04's table
    (`.consts` = constants of core; `.callee` = whatever creator number j yields; `.param` / `.inherit` = the caller's code or
    an existing issue's: nothing new).  "?" = not resolved. -/
def codesOf : Nat → Gozod.Gen.IssueCreators.Creator → List String
  | 0, _ => ["?"]
  | fuel + 1, c =>
    let raw := fun (r : Gozod.Gen.IssueCreators.Raw) =>
      match r.code with
      | .consts idx => idx.map codeName
      | .callee =>
        match r.kind with
        | .via j =>
          match Gozod.Gen.IssueCreators.creators[j]? with
          | some c' => codesOf fuel c'
          | none => ["?"]
        | _ => ["?"]
      | .param => []
      | .inherit => []
      | .unknown => ["?"]
    c.raws.flatMap raw ++ c.errs.flatMap (fun e => e.issues.flatMap (fun p => raw p.2))

def splitBar : List Char → List Char → List (List Char)
  | [], acc => [acc.reverse]
  | c :: r, acc => if c == '|' then acc.reverse :: splitBar r [] else splitBar r (c :: acc)

def codesOfSite (s : IssueSite) : List String := (splitBar s.code.toList []).map String.ofList

def underscore (p : String) : String := String.ofList (p.toList.map fun c => if c == ' ' then '_' else c)

/-- the columns of the locale parameter table that a call of the static catalogue can produce: its code(s) with the literal
    origin / format / expected type it names (the same function as `producible_kinds` of vlib/c18.py, now in Lean) -/
def siteKinds (s : IssueSite) : List String :=
  if s.cls == "nested" then [] else
  let p := underscore s.param
  (codesOfSite s).flatMap fun code =>
    if code == "invalid_type" then [if p == "" then "invalid_type:bare" else "invalid_type:" ++ p ++ ":in-string"]
    else if code == "too_small" || code == "too_big" then [code ++ ":" ++ p ++ ":th1:inc1"]
    else if code == "invalid_format" then ["invalid_format:" ++ p ++ ":det0"]
    else if code == "invalid_key" || code == "invalid_element" then [code ++ ":" ++ p]
    else if code == "not_multiple_of" then ["not_multiple_of:div1"]
    else if code == "unrecognized_keys" then ["unrecognized_keys:n1"]
    else if code == "invalid_value" then ["invalid_value:n2"]
    else if code == "invalid_union" then ["invalid_union:errors"]
    else if code == "custom" || code == "missing_required" || code == "type_conversion" || code == "invalid_schema"
      || code == "incompatible_types" then [code ++ ":props"]
    else []

/-- **c18_producible_closed**: every call of the static catalogue that creates or finalises an issue names a (code, origin /
    format / expected type) that is a column of the locale parameter table — decided over the regenerated tables with the
    key function in Lean, so that the producible set no longer rests on the Python writer. -/
theorem c18_producible_closed :
    ∀ s ∈ Gozod.Gen.issueSites, ∀ k ∈ siteKinds s, Gozod.Gen.localeKinds.contains k = true := by
  decide +kernel

/-- **c18_creator_codes_columns**: every issue code that a creator of internal/issues can stamp on an issue (C04's go/ast table
    of creators.go, every return statement, resolved through the callee chain) has its columns in the parameter table: the
    bare code and the code with its properties. -/
theorem c18_creator_codes_columns :
    ∀ c ∈ Gozod.Gen.IssueCreators.creators, ∀ k ∈ codesOf 6 c, Gozod.Gen.localeKinds.contains (k ++ ":bare") = true := by
  decide +kernel

/-- every declared issue code (core/constants.go) has a bare column -/
theorem c18_declared_codes_columns :
    ∀ c ∈ Gozod.Gen.IssueCodes.codes, Gozod.Gen.localeKinds.contains (c.2 ++ ":bare") = true := by
  decide +kernel

/-- closure: a creator called anywhere in the library is in C04's table or is not a function of internal/issues' creators.go
    (the rows whose callee starts with "Create" and that create or finalise an issue) -/
def createCallee (s : IssueSite) : Bool :=
  s.callee.startsWith "Create" && (s.cls == "raw" || s.cls == "helper")

def sameCodes (a b : List String) : Bool := a.all (b.contains ·) && b.all (a.contains ·)

/-- **c18_sites_agree_with_creators**: the two independent go/ast translators agree — wherever a call of C18's static
    catalogue calls a creator that C04's table resolves to constant codes, the code C18's translator recorded for the call
    (hand-kept `creatorCode` map / helper summaries of sites.go) is exactly that set. -/
def siteAgrees (s : IssueSite) : Bool :=
  match Gozod.Gen.IssueCreators.creators.find? (fun c => c.name == s.callee) with
  | some c =>
    let cs := codesOf 6 c
    -- an unresolved code ("?") is a FAILURE; an empty list means the creator takes its code from its caller (`.param`) or
    -- copies an existing issue's (`.inherit`): nothing to compare
    !cs.contains "?" && (cs.isEmpty || sameCodes cs (codesOfSite s))
  | none => !createCallee s   -- a Create… call that C04's table does not know is a failure (see c18_creators_closed)

theorem c18_sites_agree_with_creators : ∀ s ∈ Gozod.Gen.issueSites, siteAgrees s = true := by
  decide +kernel

theorem c18_creators_closed :
    ∀ s ∈ Gozod.Gen.issueSites, createCallee s = true →
      (Gozod.Gen.IssueCreators.creators.any fun c => c.name == s.callee) = true := by
  decide +kernel

example : codesOf 6 ⟨"x", true, [], [⟨false, none, "", true,
    [(true, ⟨.via 3, "CreateTooBigIssue", .callee, .callee, false⟩)], false⟩]⟩ = ["too_big"] := by decide +kernel

end Gozod.C18
