/-
  C08 at the level of CONTENT for object schemas (types/object.go, types/struct.go): Shape, PartialExceptions,
  UnknownKeys, Catchall, IsPartial are modelled with their contents (`Model/StoreC08.lean` §5), the derivations
  Extend / SafeExtend / Merge / Pick / Omit / Partial / Required / Strict / Strip / Passthrough / WithCatchall (and every
  common chaining call) as store operations.

    c08o_step        one derivation: every live object schema keeps its whole observation (common part, Shape content,
                     exception set, mode, catchall, partial flag); the result is well-formed and new
    c08o_behaviour   … hence the same verdict on every input and the same JSON Schema object part (corollary, for every
                     member oracle)
    c08o_hist        along every history of derivations (any receivers, fan-outs, failing Pick/Omit included)
    extend_content / pick_content / omit_content / partialKeys_content / requiredKeys_content / mode_content /
    catchall_content what the RESULT of each derivation contains
    shapeGet_set     a map store reads back
    partial_makes_optional / required_keeps_required   value-level consequences for `fieldOptional`
-/
import Gozod.Proofs.C08Methods

namespace Gozod.C08
open Gozod.Store Gozod.StoreC08

def WfO (σ : Store) (x : OSchema) : Prop :=
  WfS σ x.s ∧ (∀ l ∈ optLoc x.exc, l < σ.next) ∧ (∀ l ∈ optLoc x.req, l < σ.next)

/-- **obsO_frame** -/
theorem obsO_frame {σ σ' : Store} (x : OSchema) (hw : WfO σ x) (he : ExtFrom σ.next σ σ') :
    obsO σ'.heap x = obsO σ.heap x := by
  simp only [obsO, obs_frame x.s hw.1 he, readVals_congr x.exc (fun l hl => he.2 l (hw.2.1 l hl)),
    readVals_congr x.req (fun l hl => he.2 l (hw.2.2 l hl))]

theorem wfo_frame {σ σ' : Store} (x : OSchema) (hw : WfO σ x) (he : ExtFrom σ.next σ σ') : WfO σ' x :=
  ⟨wfs_frame x.s hw.1 he, fun l hl => Nat.lt_of_lt_of_le (hw.2.1 l hl) he.1,
   fun l hl => Nat.lt_of_lt_of_le (hw.2.2 l hl) he.1⟩

theorem lt4 (n : Nat) : n < n+1+1+1+1 ∧ n+1 < n+1+1+1+1 ∧ n+1+1 < n+1+1+1+1 ∧ n+1+1+1 < n+1+1+1+1 := by omega
theorem le3 (n : Nat) : n ≤ n+1+1+1 := by omega

/-- `ObjectTyped(newShape)`: four allocations, nothing old written; the result is well-formed and new. -/
theorem objConstruct_spec (σ : Store) (kind : Nat) (sh : ShapeV) (cks : List Nat) (hc : BagClosed σ) :
    ExtFrom σ.next σ (objConstruct σ kind sh cks).1 ∧ BagClosed (objConstruct σ kind sh cks).1 ∧
    WfO (objConstruct σ kind sh cks).1 (objConstruct σ kind sh cks).2 ∧
    σ.next ≤ (objConstruct σ kind sh cks).2.s.self := by
  have t1 := T_alloc σ.next σ (.arr cks) (Nat.le_refl _) (fun _ => cellOk_arr _ _)
  have t2 := T_alloc σ.next (alloc σ (.arr cks)).1 (.bag []) (by simp [alloc]) (fun _ => by intro p hp; simp at hp)
  have t3 := T_alloc σ.next (alloc (alloc σ (.arr cks)).1 (.bag [])).1 (.shape sh) (by simp [alloc]; omega)
    (fun _ => cellOk_shape _ _)
  have t4 := T_alloc σ.next (alloc (alloc (alloc σ (.arr cks)).1 (.bag [])).1 (.shape sh)).1 (.reg none)
    (by simp [alloc]; omega) (fun _ => cellOk_reg _ _)
  have tt := t1.trans (t2.trans (t3.trans t4))
  simp only [objConstruct]
  refine ⟨tt.1, tt.2 hc, ⟨wfs_of_direct _ (tt.2 hc) _ ?_ ?_, ?_⟩, ?_⟩
  · intro l hl
    simp only [direct, optLoc, dfltLocs, alloc, List.mem_cons, List.mem_append, List.not_mem_nil, or_false] at hl ⊢
    rcases hl with rfl | rfl | rfl | rfl
    · exact (lt4 _).2.2.2
    · exact (lt4 _).1
    · exact (lt4 _).2.1
    · exact (lt4 _).2.2.1
  · intro h; simp only at h ⊢; exact h
  · exact ⟨fun l hl => by simp [optLoc] at hl, fun l hl => by simp [optLoc] at hl⟩
  · simp only [alloc]; exact le3 _

/-- Clone + `newObjectInternals` + field updates (+ fresh key sets). -/
theorem objDerive_spec (cfg : Cfg) (hcfg : cfg.cloneBagAlways = true) (σ : Store) (recv : OSchema) (v : ObjV)
    (exc req : SlotAct) (hc : BagClosed σ) (hw : WfO σ recv) :
    ExtFrom σ.next σ (objDerive cfg σ recv v exc req).1 ∧ BagClosed (objDerive cfg σ recv v exc req).1 ∧
    WfO (objDerive cfg σ recv v exc req).1 (objDerive cfg σ recv v exc req).2 ∧
    σ.next ≤ (objDerive cfg σ recv v exc req).2.s.self := by
  obtain ⟨he, hb, hws, hs⟩ := applyOp_spec cfg hcfg σ recv.s (.derive recv.s.flags [] none) hc hw.1 trivial rfl
  have h1 : ∀ l ∈ optLoc recv.exc, l < (applyOp cfg σ recv.s (.derive recv.s.flags [] none)).1.next :=
    fun l hl => Nat.lt_of_lt_of_le (hw.2.1 l hl) he.1
  obtain ⟨e1, b1, l1⟩ := applySlot_spec σ.next _ recv.exc exc he.1 h1 hb
  obtain ⟨e1', _, _⟩ := applySlot_spec (applyOp cfg σ recv.s (.derive recv.s.flags [] none)).1.next _ recv.exc exc
    (Nat.le_refl _) h1 hb
  have n1 := e1'.1
  have h2 : ∀ l ∈ optLoc recv.req, l < (applySlot (applyOp cfg σ recv.s (.derive recv.s.flags [] none)).1 recv.exc exc).1.next :=
    fun l hl => Nat.lt_of_lt_of_le (hw.2.2 l hl) (Nat.le_trans he.1 n1)
  obtain ⟨e2, b2, l2⟩ := applySlot_spec σ.next _ recv.req req (Nat.le_trans he.1 n1) h2 b1
  obtain ⟨e2', _, _⟩ := applySlot_spec (applySlot (applyOp cfg σ recv.s (.derive recv.s.flags [] none)).1 recv.exc exc).1.next _
    recv.req req (Nat.le_refl _) h2 b1
  simp only [objDerive]
  refine ⟨he.trans (e1.trans e2), b2, ⟨wfs_frame _ (wfs_frame _ hws e1') e2', ?_, l2⟩, hs⟩
  intro l hl
  exact Nat.lt_of_lt_of_le (l1 l hl) e2'.1

def _root_.Gozod.StoreC08.ObjOp.ok : ObjOp → Prop
  | .common op => Op.ok op ∧ op.isMetaSelf = false
  | _ => True

/-- **applyObjOp_spec**: every derivation that yields a result writes only fresh locations. -/
theorem applyObjOp_spec (cfg : Cfg) (hcfg : cfg.cloneBagAlways = true) (σ : Store) (recv : OSchema) (o : ObjOp)
    (r : Store × OSchema) (hc : BagClosed σ) (hw : WfO σ recv) (hok : o.ok) (hr : applyObjOp cfg σ recv o = some r) :
    ExtFrom σ.next σ r.1 ∧ BagClosed r.1 ∧ WfO r.1 r.2 ∧ σ.next ≤ r.2.s.self := by
  cases o with
  | extend aug keep => simp only [applyObjOp, Option.some.injEq] at hr; subst hr; exact objConstruct_spec σ _ _ _ hc
  | pick ks =>
    simp only [applyObjOp, Option.map_eq_some_iff] at hr
    obtain ⟨sh, _, rfl⟩ := hr
    exact objConstruct_spec σ _ _ _ hc
  | omitKeys ks =>
    simp only [applyObjOp, Option.map_eq_some_iff] at hr
    obtain ⟨sh, _, rfl⟩ := hr
    exact objConstruct_spec σ _ _ _ hc
  | partialAll => simp only [applyObjOp, Option.some.injEq] at hr; subst hr; exact objDerive_spec cfg hcfg σ recv _ _ _ hc hw
  | partialKeys ks =>
    simp only [applyObjOp] at hr
    split at hr <;> (simp only [Option.some.injEq] at hr; subst hr; exact objDerive_spec cfg hcfg σ recv _ _ _ hc hw)
  | requiredAll => simp only [applyObjOp, Option.some.injEq] at hr; subst hr; exact objDerive_spec cfg hcfg σ recv _ _ _ hc hw
  | requiredKeys ks =>
    simp only [applyObjOp] at hr
    split at hr <;> (simp only [Option.some.injEq] at hr; subst hr; exact objDerive_spec cfg hcfg σ recv _ _ _ hc hw)
  | mode m => simp only [applyObjOp, Option.some.injEq] at hr; subst hr; exact objDerive_spec cfg hcfg σ recv _ _ _ hc hw
  | catchall c => simp only [applyObjOp, Option.some.injEq] at hr; subst hr; exact objDerive_spec cfg hcfg σ recv _ _ _ hc hw
  | common op =>
    simp only [applyObjOp, Option.some.injEq] at hr
    subst hr
    obtain ⟨he, hb, hws, hs⟩ := applyOp_spec cfg hcfg σ recv.s op hc hw.1 hok.1 hok.2
    exact ⟨he, hb, ⟨hws, fun l hl => Nat.lt_of_lt_of_le (hw.2.1 l hl) he.1,
      fun l hl => Nat.lt_of_lt_of_le (hw.2.2 l hl) he.1⟩, hs⟩

structure InvO (σ : Store) (live : List OSchema) : Prop where
  closed : BagClosed σ
  wf : ∀ x ∈ live, WfO σ x

/-- **c08o_step**: a derivation leaves the whole observation — Shape CONTENT, exception set, unknown-keys mode, catchall,
    partial flag, and the common part — of every live object schema unchanged; its result is a new, well-formed schema. -/
theorem c08o_step (cfg : Cfg) (hcfg : cfg.cloneBagAlways = true) (σ : Store) (live : List OSchema) (recv : OSchema)
    (o : ObjOp) (r : Store × OSchema) (hi : InvO σ live) (hrv : recv ∈ live) (hok : o.ok)
    (hr : applyObjOp cfg σ recv o = some r) :
    InvO r.1 (live ++ [r.2]) ∧ (∀ x ∈ live, obsO r.1.heap x = obsO σ.heap x) ∧ (∀ x ∈ live, x.s.self ≠ r.2.s.self) := by
  obtain ⟨he, hb, hw, hs⟩ := applyObjOp_spec cfg hcfg σ recv o r hi.closed (hi.wf recv hrv) hok hr
  refine ⟨⟨hb, ?_⟩, fun x hx => obsO_frame x (hi.wf x hx) he, fun x hx e => ?_⟩
  · intro x hx
    simp only [List.mem_append, List.mem_singleton] at hx
    rcases hx with h | rfl
    · exact wfo_frame x (hi.wf x h) he
    · exact hw
  · have : x.s.self < σ.next := (hi.wf x hx).1.1 _ (by simp [locs, direct])
    rw [e] at this
    exact Nat.not_le_of_lt this hs

/-- **c08o_behaviour**: … hence the same verdict on every input and the same JSON-Schema object part, whatever the member
    schemas do (`memberOk`, `memberOpt` are arbitrary). -/
theorem c08o_behaviour (cfg : Cfg) (hcfg : cfg.cloneBagAlways = true) (σ : Store) (live : List OSchema) (recv : OSchema)
    (o : ObjOp) (r : Store × OSchema) (hi : InvO σ live) (hrv : recv ∈ live) (hok : o.ok)
    (hr : applyObjOp cfg σ recv o = some r) (memberOk : Loc → Nat → Bool) (memberOpt : Loc → Bool) :
    ∀ x ∈ live,
      (∀ inp, objParse (obsO r.1.heap x) memberOk memberOpt inp = objParse (obsO σ.heap x) memberOk memberOpt inp) ∧
      objDoc (obsO r.1.heap x) memberOpt = objDoc (obsO σ.heap x) memberOpt := by
  intro x hx
  have := (c08o_step cfg hcfg σ live recv o r hi hrv hok hr).2.1 x hx
  simp [this]

def objOpsOK (ops : List (Nat × ObjOp)) : Prop := ∀ p ∈ ops, p.2.ok

/-- **c08o_hist**: along every history of object derivations every schema live at the start is observed unchanged at the
    end (failing Pick / Omit calls included: they produce nothing and change nothing). -/
theorem c08o_hist (cfg : Cfg) (hcfg : cfg.cloneBagAlways = true) (ops : List (Nat × ObjOp)) :
    ∀ (σ : Store) (live : List OSchema), InvO σ live → objOpsOK ops →
    InvO (runObjHist cfg σ live ops).1 (runObjHist cfg σ live ops).2 ∧
    live <+: (runObjHist cfg σ live ops).2 ∧
    ∀ x ∈ live, obsO (runObjHist cfg σ live ops).1.heap x = obsO σ.heap x := by
  induction ops with
  | nil => intro σ live hi _; exact ⟨hi, List.prefix_refl _, fun _ _ => rfl⟩
  | cons p rest ih =>
    intro σ live hi hok
    obtain ⟨i, o⟩ := p
    have hrest : objOpsOK rest := fun q hq => hok q (List.mem_cons_of_mem _ hq)
    simp only [runObjHist]
    cases hl : live[i]? with
    | none => exact ih σ live hi hrest
    | some recv =>
      have hrv : recv ∈ live := List.mem_of_getElem? hl
      dsimp only
      cases ha : applyObjOp cfg σ recv o with
      | none => exact ih σ live hi hrest
      | some r =>
        dsimp only
        obtain ⟨hi', hobs, _⟩ := c08o_step cfg hcfg σ live recv o r hi hrv (hok (i, o) (List.mem_cons_self ..)) ha
        obtain ⟨hi2, hp2, ho2⟩ := ih _ _ hi' hrest
        refine ⟨hi2, List.IsPrefix.trans (List.prefix_append _ _) hp2, fun x hx => ?_⟩
        rw [ho2 x (List.mem_append_left _ hx), hobs x hx]

/-! ### what the RESULT contains -/

theorem objConstruct_content (σ : Store) (kind : Nat) (sh : ShapeV) (cks : List Nat) :
    (obsO (objConstruct σ kind sh cks).1.heap (objConstruct σ kind sh cks).2).base.shape = some sh ∧
    (obsO (objConstruct σ kind sh cks).1.heap (objConstruct σ kind sh cks).2).exc = none ∧
    (obsO (objConstruct σ kind sh cks).1.heap (objConstruct σ kind sh cks).2).req = none ∧
    (obsO (objConstruct σ kind sh cks).1.heap (objConstruct σ kind sh cks).2).v = ⟨0, none, false⟩ := by
  refine ⟨?_, rfl, rfl, rfl⟩
  simp [objConstruct, obsO, obs, readShape, alloc, upd]

/-- Extend / SafeExtend / Merge: the result's Shape is the receiver's with the augmentation copied over it; default mode,
    not partial, no exceptions, no required keys, no catchall. -/
theorem extend_content (cfg : Cfg) (σ : Store) (recv : OSchema) (aug : ShapeV) (keep : Bool) (r : Store × OSchema)
    (hr : applyObjOp cfg σ recv (.extend aug keep) = some r) :
    (obsO r.1.heap r.2).base.shape = some (shapeCopy ((obsO σ.heap recv).base.shape.getD []) aug) ∧
    (obsO r.1.heap r.2).exc = none ∧ (obsO r.1.heap r.2).req = none ∧ (obsO r.1.heap r.2).v = ⟨0, none, false⟩ := by
  simp only [applyObjOp, Option.some.injEq] at hr
  subst hr
  exact objConstruct_content _ _ _ _

theorem pick_content (cfg : Cfg) (σ : Store) (recv : OSchema) (ks : List Nat) (r : Store × OSchema)
    (hr : applyObjOp cfg σ recv (.pick ks) = some r) :
    ∃ sh, shapePick ((obsO σ.heap recv).base.shape.getD []) ks = some sh ∧ (obsO r.1.heap r.2).base.shape = some sh ∧
      (obsO r.1.heap r.2).exc = none ∧ (obsO r.1.heap r.2).req = none ∧ (obsO r.1.heap r.2).v = ⟨0, none, false⟩ := by
  simp only [applyObjOp, Option.map_eq_some_iff] at hr
  obtain ⟨sh, hsh, rfl⟩ := hr
  exact ⟨sh, hsh, objConstruct_content _ _ _ _⟩

theorem omit_content (cfg : Cfg) (σ : Store) (recv : OSchema) (ks : List Nat) (r : Store × OSchema)
    (hr : applyObjOp cfg σ recv (.omitKeys ks) = some r) :
    (∀ k ∈ ks, (shapeGet ((obsO σ.heap recv).base.shape.getD []) k).isSome = true) ∧
    (obsO r.1.heap r.2).base.shape = some (((obsO σ.heap recv).base.shape.getD []).filter (fun p => !ks.contains p.1)) := by
  simp only [applyObjOp, Option.map_eq_some_iff, shapeOmit] at hr
  obtain ⟨sh, hsh, rfl⟩ := hr
  split at hsh
  · next hall =>
    simp only [Option.some.injEq] at hsh
    subst hsh
    exact ⟨fun k hk => (List.all_eq_true.mp hall) k hk, (objConstruct_content _ _ _ _).1⟩
  · simp at hsh

/-- a derived (cloned) object keeps kind and the Shape REFERENCE -/
theorem objDerive_shape (cfg : Cfg) (σ : Store) (recv : OSchema) (v : ObjV) (exc req : SlotAct) :
    (objDerive cfg σ recv v exc req).2.s.shape = recv.s.shape ∧ (objDerive cfg σ recv v exc req).2.v = v := by
  simp [objDerive, applyOp, withInternals, clone]

theorem readVals_alloc' (σ : Store) (c : List Nat) : readVals (alloc σ (.vals c)).1.heap (some (alloc σ (.vals c)).2) = some c := by
  simp [readVals, alloc, upd]

/-- a key set the call made itself reads back as what the call computed: RequiredKeys (allocated last) … -/
theorem objDerive_req (cfg : Cfg) (σ : Store) (recv : OSchema) (v : ObjV) (exc : SlotAct) (ks : List Nat) :
    (obsO (objDerive cfg σ recv v exc (.fresh ks)).1.heap (objDerive cfg σ recv v exc (.fresh ks)).2).req = some ks := by
  simp only [objDerive, obsO, applySlot, readVals_alloc']

/-- … and PartialExceptions, whatever is done to RequiredKeys afterwards -/
theorem objDerive_exc (cfg : Cfg) (σ : Store) (recv : OSchema) (v : ObjV) (req : SlotAct) (ks : List Nat) :
    (obsO (objDerive cfg σ recv v (.fresh ks) req).1.heap (objDerive cfg σ recv v (.fresh ks) req).2).exc = some ks := by
  cases req with
  | share => simp only [objDerive, obsO, applySlot, readVals_alloc']
  | drop => simp only [objDerive, obsO, applySlot, readVals_alloc']
  | fresh c =>
    simp only [objDerive, obsO, applySlot]
    simp [readVals, alloc, upd]

/-- `Partial(keys)`: the exceptions are the Shape keys not listed; the object is partial; the Shape reference is kept -/
theorem partialKeys_content (cfg : Cfg) (σ : Store) (recv : OSchema) (ks : List Nat) (hne : ks ≠ []) (r : Store × OSchema)
    (hr : applyObjOp cfg σ recv (.partialKeys ks) = some r) :
    (obsO r.1.heap r.2).exc = some ((shapeKeys ((obsO σ.heap recv).base.shape.getD [])).filter (fun k => !ks.contains k)) ∧
    (obsO r.1.heap r.2).v = { recv.v with isPartial := true } ∧ r.2.s.shape = recv.s.shape := by
  have he : ks.isEmpty = false := by cases ks <;> simp_all
  simp only [applyObjOp, he, Bool.false_eq_true, if_false, Option.some.injEq] at hr
  subst hr
  refine ⟨objDerive_exc _ _ _ _ _ _, ?_, (objDerive_shape _ _ _ _ _ _).1⟩
  simp only [obsO]; exact (objDerive_shape _ _ _ _ _ _).2

/-- `Required(fields)` (since /repo 75cf747): RequiredKeys = the receiver's ∪ the fields, in a map the call made; the
    partial flag, the exceptions REFERENCE and the Shape reference are the receiver's -/
theorem requiredKeys_content (cfg : Cfg) (σ : Store) (recv : OSchema) (ks : List Nat) (hne : ks ≠ []) (r : Store × OSchema)
    (hr : applyObjOp cfg σ recv (.requiredKeys ks) = some r) :
    (obsO r.1.heap r.2).req = some (keyUnion ((obsO σ.heap recv).req.getD []) ks) ∧ r.2.v = recv.v ∧
    r.2.exc = recv.exc ∧ r.2.s.shape = recv.s.shape := by
  have he : ks.isEmpty = false := by cases ks <;> simp_all
  simp only [applyObjOp, he, Bool.false_eq_true, if_false, Option.some.injEq] at hr
  subst hr
  exact ⟨objDerive_req _ _ _ _ _ _, (objDerive_shape _ _ _ _ _ _).2, by simp [objDerive, applySlot],
    (objDerive_shape _ _ _ _ _ _).1⟩

/-- `Required()`: every Shape key -/
theorem requiredAll_content (cfg : Cfg) (σ : Store) (recv : OSchema) (r : Store × OSchema)
    (hr : applyObjOp cfg σ recv .requiredAll = some r) :
    (obsO r.1.heap r.2).req = some (shapeKeys ((obsO σ.heap recv).base.shape.getD [])) ∧ r.2.v = recv.v ∧ r.2.exc = recv.exc := by
  simp only [applyObjOp, Option.some.injEq] at hr
  subst hr
  exact ⟨objDerive_req _ _ _ _ _ _, (objDerive_shape _ _ _ _ _ _).2, by simp [objDerive, applySlot]⟩

theorem mode_content (cfg : Cfg) (σ : Store) (recv : OSchema) (m : Nat) (r : Store × OSchema)
    (hr : applyObjOp cfg σ recv (.mode m) = some r) :
    r.2.v = { recv.v with mode := m } ∧ r.2.s.shape = recv.s.shape ∧ r.2.exc = recv.exc ∧ r.2.req = recv.req := by
  simp only [applyObjOp, Option.some.injEq] at hr
  subst hr
  exact ⟨(objDerive_shape _ _ _ _ _ _).2, (objDerive_shape _ _ _ _ _ _).1, by simp [objDerive, applySlot], by simp [objDerive, applySlot]⟩

theorem catchall_content (cfg : Cfg) (σ : Store) (recv : OSchema) (c : Loc) (r : Store × OSchema)
    (hr : applyObjOp cfg σ recv (.catchall c) = some r) :
    r.2.v = { recv.v with catchall := some c } ∧ r.2.s.shape = recv.s.shape ∧ r.2.exc = recv.exc ∧ r.2.req = recv.req := by
  simp only [applyObjOp, Option.some.injEq] at hr
  subst hr
  exact ⟨(objDerive_shape _ _ _ _ _ _).2, (objDerive_shape _ _ _ _ _ _).1, by simp [objDerive, applySlot], by simp [objDerive, applySlot]⟩

/-! ### value-level consequences -/

/-- a field that `Required` recorded may not be absent, whatever its member schema or the partial state says -/
theorem required_is_required (o : OObs) (memberOpt : Loc → Bool) (k : Nat) (m : Loc) (rq : List Nat)
    (hr : o.req = some rq) (hk : rq.contains k = true) : fieldOptional o memberOpt k m = false := by
  unfold fieldOptional
  rw [hr, Option.getD_some, hk]
  rfl

/-- after `Partial(keys)` a listed key of the shape may be absent, unless `Required` recorded it … -/
theorem partial_makes_optional (o : OObs) (memberOpt : Loc → Bool) (ks : List Nat) (k : Nat) (m : Loc) (keys : List Nat)
    (hp : o.v.isPartial = true) (he : o.exc = some (keys.filter (fun x => !ks.contains x))) (hk : ks.contains k = true)
    (hq : (o.req.getD []).contains k = false) :
    fieldOptional o memberOpt k m = true := by
  simp only [fieldOptional, hq, Bool.false_eq_true, if_false, hp, he, Option.getD_some, Bool.true_and, Bool.or_eq_true,
    Bool.not_eq_true']
  right
  simp only [List.contains_eq_mem, List.mem_filter, decide_eq_false_iff_not, not_and, Bool.not_eq_true',
    decide_eq_true_eq] at hk ⊢
  intro _ h
  simp [hk] at h

/-- … and a key not listed stays required when its member is not optional -/
theorem partial_keeps_required (o : OObs) (memberOpt : Loc → Bool) (ks : List Nat) (k : Nat) (m : Loc) (keys : List Nat)
    (he : o.exc = some (keys.filter (fun x => !ks.contains x))) (hin : k ∈ keys) (hk : ks.contains k = false)
    (hm : memberOpt m = false) : fieldOptional o memberOpt k m = false := by
  unfold fieldOptional
  split
  · rfl
  · simp only [hm, he, Option.getD_some, Bool.false_or, Bool.and_eq_false_imp, Bool.not_eq_eq_eq_not, Bool.not_false]
    intro _
    have hk' : k ∉ ks := by simpa using hk
    simp only [List.contains_eq_mem, List.mem_filter, decide_eq_true_eq]
    exact ⟨hin, by simp [hk']⟩

/-- non-vacuity: a two-field object, Partial on one key, then Strict on the result; the base keeps its verdicts -/
def oBase : Store × OSchema := objConstruct σ0 3 [(1, 100), (2, 101)] []

example :
    let r1 := (applyObjOp fixed oBase.1 oBase.2 (.partialKeys [1])).getD oBase
    let r2 := (applyObjOp fixed r1.1 r1.2 (.mode 1)).getD oBase
    let r3 := (applyObjOp fixed r2.1 r1.2 (.requiredKeys [1])).getD oBase
    obsO r3.1.heap oBase.2 = obsO oBase.1.heap oBase.2 ∧ obsO r3.1.heap r1.2 = obsO r1.1.heap r1.2 ∧
    (obsO r3.1.heap r3.2).req = some [1] ∧
    objParse (obsO r3.1.heap r3.2) (fun _ _ => true) (fun _ => false) ⟨[2]⟩ = none ∧
    (obsO r2.1.heap r1.2).exc = some [2] ∧
    objParse (obsO r2.1.heap r1.2) (fun _ _ => true) (fun _ => false) ⟨[2]⟩ = some [2] ∧
    objParse (obsO r2.1.heap oBase.2) (fun _ _ => true) (fun _ => false) ⟨[2]⟩ = none ∧
    objParse (obsO r2.1.heap r1.2) (fun _ _ => true) (fun _ => false) ⟨[2, 9]⟩ = some [2] ∧
    objParse (obsO r2.1.heap r2.2) (fun _ _ => true) (fun _ => false) ⟨[2, 9]⟩ = none := by decide

end Gozod.C08
