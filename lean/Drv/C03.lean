import Gozod.Drv.Loop
import Gozod.Drv.C03
def main : IO Unit := Gozod.Drv.runLines Gozod.Drv.C03.handleLine
