/-
  Gozod.Model.Checks — `internal/engine/checker.go:executeChecks`, generic in the value type.

  A schema's `Checks` slice is a list of checks; each is either
  * a predicate check (built-in check, `Refine`, `Check`): evaluates a predicate on the
    current value and reports an issue when it fails; it may carry `abort` (stop after a
    failure) and a `when` guard, or
  * an overwrite (`Trim`, `ToLowerCase`, `ToUpperCase`, `Overwrite(fn)`): replaces the current
    value and never reports an issue.

  Predicates (`P`), overwrites (`O`) and transforms (`T`) are ids interpreted by an
  environment, so every theorem quantifies over all user callbacks.

  Transcribed loop (checker.go:51-118):
    for c in checks:
      if c.when ≠ nil: skip if the payload already holds an issue (CheckAborted: no creator ever
                       sets Continue=true, so any earlier issue counts) or ¬when(val)
      run c on a fresh payload holding val; val := payload.value
      if issues: append them; if c.abort: break
-/
namespace Gozod

/-- One entry of `internals.Checks`; checks are identified by their position in the slice. -/
inductive Check (P O : Type) where
  | pred (p : P) (abort : Bool) (when : Option P)
  | overwrite (o : O)
  deriving Repr

/-- What happened during a run, in order: which callback (by check position) was invoked on
    which value. -/
inductive Ev (V : Type) where
  | check (pos : Nat) (v : V)      -- a predicate check was evaluated on v
  | when (pos : Nat) (v : V)       -- a when-guard was evaluated on v
  | over (pos : Nat) (v : V)       -- an overwrite was applied to v
  deriving Repr, DecidableEq

namespace Ev
def pos {V} : Ev V → Nat
  | check i _ => i | when i _ => i | over i _ => i
def val {V} : Ev V → V
  | check _ v => v | when _ v => v | over _ v => v
end Ev

/-- Interpretation of callback ids. -/
structure Env (P O T V : Type) where
  holds : P → V → Bool
  apply : O → V → V
  trans : T → V → V

/-- Result of `executeChecks`: final value, positions of failing checks in report order, event log. -/
structure Run (V : Type) where
  val : V
  issues : List Nat
  log : List (Ev V)
  deriving Repr

section
variable {P O T V : Type}

/-- `executeChecks`, as a structural recursion carrying the loop state (`i` = loop index). -/
def runFrom (env : Env P O T V) : Nat → List (Check P O) → V → List Nat → List (Ev V) → Run V
  | _, [], val, iss, log => ⟨val, iss, log⟩
  | i, .overwrite o :: cs, val, iss, log =>
      runFrom env (i + 1) cs (env.apply o val) iss (log ++ [.over i val])
  | i, .pred p abort none :: cs, val, iss, log =>
      if env.holds p val then runFrom env (i + 1) cs val iss (log ++ [.check i val])
      else if abort then ⟨val, iss ++ [i], log ++ [.check i val]⟩
      else runFrom env (i + 1) cs val (iss ++ [i]) (log ++ [.check i val])
  | i, .pred p abort (some w) :: cs, val, iss, log =>
      if iss ≠ [] then runFrom env (i + 1) cs val iss log              -- CheckAborted: skipped, guard not evaluated
      else if env.holds w val = false then runFrom env (i + 1) cs val iss (log ++ [.when i val])
      else if env.holds p val then runFrom env (i + 1) cs val iss (log ++ [.when i val, .check i val])
      else if abort then ⟨val, iss ++ [i], log ++ [.when i val, .check i val]⟩
      else runFrom env (i + 1) cs val (iss ++ [i]) (log ++ [.when i val, .check i val])

def runChecks (env : Env P O T V) (cs : List (Check P O)) (v : V) : Run V :=
  runFrom env 0 cs v [] []

/-! ### Reference notions the property speaks about (defined from the check list alone) -/

/-- The value produced by the overwrites attached before position `k`. -/
def seenAt (env : Env P O T V) : List (Check P O) → Nat → V → V
  | [], _, v => v
  | _ :: _, 0, v => v
  | .overwrite o :: cs, k + 1, v => seenAt env cs k (env.apply o v)
  | .pred .. :: cs, k + 1, v => seenAt env cs k v

/-- A check fails on the value `x` it is given: it is a predicate check whose guard (if any)
    holds and whose predicate is false. Overwrites never fail. -/
def checkFails (env : Env P O T V) (c : Check P O) (x : V) : Bool :=
  match c with
  | .pred p _ none => !env.holds p x
  | .pred p _ (some w) => env.holds w x && !env.holds p x
  | .overwrite _ => false

/-- The value a check hands on to the next one. -/
def stepSeen (env : Env P O T V) (c : Check P O) (x : V) : V :=
  match c with
  | .overwrite o => env.apply o x
  | .pred .. => x

/-- Check number `k` fails on input `v`: it fails on the value threaded through the overwrites
    attached before it. -/
def failsAt (env : Env P O T V) (cs : List (Check P O)) (k : Nat) (v : V) : Bool :=
  match cs[k]? with
  | some c => checkFails env c (seenAt env cs k v)
  | none => false

/-- Check number `k` carries the abort flag. -/
def abortAt (cs : List (Check P O)) (k : Nat) : Bool :=
  match cs[k]? with
  | some (.pred _ a _) => a
  | _ => false

/-! ### `validatePointer`: the extra pass over the pointer itself (parser.go:1035)

  When the input is a pointer and some check is an overwrite, `validatePointerWithOverwrite`
  runs *all* checks with the pointer itself as payload (before the regular pass up to /repo 49e6e91,
  after an accepting regular pass since). On a pointer payload every
  built-in predicate reports an issue (`reflectx.Length/StringVal` reject pointers) and every
  `Refine` wrapper returns false without calling the user function; overwrites convert and run
  only when the schema's own type is the pointer type (`StringPtr()`), otherwise they return the
  payload unchanged; when-guards are user functions and do run. If the pass ends without issues
  and produced a new pointer, its value is returned and the regular pass is skipped. -/

def hasOverwrite : List (Check P O) → Bool
  | [] => false
  | .overwrite _ :: _ => true
  | .pred .. :: cs => hasOverwrite cs

structure FirstPass (V : Type) where
  val : V
  hasIssue : Bool
  log : List (Ev V)

def firstPassFrom (env : Env P O T V) (ptrSchema : Bool) :
    Nat → List (Check P O) → V → Bool → List (Ev V) → FirstPass V
  | _, [], val, d, log => ⟨val, d, log⟩
  | i, .overwrite o :: cs, val, d, log =>
      if ptrSchema then firstPassFrom env ptrSchema (i + 1) cs (env.apply o val) d (log ++ [.over i val])
      else firstPassFrom env ptrSchema (i + 1) cs val d log
  | i, .pred _ abort none :: cs, val, _, log =>
      if abort then ⟨val, true, log⟩ else firstPassFrom env ptrSchema (i + 1) cs val true log
  | i, .pred _ abort (some w) :: cs, val, d, log =>
      if d then firstPassFrom env ptrSchema (i + 1) cs val d log
      else if env.holds w val = false then firstPassFrom env ptrSchema (i + 1) cs val d (log ++ [.when i val])
      else if abort then ⟨val, true, log ++ [.when i val]⟩
      else firstPassFrom env ptrSchema (i + 1) cs val true (log ++ [.when i val])

/-- `validatePointer` up to /repo 49e6e91 (kept for the witness theorems): the extra pass ran FIRST and
    its result was taken when it had no issue. -/
def legacyRunChecksOn (env : Env P O T V) (ptrSchema ptrIn : Bool) (cs : List (Check P O)) (v : V) : Run V :=
  if ptrIn && hasOverwrite cs then
    let fp := firstPassFrom env ptrSchema 0 cs v false []
    if ptrSchema && !fp.hasIssue then ⟨fp.val, [], fp.log⟩        -- early return, regular pass skipped
    else
      let r := runChecks env cs v
      ⟨r.val, r.issues, fp.log ++ r.log⟩
  else runChecks env cs v

/-- Checks of a string-like schema applied to an input that is (`ptrIn`) or is not a pointer,
    for a schema whose own type is (`ptrSchema`) or is not the pointer type.
    `validatePointer` since /repo 49e6e91 (parser.go:949): the validator (regular pass) runs first and
    decides; only when it accepts and an overwrite is attached, the pass over the pointer runs
    afterwards, and its value is the result when it ends without an issue and produced a new pointer. -/
def runChecksOn (env : Env P O T V) (ptrSchema ptrIn : Bool) (cs : List (Check P O)) (v : V) : Run V :=
  let r := runChecks env cs v
  if ptrIn && hasOverwrite cs then
    if r.issues ≠ [] then r                                         -- rejected by the validator: nothing else runs
    else
      let fp := firstPassFrom env ptrSchema 0 cs v false []
      if ptrSchema && !fp.hasIssue then ⟨fp.val, [], r.log ++ fp.log⟩
      else ⟨r.val, [], r.log ++ fp.log⟩
  else r

/-! ### Transform / Pipe wrappers (`core/transform.go`) around a checked schema -/

/-- Base schemas carry a tag (their number in the pipeline) so that log entries and issues of
    different schemas of one pipe can be told apart, and whether they were built with the pointer
    constructor (`StringPtr()`: results are pointers). -/
inductive Pipeline (P O T : Type) where
  | base (tag : Nat) (ptrSchema : Bool) (cs : List (Check P O))
  | transform (src : Pipeline P O T) (id : Nat) (t : T)
  | pipe (src dst : Pipeline P O T)

/-- Pipeline-level events. -/
inductive PEv (V : Type) where
  | chk (tag : Nat) (e : Ev V)
  | tr (id : Nat) (v : V)          -- transform `id` applied to v
  deriving Repr, DecidableEq

structure Res (V : Type) where
  out : Except (Nat × List Nat) V       -- error: (tag of the failing schema, failing check positions)
  isPtr : Bool                          -- the result is handed on as a pointer
  log : List (PEv V)

/-- `Parse` of a type-correct, non-nil input (`ptrIn`: given as a pointer) through checks,
    transforms and pipes. -/
def parsePipeline (env : Env P O T V) : Pipeline P O T → V → Bool → Res V
  | .base tag ptrSchema cs, v, ptrIn =>
    let r := runChecksOn env ptrSchema ptrIn cs v
    ⟨if r.issues = [] then .ok r.val else .error (tag, r.issues), ptrSchema, r.log.map (.chk tag)⟩
  | .transform src i t, v, ptrIn =>
    let r := parsePipeline env src v ptrIn
    match r.out with
    | .ok x => ⟨.ok (env.trans t x), false, r.log ++ [.tr i x]⟩
    | .error e => ⟨.error e, false, r.log⟩
  | .pipe a b, v, ptrIn =>
    let r := parsePipeline env a v ptrIn
    match r.out with
    | .ok x =>
      let r2 := parsePipeline env b x r.isPtr
      ⟨r2.out, r2.isPtr, r.log ++ r2.log⟩
    | .error e => ⟨.error e, false, r.log⟩

end
end Gozod
