/-
  C06 — type graphs: struct types whose tagged fields are themselves struct types (by value,
  pointer, slice element, slice of pointers, map value, map of pointers, embedded), possibly the
  same type several times, possibly recursive.

  * `Spec.vStruct` — the documented meaning (docs/tags.md "Nested Structures"): a struct value is
    valid iff every *tagged* field satisfies its rules, where a tagged nested struct is valid iff
    its own tagged fields are — by recursion on the VALUE; how often and where a type occurs in
    the type graph plays no role.  Written independently of the code.
  * `Code.cStruct` — transcription of types/struct.go:
      parseStructTagsToSchemasWithCycleDetection   (the `visited` set = struct types on the
                                                    current expansion path; `defer delete`)
      createSchemaFromTypeWithCycleDetection        (unwrap pointer / slice / element pointer;
                                                    `visited[actualType]` → createLazySchemaForType;
                                                    hasGozodTags → Object(fields) else Any())
      createLazySchemaForType                       (Lazy(getter) whose wrapper cannot call the
                                                    object's Parse: every non-nil value passes;
                                                    for slices `Slice[any](lazy)` + the field's rules)
      createSchemaFromTypeWithInfo, Map case        (createNestedStructSchema with the caller's visited set:
                                                    a type on the path becomes the lazy schema)
    fused with the evaluation of the schema it builds, so that it is a function of the value.
  * `Code.builds` — whether that construction terminates (before the map walk shared `visited`, a type
    recursive through a map value was expanded with a fresh set on every round: FromStruct never returned).
-/
namespace Gozod.Tags.Graph

inductive Wrap | val | ptr | slice | sliceptr | map | mapptr | emb
  deriving DecidableEq, Repr

/-- the gozod tag of an edge field: `required`, `max=N` (slices), or no gozod tag at all -/
inductive ETag | required | maxLen (n : Nat) | none
  deriving DecidableEq, Repr

structure Edge where
  wrap : Wrap
  target : Nat
  tag : ETag
  deriving DecidableEq, Repr

/-- a struct type of the graph world: `V int` with tag `min=k` (or untagged), then the edge fields -/
structure SDecl where
  vmin : Option Int
  edges : List Edge
  deriving DecidableEq, Repr

abbrev Env := List SDecl

/-- a (finite) Go value of a graph type.  `nil` = nil pointer / nil slice / nil map;
    `list` = the elements of a non-nil slice, or the values of a non-nil map in key order. -/
inductive GVal
  | nil
  | node (v : Int) (kids : List GVal)
  | list (xs : List GVal)
  deriving Repr

def decl (env : Env) (t : Nat) : SDecl := env.getD t ⟨none, []⟩

def Edge.tagged (e : Edge) : Bool := match e.tag with | .none => false | _ => true

def Wrap.isSlice : Wrap → Bool | .slice | .sliceptr => true | _ => false
def Wrap.isMap : Wrap → Bool | .map | .mapptr => true | _ => false

/-- the field's own rule on the number of elements -/
def lenOK (tag : ETag) (n : Nat) : Bool := match tag with | .maxLen k => decide (n ≤ k) | _ => true

def scalarOK (d : SDecl) (v : Int) : Bool := match d.vmin with | some k => decide (k ≤ v) | none => true

/-! ### the documented meaning -/
namespace Spec

mutual
/-- the edge fields of a struct, in declaration order: every TAGGED one satisfies its rules -/
def vEdges (env : Env) : List Edge → List GVal → Bool
  | e :: es, x :: xs => (!e.tagged || vEdge env e x) && vEdges env es xs
  | _, _ => true
/-- one tagged edge field holding `x` -/
def vEdge (env : Env) (e : Edge) : GVal → Bool
  | .nil =>
    match e.wrap with
    | .val | .emb => false
    | _ => !(e.tag == .required)       -- "optional unless marked required"; a nil slice / map is the absent container
  | .list xs => (e.wrap.isSlice || e.wrap.isMap) && lenOK e.tag xs.length && vAll env e.target xs
  | .node v kids =>                    -- a nested struct is valid iff its own tagged fields are
    !(e.wrap.isSlice || e.wrap.isMap) && scalarOK (decl env e.target) v && vEdges env (decl env e.target).edges kids
/-- every element (map value) is a valid struct; a nil element pointer carries no struct to check -/
def vAll (env : Env) (t : Nat) : List GVal → Bool
  | [] => true
  | .nil :: xs => vAll env t xs
  | .list _ :: _ => false
  | .node v kids :: xs => scalarOK (decl env t) v && vEdges env (decl env t).edges kids && vAll env t xs
end

/-- a value of struct type `t` satisfies every rule of every tagged field, recursively -/
def vStruct (env : Env) (t : Nat) : GVal → Bool
  | .node v kids => scalarOK (decl env t) v && vEdges env (decl env t).edges kids
  | _ => false

end Spec

/-! ### the code -/
namespace Code

/-- `hasGozodTags(actualType)`: some field of the struct type carries a gozod tag -/
def hasTags (d : SDecl) : Bool := d.vmin.isSome || d.edges.any Edge.tagged

/-- no element is a nil pointer -/
def noNilElem (xs : List GVal) : Bool := xs.all fun x => match x with | .nil => false | _ => true

/-- `visited[actualType]` of createSchemaFromTypeWithCycleDetection.  `cyc = false` is the same
    code with the cycle test removed (used to state that the test never fires on acyclic graphs). -/
def onPath (cyc : Bool) (visited : List Nat) (t : Nat) : Bool := cyc && visited.contains t

mutual
/-- the fields of `parseStructTagsToSchemasWithCycleDetection(t, visited)`: `visited` already holds `t` -/
def cEdges (cyc : Bool) (env : Env) (visited : List Nat) : List Edge → List GVal → Bool
  | e :: es, x :: xs => (!e.tagged || cEdge cyc env visited e x) && cEdges cyc env visited es xs
  | _, _ => true
/-- `createSchemaFromTypeWithCycleDetection(field.Type, field, visited)` applied to the field value -/
def cEdge (cyc : Bool) (env : Env) (visited : List Nat) (e : Edge) : GVal → Bool
  | .nil =>
    match e.wrap with
    | .val | .emb => false
    | .ptr =>
      if onPath cyc visited e.target then false                    -- Lazy treats a nil pointer as nil input and is not Optional (bc2d4fc)
      else !hasTags (decl env e.target) && !(e.tag == .required)   -- Object rejects nil (also when not required); Any() accepts it unless `required` (NonOptional)
    | _ => false                                                    -- a nil slice / map is "expected slice, received slice"
  | .list xs =>
    if e.wrap.isMap then                                            -- createNestedStructSchema(valueType, visited)
      (if onPath cyc visited e.target then noNilElem xs             -- Map(String(), Lazy(…)): non-nil values pass unchecked
       else cAll cyc env visited (hasTags (decl env e.target)) e.target xs)
    else if e.wrap.isSlice then
      lenOK e.tag xs.length &&
        (if onPath cyc visited e.target then noNilElem xs           -- Slice[any](Lazy(…)): non-nil elements pass unchecked
         else cAll cyc env visited (hasTags (decl env e.target)) e.target xs)
    else false
  | .node v kids =>
    if e.wrap.isSlice || e.wrap.isMap then false
    else if onPath cyc visited e.target then true                   -- createLazySchemaForType
    else if hasTags (decl env e.target) then                        -- Object(fields of the target, visited + target)
      scalarOK (decl env e.target) v && cEdges cyc env (e.target :: visited) (decl env e.target).edges kids
    else true                                                        -- Any()
/-- the elements of a slice / the values of a map against the element schema -/
def cAll (cyc : Bool) (env : Env) (visited : List Nat) (tagged : Bool) (t : Nat) : List GVal → Bool
  | [] => true
  | .nil :: xs => !tagged && cAll cyc env visited tagged t xs
  | .list _ :: _ => false
  | .node v kids :: xs =>
    (!tagged || (scalarOK (decl env t) v && cEdges cyc env (t :: visited) (decl env t).edges kids)) && cAll cyc env visited tagged t xs
end

/-- `Object(parseStructTagsToSchemasWithCycleDetection(t, visited))` applied to a value; `visited`
    are the struct types on the current expansion path (t itself is added for the fields). -/
def cStruct (cyc : Bool) (env : Env) (visited : List Nat) (t : Nat) : GVal → Bool
  | .node v kids => scalarOK (decl env t) v && cEdges cyc env (t :: visited) (decl env t).edges kids
  | _ => false

/-- does the construction of the schema return?  `fuel` bounds the depth of the expansion. -/
def expands (env : Env) : Nat → List Nat → Nat → Bool
  | 0, _, _ => false
  | fuel + 1, visited, t =>
    (decl env t).edges.all fun e =>
      if !e.tagged then true
      else if visited.contains e.target then true
      else (!hasTags (decl env e.target)) || expands env fuel (t :: visited) e.target

/-- an expansion that returns is never deeper than n·(n+1) (n struct types): within one `visited`
    set the types on the path are distinct, and a repeated fresh start repeats for ever -/
def builds (env : Env) : Bool := expands env (env.length * (env.length + 1) + 1) [] 0

/-- `FromStruct[Root]().Parse(v)` -/
def check (env : Env) (v : GVal) : Bool := cStruct true env [] 0 v

end Code

/-! ### where the code is known to deviate from the documented meaning even without a cycle

  * a nil slice / map in a tagged field that is not `required` is rejected ("expected slice, received slice");
  * a nil pointer in a tagged pointer field that is not `required` is rejected when the target type has tagged fields;
  * a nil element pointer inside a slice / map of pointers to a tagged struct type is rejected;
  * `max=N` on a map field is not applied (not generated: map fields carry `required` or no tag).
  `devEdges` walks value and type graph together and says whether the value touches one of these. -/
namespace Dev

def nilDev (env : Env) (e : Edge) : Bool :=
  match e.wrap with
  | .val | .emb => false
  | .ptr => !(e.tag == .required) && Code.hasTags (decl env e.target)
  | _ => !(e.tag == .required)

mutual
def devEdges (env : Env) : List Edge → List GVal → Bool
  | e :: es, x :: xs => (e.tagged && devEdge env e x) || devEdges env es xs
  | _, _ => false
def devEdge (env : Env) (e : Edge) : GVal → Bool
  | .nil => nilDev env e
  | .list xs => (e.wrap.isMap && !lenOK e.tag xs.length) ||     -- a length rule on a map field is not applied
    ((e.wrap.isSlice || e.wrap.isMap) && devAll env (Code.hasTags (decl env e.target)) e.target xs)
  | .node _ kids => !(e.wrap.isSlice || e.wrap.isMap) && Code.hasTags (decl env e.target) && devEdges env (decl env e.target).edges kids
def devAll (env : Env) (tagged : Bool) (t : Nat) : List GVal → Bool
  | [] => false
  | .nil :: xs => tagged || devAll env tagged t xs
  | .list _ :: xs => devAll env tagged t xs
  | .node _ kids :: xs => (tagged && devEdges env (decl env t).edges kids) || devAll env tagged t xs
end

/-- the value (of the root type 0) touches a known deviation -/
def dev (env : Env) : GVal → Bool
  | .node _ kids => devEdges env (decl env 0).edges kids
  | _ => false

end Dev

/-! ### table rows, tokens -/
inductive Obs | acc | rej | fail
  deriving DecidableEq, Repr

def Obs.ofBool (b : Bool) : Obs := if b then .acc else .rej

structure GRow where
  name : String
  env : Env
  built : Bool
  probes : List (GVal × Obs)
  deriving Repr

def Wrap.toString : Wrap → String
  | .val => "val" | .ptr => "ptr" | .slice => "slice" | .sliceptr => "sliceptr" | .map => "map" | .mapptr => "mapptr" | .emb => "emb"

def ETag.toString : ETag → String
  | .required => "r" | .maxLen n => s!"x{n}" | .none => "n"

def envToken (env : Env) : String :=
  "/".intercalate (env.map fun d =>
    ";".intercalate ((match d.vmin with | some k => s!"m{k}" | none => "u") ::
      d.edges.map fun e => s!"{e.wrap.toString}:{e.target}:{e.tag.toString}"))

/-- prefix-notation reader: `nil | node <V> <n> kid*n | list <n> elem*n` -/
def readVal : Nat → List String → Option (GVal × List String)
  | 0, _ => none
  | _ + 1, "nil" :: rest => some (.nil, rest)
  | fuel + 1, "node" :: v :: n :: rest => do
    let v ← v.toInt?
    let n ← n.toNat?
    let (kids, rest) ← readMany fuel n rest
    pure (.node v kids, rest)
  | fuel + 1, "list" :: n :: rest => do
    let n ← n.toNat?
    let (xs, rest) ← readMany fuel n rest
    pure (.list xs, rest)
  | _, _ => none
where
  readMany (fuel : Nat) : Nat → List String → Option (List GVal × List String)
    | 0, rest => some ([], rest)
    | n + 1, rest =>
      match readVal fuel rest with
      | some (x, rest) =>
        match readMany fuel n rest with
        | some (xs, rest) => some (x :: xs, rest)
        | none => none
      | none => none

end Gozod.Tags.Graph
