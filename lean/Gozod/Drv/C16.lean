/-
  Line handlers for C16 (numeric comparison / MultipleOf).
  cmp <op> <kind> <val> <kind> <val>   → "<model> <spec>"   (1/0)
  mul <kind> <val> <kind> <val>        → "<model> <spec>"
  fmul <kind> <val> <kind> <val>       → "<model>\t-"   (a float operand: the documented ε-rule, `NumFloat.multipleOfNum`;
                                          the model observation is the oracle)
  xcmp <op> OPND OPND / xmul OPND OPND  → "<model>\t<spec>"   an operand `toNum` does not hold (big integers: the exact
                                          `big.Int` path; complex: `coerce.ToFloat64`, `xval`); spec = the comparison of the
                                          values / integer divisibility when both operands denote a number exactly
                                          (built-in kinds, uintptr, big integers), `-` otherwise; OPND = <kind> <val> | nx 0 (a named numeric type:
                                          not numeric for the code) | cx <bits of |z|> (complex: magnitude, as Go
                                          computed it) | big <dec> (a *big.Int)
  kind ∈ i8 i16 i32 i64 int u8 u16 u32 u64 uint uptr (val = decimal integer; uptr = uintptr, held as a uint64)
       | f32 f64 (val = decimal of the IEEE-754 binary64 bit pattern of the widened value)
-/
import Gozod.Model.Num
import Gozod.Model.NumFloat
namespace Gozod.Drv.C16
open Gozod

def parseNum (kind val : String) : Option Num :=
  if kind == "f64" || kind == "f32" then
    val.toNat?.map (fun b => Num.f (F.ofBits b))
  else if kind == "uptr" then do
    let v ← val.toInt?
    if IntTy.u64.inRange v then some (Num.u v) else none
  else do
    let t ← IntTy.ofString? kind
    let v ← val.toInt?
    if t.inRange v then some (Num.ofInt t v) else none

/-- An operand of `compareNumeric` / `MultipleOf` in general. -/
inductive Opnd where
  | num (n : Num)
  | uptr (v : Int)         -- a uintptr: `toNum` holds it as a uint64, `coerce.ToFloat64` has no case for it
  | named                  -- a named numeric type: `reflectx.IsNumeric` says no
  | cplx (mag : F)         -- complex64/128: `coerce.ToFloat64` returns the magnitude
  | big (v : Int)          -- *big.Int: `bigIntToFloat64`

def parseOpnd (kind val : String) : Option Opnd :=
  if kind == "nx" then some .named
  else if kind == "cx" then val.toNat?.map (fun b => .cplx (F.ofBits b))
  else if kind == "big" then val.toInt?.map Opnd.big
  else if kind == "uptr" then (parseNum kind val).bind (fun n => match n with | .u v => some (.uptr v) | _ => none)
  else (parseNum kind val).map Opnd.num

/-- What `toNum` holds (the exact payload), if anything. -/
def Opnd.toNum? : Opnd → Option Num
  | .num n => some n
  | .uptr v => some (.u v)
  | _ => none

/-- `toFloat64` of pkg/validate (= `coerce.ToFloat64`, false on an error): NaN floats, big
    integers beyond MaxFloat64 and uintptr values have no reading; a complex NaN magnitude is
    returned as it is. -/
def xval : Opnd → Option F
  | .num (.f x) => if x.isNaN then none else some x
  | .num n => some (NumFloat.numToF n)
  | .uptr _ => none
  | .named => none
  | .cplx m => some m
  | .big v => match Coerce.finOrOverflow (Coerce.bigToF64 v) with
    | .ok x => some x
    | .error _ => none

/-- `toBig` of the fixed code: the exact value of a big integer or of a built-in integer. -/
def Opnd.toBig? : Opnd → Option Int
  | .big v => some v
  | .num (.i v) => some v
  | .num (.u v) => some v
  | .uptr v => some v
  | _ => none

def isBigOp : Opnd → Bool
  | .big _ => true
  | _ => false

/-- `cmpBig` of the fixed code (at least one operand is a big integer): integers by `big.Int.Cmp`,
    a big integer against a float64 exactly (`big.Float.Cmp`; NaN unordered, infinities by sign);
    `none` = not decided here (a complex operand: the magnitude path). -/
def cmpBigOp (a b : Opnd) : Option (Option Ordering) :=
  match a.toBig?, b.toBig? with
  | some x, some y => some (some (compare x y))
  | some x, none => (match b with
    | .num (.f y) => some (F.cmp (.fin x 0) y)
    | _ => none)
  | none, some y => (match a with
    | .num (.f x) => some (F.cmp x (.fin y 0))
    | _ => none)
  | none, none => none

def isNamed : Opnd → Bool
  | .named => true
  | _ => false

def isFloatNum : Num → Bool
  | .f _ => true
  | _ => false

/-- `compareNumeric`: the exact path when `toNum` holds both operands; otherwise `IsNumeric` on
    both, `toFloat64Pair`, `cmpFloats`. -/
def xcmp (op : CmpOp) (a b : Opnd) : Bool :=
  match a.toNum?, b.toNum? with
  | some x, some y => implCmp op x y
  | _, _ =>
    if isNamed a || isNamed b then false else
    match (if isBigOp a || isBigOp b then cmpBigOp a b else none) with
    | some (some o) => op.ofOrdering o
    | some none => false
    | none =>
    match xval a, xval b with
    | some x, some y => (match F.cmp x y with
      | some o => op.ofOrdering o
      | none => false)
    | _, _ => false

/-- `MultipleOf`: the exact integer branch when `toNum` holds two integers; otherwise the ε-rule
    on the two `coerce.ToFloat64` readings. -/
def xmul (a b : Opnd) : Bool :=
  let ints := match a.toNum?, b.toNum? with
    | some x, some y => if isFloatNum x || isFloatNum y then none else some (multipleOfInts x y)
    | _, _ => none
  match ints with
  | some r => r
  | none =>
    if isNamed a || isNamed b then false else
    let bigs := if isBigOp a || isBigOp b then
        (match a.toBig?, b.toBig? with
          | some x, some y => some (specMultipleOfInt x y)     -- y.Sign() != 0 && Rem(x, y).Sign() == 0
          | _, _ => none)
      else none
    match bigs with
    | some r => r
    | none =>
    match xval a, xval b with
    | some x, some y => NumFloat.floatMultipleOf x y
    | _, _ => false

def b2s (b : Bool) : String := if b then "1" else "0"

/-! ### specification for operands that denote a number exactly (built-in kinds, uintptr, big
     integers): the mathematical comparison / integer divisibility, written against the values, not
     against the code's paths.  Complex and named-type operands have none (`-`). -/

def Opnd.value? : Opnd → Option F
  | .num n => some n.toF
  | .uptr v => some (.fin v 0)
  | .big v => some (.fin v 0)
  | _ => none

def Opnd.intValue? : Opnd → Option Int
  | .num (.i v) => some v
  | .num (.u v) => some v
  | .uptr v => some v
  | .big v => some v
  | _ => none

def specXcmp (op : CmpOp) (a b : Opnd) : String :=
  match a.value?, b.value? with
  | some x, some y => (match F.cmp x y with
    | some o => b2s (op.ofOrdering o)
    | none => "0")
  | _, _ => "-"

def specXmul (a b : Opnd) : String :=
  match a.intValue?, b.intValue? with
  | some v, some d => b2s (specMultipleOfInt v d)
  | _, _ => "-"

def specMul (a b : Num) : Option Bool :=
  match a, b with
  | .f _, _ => none
  | _, .f _ => none
  | a, b =>
    let iv : Num → Int := fun n => match n with | .i v => v | .u v => v | .f _ => 0
    some (specMultipleOfInt (iv a) (iv b))

def handle : List String → String
  | ["cmp", op, ka, a, kb, b] =>
    match CmpOp.ofString? op, parseNum ka a, parseNum kb b with
    | some op, some x, some y => s!"{b2s (implCmp op x y)} {b2s (specCmp op x y)}"
    | _, _, _ => "bad-op"
  | ["mul", ka, a, kb, b] =>
    match parseNum ka a, parseNum kb b with
    | some x, some y =>
      match specMul x y with
      | some s => s!"{b2s (multipleOfInts x y)} {b2s s}"
      | none => "bad-op"
    | _, _ => "bad-op"
  | ["xcmp", op, ka, a, kb, b] =>
    match CmpOp.ofString? op, parseOpnd ka a, parseOpnd kb b with
    | some op, some x, some y => s!"{b2s (xcmp op x y)}\t{specXcmp op x y}"
    | _, _, _ => "bad-op"
  | ["xmul", ka, a, kb, b] =>
    match parseOpnd ka a, parseOpnd kb b with
    | some x, some y => s!"{b2s (xmul x y)}\t{specXmul x y}"
    | _, _ => "bad-op"
  | ["fmul", ka, a, kb, b] =>
    match parseOpnd ka a, parseOpnd kb b with
    | some x, some y => s!"{b2s (xmul x y)}\t-"
    | _, _ => "bad-op"
  | _ => "bad-op"

end Gozod.Drv.C16
