package main

// Round 5 — STRUCT inputs built type-directedly.
//
// Object / StrictObject / LooseObject convert a struct (or pointer to struct) input into a map by reflection, Struct /
// FromStruct walk the fields of their own type: what the hand list of values lacked is the class of struct TYPES whose
// layout makes a reflect walk dereference something that is not there:
//
//	embedding      a struct embedded by value, by pointer (nil and non-nil), two levels deep (an embedded pointer
//	               whose pointee embeds a nil pointer again), an embedded struct of an unexported type
//	fields         unexported fields (value, pointer, interface), fields of interface type holding typed nils or
//	               structs that embed nil pointers themselves, nested pointers (**T ending in nil at either level),
//	               nil maps / slices of nil pointers / nil funcs, shadowing of a promoted field
//
// genStructVals combines these field specifications into struct types with reflect.StructOf (a deterministic core:
// every embedding mode with everything nil, plus seed-dependent random combinations) and hands each value out by
// value, by pointer, as slice element, as map value and inside []any / map[string]any; the declared types below give
// Struct[T] / FromStruct[T] schemas the same layouts (their own type-directed values, typedVals, then include the zero
// value = every embedded pointer nil). structSchemas puts the object flavours at top level and inside Slice / Map /
// Union / Object field / Tuple, with a shape whose keys are the json names the generated fields use.

import (
	"fmt"
	"reflect"
	"strings"

	"github.com/kaptinlin/gozod/core"
	"github.com/kaptinlin/gozod/types"

	"verifharness/hx"
)

type Hdr struct {
	ID   int    `json:"id"`
	T    string `json:"t"`
	Name string `json:"name"`
}

type hdrU struct {
	A any  `json:"a"`
	N *int `json:"n"`
}

type Deep struct {
	*Hdr
	V int `json:"v"`
}

type embV struct {
	Hdr
	A any `json:"a"`
}

type embP struct {
	*Hdr
	A any  `json:"a"`
	N *int `json:"n"`
}

type embDeep struct {
	*Deep
	Next *embP `json:"next"`
}

type embU struct {
	hdrU
	*Hdr
	x  int
	pp **string
	V  int `json:"v"`
}

const c04Pkg = "verifharness/cmd/c04"

type fieldVariant struct {
	name string
	set  func(f reflect.Value)
}

type fieldSpec struct {
	name     string
	field    reflect.StructField
	variants []fieldVariant
}

func setTo(x any) func(reflect.Value) {
	return func(f reflect.Value) {
		if x != nil {
			f.Set(reflect.ValueOf(x))
		}
	}
}

// embedSpecs: mutually exclusive groups (a struct embeds one of each group at most — equal names collide).
func embedSpecs() [][]fieldSpec {
	hdrGroup := []fieldSpec{
		{"Hdr", reflect.StructField{Name: "Hdr", Type: reflect.TypeFor[Hdr](), Anonymous: true}, []fieldVariant{
			{"zero", setTo(nil)}, {"set", setTo(Hdr{ID: 1, T: "a", Name: "n"})}}},
		{"*Hdr", reflect.StructField{Name: "Hdr", Type: reflect.TypeFor[*Hdr](), Anonymous: true}, []fieldVariant{
			{"nil", setTo(nil)}, {"nil", setTo(nil)}, {"set", setTo(&Hdr{ID: 1, T: "a", Name: "n"})}}},
	}
	deepGroup := []fieldSpec{
		{"*Deep", reflect.StructField{Name: "Deep", Type: reflect.TypeFor[*Deep](), Anonymous: true}, []fieldVariant{
			{"nil", setTo(nil)}, {"->{*Hdr=nil}", setTo(&Deep{V: 1})}, {"->{*Hdr=set}", setTo(&Deep{Hdr: &Hdr{T: "a"}, V: 1})}}},
		{"Deep", reflect.StructField{Name: "Deep", Type: reflect.TypeFor[Deep](), Anonymous: true}, []fieldVariant{
			{"{*Hdr=nil}", setTo(nil)}, {"{*Hdr=set}", setTo(Deep{Hdr: &Hdr{T: "a"}})}}},
	}
	unexpGroup := []fieldSpec{
		{"hdrU", reflect.StructField{Name: "hdrU", PkgPath: c04Pkg, Type: reflect.TypeFor[hdrU](), Anonymous: true}, []fieldVariant{{"zero", setTo(nil)}}},
		{"*hdrU", reflect.StructField{Name: "hdrU", PkgPath: c04Pkg, Type: reflect.TypeFor[*hdrU](), Anonymous: true}, []fieldVariant{{"nil", setTo(nil)}}},
	}
	return [][]fieldSpec{hdrGroup, deepGroup, unexpGroup}
}

func plainSpecs() []fieldSpec {
	three := 3
	p3 := &three
	var nilInt *int
	str := "s"
	ps := &str
	var nilStr *string
	return []fieldSpec{
		{"x", reflect.StructField{Name: "x", PkgPath: c04Pkg, Type: reflect.TypeFor[int]()}, []fieldVariant{{"0", setTo(nil)}}},
		{"p", reflect.StructField{Name: "p", PkgPath: c04Pkg, Type: reflect.TypeFor[*int]()}, []fieldVariant{{"nil", setTo(nil)}}},
		{"i", reflect.StructField{Name: "i", PkgPath: c04Pkg, Type: reflect.TypeFor[any]()}, []fieldVariant{{"nil", setTo(nil)}}},
		{"A", reflect.StructField{Name: "A", Type: reflect.TypeFor[any](), Tag: `json:"a"`}, []fieldVariant{
			{"nil", setTo(nil)}, {"(*int)(nil)", setTo(nilInt)}, {"(*Hdr)(nil)", setTo((*Hdr)(nil))}, {"(*embP)(nil)", setTo((*embP)(nil))},
			{"embP{*Hdr=nil}", setTo(embP{})}, {"&embDeep{*Deep=nil}", setTo(&embDeep{})}, {"map(nil)", setTo(map[string]any(nil))}, {"[]any(nil)", setTo([]any(nil))}}},
		{"N", reflect.StructField{Name: "N", Type: reflect.TypeFor[**int](), Tag: `json:"n"`}, []fieldVariant{
			{"nil", setTo(nil)}, {"->nil", setTo(&nilInt)}, {"->->3", setTo(&p3)}}},
		{"PS", reflect.StructField{Name: "PS", Type: reflect.TypeFor[***string](), Tag: `json:"name"`}, []fieldVariant{
			{"nil", setTo(nil)}, {"->->nil", func(f reflect.Value) { p := &nilStr; f.Set(reflect.ValueOf(&p)) }}, {"->->->s", func(f reflect.Value) { p := &ps; f.Set(reflect.ValueOf(&p)) }}}},
		{"Name", reflect.StructField{Name: "Name", Type: reflect.TypeFor[string](), Tag: `json:"name"`}, []fieldVariant{{"n", setTo("n")}, {"empty", setTo(nil)}}},
		{"T", reflect.StructField{Name: "T", Type: reflect.TypeFor[string](), Tag: `json:"t"`}, []fieldVariant{{"a", setTo("a")}, {"empty", setTo(nil)}}},
		{"E", reflect.StructField{Name: "E", Type: reflect.TypeFor[*embP](), Tag: `json:"v"`}, []fieldVariant{{"nil", setTo(nil)}, {"->{*Hdr=nil}", setTo(&embP{})}}},
		{"L", reflect.StructField{Name: "L", Type: reflect.TypeFor[[]*Hdr](), Tag: `json:"l"`}, []fieldVariant{{"nil", setTo(nil)}, {"{nil}", setTo([]*Hdr{nil})}}},
		{"M", reflect.StructField{Name: "M", Type: reflect.TypeFor[map[string]*embP](), Tag: `json:"m,omitempty"`}, []fieldVariant{{"nil", setTo(nil)}, {"{a:nil}", setTo(map[string]*embP{"a": nil})}}},
		{"F", reflect.StructField{Name: "F", Type: reflect.TypeFor[func()](), Tag: `json:"-"`}, []fieldVariant{{"nil", setTo(nil)}}},
		{"Err", reflect.StructField{Name: "Err", Type: reflect.TypeFor[error]()}, []fieldVariant{{"nil", setTo(nil)}}},
	}
}

type pick struct {
	spec    fieldSpec
	variant fieldVariant
}

// mkStruct builds the struct type of the picked fields and a value of it; ok=false when reflect.StructOf refuses the layout.
func mkStruct(ps []pick) (v reflect.Value, name string, ok bool) {
	var fs []reflect.StructField
	var parts []string
	for _, p := range ps {
		fs = append(fs, p.spec.field)
		parts = append(parts, p.spec.name+"="+p.variant.name)
	}
	name = "struct{" + strings.Join(parts, ";") + "}"
	if pm := hx.Safely(func() {
		t := reflect.StructOf(fs)
		v = reflect.New(t).Elem()
		for i, p := range ps {
			p.variant.set(v.Field(i))
		}
	}); pm != "" {
		return v, name, false
	}
	return v, name, true
}

// forms: the value by value, by pointer, as element / map value of typed and untyped containers.
func forms(name string, v reflect.Value) []val {
	t := v.Type()
	p := reflect.New(t)
	p.Elem().Set(v)
	pp := reflect.New(p.Type())
	pp.Elem().Set(p)
	sl := reflect.MakeSlice(reflect.SliceOf(t), 1, 1)
	sl.Index(0).Set(v)
	slp := reflect.MakeSlice(reflect.SliceOf(p.Type()), 2, 2)
	slp.Index(0).Set(p)
	mp := reflect.MakeMap(reflect.MapOf(reflect.TypeFor[string](), t))
	mp.SetMapIndex(reflect.ValueOf("a"), v)
	return []val{
		{name, v.Interface()}, {"*" + name, p.Interface()}, {"**" + name, pp.Interface()},
		{"[]" + name, sl.Interface()}, {"[]*" + name + "+nil", slp.Interface()}, {"map[string]" + name, mp.Interface()},
		{"[]any{" + name + ",*}", []any{v.Interface(), p.Interface()}},
		{"map[string]any{f,a,t,v:" + name + "}", map[string]any{"f": v.Interface(), "a": p.Interface(), "t": v.Interface(), "v": p.Interface()}},
		{"map[any]any{a:" + name + "}", map[any]any{"a": v.Interface(), "b": p.Interface()}},
	}
}

// genStructVals: the deterministic core (every embedding spec alone, first variant, and with two plain fields) plus
// nRandom seed-dependent combinations.
func genStructVals(r *hx.Rng, nRandom int) []val {
	var out []val
	seen := map[string]bool{}
	emit := func(ps []pick) {
		v, name, ok := mkStruct(ps)
		if !ok || seen[name] {
			return
		}
		seen[name] = true
		out = append(out, forms(name, v)...)
	}
	groups := embedSpecs()
	plain := plainSpecs()
	for _, g := range groups {
		for _, s := range g {
			emit([]pick{{s, s.variants[0]}})
			emit([]pick{{s, s.variants[0]}, {plain[3], plain[3].variants[1]}, {plain[0], plain[0].variants[0]}})
		}
	}
	for i := 0; i < nRandom; i++ {
		var ps []pick
		for _, g := range groups {
			if r.Chance(55) {
				s := hx.Pick(r, g)
				ps = append(ps, pick{s, hx.Pick(r, s.variants)})
			}
		}
		for _, s := range plain {
			if r.Chance(30) {
				ps = append(ps, pick{s, hx.Pick(r, s.variants)})
			}
		}
		if len(ps) == 0 {
			continue
		}
		// field order is part of the layout (reflect walks fields by index)
		for j := len(ps) - 1; j > 0; j-- {
			k := r.Intn(j + 1)
			ps[j], ps[k] = ps[k], ps[j]
		}
		emit(ps)
	}
	// the declared layouts
	three := 3
	for _, d := range []val{
		{"embV{}", embV{}}, {"embP{*Hdr=nil}", embP{A: (*int)(nil)}}, {"embP{*Hdr=set}", embP{Hdr: &Hdr{T: "a"}, N: &three}},
		{"embDeep{*Deep=nil}", embDeep{}}, {"embDeep{*Deep->{*Hdr=nil}}", embDeep{Deep: &Deep{}, Next: &embP{}}},
		{"embU{*Hdr=nil}", embU{}}, {"Deep{*Hdr=nil}", Deep{}},
	} {
		out = append(out, forms(d.name, reflect.ValueOf(d.v))...)
	}
	return out
}

// structSchemas: object flavours and struct schemas over the layouts above, at top level and nested.
func structSchemas() []named {
	shape := func() core.ObjectSchema {
		return core.ObjectSchema{
			"id": types.Int().Optional(), "t": types.Any().Optional(), "name": types.String().Optional(),
			"a": types.Any().Optional(), "n": types.Any().Optional(), "v": types.Any().Optional(),
		}
	}
	var out []named
	add := func(name, kind string, mk func() core.ZodSchema) {
		var z core.ZodSchema
		if pm := hx.Safely(func() { z = mk() }); pm != "" || z == nil {
			return // a constructor refusing the layout is not a Parse
		}
		out = append(out, named{name, kind, z})
	}
	objs := []struct {
		name string
		mk   func() core.ZodSchema
	}{
		{"Object{id?,t?,name?,a?,n?,v?}", func() core.ZodSchema { return types.Object(shape()) }},
		{"StrictObject{id?,t?,name?,a?,n?,v?}", func() core.ZodSchema { return types.StrictObject(shape()) }},
		{"LooseObject{id?,t?,name?,a?,n?,v?}", func() core.ZodSchema { return types.LooseObject(shape()) }},
		{"ObjectPtr{id?,t?,name?,a?,n?,v?}", func() core.ZodSchema { return types.ObjectPtr(shape()) }},
		{"Object{}.Catchall(Any())", func() core.ZodSchema { return types.Object(core.ObjectSchema{}).WithCatchall(types.Any()) }},
		{"Struct[embV]()", func() core.ZodSchema { return types.Struct[embV]() }},
		{"Struct[embP]()", func() core.ZodSchema { return types.Struct[embP]() }},
		{"Struct[embP]{A:Any()}", func() core.ZodSchema { return types.Struct[embP](core.StructSchema{"A": types.Any()}) }},
		{"Struct[embDeep]()", func() core.ZodSchema { return types.Struct[embDeep]() }},
		{"Struct[embU]()", func() core.ZodSchema { return types.Struct[embU]() }},
		{"StructPtr[embP]()", func() core.ZodSchema { return types.StructPtr[embP]() }},
		{"FromStruct[embV]()", func() core.ZodSchema { return types.FromStruct[embV]() }},
		{"FromStruct[embP]()", func() core.ZodSchema { return types.FromStruct[embP]() }},
		{"FromStruct[embDeep]()", func() core.ZodSchema { return types.FromStruct[embDeep]() }},
		{"FromStruct[embU]()", func() core.ZodSchema { return types.FromStruct[embU]() }},
		{"FromStructPtr[embP]()", func() core.ZodSchema { return types.FromStructPtr[embP]() }},
	}
	for _, ob := range objs {
		ob := ob
		add(ob.name, "structin", ob.mk)
		add(fmt.Sprintf("Slice[any](%s)", ob.name), "structin", func() core.ZodSchema { return types.Slice[any](ob.mk()) })
		add(fmt.Sprintf("Map(String(),%s)", ob.name), "structin", func() core.ZodSchema { return types.Map(types.String(), ob.mk()) })
		add(fmt.Sprintf("Union(String(),%s)", ob.name), "structin", func() core.ZodSchema { return types.Union([]any{types.String(), ob.mk()}) })
		add(fmt.Sprintf("Object{f:%s,a:%s?}", ob.name, ob.name), "structin", func() core.ZodSchema {
			return types.Object(core.ObjectSchema{"f": ob.mk(), "a": types.Union([]any{ob.mk(), types.Nil()})})
		})
		add(fmt.Sprintf("Record(String(),%s)", ob.name), "structin", func() core.ZodSchema { return types.Record(types.String(), ob.mk()) })
	}
	return out
}
