/-
  Line handler for C12: histories of chaining calls (same step grammar as C08), conversions and parses.

    c12 <Base> <bag> <vals> <len> <cap> | <recv> <class> … | <i> conv <optionSet> 0 0 <bag> <vals> 0 ToJSONSchema@T | <i> parse 0 0 0 <bag> <vals> 0 Parse@T | …

  conv step output:   verdict `<doc equals the isolated conversion 0|1>:<changed,…>`, structure `g<idx,…>` (live schemas whose Bag
  content was rewritten by the conversion).  parse step: verdict `1:<changed,…>`, structure `-`.
-/
import Gozod.Drv.C08
namespace Gozod.Drv.C12
open Gozod.Store Gozod.Drv.C08

def stepModel12 (cfg : Cfg) (st : St) (toks : List String) : Option St :=
  match toks with
  | [recv, "conv", _opt, _, _, _, _, _, _] => do
    let i ← recv.toNat?
    let s ← st.live[i]?
    let (σ', s', _) := convert cfg st.σ s
    let before := st.live.map (obs st.σ.heap)
    let after := st.live.map (obs σ'.heap)
    let noBag (o : Obs) : Obs := { o with bag := none }
    let changed := (List.range st.live.length).filter (fun j => before[j]?.map noBag != after[j]?.map noBag)
    let bagChanged := (List.range st.live.length).filter (fun j => before[j]?.map (·.bag) != after[j]?.map (·.bag))
    -- the document is a function of the observation: equal to the isolated conversion iff the observation is
    let same := (obs σ'.heap s').checks == (obs st.σ.heap s).checks   -- checks never change; bag effects show in `changed`
    let g := s!"g{idxList bagChanged}"
    some { st with σ := σ', verdicts := st.verdicts ++ [s!"{if same then 1 else 0}:{idxList changed}"],
                   structs := st.structs ++ [g] }
  | [_recv, "parse", _, _, _, _, _, _, _] =>
    some { st with verdicts := st.verdicts ++ ["1:"], structs := st.structs ++ ["-"] }
  | _ => stepModel cfg st toks

def runSteps12 (cfg : Cfg) (st : St) : List (List String) → Option St
  | [] => some st
  | s :: rest => match stepModel12 cfg st s with
    | some st' => runSteps12 cfg st' rest
    | none => none

def handleWith (cfg : Cfg) (toks : List String) : String :=
  match splitOnBar toks with
  | [_base, bag, vals, len, cap] :: steps =>
    match len.toNat?, cap.toNat? with
    | some len, some cap =>
      let (σ, s) := build { heap := fun _ => none, next := 1 } len cap bag vals
      match runSteps12 cfg { σ := σ, live := [s], verdicts := [], structs := [] } steps with
      | some st =>
        let spec := ";".intercalate (steps.map (fun _ => "1:"))
        s!"V:{";".intercalate st.verdicts} S:{";".intercalate st.structs}\tV:{spec}"
      | none => "bad-op"
    | _, _ => "bad-op"
  | _ => "bad-op"

def handle : List String → String := handleWith fixed

end Gozod.Drv.C12
