#!/bin/bash
# tools/sweep.sh <tier> <seeds...>: every check on the unchanged tree for the given seeds; one summary line per run.
# Meant for `vp run -- tools/sweep.sh quick 2 3 4 5` (a snapshot has no .build: setup is run first).
TIER=$1; shift
export GOFLAGS=-mod=mod GOPROXY=off
./check --setup > sweep-setup.log 2>&1
for s in "$@"; do
  for i in 01 02 03 04 05 06 07 08 09 10 11 12 13 14 15 16 17 18 19 20; do
    t0=$(date +%s)
    VERIF_SEED=$s ./check C$i $TIER > sweep-C$i-$TIER-$s.log 2>&1; rc=$?
    echo "C$i $TIER seed=$s rc=$rc $(( $(date +%s)-t0 ))s violations=$(grep -c '^VIOLATION' sweep-C$i-$TIER-$s.log) known=$(grep -c '^KNOWN' sweep-C$i-$TIER-$s.log)"
    grep '^VIOLATION' sweep-C$i-$TIER-$s.log | head -5
  done
done
