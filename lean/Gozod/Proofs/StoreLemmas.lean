/-
  Frame lemmas of the store model shared by C08 / C12 / C15: a schema's observation depends only on the
  locations it reaches; allocation and writes to fresh locations leave every older location alone.
-/
import Gozod.Model.Store

namespace Gozod.Store

/-- `σ'` extends `σ`: nothing below `n` was written, and the allocation pointer did not move back. -/
def ExtFrom (n : Nat) (σ σ' : Store) : Prop :=
  σ.next ≤ σ'.next ∧ ∀ l, l < n → σ'.heap l = σ.heap l

theorem ExtFrom.refl (n : Nat) (σ : Store) : ExtFrom n σ σ := ⟨Nat.le_refl _, fun _ _ => rfl⟩

theorem ExtFrom.trans {n : Nat} {a b c : Store} (h1 : ExtFrom n a b) (h2 : ExtFrom n b c) : ExtFrom n a c :=
  ⟨Nat.le_trans h1.1 h2.1, fun l hl => by rw [h2.2 l hl, h1.2 l hl]⟩

theorem ExtFrom.mono {n m : Nat} {a b : Store} (h : ExtFrom n a b) (hm : m ≤ n) : ExtFrom m a b :=
  ⟨h.1, fun l hl => h.2 l (Nat.lt_of_lt_of_le hl hm)⟩

theorem upd_other (h : Loc → Option Cell) (l x : Loc) (c : Cell) (hx : x ≠ l) : upd h l c x = h x := by
  simp [upd, hx]

theorem upd_same (h : Loc → Option Cell) (l : Loc) (c : Cell) : upd h l c l = some c := by
  simp [upd]

theorem alloc_ext (n : Nat) (σ : Store) (c : Cell) (hn : n ≤ σ.next) : ExtFrom n σ (alloc σ c).1 := by
  refine ⟨by simp [alloc], fun l hl => ?_⟩
  simp only [alloc]
  exact upd_other _ _ _ _ (Nat.ne_of_lt (Nat.lt_of_lt_of_le hl hn))

theorem alloc_next (σ : Store) (c : Cell) : (alloc σ c).1.next = σ.next + 1 := rfl
theorem alloc_loc (σ : Store) (c : Cell) : (alloc σ c).2 = σ.next := rfl
theorem alloc_get (σ : Store) (c : Cell) : (alloc σ c).1.heap σ.next = some c := by simp [alloc, upd]

theorem write_ext (n : Nat) (σ : Store) (l : Loc) (c : Cell) (hl : n ≤ l) : ExtFrom n σ (write σ l c) := by
  refine ⟨Nat.le_refl _, fun x hx => ?_⟩
  simp only [write]
  exact upd_other _ _ _ _ (Nat.ne_of_lt (Nat.lt_of_lt_of_le hx hl))

/-! ### observation depends only on `locs` -/

theorem readArr_congr {h h' : Loc → Option Cell} (hd : Hdr) (e : h' hd.loc = h hd.loc) :
    readArr h' hd = readArr h hd := by simp [readArr, e]

theorem readBag_congr {h h' : Loc → Option Cell} (b : Option Loc) (e : ∀ l ∈ optLoc b, h' l = h l) :
    readBag h' b = readBag h b := by
  cases b with
  | none => rfl
  | some l => simp [readBag, e l (by simp [optLoc])]

theorem readVals_congr {h h' : Loc → Option Cell} (b : Option Loc) (e : ∀ l ∈ optLoc b, h' l = h l) :
    readVals h' b = readVals h b := by
  cases b with
  | none => rfl
  | some l => simp [readVals, e l (by simp [optLoc])]

theorem readShape_congr {h h' : Loc → Option Cell} (b : Option Loc) (e : ∀ l ∈ optLoc b, h' l = h l) :
    readShape h' b = readShape h b := by
  cases b with
  | none => rfl
  | some l => simp [readShape, e l (by simp [optLoc])]

theorem dfltKids_congr {h h' : Loc → Option Cell} (d : Option UVal) (e : ∀ l ∈ dfltLocs d, h' l = h l) :
    dfltKids h' d = dfltKids h d := by
  cases d with
  | none => rfl
  | some v => cases v with
    | scalar n => rfl
    | ref l => simp [dfltKids, readNode, e l (by simp [dfltLocs])]

theorem bagLocs_congr {h h' : Loc → Option Cell} (b : Option Loc) (e : ∀ l ∈ optLoc b, h' l = h l) :
    bagLocs h' b = bagLocs h b := by simp [bagLocs, readBag_congr b e]

theorem locs_congr {h h' : Loc → Option Cell} (s : Schema) (e : ∀ l ∈ direct s, h' l = h l) :
    locs h' s = locs h s := by
  unfold locs
  rw [bagLocs_congr s.bag (fun l hl => e l (by simp [direct]; simp [hl]))]

theorem obs_congr {h h' : Loc → Option Cell} (s : Schema) (e : ∀ l ∈ locs h s, h' l = h l) :
    obs h' s = obs h s := by
  have ed : ∀ l ∈ direct s, h' l = h l := fun l hl => e l (by simp [locs, hl])
  have eb : readBag h' s.bag = readBag h s.bag :=
    readBag_congr s.bag (fun l hl => ed l (by simp [direct]; simp [hl]))
  unfold obs
  congr 1
  · exact readArr_congr s.checks (ed _ (by simp [direct]))
  · rw [eb]
    cases hb : readBag h s.bag with
    | none => rfl
    | some kv =>
      simp only [Option.map_some, Option.some.injEq]
      apply List.map_congr_left
      intro p hp
      cases hv : p.2 with
      | num n => simp [obsBagVal]
      | strs hd =>
        simp only [obsBagVal]
        congr 1
        have : readArr h' hd = readArr h hd := by
          apply readArr_congr
          apply e
          simp only [locs, bagLocs, hb, List.mem_append, List.mem_flatMap]
          exact Or.inr ⟨p, hp, by simp [hv, bagValLocs]⟩
        rw [this]
  · exact readVals_congr s.values (fun l hl => ed l (by simp [direct]; simp [hl]))
  · exact readShape_congr s.shape (fun l hl => ed l (by simp [direct]; simp [hl]))
  · simp [readMeta, ed s.self (by simp [direct])]
  · exact dfltKids_congr s.dflt (fun l hl => ed l (by simp [direct]; simp [hl]))

/-- Well-formed (allocated) schema: everything its observation reads lies below the allocation pointer,
    and an empty check slice has no spare capacity (`Checks: []ZodCheck{}` in every constructor). -/
def WfS (σ : Store) (s : Schema) : Prop :=
  (∀ l ∈ locs σ.heap s, l < σ.next) ∧ (s.checks.len = 0 → s.checks.cap = 0)

/-- The frame property: an operation that writes nothing below the old allocation pointer cannot change
    what any allocated schema looks like. -/
theorem obs_frame {σ σ' : Store} (s : Schema) (hw : WfS σ s) (he : ExtFrom σ.next σ σ') :
    obs σ'.heap s = obs σ.heap s :=
  obs_congr s (fun l hl => he.2 l (hw.1 l hl))

theorem wfs_frame {σ σ' : Store} (s : Schema) (hw : WfS σ s) (he : ExtFrom σ.next σ σ') : WfS σ' s := by
  refine ⟨fun l hl => ?_, hw.2⟩
  have : locs σ'.heap s = locs σ.heap s :=
    locs_congr s (fun l hl => he.2 l (hw.1 l (by simp [locs, hl])))
  rw [this] at hl
  exact Nat.lt_of_lt_of_le (hw.1 l hl) he.1

end Gozod.Store

namespace Gozod.Store

/-! ### bags only mention allocated arrays -/

def cellOk (n : Nat) : Cell → Prop
  | .bag kv => ∀ p ∈ kv, ∀ l' ∈ bagValLocs p.2, l' < n
  | _ => True

/-- Every `[]string` stored in a Bag points at an allocated array. -/
def BagClosed (σ : Store) : Prop := ∀ l c, σ.heap l = some c → cellOk σ.next c

theorem cellOk_mono {n m : Nat} (c : Cell) (h : cellOk n c) (hm : n ≤ m) : cellOk m c := by
  cases c <;> simp_all [cellOk]
  intro a b hp l' hl'
  exact Nat.lt_of_lt_of_le (h a b hp l' hl') hm

theorem bagClosed_alloc (σ : Store) (c : Cell) (hc : BagClosed σ) (hok : cellOk (σ.next + 1) c) :
    BagClosed (alloc σ c).1 := by
  intro l c' hl
  simp only [alloc, upd] at hl
  show cellOk (σ.next + 1) c'
  split at hl
  · cases hl; exact hok
  · exact cellOk_mono c' (hc l c' hl) (Nat.le_succ _)

theorem bagClosed_write (σ : Store) (l : Loc) (c : Cell) (hc : BagClosed σ) (hok : cellOk σ.next c) :
    BagClosed (write σ l c) := by
  intro x c' hx
  simp only [write, upd] at hx
  show cellOk σ.next c'
  split at hx
  · cases hx; exact hok
  · exact hc x c' hx

theorem bagLocs_lt (σ : Store) (hc : BagClosed σ) (b : Option Loc) : ∀ l ∈ bagLocs σ.heap b, l < σ.next := by
  intro l hl
  cases b with
  | none => simp [bagLocs, readBag] at hl
  | some lb =>
    simp only [bagLocs, readBag] at hl
    cases hh : σ.heap lb with
    | none => simp [hh] at hl
    | some c =>
      cases c with
      | bag kv =>
        simp only [hh, List.mem_flatMap] at hl
        obtain ⟨p, hp, hl'⟩ := hl
        exact hc lb (.bag kv) hh p hp l hl'
      | _ => simp [hh] at hl

/-- With closed bags, a schema is well-formed as soon as its direct references are allocated. -/
theorem wfs_of_direct (σ : Store) (hc : BagClosed σ) (s : Schema) (hd : ∀ l ∈ direct s, l < σ.next)
    (hcap : s.checks.len = 0 → s.checks.cap = 0) : WfS σ s := by
  refine ⟨fun l hl => ?_, hcap⟩
  simp only [locs, List.mem_append] at hl
  cases hl with
  | inl h => exact hd l h
  | inr h => exact bagLocs_lt σ hc s.bag l h

end Gozod.Store
