-- REGENERATED on every `./check C06` run by vlib/c06.py: type graphs read back by reflection from the generated
-- Go struct types, and the verdict of gozod.FromStruct[Root]().Parse on every probe value. DO NOT EDIT.
import Gozod.Model.TagGraph
namespace Gozod.Gen
open Gozod.Tags.Graph

def graphRow0 : GRow where
  name := "single_val_required"
  env := [⟨some 3, [⟨.val, 1, .required⟩]⟩, ⟨some 3, []⟩]
  built := true
  probes := [
    (.node 5 [.node 5 []], .acc),
    (.node 1 [.node 5 []], .rej),
    (.node 5 [.node 1 []], .rej)
  ]

def graphRow1 : GRow where
  name := "single_val_untagged"
  env := [⟨some 3, [⟨.val, 1, .none⟩]⟩, ⟨some 3, []⟩]
  built := true
  probes := [
    (.node 5 [.node 5 []], .acc),
    (.node 1 [.node 5 []], .rej),
    (.node 5 [.node 1 []], .acc)
  ]

def graphRow2 : GRow where
  name := "single_ptr_required"
  env := [⟨some 3, [⟨.ptr, 1, .required⟩]⟩, ⟨some 3, []⟩]
  built := true
  probes := [
    (.node 5 [.node 5 []], .acc),
    (.node 1 [.node 5 []], .rej),
    (.node 5 [.nil], .rej),
    (.node 5 [.node 1 []], .rej)
  ]

def graphRow3 : GRow where
  name := "single_ptr_untagged"
  env := [⟨some 3, [⟨.ptr, 1, .none⟩]⟩, ⟨some 3, []⟩]
  built := true
  probes := [
    (.node 5 [.node 5 []], .acc),
    (.node 1 [.node 5 []], .rej),
    (.node 5 [.nil], .acc),
    (.node 5 [.node 1 []], .acc)
  ]

def graphRow4 : GRow where
  name := "single_slice_required"
  env := [⟨some 3, [⟨.slice, 1, .required⟩]⟩, ⟨some 3, []⟩]
  built := true
  probes := [
    (.node 5 [.list [.node 5 [], .node 5 []]], .acc),
    (.node 1 [.list [.node 5 [], .node 5 []]], .rej),
    (.node 5 [.nil], .rej),
    (.node 5 [.list []], .acc),
    (.node 5 [.list [.node 5 [], .node 5 [], .node 5 []]], .acc),
    (.node 5 [.list [.node 1 [], .node 5 []]], .rej),
    (.node 5 [.list [.node 5 [], .node 1 []]], .rej)
  ]

def graphRow5 : GRow where
  name := "single_slice_max2"
  env := [⟨some 3, [⟨.slice, 1, .maxLen 2⟩]⟩, ⟨some 3, []⟩]
  built := true
  probes := [
    (.node 5 [.list [.node 5 [], .node 5 []]], .acc),
    (.node 1 [.list [.node 5 [], .node 5 []]], .rej),
    (.node 5 [.nil], .rej),
    (.node 5 [.list []], .acc),
    (.node 5 [.list [.node 5 [], .node 5 [], .node 5 []]], .rej),
    (.node 5 [.list [.node 1 [], .node 5 []]], .rej),
    (.node 5 [.list [.node 5 [], .node 1 []]], .rej)
  ]

def graphRow6 : GRow where
  name := "single_slice_untagged"
  env := [⟨some 3, [⟨.slice, 1, .none⟩]⟩, ⟨some 3, []⟩]
  built := true
  probes := [
    (.node 5 [.list [.node 5 [], .node 5 []]], .acc),
    (.node 1 [.list [.node 5 [], .node 5 []]], .rej),
    (.node 5 [.nil], .acc),
    (.node 5 [.list []], .acc),
    (.node 5 [.list [.node 5 [], .node 5 [], .node 5 []]], .acc),
    (.node 5 [.list [.node 1 [], .node 5 []]], .acc),
    (.node 5 [.list [.node 5 [], .node 1 []]], .acc)
  ]

def graphRow7 : GRow where
  name := "single_sliceptr_required"
  env := [⟨some 3, [⟨.sliceptr, 1, .required⟩]⟩, ⟨some 3, []⟩]
  built := true
  probes := [
    (.node 5 [.list [.node 5 [], .node 5 []]], .acc),
    (.node 1 [.list [.node 5 [], .node 5 []]], .rej),
    (.node 5 [.nil], .rej),
    (.node 5 [.list []], .acc),
    (.node 5 [.list [.node 5 [], .node 5 [], .node 5 []]], .acc),
    (.node 5 [.list [.node 1 [], .node 5 []]], .rej),
    (.node 5 [.list [.node 5 [], .node 1 []]], .rej)
  ]

def graphRow8 : GRow where
  name := "single_sliceptr_max2"
  env := [⟨some 3, [⟨.sliceptr, 1, .maxLen 2⟩]⟩, ⟨some 3, []⟩]
  built := true
  probes := [
    (.node 5 [.list [.node 5 [], .node 5 []]], .acc),
    (.node 1 [.list [.node 5 [], .node 5 []]], .rej),
    (.node 5 [.nil], .rej),
    (.node 5 [.list []], .acc),
    (.node 5 [.list [.node 5 [], .node 5 [], .node 5 []]], .rej),
    (.node 5 [.list [.node 1 [], .node 5 []]], .rej),
    (.node 5 [.list [.node 5 [], .node 1 []]], .rej)
  ]

def graphRow9 : GRow where
  name := "single_sliceptr_untagged"
  env := [⟨some 3, [⟨.sliceptr, 1, .none⟩]⟩, ⟨some 3, []⟩]
  built := true
  probes := [
    (.node 5 [.list [.node 5 [], .node 5 []]], .acc),
    (.node 1 [.list [.node 5 [], .node 5 []]], .rej),
    (.node 5 [.nil], .acc),
    (.node 5 [.list []], .acc),
    (.node 5 [.list [.node 5 [], .node 5 [], .node 5 []]], .acc),
    (.node 5 [.list [.node 1 [], .node 5 []]], .acc),
    (.node 5 [.list [.node 5 [], .node 1 []]], .acc)
  ]

def graphRow10 : GRow where
  name := "single_map_required"
  env := [⟨some 3, [⟨.map, 1, .required⟩]⟩, ⟨some 3, []⟩]
  built := true
  probes := [
    (.node 5 [.list [.node 5 []]], .acc),
    (.node 1 [.list [.node 5 []]], .rej),
    (.node 5 [.nil], .rej),
    (.node 5 [.list []], .acc),
    (.node 5 [.list [.node 1 []]], .rej)
  ]

def graphRow11 : GRow where
  name := "single_map_untagged"
  env := [⟨some 3, [⟨.map, 1, .none⟩]⟩, ⟨some 3, []⟩]
  built := true
  probes := [
    (.node 5 [.list [.node 5 []]], .acc),
    (.node 1 [.list [.node 5 []]], .rej),
    (.node 5 [.nil], .acc),
    (.node 5 [.list []], .acc),
    (.node 5 [.list [.node 1 []]], .acc)
  ]

def graphRow12 : GRow where
  name := "single_mapptr_required"
  env := [⟨some 3, [⟨.mapptr, 1, .required⟩]⟩, ⟨some 3, []⟩]
  built := true
  probes := [
    (.node 5 [.list [.node 5 []]], .acc),
    (.node 1 [.list [.node 5 []]], .rej),
    (.node 5 [.nil], .rej),
    (.node 5 [.list []], .acc),
    (.node 5 [.list [.node 1 []]], .rej)
  ]

def graphRow13 : GRow where
  name := "single_mapptr_untagged"
  env := [⟨some 3, [⟨.mapptr, 1, .none⟩]⟩, ⟨some 3, []⟩]
  built := true
  probes := [
    (.node 5 [.list [.node 5 []]], .acc),
    (.node 1 [.list [.node 5 []]], .rej),
    (.node 5 [.nil], .acc),
    (.node 5 [.list []], .acc),
    (.node 5 [.list [.node 1 []]], .acc)
  ]

def graphRow14 : GRow where
  name := "single_emb_required"
  env := [⟨some 3, [⟨.emb, 1, .required⟩]⟩, ⟨some 3, []⟩]
  built := true
  probes := [
    (.node 5 [.node 5 []], .acc),
    (.node 1 [.node 5 []], .rej),
    (.node 5 [.node 1 []], .rej)
  ]

def graphRow15 : GRow where
  name := "single_emb_untagged"
  env := [⟨some 3, [⟨.emb, 1, .none⟩]⟩, ⟨some 3, []⟩]
  built := true
  probes := [
    (.node 5 [.node 5 []], .acc),
    (.node 1 [.node 5 []], .rej),
    (.node 5 [.node 1 []], .acc)
  ]

def graphRow16 : GRow where
  name := "plain_val"
  env := [⟨some 3, [⟨.val, 1, .required⟩]⟩, ⟨none, []⟩]
  built := true
  probes := [
    (.node 5 [.node 5 []], .acc),
    (.node 1 [.node 5 []], .rej),
    (.node 5 [.node 1 []], .acc)
  ]

def graphRow17 : GRow where
  name := "plain_ptr"
  env := [⟨some 3, [⟨.ptr, 1, .required⟩]⟩, ⟨none, []⟩]
  built := true
  probes := [
    (.node 5 [.node 5 []], .acc),
    (.node 1 [.node 5 []], .rej),
    (.node 5 [.nil], .rej),
    (.node 5 [.node 1 []], .acc)
  ]

def graphRow18 : GRow where
  name := "plain_slice"
  env := [⟨some 3, [⟨.slice, 1, .maxLen 2⟩]⟩, ⟨none, []⟩]
  built := true
  probes := [
    (.node 5 [.list [.node 5 [], .node 5 []]], .acc),
    (.node 1 [.list [.node 5 [], .node 5 []]], .rej),
    (.node 5 [.nil], .rej),
    (.node 5 [.list []], .acc),
    (.node 5 [.list [.node 5 [], .node 5 [], .node 5 []]], .rej),
    (.node 5 [.list [.node 1 [], .node 5 []]], .acc),
    (.node 5 [.list [.node 5 [], .node 1 []]], .acc)
  ]

def graphRow19 : GRow where
  name := "plain_map"
  env := [⟨some 3, [⟨.map, 1, .required⟩]⟩, ⟨none, []⟩]
  built := true
  probes := [
    (.node 5 [.list [.node 5 []]], .acc),
    (.node 1 [.list [.node 5 []]], .rej),
    (.node 5 [.nil], .rej),
    (.node 5 [.list []], .acc),
    (.node 5 [.list [.node 1 []]], .acc)
  ]

def graphRow20 : GRow where
  name := "twice_val_val"
  env := [⟨some 3, [⟨.val, 1, .required⟩, ⟨.val, 1, .required⟩]⟩, ⟨some 3, []⟩]
  built := true
  probes := [
    (.node 5 [.node 5 [], .node 5 []], .acc),
    (.node 1 [.node 5 [], .node 5 []], .rej),
    (.node 5 [.node 1 [], .node 5 []], .rej),
    (.node 5 [.node 5 [], .node 1 []], .rej)
  ]

def graphRow21 : GRow where
  name := "twice_val_ptr"
  env := [⟨some 3, [⟨.val, 1, .required⟩, ⟨.ptr, 1, .required⟩]⟩, ⟨some 3, []⟩]
  built := true
  probes := [
    (.node 5 [.node 5 [], .node 5 []], .acc),
    (.node 1 [.node 5 [], .node 5 []], .rej),
    (.node 5 [.node 1 [], .node 5 []], .rej),
    (.node 5 [.node 5 [], .nil], .rej),
    (.node 5 [.node 5 [], .node 1 []], .rej)
  ]

def graphRow22 : GRow where
  name := "twice_val_slice"
  env := [⟨some 3, [⟨.val, 1, .required⟩, ⟨.slice, 1, .maxLen 2⟩]⟩, ⟨some 3, []⟩]
  built := true
  probes := [
    (.node 5 [.node 5 [], .list [.node 5 [], .node 5 []]], .acc),
    (.node 1 [.node 5 [], .list [.node 5 [], .node 5 []]], .rej),
    (.node 5 [.node 1 [], .list [.node 5 [], .node 5 []]], .rej),
    (.node 5 [.node 5 [], .nil], .rej),
    (.node 5 [.node 5 [], .list []], .acc),
    (.node 5 [.node 5 [], .list [.node 5 [], .node 5 [], .node 5 []]], .rej),
    (.node 5 [.node 5 [], .list [.node 1 [], .node 5 []]], .rej),
    (.node 5 [.node 5 [], .list [.node 5 [], .node 1 []]], .rej)
  ]

def graphRow23 : GRow where
  name := "twice_val_sliceptr"
  env := [⟨some 3, [⟨.val, 1, .required⟩, ⟨.sliceptr, 1, .maxLen 2⟩]⟩, ⟨some 3, []⟩]
  built := true
  probes := [
    (.node 5 [.node 5 [], .list [.node 5 [], .node 5 []]], .acc),
    (.node 1 [.node 5 [], .list [.node 5 [], .node 5 []]], .rej),
    (.node 5 [.node 1 [], .list [.node 5 [], .node 5 []]], .rej),
    (.node 5 [.node 5 [], .nil], .rej),
    (.node 5 [.node 5 [], .list []], .acc),
    (.node 5 [.node 5 [], .list [.node 5 [], .node 5 [], .node 5 []]], .rej),
    (.node 5 [.node 5 [], .list [.node 1 [], .node 5 []]], .rej),
    (.node 5 [.node 5 [], .list [.node 5 [], .node 1 []]], .rej)
  ]

def graphRow24 : GRow where
  name := "twice_val_map"
  env := [⟨some 3, [⟨.val, 1, .required⟩, ⟨.map, 1, .required⟩]⟩, ⟨some 3, []⟩]
  built := true
  probes := [
    (.node 5 [.node 5 [], .list [.node 5 []]], .acc),
    (.node 1 [.node 5 [], .list [.node 5 []]], .rej),
    (.node 5 [.node 1 [], .list [.node 5 []]], .rej),
    (.node 5 [.node 5 [], .nil], .rej),
    (.node 5 [.node 5 [], .list []], .acc),
    (.node 5 [.node 5 [], .list [.node 1 []]], .rej)
  ]

def graphRow25 : GRow where
  name := "twice_val_mapptr"
  env := [⟨some 3, [⟨.val, 1, .required⟩, ⟨.mapptr, 1, .required⟩]⟩, ⟨some 3, []⟩]
  built := true
  probes := [
    (.node 5 [.node 5 [], .list [.node 5 []]], .acc),
    (.node 1 [.node 5 [], .list [.node 5 []]], .rej),
    (.node 5 [.node 1 [], .list [.node 5 []]], .rej),
    (.node 5 [.node 5 [], .nil], .rej),
    (.node 5 [.node 5 [], .list []], .acc),
    (.node 5 [.node 5 [], .list [.node 1 []]], .rej)
  ]

def graphRow26 : GRow where
  name := "twice_val_emb"
  env := [⟨some 3, [⟨.val, 1, .required⟩, ⟨.emb, 1, .required⟩]⟩, ⟨some 3, []⟩]
  built := true
  probes := [
    (.node 5 [.node 5 [], .node 5 []], .acc),
    (.node 1 [.node 5 [], .node 5 []], .rej),
    (.node 5 [.node 1 [], .node 5 []], .rej),
    (.node 5 [.node 5 [], .node 1 []], .rej)
  ]

def graphRow27 : GRow where
  name := "twice_ptr_val"
  env := [⟨some 3, [⟨.ptr, 1, .required⟩, ⟨.val, 1, .required⟩]⟩, ⟨some 3, []⟩]
  built := true
  probes := [
    (.node 5 [.node 5 [], .node 5 []], .acc),
    (.node 1 [.node 5 [], .node 5 []], .rej),
    (.node 5 [.nil, .node 5 []], .rej),
    (.node 5 [.node 1 [], .node 5 []], .rej),
    (.node 5 [.node 5 [], .node 1 []], .rej)
  ]

def graphRow28 : GRow where
  name := "twice_ptr_ptr"
  env := [⟨some 3, [⟨.ptr, 1, .required⟩, ⟨.ptr, 1, .required⟩]⟩, ⟨some 3, []⟩]
  built := true
  probes := [
    (.node 5 [.node 5 [], .node 5 []], .acc),
    (.node 1 [.node 5 [], .node 5 []], .rej),
    (.node 5 [.nil, .node 5 []], .rej),
    (.node 5 [.node 1 [], .node 5 []], .rej),
    (.node 5 [.node 5 [], .nil], .rej),
    (.node 5 [.node 5 [], .node 1 []], .rej)
  ]

def graphRow29 : GRow where
  name := "twice_ptr_slice"
  env := [⟨some 3, [⟨.ptr, 1, .required⟩, ⟨.slice, 1, .maxLen 2⟩]⟩, ⟨some 3, []⟩]
  built := true
  probes := [
    (.node 5 [.node 5 [], .list [.node 5 [], .node 5 []]], .acc),
    (.node 1 [.node 5 [], .list [.node 5 [], .node 5 []]], .rej),
    (.node 5 [.nil, .list [.node 5 [], .node 5 []]], .rej),
    (.node 5 [.node 1 [], .list [.node 5 [], .node 5 []]], .rej),
    (.node 5 [.node 5 [], .nil], .rej),
    (.node 5 [.node 5 [], .list []], .acc),
    (.node 5 [.node 5 [], .list [.node 5 [], .node 5 [], .node 5 []]], .rej),
    (.node 5 [.node 5 [], .list [.node 1 [], .node 5 []]], .rej),
    (.node 5 [.node 5 [], .list [.node 5 [], .node 1 []]], .rej)
  ]

def graphRow30 : GRow where
  name := "twice_ptr_sliceptr"
  env := [⟨some 3, [⟨.ptr, 1, .required⟩, ⟨.sliceptr, 1, .maxLen 2⟩]⟩, ⟨some 3, []⟩]
  built := true
  probes := [
    (.node 5 [.node 5 [], .list [.node 5 [], .node 5 []]], .acc),
    (.node 1 [.node 5 [], .list [.node 5 [], .node 5 []]], .rej),
    (.node 5 [.nil, .list [.node 5 [], .node 5 []]], .rej),
    (.node 5 [.node 1 [], .list [.node 5 [], .node 5 []]], .rej),
    (.node 5 [.node 5 [], .nil], .rej),
    (.node 5 [.node 5 [], .list []], .acc),
    (.node 5 [.node 5 [], .list [.node 5 [], .node 5 [], .node 5 []]], .rej),
    (.node 5 [.node 5 [], .list [.node 1 [], .node 5 []]], .rej),
    (.node 5 [.node 5 [], .list [.node 5 [], .node 1 []]], .rej)
  ]

def graphRow31 : GRow where
  name := "twice_ptr_map"
  env := [⟨some 3, [⟨.ptr, 1, .required⟩, ⟨.map, 1, .required⟩]⟩, ⟨some 3, []⟩]
  built := true
  probes := [
    (.node 5 [.node 5 [], .list [.node 5 []]], .acc),
    (.node 1 [.node 5 [], .list [.node 5 []]], .rej),
    (.node 5 [.nil, .list [.node 5 []]], .rej),
    (.node 5 [.node 1 [], .list [.node 5 []]], .rej),
    (.node 5 [.node 5 [], .nil], .rej),
    (.node 5 [.node 5 [], .list []], .acc),
    (.node 5 [.node 5 [], .list [.node 1 []]], .rej)
  ]

def graphRow32 : GRow where
  name := "twice_ptr_mapptr"
  env := [⟨some 3, [⟨.ptr, 1, .required⟩, ⟨.mapptr, 1, .required⟩]⟩, ⟨some 3, []⟩]
  built := true
  probes := [
    (.node 5 [.node 5 [], .list [.node 5 []]], .acc),
    (.node 1 [.node 5 [], .list [.node 5 []]], .rej),
    (.node 5 [.nil, .list [.node 5 []]], .rej),
    (.node 5 [.node 1 [], .list [.node 5 []]], .rej),
    (.node 5 [.node 5 [], .nil], .rej),
    (.node 5 [.node 5 [], .list []], .acc),
    (.node 5 [.node 5 [], .list [.node 1 []]], .rej)
  ]

def graphRow33 : GRow where
  name := "twice_ptr_emb"
  env := [⟨some 3, [⟨.ptr, 1, .required⟩, ⟨.emb, 1, .required⟩]⟩, ⟨some 3, []⟩]
  built := true
  probes := [
    (.node 5 [.node 5 [], .node 5 []], .acc),
    (.node 1 [.node 5 [], .node 5 []], .rej),
    (.node 5 [.nil, .node 5 []], .rej),
    (.node 5 [.node 1 [], .node 5 []], .rej),
    (.node 5 [.node 5 [], .node 1 []], .rej)
  ]

def graphRow34 : GRow where
  name := "twice_slice_val"
  env := [⟨some 3, [⟨.slice, 1, .maxLen 2⟩, ⟨.val, 1, .required⟩]⟩, ⟨some 3, []⟩]
  built := true
  probes := [
    (.node 5 [.list [.node 5 [], .node 5 []], .node 5 []], .acc),
    (.node 1 [.list [.node 5 [], .node 5 []], .node 5 []], .rej),
    (.node 5 [.nil, .node 5 []], .rej),
    (.node 5 [.list [], .node 5 []], .acc),
    (.node 5 [.list [.node 5 [], .node 5 [], .node 5 []], .node 5 []], .rej),
    (.node 5 [.list [.node 1 [], .node 5 []], .node 5 []], .rej),
    (.node 5 [.list [.node 5 [], .node 1 []], .node 5 []], .rej),
    (.node 5 [.list [.node 5 [], .node 5 []], .node 1 []], .rej)
  ]

def graphRow35 : GRow where
  name := "twice_slice_ptr"
  env := [⟨some 3, [⟨.slice, 1, .maxLen 2⟩, ⟨.ptr, 1, .required⟩]⟩, ⟨some 3, []⟩]
  built := true
  probes := [
    (.node 5 [.list [.node 5 [], .node 5 []], .node 5 []], .acc),
    (.node 1 [.list [.node 5 [], .node 5 []], .node 5 []], .rej),
    (.node 5 [.nil, .node 5 []], .rej),
    (.node 5 [.list [], .node 5 []], .acc),
    (.node 5 [.list [.node 5 [], .node 5 [], .node 5 []], .node 5 []], .rej),
    (.node 5 [.list [.node 1 [], .node 5 []], .node 5 []], .rej),
    (.node 5 [.list [.node 5 [], .node 1 []], .node 5 []], .rej),
    (.node 5 [.list [.node 5 [], .node 5 []], .nil], .rej),
    (.node 5 [.list [.node 5 [], .node 5 []], .node 1 []], .rej)
  ]

def graphRow36 : GRow where
  name := "twice_slice_slice"
  env := [⟨some 3, [⟨.slice, 1, .maxLen 2⟩, ⟨.slice, 1, .maxLen 2⟩]⟩, ⟨some 3, []⟩]
  built := true
  probes := [
    (.node 5 [.list [.node 5 [], .node 5 []], .list [.node 5 [], .node 5 []]], .acc),
    (.node 1 [.list [.node 5 [], .node 5 []], .list [.node 5 [], .node 5 []]], .rej),
    (.node 5 [.nil, .list [.node 5 [], .node 5 []]], .rej),
    (.node 5 [.list [], .list [.node 5 [], .node 5 []]], .acc),
    (.node 5 [.list [.node 5 [], .node 5 [], .node 5 []], .list [.node 5 [], .node 5 []]], .rej),
    (.node 5 [.list [.node 1 [], .node 5 []], .list [.node 5 [], .node 5 []]], .rej),
    (.node 5 [.list [.node 5 [], .node 1 []], .list [.node 5 [], .node 5 []]], .rej),
    (.node 5 [.list [.node 5 [], .node 5 []], .nil], .rej),
    (.node 5 [.list [.node 5 [], .node 5 []], .list []], .acc),
    (.node 5 [.list [.node 5 [], .node 5 []], .list [.node 5 [], .node 5 [], .node 5 []]], .rej),
    (.node 5 [.list [.node 5 [], .node 5 []], .list [.node 1 [], .node 5 []]], .rej),
    (.node 5 [.list [.node 5 [], .node 5 []], .list [.node 5 [], .node 1 []]], .rej)
  ]

def graphRow37 : GRow where
  name := "twice_slice_sliceptr"
  env := [⟨some 3, [⟨.slice, 1, .maxLen 2⟩, ⟨.sliceptr, 1, .maxLen 2⟩]⟩, ⟨some 3, []⟩]
  built := true
  probes := [
    (.node 5 [.list [.node 5 [], .node 5 []], .list [.node 5 [], .node 5 []]], .acc),
    (.node 1 [.list [.node 5 [], .node 5 []], .list [.node 5 [], .node 5 []]], .rej),
    (.node 5 [.nil, .list [.node 5 [], .node 5 []]], .rej),
    (.node 5 [.list [], .list [.node 5 [], .node 5 []]], .acc),
    (.node 5 [.list [.node 5 [], .node 5 [], .node 5 []], .list [.node 5 [], .node 5 []]], .rej),
    (.node 5 [.list [.node 1 [], .node 5 []], .list [.node 5 [], .node 5 []]], .rej),
    (.node 5 [.list [.node 5 [], .node 1 []], .list [.node 5 [], .node 5 []]], .rej),
    (.node 5 [.list [.node 5 [], .node 5 []], .nil], .rej),
    (.node 5 [.list [.node 5 [], .node 5 []], .list []], .acc),
    (.node 5 [.list [.node 5 [], .node 5 []], .list [.node 5 [], .node 5 [], .node 5 []]], .rej),
    (.node 5 [.list [.node 5 [], .node 5 []], .list [.node 1 [], .node 5 []]], .rej),
    (.node 5 [.list [.node 5 [], .node 5 []], .list [.node 5 [], .node 1 []]], .rej)
  ]

def graphRow38 : GRow where
  name := "twice_slice_map"
  env := [⟨some 3, [⟨.slice, 1, .maxLen 2⟩, ⟨.map, 1, .required⟩]⟩, ⟨some 3, []⟩]
  built := true
  probes := [
    (.node 5 [.list [.node 5 [], .node 5 []], .list [.node 5 []]], .acc),
    (.node 1 [.list [.node 5 [], .node 5 []], .list [.node 5 []]], .rej),
    (.node 5 [.nil, .list [.node 5 []]], .rej),
    (.node 5 [.list [], .list [.node 5 []]], .acc),
    (.node 5 [.list [.node 5 [], .node 5 [], .node 5 []], .list [.node 5 []]], .rej),
    (.node 5 [.list [.node 1 [], .node 5 []], .list [.node 5 []]], .rej),
    (.node 5 [.list [.node 5 [], .node 1 []], .list [.node 5 []]], .rej),
    (.node 5 [.list [.node 5 [], .node 5 []], .nil], .rej),
    (.node 5 [.list [.node 5 [], .node 5 []], .list []], .acc),
    (.node 5 [.list [.node 5 [], .node 5 []], .list [.node 1 []]], .rej)
  ]

def graphRow39 : GRow where
  name := "twice_slice_mapptr"
  env := [⟨some 3, [⟨.slice, 1, .maxLen 2⟩, ⟨.mapptr, 1, .required⟩]⟩, ⟨some 3, []⟩]
  built := true
  probes := [
    (.node 5 [.list [.node 5 [], .node 5 []], .list [.node 5 []]], .acc),
    (.node 1 [.list [.node 5 [], .node 5 []], .list [.node 5 []]], .rej),
    (.node 5 [.nil, .list [.node 5 []]], .rej),
    (.node 5 [.list [], .list [.node 5 []]], .acc),
    (.node 5 [.list [.node 5 [], .node 5 [], .node 5 []], .list [.node 5 []]], .rej),
    (.node 5 [.list [.node 1 [], .node 5 []], .list [.node 5 []]], .rej),
    (.node 5 [.list [.node 5 [], .node 1 []], .list [.node 5 []]], .rej),
    (.node 5 [.list [.node 5 [], .node 5 []], .nil], .rej),
    (.node 5 [.list [.node 5 [], .node 5 []], .list []], .acc),
    (.node 5 [.list [.node 5 [], .node 5 []], .list [.node 1 []]], .rej)
  ]

def graphRow40 : GRow where
  name := "twice_slice_emb"
  env := [⟨some 3, [⟨.slice, 1, .maxLen 2⟩, ⟨.emb, 1, .required⟩]⟩, ⟨some 3, []⟩]
  built := true
  probes := [
    (.node 5 [.list [.node 5 [], .node 5 []], .node 5 []], .acc),
    (.node 1 [.list [.node 5 [], .node 5 []], .node 5 []], .rej),
    (.node 5 [.nil, .node 5 []], .rej),
    (.node 5 [.list [], .node 5 []], .acc),
    (.node 5 [.list [.node 5 [], .node 5 [], .node 5 []], .node 5 []], .rej),
    (.node 5 [.list [.node 1 [], .node 5 []], .node 5 []], .rej),
    (.node 5 [.list [.node 5 [], .node 1 []], .node 5 []], .rej),
    (.node 5 [.list [.node 5 [], .node 5 []], .node 1 []], .rej)
  ]

def graphRow41 : GRow where
  name := "twice_sliceptr_val"
  env := [⟨some 3, [⟨.sliceptr, 1, .maxLen 2⟩, ⟨.val, 1, .required⟩]⟩, ⟨some 3, []⟩]
  built := true
  probes := [
    (.node 5 [.list [.node 5 [], .node 5 []], .node 5 []], .acc),
    (.node 1 [.list [.node 5 [], .node 5 []], .node 5 []], .rej),
    (.node 5 [.nil, .node 5 []], .rej),
    (.node 5 [.list [], .node 5 []], .acc),
    (.node 5 [.list [.node 5 [], .node 5 [], .node 5 []], .node 5 []], .rej),
    (.node 5 [.list [.node 1 [], .node 5 []], .node 5 []], .rej),
    (.node 5 [.list [.node 5 [], .node 1 []], .node 5 []], .rej),
    (.node 5 [.list [.node 5 [], .node 5 []], .node 1 []], .rej)
  ]

def graphRow42 : GRow where
  name := "twice_sliceptr_ptr"
  env := [⟨some 3, [⟨.sliceptr, 1, .maxLen 2⟩, ⟨.ptr, 1, .required⟩]⟩, ⟨some 3, []⟩]
  built := true
  probes := [
    (.node 5 [.list [.node 5 [], .node 5 []], .node 5 []], .acc),
    (.node 1 [.list [.node 5 [], .node 5 []], .node 5 []], .rej),
    (.node 5 [.nil, .node 5 []], .rej),
    (.node 5 [.list [], .node 5 []], .acc),
    (.node 5 [.list [.node 5 [], .node 5 [], .node 5 []], .node 5 []], .rej),
    (.node 5 [.list [.node 1 [], .node 5 []], .node 5 []], .rej),
    (.node 5 [.list [.node 5 [], .node 1 []], .node 5 []], .rej),
    (.node 5 [.list [.node 5 [], .node 5 []], .nil], .rej),
    (.node 5 [.list [.node 5 [], .node 5 []], .node 1 []], .rej)
  ]

def graphRow43 : GRow where
  name := "twice_sliceptr_slice"
  env := [⟨some 3, [⟨.sliceptr, 1, .maxLen 2⟩, ⟨.slice, 1, .maxLen 2⟩]⟩, ⟨some 3, []⟩]
  built := true
  probes := [
    (.node 5 [.list [.node 5 [], .node 5 []], .list [.node 5 [], .node 5 []]], .acc),
    (.node 1 [.list [.node 5 [], .node 5 []], .list [.node 5 [], .node 5 []]], .rej),
    (.node 5 [.nil, .list [.node 5 [], .node 5 []]], .rej),
    (.node 5 [.list [], .list [.node 5 [], .node 5 []]], .acc),
    (.node 5 [.list [.node 5 [], .node 5 [], .node 5 []], .list [.node 5 [], .node 5 []]], .rej),
    (.node 5 [.list [.node 1 [], .node 5 []], .list [.node 5 [], .node 5 []]], .rej),
    (.node 5 [.list [.node 5 [], .node 1 []], .list [.node 5 [], .node 5 []]], .rej),
    (.node 5 [.list [.node 5 [], .node 5 []], .nil], .rej),
    (.node 5 [.list [.node 5 [], .node 5 []], .list []], .acc),
    (.node 5 [.list [.node 5 [], .node 5 []], .list [.node 5 [], .node 5 [], .node 5 []]], .rej),
    (.node 5 [.list [.node 5 [], .node 5 []], .list [.node 1 [], .node 5 []]], .rej),
    (.node 5 [.list [.node 5 [], .node 5 []], .list [.node 5 [], .node 1 []]], .rej)
  ]

def graphRow44 : GRow where
  name := "twice_sliceptr_sliceptr"
  env := [⟨some 3, [⟨.sliceptr, 1, .maxLen 2⟩, ⟨.sliceptr, 1, .maxLen 2⟩]⟩, ⟨some 3, []⟩]
  built := true
  probes := [
    (.node 5 [.list [.node 5 [], .node 5 []], .list [.node 5 [], .node 5 []]], .acc),
    (.node 1 [.list [.node 5 [], .node 5 []], .list [.node 5 [], .node 5 []]], .rej),
    (.node 5 [.nil, .list [.node 5 [], .node 5 []]], .rej),
    (.node 5 [.list [], .list [.node 5 [], .node 5 []]], .acc),
    (.node 5 [.list [.node 5 [], .node 5 [], .node 5 []], .list [.node 5 [], .node 5 []]], .rej),
    (.node 5 [.list [.node 1 [], .node 5 []], .list [.node 5 [], .node 5 []]], .rej),
    (.node 5 [.list [.node 5 [], .node 1 []], .list [.node 5 [], .node 5 []]], .rej),
    (.node 5 [.list [.node 5 [], .node 5 []], .nil], .rej),
    (.node 5 [.list [.node 5 [], .node 5 []], .list []], .acc),
    (.node 5 [.list [.node 5 [], .node 5 []], .list [.node 5 [], .node 5 [], .node 5 []]], .rej),
    (.node 5 [.list [.node 5 [], .node 5 []], .list [.node 1 [], .node 5 []]], .rej),
    (.node 5 [.list [.node 5 [], .node 5 []], .list [.node 5 [], .node 1 []]], .rej)
  ]

def graphRow45 : GRow where
  name := "twice_sliceptr_map"
  env := [⟨some 3, [⟨.sliceptr, 1, .maxLen 2⟩, ⟨.map, 1, .required⟩]⟩, ⟨some 3, []⟩]
  built := true
  probes := [
    (.node 5 [.list [.node 5 [], .node 5 []], .list [.node 5 []]], .acc),
    (.node 1 [.list [.node 5 [], .node 5 []], .list [.node 5 []]], .rej),
    (.node 5 [.nil, .list [.node 5 []]], .rej),
    (.node 5 [.list [], .list [.node 5 []]], .acc),
    (.node 5 [.list [.node 5 [], .node 5 [], .node 5 []], .list [.node 5 []]], .rej),
    (.node 5 [.list [.node 1 [], .node 5 []], .list [.node 5 []]], .rej),
    (.node 5 [.list [.node 5 [], .node 1 []], .list [.node 5 []]], .rej),
    (.node 5 [.list [.node 5 [], .node 5 []], .nil], .rej),
    (.node 5 [.list [.node 5 [], .node 5 []], .list []], .acc),
    (.node 5 [.list [.node 5 [], .node 5 []], .list [.node 1 []]], .rej)
  ]

def graphRow46 : GRow where
  name := "twice_sliceptr_mapptr"
  env := [⟨some 3, [⟨.sliceptr, 1, .maxLen 2⟩, ⟨.mapptr, 1, .required⟩]⟩, ⟨some 3, []⟩]
  built := true
  probes := [
    (.node 5 [.list [.node 5 [], .node 5 []], .list [.node 5 []]], .acc),
    (.node 1 [.list [.node 5 [], .node 5 []], .list [.node 5 []]], .rej),
    (.node 5 [.nil, .list [.node 5 []]], .rej),
    (.node 5 [.list [], .list [.node 5 []]], .acc),
    (.node 5 [.list [.node 5 [], .node 5 [], .node 5 []], .list [.node 5 []]], .rej),
    (.node 5 [.list [.node 1 [], .node 5 []], .list [.node 5 []]], .rej),
    (.node 5 [.list [.node 5 [], .node 1 []], .list [.node 5 []]], .rej),
    (.node 5 [.list [.node 5 [], .node 5 []], .nil], .rej),
    (.node 5 [.list [.node 5 [], .node 5 []], .list []], .acc),
    (.node 5 [.list [.node 5 [], .node 5 []], .list [.node 1 []]], .rej)
  ]

def graphRow47 : GRow where
  name := "twice_sliceptr_emb"
  env := [⟨some 3, [⟨.sliceptr, 1, .maxLen 2⟩, ⟨.emb, 1, .required⟩]⟩, ⟨some 3, []⟩]
  built := true
  probes := [
    (.node 5 [.list [.node 5 [], .node 5 []], .node 5 []], .acc),
    (.node 1 [.list [.node 5 [], .node 5 []], .node 5 []], .rej),
    (.node 5 [.nil, .node 5 []], .rej),
    (.node 5 [.list [], .node 5 []], .acc),
    (.node 5 [.list [.node 5 [], .node 5 [], .node 5 []], .node 5 []], .rej),
    (.node 5 [.list [.node 1 [], .node 5 []], .node 5 []], .rej),
    (.node 5 [.list [.node 5 [], .node 1 []], .node 5 []], .rej),
    (.node 5 [.list [.node 5 [], .node 5 []], .node 1 []], .rej)
  ]

def graphRow48 : GRow where
  name := "twice_map_val"
  env := [⟨some 3, [⟨.map, 1, .required⟩, ⟨.val, 1, .required⟩]⟩, ⟨some 3, []⟩]
  built := true
  probes := [
    (.node 5 [.list [.node 5 []], .node 5 []], .acc),
    (.node 1 [.list [.node 5 []], .node 5 []], .rej),
    (.node 5 [.nil, .node 5 []], .rej),
    (.node 5 [.list [], .node 5 []], .acc),
    (.node 5 [.list [.node 1 []], .node 5 []], .rej),
    (.node 5 [.list [.node 5 []], .node 1 []], .rej)
  ]

def graphRow49 : GRow where
  name := "twice_map_ptr"
  env := [⟨some 3, [⟨.map, 1, .required⟩, ⟨.ptr, 1, .required⟩]⟩, ⟨some 3, []⟩]
  built := true
  probes := [
    (.node 5 [.list [.node 5 []], .node 5 []], .acc),
    (.node 1 [.list [.node 5 []], .node 5 []], .rej),
    (.node 5 [.nil, .node 5 []], .rej),
    (.node 5 [.list [], .node 5 []], .acc),
    (.node 5 [.list [.node 1 []], .node 5 []], .rej),
    (.node 5 [.list [.node 5 []], .nil], .rej),
    (.node 5 [.list [.node 5 []], .node 1 []], .rej)
  ]

def graphRow50 : GRow where
  name := "twice_map_slice"
  env := [⟨some 3, [⟨.map, 1, .required⟩, ⟨.slice, 1, .maxLen 2⟩]⟩, ⟨some 3, []⟩]
  built := true
  probes := [
    (.node 5 [.list [.node 5 []], .list [.node 5 [], .node 5 []]], .acc),
    (.node 1 [.list [.node 5 []], .list [.node 5 [], .node 5 []]], .rej),
    (.node 5 [.nil, .list [.node 5 [], .node 5 []]], .rej),
    (.node 5 [.list [], .list [.node 5 [], .node 5 []]], .acc),
    (.node 5 [.list [.node 1 []], .list [.node 5 [], .node 5 []]], .rej),
    (.node 5 [.list [.node 5 []], .nil], .rej),
    (.node 5 [.list [.node 5 []], .list []], .acc),
    (.node 5 [.list [.node 5 []], .list [.node 5 [], .node 5 [], .node 5 []]], .rej),
    (.node 5 [.list [.node 5 []], .list [.node 1 [], .node 5 []]], .rej),
    (.node 5 [.list [.node 5 []], .list [.node 5 [], .node 1 []]], .rej)
  ]

def graphRow51 : GRow where
  name := "twice_map_sliceptr"
  env := [⟨some 3, [⟨.map, 1, .required⟩, ⟨.sliceptr, 1, .maxLen 2⟩]⟩, ⟨some 3, []⟩]
  built := true
  probes := [
    (.node 5 [.list [.node 5 []], .list [.node 5 [], .node 5 []]], .acc),
    (.node 1 [.list [.node 5 []], .list [.node 5 [], .node 5 []]], .rej),
    (.node 5 [.nil, .list [.node 5 [], .node 5 []]], .rej),
    (.node 5 [.list [], .list [.node 5 [], .node 5 []]], .acc),
    (.node 5 [.list [.node 1 []], .list [.node 5 [], .node 5 []]], .rej),
    (.node 5 [.list [.node 5 []], .nil], .rej),
    (.node 5 [.list [.node 5 []], .list []], .acc),
    (.node 5 [.list [.node 5 []], .list [.node 5 [], .node 5 [], .node 5 []]], .rej),
    (.node 5 [.list [.node 5 []], .list [.node 1 [], .node 5 []]], .rej),
    (.node 5 [.list [.node 5 []], .list [.node 5 [], .node 1 []]], .rej)
  ]

def graphRow52 : GRow where
  name := "twice_map_map"
  env := [⟨some 3, [⟨.map, 1, .required⟩, ⟨.map, 1, .required⟩]⟩, ⟨some 3, []⟩]
  built := true
  probes := [
    (.node 5 [.list [.node 5 []], .list [.node 5 []]], .acc),
    (.node 1 [.list [.node 5 []], .list [.node 5 []]], .rej),
    (.node 5 [.nil, .list [.node 5 []]], .rej),
    (.node 5 [.list [], .list [.node 5 []]], .acc),
    (.node 5 [.list [.node 1 []], .list [.node 5 []]], .rej),
    (.node 5 [.list [.node 5 []], .nil], .rej),
    (.node 5 [.list [.node 5 []], .list []], .acc),
    (.node 5 [.list [.node 5 []], .list [.node 1 []]], .rej)
  ]

def graphRow53 : GRow where
  name := "twice_map_mapptr"
  env := [⟨some 3, [⟨.map, 1, .required⟩, ⟨.mapptr, 1, .required⟩]⟩, ⟨some 3, []⟩]
  built := true
  probes := [
    (.node 5 [.list [.node 5 []], .list [.node 5 []]], .acc),
    (.node 1 [.list [.node 5 []], .list [.node 5 []]], .rej),
    (.node 5 [.nil, .list [.node 5 []]], .rej),
    (.node 5 [.list [], .list [.node 5 []]], .acc),
    (.node 5 [.list [.node 1 []], .list [.node 5 []]], .rej),
    (.node 5 [.list [.node 5 []], .nil], .rej),
    (.node 5 [.list [.node 5 []], .list []], .acc),
    (.node 5 [.list [.node 5 []], .list [.node 1 []]], .rej)
  ]

def graphRow54 : GRow where
  name := "twice_map_emb"
  env := [⟨some 3, [⟨.map, 1, .required⟩, ⟨.emb, 1, .required⟩]⟩, ⟨some 3, []⟩]
  built := true
  probes := [
    (.node 5 [.list [.node 5 []], .node 5 []], .acc),
    (.node 1 [.list [.node 5 []], .node 5 []], .rej),
    (.node 5 [.nil, .node 5 []], .rej),
    (.node 5 [.list [], .node 5 []], .acc),
    (.node 5 [.list [.node 1 []], .node 5 []], .rej),
    (.node 5 [.list [.node 5 []], .node 1 []], .rej)
  ]

def graphRow55 : GRow where
  name := "twice_mapptr_val"
  env := [⟨some 3, [⟨.mapptr, 1, .required⟩, ⟨.val, 1, .required⟩]⟩, ⟨some 3, []⟩]
  built := true
  probes := [
    (.node 5 [.list [.node 5 []], .node 5 []], .acc),
    (.node 1 [.list [.node 5 []], .node 5 []], .rej),
    (.node 5 [.nil, .node 5 []], .rej),
    (.node 5 [.list [], .node 5 []], .acc),
    (.node 5 [.list [.node 1 []], .node 5 []], .rej),
    (.node 5 [.list [.node 5 []], .node 1 []], .rej)
  ]

def graphRow56 : GRow where
  name := "twice_mapptr_ptr"
  env := [⟨some 3, [⟨.mapptr, 1, .required⟩, ⟨.ptr, 1, .required⟩]⟩, ⟨some 3, []⟩]
  built := true
  probes := [
    (.node 5 [.list [.node 5 []], .node 5 []], .acc),
    (.node 1 [.list [.node 5 []], .node 5 []], .rej),
    (.node 5 [.nil, .node 5 []], .rej),
    (.node 5 [.list [], .node 5 []], .acc),
    (.node 5 [.list [.node 1 []], .node 5 []], .rej),
    (.node 5 [.list [.node 5 []], .nil], .rej),
    (.node 5 [.list [.node 5 []], .node 1 []], .rej)
  ]

def graphRow57 : GRow where
  name := "twice_mapptr_slice"
  env := [⟨some 3, [⟨.mapptr, 1, .required⟩, ⟨.slice, 1, .maxLen 2⟩]⟩, ⟨some 3, []⟩]
  built := true
  probes := [
    (.node 5 [.list [.node 5 []], .list [.node 5 [], .node 5 []]], .acc),
    (.node 1 [.list [.node 5 []], .list [.node 5 [], .node 5 []]], .rej),
    (.node 5 [.nil, .list [.node 5 [], .node 5 []]], .rej),
    (.node 5 [.list [], .list [.node 5 [], .node 5 []]], .acc),
    (.node 5 [.list [.node 1 []], .list [.node 5 [], .node 5 []]], .rej),
    (.node 5 [.list [.node 5 []], .nil], .rej),
    (.node 5 [.list [.node 5 []], .list []], .acc),
    (.node 5 [.list [.node 5 []], .list [.node 5 [], .node 5 [], .node 5 []]], .rej),
    (.node 5 [.list [.node 5 []], .list [.node 1 [], .node 5 []]], .rej),
    (.node 5 [.list [.node 5 []], .list [.node 5 [], .node 1 []]], .rej)
  ]

def graphRow58 : GRow where
  name := "twice_mapptr_sliceptr"
  env := [⟨some 3, [⟨.mapptr, 1, .required⟩, ⟨.sliceptr, 1, .maxLen 2⟩]⟩, ⟨some 3, []⟩]
  built := true
  probes := [
    (.node 5 [.list [.node 5 []], .list [.node 5 [], .node 5 []]], .acc),
    (.node 1 [.list [.node 5 []], .list [.node 5 [], .node 5 []]], .rej),
    (.node 5 [.nil, .list [.node 5 [], .node 5 []]], .rej),
    (.node 5 [.list [], .list [.node 5 [], .node 5 []]], .acc),
    (.node 5 [.list [.node 1 []], .list [.node 5 [], .node 5 []]], .rej),
    (.node 5 [.list [.node 5 []], .nil], .rej),
    (.node 5 [.list [.node 5 []], .list []], .acc),
    (.node 5 [.list [.node 5 []], .list [.node 5 [], .node 5 [], .node 5 []]], .rej),
    (.node 5 [.list [.node 5 []], .list [.node 1 [], .node 5 []]], .rej),
    (.node 5 [.list [.node 5 []], .list [.node 5 [], .node 1 []]], .rej)
  ]

def graphRow59 : GRow where
  name := "twice_mapptr_map"
  env := [⟨some 3, [⟨.mapptr, 1, .required⟩, ⟨.map, 1, .required⟩]⟩, ⟨some 3, []⟩]
  built := true
  probes := [
    (.node 5 [.list [.node 5 []], .list [.node 5 []]], .acc),
    (.node 1 [.list [.node 5 []], .list [.node 5 []]], .rej),
    (.node 5 [.nil, .list [.node 5 []]], .rej),
    (.node 5 [.list [], .list [.node 5 []]], .acc),
    (.node 5 [.list [.node 1 []], .list [.node 5 []]], .rej),
    (.node 5 [.list [.node 5 []], .nil], .rej),
    (.node 5 [.list [.node 5 []], .list []], .acc),
    (.node 5 [.list [.node 5 []], .list [.node 1 []]], .rej)
  ]

def graphRow60 : GRow where
  name := "twice_mapptr_mapptr"
  env := [⟨some 3, [⟨.mapptr, 1, .required⟩, ⟨.mapptr, 1, .required⟩]⟩, ⟨some 3, []⟩]
  built := true
  probes := [
    (.node 5 [.list [.node 5 []], .list [.node 5 []]], .acc),
    (.node 1 [.list [.node 5 []], .list [.node 5 []]], .rej),
    (.node 5 [.nil, .list [.node 5 []]], .rej),
    (.node 5 [.list [], .list [.node 5 []]], .acc),
    (.node 5 [.list [.node 1 []], .list [.node 5 []]], .rej),
    (.node 5 [.list [.node 5 []], .nil], .rej),
    (.node 5 [.list [.node 5 []], .list []], .acc),
    (.node 5 [.list [.node 5 []], .list [.node 1 []]], .rej)
  ]

def graphRow61 : GRow where
  name := "twice_mapptr_emb"
  env := [⟨some 3, [⟨.mapptr, 1, .required⟩, ⟨.emb, 1, .required⟩]⟩, ⟨some 3, []⟩]
  built := true
  probes := [
    (.node 5 [.list [.node 5 []], .node 5 []], .acc),
    (.node 1 [.list [.node 5 []], .node 5 []], .rej),
    (.node 5 [.nil, .node 5 []], .rej),
    (.node 5 [.list [], .node 5 []], .acc),
    (.node 5 [.list [.node 1 []], .node 5 []], .rej),
    (.node 5 [.list [.node 5 []], .node 1 []], .rej)
  ]

def graphRow62 : GRow where
  name := "twice_emb_val"
  env := [⟨some 3, [⟨.emb, 1, .required⟩, ⟨.val, 1, .required⟩]⟩, ⟨some 3, []⟩]
  built := true
  probes := [
    (.node 5 [.node 5 [], .node 5 []], .acc),
    (.node 1 [.node 5 [], .node 5 []], .rej),
    (.node 5 [.node 1 [], .node 5 []], .rej),
    (.node 5 [.node 5 [], .node 1 []], .rej)
  ]

def graphRow63 : GRow where
  name := "twice_emb_ptr"
  env := [⟨some 3, [⟨.emb, 1, .required⟩, ⟨.ptr, 1, .required⟩]⟩, ⟨some 3, []⟩]
  built := true
  probes := [
    (.node 5 [.node 5 [], .node 5 []], .acc),
    (.node 1 [.node 5 [], .node 5 []], .rej),
    (.node 5 [.node 1 [], .node 5 []], .rej),
    (.node 5 [.node 5 [], .nil], .rej),
    (.node 5 [.node 5 [], .node 1 []], .rej)
  ]

def graphRow64 : GRow where
  name := "twice_emb_slice"
  env := [⟨some 3, [⟨.emb, 1, .required⟩, ⟨.slice, 1, .maxLen 2⟩]⟩, ⟨some 3, []⟩]
  built := true
  probes := [
    (.node 5 [.node 5 [], .list [.node 5 [], .node 5 []]], .acc),
    (.node 1 [.node 5 [], .list [.node 5 [], .node 5 []]], .rej),
    (.node 5 [.node 1 [], .list [.node 5 [], .node 5 []]], .rej),
    (.node 5 [.node 5 [], .nil], .rej),
    (.node 5 [.node 5 [], .list []], .acc),
    (.node 5 [.node 5 [], .list [.node 5 [], .node 5 [], .node 5 []]], .rej),
    (.node 5 [.node 5 [], .list [.node 1 [], .node 5 []]], .rej),
    (.node 5 [.node 5 [], .list [.node 5 [], .node 1 []]], .rej)
  ]

def graphRow65 : GRow where
  name := "twice_emb_sliceptr"
  env := [⟨some 3, [⟨.emb, 1, .required⟩, ⟨.sliceptr, 1, .maxLen 2⟩]⟩, ⟨some 3, []⟩]
  built := true
  probes := [
    (.node 5 [.node 5 [], .list [.node 5 [], .node 5 []]], .acc),
    (.node 1 [.node 5 [], .list [.node 5 [], .node 5 []]], .rej),
    (.node 5 [.node 1 [], .list [.node 5 [], .node 5 []]], .rej),
    (.node 5 [.node 5 [], .nil], .rej),
    (.node 5 [.node 5 [], .list []], .acc),
    (.node 5 [.node 5 [], .list [.node 5 [], .node 5 [], .node 5 []]], .rej),
    (.node 5 [.node 5 [], .list [.node 1 [], .node 5 []]], .rej),
    (.node 5 [.node 5 [], .list [.node 5 [], .node 1 []]], .rej)
  ]

def graphRow66 : GRow where
  name := "twice_emb_map"
  env := [⟨some 3, [⟨.emb, 1, .required⟩, ⟨.map, 1, .required⟩]⟩, ⟨some 3, []⟩]
  built := true
  probes := [
    (.node 5 [.node 5 [], .list [.node 5 []]], .acc),
    (.node 1 [.node 5 [], .list [.node 5 []]], .rej),
    (.node 5 [.node 1 [], .list [.node 5 []]], .rej),
    (.node 5 [.node 5 [], .nil], .rej),
    (.node 5 [.node 5 [], .list []], .acc),
    (.node 5 [.node 5 [], .list [.node 1 []]], .rej)
  ]

def graphRow67 : GRow where
  name := "twice_emb_mapptr"
  env := [⟨some 3, [⟨.emb, 1, .required⟩, ⟨.mapptr, 1, .required⟩]⟩, ⟨some 3, []⟩]
  built := true
  probes := [
    (.node 5 [.node 5 [], .list [.node 5 []]], .acc),
    (.node 1 [.node 5 [], .list [.node 5 []]], .rej),
    (.node 5 [.node 1 [], .list [.node 5 []]], .rej),
    (.node 5 [.node 5 [], .nil], .rej),
    (.node 5 [.node 5 [], .list []], .acc),
    (.node 5 [.node 5 [], .list [.node 1 []]], .rej)
  ]

def graphRow68 : GRow where
  name := "thrice_val_val_val"
  env := [⟨some 3, [⟨.val, 1, .required⟩, ⟨.val, 1, .required⟩, ⟨.val, 1, .required⟩]⟩, ⟨some 3, []⟩]
  built := true
  probes := [
    (.node 5 [.node 5 [], .node 5 [], .node 5 []], .acc),
    (.node 1 [.node 5 [], .node 5 [], .node 5 []], .rej),
    (.node 5 [.node 1 [], .node 5 [], .node 5 []], .rej),
    (.node 5 [.node 5 [], .node 1 [], .node 5 []], .rej),
    (.node 5 [.node 5 [], .node 5 [], .node 1 []], .rej)
  ]

def graphRow69 : GRow where
  name := "thrice_val_ptr_slice"
  env := [⟨some 3, [⟨.val, 1, .required⟩, ⟨.ptr, 1, .required⟩, ⟨.slice, 1, .maxLen 2⟩]⟩, ⟨some 3, []⟩]
  built := true
  probes := [
    (.node 5 [.node 5 [], .node 5 [], .list [.node 5 [], .node 5 []]], .acc),
    (.node 1 [.node 5 [], .node 5 [], .list [.node 5 [], .node 5 []]], .rej),
    (.node 5 [.node 1 [], .node 5 [], .list [.node 5 [], .node 5 []]], .rej),
    (.node 5 [.node 5 [], .nil, .list [.node 5 [], .node 5 []]], .rej),
    (.node 5 [.node 5 [], .node 1 [], .list [.node 5 [], .node 5 []]], .rej),
    (.node 5 [.node 5 [], .node 5 [], .nil], .rej),
    (.node 5 [.node 5 [], .node 5 [], .list []], .acc),
    (.node 5 [.node 5 [], .node 5 [], .list [.node 5 [], .node 5 [], .node 5 []]], .rej),
    (.node 5 [.node 5 [], .node 5 [], .list [.node 1 [], .node 5 []]], .rej),
    (.node 5 [.node 5 [], .node 5 [], .list [.node 5 [], .node 1 []]], .rej)
  ]

def graphRow70 : GRow where
  name := "thrice_ptr_ptr_ptr"
  env := [⟨some 3, [⟨.ptr, 1, .required⟩, ⟨.ptr, 1, .required⟩, ⟨.ptr, 1, .required⟩]⟩, ⟨some 3, []⟩]
  built := true
  probes := [
    (.node 5 [.node 5 [], .node 5 [], .node 5 []], .acc),
    (.node 1 [.node 5 [], .node 5 [], .node 5 []], .rej),
    (.node 5 [.nil, .node 5 [], .node 5 []], .rej),
    (.node 5 [.node 1 [], .node 5 [], .node 5 []], .rej),
    (.node 5 [.node 5 [], .nil, .node 5 []], .rej),
    (.node 5 [.node 5 [], .node 1 [], .node 5 []], .rej),
    (.node 5 [.node 5 [], .node 5 [], .nil], .rej),
    (.node 5 [.node 5 [], .node 5 [], .node 1 []], .rej)
  ]

def graphRow71 : GRow where
  name := "thrice_slice_sliceptr_map"
  env := [⟨some 3, [⟨.slice, 1, .maxLen 2⟩, ⟨.sliceptr, 1, .maxLen 2⟩, ⟨.map, 1, .required⟩]⟩, ⟨some 3, []⟩]
  built := true
  probes := [
    (.node 5 [.list [.node 5 [], .node 5 []], .list [.node 5 [], .node 5 []], .list [.node 5 []]], .acc),
    (.node 1 [.list [.node 5 [], .node 5 []], .list [.node 5 [], .node 5 []], .list [.node 5 []]], .rej),
    (.node 5 [.nil, .list [.node 5 [], .node 5 []], .list [.node 5 []]], .rej),
    (.node 5 [.list [], .list [.node 5 [], .node 5 []], .list [.node 5 []]], .acc),
    (.node 5 [.list [.node 5 [], .node 5 [], .node 5 []], .list [.node 5 [], .node 5 []], .list [.node 5 []]], .rej),
    (.node 5 [.list [.node 1 [], .node 5 []], .list [.node 5 [], .node 5 []], .list [.node 5 []]], .rej),
    (.node 5 [.list [.node 5 [], .node 1 []], .list [.node 5 [], .node 5 []], .list [.node 5 []]], .rej),
    (.node 5 [.list [.node 5 [], .node 5 []], .nil, .list [.node 5 []]], .rej),
    (.node 5 [.list [.node 5 [], .node 5 []], .list [], .list [.node 5 []]], .acc),
    (.node 5 [.list [.node 5 [], .node 5 []], .list [.node 5 [], .node 5 [], .node 5 []], .list [.node 5 []]], .rej),
    (.node 5 [.list [.node 5 [], .node 5 []], .list [.node 1 [], .node 5 []], .list [.node 5 []]], .rej),
    (.node 5 [.list [.node 5 [], .node 5 []], .list [.node 5 [], .node 1 []], .list [.node 5 []]], .rej),
    (.node 5 [.list [.node 5 [], .node 5 []], .list [.node 5 [], .node 5 []], .nil], .rej),
    (.node 5 [.list [.node 5 [], .node 5 []], .list [.node 5 [], .node 5 []], .list []], .acc),
    (.node 5 [.list [.node 5 [], .node 5 []], .list [.node 5 [], .node 5 []], .list [.node 1 []]], .rej)
  ]

def graphRow72 : GRow where
  name := "thrice_emb_val_ptr"
  env := [⟨some 3, [⟨.emb, 1, .required⟩, ⟨.val, 1, .required⟩, ⟨.ptr, 1, .required⟩]⟩, ⟨some 3, []⟩]
  built := true
  probes := [
    (.node 5 [.node 5 [], .node 5 [], .node 5 []], .acc),
    (.node 1 [.node 5 [], .node 5 [], .node 5 []], .rej),
    (.node 5 [.node 1 [], .node 5 [], .node 5 []], .rej),
    (.node 5 [.node 5 [], .node 1 [], .node 5 []], .rej),
    (.node 5 [.node 5 [], .node 5 [], .nil], .rej),
    (.node 5 [.node 5 [], .node 5 [], .node 1 []], .rej)
  ]

def graphRow73 : GRow where
  name := "thrice_map_mapptr_val"
  env := [⟨some 3, [⟨.map, 1, .required⟩, ⟨.mapptr, 1, .required⟩, ⟨.val, 1, .required⟩]⟩, ⟨some 3, []⟩]
  built := true
  probes := [
    (.node 5 [.list [.node 5 []], .list [.node 5 []], .node 5 []], .acc),
    (.node 1 [.list [.node 5 []], .list [.node 5 []], .node 5 []], .rej),
    (.node 5 [.nil, .list [.node 5 []], .node 5 []], .rej),
    (.node 5 [.list [], .list [.node 5 []], .node 5 []], .acc),
    (.node 5 [.list [.node 1 []], .list [.node 5 []], .node 5 []], .rej),
    (.node 5 [.list [.node 5 []], .nil, .node 5 []], .rej),
    (.node 5 [.list [.node 5 []], .list [], .node 5 []], .acc),
    (.node 5 [.list [.node 5 []], .list [.node 1 []], .node 5 []], .rej),
    (.node 5 [.list [.node 5 []], .list [.node 5 []], .node 1 []], .rej)
  ]

def graphRow74 : GRow where
  name := "thrice_sliceptr_ptr_val"
  env := [⟨some 3, [⟨.sliceptr, 1, .maxLen 2⟩, ⟨.ptr, 1, .required⟩, ⟨.val, 1, .required⟩]⟩, ⟨some 3, []⟩]
  built := true
  probes := [
    (.node 5 [.list [.node 5 [], .node 5 []], .node 5 [], .node 5 []], .acc),
    (.node 1 [.list [.node 5 [], .node 5 []], .node 5 [], .node 5 []], .rej),
    (.node 5 [.nil, .node 5 [], .node 5 []], .rej),
    (.node 5 [.list [], .node 5 [], .node 5 []], .acc),
    (.node 5 [.list [.node 5 [], .node 5 [], .node 5 []], .node 5 [], .node 5 []], .rej),
    (.node 5 [.list [.node 1 [], .node 5 []], .node 5 [], .node 5 []], .rej),
    (.node 5 [.list [.node 5 [], .node 1 []], .node 5 [], .node 5 []], .rej),
    (.node 5 [.list [.node 5 [], .node 5 []], .nil, .node 5 []], .rej),
    (.node 5 [.list [.node 5 [], .node 5 []], .node 1 [], .node 5 []], .rej),
    (.node 5 [.list [.node 5 [], .node 5 []], .node 5 [], .node 1 []], .rej)
  ]

def graphRow75 : GRow where
  name := "diamond_val"
  env := [⟨some 3, [⟨.val, 1, .required⟩, ⟨.val, 1, .required⟩]⟩, ⟨some 3, [⟨.val, 2, .required⟩]⟩, ⟨some 3, []⟩]
  built := true
  probes := [
    (.node 5 [.node 5 [.node 5 []], .node 5 [.node 5 []]], .acc),
    (.node 1 [.node 5 [.node 5 []], .node 5 [.node 5 []]], .rej),
    (.node 5 [.node 1 [.node 5 []], .node 5 [.node 5 []]], .rej),
    (.node 5 [.node 5 [.node 1 []], .node 5 [.node 5 []]], .rej),
    (.node 5 [.node 5 [.node 5 []], .node 1 [.node 5 []]], .rej),
    (.node 5 [.node 5 [.node 5 []], .node 5 [.node 1 []]], .rej)
  ]

def graphRow76 : GRow where
  name := "diamond_ptr_slice"
  env := [⟨none, [⟨.ptr, 1, .required⟩, ⟨.slice, 1, .maxLen 2⟩]⟩, ⟨some 3, [⟨.ptr, 2, .required⟩, ⟨.slice, 2, .maxLen 2⟩]⟩, ⟨some 3, []⟩]
  built := true
  probes := [
    (.node 5 [.node 5 [.node 5 [], .list [.node 5 [], .node 5 []]], .list [.node 5 [.node 5 [], .list [.node 5 [], .node 5 []]], .node 5 [.node 5 [], .list [.node 5 [], .node 5 []]]]], .acc),
    (.node 1 [.node 5 [.node 5 [], .list [.node 5 [], .node 5 []]], .list [.node 5 [.node 5 [], .list [.node 5 [], .node 5 []]], .node 5 [.node 5 [], .list [.node 5 [], .node 5 []]]]], .acc),
    (.node 5 [.nil, .list [.node 5 [.node 5 [], .list [.node 5 [], .node 5 []]], .node 5 [.node 5 [], .list [.node 5 [], .node 5 []]]]], .rej),
    (.node 5 [.node 1 [.node 5 [], .list [.node 5 [], .node 5 []]], .list [.node 5 [.node 5 [], .list [.node 5 [], .node 5 []]], .node 5 [.node 5 [], .list [.node 5 [], .node 5 []]]]], .rej),
    (.node 5 [.node 5 [.nil, .list [.node 5 [], .node 5 []]], .list [.node 5 [.node 5 [], .list [.node 5 [], .node 5 []]], .node 5 [.node 5 [], .list [.node 5 [], .node 5 []]]]], .rej),
    (.node 5 [.node 5 [.node 1 [], .list [.node 5 [], .node 5 []]], .list [.node 5 [.node 5 [], .list [.node 5 [], .node 5 []]], .node 5 [.node 5 [], .list [.node 5 [], .node 5 []]]]], .rej),
    (.node 5 [.node 5 [.node 5 [], .nil], .list [.node 5 [.node 5 [], .list [.node 5 [], .node 5 []]], .node 5 [.node 5 [], .list [.node 5 [], .node 5 []]]]], .rej),
    (.node 5 [.node 5 [.node 5 [], .list []], .list [.node 5 [.node 5 [], .list [.node 5 [], .node 5 []]], .node 5 [.node 5 [], .list [.node 5 [], .node 5 []]]]], .acc),
    (.node 5 [.node 5 [.node 5 [], .list [.node 5 [], .node 5 [], .node 5 []]], .list [.node 5 [.node 5 [], .list [.node 5 [], .node 5 []]], .node 5 [.node 5 [], .list [.node 5 [], .node 5 []]]]], .rej),
    (.node 5 [.node 5 [.node 5 [], .list [.node 1 [], .node 5 []]], .list [.node 5 [.node 5 [], .list [.node 5 [], .node 5 []]], .node 5 [.node 5 [], .list [.node 5 [], .node 5 []]]]], .rej),
    (.node 5 [.node 5 [.node 5 [], .list [.node 5 [], .node 1 []]], .list [.node 5 [.node 5 [], .list [.node 5 [], .node 5 []]], .node 5 [.node 5 [], .list [.node 5 [], .node 5 []]]]], .rej),
    (.node 5 [.node 5 [.node 5 [], .list [.node 5 [], .node 5 []]], .nil], .rej),
    (.node 5 [.node 5 [.node 5 [], .list [.node 5 [], .node 5 []]], .list []], .acc),
    (.node 5 [.node 5 [.node 5 [], .list [.node 5 [], .node 5 []]], .list [.node 5 [.node 5 [], .list [.node 5 [], .node 5 []]], .node 5 [.node 5 [], .list [.node 5 [], .node 5 []]], .node 5 [.node 5 [], .list [.node 5 [], .node 5 []]]]], .rej),
    (.node 5 [.node 5 [.node 5 [], .list [.node 5 [], .node 5 []]], .list [.node 1 [.node 5 [], .list [.node 5 [], .node 5 []]], .node 5 [.node 5 [], .list [.node 5 [], .node 5 []]]]], .rej),
    (.node 5 [.node 5 [.node 5 [], .list [.node 5 [], .node 5 []]], .list [.node 5 [.nil, .list [.node 5 [], .node 5 []]], .node 5 [.node 5 [], .list [.node 5 [], .node 5 []]]]], .rej),
    (.node 5 [.node 5 [.node 5 [], .list [.node 5 [], .node 5 []]], .list [.node 5 [.node 1 [], .list [.node 5 [], .node 5 []]], .node 5 [.node 5 [], .list [.node 5 [], .node 5 []]]]], .rej),
    (.node 5 [.node 5 [.node 5 [], .list [.node 5 [], .node 5 []]], .list [.node 5 [.node 5 [], .nil], .node 5 [.node 5 [], .list [.node 5 [], .node 5 []]]]], .rej),
    (.node 5 [.node 5 [.node 5 [], .list [.node 5 [], .node 5 []]], .list [.node 5 [.node 5 [], .list []], .node 5 [.node 5 [], .list [.node 5 [], .node 5 []]]]], .acc),
    (.node 5 [.node 5 [.node 5 [], .list [.node 5 [], .node 5 []]], .list [.node 5 [.node 5 [], .list [.node 5 [], .node 5 [], .node 5 []]], .node 5 [.node 5 [], .list [.node 5 [], .node 5 []]]]], .rej),
    (.node 5 [.node 5 [.node 5 [], .list [.node 5 [], .node 5 []]], .list [.node 5 [.node 5 [], .list [.node 1 [], .node 5 []]], .node 5 [.node 5 [], .list [.node 5 [], .node 5 []]]]], .rej),
    (.node 5 [.node 5 [.node 5 [], .list [.node 5 [], .node 5 []]], .list [.node 5 [.node 5 [], .list [.node 5 [], .node 1 []]], .node 5 [.node 5 [], .list [.node 5 [], .node 5 []]]]], .rej),
    (.node 5 [.node 5 [.node 5 [], .list [.node 5 [], .node 5 []]], .list [.node 5 [.node 5 [], .list [.node 5 [], .node 5 []]], .node 1 [.node 5 [], .list [.node 5 [], .node 5 []]]]], .rej),
    (.node 5 [.node 5 [.node 5 [], .list [.node 5 [], .node 5 []]], .list [.node 5 [.node 5 [], .list [.node 5 [], .node 5 []]], .node 5 [.nil, .list [.node 5 [], .node 5 []]]]], .rej),
    (.node 5 [.node 5 [.node 5 [], .list [.node 5 [], .node 5 []]], .list [.node 5 [.node 5 [], .list [.node 5 [], .node 5 []]], .node 5 [.node 1 [], .list [.node 5 [], .node 5 []]]]], .rej),
    (.node 5 [.node 5 [.node 5 [], .list [.node 5 [], .node 5 []]], .list [.node 5 [.node 5 [], .list [.node 5 [], .node 5 []]], .node 5 [.node 5 [], .nil]]], .rej),
    (.node 5 [.node 5 [.node 5 [], .list [.node 5 [], .node 5 []]], .list [.node 5 [.node 5 [], .list [.node 5 [], .node 5 []]], .node 5 [.node 5 [], .list []]]], .acc),
    (.node 5 [.node 5 [.node 5 [], .list [.node 5 [], .node 5 []]], .list [.node 5 [.node 5 [], .list [.node 5 [], .node 5 []]], .node 5 [.node 5 [], .list [.node 5 [], .node 5 [], .node 5 []]]]], .rej),
    (.node 5 [.node 5 [.node 5 [], .list [.node 5 [], .node 5 []]], .list [.node 5 [.node 5 [], .list [.node 5 [], .node 5 []]], .node 5 [.node 5 [], .list [.node 1 [], .node 5 []]]]], .rej),
    (.node 5 [.node 5 [.node 5 [], .list [.node 5 [], .node 5 []]], .list [.node 5 [.node 5 [], .list [.node 5 [], .node 5 []]], .node 5 [.node 5 [], .list [.node 5 [], .node 1 []]]]], .rej)
  ]

def graphRow77 : GRow where
  name := "branches_two_mids"
  env := [⟨some 3, [⟨.val, 2, .required⟩, ⟨.val, 1, .required⟩]⟩, ⟨none, [⟨.ptr, 3, .required⟩]⟩, ⟨some 3, [⟨.val, 3, .required⟩]⟩, ⟨some 3, []⟩]
  built := true
  probes := [
    (.node 5 [.node 5 [.node 5 []], .node 5 [.node 5 []]], .acc),
    (.node 1 [.node 5 [.node 5 []], .node 5 [.node 5 []]], .rej),
    (.node 5 [.node 1 [.node 5 []], .node 5 [.node 5 []]], .rej),
    (.node 5 [.node 5 [.node 1 []], .node 5 [.node 5 []]], .rej),
    (.node 5 [.node 5 [.node 5 []], .node 1 [.node 5 []]], .acc),
    (.node 5 [.node 5 [.node 5 []], .node 5 [.nil]], .rej),
    (.node 5 [.node 5 [.node 5 []], .node 5 [.node 1 []]], .rej)
  ]

def graphRow78 : GRow where
  name := "deep_then_shallow"
  env := [⟨some 3, [⟨.val, 1, .required⟩, ⟨.val, 3, .required⟩]⟩, ⟨some 3, [⟨.val, 2, .required⟩]⟩, ⟨some 3, [⟨.val, 3, .required⟩]⟩, ⟨some 3, []⟩]
  built := true
  probes := [
    (.node 5 [.node 5 [.node 5 [.node 5 []]], .node 5 []], .acc),
    (.node 1 [.node 5 [.node 5 [.node 5 []]], .node 5 []], .rej),
    (.node 5 [.node 1 [.node 5 [.node 5 []]], .node 5 []], .rej),
    (.node 5 [.node 5 [.node 1 [.node 5 []]], .node 5 []], .rej),
    (.node 5 [.node 5 [.node 5 [.node 1 []]], .node 5 []], .rej),
    (.node 5 [.node 5 [.node 5 [.node 5 []]], .node 1 []], .rej)
  ]

def graphRow79 : GRow where
  name := "shallow_then_deep"
  env := [⟨some 3, [⟨.val, 3, .required⟩, ⟨.val, 1, .required⟩]⟩, ⟨some 3, [⟨.ptr, 2, .required⟩]⟩, ⟨some 3, [⟨.slice, 3, .maxLen 2⟩]⟩, ⟨some 3, []⟩]
  built := true
  probes := [
    (.node 5 [.node 5 [], .node 5 [.node 5 [.list [.node 5 [], .node 5 []]]]], .acc),
    (.node 1 [.node 5 [], .node 5 [.node 5 [.list [.node 5 [], .node 5 []]]]], .rej),
    (.node 5 [.node 1 [], .node 5 [.node 5 [.list [.node 5 [], .node 5 []]]]], .rej),
    (.node 5 [.node 5 [], .node 1 [.node 5 [.list [.node 5 [], .node 5 []]]]], .rej),
    (.node 5 [.node 5 [], .node 5 [.nil]], .rej),
    (.node 5 [.node 5 [], .node 5 [.node 1 [.list [.node 5 [], .node 5 []]]]], .rej),
    (.node 5 [.node 5 [], .node 5 [.node 5 [.nil]]], .rej),
    (.node 5 [.node 5 [], .node 5 [.node 5 [.list []]]], .acc),
    (.node 5 [.node 5 [], .node 5 [.node 5 [.list [.node 5 [], .node 5 [], .node 5 []]]]], .rej),
    (.node 5 [.node 5 [], .node 5 [.node 5 [.list [.node 1 [], .node 5 []]]]], .rej),
    (.node 5 [.node 5 [], .node 5 [.node 5 [.list [.node 5 [], .node 1 []]]]], .rej)
  ]

def graphRow80 : GRow where
  name := "mids_in_containers"
  env := [⟨some 3, [⟨.slice, 1, .maxLen 2⟩, ⟨.map, 1, .required⟩, ⟨.val, 1, .required⟩]⟩, ⟨some 3, [⟨.val, 2, .required⟩, ⟨.sliceptr, 2, .maxLen 2⟩]⟩, ⟨some 3, []⟩]
  built := true
  probes := [
    (.node 5 [.list [.node 5 [.node 5 [], .list [.node 5 [], .node 5 []]], .node 5 [.node 5 [], .list [.node 5 [], .node 5 []]]], .list [.node 5 [.node 5 [], .list [.node 5 [], .node 5 []]]], .node 5 [.node 5 [], .list [.node 5 [], .node 5 []]]], .acc),
    (.node 1 [.list [.node 5 [.node 5 [], .list [.node 5 [], .node 5 []]], .node 5 [.node 5 [], .list [.node 5 [], .node 5 []]]], .list [.node 5 [.node 5 [], .list [.node 5 [], .node 5 []]]], .node 5 [.node 5 [], .list [.node 5 [], .node 5 []]]], .rej),
    (.node 5 [.nil, .list [.node 5 [.node 5 [], .list [.node 5 [], .node 5 []]]], .node 5 [.node 5 [], .list [.node 5 [], .node 5 []]]], .rej),
    (.node 5 [.list [], .list [.node 5 [.node 5 [], .list [.node 5 [], .node 5 []]]], .node 5 [.node 5 [], .list [.node 5 [], .node 5 []]]], .acc),
    (.node 5 [.list [.node 5 [.node 5 [], .list [.node 5 [], .node 5 []]], .node 5 [.node 5 [], .list [.node 5 [], .node 5 []]], .node 5 [.node 5 [], .list [.node 5 [], .node 5 []]]], .list [.node 5 [.node 5 [], .list [.node 5 [], .node 5 []]]], .node 5 [.node 5 [], .list [.node 5 [], .node 5 []]]], .rej),
    (.node 5 [.list [.node 1 [.node 5 [], .list [.node 5 [], .node 5 []]], .node 5 [.node 5 [], .list [.node 5 [], .node 5 []]]], .list [.node 5 [.node 5 [], .list [.node 5 [], .node 5 []]]], .node 5 [.node 5 [], .list [.node 5 [], .node 5 []]]], .rej),
    (.node 5 [.list [.node 5 [.node 1 [], .list [.node 5 [], .node 5 []]], .node 5 [.node 5 [], .list [.node 5 [], .node 5 []]]], .list [.node 5 [.node 5 [], .list [.node 5 [], .node 5 []]]], .node 5 [.node 5 [], .list [.node 5 [], .node 5 []]]], .rej),
    (.node 5 [.list [.node 5 [.node 5 [], .nil], .node 5 [.node 5 [], .list [.node 5 [], .node 5 []]]], .list [.node 5 [.node 5 [], .list [.node 5 [], .node 5 []]]], .node 5 [.node 5 [], .list [.node 5 [], .node 5 []]]], .rej),
    (.node 5 [.list [.node 5 [.node 5 [], .list []], .node 5 [.node 5 [], .list [.node 5 [], .node 5 []]]], .list [.node 5 [.node 5 [], .list [.node 5 [], .node 5 []]]], .node 5 [.node 5 [], .list [.node 5 [], .node 5 []]]], .acc),
    (.node 5 [.list [.node 5 [.node 5 [], .list [.node 5 [], .node 5 [], .node 5 []]], .node 5 [.node 5 [], .list [.node 5 [], .node 5 []]]], .list [.node 5 [.node 5 [], .list [.node 5 [], .node 5 []]]], .node 5 [.node 5 [], .list [.node 5 [], .node 5 []]]], .rej),
    (.node 5 [.list [.node 5 [.node 5 [], .list [.node 1 [], .node 5 []]], .node 5 [.node 5 [], .list [.node 5 [], .node 5 []]]], .list [.node 5 [.node 5 [], .list [.node 5 [], .node 5 []]]], .node 5 [.node 5 [], .list [.node 5 [], .node 5 []]]], .rej),
    (.node 5 [.list [.node 5 [.node 5 [], .list [.node 5 [], .node 1 []]], .node 5 [.node 5 [], .list [.node 5 [], .node 5 []]]], .list [.node 5 [.node 5 [], .list [.node 5 [], .node 5 []]]], .node 5 [.node 5 [], .list [.node 5 [], .node 5 []]]], .rej),
    (.node 5 [.list [.node 5 [.node 5 [], .list [.node 5 [], .node 5 []]], .node 1 [.node 5 [], .list [.node 5 [], .node 5 []]]], .list [.node 5 [.node 5 [], .list [.node 5 [], .node 5 []]]], .node 5 [.node 5 [], .list [.node 5 [], .node 5 []]]], .rej),
    (.node 5 [.list [.node 5 [.node 5 [], .list [.node 5 [], .node 5 []]], .node 5 [.node 1 [], .list [.node 5 [], .node 5 []]]], .list [.node 5 [.node 5 [], .list [.node 5 [], .node 5 []]]], .node 5 [.node 5 [], .list [.node 5 [], .node 5 []]]], .rej),
    (.node 5 [.list [.node 5 [.node 5 [], .list [.node 5 [], .node 5 []]], .node 5 [.node 5 [], .nil]], .list [.node 5 [.node 5 [], .list [.node 5 [], .node 5 []]]], .node 5 [.node 5 [], .list [.node 5 [], .node 5 []]]], .rej),
    (.node 5 [.list [.node 5 [.node 5 [], .list [.node 5 [], .node 5 []]], .node 5 [.node 5 [], .list []]], .list [.node 5 [.node 5 [], .list [.node 5 [], .node 5 []]]], .node 5 [.node 5 [], .list [.node 5 [], .node 5 []]]], .acc),
    (.node 5 [.list [.node 5 [.node 5 [], .list [.node 5 [], .node 5 []]], .node 5 [.node 5 [], .list [.node 5 [], .node 5 [], .node 5 []]]], .list [.node 5 [.node 5 [], .list [.node 5 [], .node 5 []]]], .node 5 [.node 5 [], .list [.node 5 [], .node 5 []]]], .rej),
    (.node 5 [.list [.node 5 [.node 5 [], .list [.node 5 [], .node 5 []]], .node 5 [.node 5 [], .list [.node 1 [], .node 5 []]]], .list [.node 5 [.node 5 [], .list [.node 5 [], .node 5 []]]], .node 5 [.node 5 [], .list [.node 5 [], .node 5 []]]], .rej),
    (.node 5 [.list [.node 5 [.node 5 [], .list [.node 5 [], .node 5 []]], .node 5 [.node 5 [], .list [.node 5 [], .node 1 []]]], .list [.node 5 [.node 5 [], .list [.node 5 [], .node 5 []]]], .node 5 [.node 5 [], .list [.node 5 [], .node 5 []]]], .rej),
    (.node 5 [.list [.node 5 [.node 5 [], .list [.node 5 [], .node 5 []]], .node 5 [.node 5 [], .list [.node 5 [], .node 5 []]]], .nil, .node 5 [.node 5 [], .list [.node 5 [], .node 5 []]]], .rej),
    (.node 5 [.list [.node 5 [.node 5 [], .list [.node 5 [], .node 5 []]], .node 5 [.node 5 [], .list [.node 5 [], .node 5 []]]], .list [], .node 5 [.node 5 [], .list [.node 5 [], .node 5 []]]], .acc),
    (.node 5 [.list [.node 5 [.node 5 [], .list [.node 5 [], .node 5 []]], .node 5 [.node 5 [], .list [.node 5 [], .node 5 []]]], .list [.node 1 [.node 5 [], .list [.node 5 [], .node 5 []]]], .node 5 [.node 5 [], .list [.node 5 [], .node 5 []]]], .rej),
    (.node 5 [.list [.node 5 [.node 5 [], .list [.node 5 [], .node 5 []]], .node 5 [.node 5 [], .list [.node 5 [], .node 5 []]]], .list [.node 5 [.node 1 [], .list [.node 5 [], .node 5 []]]], .node 5 [.node 5 [], .list [.node 5 [], .node 5 []]]], .rej),
    (.node 5 [.list [.node 5 [.node 5 [], .list [.node 5 [], .node 5 []]], .node 5 [.node 5 [], .list [.node 5 [], .node 5 []]]], .list [.node 5 [.node 5 [], .nil]], .node 5 [.node 5 [], .list [.node 5 [], .node 5 []]]], .rej),
    (.node 5 [.list [.node 5 [.node 5 [], .list [.node 5 [], .node 5 []]], .node 5 [.node 5 [], .list [.node 5 [], .node 5 []]]], .list [.node 5 [.node 5 [], .list []]], .node 5 [.node 5 [], .list [.node 5 [], .node 5 []]]], .acc),
    (.node 5 [.list [.node 5 [.node 5 [], .list [.node 5 [], .node 5 []]], .node 5 [.node 5 [], .list [.node 5 [], .node 5 []]]], .list [.node 5 [.node 5 [], .list [.node 5 [], .node 5 [], .node 5 []]]], .node 5 [.node 5 [], .list [.node 5 [], .node 5 []]]], .rej),
    (.node 5 [.list [.node 5 [.node 5 [], .list [.node 5 [], .node 5 []]], .node 5 [.node 5 [], .list [.node 5 [], .node 5 []]]], .list [.node 5 [.node 5 [], .list [.node 1 [], .node 5 []]]], .node 5 [.node 5 [], .list [.node 5 [], .node 5 []]]], .rej),
    (.node 5 [.list [.node 5 [.node 5 [], .list [.node 5 [], .node 5 []]], .node 5 [.node 5 [], .list [.node 5 [], .node 5 []]]], .list [.node 5 [.node 5 [], .list [.node 5 [], .node 1 []]]], .node 5 [.node 5 [], .list [.node 5 [], .node 5 []]]], .rej),
    (.node 5 [.list [.node 5 [.node 5 [], .list [.node 5 [], .node 5 []]], .node 5 [.node 5 [], .list [.node 5 [], .node 5 []]]], .list [.node 5 [.node 5 [], .list [.node 5 [], .node 5 []]]], .node 1 [.node 5 [], .list [.node 5 [], .node 5 []]]], .rej),
    (.node 5 [.list [.node 5 [.node 5 [], .list [.node 5 [], .node 5 []]], .node 5 [.node 5 [], .list [.node 5 [], .node 5 []]]], .list [.node 5 [.node 5 [], .list [.node 5 [], .node 5 []]]], .node 5 [.node 1 [], .list [.node 5 [], .node 5 []]]], .rej),
    (.node 5 [.list [.node 5 [.node 5 [], .list [.node 5 [], .node 5 []]], .node 5 [.node 5 [], .list [.node 5 [], .node 5 []]]], .list [.node 5 [.node 5 [], .list [.node 5 [], .node 5 []]]], .node 5 [.node 5 [], .nil]], .rej),
    (.node 5 [.list [.node 5 [.node 5 [], .list [.node 5 [], .node 5 []]], .node 5 [.node 5 [], .list [.node 5 [], .node 5 []]]], .list [.node 5 [.node 5 [], .list [.node 5 [], .node 5 []]]], .node 5 [.node 5 [], .list []]], .acc),
    (.node 5 [.list [.node 5 [.node 5 [], .list [.node 5 [], .node 5 []]], .node 5 [.node 5 [], .list [.node 5 [], .node 5 []]]], .list [.node 5 [.node 5 [], .list [.node 5 [], .node 5 []]]], .node 5 [.node 5 [], .list [.node 5 [], .node 5 [], .node 5 []]]], .rej),
    (.node 5 [.list [.node 5 [.node 5 [], .list [.node 5 [], .node 5 []]], .node 5 [.node 5 [], .list [.node 5 [], .node 5 []]]], .list [.node 5 [.node 5 [], .list [.node 5 [], .node 5 []]]], .node 5 [.node 5 [], .list [.node 1 [], .node 5 []]]], .rej),
    (.node 5 [.list [.node 5 [.node 5 [], .list [.node 5 [], .node 5 []]], .node 5 [.node 5 [], .list [.node 5 [], .node 5 []]]], .list [.node 5 [.node 5 [], .list [.node 5 [], .node 5 []]]], .node 5 [.node 5 [], .list [.node 5 [], .node 1 []]]], .rej)
  ]

def graphRow81 : GRow where
  name := "untagged_branch"
  env := [⟨some 3, [⟨.val, 1, .none⟩, ⟨.val, 1, .required⟩]⟩, ⟨some 3, [⟨.val, 2, .required⟩]⟩, ⟨some 3, []⟩]
  built := true
  probes := [
    (.node 5 [.node 5 [.node 5 []], .node 5 [.node 5 []]], .acc),
    (.node 1 [.node 5 [.node 5 []], .node 5 [.node 5 []]], .rej),
    (.node 5 [.node 1 [.node 5 []], .node 5 [.node 5 []]], .acc),
    (.node 5 [.node 5 [.node 1 []], .node 5 [.node 5 []]], .acc),
    (.node 5 [.node 5 [.node 5 []], .node 1 [.node 5 []]], .rej),
    (.node 5 [.node 5 [.node 5 []], .node 5 [.node 1 []]], .rej)
  ]

def graphRow82 : GRow where
  name := "rec_ptr_required"
  env := [⟨some 3, [⟨.ptr, 0, .required⟩]⟩]
  built := true
  probes := [
    (.node 5 [.node 5 [.nil]], .acc),
    (.node 1 [.node 5 [.nil]], .rej),
    (.node 5 [.nil], .rej),
    (.node 5 [.node 1 [.nil]], .acc)
  ]

def graphRow83 : GRow where
  name := "rec_ptr_untagged"
  env := [⟨some 3, [⟨.ptr, 0, .none⟩]⟩]
  built := true
  probes := [
    (.node 5 [.node 5 [.nil]], .acc),
    (.node 1 [.node 5 [.nil]], .rej),
    (.node 5 [.nil], .acc),
    (.node 5 [.node 1 [.nil]], .acc)
  ]

def graphRow84 : GRow where
  name := "rec_sliceptr"
  env := [⟨some 3, [⟨.sliceptr, 0, .maxLen 2⟩]⟩]
  built := true
  probes := [
    (.node 5 [.list [.node 5 [.list []], .node 5 [.list []]]], .acc),
    (.node 1 [.list [.node 5 [.list []], .node 5 [.list []]]], .rej),
    (.node 5 [.nil], .rej),
    (.node 5 [.list []], .acc),
    (.node 5 [.list [.node 5 [.list []], .node 5 [.list []], .node 5 [.list []]]], .rej),
    (.node 5 [.list [.node 1 [.list []], .node 5 [.list []]]], .acc),
    (.node 5 [.list [.node 5 [.nil], .node 5 [.list []]]], .acc),
    (.node 5 [.list [.node 5 [.list []], .node 1 [.list []]]], .acc),
    (.node 5 [.list [.node 5 [.list []], .node 5 [.nil]]], .acc)
  ]

def graphRow85 : GRow where
  name := "rec_slice"
  env := [⟨some 3, [⟨.slice, 0, .maxLen 2⟩]⟩]
  built := true
  probes := [
    (.node 5 [.list [.node 5 [.list []], .node 5 [.list []]]], .acc),
    (.node 1 [.list [.node 5 [.list []], .node 5 [.list []]]], .rej),
    (.node 5 [.nil], .rej),
    (.node 5 [.list []], .acc),
    (.node 5 [.list [.node 5 [.list []], .node 5 [.list []], .node 5 [.list []]]], .rej),
    (.node 5 [.list [.node 1 [.list []], .node 5 [.list []]]], .acc),
    (.node 5 [.list [.node 5 [.nil], .node 5 [.list []]]], .acc),
    (.node 5 [.list [.node 5 [.list []], .node 1 [.list []]]], .acc),
    (.node 5 [.list [.node 5 [.list []], .node 5 [.nil]]], .acc)
  ]

def graphRow86 : GRow where
  name := "rec_slice_required"
  env := [⟨some 3, [⟨.slice, 0, .required⟩]⟩]
  built := true
  probes := [
    (.node 5 [.list [.node 5 [.list []], .node 5 [.list []]]], .acc),
    (.node 1 [.list [.node 5 [.list []], .node 5 [.list []]]], .rej),
    (.node 5 [.nil], .rej),
    (.node 5 [.list []], .acc),
    (.node 5 [.list [.node 5 [.list []], .node 5 [.list []], .node 5 [.list []]]], .acc),
    (.node 5 [.list [.node 1 [.list []], .node 5 [.list []]]], .acc),
    (.node 5 [.list [.node 5 [.nil], .node 5 [.list []]]], .acc),
    (.node 5 [.list [.node 5 [.list []], .node 1 [.list []]]], .acc),
    (.node 5 [.list [.node 5 [.list []], .node 5 [.nil]]], .acc)
  ]

def graphRow87 : GRow where
  name := "rec_with_siblings"
  env := [⟨some 3, [⟨.sliceptr, 0, .maxLen 2⟩, ⟨.val, 1, .required⟩, ⟨.ptr, 1, .required⟩]⟩, ⟨some 3, []⟩]
  built := true
  probes := [
    (.node 5 [.list [.node 5 [.list [], .node 5 [], .node 5 []], .node 5 [.list [], .node 5 [], .node 5 []]], .node 5 [], .node 5 []], .acc),
    (.node 1 [.list [.node 5 [.list [], .node 5 [], .node 5 []], .node 5 [.list [], .node 5 [], .node 5 []]], .node 5 [], .node 5 []], .rej),
    (.node 5 [.nil, .node 5 [], .node 5 []], .rej),
    (.node 5 [.list [], .node 5 [], .node 5 []], .acc),
    (.node 5 [.list [.node 5 [.list [], .node 5 [], .node 5 []], .node 5 [.list [], .node 5 [], .node 5 []], .node 5 [.list [], .node 5 [], .node 5 []]], .node 5 [], .node 5 []], .rej),
    (.node 5 [.list [.node 1 [.list [], .node 5 [], .node 5 []], .node 5 [.list [], .node 5 [], .node 5 []]], .node 5 [], .node 5 []], .acc),
    (.node 5 [.list [.node 5 [.nil, .node 5 [], .node 5 []], .node 5 [.list [], .node 5 [], .node 5 []]], .node 5 [], .node 5 []], .acc),
    (.node 5 [.list [.node 5 [.list [], .node 1 [], .node 5 []], .node 5 [.list [], .node 5 [], .node 5 []]], .node 5 [], .node 5 []], .acc),
    (.node 5 [.list [.node 5 [.list [], .node 5 [], .nil], .node 5 [.list [], .node 5 [], .node 5 []]], .node 5 [], .node 5 []], .acc),
    (.node 5 [.list [.node 5 [.list [], .node 5 [], .node 1 []], .node 5 [.list [], .node 5 [], .node 5 []]], .node 5 [], .node 5 []], .acc),
    (.node 5 [.list [.node 5 [.list [], .node 5 [], .node 5 []], .node 1 [.list [], .node 5 [], .node 5 []]], .node 5 [], .node 5 []], .acc),
    (.node 5 [.list [.node 5 [.list [], .node 5 [], .node 5 []], .node 5 [.nil, .node 5 [], .node 5 []]], .node 5 [], .node 5 []], .acc),
    (.node 5 [.list [.node 5 [.list [], .node 5 [], .node 5 []], .node 5 [.list [], .node 1 [], .node 5 []]], .node 5 [], .node 5 []], .acc),
    (.node 5 [.list [.node 5 [.list [], .node 5 [], .node 5 []], .node 5 [.list [], .node 5 [], .nil]], .node 5 [], .node 5 []], .acc),
    (.node 5 [.list [.node 5 [.list [], .node 5 [], .node 5 []], .node 5 [.list [], .node 5 [], .node 1 []]], .node 5 [], .node 5 []], .acc),
    (.node 5 [.list [.node 5 [.list [], .node 5 [], .node 5 []], .node 5 [.list [], .node 5 [], .node 5 []]], .node 1 [], .node 5 []], .rej),
    (.node 5 [.list [.node 5 [.list [], .node 5 [], .node 5 []], .node 5 [.list [], .node 5 [], .node 5 []]], .node 5 [], .nil], .rej),
    (.node 5 [.list [.node 5 [.list [], .node 5 [], .node 5 []], .node 5 [.list [], .node 5 [], .node 5 []]], .node 5 [], .node 1 []], .rej)
  ]

def graphRow88 : GRow where
  name := "rec_mutual_slice"
  env := [⟨some 3, [⟨.slice, 1, .maxLen 2⟩]⟩, ⟨some 3, [⟨.slice, 0, .maxLen 2⟩]⟩]
  built := true
  probes := [
    (.node 5 [.list [.node 5 [.list [.node 5 [.list [.node 5 [.list []], .node 5 [.list []]]], .node 5 [.list [.node 5 [.list []], .node 5 [.list []]]]]], .node 5 [.list [.node 5 [.list [.node 5 [.list []], .node 5 [.list []]]], .node 5 [.list [.node 5 [.list []], .node 5 [.list []]]]]]]], .acc),
    (.node 1 [.list [.node 5 [.list [.node 5 [.list [.node 5 [.list []], .node 5 [.list []]]], .node 5 [.list [.node 5 [.list []], .node 5 [.list []]]]]], .node 5 [.list [.node 5 [.list [.node 5 [.list []], .node 5 [.list []]]], .node 5 [.list [.node 5 [.list []], .node 5 [.list []]]]]]]], .rej),
    (.node 5 [.nil], .rej),
    (.node 5 [.list []], .acc),
    (.node 5 [.list [.node 5 [.list [.node 5 [.list [.node 5 [.list []], .node 5 [.list []]]], .node 5 [.list [.node 5 [.list []], .node 5 [.list []]]]]], .node 5 [.list [.node 5 [.list [.node 5 [.list []], .node 5 [.list []]]], .node 5 [.list [.node 5 [.list []], .node 5 [.list []]]]]], .node 5 [.list [.node 5 [.list [.node 5 [.list []], .node 5 [.list []]]], .node 5 [.list [.node 5 [.list []], .node 5 [.list []]]]]]]], .rej),
    (.node 5 [.list [.node 1 [.list [.node 5 [.list [.node 5 [.list []], .node 5 [.list []]]], .node 5 [.list [.node 5 [.list []], .node 5 [.list []]]]]], .node 5 [.list [.node 5 [.list [.node 5 [.list []], .node 5 [.list []]]], .node 5 [.list [.node 5 [.list []], .node 5 [.list []]]]]]]], .rej),
    (.node 5 [.list [.node 5 [.nil], .node 5 [.list [.node 5 [.list [.node 5 [.list []], .node 5 [.list []]]], .node 5 [.list [.node 5 [.list []], .node 5 [.list []]]]]]]], .rej),
    (.node 5 [.list [.node 5 [.list []], .node 5 [.list [.node 5 [.list [.node 5 [.list []], .node 5 [.list []]]], .node 5 [.list [.node 5 [.list []], .node 5 [.list []]]]]]]], .acc),
    (.node 5 [.list [.node 5 [.list [.node 5 [.list [.node 5 [.list []], .node 5 [.list []]]], .node 5 [.list [.node 5 [.list []], .node 5 [.list []]]], .node 5 [.list [.node 5 [.list []], .node 5 [.list []]]]]], .node 5 [.list [.node 5 [.list [.node 5 [.list []], .node 5 [.list []]]], .node 5 [.list [.node 5 [.list []], .node 5 [.list []]]]]]]], .rej),
    (.node 5 [.list [.node 5 [.list [.node 1 [.list [.node 5 [.list []], .node 5 [.list []]]], .node 5 [.list [.node 5 [.list []], .node 5 [.list []]]]]], .node 5 [.list [.node 5 [.list [.node 5 [.list []], .node 5 [.list []]]], .node 5 [.list [.node 5 [.list []], .node 5 [.list []]]]]]]], .acc),
    (.node 5 [.list [.node 5 [.list [.node 5 [.nil], .node 5 [.list [.node 5 [.list []], .node 5 [.list []]]]]], .node 5 [.list [.node 5 [.list [.node 5 [.list []], .node 5 [.list []]]], .node 5 [.list [.node 5 [.list []], .node 5 [.list []]]]]]]], .acc),
    (.node 5 [.list [.node 5 [.list [.node 5 [.list []], .node 5 [.list [.node 5 [.list []], .node 5 [.list []]]]]], .node 5 [.list [.node 5 [.list [.node 5 [.list []], .node 5 [.list []]]], .node 5 [.list [.node 5 [.list []], .node 5 [.list []]]]]]]], .acc),
    (.node 5 [.list [.node 5 [.list [.node 5 [.list [.node 5 [.list []], .node 5 [.list []], .node 5 [.list []]]], .node 5 [.list [.node 5 [.list []], .node 5 [.list []]]]]], .node 5 [.list [.node 5 [.list [.node 5 [.list []], .node 5 [.list []]]], .node 5 [.list [.node 5 [.list []], .node 5 [.list []]]]]]]], .acc),
    (.node 5 [.list [.node 5 [.list [.node 5 [.list [.node 1 [.list []], .node 5 [.list []]]], .node 5 [.list [.node 5 [.list []], .node 5 [.list []]]]]], .node 5 [.list [.node 5 [.list [.node 5 [.list []], .node 5 [.list []]]], .node 5 [.list [.node 5 [.list []], .node 5 [.list []]]]]]]], .acc),
    (.node 5 [.list [.node 5 [.list [.node 5 [.list [.node 5 [.nil], .node 5 [.list []]]], .node 5 [.list [.node 5 [.list []], .node 5 [.list []]]]]], .node 5 [.list [.node 5 [.list [.node 5 [.list []], .node 5 [.list []]]], .node 5 [.list [.node 5 [.list []], .node 5 [.list []]]]]]]], .acc),
    (.node 5 [.list [.node 5 [.list [.node 5 [.list [.node 5 [.list []], .node 1 [.list []]]], .node 5 [.list [.node 5 [.list []], .node 5 [.list []]]]]], .node 5 [.list [.node 5 [.list [.node 5 [.list []], .node 5 [.list []]]], .node 5 [.list [.node 5 [.list []], .node 5 [.list []]]]]]]], .acc),
    (.node 5 [.list [.node 5 [.list [.node 5 [.list [.node 5 [.list []], .node 5 [.nil]]], .node 5 [.list [.node 5 [.list []], .node 5 [.list []]]]]], .node 5 [.list [.node 5 [.list [.node 5 [.list []], .node 5 [.list []]]], .node 5 [.list [.node 5 [.list []], .node 5 [.list []]]]]]]], .acc),
    (.node 5 [.list [.node 5 [.list [.node 5 [.list [.node 5 [.list []], .node 5 [.list []]]], .node 1 [.list [.node 5 [.list []], .node 5 [.list []]]]]], .node 5 [.list [.node 5 [.list [.node 5 [.list []], .node 5 [.list []]]], .node 5 [.list [.node 5 [.list []], .node 5 [.list []]]]]]]], .acc),
    (.node 5 [.list [.node 5 [.list [.node 5 [.list [.node 5 [.list []], .node 5 [.list []]]], .node 5 [.nil]]], .node 5 [.list [.node 5 [.list [.node 5 [.list []], .node 5 [.list []]]], .node 5 [.list [.node 5 [.list []], .node 5 [.list []]]]]]]], .acc),
    (.node 5 [.list [.node 5 [.list [.node 5 [.list [.node 5 [.list []], .node 5 [.list []]]], .node 5 [.list []]]], .node 5 [.list [.node 5 [.list [.node 5 [.list []], .node 5 [.list []]]], .node 5 [.list [.node 5 [.list []], .node 5 [.list []]]]]]]], .acc),
    (.node 5 [.list [.node 5 [.list [.node 5 [.list [.node 5 [.list []], .node 5 [.list []]]], .node 5 [.list [.node 5 [.list []], .node 5 [.list []], .node 5 [.list []]]]]], .node 5 [.list [.node 5 [.list [.node 5 [.list []], .node 5 [.list []]]], .node 5 [.list [.node 5 [.list []], .node 5 [.list []]]]]]]], .acc),
    (.node 5 [.list [.node 5 [.list [.node 5 [.list [.node 5 [.list []], .node 5 [.list []]]], .node 5 [.list [.node 1 [.list []], .node 5 [.list []]]]]], .node 5 [.list [.node 5 [.list [.node 5 [.list []], .node 5 [.list []]]], .node 5 [.list [.node 5 [.list []], .node 5 [.list []]]]]]]], .acc),
    (.node 5 [.list [.node 5 [.list [.node 5 [.list [.node 5 [.list []], .node 5 [.list []]]], .node 5 [.list [.node 5 [.nil], .node 5 [.list []]]]]], .node 5 [.list [.node 5 [.list [.node 5 [.list []], .node 5 [.list []]]], .node 5 [.list [.node 5 [.list []], .node 5 [.list []]]]]]]], .acc),
    (.node 5 [.list [.node 5 [.list [.node 5 [.list [.node 5 [.list []], .node 5 [.list []]]], .node 5 [.list [.node 5 [.list []], .node 1 [.list []]]]]], .node 5 [.list [.node 5 [.list [.node 5 [.list []], .node 5 [.list []]]], .node 5 [.list [.node 5 [.list []], .node 5 [.list []]]]]]]], .acc),
    (.node 5 [.list [.node 5 [.list [.node 5 [.list [.node 5 [.list []], .node 5 [.list []]]], .node 5 [.list [.node 5 [.list []], .node 5 [.nil]]]]], .node 5 [.list [.node 5 [.list [.node 5 [.list []], .node 5 [.list []]]], .node 5 [.list [.node 5 [.list []], .node 5 [.list []]]]]]]], .acc),
    (.node 5 [.list [.node 5 [.list [.node 5 [.list [.node 5 [.list []], .node 5 [.list []]]], .node 5 [.list [.node 5 [.list []], .node 5 [.list []]]]]], .node 1 [.list [.node 5 [.list [.node 5 [.list []], .node 5 [.list []]]], .node 5 [.list [.node 5 [.list []], .node 5 [.list []]]]]]]], .rej),
    (.node 5 [.list [.node 5 [.list [.node 5 [.list [.node 5 [.list []], .node 5 [.list []]]], .node 5 [.list [.node 5 [.list []], .node 5 [.list []]]]]], .node 5 [.nil]]], .rej),
    (.node 5 [.list [.node 5 [.list [.node 5 [.list [.node 5 [.list []], .node 5 [.list []]]], .node 5 [.list [.node 5 [.list []], .node 5 [.list []]]]]], .node 5 [.list []]]], .acc),
    (.node 5 [.list [.node 5 [.list [.node 5 [.list [.node 5 [.list []], .node 5 [.list []]]], .node 5 [.list [.node 5 [.list []], .node 5 [.list []]]]]], .node 5 [.list [.node 5 [.list [.node 5 [.list []], .node 5 [.list []]]], .node 5 [.list [.node 5 [.list []], .node 5 [.list []]]], .node 5 [.list [.node 5 [.list []], .node 5 [.list []]]]]]]], .rej),
    (.node 5 [.list [.node 5 [.list [.node 5 [.list [.node 5 [.list []], .node 5 [.list []]]], .node 5 [.list [.node 5 [.list []], .node 5 [.list []]]]]], .node 5 [.list [.node 1 [.list [.node 5 [.list []], .node 5 [.list []]]], .node 5 [.list [.node 5 [.list []], .node 5 [.list []]]]]]]], .acc),
    (.node 5 [.list [.node 5 [.list [.node 5 [.list [.node 5 [.list []], .node 5 [.list []]]], .node 5 [.list [.node 5 [.list []], .node 5 [.list []]]]]], .node 5 [.list [.node 5 [.nil], .node 5 [.list [.node 5 [.list []], .node 5 [.list []]]]]]]], .acc),
    (.node 5 [.list [.node 5 [.list [.node 5 [.list [.node 5 [.list []], .node 5 [.list []]]], .node 5 [.list [.node 5 [.list []], .node 5 [.list []]]]]], .node 5 [.list [.node 5 [.list []], .node 5 [.list [.node 5 [.list []], .node 5 [.list []]]]]]]], .acc),
    (.node 5 [.list [.node 5 [.list [.node 5 [.list [.node 5 [.list []], .node 5 [.list []]]], .node 5 [.list [.node 5 [.list []], .node 5 [.list []]]]]], .node 5 [.list [.node 5 [.list [.node 5 [.list []], .node 5 [.list []], .node 5 [.list []]]], .node 5 [.list [.node 5 [.list []], .node 5 [.list []]]]]]]], .acc),
    (.node 5 [.list [.node 5 [.list [.node 5 [.list [.node 5 [.list []], .node 5 [.list []]]], .node 5 [.list [.node 5 [.list []], .node 5 [.list []]]]]], .node 5 [.list [.node 5 [.list [.node 1 [.list []], .node 5 [.list []]]], .node 5 [.list [.node 5 [.list []], .node 5 [.list []]]]]]]], .acc),
    (.node 5 [.list [.node 5 [.list [.node 5 [.list [.node 5 [.list []], .node 5 [.list []]]], .node 5 [.list [.node 5 [.list []], .node 5 [.list []]]]]], .node 5 [.list [.node 5 [.list [.node 5 [.nil], .node 5 [.list []]]], .node 5 [.list [.node 5 [.list []], .node 5 [.list []]]]]]]], .acc),
    (.node 5 [.list [.node 5 [.list [.node 5 [.list [.node 5 [.list []], .node 5 [.list []]]], .node 5 [.list [.node 5 [.list []], .node 5 [.list []]]]]], .node 5 [.list [.node 5 [.list [.node 5 [.list []], .node 1 [.list []]]], .node 5 [.list [.node 5 [.list []], .node 5 [.list []]]]]]]], .acc),
    (.node 5 [.list [.node 5 [.list [.node 5 [.list [.node 5 [.list []], .node 5 [.list []]]], .node 5 [.list [.node 5 [.list []], .node 5 [.list []]]]]], .node 5 [.list [.node 5 [.list [.node 5 [.list []], .node 5 [.nil]]], .node 5 [.list [.node 5 [.list []], .node 5 [.list []]]]]]]], .acc),
    (.node 5 [.list [.node 5 [.list [.node 5 [.list [.node 5 [.list []], .node 5 [.list []]]], .node 5 [.list [.node 5 [.list []], .node 5 [.list []]]]]], .node 5 [.list [.node 5 [.list [.node 5 [.list []], .node 5 [.list []]]], .node 1 [.list [.node 5 [.list []], .node 5 [.list []]]]]]]], .acc),
    (.node 5 [.list [.node 5 [.list [.node 5 [.list [.node 5 [.list []], .node 5 [.list []]]], .node 5 [.list [.node 5 [.list []], .node 5 [.list []]]]]], .node 5 [.list [.node 5 [.list [.node 5 [.list []], .node 5 [.list []]]], .node 5 [.nil]]]]], .acc),
    (.node 5 [.list [.node 5 [.list [.node 5 [.list [.node 5 [.list []], .node 5 [.list []]]], .node 5 [.list [.node 5 [.list []], .node 5 [.list []]]]]], .node 5 [.list [.node 5 [.list [.node 5 [.list []], .node 5 [.list []]]], .node 5 [.list []]]]]], .acc),
    (.node 5 [.list [.node 5 [.list [.node 5 [.list [.node 5 [.list []], .node 5 [.list []]]], .node 5 [.list [.node 5 [.list []], .node 5 [.list []]]]]], .node 5 [.list [.node 5 [.list [.node 5 [.list []], .node 5 [.list []]]], .node 5 [.list [.node 5 [.list []], .node 5 [.list []], .node 5 [.list []]]]]]]], .acc),
    (.node 5 [.list [.node 5 [.list [.node 5 [.list [.node 5 [.list []], .node 5 [.list []]]], .node 5 [.list [.node 5 [.list []], .node 5 [.list []]]]]], .node 5 [.list [.node 5 [.list [.node 5 [.list []], .node 5 [.list []]]], .node 5 [.list [.node 1 [.list []], .node 5 [.list []]]]]]]], .acc),
    (.node 5 [.list [.node 5 [.list [.node 5 [.list [.node 5 [.list []], .node 5 [.list []]]], .node 5 [.list [.node 5 [.list []], .node 5 [.list []]]]]], .node 5 [.list [.node 5 [.list [.node 5 [.list []], .node 5 [.list []]]], .node 5 [.list [.node 5 [.nil], .node 5 [.list []]]]]]]], .acc),
    (.node 5 [.list [.node 5 [.list [.node 5 [.list [.node 5 [.list []], .node 5 [.list []]]], .node 5 [.list [.node 5 [.list []], .node 5 [.list []]]]]], .node 5 [.list [.node 5 [.list [.node 5 [.list []], .node 5 [.list []]]], .node 5 [.list [.node 5 [.list []], .node 1 [.list []]]]]]]], .acc),
    (.node 5 [.list [.node 5 [.list [.node 5 [.list [.node 5 [.list []], .node 5 [.list []]]], .node 5 [.list [.node 5 [.list []], .node 5 [.list []]]]]], .node 5 [.list [.node 5 [.list [.node 5 [.list []], .node 5 [.list []]]], .node 5 [.list [.node 5 [.list []], .node 5 [.nil]]]]]]], .acc)
  ]

def graphRow89 : GRow where
  name := "rec_mutual_ptr"
  env := [⟨some 3, [⟨.ptr, 1, .required⟩]⟩, ⟨some 3, [⟨.ptr, 0, .required⟩, ⟨.slice, 1, .maxLen 2⟩]⟩]
  built := true
  probes := [
    (.node 5 [.node 5 [.node 5 [.node 5 [.nil, .list []]], .list [.node 5 [.node 5 [.nil], .list []], .node 5 [.node 5 [.nil], .list []]]]], .acc),
    (.node 1 [.node 5 [.node 5 [.node 5 [.nil, .list []]], .list [.node 5 [.node 5 [.nil], .list []], .node 5 [.node 5 [.nil], .list []]]]], .rej),
    (.node 5 [.nil], .rej),
    (.node 5 [.node 1 [.node 5 [.node 5 [.nil, .list []]], .list [.node 5 [.node 5 [.nil], .list []], .node 5 [.node 5 [.nil], .list []]]]], .rej),
    (.node 5 [.node 5 [.nil, .list [.node 5 [.node 5 [.nil], .list []], .node 5 [.node 5 [.nil], .list []]]]], .rej),
    (.node 5 [.node 5 [.node 1 [.node 5 [.nil, .list []]], .list [.node 5 [.node 5 [.nil], .list []], .node 5 [.node 5 [.nil], .list []]]]], .acc),
    (.node 5 [.node 5 [.node 5 [.nil], .list [.node 5 [.node 5 [.nil], .list []], .node 5 [.node 5 [.nil], .list []]]]], .acc),
    (.node 5 [.node 5 [.node 5 [.node 1 [.nil, .list []]], .list [.node 5 [.node 5 [.nil], .list []], .node 5 [.node 5 [.nil], .list []]]]], .acc),
    (.node 5 [.node 5 [.node 5 [.node 5 [.nil, .nil]], .list [.node 5 [.node 5 [.nil], .list []], .node 5 [.node 5 [.nil], .list []]]]], .acc),
    (.node 5 [.node 5 [.node 5 [.node 5 [.nil, .list []]], .nil]], .rej),
    (.node 5 [.node 5 [.node 5 [.node 5 [.nil, .list []]], .list []]], .acc),
    (.node 5 [.node 5 [.node 5 [.node 5 [.nil, .list []]], .list [.node 5 [.node 5 [.nil], .list []], .node 5 [.node 5 [.nil], .list []], .node 5 [.node 5 [.nil], .list []]]]], .rej),
    (.node 5 [.node 5 [.node 5 [.node 5 [.nil, .list []]], .list [.node 1 [.node 5 [.nil], .list []], .node 5 [.node 5 [.nil], .list []]]]], .acc),
    (.node 5 [.node 5 [.node 5 [.node 5 [.nil, .list []]], .list [.node 5 [.nil, .list []], .node 5 [.node 5 [.nil], .list []]]]], .acc),
    (.node 5 [.node 5 [.node 5 [.node 5 [.nil, .list []]], .list [.node 5 [.node 1 [.nil], .list []], .node 5 [.node 5 [.nil], .list []]]]], .acc),
    (.node 5 [.node 5 [.node 5 [.node 5 [.nil, .list []]], .list [.node 5 [.node 5 [.nil], .nil], .node 5 [.node 5 [.nil], .list []]]]], .acc),
    (.node 5 [.node 5 [.node 5 [.node 5 [.nil, .list []]], .list [.node 5 [.node 5 [.nil], .list []], .node 1 [.node 5 [.nil], .list []]]]], .acc),
    (.node 5 [.node 5 [.node 5 [.node 5 [.nil, .list []]], .list [.node 5 [.node 5 [.nil], .list []], .node 5 [.nil, .list []]]]], .acc),
    (.node 5 [.node 5 [.node 5 [.node 5 [.nil, .list []]], .list [.node 5 [.node 5 [.nil], .list []], .node 5 [.node 1 [.nil], .list []]]]], .acc),
    (.node 5 [.node 5 [.node 5 [.node 5 [.nil, .list []]], .list [.node 5 [.node 5 [.nil], .list []], .node 5 [.node 5 [.nil], .nil]]]], .acc)
  ]

def graphRow90 : GRow where
  name := "rec_below_root"
  env := [⟨some 3, [⟨.val, 1, .required⟩, ⟨.val, 1, .required⟩]⟩, ⟨some 3, [⟨.slice, 1, .maxLen 2⟩]⟩]
  built := true
  probes := [
    (.node 5 [.node 5 [.list [.node 5 [.list []], .node 5 [.list []]]], .node 5 [.list [.node 5 [.list []], .node 5 [.list []]]]], .acc),
    (.node 1 [.node 5 [.list [.node 5 [.list []], .node 5 [.list []]]], .node 5 [.list [.node 5 [.list []], .node 5 [.list []]]]], .rej),
    (.node 5 [.node 1 [.list [.node 5 [.list []], .node 5 [.list []]]], .node 5 [.list [.node 5 [.list []], .node 5 [.list []]]]], .rej),
    (.node 5 [.node 5 [.nil], .node 5 [.list [.node 5 [.list []], .node 5 [.list []]]]], .rej),
    (.node 5 [.node 5 [.list []], .node 5 [.list [.node 5 [.list []], .node 5 [.list []]]]], .acc),
    (.node 5 [.node 5 [.list [.node 5 [.list []], .node 5 [.list []], .node 5 [.list []]]], .node 5 [.list [.node 5 [.list []], .node 5 [.list []]]]], .rej),
    (.node 5 [.node 5 [.list [.node 1 [.list []], .node 5 [.list []]]], .node 5 [.list [.node 5 [.list []], .node 5 [.list []]]]], .acc),
    (.node 5 [.node 5 [.list [.node 5 [.nil], .node 5 [.list []]]], .node 5 [.list [.node 5 [.list []], .node 5 [.list []]]]], .acc),
    (.node 5 [.node 5 [.list [.node 5 [.list []], .node 1 [.list []]]], .node 5 [.list [.node 5 [.list []], .node 5 [.list []]]]], .acc),
    (.node 5 [.node 5 [.list [.node 5 [.list []], .node 5 [.nil]]], .node 5 [.list [.node 5 [.list []], .node 5 [.list []]]]], .acc),
    (.node 5 [.node 5 [.list [.node 5 [.list []], .node 5 [.list []]]], .node 1 [.list [.node 5 [.list []], .node 5 [.list []]]]], .rej),
    (.node 5 [.node 5 [.list [.node 5 [.list []], .node 5 [.list []]]], .node 5 [.nil]], .rej),
    (.node 5 [.node 5 [.list [.node 5 [.list []], .node 5 [.list []]]], .node 5 [.list []]], .acc),
    (.node 5 [.node 5 [.list [.node 5 [.list []], .node 5 [.list []]]], .node 5 [.list [.node 5 [.list []], .node 5 [.list []], .node 5 [.list []]]]], .rej),
    (.node 5 [.node 5 [.list [.node 5 [.list []], .node 5 [.list []]]], .node 5 [.list [.node 1 [.list []], .node 5 [.list []]]]], .acc),
    (.node 5 [.node 5 [.list [.node 5 [.list []], .node 5 [.list []]]], .node 5 [.list [.node 5 [.nil], .node 5 [.list []]]]], .acc),
    (.node 5 [.node 5 [.list [.node 5 [.list []], .node 5 [.list []]]], .node 5 [.list [.node 5 [.list []], .node 1 [.list []]]]], .acc),
    (.node 5 [.node 5 [.list [.node 5 [.list []], .node 5 [.list []]]], .node 5 [.list [.node 5 [.list []], .node 5 [.nil]]]], .acc)
  ]

def graphRow91 : GRow where
  name := "rec_refs_mixed"
  env := [⟨some 3, [⟨.ptr, 0, .required⟩, ⟨.sliceptr, 0, .maxLen 2⟩, ⟨.slice, 0, .required⟩, ⟨.ptr, 0, .none⟩]⟩]
  built := true
  probes := [
    (.node 5 [.node 5 [.nil, .list [], .list [], .nil], .list [.node 5 [.nil, .list [], .list [], .nil], .node 5 [.nil, .list [], .list [], .nil]], .list [.node 5 [.nil, .list [], .list [], .nil], .node 5 [.nil, .list [], .list [], .nil]], .node 5 [.nil, .list [], .list [], .nil]], .acc),
    (.node 1 [.node 5 [.nil, .list [], .list [], .nil], .list [.node 5 [.nil, .list [], .list [], .nil], .node 5 [.nil, .list [], .list [], .nil]], .list [.node 5 [.nil, .list [], .list [], .nil], .node 5 [.nil, .list [], .list [], .nil]], .node 5 [.nil, .list [], .list [], .nil]], .rej),
    (.node 5 [.nil, .list [.node 5 [.nil, .list [], .list [], .nil], .node 5 [.nil, .list [], .list [], .nil]], .list [.node 5 [.nil, .list [], .list [], .nil], .node 5 [.nil, .list [], .list [], .nil]], .node 5 [.nil, .list [], .list [], .nil]], .rej),
    (.node 5 [.node 1 [.nil, .list [], .list [], .nil], .list [.node 5 [.nil, .list [], .list [], .nil], .node 5 [.nil, .list [], .list [], .nil]], .list [.node 5 [.nil, .list [], .list [], .nil], .node 5 [.nil, .list [], .list [], .nil]], .node 5 [.nil, .list [], .list [], .nil]], .acc),
    (.node 5 [.node 5 [.nil, .nil, .list [], .nil], .list [.node 5 [.nil, .list [], .list [], .nil], .node 5 [.nil, .list [], .list [], .nil]], .list [.node 5 [.nil, .list [], .list [], .nil], .node 5 [.nil, .list [], .list [], .nil]], .node 5 [.nil, .list [], .list [], .nil]], .acc),
    (.node 5 [.node 5 [.nil, .list [], .nil, .nil], .list [.node 5 [.nil, .list [], .list [], .nil], .node 5 [.nil, .list [], .list [], .nil]], .list [.node 5 [.nil, .list [], .list [], .nil], .node 5 [.nil, .list [], .list [], .nil]], .node 5 [.nil, .list [], .list [], .nil]], .acc),
    (.node 5 [.node 5 [.nil, .list [], .list [], .nil], .nil, .list [.node 5 [.nil, .list [], .list [], .nil], .node 5 [.nil, .list [], .list [], .nil]], .node 5 [.nil, .list [], .list [], .nil]], .rej),
    (.node 5 [.node 5 [.nil, .list [], .list [], .nil], .list [], .list [.node 5 [.nil, .list [], .list [], .nil], .node 5 [.nil, .list [], .list [], .nil]], .node 5 [.nil, .list [], .list [], .nil]], .acc),
    (.node 5 [.node 5 [.nil, .list [], .list [], .nil], .list [.node 5 [.nil, .list [], .list [], .nil], .node 5 [.nil, .list [], .list [], .nil], .node 5 [.nil, .list [], .list [], .nil]], .list [.node 5 [.nil, .list [], .list [], .nil], .node 5 [.nil, .list [], .list [], .nil]], .node 5 [.nil, .list [], .list [], .nil]], .rej),
    (.node 5 [.node 5 [.nil, .list [], .list [], .nil], .list [.node 1 [.nil, .list [], .list [], .nil], .node 5 [.nil, .list [], .list [], .nil]], .list [.node 5 [.nil, .list [], .list [], .nil], .node 5 [.nil, .list [], .list [], .nil]], .node 5 [.nil, .list [], .list [], .nil]], .acc),
    (.node 5 [.node 5 [.nil, .list [], .list [], .nil], .list [.node 5 [.nil, .nil, .list [], .nil], .node 5 [.nil, .list [], .list [], .nil]], .list [.node 5 [.nil, .list [], .list [], .nil], .node 5 [.nil, .list [], .list [], .nil]], .node 5 [.nil, .list [], .list [], .nil]], .acc),
    (.node 5 [.node 5 [.nil, .list [], .list [], .nil], .list [.node 5 [.nil, .list [], .nil, .nil], .node 5 [.nil, .list [], .list [], .nil]], .list [.node 5 [.nil, .list [], .list [], .nil], .node 5 [.nil, .list [], .list [], .nil]], .node 5 [.nil, .list [], .list [], .nil]], .acc),
    (.node 5 [.node 5 [.nil, .list [], .list [], .nil], .list [.node 5 [.nil, .list [], .list [], .nil], .node 1 [.nil, .list [], .list [], .nil]], .list [.node 5 [.nil, .list [], .list [], .nil], .node 5 [.nil, .list [], .list [], .nil]], .node 5 [.nil, .list [], .list [], .nil]], .acc),
    (.node 5 [.node 5 [.nil, .list [], .list [], .nil], .list [.node 5 [.nil, .list [], .list [], .nil], .node 5 [.nil, .nil, .list [], .nil]], .list [.node 5 [.nil, .list [], .list [], .nil], .node 5 [.nil, .list [], .list [], .nil]], .node 5 [.nil, .list [], .list [], .nil]], .acc),
    (.node 5 [.node 5 [.nil, .list [], .list [], .nil], .list [.node 5 [.nil, .list [], .list [], .nil], .node 5 [.nil, .list [], .nil, .nil]], .list [.node 5 [.nil, .list [], .list [], .nil], .node 5 [.nil, .list [], .list [], .nil]], .node 5 [.nil, .list [], .list [], .nil]], .acc),
    (.node 5 [.node 5 [.nil, .list [], .list [], .nil], .list [.node 5 [.nil, .list [], .list [], .nil], .node 5 [.nil, .list [], .list [], .nil]], .nil, .node 5 [.nil, .list [], .list [], .nil]], .rej),
    (.node 5 [.node 5 [.nil, .list [], .list [], .nil], .list [.node 5 [.nil, .list [], .list [], .nil], .node 5 [.nil, .list [], .list [], .nil]], .list [], .node 5 [.nil, .list [], .list [], .nil]], .acc),
    (.node 5 [.node 5 [.nil, .list [], .list [], .nil], .list [.node 5 [.nil, .list [], .list [], .nil], .node 5 [.nil, .list [], .list [], .nil]], .list [.node 5 [.nil, .list [], .list [], .nil], .node 5 [.nil, .list [], .list [], .nil], .node 5 [.nil, .list [], .list [], .nil]], .node 5 [.nil, .list [], .list [], .nil]], .acc),
    (.node 5 [.node 5 [.nil, .list [], .list [], .nil], .list [.node 5 [.nil, .list [], .list [], .nil], .node 5 [.nil, .list [], .list [], .nil]], .list [.node 1 [.nil, .list [], .list [], .nil], .node 5 [.nil, .list [], .list [], .nil]], .node 5 [.nil, .list [], .list [], .nil]], .acc),
    (.node 5 [.node 5 [.nil, .list [], .list [], .nil], .list [.node 5 [.nil, .list [], .list [], .nil], .node 5 [.nil, .list [], .list [], .nil]], .list [.node 5 [.nil, .nil, .list [], .nil], .node 5 [.nil, .list [], .list [], .nil]], .node 5 [.nil, .list [], .list [], .nil]], .acc),
    (.node 5 [.node 5 [.nil, .list [], .list [], .nil], .list [.node 5 [.nil, .list [], .list [], .nil], .node 5 [.nil, .list [], .list [], .nil]], .list [.node 5 [.nil, .list [], .nil, .nil], .node 5 [.nil, .list [], .list [], .nil]], .node 5 [.nil, .list [], .list [], .nil]], .acc),
    (.node 5 [.node 5 [.nil, .list [], .list [], .nil], .list [.node 5 [.nil, .list [], .list [], .nil], .node 5 [.nil, .list [], .list [], .nil]], .list [.node 5 [.nil, .list [], .list [], .nil], .node 1 [.nil, .list [], .list [], .nil]], .node 5 [.nil, .list [], .list [], .nil]], .acc),
    (.node 5 [.node 5 [.nil, .list [], .list [], .nil], .list [.node 5 [.nil, .list [], .list [], .nil], .node 5 [.nil, .list [], .list [], .nil]], .list [.node 5 [.nil, .list [], .list [], .nil], .node 5 [.nil, .nil, .list [], .nil]], .node 5 [.nil, .list [], .list [], .nil]], .acc),
    (.node 5 [.node 5 [.nil, .list [], .list [], .nil], .list [.node 5 [.nil, .list [], .list [], .nil], .node 5 [.nil, .list [], .list [], .nil]], .list [.node 5 [.nil, .list [], .list [], .nil], .node 5 [.nil, .list [], .nil, .nil]], .node 5 [.nil, .list [], .list [], .nil]], .acc),
    (.node 5 [.node 5 [.nil, .list [], .list [], .nil], .list [.node 5 [.nil, .list [], .list [], .nil], .node 5 [.nil, .list [], .list [], .nil]], .list [.node 5 [.nil, .list [], .list [], .nil], .node 5 [.nil, .list [], .list [], .nil]], .nil], .acc),
    (.node 5 [.node 5 [.nil, .list [], .list [], .nil], .list [.node 5 [.nil, .list [], .list [], .nil], .node 5 [.nil, .list [], .list [], .nil]], .list [.node 5 [.nil, .list [], .list [], .nil], .node 5 [.nil, .list [], .list [], .nil]], .node 1 [.nil, .list [], .list [], .nil]], .acc),
    (.node 5 [.node 5 [.nil, .list [], .list [], .nil], .list [.node 5 [.nil, .list [], .list [], .nil], .node 5 [.nil, .list [], .list [], .nil]], .list [.node 5 [.nil, .list [], .list [], .nil], .node 5 [.nil, .list [], .list [], .nil]], .node 5 [.nil, .nil, .list [], .nil]], .acc),
    (.node 5 [.node 5 [.nil, .list [], .list [], .nil], .list [.node 5 [.nil, .list [], .list [], .nil], .node 5 [.nil, .list [], .list [], .nil]], .list [.node 5 [.nil, .list [], .list [], .nil], .node 5 [.nil, .list [], .list [], .nil]], .node 5 [.nil, .list [], .nil, .nil]], .acc)
  ]

def graphRow92 : GRow where
  name := "rec_shared_below"
  env := [⟨some 3, [⟨.val, 1, .required⟩, ⟨.ptr, 1, .required⟩, ⟨.slice, 1, .maxLen 2⟩]⟩, ⟨some 3, [⟨.sliceptr, 1, .maxLen 2⟩, ⟨.ptr, 1, .required⟩, ⟨.slice, 1, .required⟩]⟩]
  built := true
  probes := [
    (.node 5 [.node 5 [.list [.node 5 [.list [], .nil, .list []], .node 5 [.list [], .nil, .list []]], .node 5 [.list [], .nil, .list []], .list [.node 5 [.list [], .nil, .list []], .node 5 [.list [], .nil, .list []]]], .node 5 [.list [.node 5 [.list [], .nil, .list []], .node 5 [.list [], .nil, .list []]], .node 5 [.list [], .nil, .list []], .list [.node 5 [.list [], .nil, .list []], .node 5 [.list [], .nil, .list []]]], .list [.node 5 [.list [.node 5 [.list [], .nil, .list []], .node 5 [.list [], .nil, .list []]], .node 5 [.list [], .nil, .list []], .list [.node 5 [.list [], .nil, .list []], .node 5 [.list [], .nil, .list []]]], .node 5 [.list [.node 5 [.list [], .nil, .list []], .node 5 [.list [], .nil, .list []]], .node 5 [.list [], .nil, .list []], .list [.node 5 [.list [], .nil, .list []], .node 5 [.list [], .nil, .list []]]]]], .acc),
    (.node 1 [.node 5 [.list [.node 5 [.list [], .nil, .list []], .node 5 [.list [], .nil, .list []]], .node 5 [.list [], .nil, .list []], .list [.node 5 [.list [], .nil, .list []], .node 5 [.list [], .nil, .list []]]], .node 5 [.list [.node 5 [.list [], .nil, .list []], .node 5 [.list [], .nil, .list []]], .node 5 [.list [], .nil, .list []], .list [.node 5 [.list [], .nil, .list []], .node 5 [.list [], .nil, .list []]]], .list [.node 5 [.list [.node 5 [.list [], .nil, .list []], .node 5 [.list [], .nil, .list []]], .node 5 [.list [], .nil, .list []], .list [.node 5 [.list [], .nil, .list []], .node 5 [.list [], .nil, .list []]]], .node 5 [.list [.node 5 [.list [], .nil, .list []], .node 5 [.list [], .nil, .list []]], .node 5 [.list [], .nil, .list []], .list [.node 5 [.list [], .nil, .list []], .node 5 [.list [], .nil, .list []]]]]], .rej),
    (.node 5 [.node 1 [.list [.node 5 [.list [], .nil, .list []], .node 5 [.list [], .nil, .list []]], .node 5 [.list [], .nil, .list []], .list [.node 5 [.list [], .nil, .list []], .node 5 [.list [], .nil, .list []]]], .node 5 [.list [.node 5 [.list [], .nil, .list []], .node 5 [.list [], .nil, .list []]], .node 5 [.list [], .nil, .list []], .list [.node 5 [.list [], .nil, .list []], .node 5 [.list [], .nil, .list []]]], .list [.node 5 [.list [.node 5 [.list [], .nil, .list []], .node 5 [.list [], .nil, .list []]], .node 5 [.list [], .nil, .list []], .list [.node 5 [.list [], .nil, .list []], .node 5 [.list [], .nil, .list []]]], .node 5 [.list [.node 5 [.list [], .nil, .list []], .node 5 [.list [], .nil, .list []]], .node 5 [.list [], .nil, .list []], .list [.node 5 [.list [], .nil, .list []], .node 5 [.list [], .nil, .list []]]]]], .rej),
    (.node 5 [.node 5 [.nil, .node 5 [.list [], .nil, .list []], .list [.node 5 [.list [], .nil, .list []], .node 5 [.list [], .nil, .list []]]], .node 5 [.list [.node 5 [.list [], .nil, .list []], .node 5 [.list [], .nil, .list []]], .node 5 [.list [], .nil, .list []], .list [.node 5 [.list [], .nil, .list []], .node 5 [.list [], .nil, .list []]]], .list [.node 5 [.list [.node 5 [.list [], .nil, .list []], .node 5 [.list [], .nil, .list []]], .node 5 [.list [], .nil, .list []], .list [.node 5 [.list [], .nil, .list []], .node 5 [.list [], .nil, .list []]]], .node 5 [.list [.node 5 [.list [], .nil, .list []], .node 5 [.list [], .nil, .list []]], .node 5 [.list [], .nil, .list []], .list [.node 5 [.list [], .nil, .list []], .node 5 [.list [], .nil, .list []]]]]], .rej),
    (.node 5 [.node 5 [.list [], .node 5 [.list [], .nil, .list []], .list [.node 5 [.list [], .nil, .list []], .node 5 [.list [], .nil, .list []]]], .node 5 [.list [.node 5 [.list [], .nil, .list []], .node 5 [.list [], .nil, .list []]], .node 5 [.list [], .nil, .list []], .list [.node 5 [.list [], .nil, .list []], .node 5 [.list [], .nil, .list []]]], .list [.node 5 [.list [.node 5 [.list [], .nil, .list []], .node 5 [.list [], .nil, .list []]], .node 5 [.list [], .nil, .list []], .list [.node 5 [.list [], .nil, .list []], .node 5 [.list [], .nil, .list []]]], .node 5 [.list [.node 5 [.list [], .nil, .list []], .node 5 [.list [], .nil, .list []]], .node 5 [.list [], .nil, .list []], .list [.node 5 [.list [], .nil, .list []], .node 5 [.list [], .nil, .list []]]]]], .acc),
    (.node 5 [.node 5 [.list [.node 5 [.list [], .nil, .list []], .node 5 [.list [], .nil, .list []], .node 5 [.list [], .nil, .list []]], .node 5 [.list [], .nil, .list []], .list [.node 5 [.list [], .nil, .list []], .node 5 [.list [], .nil, .list []]]], .node 5 [.list [.node 5 [.list [], .nil, .list []], .node 5 [.list [], .nil, .list []]], .node 5 [.list [], .nil, .list []], .list [.node 5 [.list [], .nil, .list []], .node 5 [.list [], .nil, .list []]]], .list [.node 5 [.list [.node 5 [.list [], .nil, .list []], .node 5 [.list [], .nil, .list []]], .node 5 [.list [], .nil, .list []], .list [.node 5 [.list [], .nil, .list []], .node 5 [.list [], .nil, .list []]]], .node 5 [.list [.node 5 [.list [], .nil, .list []], .node 5 [.list [], .nil, .list []]], .node 5 [.list [], .nil, .list []], .list [.node 5 [.list [], .nil, .list []], .node 5 [.list [], .nil, .list []]]]]], .rej),
    (.node 5 [.node 5 [.list [.node 1 [.list [], .nil, .list []], .node 5 [.list [], .nil, .list []]], .node 5 [.list [], .nil, .list []], .list [.node 5 [.list [], .nil, .list []], .node 5 [.list [], .nil, .list []]]], .node 5 [.list [.node 5 [.list [], .nil, .list []], .node 5 [.list [], .nil, .list []]], .node 5 [.list [], .nil, .list []], .list [.node 5 [.list [], .nil, .list []], .node 5 [.list [], .nil, .list []]]], .list [.node 5 [.list [.node 5 [.list [], .nil, .list []], .node 5 [.list [], .nil, .list []]], .node 5 [.list [], .nil, .list []], .list [.node 5 [.list [], .nil, .list []], .node 5 [.list [], .nil, .list []]]], .node 5 [.list [.node 5 [.list [], .nil, .list []], .node 5 [.list [], .nil, .list []]], .node 5 [.list [], .nil, .list []], .list [.node 5 [.list [], .nil, .list []], .node 5 [.list [], .nil, .list []]]]]], .acc),
    (.node 5 [.node 5 [.list [.node 5 [.nil, .nil, .list []], .node 5 [.list [], .nil, .list []]], .node 5 [.list [], .nil, .list []], .list [.node 5 [.list [], .nil, .list []], .node 5 [.list [], .nil, .list []]]], .node 5 [.list [.node 5 [.list [], .nil, .list []], .node 5 [.list [], .nil, .list []]], .node 5 [.list [], .nil, .list []], .list [.node 5 [.list [], .nil, .list []], .node 5 [.list [], .nil, .list []]]], .list [.node 5 [.list [.node 5 [.list [], .nil, .list []], .node 5 [.list [], .nil, .list []]], .node 5 [.list [], .nil, .list []], .list [.node 5 [.list [], .nil, .list []], .node 5 [.list [], .nil, .list []]]], .node 5 [.list [.node 5 [.list [], .nil, .list []], .node 5 [.list [], .nil, .list []]], .node 5 [.list [], .nil, .list []], .list [.node 5 [.list [], .nil, .list []], .node 5 [.list [], .nil, .list []]]]]], .acc),
    (.node 5 [.node 5 [.list [.node 5 [.list [], .nil, .nil], .node 5 [.list [], .nil, .list []]], .node 5 [.list [], .nil, .list []], .list [.node 5 [.list [], .nil, .list []], .node 5 [.list [], .nil, .list []]]], .node 5 [.list [.node 5 [.list [], .nil, .list []], .node 5 [.list [], .nil, .list []]], .node 5 [.list [], .nil, .list []], .list [.node 5 [.list [], .nil, .list []], .node 5 [.list [], .nil, .list []]]], .list [.node 5 [.list [.node 5 [.list [], .nil, .list []], .node 5 [.list [], .nil, .list []]], .node 5 [.list [], .nil, .list []], .list [.node 5 [.list [], .nil, .list []], .node 5 [.list [], .nil, .list []]]], .node 5 [.list [.node 5 [.list [], .nil, .list []], .node 5 [.list [], .nil, .list []]], .node 5 [.list [], .nil, .list []], .list [.node 5 [.list [], .nil, .list []], .node 5 [.list [], .nil, .list []]]]]], .acc),
    (.node 5 [.node 5 [.list [.node 5 [.list [], .nil, .list []], .node 1 [.list [], .nil, .list []]], .node 5 [.list [], .nil, .list []], .list [.node 5 [.list [], .nil, .list []], .node 5 [.list [], .nil, .list []]]], .node 5 [.list [.node 5 [.list [], .nil, .list []], .node 5 [.list [], .nil, .list []]], .node 5 [.list [], .nil, .list []], .list [.node 5 [.list [], .nil, .list []], .node 5 [.list [], .nil, .list []]]], .list [.node 5 [.list [.node 5 [.list [], .nil, .list []], .node 5 [.list [], .nil, .list []]], .node 5 [.list [], .nil, .list []], .list [.node 5 [.list [], .nil, .list []], .node 5 [.list [], .nil, .list []]]], .node 5 [.list [.node 5 [.list [], .nil, .list []], .node 5 [.list [], .nil, .list []]], .node 5 [.list [], .nil, .list []], .list [.node 5 [.list [], .nil, .list []], .node 5 [.list [], .nil, .list []]]]]], .acc),
    (.node 5 [.node 5 [.list [.node 5 [.list [], .nil, .list []], .node 5 [.nil, .nil, .list []]], .node 5 [.list [], .nil, .list []], .list [.node 5 [.list [], .nil, .list []], .node 5 [.list [], .nil, .list []]]], .node 5 [.list [.node 5 [.list [], .nil, .list []], .node 5 [.list [], .nil, .list []]], .node 5 [.list [], .nil, .list []], .list [.node 5 [.list [], .nil, .list []], .node 5 [.list [], .nil, .list []]]], .list [.node 5 [.list [.node 5 [.list [], .nil, .list []], .node 5 [.list [], .nil, .list []]], .node 5 [.list [], .nil, .list []], .list [.node 5 [.list [], .nil, .list []], .node 5 [.list [], .nil, .list []]]], .node 5 [.list [.node 5 [.list [], .nil, .list []], .node 5 [.list [], .nil, .list []]], .node 5 [.list [], .nil, .list []], .list [.node 5 [.list [], .nil, .list []], .node 5 [.list [], .nil, .list []]]]]], .acc),
    (.node 5 [.node 5 [.list [.node 5 [.list [], .nil, .list []], .node 5 [.list [], .nil, .nil]], .node 5 [.list [], .nil, .list []], .list [.node 5 [.list [], .nil, .list []], .node 5 [.list [], .nil, .list []]]], .node 5 [.list [.node 5 [.list [], .nil, .list []], .node 5 [.list [], .nil, .list []]], .node 5 [.list [], .nil, .list []], .list [.node 5 [.list [], .nil, .list []], .node 5 [.list [], .nil, .list []]]], .list [.node 5 [.list [.node 5 [.list [], .nil, .list []], .node 5 [.list [], .nil, .list []]], .node 5 [.list [], .nil, .list []], .list [.node 5 [.list [], .nil, .list []], .node 5 [.list [], .nil, .list []]]], .node 5 [.list [.node 5 [.list [], .nil, .list []], .node 5 [.list [], .nil, .list []]], .node 5 [.list [], .nil, .list []], .list [.node 5 [.list [], .nil, .list []], .node 5 [.list [], .nil, .list []]]]]], .acc),
    (.node 5 [.node 5 [.list [.node 5 [.list [], .nil, .list []], .node 5 [.list [], .nil, .list []]], .nil, .list [.node 5 [.list [], .nil, .list []], .node 5 [.list [], .nil, .list []]]], .node 5 [.list [.node 5 [.list [], .nil, .list []], .node 5 [.list [], .nil, .list []]], .node 5 [.list [], .nil, .list []], .list [.node 5 [.list [], .nil, .list []], .node 5 [.list [], .nil, .list []]]], .list [.node 5 [.list [.node 5 [.list [], .nil, .list []], .node 5 [.list [], .nil, .list []]], .node 5 [.list [], .nil, .list []], .list [.node 5 [.list [], .nil, .list []], .node 5 [.list [], .nil, .list []]]], .node 5 [.list [.node 5 [.list [], .nil, .list []], .node 5 [.list [], .nil, .list []]], .node 5 [.list [], .nil, .list []], .list [.node 5 [.list [], .nil, .list []], .node 5 [.list [], .nil, .list []]]]]], .rej),
    (.node 5 [.node 5 [.list [.node 5 [.list [], .nil, .list []], .node 5 [.list [], .nil, .list []]], .node 1 [.list [], .nil, .list []], .list [.node 5 [.list [], .nil, .list []], .node 5 [.list [], .nil, .list []]]], .node 5 [.list [.node 5 [.list [], .nil, .list []], .node 5 [.list [], .nil, .list []]], .node 5 [.list [], .nil, .list []], .list [.node 5 [.list [], .nil, .list []], .node 5 [.list [], .nil, .list []]]], .list [.node 5 [.list [.node 5 [.list [], .nil, .list []], .node 5 [.list [], .nil, .list []]], .node 5 [.list [], .nil, .list []], .list [.node 5 [.list [], .nil, .list []], .node 5 [.list [], .nil, .list []]]], .node 5 [.list [.node 5 [.list [], .nil, .list []], .node 5 [.list [], .nil, .list []]], .node 5 [.list [], .nil, .list []], .list [.node 5 [.list [], .nil, .list []], .node 5 [.list [], .nil, .list []]]]]], .acc),
    (.node 5 [.node 5 [.list [.node 5 [.list [], .nil, .list []], .node 5 [.list [], .nil, .list []]], .node 5 [.nil, .nil, .list []], .list [.node 5 [.list [], .nil, .list []], .node 5 [.list [], .nil, .list []]]], .node 5 [.list [.node 5 [.list [], .nil, .list []], .node 5 [.list [], .nil, .list []]], .node 5 [.list [], .nil, .list []], .list [.node 5 [.list [], .nil, .list []], .node 5 [.list [], .nil, .list []]]], .list [.node 5 [.list [.node 5 [.list [], .nil, .list []], .node 5 [.list [], .nil, .list []]], .node 5 [.list [], .nil, .list []], .list [.node 5 [.list [], .nil, .list []], .node 5 [.list [], .nil, .list []]]], .node 5 [.list [.node 5 [.list [], .nil, .list []], .node 5 [.list [], .nil, .list []]], .node 5 [.list [], .nil, .list []], .list [.node 5 [.list [], .nil, .list []], .node 5 [.list [], .nil, .list []]]]]], .acc),
    (.node 5 [.node 5 [.list [.node 5 [.list [], .nil, .list []], .node 5 [.list [], .nil, .list []]], .node 5 [.list [], .nil, .nil], .list [.node 5 [.list [], .nil, .list []], .node 5 [.list [], .nil, .list []]]], .node 5 [.list [.node 5 [.list [], .nil, .list []], .node 5 [.list [], .nil, .list []]], .node 5 [.list [], .nil, .list []], .list [.node 5 [.list [], .nil, .list []], .node 5 [.list [], .nil, .list []]]], .list [.node 5 [.list [.node 5 [.list [], .nil, .list []], .node 5 [.list [], .nil, .list []]], .node 5 [.list [], .nil, .list []], .list [.node 5 [.list [], .nil, .list []], .node 5 [.list [], .nil, .list []]]], .node 5 [.list [.node 5 [.list [], .nil, .list []], .node 5 [.list [], .nil, .list []]], .node 5 [.list [], .nil, .list []], .list [.node 5 [.list [], .nil, .list []], .node 5 [.list [], .nil, .list []]]]]], .acc),
    (.node 5 [.node 5 [.list [.node 5 [.list [], .nil, .list []], .node 5 [.list [], .nil, .list []]], .node 5 [.list [], .nil, .list []], .nil], .node 5 [.list [.node 5 [.list [], .nil, .list []], .node 5 [.list [], .nil, .list []]], .node 5 [.list [], .nil, .list []], .list [.node 5 [.list [], .nil, .list []], .node 5 [.list [], .nil, .list []]]], .list [.node 5 [.list [.node 5 [.list [], .nil, .list []], .node 5 [.list [], .nil, .list []]], .node 5 [.list [], .nil, .list []], .list [.node 5 [.list [], .nil, .list []], .node 5 [.list [], .nil, .list []]]], .node 5 [.list [.node 5 [.list [], .nil, .list []], .node 5 [.list [], .nil, .list []]], .node 5 [.list [], .nil, .list []], .list [.node 5 [.list [], .nil, .list []], .node 5 [.list [], .nil, .list []]]]]], .rej),
    (.node 5 [.node 5 [.list [.node 5 [.list [], .nil, .list []], .node 5 [.list [], .nil, .list []]], .node 5 [.list [], .nil, .list []], .list []], .node 5 [.list [.node 5 [.list [], .nil, .list []], .node 5 [.list [], .nil, .list []]], .node 5 [.list [], .nil, .list []], .list [.node 5 [.list [], .nil, .list []], .node 5 [.list [], .nil, .list []]]], .list [.node 5 [.list [.node 5 [.list [], .nil, .list []], .node 5 [.list [], .nil, .list []]], .node 5 [.list [], .nil, .list []], .list [.node 5 [.list [], .nil, .list []], .node 5 [.list [], .nil, .list []]]], .node 5 [.list [.node 5 [.list [], .nil, .list []], .node 5 [.list [], .nil, .list []]], .node 5 [.list [], .nil, .list []], .list [.node 5 [.list [], .nil, .list []], .node 5 [.list [], .nil, .list []]]]]], .acc),
    (.node 5 [.node 5 [.list [.node 5 [.list [], .nil, .list []], .node 5 [.list [], .nil, .list []]], .node 5 [.list [], .nil, .list []], .list [.node 5 [.list [], .nil, .list []], .node 5 [.list [], .nil, .list []], .node 5 [.list [], .nil, .list []]]], .node 5 [.list [.node 5 [.list [], .nil, .list []], .node 5 [.list [], .nil, .list []]], .node 5 [.list [], .nil, .list []], .list [.node 5 [.list [], .nil, .list []], .node 5 [.list [], .nil, .list []]]], .list [.node 5 [.list [.node 5 [.list [], .nil, .list []], .node 5 [.list [], .nil, .list []]], .node 5 [.list [], .nil, .list []], .list [.node 5 [.list [], .nil, .list []], .node 5 [.list [], .nil, .list []]]], .node 5 [.list [.node 5 [.list [], .nil, .list []], .node 5 [.list [], .nil, .list []]], .node 5 [.list [], .nil, .list []], .list [.node 5 [.list [], .nil, .list []], .node 5 [.list [], .nil, .list []]]]]], .acc),
    (.node 5 [.node 5 [.list [.node 5 [.list [], .nil, .list []], .node 5 [.list [], .nil, .list []]], .node 5 [.list [], .nil, .list []], .list [.node 1 [.list [], .nil, .list []], .node 5 [.list [], .nil, .list []]]], .node 5 [.list [.node 5 [.list [], .nil, .list []], .node 5 [.list [], .nil, .list []]], .node 5 [.list [], .nil, .list []], .list [.node 5 [.list [], .nil, .list []], .node 5 [.list [], .nil, .list []]]], .list [.node 5 [.list [.node 5 [.list [], .nil, .list []], .node 5 [.list [], .nil, .list []]], .node 5 [.list [], .nil, .list []], .list [.node 5 [.list [], .nil, .list []], .node 5 [.list [], .nil, .list []]]], .node 5 [.list [.node 5 [.list [], .nil, .list []], .node 5 [.list [], .nil, .list []]], .node 5 [.list [], .nil, .list []], .list [.node 5 [.list [], .nil, .list []], .node 5 [.list [], .nil, .list []]]]]], .acc),
    (.node 5 [.node 5 [.list [.node 5 [.list [], .nil, .list []], .node 5 [.list [], .nil, .list []]], .node 5 [.list [], .nil, .list []], .list [.node 5 [.nil, .nil, .list []], .node 5 [.list [], .nil, .list []]]], .node 5 [.list [.node 5 [.list [], .nil, .list []], .node 5 [.list [], .nil, .list []]], .node 5 [.list [], .nil, .list []], .list [.node 5 [.list [], .nil, .list []], .node 5 [.list [], .nil, .list []]]], .list [.node 5 [.list [.node 5 [.list [], .nil, .list []], .node 5 [.list [], .nil, .list []]], .node 5 [.list [], .nil, .list []], .list [.node 5 [.list [], .nil, .list []], .node 5 [.list [], .nil, .list []]]], .node 5 [.list [.node 5 [.list [], .nil, .list []], .node 5 [.list [], .nil, .list []]], .node 5 [.list [], .nil, .list []], .list [.node 5 [.list [], .nil, .list []], .node 5 [.list [], .nil, .list []]]]]], .acc),
    (.node 5 [.node 5 [.list [.node 5 [.list [], .nil, .list []], .node 5 [.list [], .nil, .list []]], .node 5 [.list [], .nil, .list []], .list [.node 5 [.list [], .nil, .nil], .node 5 [.list [], .nil, .list []]]], .node 5 [.list [.node 5 [.list [], .nil, .list []], .node 5 [.list [], .nil, .list []]], .node 5 [.list [], .nil, .list []], .list [.node 5 [.list [], .nil, .list []], .node 5 [.list [], .nil, .list []]]], .list [.node 5 [.list [.node 5 [.list [], .nil, .list []], .node 5 [.list [], .nil, .list []]], .node 5 [.list [], .nil, .list []], .list [.node 5 [.list [], .nil, .list []], .node 5 [.list [], .nil, .list []]]], .node 5 [.list [.node 5 [.list [], .nil, .list []], .node 5 [.list [], .nil, .list []]], .node 5 [.list [], .nil, .list []], .list [.node 5 [.list [], .nil, .list []], .node 5 [.list [], .nil, .list []]]]]], .acc),
    (.node 5 [.node 5 [.list [.node 5 [.list [], .nil, .list []], .node 5 [.list [], .nil, .list []]], .node 5 [.list [], .nil, .list []], .list [.node 5 [.list [], .nil, .list []], .node 1 [.list [], .nil, .list []]]], .node 5 [.list [.node 5 [.list [], .nil, .list []], .node 5 [.list [], .nil, .list []]], .node 5 [.list [], .nil, .list []], .list [.node 5 [.list [], .nil, .list []], .node 5 [.list [], .nil, .list []]]], .list [.node 5 [.list [.node 5 [.list [], .nil, .list []], .node 5 [.list [], .nil, .list []]], .node 5 [.list [], .nil, .list []], .list [.node 5 [.list [], .nil, .list []], .node 5 [.list [], .nil, .list []]]], .node 5 [.list [.node 5 [.list [], .nil, .list []], .node 5 [.list [], .nil, .list []]], .node 5 [.list [], .nil, .list []], .list [.node 5 [.list [], .nil, .list []], .node 5 [.list [], .nil, .list []]]]]], .acc),
    (.node 5 [.node 5 [.list [.node 5 [.list [], .nil, .list []], .node 5 [.list [], .nil, .list []]], .node 5 [.list [], .nil, .list []], .list [.node 5 [.list [], .nil, .list []], .node 5 [.nil, .nil, .list []]]], .node 5 [.list [.node 5 [.list [], .nil, .list []], .node 5 [.list [], .nil, .list []]], .node 5 [.list [], .nil, .list []], .list [.node 5 [.list [], .nil, .list []], .node 5 [.list [], .nil, .list []]]], .list [.node 5 [.list [.node 5 [.list [], .nil, .list []], .node 5 [.list [], .nil, .list []]], .node 5 [.list [], .nil, .list []], .list [.node 5 [.list [], .nil, .list []], .node 5 [.list [], .nil, .list []]]], .node 5 [.list [.node 5 [.list [], .nil, .list []], .node 5 [.list [], .nil, .list []]], .node 5 [.list [], .nil, .list []], .list [.node 5 [.list [], .nil, .list []], .node 5 [.list [], .nil, .list []]]]]], .acc),
    (.node 5 [.node 5 [.list [.node 5 [.list [], .nil, .list []], .node 5 [.list [], .nil, .list []]], .node 5 [.list [], .nil, .list []], .list [.node 5 [.list [], .nil, .list []], .node 5 [.list [], .nil, .nil]]], .node 5 [.list [.node 5 [.list [], .nil, .list []], .node 5 [.list [], .nil, .list []]], .node 5 [.list [], .nil, .list []], .list [.node 5 [.list [], .nil, .list []], .node 5 [.list [], .nil, .list []]]], .list [.node 5 [.list [.node 5 [.list [], .nil, .list []], .node 5 [.list [], .nil, .list []]], .node 5 [.list [], .nil, .list []], .list [.node 5 [.list [], .nil, .list []], .node 5 [.list [], .nil, .list []]]], .node 5 [.list [.node 5 [.list [], .nil, .list []], .node 5 [.list [], .nil, .list []]], .node 5 [.list [], .nil, .list []], .list [.node 5 [.list [], .nil, .list []], .node 5 [.list [], .nil, .list []]]]]], .acc),
    (.node 5 [.node 5 [.list [.node 5 [.list [], .nil, .list []], .node 5 [.list [], .nil, .list []]], .node 5 [.list [], .nil, .list []], .list [.node 5 [.list [], .nil, .list []], .node 5 [.list [], .nil, .list []]]], .nil, .list [.node 5 [.list [.node 5 [.list [], .nil, .list []], .node 5 [.list [], .nil, .list []]], .node 5 [.list [], .nil, .list []], .list [.node 5 [.list [], .nil, .list []], .node 5 [.list [], .nil, .list []]]], .node 5 [.list [.node 5 [.list [], .nil, .list []], .node 5 [.list [], .nil, .list []]], .node 5 [.list [], .nil, .list []], .list [.node 5 [.list [], .nil, .list []], .node 5 [.list [], .nil, .list []]]]]], .rej),
    (.node 5 [.node 5 [.list [.node 5 [.list [], .nil, .list []], .node 5 [.list [], .nil, .list []]], .node 5 [.list [], .nil, .list []], .list [.node 5 [.list [], .nil, .list []], .node 5 [.list [], .nil, .list []]]], .node 1 [.list [.node 5 [.list [], .nil, .list []], .node 5 [.list [], .nil, .list []]], .node 5 [.list [], .nil, .list []], .list [.node 5 [.list [], .nil, .list []], .node 5 [.list [], .nil, .list []]]], .list [.node 5 [.list [.node 5 [.list [], .nil, .list []], .node 5 [.list [], .nil, .list []]], .node 5 [.list [], .nil, .list []], .list [.node 5 [.list [], .nil, .list []], .node 5 [.list [], .nil, .list []]]], .node 5 [.list [.node 5 [.list [], .nil, .list []], .node 5 [.list [], .nil, .list []]], .node 5 [.list [], .nil, .list []], .list [.node 5 [.list [], .nil, .list []], .node 5 [.list [], .nil, .list []]]]]], .rej),
    (.node 5 [.node 5 [.list [.node 5 [.list [], .nil, .list []], .node 5 [.list [], .nil, .list []]], .node 5 [.list [], .nil, .list []], .list [.node 5 [.list [], .nil, .list []], .node 5 [.list [], .nil, .list []]]], .node 5 [.nil, .node 5 [.list [], .nil, .list []], .list [.node 5 [.list [], .nil, .list []], .node 5 [.list [], .nil, .list []]]], .list [.node 5 [.list [.node 5 [.list [], .nil, .list []], .node 5 [.list [], .nil, .list []]], .node 5 [.list [], .nil, .list []], .list [.node 5 [.list [], .nil, .list []], .node 5 [.list [], .nil, .list []]]], .node 5 [.list [.node 5 [.list [], .nil, .list []], .node 5 [.list [], .nil, .list []]], .node 5 [.list [], .nil, .list []], .list [.node 5 [.list [], .nil, .list []], .node 5 [.list [], .nil, .list []]]]]], .rej),
    (.node 5 [.node 5 [.list [.node 5 [.list [], .nil, .list []], .node 5 [.list [], .nil, .list []]], .node 5 [.list [], .nil, .list []], .list [.node 5 [.list [], .nil, .list []], .node 5 [.list [], .nil, .list []]]], .node 5 [.list [], .node 5 [.list [], .nil, .list []], .list [.node 5 [.list [], .nil, .list []], .node 5 [.list [], .nil, .list []]]], .list [.node 5 [.list [.node 5 [.list [], .nil, .list []], .node 5 [.list [], .nil, .list []]], .node 5 [.list [], .nil, .list []], .list [.node 5 [.list [], .nil, .list []], .node 5 [.list [], .nil, .list []]]], .node 5 [.list [.node 5 [.list [], .nil, .list []], .node 5 [.list [], .nil, .list []]], .node 5 [.list [], .nil, .list []], .list [.node 5 [.list [], .nil, .list []], .node 5 [.list [], .nil, .list []]]]]], .acc),
    (.node 5 [.node 5 [.list [.node 5 [.list [], .nil, .list []], .node 5 [.list [], .nil, .list []]], .node 5 [.list [], .nil, .list []], .list [.node 5 [.list [], .nil, .list []], .node 5 [.list [], .nil, .list []]]], .node 5 [.list [.node 5 [.list [], .nil, .list []], .node 5 [.list [], .nil, .list []], .node 5 [.list [], .nil, .list []]], .node 5 [.list [], .nil, .list []], .list [.node 5 [.list [], .nil, .list []], .node 5 [.list [], .nil, .list []]]], .list [.node 5 [.list [.node 5 [.list [], .nil, .list []], .node 5 [.list [], .nil, .list []]], .node 5 [.list [], .nil, .list []], .list [.node 5 [.list [], .nil, .list []], .node 5 [.list [], .nil, .list []]]], .node 5 [.list [.node 5 [.list [], .nil, .list []], .node 5 [.list [], .nil, .list []]], .node 5 [.list [], .nil, .list []], .list [.node 5 [.list [], .nil, .list []], .node 5 [.list [], .nil, .list []]]]]], .rej),
    (.node 5 [.node 5 [.list [.node 5 [.list [], .nil, .list []], .node 5 [.list [], .nil, .list []]], .node 5 [.list [], .nil, .list []], .list [.node 5 [.list [], .nil, .list []], .node 5 [.list [], .nil, .list []]]], .node 5 [.list [.node 1 [.list [], .nil, .list []], .node 5 [.list [], .nil, .list []]], .node 5 [.list [], .nil, .list []], .list [.node 5 [.list [], .nil, .list []], .node 5 [.list [], .nil, .list []]]], .list [.node 5 [.list [.node 5 [.list [], .nil, .list []], .node 5 [.list [], .nil, .list []]], .node 5 [.list [], .nil, .list []], .list [.node 5 [.list [], .nil, .list []], .node 5 [.list [], .nil, .list []]]], .node 5 [.list [.node 5 [.list [], .nil, .list []], .node 5 [.list [], .nil, .list []]], .node 5 [.list [], .nil, .list []], .list [.node 5 [.list [], .nil, .list []], .node 5 [.list [], .nil, .list []]]]]], .acc),
    (.node 5 [.node 5 [.list [.node 5 [.list [], .nil, .list []], .node 5 [.list [], .nil, .list []]], .node 5 [.list [], .nil, .list []], .list [.node 5 [.list [], .nil, .list []], .node 5 [.list [], .nil, .list []]]], .node 5 [.list [.node 5 [.nil, .nil, .list []], .node 5 [.list [], .nil, .list []]], .node 5 [.list [], .nil, .list []], .list [.node 5 [.list [], .nil, .list []], .node 5 [.list [], .nil, .list []]]], .list [.node 5 [.list [.node 5 [.list [], .nil, .list []], .node 5 [.list [], .nil, .list []]], .node 5 [.list [], .nil, .list []], .list [.node 5 [.list [], .nil, .list []], .node 5 [.list [], .nil, .list []]]], .node 5 [.list [.node 5 [.list [], .nil, .list []], .node 5 [.list [], .nil, .list []]], .node 5 [.list [], .nil, .list []], .list [.node 5 [.list [], .nil, .list []], .node 5 [.list [], .nil, .list []]]]]], .acc),
    (.node 5 [.node 5 [.list [.node 5 [.list [], .nil, .list []], .node 5 [.list [], .nil, .list []]], .node 5 [.list [], .nil, .list []], .list [.node 5 [.list [], .nil, .list []], .node 5 [.list [], .nil, .list []]]], .node 5 [.list [.node 5 [.list [], .nil, .nil], .node 5 [.list [], .nil, .list []]], .node 5 [.list [], .nil, .list []], .list [.node 5 [.list [], .nil, .list []], .node 5 [.list [], .nil, .list []]]], .list [.node 5 [.list [.node 5 [.list [], .nil, .list []], .node 5 [.list [], .nil, .list []]], .node 5 [.list [], .nil, .list []], .list [.node 5 [.list [], .nil, .list []], .node 5 [.list [], .nil, .list []]]], .node 5 [.list [.node 5 [.list [], .nil, .list []], .node 5 [.list [], .nil, .list []]], .node 5 [.list [], .nil, .list []], .list [.node 5 [.list [], .nil, .list []], .node 5 [.list [], .nil, .list []]]]]], .acc),
    (.node 5 [.node 5 [.list [.node 5 [.list [], .nil, .list []], .node 5 [.list [], .nil, .list []]], .node 5 [.list [], .nil, .list []], .list [.node 5 [.list [], .nil, .list []], .node 5 [.list [], .nil, .list []]]], .node 5 [.list [.node 5 [.list [], .nil, .list []], .node 1 [.list [], .nil, .list []]], .node 5 [.list [], .nil, .list []], .list [.node 5 [.list [], .nil, .list []], .node 5 [.list [], .nil, .list []]]], .list [.node 5 [.list [.node 5 [.list [], .nil, .list []], .node 5 [.list [], .nil, .list []]], .node 5 [.list [], .nil, .list []], .list [.node 5 [.list [], .nil, .list []], .node 5 [.list [], .nil, .list []]]], .node 5 [.list [.node 5 [.list [], .nil, .list []], .node 5 [.list [], .nil, .list []]], .node 5 [.list [], .nil, .list []], .list [.node 5 [.list [], .nil, .list []], .node 5 [.list [], .nil, .list []]]]]], .acc),
    (.node 5 [.node 5 [.list [.node 5 [.list [], .nil, .list []], .node 5 [.list [], .nil, .list []]], .node 5 [.list [], .nil, .list []], .list [.node 5 [.list [], .nil, .list []], .node 5 [.list [], .nil, .list []]]], .node 5 [.list [.node 5 [.list [], .nil, .list []], .node 5 [.nil, .nil, .list []]], .node 5 [.list [], .nil, .list []], .list [.node 5 [.list [], .nil, .list []], .node 5 [.list [], .nil, .list []]]], .list [.node 5 [.list [.node 5 [.list [], .nil, .list []], .node 5 [.list [], .nil, .list []]], .node 5 [.list [], .nil, .list []], .list [.node 5 [.list [], .nil, .list []], .node 5 [.list [], .nil, .list []]]], .node 5 [.list [.node 5 [.list [], .nil, .list []], .node 5 [.list [], .nil, .list []]], .node 5 [.list [], .nil, .list []], .list [.node 5 [.list [], .nil, .list []], .node 5 [.list [], .nil, .list []]]]]], .acc),
    (.node 5 [.node 5 [.list [.node 5 [.list [], .nil, .list []], .node 5 [.list [], .nil, .list []]], .node 5 [.list [], .nil, .list []], .list [.node 5 [.list [], .nil, .list []], .node 5 [.list [], .nil, .list []]]], .node 5 [.list [.node 5 [.list [], .nil, .list []], .node 5 [.list [], .nil, .nil]], .node 5 [.list [], .nil, .list []], .list [.node 5 [.list [], .nil, .list []], .node 5 [.list [], .nil, .list []]]], .list [.node 5 [.list [.node 5 [.list [], .nil, .list []], .node 5 [.list [], .nil, .list []]], .node 5 [.list [], .nil, .list []], .list [.node 5 [.list [], .nil, .list []], .node 5 [.list [], .nil, .list []]]], .node 5 [.list [.node 5 [.list [], .nil, .list []], .node 5 [.list [], .nil, .list []]], .node 5 [.list [], .nil, .list []], .list [.node 5 [.list [], .nil, .list []], .node 5 [.list [], .nil, .list []]]]]], .acc),
    (.node 5 [.node 5 [.list [.node 5 [.list [], .nil, .list []], .node 5 [.list [], .nil, .list []]], .node 5 [.list [], .nil, .list []], .list [.node 5 [.list [], .nil, .list []], .node 5 [.list [], .nil, .list []]]], .node 5 [.list [.node 5 [.list [], .nil, .list []], .node 5 [.list [], .nil, .list []]], .nil, .list [.node 5 [.list [], .nil, .list []], .node 5 [.list [], .nil, .list []]]], .list [.node 5 [.list [.node 5 [.list [], .nil, .list []], .node 5 [.list [], .nil, .list []]], .node 5 [.list [], .nil, .list []], .list [.node 5 [.list [], .nil, .list []], .node 5 [.list [], .nil, .list []]]], .node 5 [.list [.node 5 [.list [], .nil, .list []], .node 5 [.list [], .nil, .list []]], .node 5 [.list [], .nil, .list []], .list [.node 5 [.list [], .nil, .list []], .node 5 [.list [], .nil, .list []]]]]], .rej),
    (.node 5 [.node 5 [.list [.node 5 [.list [], .nil, .list []], .node 5 [.list [], .nil, .list []]], .node 5 [.list [], .nil, .list []], .list [.node 5 [.list [], .nil, .list []], .node 5 [.list [], .nil, .list []]]], .node 5 [.list [.node 5 [.list [], .nil, .list []], .node 5 [.list [], .nil, .list []]], .node 1 [.list [], .nil, .list []], .list [.node 5 [.list [], .nil, .list []], .node 5 [.list [], .nil, .list []]]], .list [.node 5 [.list [.node 5 [.list [], .nil, .list []], .node 5 [.list [], .nil, .list []]], .node 5 [.list [], .nil, .list []], .list [.node 5 [.list [], .nil, .list []], .node 5 [.list [], .nil, .list []]]], .node 5 [.list [.node 5 [.list [], .nil, .list []], .node 5 [.list [], .nil, .list []]], .node 5 [.list [], .nil, .list []], .list [.node 5 [.list [], .nil, .list []], .node 5 [.list [], .nil, .list []]]]]], .acc),
    (.node 5 [.node 5 [.list [.node 5 [.list [], .nil, .list []], .node 5 [.list [], .nil, .list []]], .node 5 [.list [], .nil, .list []], .list [.node 5 [.list [], .nil, .list []], .node 5 [.list [], .nil, .list []]]], .node 5 [.list [.node 5 [.list [], .nil, .list []], .node 5 [.list [], .nil, .list []]], .node 5 [.nil, .nil, .list []], .list [.node 5 [.list [], .nil, .list []], .node 5 [.list [], .nil, .list []]]], .list [.node 5 [.list [.node 5 [.list [], .nil, .list []], .node 5 [.list [], .nil, .list []]], .node 5 [.list [], .nil, .list []], .list [.node 5 [.list [], .nil, .list []], .node 5 [.list [], .nil, .list []]]], .node 5 [.list [.node 5 [.list [], .nil, .list []], .node 5 [.list [], .nil, .list []]], .node 5 [.list [], .nil, .list []], .list [.node 5 [.list [], .nil, .list []], .node 5 [.list [], .nil, .list []]]]]], .acc),
    (.node 5 [.node 5 [.list [.node 5 [.list [], .nil, .list []], .node 5 [.list [], .nil, .list []]], .node 5 [.list [], .nil, .list []], .list [.node 5 [.list [], .nil, .list []], .node 5 [.list [], .nil, .list []]]], .node 5 [.list [.node 5 [.list [], .nil, .list []], .node 5 [.list [], .nil, .list []]], .node 5 [.list [], .nil, .nil], .list [.node 5 [.list [], .nil, .list []], .node 5 [.list [], .nil, .list []]]], .list [.node 5 [.list [.node 5 [.list [], .nil, .list []], .node 5 [.list [], .nil, .list []]], .node 5 [.list [], .nil, .list []], .list [.node 5 [.list [], .nil, .list []], .node 5 [.list [], .nil, .list []]]], .node 5 [.list [.node 5 [.list [], .nil, .list []], .node 5 [.list [], .nil, .list []]], .node 5 [.list [], .nil, .list []], .list [.node 5 [.list [], .nil, .list []], .node 5 [.list [], .nil, .list []]]]]], .acc),
    (.node 5 [.node 5 [.list [.node 5 [.list [], .nil, .list []], .node 5 [.list [], .nil, .list []]], .node 5 [.list [], .nil, .list []], .list [.node 5 [.list [], .nil, .list []], .node 5 [.list [], .nil, .list []]]], .node 5 [.list [.node 5 [.list [], .nil, .list []], .node 5 [.list [], .nil, .list []]], .node 5 [.list [], .nil, .list []], .nil], .list [.node 5 [.list [.node 5 [.list [], .nil, .list []], .node 5 [.list [], .nil, .list []]], .node 5 [.list [], .nil, .list []], .list [.node 5 [.list [], .nil, .list []], .node 5 [.list [], .nil, .list []]]], .node 5 [.list [.node 5 [.list [], .nil, .list []], .node 5 [.list [], .nil, .list []]], .node 5 [.list [], .nil, .list []], .list [.node 5 [.list [], .nil, .list []], .node 5 [.list [], .nil, .list []]]]]], .rej),
    (.node 5 [.node 5 [.list [.node 5 [.list [], .nil, .list []], .node 5 [.list [], .nil, .list []]], .node 5 [.list [], .nil, .list []], .list [.node 5 [.list [], .nil, .list []], .node 5 [.list [], .nil, .list []]]], .node 5 [.list [.node 5 [.list [], .nil, .list []], .node 5 [.list [], .nil, .list []]], .node 5 [.list [], .nil, .list []], .list []], .list [.node 5 [.list [.node 5 [.list [], .nil, .list []], .node 5 [.list [], .nil, .list []]], .node 5 [.list [], .nil, .list []], .list [.node 5 [.list [], .nil, .list []], .node 5 [.list [], .nil, .list []]]], .node 5 [.list [.node 5 [.list [], .nil, .list []], .node 5 [.list [], .nil, .list []]], .node 5 [.list [], .nil, .list []], .list [.node 5 [.list [], .nil, .list []], .node 5 [.list [], .nil, .list []]]]]], .acc),
    (.node 5 [.node 5 [.list [.node 5 [.list [], .nil, .list []], .node 5 [.list [], .nil, .list []]], .node 5 [.list [], .nil, .list []], .list [.node 5 [.list [], .nil, .list []], .node 5 [.list [], .nil, .list []]]], .node 5 [.list [.node 5 [.list [], .nil, .list []], .node 5 [.list [], .nil, .list []]], .node 5 [.list [], .nil, .list []], .list [.node 5 [.list [], .nil, .list []], .node 5 [.list [], .nil, .list []], .node 5 [.list [], .nil, .list []]]], .list [.node 5 [.list [.node 5 [.list [], .nil, .list []], .node 5 [.list [], .nil, .list []]], .node 5 [.list [], .nil, .list []], .list [.node 5 [.list [], .nil, .list []], .node 5 [.list [], .nil, .list []]]], .node 5 [.list [.node 5 [.list [], .nil, .list []], .node 5 [.list [], .nil, .list []]], .node 5 [.list [], .nil, .list []], .list [.node 5 [.list [], .nil, .list []], .node 5 [.list [], .nil, .list []]]]]], .acc),
    (.node 5 [.node 5 [.list [.node 5 [.list [], .nil, .list []], .node 5 [.list [], .nil, .list []]], .node 5 [.list [], .nil, .list []], .list [.node 5 [.list [], .nil, .list []], .node 5 [.list [], .nil, .list []]]], .node 5 [.list [.node 5 [.list [], .nil, .list []], .node 5 [.list [], .nil, .list []]], .node 5 [.list [], .nil, .list []], .list [.node 1 [.list [], .nil, .list []], .node 5 [.list [], .nil, .list []]]], .list [.node 5 [.list [.node 5 [.list [], .nil, .list []], .node 5 [.list [], .nil, .list []]], .node 5 [.list [], .nil, .list []], .list [.node 5 [.list [], .nil, .list []], .node 5 [.list [], .nil, .list []]]], .node 5 [.list [.node 5 [.list [], .nil, .list []], .node 5 [.list [], .nil, .list []]], .node 5 [.list [], .nil, .list []], .list [.node 5 [.list [], .nil, .list []], .node 5 [.list [], .nil, .list []]]]]], .acc),
    (.node 5 [.node 5 [.list [.node 5 [.list [], .nil, .list []], .node 5 [.list [], .nil, .list []]], .node 5 [.list [], .nil, .list []], .list [.node 5 [.list [], .nil, .list []], .node 5 [.list [], .nil, .list []]]], .node 5 [.list [.node 5 [.list [], .nil, .list []], .node 5 [.list [], .nil, .list []]], .node 5 [.list [], .nil, .list []], .list [.node 5 [.nil, .nil, .list []], .node 5 [.list [], .nil, .list []]]], .list [.node 5 [.list [.node 5 [.list [], .nil, .list []], .node 5 [.list [], .nil, .list []]], .node 5 [.list [], .nil, .list []], .list [.node 5 [.list [], .nil, .list []], .node 5 [.list [], .nil, .list []]]], .node 5 [.list [.node 5 [.list [], .nil, .list []], .node 5 [.list [], .nil, .list []]], .node 5 [.list [], .nil, .list []], .list [.node 5 [.list [], .nil, .list []], .node 5 [.list [], .nil, .list []]]]]], .acc),
    (.node 5 [.node 5 [.list [.node 5 [.list [], .nil, .list []], .node 5 [.list [], .nil, .list []]], .node 5 [.list [], .nil, .list []], .list [.node 5 [.list [], .nil, .list []], .node 5 [.list [], .nil, .list []]]], .node 5 [.list [.node 5 [.list [], .nil, .list []], .node 5 [.list [], .nil, .list []]], .node 5 [.list [], .nil, .list []], .list [.node 5 [.list [], .nil, .nil], .node 5 [.list [], .nil, .list []]]], .list [.node 5 [.list [.node 5 [.list [], .nil, .list []], .node 5 [.list [], .nil, .list []]], .node 5 [.list [], .nil, .list []], .list [.node 5 [.list [], .nil, .list []], .node 5 [.list [], .nil, .list []]]], .node 5 [.list [.node 5 [.list [], .nil, .list []], .node 5 [.list [], .nil, .list []]], .node 5 [.list [], .nil, .list []], .list [.node 5 [.list [], .nil, .list []], .node 5 [.list [], .nil, .list []]]]]], .acc),
    (.node 5 [.node 5 [.list [.node 5 [.list [], .nil, .list []], .node 5 [.list [], .nil, .list []]], .node 5 [.list [], .nil, .list []], .list [.node 5 [.list [], .nil, .list []], .node 5 [.list [], .nil, .list []]]], .node 5 [.list [.node 5 [.list [], .nil, .list []], .node 5 [.list [], .nil, .list []]], .node 5 [.list [], .nil, .list []], .list [.node 5 [.list [], .nil, .list []], .node 1 [.list [], .nil, .list []]]], .list [.node 5 [.list [.node 5 [.list [], .nil, .list []], .node 5 [.list [], .nil, .list []]], .node 5 [.list [], .nil, .list []], .list [.node 5 [.list [], .nil, .list []], .node 5 [.list [], .nil, .list []]]], .node 5 [.list [.node 5 [.list [], .nil, .list []], .node 5 [.list [], .nil, .list []]], .node 5 [.list [], .nil, .list []], .list [.node 5 [.list [], .nil, .list []], .node 5 [.list [], .nil, .list []]]]]], .acc),
    (.node 5 [.node 5 [.list [.node 5 [.list [], .nil, .list []], .node 5 [.list [], .nil, .list []]], .node 5 [.list [], .nil, .list []], .list [.node 5 [.list [], .nil, .list []], .node 5 [.list [], .nil, .list []]]], .node 5 [.list [.node 5 [.list [], .nil, .list []], .node 5 [.list [], .nil, .list []]], .node 5 [.list [], .nil, .list []], .list [.node 5 [.list [], .nil, .list []], .node 5 [.nil, .nil, .list []]]], .list [.node 5 [.list [.node 5 [.list [], .nil, .list []], .node 5 [.list [], .nil, .list []]], .node 5 [.list [], .nil, .list []], .list [.node 5 [.list [], .nil, .list []], .node 5 [.list [], .nil, .list []]]], .node 5 [.list [.node 5 [.list [], .nil, .list []], .node 5 [.list [], .nil, .list []]], .node 5 [.list [], .nil, .list []], .list [.node 5 [.list [], .nil, .list []], .node 5 [.list [], .nil, .list []]]]]], .acc),
    (.node 5 [.node 5 [.list [.node 5 [.list [], .nil, .list []], .node 5 [.list [], .nil, .list []]], .node 5 [.list [], .nil, .list []], .list [.node 5 [.list [], .nil, .list []], .node 5 [.list [], .nil, .list []]]], .node 5 [.list [.node 5 [.list [], .nil, .list []], .node 5 [.list [], .nil, .list []]], .node 5 [.list [], .nil, .list []], .list [.node 5 [.list [], .nil, .list []], .node 5 [.list [], .nil, .nil]]], .list [.node 5 [.list [.node 5 [.list [], .nil, .list []], .node 5 [.list [], .nil, .list []]], .node 5 [.list [], .nil, .list []], .list [.node 5 [.list [], .nil, .list []], .node 5 [.list [], .nil, .list []]]], .node 5 [.list [.node 5 [.list [], .nil, .list []], .node 5 [.list [], .nil, .list []]], .node 5 [.list [], .nil, .list []], .list [.node 5 [.list [], .nil, .list []], .node 5 [.list [], .nil, .list []]]]]], .acc),
    (.node 5 [.node 5 [.list [.node 5 [.list [], .nil, .list []], .node 5 [.list [], .nil, .list []]], .node 5 [.list [], .nil, .list []], .list [.node 5 [.list [], .nil, .list []], .node 5 [.list [], .nil, .list []]]], .node 5 [.list [.node 5 [.list [], .nil, .list []], .node 5 [.list [], .nil, .list []]], .node 5 [.list [], .nil, .list []], .list [.node 5 [.list [], .nil, .list []], .node 5 [.list [], .nil, .list []]]], .nil], .rej),
    (.node 5 [.node 5 [.list [.node 5 [.list [], .nil, .list []], .node 5 [.list [], .nil, .list []]], .node 5 [.list [], .nil, .list []], .list [.node 5 [.list [], .nil, .list []], .node 5 [.list [], .nil, .list []]]], .node 5 [.list [.node 5 [.list [], .nil, .list []], .node 5 [.list [], .nil, .list []]], .node 5 [.list [], .nil, .list []], .list [.node 5 [.list [], .nil, .list []], .node 5 [.list [], .nil, .list []]]], .list []], .acc),
    (.node 5 [.node 5 [.list [.node 5 [.list [], .nil, .list []], .node 5 [.list [], .nil, .list []]], .node 5 [.list [], .nil, .list []], .list [.node 5 [.list [], .nil, .list []], .node 5 [.list [], .nil, .list []]]], .node 5 [.list [.node 5 [.list [], .nil, .list []], .node 5 [.list [], .nil, .list []]], .node 5 [.list [], .nil, .list []], .list [.node 5 [.list [], .nil, .list []], .node 5 [.list [], .nil, .list []]]], .list [.node 5 [.list [.node 5 [.list [], .nil, .list []], .node 5 [.list [], .nil, .list []]], .node 5 [.list [], .nil, .list []], .list [.node 5 [.list [], .nil, .list []], .node 5 [.list [], .nil, .list []]]], .node 5 [.list [.node 5 [.list [], .nil, .list []], .node 5 [.list [], .nil, .list []]], .node 5 [.list [], .nil, .list []], .list [.node 5 [.list [], .nil, .list []], .node 5 [.list [], .nil, .list []]]], .node 5 [.list [.node 5 [.list [], .nil, .list []], .node 5 [.list [], .nil, .list []]], .node 5 [.list [], .nil, .list []], .list [.node 5 [.list [], .nil, .list []], .node 5 [.list [], .nil, .list []]]]]], .rej),
    (.node 5 [.node 5 [.list [.node 5 [.list [], .nil, .list []], .node 5 [.list [], .nil, .list []]], .node 5 [.list [], .nil, .list []], .list [.node 5 [.list [], .nil, .list []], .node 5 [.list [], .nil, .list []]]], .node 5 [.list [.node 5 [.list [], .nil, .list []], .node 5 [.list [], .nil, .list []]], .node 5 [.list [], .nil, .list []], .list [.node 5 [.list [], .nil, .list []], .node 5 [.list [], .nil, .list []]]], .list [.node 1 [.list [.node 5 [.list [], .nil, .list []], .node 5 [.list [], .nil, .list []]], .node 5 [.list [], .nil, .list []], .list [.node 5 [.list [], .nil, .list []], .node 5 [.list [], .nil, .list []]]], .node 5 [.list [.node 5 [.list [], .nil, .list []], .node 5 [.list [], .nil, .list []]], .node 5 [.list [], .nil, .list []], .list [.node 5 [.list [], .nil, .list []], .node 5 [.list [], .nil, .list []]]]]], .rej),
    (.node 5 [.node 5 [.list [.node 5 [.list [], .nil, .list []], .node 5 [.list [], .nil, .list []]], .node 5 [.list [], .nil, .list []], .list [.node 5 [.list [], .nil, .list []], .node 5 [.list [], .nil, .list []]]], .node 5 [.list [.node 5 [.list [], .nil, .list []], .node 5 [.list [], .nil, .list []]], .node 5 [.list [], .nil, .list []], .list [.node 5 [.list [], .nil, .list []], .node 5 [.list [], .nil, .list []]]], .list [.node 5 [.nil, .node 5 [.list [], .nil, .list []], .list [.node 5 [.list [], .nil, .list []], .node 5 [.list [], .nil, .list []]]], .node 5 [.list [.node 5 [.list [], .nil, .list []], .node 5 [.list [], .nil, .list []]], .node 5 [.list [], .nil, .list []], .list [.node 5 [.list [], .nil, .list []], .node 5 [.list [], .nil, .list []]]]]], .rej),
    (.node 5 [.node 5 [.list [.node 5 [.list [], .nil, .list []], .node 5 [.list [], .nil, .list []]], .node 5 [.list [], .nil, .list []], .list [.node 5 [.list [], .nil, .list []], .node 5 [.list [], .nil, .list []]]], .node 5 [.list [.node 5 [.list [], .nil, .list []], .node 5 [.list [], .nil, .list []]], .node 5 [.list [], .nil, .list []], .list [.node 5 [.list [], .nil, .list []], .node 5 [.list [], .nil, .list []]]], .list [.node 5 [.list [], .node 5 [.list [], .nil, .list []], .list [.node 5 [.list [], .nil, .list []], .node 5 [.list [], .nil, .list []]]], .node 5 [.list [.node 5 [.list [], .nil, .list []], .node 5 [.list [], .nil, .list []]], .node 5 [.list [], .nil, .list []], .list [.node 5 [.list [], .nil, .list []], .node 5 [.list [], .nil, .list []]]]]], .acc),
    (.node 5 [.node 5 [.list [.node 5 [.list [], .nil, .list []], .node 5 [.list [], .nil, .list []]], .node 5 [.list [], .nil, .list []], .list [.node 5 [.list [], .nil, .list []], .node 5 [.list [], .nil, .list []]]], .node 5 [.list [.node 5 [.list [], .nil, .list []], .node 5 [.list [], .nil, .list []]], .node 5 [.list [], .nil, .list []], .list [.node 5 [.list [], .nil, .list []], .node 5 [.list [], .nil, .list []]]], .list [.node 5 [.list [.node 5 [.list [], .nil, .list []], .node 5 [.list [], .nil, .list []], .node 5 [.list [], .nil, .list []]], .node 5 [.list [], .nil, .list []], .list [.node 5 [.list [], .nil, .list []], .node 5 [.list [], .nil, .list []]]], .node 5 [.list [.node 5 [.list [], .nil, .list []], .node 5 [.list [], .nil, .list []]], .node 5 [.list [], .nil, .list []], .list [.node 5 [.list [], .nil, .list []], .node 5 [.list [], .nil, .list []]]]]], .rej),
    (.node 5 [.node 5 [.list [.node 5 [.list [], .nil, .list []], .node 5 [.list [], .nil, .list []]], .node 5 [.list [], .nil, .list []], .list [.node 5 [.list [], .nil, .list []], .node 5 [.list [], .nil, .list []]]], .node 5 [.list [.node 5 [.list [], .nil, .list []], .node 5 [.list [], .nil, .list []]], .node 5 [.list [], .nil, .list []], .list [.node 5 [.list [], .nil, .list []], .node 5 [.list [], .nil, .list []]]], .list [.node 5 [.list [.node 1 [.list [], .nil, .list []], .node 5 [.list [], .nil, .list []]], .node 5 [.list [], .nil, .list []], .list [.node 5 [.list [], .nil, .list []], .node 5 [.list [], .nil, .list []]]], .node 5 [.list [.node 5 [.list [], .nil, .list []], .node 5 [.list [], .nil, .list []]], .node 5 [.list [], .nil, .list []], .list [.node 5 [.list [], .nil, .list []], .node 5 [.list [], .nil, .list []]]]]], .acc),
    (.node 5 [.node 5 [.list [.node 5 [.list [], .nil, .list []], .node 5 [.list [], .nil, .list []]], .node 5 [.list [], .nil, .list []], .list [.node 5 [.list [], .nil, .list []], .node 5 [.list [], .nil, .list []]]], .node 5 [.list [.node 5 [.list [], .nil, .list []], .node 5 [.list [], .nil, .list []]], .node 5 [.list [], .nil, .list []], .list [.node 5 [.list [], .nil, .list []], .node 5 [.list [], .nil, .list []]]], .list [.node 5 [.list [.node 5 [.nil, .nil, .list []], .node 5 [.list [], .nil, .list []]], .node 5 [.list [], .nil, .list []], .list [.node 5 [.list [], .nil, .list []], .node 5 [.list [], .nil, .list []]]], .node 5 [.list [.node 5 [.list [], .nil, .list []], .node 5 [.list [], .nil, .list []]], .node 5 [.list [], .nil, .list []], .list [.node 5 [.list [], .nil, .list []], .node 5 [.list [], .nil, .list []]]]]], .acc),
    (.node 5 [.node 5 [.list [.node 5 [.list [], .nil, .list []], .node 5 [.list [], .nil, .list []]], .node 5 [.list [], .nil, .list []], .list [.node 5 [.list [], .nil, .list []], .node 5 [.list [], .nil, .list []]]], .node 5 [.list [.node 5 [.list [], .nil, .list []], .node 5 [.list [], .nil, .list []]], .node 5 [.list [], .nil, .list []], .list [.node 5 [.list [], .nil, .list []], .node 5 [.list [], .nil, .list []]]], .list [.node 5 [.list [.node 5 [.list [], .nil, .nil], .node 5 [.list [], .nil, .list []]], .node 5 [.list [], .nil, .list []], .list [.node 5 [.list [], .nil, .list []], .node 5 [.list [], .nil, .list []]]], .node 5 [.list [.node 5 [.list [], .nil, .list []], .node 5 [.list [], .nil, .list []]], .node 5 [.list [], .nil, .list []], .list [.node 5 [.list [], .nil, .list []], .node 5 [.list [], .nil, .list []]]]]], .acc),
    (.node 5 [.node 5 [.list [.node 5 [.list [], .nil, .list []], .node 5 [.list [], .nil, .list []]], .node 5 [.list [], .nil, .list []], .list [.node 5 [.list [], .nil, .list []], .node 5 [.list [], .nil, .list []]]], .node 5 [.list [.node 5 [.list [], .nil, .list []], .node 5 [.list [], .nil, .list []]], .node 5 [.list [], .nil, .list []], .list [.node 5 [.list [], .nil, .list []], .node 5 [.list [], .nil, .list []]]], .list [.node 5 [.list [.node 5 [.list [], .nil, .list []], .node 1 [.list [], .nil, .list []]], .node 5 [.list [], .nil, .list []], .list [.node 5 [.list [], .nil, .list []], .node 5 [.list [], .nil, .list []]]], .node 5 [.list [.node 5 [.list [], .nil, .list []], .node 5 [.list [], .nil, .list []]], .node 5 [.list [], .nil, .list []], .list [.node 5 [.list [], .nil, .list []], .node 5 [.list [], .nil, .list []]]]]], .acc),
    (.node 5 [.node 5 [.list [.node 5 [.list [], .nil, .list []], .node 5 [.list [], .nil, .list []]], .node 5 [.list [], .nil, .list []], .list [.node 5 [.list [], .nil, .list []], .node 5 [.list [], .nil, .list []]]], .node 5 [.list [.node 5 [.list [], .nil, .list []], .node 5 [.list [], .nil, .list []]], .node 5 [.list [], .nil, .list []], .list [.node 5 [.list [], .nil, .list []], .node 5 [.list [], .nil, .list []]]], .list [.node 5 [.list [.node 5 [.list [], .nil, .list []], .node 5 [.nil, .nil, .list []]], .node 5 [.list [], .nil, .list []], .list [.node 5 [.list [], .nil, .list []], .node 5 [.list [], .nil, .list []]]], .node 5 [.list [.node 5 [.list [], .nil, .list []], .node 5 [.list [], .nil, .list []]], .node 5 [.list [], .nil, .list []], .list [.node 5 [.list [], .nil, .list []], .node 5 [.list [], .nil, .list []]]]]], .acc),
    (.node 5 [.node 5 [.list [.node 5 [.list [], .nil, .list []], .node 5 [.list [], .nil, .list []]], .node 5 [.list [], .nil, .list []], .list [.node 5 [.list [], .nil, .list []], .node 5 [.list [], .nil, .list []]]], .node 5 [.list [.node 5 [.list [], .nil, .list []], .node 5 [.list [], .nil, .list []]], .node 5 [.list [], .nil, .list []], .list [.node 5 [.list [], .nil, .list []], .node 5 [.list [], .nil, .list []]]], .list [.node 5 [.list [.node 5 [.list [], .nil, .list []], .node 5 [.list [], .nil, .nil]], .node 5 [.list [], .nil, .list []], .list [.node 5 [.list [], .nil, .list []], .node 5 [.list [], .nil, .list []]]], .node 5 [.list [.node 5 [.list [], .nil, .list []], .node 5 [.list [], .nil, .list []]], .node 5 [.list [], .nil, .list []], .list [.node 5 [.list [], .nil, .list []], .node 5 [.list [], .nil, .list []]]]]], .acc),
    (.node 5 [.node 5 [.list [.node 5 [.list [], .nil, .list []], .node 5 [.list [], .nil, .list []]], .node 5 [.list [], .nil, .list []], .list [.node 5 [.list [], .nil, .list []], .node 5 [.list [], .nil, .list []]]], .node 5 [.list [.node 5 [.list [], .nil, .list []], .node 5 [.list [], .nil, .list []]], .node 5 [.list [], .nil, .list []], .list [.node 5 [.list [], .nil, .list []], .node 5 [.list [], .nil, .list []]]], .list [.node 5 [.list [.node 5 [.list [], .nil, .list []], .node 5 [.list [], .nil, .list []]], .nil, .list [.node 5 [.list [], .nil, .list []], .node 5 [.list [], .nil, .list []]]], .node 5 [.list [.node 5 [.list [], .nil, .list []], .node 5 [.list [], .nil, .list []]], .node 5 [.list [], .nil, .list []], .list [.node 5 [.list [], .nil, .list []], .node 5 [.list [], .nil, .list []]]]]], .rej),
    (.node 5 [.node 5 [.list [.node 5 [.list [], .nil, .list []], .node 5 [.list [], .nil, .list []]], .node 5 [.list [], .nil, .list []], .list [.node 5 [.list [], .nil, .list []], .node 5 [.list [], .nil, .list []]]], .node 5 [.list [.node 5 [.list [], .nil, .list []], .node 5 [.list [], .nil, .list []]], .node 5 [.list [], .nil, .list []], .list [.node 5 [.list [], .nil, .list []], .node 5 [.list [], .nil, .list []]]], .list [.node 5 [.list [.node 5 [.list [], .nil, .list []], .node 5 [.list [], .nil, .list []]], .node 1 [.list [], .nil, .list []], .list [.node 5 [.list [], .nil, .list []], .node 5 [.list [], .nil, .list []]]], .node 5 [.list [.node 5 [.list [], .nil, .list []], .node 5 [.list [], .nil, .list []]], .node 5 [.list [], .nil, .list []], .list [.node 5 [.list [], .nil, .list []], .node 5 [.list [], .nil, .list []]]]]], .acc),
    (.node 5 [.node 5 [.list [.node 5 [.list [], .nil, .list []], .node 5 [.list [], .nil, .list []]], .node 5 [.list [], .nil, .list []], .list [.node 5 [.list [], .nil, .list []], .node 5 [.list [], .nil, .list []]]], .node 5 [.list [.node 5 [.list [], .nil, .list []], .node 5 [.list [], .nil, .list []]], .node 5 [.list [], .nil, .list []], .list [.node 5 [.list [], .nil, .list []], .node 5 [.list [], .nil, .list []]]], .list [.node 5 [.list [.node 5 [.list [], .nil, .list []], .node 5 [.list [], .nil, .list []]], .node 5 [.nil, .nil, .list []], .list [.node 5 [.list [], .nil, .list []], .node 5 [.list [], .nil, .list []]]], .node 5 [.list [.node 5 [.list [], .nil, .list []], .node 5 [.list [], .nil, .list []]], .node 5 [.list [], .nil, .list []], .list [.node 5 [.list [], .nil, .list []], .node 5 [.list [], .nil, .list []]]]]], .acc),
    (.node 5 [.node 5 [.list [.node 5 [.list [], .nil, .list []], .node 5 [.list [], .nil, .list []]], .node 5 [.list [], .nil, .list []], .list [.node 5 [.list [], .nil, .list []], .node 5 [.list [], .nil, .list []]]], .node 5 [.list [.node 5 [.list [], .nil, .list []], .node 5 [.list [], .nil, .list []]], .node 5 [.list [], .nil, .list []], .list [.node 5 [.list [], .nil, .list []], .node 5 [.list [], .nil, .list []]]], .list [.node 5 [.list [.node 5 [.list [], .nil, .list []], .node 5 [.list [], .nil, .list []]], .node 5 [.list [], .nil, .nil], .list [.node 5 [.list [], .nil, .list []], .node 5 [.list [], .nil, .list []]]], .node 5 [.list [.node 5 [.list [], .nil, .list []], .node 5 [.list [], .nil, .list []]], .node 5 [.list [], .nil, .list []], .list [.node 5 [.list [], .nil, .list []], .node 5 [.list [], .nil, .list []]]]]], .acc),
    (.node 5 [.node 5 [.list [.node 5 [.list [], .nil, .list []], .node 5 [.list [], .nil, .list []]], .node 5 [.list [], .nil, .list []], .list [.node 5 [.list [], .nil, .list []], .node 5 [.list [], .nil, .list []]]], .node 5 [.list [.node 5 [.list [], .nil, .list []], .node 5 [.list [], .nil, .list []]], .node 5 [.list [], .nil, .list []], .list [.node 5 [.list [], .nil, .list []], .node 5 [.list [], .nil, .list []]]], .list [.node 5 [.list [.node 5 [.list [], .nil, .list []], .node 5 [.list [], .nil, .list []]], .node 5 [.list [], .nil, .list []], .nil], .node 5 [.list [.node 5 [.list [], .nil, .list []], .node 5 [.list [], .nil, .list []]], .node 5 [.list [], .nil, .list []], .list [.node 5 [.list [], .nil, .list []], .node 5 [.list [], .nil, .list []]]]]], .rej),
    (.node 5 [.node 5 [.list [.node 5 [.list [], .nil, .list []], .node 5 [.list [], .nil, .list []]], .node 5 [.list [], .nil, .list []], .list [.node 5 [.list [], .nil, .list []], .node 5 [.list [], .nil, .list []]]], .node 5 [.list [.node 5 [.list [], .nil, .list []], .node 5 [.list [], .nil, .list []]], .node 5 [.list [], .nil, .list []], .list [.node 5 [.list [], .nil, .list []], .node 5 [.list [], .nil, .list []]]], .list [.node 5 [.list [.node 5 [.list [], .nil, .list []], .node 5 [.list [], .nil, .list []]], .node 5 [.list [], .nil, .list []], .list []], .node 5 [.list [.node 5 [.list [], .nil, .list []], .node 5 [.list [], .nil, .list []]], .node 5 [.list [], .nil, .list []], .list [.node 5 [.list [], .nil, .list []], .node 5 [.list [], .nil, .list []]]]]], .acc),
    (.node 5 [.node 5 [.list [.node 5 [.list [], .nil, .list []], .node 5 [.list [], .nil, .list []]], .node 5 [.list [], .nil, .list []], .list [.node 5 [.list [], .nil, .list []], .node 5 [.list [], .nil, .list []]]], .node 5 [.list [.node 5 [.list [], .nil, .list []], .node 5 [.list [], .nil, .list []]], .node 5 [.list [], .nil, .list []], .list [.node 5 [.list [], .nil, .list []], .node 5 [.list [], .nil, .list []]]], .list [.node 5 [.list [.node 5 [.list [], .nil, .list []], .node 5 [.list [], .nil, .list []]], .node 5 [.list [], .nil, .list []], .list [.node 5 [.list [], .nil, .list []], .node 5 [.list [], .nil, .list []], .node 5 [.list [], .nil, .list []]]], .node 5 [.list [.node 5 [.list [], .nil, .list []], .node 5 [.list [], .nil, .list []]], .node 5 [.list [], .nil, .list []], .list [.node 5 [.list [], .nil, .list []], .node 5 [.list [], .nil, .list []]]]]], .acc),
    (.node 5 [.node 5 [.list [.node 5 [.list [], .nil, .list []], .node 5 [.list [], .nil, .list []]], .node 5 [.list [], .nil, .list []], .list [.node 5 [.list [], .nil, .list []], .node 5 [.list [], .nil, .list []]]], .node 5 [.list [.node 5 [.list [], .nil, .list []], .node 5 [.list [], .nil, .list []]], .node 5 [.list [], .nil, .list []], .list [.node 5 [.list [], .nil, .list []], .node 5 [.list [], .nil, .list []]]], .list [.node 5 [.list [.node 5 [.list [], .nil, .list []], .node 5 [.list [], .nil, .list []]], .node 5 [.list [], .nil, .list []], .list [.node 1 [.list [], .nil, .list []], .node 5 [.list [], .nil, .list []]]], .node 5 [.list [.node 5 [.list [], .nil, .list []], .node 5 [.list [], .nil, .list []]], .node 5 [.list [], .nil, .list []], .list [.node 5 [.list [], .nil, .list []], .node 5 [.list [], .nil, .list []]]]]], .acc),
    (.node 5 [.node 5 [.list [.node 5 [.list [], .nil, .list []], .node 5 [.list [], .nil, .list []]], .node 5 [.list [], .nil, .list []], .list [.node 5 [.list [], .nil, .list []], .node 5 [.list [], .nil, .list []]]], .node 5 [.list [.node 5 [.list [], .nil, .list []], .node 5 [.list [], .nil, .list []]], .node 5 [.list [], .nil, .list []], .list [.node 5 [.list [], .nil, .list []], .node 5 [.list [], .nil, .list []]]], .list [.node 5 [.list [.node 5 [.list [], .nil, .list []], .node 5 [.list [], .nil, .list []]], .node 5 [.list [], .nil, .list []], .list [.node 5 [.nil, .nil, .list []], .node 5 [.list [], .nil, .list []]]], .node 5 [.list [.node 5 [.list [], .nil, .list []], .node 5 [.list [], .nil, .list []]], .node 5 [.list [], .nil, .list []], .list [.node 5 [.list [], .nil, .list []], .node 5 [.list [], .nil, .list []]]]]], .acc),
    (.node 5 [.node 5 [.list [.node 5 [.list [], .nil, .list []], .node 5 [.list [], .nil, .list []]], .node 5 [.list [], .nil, .list []], .list [.node 5 [.list [], .nil, .list []], .node 5 [.list [], .nil, .list []]]], .node 5 [.list [.node 5 [.list [], .nil, .list []], .node 5 [.list [], .nil, .list []]], .node 5 [.list [], .nil, .list []], .list [.node 5 [.list [], .nil, .list []], .node 5 [.list [], .nil, .list []]]], .list [.node 5 [.list [.node 5 [.list [], .nil, .list []], .node 5 [.list [], .nil, .list []]], .node 5 [.list [], .nil, .list []], .list [.node 5 [.list [], .nil, .nil], .node 5 [.list [], .nil, .list []]]], .node 5 [.list [.node 5 [.list [], .nil, .list []], .node 5 [.list [], .nil, .list []]], .node 5 [.list [], .nil, .list []], .list [.node 5 [.list [], .nil, .list []], .node 5 [.list [], .nil, .list []]]]]], .acc),
    (.node 5 [.node 5 [.list [.node 5 [.list [], .nil, .list []], .node 5 [.list [], .nil, .list []]], .node 5 [.list [], .nil, .list []], .list [.node 5 [.list [], .nil, .list []], .node 5 [.list [], .nil, .list []]]], .node 5 [.list [.node 5 [.list [], .nil, .list []], .node 5 [.list [], .nil, .list []]], .node 5 [.list [], .nil, .list []], .list [.node 5 [.list [], .nil, .list []], .node 5 [.list [], .nil, .list []]]], .list [.node 5 [.list [.node 5 [.list [], .nil, .list []], .node 5 [.list [], .nil, .list []]], .node 5 [.list [], .nil, .list []], .list [.node 5 [.list [], .nil, .list []], .node 1 [.list [], .nil, .list []]]], .node 5 [.list [.node 5 [.list [], .nil, .list []], .node 5 [.list [], .nil, .list []]], .node 5 [.list [], .nil, .list []], .list [.node 5 [.list [], .nil, .list []], .node 5 [.list [], .nil, .list []]]]]], .acc),
    (.node 5 [.node 5 [.list [.node 5 [.list [], .nil, .list []], .node 5 [.list [], .nil, .list []]], .node 5 [.list [], .nil, .list []], .list [.node 5 [.list [], .nil, .list []], .node 5 [.list [], .nil, .list []]]], .node 5 [.list [.node 5 [.list [], .nil, .list []], .node 5 [.list [], .nil, .list []]], .node 5 [.list [], .nil, .list []], .list [.node 5 [.list [], .nil, .list []], .node 5 [.list [], .nil, .list []]]], .list [.node 5 [.list [.node 5 [.list [], .nil, .list []], .node 5 [.list [], .nil, .list []]], .node 5 [.list [], .nil, .list []], .list [.node 5 [.list [], .nil, .list []], .node 5 [.nil, .nil, .list []]]], .node 5 [.list [.node 5 [.list [], .nil, .list []], .node 5 [.list [], .nil, .list []]], .node 5 [.list [], .nil, .list []], .list [.node 5 [.list [], .nil, .list []], .node 5 [.list [], .nil, .list []]]]]], .acc),
    (.node 5 [.node 5 [.list [.node 5 [.list [], .nil, .list []], .node 5 [.list [], .nil, .list []]], .node 5 [.list [], .nil, .list []], .list [.node 5 [.list [], .nil, .list []], .node 5 [.list [], .nil, .list []]]], .node 5 [.list [.node 5 [.list [], .nil, .list []], .node 5 [.list [], .nil, .list []]], .node 5 [.list [], .nil, .list []], .list [.node 5 [.list [], .nil, .list []], .node 5 [.list [], .nil, .list []]]], .list [.node 5 [.list [.node 5 [.list [], .nil, .list []], .node 5 [.list [], .nil, .list []]], .node 5 [.list [], .nil, .list []], .list [.node 5 [.list [], .nil, .list []], .node 5 [.list [], .nil, .nil]]], .node 5 [.list [.node 5 [.list [], .nil, .list []], .node 5 [.list [], .nil, .list []]], .node 5 [.list [], .nil, .list []], .list [.node 5 [.list [], .nil, .list []], .node 5 [.list [], .nil, .list []]]]]], .acc),
    (.node 5 [.node 5 [.list [.node 5 [.list [], .nil, .list []], .node 5 [.list [], .nil, .list []]], .node 5 [.list [], .nil, .list []], .list [.node 5 [.list [], .nil, .list []], .node 5 [.list [], .nil, .list []]]], .node 5 [.list [.node 5 [.list [], .nil, .list []], .node 5 [.list [], .nil, .list []]], .node 5 [.list [], .nil, .list []], .list [.node 5 [.list [], .nil, .list []], .node 5 [.list [], .nil, .list []]]], .list [.node 5 [.list [.node 5 [.list [], .nil, .list []], .node 5 [.list [], .nil, .list []]], .node 5 [.list [], .nil, .list []], .list [.node 5 [.list [], .nil, .list []], .node 5 [.list [], .nil, .list []]]], .node 1 [.list [.node 5 [.list [], .nil, .list []], .node 5 [.list [], .nil, .list []]], .node 5 [.list [], .nil, .list []], .list [.node 5 [.list [], .nil, .list []], .node 5 [.list [], .nil, .list []]]]]], .rej),
    (.node 5 [.node 5 [.list [.node 5 [.list [], .nil, .list []], .node 5 [.list [], .nil, .list []]], .node 5 [.list [], .nil, .list []], .list [.node 5 [.list [], .nil, .list []], .node 5 [.list [], .nil, .list []]]], .node 5 [.list [.node 5 [.list [], .nil, .list []], .node 5 [.list [], .nil, .list []]], .node 5 [.list [], .nil, .list []], .list [.node 5 [.list [], .nil, .list []], .node 5 [.list [], .nil, .list []]]], .list [.node 5 [.list [.node 5 [.list [], .nil, .list []], .node 5 [.list [], .nil, .list []]], .node 5 [.list [], .nil, .list []], .list [.node 5 [.list [], .nil, .list []], .node 5 [.list [], .nil, .list []]]], .node 5 [.nil, .node 5 [.list [], .nil, .list []], .list [.node 5 [.list [], .nil, .list []], .node 5 [.list [], .nil, .list []]]]]], .rej),
    (.node 5 [.node 5 [.list [.node 5 [.list [], .nil, .list []], .node 5 [.list [], .nil, .list []]], .node 5 [.list [], .nil, .list []], .list [.node 5 [.list [], .nil, .list []], .node 5 [.list [], .nil, .list []]]], .node 5 [.list [.node 5 [.list [], .nil, .list []], .node 5 [.list [], .nil, .list []]], .node 5 [.list [], .nil, .list []], .list [.node 5 [.list [], .nil, .list []], .node 5 [.list [], .nil, .list []]]], .list [.node 5 [.list [.node 5 [.list [], .nil, .list []], .node 5 [.list [], .nil, .list []]], .node 5 [.list [], .nil, .list []], .list [.node 5 [.list [], .nil, .list []], .node 5 [.list [], .nil, .list []]]], .node 5 [.list [], .node 5 [.list [], .nil, .list []], .list [.node 5 [.list [], .nil, .list []], .node 5 [.list [], .nil, .list []]]]]], .acc),
    (.node 5 [.node 5 [.list [.node 5 [.list [], .nil, .list []], .node 5 [.list [], .nil, .list []]], .node 5 [.list [], .nil, .list []], .list [.node 5 [.list [], .nil, .list []], .node 5 [.list [], .nil, .list []]]], .node 5 [.list [.node 5 [.list [], .nil, .list []], .node 5 [.list [], .nil, .list []]], .node 5 [.list [], .nil, .list []], .list [.node 5 [.list [], .nil, .list []], .node 5 [.list [], .nil, .list []]]], .list [.node 5 [.list [.node 5 [.list [], .nil, .list []], .node 5 [.list [], .nil, .list []]], .node 5 [.list [], .nil, .list []], .list [.node 5 [.list [], .nil, .list []], .node 5 [.list [], .nil, .list []]]], .node 5 [.list [.node 5 [.list [], .nil, .list []], .node 5 [.list [], .nil, .list []], .node 5 [.list [], .nil, .list []]], .node 5 [.list [], .nil, .list []], .list [.node 5 [.list [], .nil, .list []], .node 5 [.list [], .nil, .list []]]]]], .rej),
    (.node 5 [.node 5 [.list [.node 5 [.list [], .nil, .list []], .node 5 [.list [], .nil, .list []]], .node 5 [.list [], .nil, .list []], .list [.node 5 [.list [], .nil, .list []], .node 5 [.list [], .nil, .list []]]], .node 5 [.list [.node 5 [.list [], .nil, .list []], .node 5 [.list [], .nil, .list []]], .node 5 [.list [], .nil, .list []], .list [.node 5 [.list [], .nil, .list []], .node 5 [.list [], .nil, .list []]]], .list [.node 5 [.list [.node 5 [.list [], .nil, .list []], .node 5 [.list [], .nil, .list []]], .node 5 [.list [], .nil, .list []], .list [.node 5 [.list [], .nil, .list []], .node 5 [.list [], .nil, .list []]]], .node 5 [.list [.node 1 [.list [], .nil, .list []], .node 5 [.list [], .nil, .list []]], .node 5 [.list [], .nil, .list []], .list [.node 5 [.list [], .nil, .list []], .node 5 [.list [], .nil, .list []]]]]], .acc),
    (.node 5 [.node 5 [.list [.node 5 [.list [], .nil, .list []], .node 5 [.list [], .nil, .list []]], .node 5 [.list [], .nil, .list []], .list [.node 5 [.list [], .nil, .list []], .node 5 [.list [], .nil, .list []]]], .node 5 [.list [.node 5 [.list [], .nil, .list []], .node 5 [.list [], .nil, .list []]], .node 5 [.list [], .nil, .list []], .list [.node 5 [.list [], .nil, .list []], .node 5 [.list [], .nil, .list []]]], .list [.node 5 [.list [.node 5 [.list [], .nil, .list []], .node 5 [.list [], .nil, .list []]], .node 5 [.list [], .nil, .list []], .list [.node 5 [.list [], .nil, .list []], .node 5 [.list [], .nil, .list []]]], .node 5 [.list [.node 5 [.nil, .nil, .list []], .node 5 [.list [], .nil, .list []]], .node 5 [.list [], .nil, .list []], .list [.node 5 [.list [], .nil, .list []], .node 5 [.list [], .nil, .list []]]]]], .acc),
    (.node 5 [.node 5 [.list [.node 5 [.list [], .nil, .list []], .node 5 [.list [], .nil, .list []]], .node 5 [.list [], .nil, .list []], .list [.node 5 [.list [], .nil, .list []], .node 5 [.list [], .nil, .list []]]], .node 5 [.list [.node 5 [.list [], .nil, .list []], .node 5 [.list [], .nil, .list []]], .node 5 [.list [], .nil, .list []], .list [.node 5 [.list [], .nil, .list []], .node 5 [.list [], .nil, .list []]]], .list [.node 5 [.list [.node 5 [.list [], .nil, .list []], .node 5 [.list [], .nil, .list []]], .node 5 [.list [], .nil, .list []], .list [.node 5 [.list [], .nil, .list []], .node 5 [.list [], .nil, .list []]]], .node 5 [.list [.node 5 [.list [], .nil, .nil], .node 5 [.list [], .nil, .list []]], .node 5 [.list [], .nil, .list []], .list [.node 5 [.list [], .nil, .list []], .node 5 [.list [], .nil, .list []]]]]], .acc),
    (.node 5 [.node 5 [.list [.node 5 [.list [], .nil, .list []], .node 5 [.list [], .nil, .list []]], .node 5 [.list [], .nil, .list []], .list [.node 5 [.list [], .nil, .list []], .node 5 [.list [], .nil, .list []]]], .node 5 [.list [.node 5 [.list [], .nil, .list []], .node 5 [.list [], .nil, .list []]], .node 5 [.list [], .nil, .list []], .list [.node 5 [.list [], .nil, .list []], .node 5 [.list [], .nil, .list []]]], .list [.node 5 [.list [.node 5 [.list [], .nil, .list []], .node 5 [.list [], .nil, .list []]], .node 5 [.list [], .nil, .list []], .list [.node 5 [.list [], .nil, .list []], .node 5 [.list [], .nil, .list []]]], .node 5 [.list [.node 5 [.list [], .nil, .list []], .node 1 [.list [], .nil, .list []]], .node 5 [.list [], .nil, .list []], .list [.node 5 [.list [], .nil, .list []], .node 5 [.list [], .nil, .list []]]]]], .acc),
    (.node 5 [.node 5 [.list [.node 5 [.list [], .nil, .list []], .node 5 [.list [], .nil, .list []]], .node 5 [.list [], .nil, .list []], .list [.node 5 [.list [], .nil, .list []], .node 5 [.list [], .nil, .list []]]], .node 5 [.list [.node 5 [.list [], .nil, .list []], .node 5 [.list [], .nil, .list []]], .node 5 [.list [], .nil, .list []], .list [.node 5 [.list [], .nil, .list []], .node 5 [.list [], .nil, .list []]]], .list [.node 5 [.list [.node 5 [.list [], .nil, .list []], .node 5 [.list [], .nil, .list []]], .node 5 [.list [], .nil, .list []], .list [.node 5 [.list [], .nil, .list []], .node 5 [.list [], .nil, .list []]]], .node 5 [.list [.node 5 [.list [], .nil, .list []], .node 5 [.nil, .nil, .list []]], .node 5 [.list [], .nil, .list []], .list [.node 5 [.list [], .nil, .list []], .node 5 [.list [], .nil, .list []]]]]], .acc),
    (.node 5 [.node 5 [.list [.node 5 [.list [], .nil, .list []], .node 5 [.list [], .nil, .list []]], .node 5 [.list [], .nil, .list []], .list [.node 5 [.list [], .nil, .list []], .node 5 [.list [], .nil, .list []]]], .node 5 [.list [.node 5 [.list [], .nil, .list []], .node 5 [.list [], .nil, .list []]], .node 5 [.list [], .nil, .list []], .list [.node 5 [.list [], .nil, .list []], .node 5 [.list [], .nil, .list []]]], .list [.node 5 [.list [.node 5 [.list [], .nil, .list []], .node 5 [.list [], .nil, .list []]], .node 5 [.list [], .nil, .list []], .list [.node 5 [.list [], .nil, .list []], .node 5 [.list [], .nil, .list []]]], .node 5 [.list [.node 5 [.list [], .nil, .list []], .node 5 [.list [], .nil, .nil]], .node 5 [.list [], .nil, .list []], .list [.node 5 [.list [], .nil, .list []], .node 5 [.list [], .nil, .list []]]]]], .acc),
    (.node 5 [.node 5 [.list [.node 5 [.list [], .nil, .list []], .node 5 [.list [], .nil, .list []]], .node 5 [.list [], .nil, .list []], .list [.node 5 [.list [], .nil, .list []], .node 5 [.list [], .nil, .list []]]], .node 5 [.list [.node 5 [.list [], .nil, .list []], .node 5 [.list [], .nil, .list []]], .node 5 [.list [], .nil, .list []], .list [.node 5 [.list [], .nil, .list []], .node 5 [.list [], .nil, .list []]]], .list [.node 5 [.list [.node 5 [.list [], .nil, .list []], .node 5 [.list [], .nil, .list []]], .node 5 [.list [], .nil, .list []], .list [.node 5 [.list [], .nil, .list []], .node 5 [.list [], .nil, .list []]]], .node 5 [.list [.node 5 [.list [], .nil, .list []], .node 5 [.list [], .nil, .list []]], .nil, .list [.node 5 [.list [], .nil, .list []], .node 5 [.list [], .nil, .list []]]]]], .rej),
    (.node 5 [.node 5 [.list [.node 5 [.list [], .nil, .list []], .node 5 [.list [], .nil, .list []]], .node 5 [.list [], .nil, .list []], .list [.node 5 [.list [], .nil, .list []], .node 5 [.list [], .nil, .list []]]], .node 5 [.list [.node 5 [.list [], .nil, .list []], .node 5 [.list [], .nil, .list []]], .node 5 [.list [], .nil, .list []], .list [.node 5 [.list [], .nil, .list []], .node 5 [.list [], .nil, .list []]]], .list [.node 5 [.list [.node 5 [.list [], .nil, .list []], .node 5 [.list [], .nil, .list []]], .node 5 [.list [], .nil, .list []], .list [.node 5 [.list [], .nil, .list []], .node 5 [.list [], .nil, .list []]]], .node 5 [.list [.node 5 [.list [], .nil, .list []], .node 5 [.list [], .nil, .list []]], .node 1 [.list [], .nil, .list []], .list [.node 5 [.list [], .nil, .list []], .node 5 [.list [], .nil, .list []]]]]], .acc),
    (.node 5 [.node 5 [.list [.node 5 [.list [], .nil, .list []], .node 5 [.list [], .nil, .list []]], .node 5 [.list [], .nil, .list []], .list [.node 5 [.list [], .nil, .list []], .node 5 [.list [], .nil, .list []]]], .node 5 [.list [.node 5 [.list [], .nil, .list []], .node 5 [.list [], .nil, .list []]], .node 5 [.list [], .nil, .list []], .list [.node 5 [.list [], .nil, .list []], .node 5 [.list [], .nil, .list []]]], .list [.node 5 [.list [.node 5 [.list [], .nil, .list []], .node 5 [.list [], .nil, .list []]], .node 5 [.list [], .nil, .list []], .list [.node 5 [.list [], .nil, .list []], .node 5 [.list [], .nil, .list []]]], .node 5 [.list [.node 5 [.list [], .nil, .list []], .node 5 [.list [], .nil, .list []]], .node 5 [.nil, .nil, .list []], .list [.node 5 [.list [], .nil, .list []], .node 5 [.list [], .nil, .list []]]]]], .acc),
    (.node 5 [.node 5 [.list [.node 5 [.list [], .nil, .list []], .node 5 [.list [], .nil, .list []]], .node 5 [.list [], .nil, .list []], .list [.node 5 [.list [], .nil, .list []], .node 5 [.list [], .nil, .list []]]], .node 5 [.list [.node 5 [.list [], .nil, .list []], .node 5 [.list [], .nil, .list []]], .node 5 [.list [], .nil, .list []], .list [.node 5 [.list [], .nil, .list []], .node 5 [.list [], .nil, .list []]]], .list [.node 5 [.list [.node 5 [.list [], .nil, .list []], .node 5 [.list [], .nil, .list []]], .node 5 [.list [], .nil, .list []], .list [.node 5 [.list [], .nil, .list []], .node 5 [.list [], .nil, .list []]]], .node 5 [.list [.node 5 [.list [], .nil, .list []], .node 5 [.list [], .nil, .list []]], .node 5 [.list [], .nil, .nil], .list [.node 5 [.list [], .nil, .list []], .node 5 [.list [], .nil, .list []]]]]], .acc),
    (.node 5 [.node 5 [.list [.node 5 [.list [], .nil, .list []], .node 5 [.list [], .nil, .list []]], .node 5 [.list [], .nil, .list []], .list [.node 5 [.list [], .nil, .list []], .node 5 [.list [], .nil, .list []]]], .node 5 [.list [.node 5 [.list [], .nil, .list []], .node 5 [.list [], .nil, .list []]], .node 5 [.list [], .nil, .list []], .list [.node 5 [.list [], .nil, .list []], .node 5 [.list [], .nil, .list []]]], .list [.node 5 [.list [.node 5 [.list [], .nil, .list []], .node 5 [.list [], .nil, .list []]], .node 5 [.list [], .nil, .list []], .list [.node 5 [.list [], .nil, .list []], .node 5 [.list [], .nil, .list []]]], .node 5 [.list [.node 5 [.list [], .nil, .list []], .node 5 [.list [], .nil, .list []]], .node 5 [.list [], .nil, .list []], .nil]]], .rej),
    (.node 5 [.node 5 [.list [.node 5 [.list [], .nil, .list []], .node 5 [.list [], .nil, .list []]], .node 5 [.list [], .nil, .list []], .list [.node 5 [.list [], .nil, .list []], .node 5 [.list [], .nil, .list []]]], .node 5 [.list [.node 5 [.list [], .nil, .list []], .node 5 [.list [], .nil, .list []]], .node 5 [.list [], .nil, .list []], .list [.node 5 [.list [], .nil, .list []], .node 5 [.list [], .nil, .list []]]], .list [.node 5 [.list [.node 5 [.list [], .nil, .list []], .node 5 [.list [], .nil, .list []]], .node 5 [.list [], .nil, .list []], .list [.node 5 [.list [], .nil, .list []], .node 5 [.list [], .nil, .list []]]], .node 5 [.list [.node 5 [.list [], .nil, .list []], .node 5 [.list [], .nil, .list []]], .node 5 [.list [], .nil, .list []], .list []]]], .acc),
    (.node 5 [.node 5 [.list [.node 5 [.list [], .nil, .list []], .node 5 [.list [], .nil, .list []]], .node 5 [.list [], .nil, .list []], .list [.node 5 [.list [], .nil, .list []], .node 5 [.list [], .nil, .list []]]], .node 5 [.list [.node 5 [.list [], .nil, .list []], .node 5 [.list [], .nil, .list []]], .node 5 [.list [], .nil, .list []], .list [.node 5 [.list [], .nil, .list []], .node 5 [.list [], .nil, .list []]]], .list [.node 5 [.list [.node 5 [.list [], .nil, .list []], .node 5 [.list [], .nil, .list []]], .node 5 [.list [], .nil, .list []], .list [.node 5 [.list [], .nil, .list []], .node 5 [.list [], .nil, .list []]]], .node 5 [.list [.node 5 [.list [], .nil, .list []], .node 5 [.list [], .nil, .list []]], .node 5 [.list [], .nil, .list []], .list [.node 5 [.list [], .nil, .list []], .node 5 [.list [], .nil, .list []], .node 5 [.list [], .nil, .list []]]]]], .acc),
    (.node 5 [.node 5 [.list [.node 5 [.list [], .nil, .list []], .node 5 [.list [], .nil, .list []]], .node 5 [.list [], .nil, .list []], .list [.node 5 [.list [], .nil, .list []], .node 5 [.list [], .nil, .list []]]], .node 5 [.list [.node 5 [.list [], .nil, .list []], .node 5 [.list [], .nil, .list []]], .node 5 [.list [], .nil, .list []], .list [.node 5 [.list [], .nil, .list []], .node 5 [.list [], .nil, .list []]]], .list [.node 5 [.list [.node 5 [.list [], .nil, .list []], .node 5 [.list [], .nil, .list []]], .node 5 [.list [], .nil, .list []], .list [.node 5 [.list [], .nil, .list []], .node 5 [.list [], .nil, .list []]]], .node 5 [.list [.node 5 [.list [], .nil, .list []], .node 5 [.list [], .nil, .list []]], .node 5 [.list [], .nil, .list []], .list [.node 1 [.list [], .nil, .list []], .node 5 [.list [], .nil, .list []]]]]], .acc),
    (.node 5 [.node 5 [.list [.node 5 [.list [], .nil, .list []], .node 5 [.list [], .nil, .list []]], .node 5 [.list [], .nil, .list []], .list [.node 5 [.list [], .nil, .list []], .node 5 [.list [], .nil, .list []]]], .node 5 [.list [.node 5 [.list [], .nil, .list []], .node 5 [.list [], .nil, .list []]], .node 5 [.list [], .nil, .list []], .list [.node 5 [.list [], .nil, .list []], .node 5 [.list [], .nil, .list []]]], .list [.node 5 [.list [.node 5 [.list [], .nil, .list []], .node 5 [.list [], .nil, .list []]], .node 5 [.list [], .nil, .list []], .list [.node 5 [.list [], .nil, .list []], .node 5 [.list [], .nil, .list []]]], .node 5 [.list [.node 5 [.list [], .nil, .list []], .node 5 [.list [], .nil, .list []]], .node 5 [.list [], .nil, .list []], .list [.node 5 [.nil, .nil, .list []], .node 5 [.list [], .nil, .list []]]]]], .acc),
    (.node 5 [.node 5 [.list [.node 5 [.list [], .nil, .list []], .node 5 [.list [], .nil, .list []]], .node 5 [.list [], .nil, .list []], .list [.node 5 [.list [], .nil, .list []], .node 5 [.list [], .nil, .list []]]], .node 5 [.list [.node 5 [.list [], .nil, .list []], .node 5 [.list [], .nil, .list []]], .node 5 [.list [], .nil, .list []], .list [.node 5 [.list [], .nil, .list []], .node 5 [.list [], .nil, .list []]]], .list [.node 5 [.list [.node 5 [.list [], .nil, .list []], .node 5 [.list [], .nil, .list []]], .node 5 [.list [], .nil, .list []], .list [.node 5 [.list [], .nil, .list []], .node 5 [.list [], .nil, .list []]]], .node 5 [.list [.node 5 [.list [], .nil, .list []], .node 5 [.list [], .nil, .list []]], .node 5 [.list [], .nil, .list []], .list [.node 5 [.list [], .nil, .nil], .node 5 [.list [], .nil, .list []]]]]], .acc),
    (.node 5 [.node 5 [.list [.node 5 [.list [], .nil, .list []], .node 5 [.list [], .nil, .list []]], .node 5 [.list [], .nil, .list []], .list [.node 5 [.list [], .nil, .list []], .node 5 [.list [], .nil, .list []]]], .node 5 [.list [.node 5 [.list [], .nil, .list []], .node 5 [.list [], .nil, .list []]], .node 5 [.list [], .nil, .list []], .list [.node 5 [.list [], .nil, .list []], .node 5 [.list [], .nil, .list []]]], .list [.node 5 [.list [.node 5 [.list [], .nil, .list []], .node 5 [.list [], .nil, .list []]], .node 5 [.list [], .nil, .list []], .list [.node 5 [.list [], .nil, .list []], .node 5 [.list [], .nil, .list []]]], .node 5 [.list [.node 5 [.list [], .nil, .list []], .node 5 [.list [], .nil, .list []]], .node 5 [.list [], .nil, .list []], .list [.node 5 [.list [], .nil, .list []], .node 1 [.list [], .nil, .list []]]]]], .acc),
    (.node 5 [.node 5 [.list [.node 5 [.list [], .nil, .list []], .node 5 [.list [], .nil, .list []]], .node 5 [.list [], .nil, .list []], .list [.node 5 [.list [], .nil, .list []], .node 5 [.list [], .nil, .list []]]], .node 5 [.list [.node 5 [.list [], .nil, .list []], .node 5 [.list [], .nil, .list []]], .node 5 [.list [], .nil, .list []], .list [.node 5 [.list [], .nil, .list []], .node 5 [.list [], .nil, .list []]]], .list [.node 5 [.list [.node 5 [.list [], .nil, .list []], .node 5 [.list [], .nil, .list []]], .node 5 [.list [], .nil, .list []], .list [.node 5 [.list [], .nil, .list []], .node 5 [.list [], .nil, .list []]]], .node 5 [.list [.node 5 [.list [], .nil, .list []], .node 5 [.list [], .nil, .list []]], .node 5 [.list [], .nil, .list []], .list [.node 5 [.list [], .nil, .list []], .node 5 [.nil, .nil, .list []]]]]], .acc),
    (.node 5 [.node 5 [.list [.node 5 [.list [], .nil, .list []], .node 5 [.list [], .nil, .list []]], .node 5 [.list [], .nil, .list []], .list [.node 5 [.list [], .nil, .list []], .node 5 [.list [], .nil, .list []]]], .node 5 [.list [.node 5 [.list [], .nil, .list []], .node 5 [.list [], .nil, .list []]], .node 5 [.list [], .nil, .list []], .list [.node 5 [.list [], .nil, .list []], .node 5 [.list [], .nil, .list []]]], .list [.node 5 [.list [.node 5 [.list [], .nil, .list []], .node 5 [.list [], .nil, .list []]], .node 5 [.list [], .nil, .list []], .list [.node 5 [.list [], .nil, .list []], .node 5 [.list [], .nil, .list []]]], .node 5 [.list [.node 5 [.list [], .nil, .list []], .node 5 [.list [], .nil, .list []]], .node 5 [.list [], .nil, .list []], .list [.node 5 [.list [], .nil, .list []], .node 5 [.list [], .nil, .nil]]]]], .acc)
  ]

def graphRow93 : GRow where
  name := "rec_map"
  env := [⟨some 3, [⟨.map, 0, .required⟩]⟩]
  built := true
  probes := [
    (.node 5 [.list [.node 5 [.list []]]], .acc),
    (.node 1 [.list [.node 5 [.list []]]], .rej),
    (.node 5 [.nil], .rej),
    (.node 5 [.list []], .acc),
    (.node 5 [.list [.node 1 [.list []]]], .acc),
    (.node 5 [.list [.node 5 [.nil]]], .acc)
  ]

def graphRow94 : GRow where
  name := "rec_mapptr"
  env := [⟨some 3, [⟨.mapptr, 0, .required⟩]⟩]
  built := true
  probes := [
    (.node 5 [.list [.node 5 [.list []]]], .acc),
    (.node 1 [.list [.node 5 [.list []]]], .rej),
    (.node 5 [.nil], .rej),
    (.node 5 [.list []], .acc),
    (.node 5 [.list [.node 1 [.list []]]], .acc),
    (.node 5 [.list [.node 5 [.nil]]], .acc)
  ]

def graphRow95 : GRow where
  name := "rec_map_below"
  env := [⟨some 3, [⟨.val, 1, .required⟩]⟩, ⟨some 3, [⟨.map, 1, .required⟩]⟩]
  built := true
  probes := [
    (.node 5 [.node 5 [.list [.node 5 [.list []]]]], .acc),
    (.node 1 [.node 5 [.list [.node 5 [.list []]]]], .rej),
    (.node 5 [.node 1 [.list [.node 5 [.list []]]]], .rej),
    (.node 5 [.node 5 [.nil]], .rej),
    (.node 5 [.node 5 [.list []]], .acc),
    (.node 5 [.node 5 [.list [.node 1 [.list []]]]], .acc),
    (.node 5 [.node 5 [.list [.node 5 [.nil]]]], .acc)
  ]

def graphTable : List GRow := [graphRow0, graphRow1, graphRow2, graphRow3, graphRow4, graphRow5, graphRow6, graphRow7, graphRow8, graphRow9, graphRow10, graphRow11, graphRow12, graphRow13, graphRow14, graphRow15, graphRow16, graphRow17, graphRow18, graphRow19, graphRow20, graphRow21, graphRow22, graphRow23, graphRow24, graphRow25, graphRow26, graphRow27, graphRow28, graphRow29, graphRow30, graphRow31, graphRow32, graphRow33, graphRow34, graphRow35, graphRow36, graphRow37, graphRow38, graphRow39, graphRow40, graphRow41, graphRow42, graphRow43, graphRow44, graphRow45, graphRow46, graphRow47, graphRow48, graphRow49, graphRow50, graphRow51, graphRow52, graphRow53, graphRow54, graphRow55, graphRow56, graphRow57, graphRow58, graphRow59, graphRow60, graphRow61, graphRow62, graphRow63, graphRow64, graphRow65, graphRow66, graphRow67, graphRow68, graphRow69, graphRow70, graphRow71, graphRow72, graphRow73, graphRow74, graphRow75, graphRow76, graphRow77, graphRow78, graphRow79, graphRow80, graphRow81, graphRow82, graphRow83, graphRow84, graphRow85, graphRow86, graphRow87, graphRow88, graphRow89, graphRow90, graphRow91, graphRow92, graphRow93, graphRow94, graphRow95]

end Gozod.Gen
