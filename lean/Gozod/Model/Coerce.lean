/-
  Gozod.Model.Coerce — `pkg/coerce`: ToInt64, ToInteger[T], ToFloat64, ToFloat[T], ToBool,
  ToString, ToBigInt, To[T], and the coercing primitive schemas built on them.

  Core-only (linked into `driver_c17`).  Reuses `Gozod.Model.Num` (IntTy, F, round53,
  implCmp); nothing there is changed.

  What is a transcription of the code and what is a parameter
  ----------------------------------------------------------
  * Integer, float, bool and big-integer sources are modelled exactly: integers as `Int`
    with their Go type, floats as exact dyadic rationals `F` (float32 widened, exact).
  * Go's `int64(f)` on amd64 (CVTTSD2SI: out-of-range / NaN → 0x8000000000000000) is
    `cvtI64`; `float64(int64)` is `toF64Int` (round53); `float32(float64)` is `roundF32`.
  * A string source carries, as *parameters*, what `strings.TrimSpace`, `strings.ToLower`,
    `strconv.ParseInt(·,10,64)`, `strconv.ParseFloat(·,64)` and `big.Int.SetString` returned
    for it (`StrInfo`); `strconv.FormatFloat` is the parameter `fmt` of `toStr`.  The harness
    ships these with every case.  The model is the code *around* those calls.
  * `toInt64` … are the code **after** the proposed fix `pending/C17-coerce-guards.diff`;
    `Legacy.*` are the float branches of the pinned commit, kept so the defects are theorems.
-/
import Gozod.Model.Num
import Gozod.Model.ParseInt
namespace Gozod.Coerce
open Gozod

/-- The error classes of `pkg/coerce` (only ok/error is property-relevant). -/
inductive CErr where
  | nilPtr | unsupported | format | overflow | negative | notWhole | invalidType | check
  deriving DecidableEq, Repr, Inhabited

/-- What the string-handling library calls returned for a string source. -/
structure StrInfo where
  bytes : List Nat            -- the string itself (Go strings are bytes)
  blank : Bool                -- strings.TrimSpace(s) == ""
  norm : String               -- strings.ToLower(strings.TrimSpace(s))
  pInt : Option Int           -- strconv.ParseInt(trim, 10, 64); none = error
  pFloat : Option F           -- strconv.ParseFloat(trim, 64);   none = error (syntax or range)
  pFloat32 : Option F         -- strconv.ParseFloat(trim, 32) (a float32 value, widened); none = error
  pBig10 : Option Int         -- new(big.Int).SetString(trim, 10)
  hexPrefix : Bool            -- strings.HasPrefix(trim, "0x") || strings.HasPrefix(trim, "0X")
  pBig16 : Option Int         -- new(big.Int).SetString(trim[2:], 16)   (meaningful under hexPrefix)
  deriving Repr, Inhabited

/-- The fields of a `StrInfo` that are no longer parameters: `strings.TrimSpace`,
    `strconv.ParseInt(·,10,64)`, `big.Int.SetString(·,10)`, the `0x` prefix test and
    `SetString(·[2:],16)` are the Lean functions of `Gozod.Model.ParseInt` applied to the bytes.
    The driver builds every string source this way (`StrInfo.ofText`); what the harness ships for
    these fields is only compared (op lines `P`).  ParseFloat / ToLower stay parameters. -/
def StrInfo.ofText (bytes : List Nat) (norm : String) (pFloat pFloat32 : Option F) : StrInfo :=
  let t := ParseInt.trimSpace bytes
  { bytes := bytes, blank := t.isEmpty, norm := norm, pInt := ParseInt.parseInt t 64,
    pFloat := pFloat, pFloat32 := pFloat32, pBig10 := ParseInt.parseBig t 10,
    hexPrefix := ParseInt.hasHexPrefix t, pBig16 := ParseInt.parseBig (t.drop 2) 16 }

/-- `s` is a string source whose text-derived fields are the computed ones. -/
def StrInfo.computed (s : StrInfo) : Prop := s = StrInfo.ofText s.bytes s.norm s.pFloat s.pFloat32

/-- A coercion source: the dynamic value after `reflectx.Deref` (one pointer level). -/
inductive Src where
  | int (t : IntTy) (v : Int)
  | f32 (x : F)               -- a float32, widened exactly
  | f64 (x : F)
  | bool (b : Bool)
  | str (s : StrInfo)
  | big (v : Int)             -- a big.Int value (what Deref yields for *big.Int)
  | cplx (re im mag : F)      -- a complex64/128; `mag` = math.Sqrt(re*re + im*im) as Go computed it (parameter)
  | nilptr                    -- nil interface or nil pointer
  | other                     -- struct, slice, map, func, …
  deriving Repr, Inhabited

abbrev R (α : Type) := Except CErr α

def boolInt (b : Bool) : Int := if b then 1 else 0

/-! ## float helpers -/

/-- `math.Trunc(x) == x` for a finite `a / 2^k`. -/
def isWhole (a : Int) (k : Nat) : Bool := F.truncInt a k * 2 ^ k == a

/-- Go `int64(x)` for a float64 on amd64 (CVTTSD2SI): truncation toward zero when the result
    fits, the "integer indefinite" value −2^63 otherwise (NaN, ±Inf, out of range). -/
def cvtI64 : F → Int
  | .fin a k =>
    let t := F.truncInt a k
    if -(2 ^ 63) ≤ t ∧ t < 2 ^ 63 then t else -(2 ^ 63)
  | _ => -(2 ^ 63)

/-- `n / 2^s` rounded to nearest, ties to even. -/
def rneDiv (n s : Nat) : Nat :=
  if s = 0 then n else
    let q := n / 2 ^ s
    let r := n % 2 ^ s
    let half := 2 ^ (s - 1)
    if r > half ∨ (r = half ∧ q % 2 = 1) then q + 1 else q

/-- Round the magnitude `n / 2^k` to a binary format with `p` significant bits whose smallest
    subnormal is `2^-emin`.  The result is `(m, k')` denoting `m / 2^k'`. -/
def roundMag (p emin : Nat) (n k : Nat) : Nat × Nat :=
  if n = 0 then (0, 0) else
    let bits : Int := n.log2 + 1                       -- n ∈ [2^(bits-1), 2^bits)
    let u : Int := max (bits - 1 - k - (p - 1)) (-(emin : Int))   -- exponent of the ulp
    let s : Int := k + u                                -- low bits of n below the ulp
    if s ≤ 0 then (n, k) else
      let q := rneDiv n s.toNat
      if u ≥ 0 then (q * 2 ^ u.toNat, 0) else (q, (-u).toNat)

/-- Round a finite value to a format (`p`, `emin`, overflow threshold `2^emax`). -/
def roundFin (p emin emax : Nat) (a : Int) (k : Nat) : F :=
  let (m, k') := roundMag p emin a.natAbs k
  if m ≥ 2 ^ emax * 2 ^ k' then (if a < 0 then .ninf else .pinf)
  else .fin (if a < 0 then -(m : Int) else m) k'

/-- Go `float32(x)` for a float64 `x`, widened back (exact). -/
def roundF32 : F → F
  | .fin a k => roundFin 24 149 128 a k
  | x => x

/-- `big.Int.Float64()`: nearest float64, ±Inf when the magnitude rounds past MaxFloat64. -/
def bigToF64 (v : Int) : F := roundFin 53 1074 1024 v 0

/-- The (integer) value of `float32(v)` for a 64-bit integer `v`. -/
def toF32Int (v : Int) : Int :=
  if v < 0 then -((roundTo 24 v.natAbs : Nat) : Int) else ((roundTo 24 v.natAbs : Nat) : Int)

/-- `math.MaxFloat32` = (2^24 − 1)·2^104. -/
def maxF32 : Int := (2 ^ 24 - 1) * 2 ^ 104

/-- `math.Abs(x) > math.MaxFloat32` (false for NaN). -/
def absGtMaxF32 : F → Bool
  | .nan => false
  | .pinf | .ninf => true
  | .fin a k => decide ((a.natAbs : Int) > maxF32 * 2 ^ k)

def isZero : F → Bool
  | .fin a _ => a == 0
  | _ => false

/-! ## ToInt64 / ToInteger[T]  (fixed code) -/

/-- `floatToInt64` of the fixed code, shared by ToInt64 and ToInteger for float32 and float64:
    `math.Trunc(f) != f` → not whole (this also rejects NaN); `f < -2^63 || f >= 2^63` →
    overflow (this also rejects ±Inf); else `int64(f)`. -/
def floatToInt64 : F → R Int
  | .nan => .error .notWhole
  | .pinf | .ninf => .error .overflow
  | .fin a k =>
    if isWhole a k then
      let t := F.truncInt a k
      if t < -(2 ^ 63) ∨ t ≥ 2 ^ 63 then .error .overflow else .ok (cvtI64 (.fin a k))
    else .error .notWhole

/-- `stringToInt64`: blank → 0, else `strconv.ParseInt(trimmed, 10, 64)`. -/
def stringToInt64 (s : StrInfo) : R Int :=
  if s.blank then .ok 0 else
    match s.pInt with
    | some i => .ok i
    | none => .error .format

/-- Integer sources into an int64 holder: `uint`/`uint64` above MaxInt64 overflow. -/
def intToInt64 (t : IntTy) (v : Int) : R Int :=
  match t with
  | .uint | .u64 => if v > 2 ^ 63 - 1 then .error .overflow else .ok v
  | _ => .ok v

/-- `ToInt64`. -/
def toInt64 : Src → R Int
  | .int t v => intToInt64 t v
  | .f32 x => floatToInt64 x
  | .f64 x => floatToInt64 x
  | .str s => stringToInt64 s
  | .bool b => .ok (boolInt b)
  | .big _ => .error .unsupported
  | .cplx _ _ _ => .error .unsupported
  | .nilptr => .error .nilPtr
  | .other => .error .unsupported

/-- `checkIntegerTypeBounds(val, zero)` followed by `T(val)`, for an int64 `val`.
    (`int64` has no case in the Go switch; `int`/`uint`/`uint64` only test the sign on amd64.) -/
def checkBounds (t : IntTy) (v : Int) : R Int :=
  match t with
  | .i64 => .ok v
  | .i8 | .i16 | .i32 | .int => if v < t.lo ∨ v > t.hi then .error .overflow else .ok v
  | .u8 | .u16 | .u32 | .uint | .u64 =>
    if v < 0 then .error .negative else if v > t.hi then .error .overflow else .ok v

/-- `ToInteger[T]`. The bool case returns before the bounds check. -/
def toInteger (t : IntTy) : Src → R Int
  | .bool b => .ok (boolInt b)
  | s => toInt64 s >>= checkBounds t

/-! ## ToFloat64 / ToFloat[T]  (fixed code) -/

/-- `stringToFloat(s, bitSize)`: blank → 0, else `strconv.ParseFloat(trimmed, bitSize)`;
    an error or a NaN result is a format error (the NaN guard is added by the fix). -/
def stringToFloat (blank : Bool) (p : Option F) : R F :=
  if blank then .ok (.fin 0 0) else
    match p with
    | some f => if f.isNaN then .error .format else .ok f
    | none => .error .format

def stringToFloat64 (s : StrInfo) : R F := stringToFloat s.blank s.pFloat

/-- The ±Inf guards added by the fix: a rounded big integer must be finite. -/
def finOrOverflow : F → R F
  | .fin a k => .ok (.fin a k)
  | _ => .error .overflow

/-- `ToFloat64`. -/
def toFloat64 : Src → R F
  | .f64 x => if x.isNaN then .error .format else .ok x
  | .f32 x => if x.isNaN then .error .format else .ok x
  | .int _ v => .ok (.fin (toF64Int v) 0)
  | .big v => finOrOverflow (bigToF64 v)                        -- Inf guard: added by the fix
  | .cplx _ _ mag => .ok mag                                     -- the magnitude, whatever it is (known finding)
  | .str s => stringToFloat64 s
  | .bool b => .ok (.fin (boolInt b) 0)
  | .nilptr => .error .nilPtr
  | .other => .error .unsupported

/-- `ToFloat[float64]`: identity on float64 (NaN guard added by the fix), else ToFloat64. -/
def toFloatF64 : Src → R F
  | .f64 x => if x.isNaN then .error .format else .ok x
  | s => toFloat64 s

/-- `new(big.Float).SetInt(x).Float32()`: nearest float32, ±Inf past MaxFloat32. -/
def bigToF32 (v : Int) : F := roundFin 24 149 128 v 0

/-- `ToFloat[float32]` (fixed code): identity on float32; integers, strings and big integers
    are converted straight to float32 (`toFloat32` in Go: one rounding); the rest goes through
    ToFloat64, the MaxFloat32 guard and `float32(·)`. -/
def toFloat32 : Src → R F
  | .f32 x => if x.isNaN then .error .format else .ok x
  | .int _ v => .ok (.fin (toF32Int v) 0)
  | .str s => stringToFloat s.blank s.pFloat32
  | .big v => finOrOverflow (bigToF32 v)
  | s => do
    let f ← toFloat64 s
    if absGtMaxF32 f then .error .overflow else .ok (roundF32 f)

/-! ## ToBool / ToString / ToBigInt -/

/-- `stringToBool` on the lowered, trimmed text. -/
def boolTable : String → Option Bool
  | "true" | "1" | "yes" | "on" | "y" => some true
  | "false" | "0" | "no" | "off" | "n" | "" => some false
  | _ => none

def toBool : Src → R Bool
  | .bool b => .ok b
  | .str s => match boolTable s.norm with
    | some b => .ok b
    | none => .error .format
  | .int _ v => .ok (v != 0)
  | .f32 x => if x.isNaN then .error .format else .ok (!isZero x)   -- NaN guard: added by the fix
  | .f64 x => if x.isNaN then .error .format else .ok (!isZero x)
  | .big _ => .error .unsupported
  | .cplx _ _ _ => .error .unsupported
  | .nilptr => .error .nilPtr
  | .other => .error .unsupported

/-- ASCII bytes of the decimal numeral of `v` (`strconv.FormatInt/FormatUint(·, 10)`). -/
def strBytes (s : String) : List Nat := s.toList.map (fun c => c.toNat)
def decBytes (v : Int) : List Nat := ParseInt.formatInt v

/-- `ToString`; `fmt32`/`fmt64` stand for `strconv.FormatFloat(x,'g',-1,32|64)`. -/
def toStr (fmt32 fmt64 : F → List Nat) : Src → R (List Nat)
  | .str s => .ok s.bytes
  | .bool b => .ok (strBytes (if b then "true" else "false"))
  | .int _ v => .ok (decBytes v)
  | .big v => .ok (decBytes v)
  | .f32 x => .ok (fmt32 x)
  | .f64 x => .ok (fmt64 x)
  | .cplx _ _ _ => .error .unsupported      -- (Go renders "%g"; complex → string is not exercised)
  | .nilptr => .error .nilPtr
  | .other => .error .unsupported

/-- ToBigInt on a float: `float64(int64(x)) != x` → not whole, else `int64(x)`
    (`back` is the conversion of the int64 back to the source float type). -/
def floatToBig (back : Int → Int) (x : F) : R Int :=
  let i := cvtI64 x
  match F.cmp (.fin (back i) 0) x with
  | some .eq => .ok i
  | _ => .error .notWhole

def stringToBig (s : StrInfo) : R Int :=
  if s.blank then .ok 0 else
    match s.pBig10 with
    | some i => .ok i
    | none =>
      if s.hexPrefix then
        match s.pBig16 with
        | some i => .ok i
        | none => .error .format
      else .error .format

/-- `ToBigInt`. (A `big.Int` *value* — what Deref makes of a `*big.Int` — has no case: unsupported.) -/
def toBigInt : Src → R Int
  | .int _ v => .ok v
  | .f32 x => floatToBig toF32Int x
  | .f64 x => floatToBig toF64Int x
  | .str s => stringToBig s
  | .bool b => .ok (boolInt b)
  | .big _ => .error .unsupported
  | .cplx _ _ _ => .error .unsupported
  | .nilptr => .error .nilPtr
  | .other => .error .unsupported

/-! ## To[T] dispatch and coercing schemas -/

/-- Targets of the property. -/
inductive Tgt where
  | int (t : IntTy) | f32 | f64 | bool | str | big
  deriving DecidableEq, Repr, Inhabited

/-- A coerced / parsed value. -/
inductive Val where
  | int (v : Int) | flt (x : F) | bool (b : Bool) | str (bytes : List Nat)
  deriving Repr, Inhabited

/-- `coerce.To[T]`: int64 goes to ToInt64, the other integers to ToInteger[T], float32 to
    ToFloat[float32], float64 to ToFloat64. -/
def to (fmt32 fmt64 : F → List Nat) : Tgt → Src → R Val
  | .int .i64, s => Val.int <$> toInt64 s
  | .int t, s => Val.int <$> toInteger t s
  | .f32, s => Val.flt <$> toFloat32 s
  | .f64, s => Val.flt <$> toFloat64 s
  | .bool, s => Val.bool <$> toBool s
  | .str, s => Val.str <$> toStr fmt32 fmt64 s
  | .big, s => Val.int <$> toBigInt s

/-- The bound check of a BigInt schema BEFORE `fix: compare and divide big integers exactly` (/repo
    4945548): both operands through `coerce.ToFloat64` (`bigIntToFloat64`: the nearest float64, an error
    beyond MaxFloat64 — then the check is false), floats compared.  Kept so that the defect stays a
    theorem (`C17S.legacy_bigint_check_witness`); the current check is `NumBig.xcmp` (C16B.c16_big_cmp). -/
def bigCmpViaFloat (op : CmpOp) (v b : Int) : Bool :=
  match finOrOverflow (bigToF64 v), finOrOverflow (bigToF64 b) with
  | .ok x, .ok y => (match F.cmp x y with
    | some o => op.ofOrdering o
    | none => false)
  | _, _ => false

/-- Has the source (after the engine's own pointer dereference) exactly the schema's type? -/
def exact : Tgt → Src → Option Val
  | .int t, .int t' v => if t = t' then some (.int v) else none
  | .f32, .f32 x => some (.flt x)
  | .f64, .f64 x => some (.flt x)
  | .bool, .bool b => some (.bool b)
  | .str, .str s => some (.str s.bytes)
  | .big, .big v => some (.int v)
  | _, _ => none

/- The coercing schema itself (`parsePrimitiveValue` with `internals.Coerce`, over C01's `Prim.parse` and
   C16's checks) is `Gozod.Model.CoerceSchema` (round 4c). -/

/-! ## The pinned commit's float branches (defects as theorems) -/
namespace Legacy

/-- `x > math.MaxInt64 || x < math.MinInt64` with the constants rounded to float64 (±2^63). -/
def outOfI64 : F → Bool
  | .nan => false
  | .pinf | .ninf => true
  | .fin a k => decide (a > 2 ^ 63 * 2 ^ k) || decide (a < -(2 ^ 63) * 2 ^ k)

def wholeF : F → Bool
  | .nan => false
  | .pinf | .ninf => true
  | .fin a k => isWhole a k

/-- ToInt64, float32 case at the pinned commit: wholeness test only. -/
def toInt64F32 (x : F) : R Int := if wholeF x then .ok (cvtI64 x) else .error .notWhole

/-- ToInt64 / ToInteger, float64 case at the pinned commit. -/
def toInt64F64 (x : F) : R Int :=
  if wholeF x then (if outOfI64 x then .error .overflow else .ok (cvtI64 x)) else .error .notWhole

/-- ToInteger, float32 case at the pinned commit: range test only, then truncation. -/
def toIntegerF32 (t : IntTy) (x : F) : R Int :=
  if outOfI64 x then .error .overflow else checkBounds t (cvtI64 x)

def toIntegerF64 (t : IntTy) (x : F) : R Int := toInt64F64 x >>= checkBounds t

end Legacy

/-! ## printing (shared by the driver; canonical forms also produced by the Go harness) -/

/-- Reduce `a / 2^k` to lowest terms (`a` odd or `k = 0`; zero is `0/0`). -/
def normFin : Int → Nat → Int × Nat
  | a, 0 => (a, 0)
  | a, k + 1 => if a = 0 then (0, 0) else if a % 2 = 0 then normFin (a / 2) k else (a, k + 1)

def showF : F → String
  | .nan => "nan"
  | .pinf => "+inf"
  | .ninf => "-inf"
  | .fin a k => let (a', k') := normFin a k; s!"F{a'}/{k'}"

end Gozod.Coerce
