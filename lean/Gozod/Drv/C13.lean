/-
  Line handlers for C13.
    gen | compile … | sample …             → "ok ok" / "same same"  (the property demands success)
    cell <fty> <rules> <probe> | <chain>   → "<denote> <documented>"  verdict of the emitted chain under
                                              the primitive-schema semantics, and the documented verdict
    quote <kind> <runes p> | <runes ref>   → noparse | lit=<runes>   value of the literal the transcribed
                                              formatting function emits for parameter p
-/
import Gozod.Model.GenChain
namespace Gozod.Drv.C13
open Gozod Gozod.Tags Gozod.GenChain

def b2s (b : Bool) : String := if b then "1" else "0"

def parseRunes (s : String) : Option (List Nat) :=
  if s == "-" then some [] else (s.splitOn ".").mapM String.toNat?

def renderRunes (s : List Nat) : String := if s.isEmpty then "-" else ".".intercalate (s.map toString)

def parseRules (s : String) : Option (List TRule) := (s.splitOn "+").mapM TRule.ofString?

def handle : List String → String
  | ["gen"] => "ok ok"
  | ["compile", _, _] => "ok ok"
  | ["sample", _, _] => "same same"
  | ["cell", fty, rules, probe, "|", chain] =>
    match FTy.ofString? fty, parseRules rules, Probe.ofString? probe with
    | some t, some rs, some p =>
      match chain.splitOn ";" with
      | ctor :: calls =>
        let c : GenCell := ⟨t, rs, .ok, Ctor.ofString? ctor, calls.map Call.ofString?⟩
        s!"{b2s (denote c p)} {b2s (Spec.accept rs p)}"
      | [] => "bad-op"
    | _, _, _ => "bad-op"
  | ["quote", kind, p, "|", _ref] =>
    match parseRunes p with
    | some p =>
      -- `default=`: the code after 8c56087 (strconv.Quote); "?" = quoting of some rune not modelled
      let emitted : Option (List Nat) := if kind == "regex" then some (emitRegex p) else emitDefaultFixed p
      match emitted with
      | none => "?"
      | some e =>
        match goStringLit e with
        | none => "noparse"
        | some s => "lit=" ++ renderRunes s
    | none => "bad-op"
  | _ => "bad-op"

end Gozod.Drv.C13
