// C18, round 5: MULTI-ISSUE checks x issue-dependent message sources.
//
// A custom check (`Check` / `With`) may report several issues in one run.  The check-level message is a FUNCTION of the
// issue, and so are the schema message, the per-parse map, the global map and the locale: each of them may answer for some
// of the issues one check reported and decline the others.  The property is per ISSUE: the message of every issue is the
// first non-empty answer, for THAT issue, in the order check, schema, per-parse, global, locale, built-in.
//
// Cells `c18 multi <raiser>@<chain> <spec> <feat,feat,…>`: one check function pushes k = 2..4 raw issues of distinct codes
// (some with a sub-path, some with an explicit Input); spec = the map kinds of c,s,p,g,l as in the `dep` family; feat =
// code/inputIsString/hasOrigin of each issue AS THE LIBRARY SHOWS IT to a message source (captured by a recording pass).
// Observation: the winner of every issue, in the order pushed ("c,g,d"); a "!" marks an answer computed from an issue of
// another code than the one that carries it.
package main

import (
	"fmt"
	"strings"

	"github.com/kaptinlin/gozod"
	"github.com/kaptinlin/gozod/core"
	"verifharness/hx"
)

type multiRaiser struct {
	id    string
	build func(push func(*core.ParsePayload), chk, sch []any) core.ZodSchema
	input any
	repro string
}

func multiRaisers() []multiRaiser {
	return []multiRaiser{
		{"multi-string", func(push func(*core.ParsePayload), c, s []any) core.ZodSchema {
			return gozod.String(s...).Check(func(_ string, p *core.ParsePayload) { push(p) }, c...)
		}, "abc", `String(sch).Check(func(v,p){p.AddIssue(…)×k},chk).Parse("abc")`},
		{"multi-string-with", func(push func(*core.ParsePayload), c, s []any) core.ZodSchema {
			return gozod.String(s...).Min(1).With(func(_ string, p *core.ParsePayload) { push(p) }, c...)
		}, "abc", `String(sch).Min(1).With(func(v,p){p.AddIssue(…)×k},chk).Parse("abc")`},
		{"multi-int", func(push func(*core.ParsePayload), c, s []any) core.ZodSchema {
			return gozod.Int(s...).Check(func(_ int, p *core.ParsePayload) { push(p) }, c...)
		}, 7, `Int(sch).Check(func(v,p){p.AddIssue(…)×k},chk).Parse(7)`},
		{"multi-slice", func(push func(*core.ParsePayload), c, s []any) core.ZodSchema {
			return gozod.Slice[any](gozod.Any(), s...).Check(func(_ []any, p *core.ParsePayload) { push(p) }, c...)
		}, []any{"a"}, `Slice[any](Any(),sch).Check(func(v,p){p.AddIssue(…)×k},chk).Parse(["a"])`},
		{"multi-object", func(push func(*core.ParsePayload), c, s []any) core.ZodSchema {
			return gozod.Object(core.ObjectSchema{"a": gozod.Any()}, s...).Check(func(_ map[string]any, p *core.ParsePayload) { push(p) }, c...)
		}, map[string]any{"a": 1}, `Object({a:Any()},sch).Check(func(v,p){p.AddIssue(…)×k},chk).Parse({"a":1})`},
	}
}

// the pool of raw issues a check function may push (distinct codes)
type multiTpl struct {
	code  core.IssueCode
	props map[string]any
}

var multiPool = []multiTpl{
	{core.TooSmall, map[string]any{"minimum": 8, "inclusive": true, "origin": "string"}},
	{core.TooBig, map[string]any{"maximum": 3, "inclusive": true, "origin": "number"}},
	{core.InvalidFormat, map[string]any{"format": "starts_with", "prefix": "x"}},
	{core.NotMultipleOf, map[string]any{"divisor": 5}},
	{core.Custom, nil},
	{core.InvalidValue, map[string]any{"values": []any{"a", "b"}}},
	{core.InvalidType, map[string]any{"expected": "string", "received": "number"}},
	{core.UnrecognizedKeys, map[string]any{"keys": []string{"zz"}}},
}

// one issue of a cell: template, how Input is set (v = the value under validation, s = a string, i = an int, - = not set),
// and whether the issue carries a sub-path
type multiIssue struct {
	tpl   int
	input byte
	sub   bool
}

func (m multiIssue) raw(j int, v any) core.ZodRawIssue {
	t := multiPool[m.tpl]
	r := core.ZodRawIssue{Code: t.code}
	if t.props != nil {
		r.Properties = map[string]any{}
		for k, x := range t.props {
			r.Properties[k] = x
		}
	}
	switch m.input {
	case 'v':
		r.Input = v
	case 's':
		r.Input = "str"
	case 'i':
		r.Input = 42
	}
	if m.sub {
		r.Path = []any{fmt.Sprintf("sub%d", j)}
	}
	return r
}

func (m multiIssue) String() string {
	s := string(multiPool[m.tpl].code) + "(Input " + map[byte]string{'v': "= the value", 's': `= "str"`, 'i': "= 42", '-': "unset"}[m.input]
	if m.sub {
		s += ", with a sub-path"
	}
	return s + ")"
}

func multiPush(iss []multiIssue) func(*core.ParsePayload) {
	return func(p *core.ParsePayload) {
		for j, m := range iss {
			p.AddIssue(m.raw(j, p.Value()))
		}
	}
}

// multiSeen: the raw issue of every code as the library shows it to a message source (last call), or nil when some issue
// is never shown to any source at this position.
func multiSeen(mr multiRaiser, w wrapper, iss []multiIssue) map[core.IssueCode]core.ZodRawIssue {
	seen := map[core.IssueCode]core.ZodRawIssue{}
	rec := func(raw core.ZodRawIssue) string {
		seen[raw.Code] = raw
		return ""
	}
	fn := []any{(func(core.ZodRawIssue) string)(rec)}
	core.SetConfig(nil)
	defer core.SetConfig(nil)
	core.SetConfig(&core.ZodConfig{CustomError: rec})
	hx.Safely(func() {
		_, _ = w.wrap(mr.build(multiPush(iss), fn, fn)).ParseAny(w.in(mr.input), &core.ParseContext{Error: rec})
	})
	return seen
}

// runMulti parses one cell; the result is the winner of every issue in the order pushed.
func runMulti(mr multiRaiser, w wrapper, iss []multiIssue, spec string) string {
	var c, s []any
	if spec[0] != '-' {
		c = []any{(func(core.ZodRawIssue) string)(depMap(spec[0], "CHK"))}
	}
	if spec[1] != '-' {
		s = []any{(func(core.ZodRawIssue) string)(depMap(spec[1], "SCH"))}
	}
	core.SetConfig(nil)
	cfg := &core.ZodConfig{}
	if spec[3] != '-' {
		cfg.CustomError = depMap(spec[3], "CUS")
	}
	if spec[4] != '-' {
		cfg.LocaleError = depMap(spec[4], "LOC")
	}
	core.SetConfig(cfg)
	defer core.SetConfig(nil)
	var err error
	if p := hx.Safely(func() {
		schema := w.wrap(mr.build(multiPush(iss), c, s))
		if spec[2] != '-' {
			_, err = schema.ParseAny(w.in(mr.input), &core.ParseContext{Error: depMap(spec[2], "CTX")})
		} else {
			_, err = schema.ParseAny(w.in(mr.input))
		}
	}); p != "" {
		return "panic"
	}
	var ze *gozod.ZodError
	if err == nil || !gozod.IsZodError(err, &ze) {
		return "n"
	}
	out := make([]string, len(iss))
	for j, m := range iss {
		is, ok := findIssue(ze.Issues, multiPool[m.tpl].code)
		if !ok {
			out[j] = "n"
			continue
		}
		out[j] = "d"
		if is.Message == "" {
			out[j] = "e"
		}
		for _, tl := range [][2]string{{"CHK", "c"}, {"SCH", "s"}, {"CTX", "p"}, {"CUS", "g"}, {"LOC", "l"}} {
			if strings.HasPrefix(is.Message, tl[0]+":") {
				out[j] = tl[1]
				if is.Message[len(tl[0])+1:] != string(is.Code) {
					out[j] += "!"
				}
			}
		}
	}
	return strings.Join(out, ",")
}

func multiCells(c hx.Config, o *hx.Out, one []wrapper) {
	r := hx.NewRng(c.Seed ^ 0x3a17)
	perSite, nChains := 8, 12
	if c.Thorough() {
		perSite, nChains = 40, 80
	}
	positions := append([]wrapper{}, one...)
	for len(positions) < len(one)+nChains {
		d := 2 + r.Intn(3)
		ws := make([]wrapper, d)
		for i := range ws {
			ws[i] = one[1+r.Intn(len(one)-1)]
		}
		positions = append(positions, compose(ws))
	}
	for _, mr := range multiRaisers() {
		for wi, w := range positions {
			n := perSite
			if wi >= len(one) {
				n = 3
			}
			for q := 0; q < n; q++ {
				// k = 2..4 issues of distinct codes
				k := 2 + r.Intn(3)
				perm := make([]int, len(multiPool))
				for i := range perm {
					perm[i] = i
				}
				for i := len(perm) - 1; i > 0; i-- {
					x := r.Intn(i + 1)
					perm[i], perm[x] = perm[x], perm[i]
				}
				iss := make([]multiIssue, k)
				for j := range iss {
					iss[j] = multiIssue{tpl: perm[j], input: "vsi-"[r.Intn(4)], sub: r.Chance(35)}
				}
				// every issue must be in the error at this position (and be shown to the sources)
				if base := runMulti(mr, w, iss, "-----"); strings.Contains(base, "n") || base == "panic" {
					o.Count("skipped:multi-issue-not-visible:" + w.id)
					continue
				}
				seen := multiSeen(mr, w, iss)
				feats := make([]string, k)
				desc := make([]string, k)
				ok := true
				for j, m := range iss {
					raw, found := seen[multiPool[m.tpl].code]
					if !found {
						ok = false
						break
					}
					_, inStr := raw.Input.(string)
					og, _ := raw.Properties["origin"].(string)
					feats[j] = fmt.Sprintf("%s/%s/%s", raw.Code, b01(inStr), b01(og != ""))
					desc[j] = m.String()
				}
				if !ok {
					o.Count("skipped:multi-issue-not-shown:" + w.id)
					continue
				}
				// the sources: the check message is configured in most cells (the family is about it), with a kind that
				// tells the issues of one check apart more often than not
				spec := make([]byte, 5)
				for i := range spec {
					spec[i] = '-'
					ch := 55
					if i == 0 {
						ch = 80
					}
					if r.Chance(ch) {
						spec[i] = depKinds[r.Intn(len(depKinds))]
					}
				}
				if string(spec) == "-----" {
					spec[2+r.Intn(3)] = depKinds[r.Intn(len(depKinds))]
				}
				win := runMulti(mr, w, iss, string(spec))
				o.Emit(fmt.Sprintf("c18 multi %s@%s %s %s # %s with S = %s; the check function pushes %d issues in one run: %s; sources c,s,p,g,l are message FUNCTIONS of kind %s (K always, T only invalid_type, N not invalid_type, I only string input, O only with an origin, Z only too_small/too_big, F only invalid_format, E never, - not configured), each answers \"<TAG>:<code of the issue it was shown>\" or declines with \"\"; observed = the winner of every issue in the order pushed (\"!\" = the text was computed from ANOTHER issue)",
					mr.id, w.id, spec, strings.Join(feats, ","), w.desc, mr.repro, k, strings.Join(desc, "; "), spec), win)
				o.Count(fmt.Sprintf("multi:k=%d", k))
			}
		}
	}
}
