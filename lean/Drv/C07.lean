import Gozod.Drv.Loop
import Gozod.Drv.C07
def main : IO Unit := Gozod.Drv.runTokens Gozod.Drv.C07.handle
