/-
  C10 on container schemas (slice, object, …): the engine theorems of `Gozod.Proofs.C10` carry over to
  `runChecksC` exactly when no vacuous check precedes the first overwrite; otherwise the code accepts
  a value on which an attached check fails (witness).
-/
import Gozod.Model.ChecksC
import Gozod.Proofs.C10
namespace Gozod.C10
open Gozod

variable {P O T V : Type}

/-- Once an overwrite has run the extra pass is the regular loop. -/
theorem firstPassC_cooked (env : Env P O T V) (vac : P → Bool) (cs : List (Check P O)) :
    ∀ (i : Nat) (val : V) (iss : List Nat) (log : List (Ev V)),
      firstPassC env vac i cs val false iss log = runFrom env i cs val iss log := by
  induction cs with
  | nil => intros; rfl
  | cons c cs ih =>
    intro i val iss log
    cases c with
    | overwrite o => simp only [firstPassC, runFrom]; exact ih ..
    | pred p abort w =>
      cases w with
      | none =>
        simp only [firstPassC, runFrom, Bool.false_and, Bool.false_eq_true, if_false]
        by_cases h : env.holds p val = true
        · simp only [h, if_true]; exact ih ..
        · simp only [h, if_false, Bool.false_eq_true]
          by_cases ha : abort = true
          · simp [ha]
          · simp only [ha, if_false, Bool.false_eq_true]; exact ih ..
      | some w =>
        simp only [firstPassC, runFrom, Bool.false_and, Bool.false_eq_true, if_false]
        by_cases hi : iss ≠ []
        · rw [if_pos hi, if_pos hi]; exact ih ..
        · rw [if_neg hi, if_neg hi]
          by_cases hw : env.holds w val = false
          · rw [if_pos hw, if_pos hw]; exact ih ..
          · rw [if_neg hw, if_neg hw]
            by_cases h : env.holds p val = true
            · simp only [h, if_true]; exact ih ..
            · simp only [h, if_false, Bool.false_eq_true]
              by_cases ha : abort = true
              · simp [ha]
              · simp only [ha, if_false, Bool.false_eq_true]; exact ih ..

/-- While the payload is raw, the extra pass is the regular loop as long as no vacuous check comes
    before the first overwrite. -/
theorem firstPassC_vacFree (env : Env P O T V) (vac : P → Bool) (cs : List (Check P O)) :
    ∀ (i : Nat) (val : V) (iss : List Nat) (log : List (Ev V)), vacFree vac cs = true →
      firstPassC env vac i cs val true iss log = runFrom env i cs val iss log := by
  induction cs with
  | nil => intros; rfl
  | cons c cs ih =>
    intro i val iss log hv
    cases c with
    | overwrite o => simp only [firstPassC, runFrom]; exact firstPassC_cooked env vac cs ..
    | pred p abort w =>
      simp only [vacFree, Bool.and_eq_true, Bool.not_eq_true'] at hv
      obtain ⟨hp, hcs⟩ := hv
      cases w with
      | none =>
        simp only [firstPassC, runFrom, hp, Bool.and_false, Bool.false_eq_true, if_false]
        by_cases h : env.holds p val = true
        · simp only [h, if_true]; exact ih _ _ _ _ hcs
        · simp only [h, if_false, Bool.false_eq_true]
          by_cases ha : abort = true
          · simp [ha]
          · simp only [ha, if_false, Bool.false_eq_true]; exact ih _ _ _ _ hcs
      | some w =>
        simp only [firstPassC, runFrom, hp, Bool.and_false, Bool.false_eq_true, if_false]
        by_cases hi : iss ≠ []
        · rw [if_pos hi, if_pos hi]; exact ih _ _ _ _ hcs
        · rw [if_neg hi, if_neg hi]
          by_cases hw : env.holds w val = false
          · rw [if_pos hw, if_pos hw]; exact ih _ _ _ _ hcs
          · rw [if_neg hw, if_neg hw]
            by_cases h : env.holds p val = true
            · simp only [h, if_true]; exact ih _ _ _ _ hcs
            · simp only [h, if_false, Bool.false_eq_true]
              by_cases ha : abort = true
              · simp [ha]
              · simp only [ha, if_false, Bool.false_eq_true]; exact ih _ _ _ _ hcs

/-- **C10 on containers (partial).** When no vacuous check precedes the first overwrite, a container
    schema reports exactly the issues and returns exactly the value of the regular loop — so
    `c10_issue_order`, `c10_first_failing`, `c10_abort_stops` (on the issue list), `c10_ok_iff_no_fail`
    and `c10_ok_value` hold for it verbatim. -/
theorem c10_container_partial (env : Env P O T V) (vac : P → Bool) (cs : List (Check P O)) (v : V)
    (h : vacFree vac cs = true) :
    (runChecksC env vac cs v).issues = (runChecks env cs v).issues ∧
    (runChecksC env vac cs v).val = (runChecks env cs v).val := by
  unfold runChecksC
  by_cases ho : hasOverwrite cs = true
  · simp only [ho, if_true]
    have hfp : firstPassC env vac 0 cs v true [] [] = runChecks env cs v := firstPassC_vacFree env vac cs 0 v [] [] h
    rw [hfp]
    by_cases hi : (runChecks env cs v).issues = []
    · simp [hi]
    · simp [hi]
  · simp [ho]

/-- Corollary: under the same hypothesis a container accepts exactly when no check fails. -/
theorem c10_container_ok_iff (env : Env P O T V) (vac : P → Bool) (cs : List (Check P O)) (v : V)
    (h : vacFree vac cs = true) :
    (runChecksC env vac cs v).issues = [] ↔ ∀ k, k < cs.length → failsAt env cs k v = false := by
  rw [(c10_container_partial env vac cs v h).1]
  exact c10_ok_iff_no_fail env cs v

/-- The full statement: a container accepts exactly when no check fails, whatever the check list. -/
def c10_container_full (env : Env P O T V) (vac : P → Bool) : Prop :=
  ∀ (cs : List (Check P O)) (v : V),
    (runChecksC env vac cs v).issues = [] ↔ ∀ k, k < cs.length → failsAt env cs k v = false

/-- A two-check instance: predicate `false` (a length check the value violates) then an overwrite. -/
def witnessEnv : Env Bool Unit Unit Nat := ⟨fun p _ => p, fun _ v => v, fun _ v => v⟩

example : vacFree (fun (_ : Bool) => false) [Check.pred false false none, Check.overwrite ()] = true := by decide

/-- **Witness** (`Slice[int](Int()).Max(0).Overwrite(id).Parse([]int{7})` succeeds): with a vacuous
    check before an overwrite the container accepts although check 0 fails — the full statement is false. -/
theorem c10_container_first_pass_witness : ¬ c10_container_full witnessEnv (fun _ => true) := by
  intro h
  have := (h [Check.pred false false none, Check.overwrite ()] 7).mp (by decide)
  exact absurd (this 0 (by decide)) (by decide)

/-- Pipelines without container bases are the pipelines of `parsePipeline`. -/
theorem parsePipelineK_erase (env : Env P O T V) (vac : P → Bool) (p : PipelineK P O T)
    (h : p.noContainer = true) : ∀ (v : V) (pin : Bool),
      (parsePipelineK env vac p v pin).out = (parsePipeline env p.erase v pin).out ∧
      (parsePipelineK env vac p v pin).isPtr = (parsePipeline env p.erase v pin).isPtr ∧
      (parsePipelineK env vac p v pin).log = (parsePipeline env p.erase v pin).log := by
  induction p with
  | base tag ps c cs =>
    intro v pin
    simp only [PipelineK.noContainer, Bool.not_eq_true'] at h
    simp [parsePipelineK, parsePipeline, PipelineK.erase, h]
  | transform s i t ih =>
    intro v pin
    have := ih h v pin
    simp only [parsePipelineK, parsePipeline, PipelineK.erase]
    rw [this.1, this.2.2]
    cases (parsePipeline env s.erase v pin).out <;> simp
  | pipe a b iha ihb =>
    intro v pin
    simp only [PipelineK.noContainer, Bool.and_eq_true] at h
    have ha := iha h.1 v pin
    simp only [parsePipelineK, parsePipeline, PipelineK.erase]
    rw [ha.1, ha.2.1, ha.2.2]
    cases hx : (parsePipeline env a.erase v pin).out with
    | error e => simp
    | ok x =>
      have hb := ihb h.2 x (parsePipeline env a.erase v pin).isPtr
      simp [hb.1, hb.2.1, hb.2.2]

end Gozod.C10
