package main

// Schema types the Lean model does not cover (the checked list `c07_unmodelled_gap`): a fixed set of schemas of those
// types is converted, and the property is judged on the IMPLEMENTATION ALONE — real Parse, the independent validator
// (kaptinlin/jsonschema) on the real document — for a handful of instances each.  No model stands behind these ops
// (`c07 udoc NAME`, `c07 uinst NAME IDX`; the driver answers `unmodelled`); a failing triple is a finding
// `<direction>:unmodelled:<class>`.

import (
	"encoding/json"
	"fmt"

	"github.com/kaptinlin/gozod"
	"github.com/kaptinlin/gozod/core"
	"github.com/kaptinlin/gozod/types"

	"verifharness/hx"
)

type uCase struct {
	class  string
	name   string
	schema func() core.ZodSchema
	insts  []string // JSON texts
}

func strs(xs ...string) []string {
	out := make([]string, len(xs))
	for i, x := range xs {
		b, _ := json.Marshal(x)
		out[i] = string(b)
	}
	return out
}

func unmodelledCases() []uCase {
	common := []string{`1`, `null`, `true`, `[]`, `{}`}
	f := func(class, name string, mk func() core.ZodSchema, good, bad []string) uCase {
		return uCase{class, name, mk, append(append(strs(good...), strs(bad...)...), common...)}
	}
	du := func() core.ZodSchema {
		return types.DiscriminatedUnion("type", []any{
			gozod.StrictObject(core.ObjectSchema{"type": gozod.Literal("a"), "x": gozod.String()}),
			gozod.StrictObject(core.ObjectSchema{"type": gozod.Literal("b"), "y": gozod.Int()}),
		})
	}
	return []uCase{
		f("format-email", "email", func() core.ZodSchema { return types.Email() }, []string{"a@b.co"}, []string{"a@", "nope", ""}),
		f("format-ipv4", "ipv4", func() core.ZodSchema { return types.IPv4() }, []string{"10.0.0.1"}, []string{"256.1.1.1", "1.2.3", "::1"}),
		f("format-ipv6", "ipv6", func() core.ZodSchema { return types.IPv6() }, []string{"::1", "2001:db8::1"}, []string{"1.2.3.4", ":::", "g::1"}),
		f("format-cidrv4", "cidrv4", func() core.ZodSchema { return types.CIDRv4() }, []string{"10.0.0.0/8"}, []string{"10.0.0.0/33", "10.0.0.0"}),
		f("format-cidrv6", "cidrv6", func() core.ZodSchema { return types.CIDRv6() }, []string{"2001:db8::/32"}, []string{"2001:db8::/129", "::1"}),
		f("format-url", "url", func() core.ZodSchema { return types.URL() }, []string{"https://example.com/a?b=1"}, []string{"not a url", "//x", ""}),
		f("format-hostname", "hostname", func() core.ZodSchema { return types.Hostname() }, []string{"example.com"}, []string{"-bad-.com", "a b"}),
		f("format-mac", "mac", func() core.ZodSchema { return types.MAC() }, []string{"00:1a:2b:3c:4d:5e"}, []string{"00:1a:2b:3c:4d", "zz:zz:zz:zz:zz:zz"}),
		f("format-e164", "e164", func() core.ZodSchema { return types.E164() }, []string{"+14155552671"}, []string{"14155552671", "+0123", "+"}),
		f("format-iso-datetime", "isodatetime", func() core.ZodSchema { return types.IsoDateTime() }, []string{"2024-02-29T12:30:00Z"}, []string{"2024-02-30T12:30:00Z", "2024-02-29 12:30:00", "2024-02-29T25:00:00Z"}),
		f("format-iso-date", "isodate", func() core.ZodSchema { return types.IsoDate() }, []string{"2024-02-29"}, []string{"2023-02-29", "2024-2-9", "20240229"}),
		f("format-iso-time", "isotime", func() core.ZodSchema { return types.IsoTime() }, []string{"12:30:00"}, []string{"25:00:00", "12:30", "12:30:00Z"}),
		f("format-iso-duration", "isoduration", func() core.ZodSchema { return types.IsoDuration() }, []string{"P1DT2H"}, []string{"1 day", "P", "PT"}),
		{"discriminated-union", "du", du, []string{`{"type":"a","x":"s"}`, `{"type":"b","y":1}`, `{"type":"c"}`, `{"type":"a","y":1}`, `{"type":"a","x":"s","y":1}`,
			`{"x":"s"}`, `{}`, `null`, `"a"`, `[]`}},
		{"default", "default-str", func() core.ZodSchema { return gozod.String().Default("dflt") }, []string{`"v"`, `null`, `1`, `""`}},
		{"default", "default-str-min", func() core.ZodSchema { return gozod.String().Min(5).Default("x") }, []string{`"value"`, `null`, `"v"`, `1`}},
		{"default", "default-field", func() core.ZodSchema {
			return gozod.StrictObject(core.ObjectSchema{"a": gozod.String().Default("d"), "b": gozod.Int()})
		}, []string{`{"a":"v","b":1}`, `{"b":1}`, `{"a":null,"b":1}`, `{"a":"v"}`, `{}`}},
		{"prefault", "prefault-str-min", func() core.ZodSchema { return gozod.String().Min(5).Prefault("x") }, []string{`"value"`, `null`, `"v"`}},
		{"prefault", "prefault-field", func() core.ZodSchema {
			return gozod.StrictObject(core.ObjectSchema{"a": gozod.String().Prefault("dd"), "b": gozod.Int()})
		}, []string{`{"a":"v","b":1}`, `{"b":1}`, `{"a":null,"b":1}`}},
		{"stringbool", "stringbool", func() core.ZodSchema { return types.StringBool() }, []string{`"true"`, `"no"`, `"maybe"`, `true`, `1`, `null`}},
		{"set", "set-int", func() core.ZodSchema { return gozod.Set[int](gozod.Int()) }, []string{`[1,2]`, `[1,1]`, `["a"]`, `null`}},
		{"bigint", "bigint", func() core.ZodSchema { return types.BigInt() }, []string{`1`, `"1"`, `null`}},
		{"refine", "refine", func() core.ZodSchema { return gozod.String().Refine(func(s string) bool { return len(s) == 3 }) }, []string{`"abc"`, `"ab"`, `1`}},
	}
}

func intify(v any) any {
	switch x := v.(type) {
	case float64:
		if x == float64(int(x)) {
			return int(x)
		}
	case []any:
		for i, e := range x {
			x[i] = intify(e)
		}
	case map[string]any:
		for k, e := range x {
			x[k] = intify(e)
		}
	}
	return v
}

func runUnmodelled(out *hx.Out) {
	for _, uc := range unmodelledCases() {
		var real core.ZodSchema
		if pm := hx.Safely(func() { real = uc.schema() }); pm != "" || real == nil {
			out.Emit("c07 udoc "+uc.name+" #class="+uc.class, "build-panic")
			continue
		}
		out.Count("unmodelled:" + uc.class)
		c := convertReal(real, defaultOpt)
		switch {
		case c.panic != "":
			out.Emit("c07 udoc "+uc.name+" #class="+uc.class, "panic")
			continue
		case c.err != "":
			// a conversion error puts the schema outside the property ("every schema that ToJSONSchema converts without error")
			out.Emit("c07 udoc "+uc.name+" #class="+uc.class, "error")
			continue
		}
		out.Emit("c07 udoc "+uc.name+" #class="+uc.class+" doc="+string(c.raw), b01(c.wf)+" document")
		if c.v == nil {
			continue
		}
		for i, it := range uc.insts {
			var in any
			if err := json.Unmarshal([]byte(it), &in); err != nil {
				continue
			}
			in = intify(in) // the embedding of the modelled cases: an integral JSON number is a Go int
			var ret any
			var perr error
			p := "1"
			if pm := hx.Safely(func() { ret, perr = real.ParseAny(in) }); pm != "" {
				p = "0"
				panics++
			} else if perr != nil {
				p = "0"
			}
			vr := "-"
			if p == "1" {
				if rb, err := json.Marshal(jsonable(ret)); err != nil {
					vr = "unmarshalable"
				} else if vm := hx.Safely(func() { vr = b01(c.v.ValidateJSON(rb).IsValid()) }); vm != "" {
					vr = "vpanic"
				}
			}
			vi := "vpanic"
			hx.Safely(func() { vi = b01(c.v.ValidateJSON([]byte(it)).IsValid()) })
			out.Count("unmodelled-verdict:" + p + " " + vr + " " + vi)
			out.Emit(fmt.Sprintf("c07 uinst %s %d #class=%s instance=%s doc=%s", uc.name, i, uc.class, it, string(c.raw)), p+" "+vr+" "+vi)
		}
	}
}
