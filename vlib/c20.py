"""C20 — format validators accept exactly the well-formed strings of their format; the exported JSON-Schema pattern matches the same strings."""
import json, os, re, shutil
from . import common as C

MANIFEST = dict(
   technique="Lean 4 proof: regex-derivative matcher vs per-format specification automaton, equivalence for ALL strings from a kernel-checked bisimulation certificate; regexes regenerated from the library by a translator on every run; the Go parsers behind the validators (time.Parse layouts, netip.ParsePrefix/ParseAddr/parseIPv4Fields/parseIPv6, strconv.Atoi) transcribed from the Go source and proved equal to the definitions for all strings; real schemas tied by differential correspondence on single-edit neighbourhoods",
   text="For IPv4, Hex, E.164, MAC (':' '-' '.'), Base64, UUID (generic, v4, v6, v7, UUID(\"vN\")), GUID the theorem c20_<fmt> (fmt = ipv4, hex, e164, mac, macdash, macdot, base64, uuid, uuidv4/6/7, uuidp4/6/7, guid) proves for every byte string that the validator's regular expression (translated from the live regexp object by regexp/syntax on every run) accepts it iff the format's definition (a small step automaton written independently) does; c20_<fmt>_pattern proves the same for the pattern exported to JSON Schema. Parser-validated formats: c20_isodate (time.Parse(\"2006-01-02\") transcription = calendar dates), c20_isodatetime (guard pattern AND time.Parse(RFC3339) transcription = RFC 3339), c20_base64url (pattern AND length rule = RFC 4648 s.5), c20_cidrv4_netip, c20_ipv6_netip, c20_cidrv6_netip (netip.ParsePrefix / ParseAddr / parseIPv4Fields / parseIPv6 transcribed from the Go source = the definitions) - all for ALL strings; the exported patterns of CIDRv4, ISO date, all 28 IsoDateTime(options) sets and 7 IsoTime(options) sets and the default IsoTime() have full theorems. Partial + witness where the code deviates: the default date-time pattern (seconds optional), the Base64URL pattern (no length rule), the IPv6/CIDRv6 patterns: c20_ipv6_pattern_nozone / c20_cidrv6_pattern_nozone prove them right on every string without '%' outside the excluded region Fmt.ipv6QuadDefect (dotted-quad addresses with a leading-zero octet or an outline of the hex part the pattern does not know), *_partial_all on all strings; the witnesses show the three defect classes (open findings: the pattern text is pinned by two JSON-text comparisons in jsonschema/to_test.go and by nothing else). The driver evaluates Re.accepts itself — the subject of these theorems — on every generated case (the derivative-automaton table is used by the certificate search only, whose output the kernel checks). There is no c20_cidrv4 / c20_ipv6 / c20_cidrv6 theorem about a regex: these three validators are parsers, and their theorems are the *_netip ones. If a regex changes, the certificate is recomputed; if it is no longer equivalent the search returns a shortest distinguishing string which is replayed against the real schema.",
   note="Trusted: Lean kernel; axioms propext/Classical.choice/Quot.sound only; the translator (regexp/syntax AST -> Lean term; validated by comparing Re.accepts with Go regexp on every generated case); the specification automata in Model/FormatSpec*.lean as the reading of the documented formats; Go regexp semantics as the reading of a JSON-Schema pattern; the hand transcriptions of the Go standard library parsers (Model/GoParsers.lean, Model/GoNetip.lean: go1.26 time/format.go, net/netip/netip.go, strconv.Atoi) - they are the driver's validator models and are compared with the real functions through schema.Parse on every generated case, and a go/ast structure fingerprint ties the pkg/validate functions that call them. The IPv6 definition has two independent readings (automaton, list-based) cross-checked at run time.",
   design="DESIGN.md §5 C20; notes/C20.md")

MODULES = ["Gozod.Proofs.C20", "Gozod.Proofs.C20DateTime", "Gozod.Proofs.C20Parsers", "Gozod.Proofs.C20Rfc3339", "Gozod.Proofs.C20V6Dot", "Gozod.Proofs.C20Base64URL", "Gozod.Proofs.C20Netip", "Gozod.Proofs.C20IsoTime", "Gozod.Proofs.C20Netip6"]
REGEX_FORMATS = ["ipv4", "hex", "e164", "mac", "macdash", "base64", "uuid", "uuidv4", "uuidv6", "uuidv7", "guid"]
OPTION_JOBS = ["macdot"] + ["tmo_" + p for p in "nm01239"]
DTO = ["%s_%s_%s" % (p, o, l) for p in "nm01239" for o in "01" for l in "01"]   # IsoDateTime(options): precision x offset x local
TAIL_JOBS = ["dtt_" + x for x in DTO] + ["dtt_rfc_optsec"]                      # certificates of what follows the date
THEOREMS = (["Gozod.C20.bisim_sound", "Gozod.C20.bisim_sound_full"]
    + ["Gozod.C20.c20_%s" % f for f in REGEX_FORMATS] + ["Gozod.C20.c20_%s_pattern" % f for f in REGEX_FORMATS]
    + ["Gozod.C20.c20_cidrv4_pattern", "Gozod.C20.isoDate_quot", "Gozod.C20.c20_isodate_pattern",
       "Gozod.C20.c20_isodatetime_pattern_optsec", "Gozod.C20.c20_isodatetime_pattern_partial", "Gozod.C20.c20_isodatetime_pattern_witness",
       "Gozod.C20.c20_isodatetime_goparse_witness",] + ["Gozod.C20.c20_%s" % j for j in OPTION_JOBS] + [ "Gozod.C20.c20_base64url_pattern_partial", "Gozod.C20.c20_base64url_pattern_witness"]
    # IPv6 / CIDRv6 (certificates over the strings without '.' and '%'; witnesses for the three defect classes)
    + ["Gozod.C20.bisim_sound_R", "Gozod.C20.bisim_sound_R_full", "Gozod.C20.ipv6_hex_quot", "Gozod.C20.cidrv6_hex_quot",
       "Gozod.C20.c20_ipv6_pattern_partial", "Gozod.C20.c20_cidrv6_pattern_partial",
       "Gozod.C20.c20_ipv6_witnesses", "Gozod.C20.c20_ipv6_pattern_witness",
       "Gozod.C20.c20_cidrv6_pattern_witnesses", "Gozod.C20.c20_cidrv6_pattern_witness"]
    # the matcher is the language; concatenation; date-time = date (10 bytes) . tail; all 28 option sets
    + ["Gozod.Re.accepts_iff_lang", "Gozod.Re.accepts_seq", "Gozod.Re.accepts_alt", "Gozod.C20.date_length", "Gozod.C20.dateThen_split",
       "Gozod.C20.accepts_date_seq", "Gozod.C20.datetime_of_tail", "Gozod.C20.c20_dto_of"]
    + ["Gozod.C20.c20_dto_%s" % x for x in DTO] + ["Gozod.C20.c20_dto_%s_pattern" % x for x in DTO]
    + ["Gozod.C20.c20_isodatetime_pattern_optsec_full", "Gozod.C20.isoDateTime_quot", "Gozod.C20.c20_isodatetime_pattern_partial_full"]
    # validator side: time.Parse("2006-01-02") transcription = the calendar-date definition; UUID("vN") = two checks
    + ["Gozod.C20.goDate10", "Gozod.C20.isoDate10", "Gozod.C20.goDate_length", "Gozod.C20.c20_isodate", "Gozod.C20.run_incl", "Gozod.C20.uuid_incl"]
    + ["Gozod.C20.c20_uuidp%s%s" % (v, p) for v in "467" for p in ("", "_pattern")]
    # validator side of ISO date-time: guard pattern AND the transcription of time.Parse(RFC3339) = RFC 3339, all strings
    + ["Gozod.C20.tail_spec", "Gozod.C20.goDatePrefix_split", "Gozod.C20.tail_guard_go", "Gozod.C20.c20_isodatetime"]
    # IPv6 / CIDRv6 patterns on the strings with a dotted quad: all strings without '%' outside the excluded region Fmt.*QuadDefect; then all strings
    + ["Gozod.C20.ipv6_octet_quot", "Gozod.C20.cidrv6_octet_quot", "Gozod.C20.c20_ipv6_pattern_nozone", "Gozod.C20.c20_cidrv6_pattern_nozone",
       "Gozod.C20.c20_ipv6_defects_excluded", "Gozod.C20.ipv6QuadDefect_nodot", "Gozod.C20.cidrv6QuadDefect_nodot", "Gozod.C20.run_false_of_foreign", "Gozod.C20.c20_ipv6_pattern_partial_all", "Gozod.C20.c20_cidrv6_pattern_partial_all"]
    # validator side of Base64URL: pattern AND the length rule = RFC 4648 §5, all strings
    + ["Gozod.C20.run_inv", "Gozod.C20.base64url_len", "Gozod.C20.badLen_len", "Gozod.C20.c20_base64url"]
    # validator side of CIDRv4: netip.ParsePrefix / ParseAddr / parseIPv4Fields / strconv.Atoi transcribed from the Go source = the definition, all strings
    + ["Gozod.C20.ipv4Fields_run", "Gozod.C20.addrKind_of_run", "Gozod.C20.parseAddrIs4_run", "Gozod.C20.prefixBits_run", "Gozod.C20.cidr_split",
       "Gozod.C20.c20_cidrv4_netip"]
    # the default IsoTime(): exported pattern = definition; validator's own pattern = definition outside hh:mm:ss ',' digit+ (witness)
    + ["Gozod.C20.extend_run", "Gozod.C20.isoTimeC_run", "Gozod.C20.c20_isotime_pattern", "Gozod.C20.c20_isotime_partial", "Gozod.C20.c20_isotime",
       "Gozod.C20.c20_isotime_validator_vs_pattern"]
    # validator side of IPv6 / CIDRv6: netip.parseIPv6 transcribed from the Go source = the RFC 4291 automaton, all strings
    + ["Gozod.C20.sim5", "Gozod.C20.oct_step", "Gozod.C20.doomed14", "Gozod.C20.dispatch", "Gozod.C20.in_group", "Gozod.C20.head_sim",
       "Gozod.C20.parseIPv6_run", "Gozod.C20.addrKind6_of_run", "Gozod.C20.c20_ipv6_netip", "Gozod.C20.prefixBits128_run", "Gozod.C20.cidr6_split",
       "Gozod.C20.c20_cidrv6_netip"])

# certificate job -> format name of the correspondence
JOB_FORMAT = {"isodatetime_optsec": "isodatetime", "isodatetime_partial": "isodatetime", "base64url_partial": "base64url",
              "dtt_rfc_optsec": "isodatetime", **{"dtt_" + x: "dto_" + x for x in DTO},
              "ipv6_nopct": "ipv6", "cidrv6_nopct": "cidrv6",
              "ipv6_dot": "ipv6", "cidrv6_dot": "cidrv6", "isotime_pat": "isotime", "isotime_partial": "isotime"}
# jobs whose certificate the proof module imports (a `differ` there breaks a theorem)
REQUIRED_JOBS = set(REGEX_FORMATS) | {"cidrv4", "isodate", "isodatetime_optsec", "isodatetime_partial", "base64url_partial"} | set(OPTION_JOBS) | {"ipv6_dot", "cidrv6_dot", "isotime_pat", "isotime_partial", "isotime"} | set(TAIL_JOBS)

GEN = os.path.join(C.LEAN, "Gozod", "Gen")

def unhex(h):
    return b"" if h == "-" else bytes.fromhex(h)

B64URL = set(b"ABCDEFGHIJKLMNOPQRSTUVWXYZabcdefghijklmnopqrstuvwxyz0123456789-_")

def classify(fmt, s):
    """failure class of a string of a format (specific enough that other failures of the format stay visible)"""
    t = s.decode("latin-1")
    if fmt == "base64url":
        body = s.rstrip(b"=")
        if all(c in B64URL for c in body):
            if b"=" not in s and len(s) % 4 == 1: return "unpadded-length-1-mod-4"
            if b"=" in s: return "padding-not-completing-a-group"
        return "other"
    if fmt == "isotime":
        if re.fullmatch(r"\d\d:\d\d:\d\d,\d+", t): return "comma-fraction"
        return "other"
    if fmt == "isodatetime":
        if "," in t: return "comma-fraction"
        if re.search(r"T\d:", t): return "one-digit-hour"
        if re.search(r"[+-]24:\d\d$", t) or re.search(r"[+-]\d\d:60$", t): return "offset-24h-or-60m"
        if re.search(r"T\d\d:\d\d(Z|[+-]\d\d:\d\d)$", t): return "no-seconds"
        return "other"
    if fmt in ("cidrv4", "cidrv6"):
        if "%" in t: return "zone"
        m = re.search(r"/(\d+)$", t)
        if m and len(m.group(1)) > 1 and m.group(1)[0] == "0": return "prefix-leading-zero"
        if fmt == "cidrv4" and ":" in t: return "v6-address"
        if fmt == "cidrv6": return "v6:" + classify("ipv6", s.split(b"/")[0])
        return "other"
    if fmt == "ipv6":
        if "%" in t: return "zone"
        if "." in t:
            if re.search(r"(^|[:.])0\d", t): return "v4-leading-zero"
            return "embedded-v4"
        return "other"
    return "any"

def key(op, impl, M, S):
    t = C.op_body(op).split(" ")
    fmt = t[1]
    s = unhex(t[2])
    if impl.startswith("panic"): return fmt + ":panic"
    if len(impl) != 2 or S is None or len(S) != 2: return fmt + ":" + impl[:40]
    sides = []
    if impl[0] != S[0]: sides.append("validator-accepts" if impl[0] == "1" else "validator-rejects")
    if impl[1] != S[1]: sides.append("pattern-accepts" if impl[1] == "1" else "pattern-rejects")
    if not sides: sides = ["model-drift"]
    fam = fmt.split("_")[0]
    if fam in ("dto", "tmo") and impl[0] == S[0]:
        # the check exports regex.DefaultDatetime / regex.DefaultTime whatever the options are
        return fam + ":exported-pattern-ignores-options"
    return "%s:%s:%s" % (fmt, "+".join(sides), classify(fmt, s))

PREC = {"n": "nil", "m": "PrecisionMinute(-1)", "0": "PrecisionSecond(0)"}

def describe(op):
    t = C.op_body(op).split(" ")
    f = t[1].split("_")
    if f[0] in ("dto", "tmo"):
        prec = PREC.get(f[1], f[1])
        ctor = ("gozod.IsoDateTime(gozod.IsoDatetimeOptions{Precision: %s, Offset: %s, Local: %s})" % (prec, f[2] == "1", f[3] == "1")
                if f[0] == "dto" else "gozod.IsoTime(gozod.IsoTimeOptions{Precision: %s})" % prec)
        order = C.op_comment(op).split(":")[-1]
        return ("%s.Parse(%r) — all option variants of the constructor are used interleaved in ONE process, variants taken in %s order "
                "(fwd: precision nil,-1,0,1,2,3,9 x offset x local as listed in formats.go; rev: the reverse, in a second process): "
                "the verdict depends on which variant was validated first" % (ctor, unhex(t[2]).decode("latin-1"), "reverse" if order == "rev" else "forward"))
    return "gozod.<%s constructor>().Parse(%r); pattern = jsonschema.ToJSONSchema(schema).Pattern matched with Go regexp" % (t[1], unhex(t[2]).decode("latin-1"))

def fingerprints():
    """(expected, found): structure fingerprints of the parser-based validators — recorded next to the Lean transcriptions
    (Model/GoParsers.lean) vs extracted from pkg/validate by the translator (Gen/Regexes.lean)"""
    exp, got = {}, {}
    for l in open(os.path.join(C.LEAN, "Gozod", "Model", "GoParsers.lean")):
        m = re.match(r"\s*-- fingerprint (\w+): (.*)$", l.rstrip("\n"))
        if m: exp[m.group(1)] = m.group(2).strip()
    for l in open(os.path.join(GEN, "Regexes.lean")):
        m = re.match(r'def fp_(\w+) : String := (".*")$', l.rstrip("\n"))
        if m: got[m.group(1)] = json.loads(m.group(2)).strip()
    return exp, got

def run_harness(res, extra_cases):
    rundir = os.path.join(C.BUILD, "run", "C20-%s-%d" % (res.tier, os.getpid()))
    shutil.rmtree(rundir, ignore_errors=True)
    os.makedirs(rundir)
    env = C.goenv(); env["GOMEMLIMIT"] = "8GiB"; env["VERIF_REPO"] = C.REPO
    streams = []
    # 1. distinguishing strings found by the certificate search, replayed on the real code
    dirs = []
    if extra_cases:
        d = os.path.join(rundir, "replay"); os.makedirs(d)
        with open(os.path.join(d, "cases.txt"), "w") as f:
            for fmt, hx in extra_cases: f.write("%s %s\n" % (fmt, hx))
        rc, out = C.run([C.harness_bin("C20"), "-seed", str(res.seed), "-tier", res.tier, "-out", d, "-cases", os.path.join(d, "cases.txt")], env=env, timeout=600)
        if rc != 0: return None, "harness (replay) failed rc=%d\n%s" % (rc, out[-3000:])
        dirs.append(d)
    d = os.path.join(rundir, "gen"); os.makedirs(d)
    rc, out = C.run([C.harness_bin("C20"), "-seed", str(res.seed), "-tier", res.tier, "-out", d], env=env, timeout=7200)
    if rc != 0: return None, "harness failed rc=%d\n%s" % (rc, out[-3000:])
    dirs.append(d)
    # the option families once more in a fresh process with the variants used in the reverse order
    # (process-wide state such as a regex cache makes the verdicts depend on which variant came first)
    d = os.path.join(rundir, "rev"); os.makedirs(d)
    rc, out = C.run([C.harness_bin("C20"), "-seed", str(res.seed), "-tier", res.tier, "-out", d, "-onlyopt", "-optorder", "rev"], env=env, timeout=7200)
    if rc != 0: return None, "harness (reverse option order) failed rc=%d\n%s" % (rc, out[-3000:])
    dirs.append(d)
    ops, impl, model = [], [], []
    stats = {}
    for d in dirs:
        with open(os.path.join(d, "ops.txt")) as fin, open(os.path.join(d, "model.txt"), "w") as fout:
            rc, _ = C.run([C.driver_bin("C20")], stdin=fin, stdout=fout, timeout=7200)
        if rc != 0: return None, "driver failed rc=%d" % rc
        rd = lambda n: [l for l in open(os.path.join(d, n)).read().split("\n")]
        o, i, m = rd("ops.txt"), rd("impl.txt"), rd("model.txt")
        for x in (o, i, m):
            if x and x[-1] == "": x.pop()
        if not (len(o) == len(i) == len(m)):
            return None, "stream length mismatch ops=%d impl=%d model=%d" % (len(o), len(i), len(m))
        ops += o; impl += i; model += m
        stats = json.load(open(os.path.join(d, "stats.json")))
    shutil.rmtree(rundir, ignore_errors=True)
    return (ops, impl, model, stats), ""

def run(res):
    cov = res.coverage
    # --- translator: regenerate Gen/Regexes.lean from the working tree ---
    ok, out = C.build_harness("C20")
    if not ok:
        C.tie_broken(res, "harness C20 does not build against the library", out[-3000:]); return res.finish()
    env = C.goenv(); env["VERIF_REPO"] = C.REPO
    tmp = os.path.join(C.BUILD, "run", "C20-gen-%d" % os.getpid()); os.makedirs(tmp, exist_ok=True)
    with C.Lock("c20gen"):
        rc, out = C.run([C.harness_bin("C20"), "-out", tmp, "-gen", GEN], env=env, timeout=600)
    # A translator that stops (rc != 0) or cannot classify some validator (opaque.txt: an unknown reference or call in it)
    # is a broken tie, reported below — but it writes no Gen file then, so the last good ones stay and the correspondence
    # still runs for every format: the specification automaton does not depend on the translator, and a disagreement of
    # the real validator with it is a VIOLATION with the input. Only if none is found: no-failing-input-found.
    gen_problem, opaque = None, {}
    if rc != 0:
        gen_problem = "the translator stopped; the Gen files are the last good ones\n" + out[-3000:]
    elif os.path.exists(os.path.join(tmp, "opaque.txt")):
        for l in open(os.path.join(tmp, "opaque.txt")):
            if "\t" in l: opaque[l.split("\t")[0]] = l.rstrip("\n").split("\t", 1)[1]
        gen_problem = ("validator(s) the translator cannot classify (kind \"opaque\": no theorem speaks about them; the Gen files are the last good ones):\n"
                       + "\n".join("  %s: %s" % kv for kv in sorted(opaque.items())))
    cov["opaque_validators"] = opaque
    if gen_problem:
        res.notes.append("C20 translator: " + gen_problem)
        print("NOTE property=C20 broken tie (reported whatever the correspondence finds): translator: " + gen_problem.replace("\n", " | ")[:600])
    # --- certificates: recompute from the regenerated regexes (written only when changed) ---
    ok, out = C.lake_build(["driver_c20"])
    if not ok:
        C.tie_broken(res, "lake build driver_c20", out[-3000:]); return res.finish()
    status = os.path.join(tmp, "cert_status.txt")
    rc, out = C.run([C.driver_bin("C20"), "--emit-cert", GEN, status], timeout=1800)
    if rc != 0 or not os.path.exists(status):
        C.tie_broken(res, "driver_c20 --emit-cert", out[-3000:]); return res.finish()
    extra, certs, broken = [], {}, []
    for line in open(status):
        t = line.split()
        if not t: continue
        certs[t[0]] = " ".join(t[1:])
        if t[1] == "differ":
            # a tail job distinguishes what follows the date: replay it behind a valid date
            hx = t[2] if not t[0].startswith("dtt_") else b"2020-01-01".hex() + ("" if t[2] == "-" else t[2])
            extra.append((JOB_FORMAT.get(t[0], t[0]), hx))
            if t[0] in REQUIRED_JOBS: broken.append("%s: pattern and definition differ on hex %s" % (t[0], t[2]))
        elif t[1] == "error":
            broken.append("%s: %s" % (t[0], " ".join(t[2:])))
    cov["certificates"] = certs
    shutil.rmtree(tmp, ignore_errors=True)
    # --- proofs ---
    if broken:
        cov["obligations"] = len(THEOREMS); cov["discharged"] = 0; cov["theorems"] = THEOREMS
        cov["checker_cmd"] = "cd /verif/lean && lake build " + " ".join(MODULES)
        cov["trusted_base"] = C.TRUSTED_BASE
        proof_problem = "no bisimulation certificate exists any more:\n" + "\n".join(broken)
    else:
        ok, detail = C.prove(res, MODULES, THEOREMS)
        proof_problem = None if ok else detail
    # --- correspondence (the distinguishing strings are replayed first) ---
    data, err = run_harness(res, extra)
    if data is None:
        C.tie_broken(res, "correspondence C20/formats", err); return res.finish()
    C.decide(res, "C20", data, key, "C20/formats", describe=describe)
    if gen_problem and not res.violations:
        C.tie_broken(res, "translator C20 (pkg/regex, pkg/validate -> Gen/Regexes.lean)", gen_problem)
    if proof_problem and not res.violations:
        C.tie_broken(res, "proof Gozod.Proofs.C20", proof_problem)
    exp, got = fingerprints()
    cov["validator_fingerprints"] = got
    bad = ["%s: expected [%s] found [%s]" % (k, exp.get(k), got.get(k)) for k in sorted(set(exp) | set(got)) if exp.get(k) != got.get(k)]
    if bad and not res.violations:
        C.tie_broken(res, "fingerprint of a parser-based validator (pkg/validate/validate.go vs Model/GoParsers.lean)", "\n".join(bad))
    cov["stdlib_recognisers_agreement"] = data[3].get("stdlib_recognisers", {})
    cov["rule"] = ("per format: fixed + random valid samples (boundary-biased octets, prefix lengths, leap years, digit counts) and hand-picked near misses; "
        "every single-edit neighbour of each (insert/substitute every alphabet byte and 20 foreign bytes at every position, delete, duplicate (separator), swap, "
        "case flip, whole-string case, append/prepend newline/space/CRLF, UTF-8 letter, doubled string) plus random double edits; distinct = distinct (format, string)")
    res.assumptions += [
        "a JSON-Schema pattern is read with Go regexp semantics ($ = end of text); all C20 patterns are ASCII classes, anchored",
        "Fmt.* automata are the reading of the documented formats (RFC 4648 padding, RFC 3339 seconds mandatory, no leading zeros in octets/prefix lengths)",
        "IPv6/CIDRv6 patterns: the all-strings theorems exclude the region Fmt.*QuadDefect and the '%'-strings the pattern takes; there RFC 4291 recognisers (two readings) vs the library on generated cases, with the listed open pattern findings",
        "Model/GoNetip.lean, Model/GoParsers.lean transcribe go1.26 net/netip, time.Parse layouts and strconv.Atoi faithfully (proved equal to the definitions for all strings; compared with the real functions on every generated case)",
    ]
    return res.finish()
