/-
  C13, round 4 — "the file gozodgen writes type-checks against the library", as a judgement in the model.

  * `MethodTable`: what the library offers (REGENERATED as `Gozod.Gen.methodTable` by harness/cmd/c13/methods.go:
    reflection over the library the harness is linked against + go/ast for the inferability of type parameters):
    the constructors gozodgen names, and for every schema type they return — closed under the methods gozodgen
    can emit — ALL exported methods with parameter kinds, variadic flag and result type.
  * `wellTyped T chain`: the Go typing rules that matter for an emitted chain — the constructor exists and can be
    called the way it is written (explicit instantiation / inferable type parameters / argument count), every
    method exists on the type the previous call returned, the argument count fits, every argument is assignable
    to its parameter (untyped constants: representability in the parameter's basic kind).
    `none` = an argument outside the classified literals (an identifier, an expression): not judged.
  * `importsUsed`: every import gozodgen writes is used by some emitted expression (an unused import is a compile error).
-/
import Gozod.Model.GenEmit
namespace Gozod.GenTyped
open Gozod.GenEmit Gozod.TagParser

/-- parameter kinds (reflect.Kind of the parameter type; `*regexp.Regexp`; the empty interface; anything else) -/
inductive PK
  | basic (b : Basic) | regexp | any | other
  | schemaOf        -- `core.ZodType[V]`, V the constructor's last type argument (gozod.Record's value schema)
  deriving DecidableEq, Repr

structure MethodSig where
  name : String
  params : List PK          -- the fixed parameters
  variadic : Bool           -- a final `...T` parameter (gozodgen never passes anything to it)
  result : Option Nat       -- index of the result type in the table
  deriving Repr

structure TypeEntry where
  goName : String
  zodTypeAny : Bool         -- implements core.ZodType[any]
  methods : List MethodSig
  deriving Repr

structure CtorSig where
  name : String
  typeParams : Nat
  inferable : Bool          -- every type parameter occurs in some parameter type
  params : List PK
  variadic : Bool
  result : Option Nat
  out : String := ""        -- the Go type T of the `core.ZodType[T]` the result implements; `$1` = the last type argument
  deriving Repr

structure MethodTable where
  emittedMethods : List String     -- `.Name(` literals of writer.go
  emittedCtors : List String       -- `gozod.Name(` / `gozod.Name[` literals of writer.go
  lazyGetterOK : Bool              -- core.ZodType[any] satisfies the constraint of gozod.Lazy's type parameter
  ctors : List CtorSig
  types : List TypeEntry
  deriving Repr

/-! ### classification of arguments -/

inductive ArgClass
  | intLit (n : Int)
  | floatLit (integral : Bool) (whole : Int)     -- `d+.d+`; integral: the fraction is all zeros
  | strLit | regexp | boolLit
  | other
  deriving DecidableEq, Repr

def isDigit (c : Nat) : Bool := 0x30 ≤ c && c ≤ 0x39

def natOfDigits (ds : Str) : Nat := ds.foldl (fun acc d => acc * 10 + (d - 0x30)) 0

/-- decimal integer literal without a leading zero (a leading zero makes it octal / invalid in Go) -/
def decLit (ds : Str) : Bool := !ds.isEmpty && ds.all isDigit && (ds.length = 1 || ds.head? ≠ some 0x30)

def classifyUnsigned (s : Str) : ArgClass :=
  if decLit s then .intLit (natOfDigits s)
  else
    let ip := s.takeWhile isDigit
    match s.drop ip.length with
    | 0x2E :: fr =>
      if decLit ip ∧ !fr.isEmpty ∧ fr.all isDigit then .floatLit (fr.all (· = 0x30)) (natOfDigits ip) else .other
    | _ => .other

def classifyRaw (s : Str) : ArgClass :=
  if s = asc "true" ∨ s = asc "false" then .boolLit
  else match s with
    | 0x2D :: rest =>
      match classifyUnsigned rest with
      | .intLit n => .intLit (-n)
      | .floatLit i w => .floatLit i (-w)
      | _ => .other
    | _ => classifyUnsigned s

def _root_.Gozod.GenEmit.Arg.cls : Arg → ArgClass
  | .raw t => classifyRaw t
  | .quoted _ => .strLit
  | .regexp _ => .regexp

/-- value range of the integer kinds (int / uint are 64 bits wide on the platforms the check runs on) -/
def intRange : Basic → Option (Int × Int)
  | .int | .int64 => some (-(2 ^ 63), 2 ^ 63 - 1)
  | .int8 => some (-128, 127) | .int16 => some (-32768, 32767) | .int32 => some (-(2 ^ 31), 2 ^ 31 - 1)
  | .uint | .uint64 => some (0, 2 ^ 64 - 1)
  | .uint8 => some (0, 255) | .uint16 => some (0, 65535) | .uint32 => some (0, 2 ^ 32 - 1)
  | _ => none

def isFloaty : Basic → Bool
  | .float32 | .float64 | .complex64 | .complex128 => true | _ => false

def intFits (n : Int) (b : Basic) : Bool :=
  match intRange b with
  | some (lo, hi) => decide (lo ≤ n) && decide (n ≤ hi)
  | none => isFloaty b

/-- assignability of an emitted argument to a parameter; `none`: not judged -/
def fits : ArgClass → PK → Option Bool
  | .other, _ => none
  | _, .any => some true
  | _, .other => some false
  | _, .schemaOf => some false
  | .intLit n, .basic b => some (intFits n b)
  | .floatLit integral w, .basic b => some (isFloaty b || (integral && intFits w b))
  | .strLit, .basic b => some (b == .string)
  | .boolLit, .basic b => some (b == .bool)
  | .regexp, .regexp => some true
  | .regexp, .basic _ => some false
  | _, .regexp => some false

def and3 : Option Bool → Option Bool → Option Bool
  | some false, _ => some false
  | _, some false => some false
  | some true, some true => some true
  | _, _ => none

def fitsAll : List ArgClass → List PK → Option Bool
  | [], [] => some true
  | a :: as, p :: ps => and3 (fits a p) (fitsAll as ps)
  | _, _ => some false                               -- argument count ≠ number of fixed parameters

def MethodTable.method? (T : MethodTable) (ty : Nat) (name : String) : Option MethodSig :=
  match T.types[ty]? with
  | some e => e.methods.find? (·.name == name)
  | none => none

/-- one method call on a value of table type `ty`: the result type, or why not -/
inductive Step | ok (ty : Nat) | illTyped | unjudged
  deriving DecidableEq, Repr

def stepCls (T : MethodTable) (ty : Nat) (name : String) (args : List ArgClass) : Step :=
  match T.method? ty name with
  | none => .illTyped                                   -- no such method
  | some m =>
    match fitsAll args m.params, m.result with
    | some false, _ => .illTyped
    | some true, some r => .ok r
    | some true, none => .unjudged                      -- the result is not a schema type of the table
    | none, _ => .unjudged

def step (T : MethodTable) (ty : Nat) (c : Call) : Step := stepCls T ty c.name (c.args.map Arg.cls)

def MethodTable.ctor? (T : MethodTable) (name : String) : Option CtorSig := T.ctors.find? (·.name == name)

/-- a constructor called as `gozod.Name(<n arguments, none of a basic kind>)` without explicit instantiation -/
def callPlain (T : MethodTable) (name : String) (nargs : Nat) : Option Nat :=
  match T.ctor? name with
  | some c => if c.inferable ∧ (c.params.length = nargs) ∧ c.params.all (fun p => p == .any || p == .other) then c.result else none
  | none => none

/-- `$1` in an output pattern replaced by the type argument -/
def substOut : List Char → Str → Str
  | [], _ => []
  | '$' :: '1' :: rest, a => a ++ substOut rest a
  | c :: rest, a => c.toNat :: substOut rest a

/-- the Go type a constructor expression's schema parses to (the `V` of the `core.ZodType[V]` it implements), read off
    the regenerated table: the constructor's output pattern with the written type argument -/
def outOf (T : MethodTable) : CExpr → Option Str
  | .prim b => (T.ctor? b.ctorName).map fun c => substOut c.out.toList []
  | .primPtr b => (T.ctor? (b.ctorName ++ "Ptr")).map fun c => substOut c.out.toList []
  | .any => (T.ctor? "Any").map fun c => substOut c.out.toList []
  | .time => (T.ctor? "Time").map fun c => substOut c.out.toList []
  | .timePtr => (T.ctor? "TimePtr").map fun c => substOut c.out.toList []
  | .fromStruct t => (T.ctor? "FromStruct").map fun c => substOut c.out.toList t
  | .fromStructPtr t => (T.ctor? "FromStructPtr").map fun c => substOut c.out.toList t
  | .slice ptr (some t) _ => (T.ctor? (if ptr then "SlicePtr" else "Slice")).map fun c => substOut c.out.toList t
  | .record ptr (some v) _ => (T.ctor? (if ptr then "RecordPtr" else "Record")).map fun c => substOut c.out.toList v
  | _ => none

/-- a written type argument is usable in the file: it names package `time` only if the file imports it -/
def targOK (timeImported : Bool) (t : Str) : Bool := timeImported || !hasInfix (asc "time.") t

/-- the type of a constructor expression (`none`: does not type-check); `timeImported`: the file imports "time" -/
def ctorType (T : MethodTable) (timeImported : Bool) : CExpr → Option Nat
  | .prim b => callPlain T b.ctorName 0
  | .primPtr b => callPlain T (b.ctorName ++ "Ptr") 0
  | .any => callPlain T "Any" 0
  | .time => callPlain T "Time" 0
  | .timePtr => callPlain T "TimePtr" 0
  | .uuid => callPlain T "UUID" 0
  | .url => callPlain T "URL" 0
  | .enum vals =>
    -- gozod.Enum("a", "b"): the type parameter is inferred from the (variadic) arguments: there must be one
    match T.ctor? "Enum" with
    | some c => if c.params.isEmpty ∧ c.variadic ∧ (c.typeParams = 0 ∨ !vals.isEmpty) then c.result else none
    | none => none
  | .fromStruct t =>
    -- gozod.FromStruct[X](): explicit instantiation of the one type parameter, no arguments;
    -- X = `time.Time` (from `*time.Time`, `map[K]*time.Time` …) names a package the file may not import
    match T.ctor? "FromStruct" with
    | some c => if c.typeParams = 1 ∧ c.params.isEmpty ∧ targOK timeImported t then c.result else none
    | none => none
  | .fromStructPtr t =>
    match T.ctor? "FromStructPtr" with
    | some c => if c.typeParams = 1 ∧ c.params.isEmpty ∧ targOK timeImported t then c.result else none
    | none => none
  | .lazyStruct _ =>
    -- gozod.Lazy(func() gozod.ZodType[any] { return gozod.FromStruct[N]() }): the returned *ZodStruct must
    -- implement core.ZodType[any], and ZodType[any] must satisfy Lazy's constraint
    match T.ctor? "FromStruct", T.ctor? "Lazy" with
    | some fs, some lz =>
      match fs.result with
      | some r =>
        match T.types[r]? with
        | some e => if e.zodTypeAny ∧ T.lazyGetterOK ∧ lz.inferable ∧ lz.params.length = 1 then lz.result else none
        | none => none
      | none => none
    | _, _ => none
  | .slice ptr targ e =>
    let name := if ptr then "SlicePtr" else "Slice"
    match ctorType T timeImported e with
    | none => none
    | some _ =>
      match targ with
      | none => callPlain T name 1                 -- gozod.Slice(e): T occurs in no parameter, it cannot be inferred
      | some t =>
        -- gozod.Slice[T](e): one type parameter, written; the element schema is an `any`
        match T.ctor? name with
        | some c => if c.typeParams = 1 ∧ c.params == [.any] ∧ targOK timeImported t then c.result else none
        | none => none
  | .record ptr targ e =>
    let name := if ptr then "RecordPtr" else "Record"
    match ctorType T timeImported e with
    | none => none
    | some _ =>
      match targ with
      | none => callPlain T name 1                 -- gozod.Record(e): one argument short
      | some v =>
        -- gozod.Record[string, V](gozod.String(), e): both type parameters written, key schema an `any`,
        -- value schema a core.ZodType[V]: the output type of e must be V itself
        match T.ctor? name, callPlain T "String" 0 with
        | some c, some _ =>
          if c.typeParams = 2 ∧ c.params == [.any, .schemaOf] ∧ targOK timeImported v ∧ outOf T e = some v then c.result else none
        | _, _ => none

def runCalls (T : MethodTable) : Nat → List Call → Step
  | ty, [] => .ok ty
  | ty, c :: cs =>
    match step T ty c with
    | .ok ty' => runCalls T ty' cs
    | s => s

/-- **the typing judgement**: `some true` the expression type-checks, `some false` it does not, `none` not judged -/
def wellTyped (T : MethodTable) (timeImported : Bool) (c : Chain) : Option Bool :=
  match ctorType T timeImported c.ctor with
  | none => some false
  | some ty =>
    match runCalls T ty c.calls with
    | .ok _ => some true
    | .illTyped => some false
    | .unjudged => none

/-! ### imports -/

def _root_.Gozod.GenEmit.Arg.usesRegexp : Arg → Bool
  | .regexp _ => true | _ => false

/-- the type arguments written in a constructor expression (`gozod.Slice[T](…)`, `gozod.Record[string, V](…)`,
    `gozod.FromStruct[T]()`, …) — the only places where an emitted expression can name a package other than gozod and regexp;
    the string literals of `gozod.Enum("…")` are not among them -/
def _root_.Gozod.GenEmit.CExpr.typeArgs : CExpr → List Str
  | .fromStruct t => [t]
  | .fromStructPtr t => [t]
  | .lazyStruct n => [n]
  | .slice _ targ e => targ.toList ++ e.typeArgs
  | .record _ targ e => targ.toList ++ e.typeArgs
  | _ => []

/-- packages an emitted expression refers to, beside gozod (`time` through a type argument naming `time.Time`) -/
def usesPkg (c : Chain) (pkg : String) : Bool :=
  (pkg == "regexp" && c.calls.any fun k => k.args.any Arg.usesRegexp) ||
  (pkg == "time" && c.ctor.typeArgs.any (hasInfix (asc "time.")))

/-- every import written for the struct is used by some field's expression -/
def importsUsed (W : WriterFacts) (rules : List (List Rule)) (chains : List Chain) : Bool :=
  (importsOf W rules chains).all fun p => chains.any (usesPkg · p)

/-- the file written for a struct imports package `time` -/
def timeImported (W : WriterFacts) (rules : List (List Rule)) (chains : List Chain) : Bool :=
  (importsOf W rules chains).contains "time"

/-! ### why not -/

/-- why a generated one-field file does not type-check (the class names of known-findings.txt) -/
inductive Why | ok | unjudged | ill (cls : String)
  deriving DecidableEq, Repr

/-- the characters after the last `.` -/
def afterLastDot : List Char → List Char → List Char
  | acc, [] => acc
  | _, '.' :: rest => afterLastDot rest rest
  | acc, _ :: rest => afterLastDot acc rest

/-- `ZodStruct` from `*types.ZodStruct[main.mtInner,main.mtInner]` -/
def shortType (go : String) : String :=
  let s := go.toList.takeWhile (· != '[')
  String.ofList (afterLastDot s s)

/-- the first reason a constructor expression is rejected, in the order the compiler reports (by position): a call that
    cannot be typed whatever its argument (`gozod.Slice(e)`: T not inferable, `gozod.Record(e)`: an argument short) first,
    then the argument expression, then what is wrong between the two -/
def ctorWhy (T : MethodTable) (ti : Bool) : CExpr → Option String
  | .slice ptr targ e =>
    match targ with
    | none => if (callPlain T (if ptr then "SlicePtr" else "Slice") 1).isSome then ctorWhy T ti e else some "slice-cannot-infer-T"
    | some t =>
      match ctorWhy T ti e with
      | some w => some w
      | none =>
        if (ctorType T ti (.slice ptr targ e)).isSome then none
        else if !targOK ti t then some "time-not-imported" else some "slice-arguments"
  | .record ptr targ e =>
    match targ with
    | none => if (callPlain T (if ptr then "RecordPtr" else "Record") 1).isSome then ctorWhy T ti e else some "record-arguments"
    | some v =>
      match ctorWhy T ti e with
      | some w => some w
      | none =>
        if (ctorType T ti (.record ptr targ e)).isSome then none
        else if !targOK ti v then some "time-not-imported" else some "record-value-type"
  | .lazyStruct n => if (ctorType T ti (.lazyStruct n)).isSome then none else some "lazy-self-reference"
  | .fromStruct t => if (ctorType T ti (.fromStruct t)).isSome then none else if !targOK ti t then some "time-not-imported" else some "no-constructor"
  | .fromStructPtr t => if (ctorType T ti (.fromStructPtr t)).isSome then none else if !targOK ti t then some "time-not-imported" else some "no-constructor"
  | .enum vals => if (ctorType T ti (.enum vals)).isSome then none else some "enum-without-member"
  | e => if (ctorType T ti e).isSome then none else some "no-constructor"

/-- the first call that is rejected -/
def callsWhy (T : MethodTable) : Nat → List Call → Why
  | _, [] => .ok
  | ty, c :: cs =>
    match T.method? ty c.name with
    | none =>
      let tn := shortType ((T.types[ty]?.map (·.goName)).getD "")
      .ill (if tn == "ZodEnum" then "enum+method" else "no-method:" ++ tn ++ "." ++ c.name)
    | some m =>
      match step T ty c with
      | .ok ty' => callsWhy T ty' cs
      | .unjudged => .unjudged
      | .illTyped =>
        match c.args.map Arg.cls, m.params with
        | [.intLit _], [.basic _] => .ill "constant-not-representable:overflows-int64"
        | [.floatLit _ _], [.basic _] => .ill "constant-not-representable:float-as-integer"
        | _, _ => .ill ("argument:" ++ c.name)

/-- the judgement on the file written for `type <sn> struct { F <t> \`gozod:"…"\` }`, with its reason -/
def whyChain (T : MethodTable) (W : WriterFacts) (rs : List Rule) (c : Chain) : Why :=
  let ti := timeImported W [rs] [c]
  -- the compiler lists its errors by position: the import block comes first
  if !importsUsed W [rs] [c] then .ill "unused-import" else
  match ctorWhy T ti c.ctor, ctorType T ti c.ctor with
  | some w, _ => .ill w
  | none, none => .ill "no-constructor"
  | none, some ty => callsWhy T ty c.calls

def why (T : MethodTable) (W : WriterFacts) (t : Ty) (sn : String) (rs : List Rule) : Why :=
  match emitChain W t (asc sn) rs with
  | none => .unjudged
  | some c => whyChain T W rs c


end Gozod.GenTyped
