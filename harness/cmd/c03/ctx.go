// C03 harness, round 4: histories of PARSES (not only histories of modifiers).
//
// `cseq` lines: a sequence of 1..5 parses, each of its own (type, modifier history, input, entry point), all run
// through ONE caller-supplied *core.ParseContext. Every step is observed twice: through the shared context and
// — same schema value, same input — through a fresh context; a difference is rendered into the observation
// (`!fresh=<class>`), so "the nil outcome is a function of the modifier history and the input" is judged on the
// implementation alone as well as against the model. After the sequence the context's own fields are compared
// with their initial values (`ctx=same`).
//
// `csib` lines: the same step descriptions as sibling elements of one container parse (tuple items, object
// fields): the container hands its one context to every child (`schema.ParseAny(v, ctx)`).
// Tuples return the children's results, objects and arrays only their verdicts (an array returns its input slice; it
// re-codes every child issue as invalid_element: there a failing child shows as `err` only). A child may itself be a wrapped schema (`W=<stack>`).
//
// Entry points: Parse, ParseAny, MustParse (panic value = the error), StrictParse (typed nil where the
// constraint type has one).
package main

import (
	"errors"
	"fmt"
	"reflect"
	"strings"

	"github.com/kaptinlin/gozod"
	"github.com/kaptinlin/gozod/core"

	"verifharness/hx"
)

type pstep struct {
	e     *entry
	h     []string
	entry string // Parse | ParseAny | MustParse | StrictParse
	in    string // nil | nilptr | ok | bad
	stack string // csib only: the child is the schema under this chain of .Transform(f_i)/.Pipe(target_i) wrappers ("" = bare)
}

var ctxInits = []string{"fresh", "new", "report", "flag", "errmap"}

func mkCtx(kind string) *core.ParseContext {
	switch kind {
	case "new":
		return core.NewParseContext()
	case "report":
		return &core.ParseContext{ReportInput: true}
	case "flag":
		// a caller may hand in a context in any state; the field exists and is exported
		return &core.ParseContext{IsPrefaultContext: true}
	case "errmap":
		return core.NewParseContext().WithCustomError(func(core.ZodRawIssue) string { return "custom message" })
	}
	return &core.ParseContext{}
}

func ctxState(c *core.ParseContext) string {
	return fmt.Sprintf("report=%v,prefault=%v,errmap=%v", c.ReportInput, c.IsPrefaultContext, c.Error != nil)
}

func applicable(e *entry, h []string) bool {
	if e.only == nil {
		return true
	}
	for _, op := range h {
		ok := false
		for _, a := range e.only {
			ok = ok || a == op
		}
		if !ok {
			return false
		}
	}
	return true
}

// build applies the history; nil when a method is missing (history not applicable) or building panics.
func build(e *entry, h []string) (s any) {
	if !applicable(e, h) {
		return nil
	}
	if pm := hx.Safely(func() {
		s = e.mk()
		for _, op := range h {
			if s = applyOp(e, s, op); s == nil {
				return
			}
		}
	}); pm != "" {
		return nil
	}
	return s
}

// inputFor: the reflect.Value handed to the entry point (ok=false: this input does not exist for the type / entry).
func inputFor(e *entry, s any, entry, in string) (reflect.Value, bool) {
	var v reflect.Value
	switch in {
	case "nil":
		v = reflect.Zero(anyT)
	case "nilptr":
		if e.okIn == nil {
			return v, false
		}
		v = reflect.Zero(reflect.PointerTo(reflect.TypeOf(e.okIn)))
	case "ok":
		if e.okIn == nil {
			return v, false
		}
		v = reflect.ValueOf(e.okIn)
	case "bad":
		if e.badIn == nil {
			return v, false
		}
		v = reflect.ValueOf(e.badIn)
	}
	if entry != "StrictParse" {
		return v, true
	}
	m := reflect.ValueOf(s).MethodByName("StrictParse")
	if !m.IsValid() {
		return v, false
	}
	pt := m.Type().In(0)
	switch in {
	case "nil", "nilptr":
		// a typed nil exists only where the constraint type has one
		switch pt.Kind() {
		case reflect.Pointer, reflect.Interface:
			if in == "nilptr" && pt.Kind() != reflect.Pointer {
				return v, false
			}
			return reflect.Zero(pt), true
		}
		return v, false
	}
	if v.Type() == pt {
		return v, true
	}
	if pt.Kind() == reflect.Interface && v.Type().Implements(pt) {
		x := reflect.New(pt).Elem()
		x.Set(v)
		return x, true
	}
	if pt.Kind() == reflect.Pointer && v.Type() == pt.Elem() {
		p := reflect.New(pt.Elem())
		p.Elem().Set(v)
		return p, true
	}
	return v, false
}

// call runs one entry point with an explicit context (nil: none). MustParse's panic value is its error.
func callEntry(s any, entry string, in reflect.Value, ctx *core.ParseContext) (res any, err error, pm string) {
	args := []reflect.Value{in}
	if ctx != nil {
		args = append(args, reflect.ValueOf(ctx))
	}
	func() {
		defer func() {
			if r := recover(); r != nil {
				if e, ok := r.(error); ok && entry == "MustParse" {
					var ze *gozod.ZodError
					if errors.As(e, &ze) {
						err = e
						return
					}
				}
				pm = fmt.Sprint(r)
				if pm == "" {
					pm = "panic"
				}
			}
		}()
		out := reflect.ValueOf(s).MethodByName(entry).Call(args)
		res = out[0].Interface()
		if len(out) > 1 && !out[1].IsNil() {
			err = out[1].Interface().(error)
		}
	}()
	return
}

func stepObs(st pstep, res any, err error, pm string) string {
	if pm != "" {
		return "panic:" + strings.ReplaceAll(pm, " ", "_")
	}
	if st.in == "ok" || st.in == "bad" {
		if err != nil {
			return "err"
		}
		return "ok"
	}
	return strings.ReplaceAll(classify(st.e, res, err), " ", "_")
}

func stepDesc(st pstep) string {
	own := hx.B01(ownPath(st.e, st.h))
	d := fmt.Sprintf("%s %s %s %s %s", st.entry, st.in, st.e.rule, hx.B01(st.e.admitsNil), own)
	if st.stack != "" {
		d += " W=" + st.stack
	}
	if len(st.h) > 0 {
		d += " " + strings.Join(st.h, " ")
	}
	return d
}

func typesOf(steps []pstep) string {
	ns := make([]string, len(steps))
	for i, s := range steps {
		ns[i] = s.e.name
	}
	return strings.Join(ns, ",")
}

// runSeq: one context, the steps in order. false: not applicable (a schema could not be built / input does not exist).
func runSeq(o *hx.Out, init string, steps []pstep) bool {
	schemas := make([]any, len(steps))
	ins := make([]reflect.Value, len(steps))
	for i, st := range steps {
		if schemas[i] = build(st.e, st.h); schemas[i] == nil {
			return false
		}
		if !reflect.ValueOf(schemas[i]).MethodByName(st.entry).IsValid() {
			return false
		}
		var ok bool
		if ins[i], ok = inputFor(st.e, schemas[i], st.entry, st.in); !ok {
			return false
		}
	}
	ctx := mkCtx(init)
	before := ctxState(ctx)
	obs := make([]string, len(steps))
	descs := make([]string, len(steps))
	for i, st := range steps {
		res, err, pm := callEntry(schemas[i], st.entry, ins[i], ctx)
		obs[i] = stepObs(st, res, err, pm)
		// the same schema value and input through a context nobody has used
		fctx := mkCtx("fresh")
		r2, e2, p2 := callEntry(schemas[i], st.entry, ins[i], fctx)
		if f := stepObs(st, r2, e2, p2); f != obs[i] {
			obs[i] += "!fresh=" + f
		}
		if fs := ctxState(fctx); fs != ctxState(mkCtx("fresh")) {
			obs[i] += "!freshctx-changed:" + fs
		}
		// the shared context's own fields after EVERY step (a step that sets a field and a later one that resets it
		// would be invisible in the comparison at the end of the sequence)
		if cs := ctxState(ctx); cs != before {
			obs[i] += "!ctx-changed:" + cs
		}
		descs[i] = stepDesc(st)
		o.Count("cseq-step:" + strings.SplitN(obs[i], "!", 2)[0])
		o.Count("cseq-entry:" + st.entry)
	}
	cs := "same"
	if after := ctxState(ctx); after != before {
		cs = "changed:" + after
	}
	o.Emit(fmt.Sprintf("c03 cseq %s / %s #%s", init, strings.Join(descs, " / "), typesOf(steps)),
		strings.Join(obs, " / ")+" ctx="+cs)
	o.Count(fmt.Sprintf("cseq-len:%d", len(steps)))
	o.Count("cseq-ctx:" + init)
	return true
}

// issueClass: the class of one finalized issue (as errClass, for an issue inside a container's error).
func issueClass(is core.ZodIssue) string {
	switch is.Code {
	case core.InvalidType:
		// nonoptional and type error share the code; `Expected` does not survive the container's path-prepending conversion
		return "err:type"
	case core.Custom:
		if strings.HasPrefix(is.Message, "Invalid input: expected") {
			return "err:type"
		}
		return "err:custom"
	}
	return "err:checks"
}

func pathHead(p []any) string {
	if len(p) == 0 {
		return ""
	}
	return fmt.Sprint(p[0])
}

// runSib: the steps as children of one container. kind: tuple | object | array. init "none": no explicit context.
func runSib(o *hx.Out, kind, init string, steps []pstep) bool {
	items := make([]core.ZodSchema, len(steps))
	vals := make([]any, len(steps))
	for i, st := range steps {
		s := build(st.e, st.h)
		if s == nil {
			return false
		}
		if st.stack != "" {
			if pm := hx.Safely(func() { s = wrapSchema(s, st.stack) }); pm != "" || s == nil {
				return false
			}
		}
		zs, ok := s.(core.ZodSchema)
		if !ok {
			return false
		}
		items[i] = zs
		in, ok := inputFor(st.e, s, "Parse", st.in)
		if !ok {
			return false
		}
		vals[i] = in.Interface()
	}
	var cont any
	var input any
	keys := make([]string, len(steps))
	switch kind {
	case "tuple":
		cont, input = gozod.Tuple(items...), vals
		for i := range keys {
			keys[i] = fmt.Sprint(i)
		}
	case "array":
		a := make([]any, len(items))
		for i := range items {
			a[i] = items[i]
		}
		cont, input = gozod.Array(a), vals
		for i := range keys {
			keys[i] = fmt.Sprint(i)
		}
	default:
		shape := core.ObjectSchema{}
		m := map[string]any{}
		for i := range items {
			keys[i] = fmt.Sprintf("f%d", i)
			shape[keys[i]] = items[i]
			m[keys[i]] = vals[i]
		}
		cont, input = gozod.Object(shape), m
	}
	var ctx *core.ParseContext
	before := ""
	if init != "none" {
		ctx = mkCtx(init)
		before = ctxState(ctx)
	}
	calls = nil
	res, err, pm := callEntry(cont, "Parse", reflect.ValueOf(input), ctx)
	obs := make([]string, len(steps))
	descs := make([]string, len(steps))
	var ze *gozod.ZodError
	switch {
	case pm != "":
		for i := range obs {
			obs[i] = "panic:" + strings.ReplaceAll(pm, " ", "_")
		}
	case err != nil && !errors.As(err, &ze):
		for i := range obs {
			obs[i] = "err:notzod"
		}
	default:
		for i, st := range steps {
			if ze != nil {
				for _, is := range ze.Issues {
					if pathHead(is.Path) == keys[i] {
						obs[i] = issueClass(is)
						if st.in == "ok" || st.in == "bad" || kind == "array" {
							obs[i] = "err"
						}
						break
					}
				}
				if len(ze.Issues) > 0 && obs[i] == "" && len(ze.Issues[0].Path) == 0 {
					obs[i] = "container:" + issueClass(ze.Issues[0])
				}
			}
			if obs[i] != "" {
				continue
			}
			// no issue for this child
			obs[i] = "ok"
			// (an array validates its elements but returns its INPUT slice — child results are discarded, types/array.go
			// validate — so there a succeeding child shows as `ok` only)
			if kind == "tuple" && err == nil && st.in != "ok" && st.in != "bad" {
				if arr, ok := deref(res).([]any); ok && i < len(arr) {
					if st.stack != "" {
						// a wrapped child: the result as a term over the bare schema's outcome (which callbacks it went through)
						obs[i] = "ok:" + term(st.e, st.h, arr[i], nil, false)
					} else {
						obs[i] = strings.ReplaceAll(classify(st.e, arr[i], nil), " ", "_")
					}
				}
			}
		}
	}
	for i, st := range steps {
		descs[i] = stepDesc(pstep{st.e, st.h, "Child", st.in, st.stack})
		o.Count("csib-step:" + obs[i])
	}
	cs := "same"
	if ctx != nil {
		if after := ctxState(ctx); after != before {
			cs = "changed:" + after
		}
	}
	o.Emit(fmt.Sprintf("c03 csib %s %s / %s #%s", kind, init, strings.Join(descs, " / "), typesOf(steps)),
		strings.Join(obs, " / ")+" ctx="+cs)
	o.Count("csib-kind:" + kind)
	o.Count(fmt.Sprintf("csib-len:%d", len(steps)))
	return true
}

var seqEntries = []string{"Parse", "Parse", "Parse", "ParseAny", "MustParse", "StrictParse"}
var seqInputs = []string{"nil", "nil", "nil", "nil", "nilptr", "nilptr", "ok", "bad"}

func randStep(r *hx.Rng, es []entry, entries []string) pstep {
	e := &es[r.Intn(len(es))]
	n := r.Intn(4)
	h := make([]string, n)
	for j := range h {
		// three quarters of the ops from the eight modifiers proper
		if r.Chance(85) {
			h[j] = opNames[r.Intn(12)]
		} else {
			h[j] = hx.Pick(r, opNames)
		}
	}
	return pstep{e, h, hx.Pick(r, entries), hx.Pick(r, seqInputs), ""}
}

// runCtxClasses: the exhaustive pairs (every short step before every short step, one context / one tuple) and the
// random longer sequences / containers.
func runCtxClasses(o *hx.Out, r *hx.Rng, es []entry, thorough bool) {
	core8 := map[string]bool{"string": true, "int": true, "slice": true, "object": true, "any": true, "union": true, "struct": true, "stringptr": true}
	if thorough {
		for _, n := range []string{"float64", "bool", "array", "enum", "map", "set", "tuple", "email"} {
			core8[n] = true
		}
	}
	var short []pstep
	for ei := range es {
		e := &es[ei]
		if !core8[e.name] {
			continue
		}
		for _, op := range append([]string{""}, opNames[:12]...) {
			h := []string{}
			if op != "" {
				h = []string{op}
			}
			if build(e, h) != nil {
				short = append(short, pstep{e, h, "Parse", "nil", ""})
			}
		}
	}
	for _, a := range short {
		for _, b := range short {
			runSeq(o, "fresh", []pstep{a, b})
			runSib(o, "tuple", "none", []pstep{a, b})
		}
	}
	nSeq, nSib := 12000, 8000
	if thorough {
		nSeq, nSib = 150000, 100000
	}
	for i := 0; i < nSeq; i++ {
		n := 1 + r.Intn(5)
		steps := make([]pstep, n)
		for j := range steps {
			steps[j] = randStep(r, es, seqEntries)
		}
		runSeq(o, hx.Pick(r, ctxInits), steps)
	}
	kinds := []string{"tuple", "tuple", "object", "array"}
	inits := append([]string{"none", "none"}, ctxInits...)
	for i := 0; i < nSib; i++ {
		n := 2 + r.Intn(3)
		steps := make([]pstep, n)
		for j := range steps {
			steps[j] = randStep(r, es, []string{"Parse"})
			// a third of the children under a wrapper chain: the nil reaches ZodTransform.Parse / ZodPipe.Parse through the
			// container's ParseAny(child, ctx) — the wrapper position "member of a container"
			if r.Chance(33) && (steps[j].in == "nil" || steps[j].in == "nilptr") {
				steps[j].stack = hx.Pick(r, allStacks)
			}
		}
		runSib(o, hx.Pick(r, kinds), hx.Pick(r, inits), steps)
	}
}
