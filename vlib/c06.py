"""C06 — struct tags enforce every documented rule on every supported field type; tag parser total + whitespace-insensitive."""
import os, re, json, shutil
from . import common as C

MANIFEST = dict(
   technique="Lean 4 proof over (a) a transcription of pkg/tagparser (checked slicing: totality, no out-of-bounds slice, whitespace invariance), (b) a transcription of the cycle-detection walk of types/struct.go over type graphs (nested struct fields by value / pointer / slice element / map value / embedded, the same type reached several times, recursive types), (c) the meaning of a tag text on a string field as a function of the tag alone; `decide` over two tables regenerated behaviourally from FromStruct on every run (rule matrix: documented rule x field type x both orders of two rules x boundary values; type graphs: 94 root types read back by reflection x every single corruption of a valid value) against independently written documented-meaning oracles; differential run of histories of FromStruct calls in fresh processes",
   text="Tag parser: c06_no_panic / c06_parse_ws are proved for all rune strings about the transcription of ParseTagString/splitParts/parseRule, tied by a differential run on corpus, exhaustive short strings over the special bytes and random byte strings under recover(). Rule matrix: Gen/TagTable.lean is regenerated on every run (one struct type per field type, one field per tag, FromStruct[T](), Parse on boundary values); c06_no_silent_noop_partial / c06_pairs_partial / c06_order_independent are `decide` proofs over the whole table, the known-finding region is split by mechanism (Tags.landed flags, pinned by hand) and is empty since the seven repairs of the rule-application code landed, so the full statements c06_no_silent_noop / c06_pairs / c06_order_independent_all are theorems; Gen/TagSwitches.lean is the STATIC table (go/ast over types/struct.go: the case lists of every type switch / assertion a rule name reaches, the constructor per reflect.Kind x pointer-ness, dispatch interfaces and their implementors), c06_switches_reach: every documented cell is reached by some case, c06_unreached_is_dropped: an unreached cell is observed as dropped, tied to the running code by the reflected schema type of every field type; c06_accept_perm lifts order independence of the documented meaning to any permutation of any rule list. Type graphs: Graph.Code transcribes parseStructTagsToSchemasWithCycleDetection / createSchemaFromTypeWithCycleDetection / createLazySchemaForType (the `visited` set, the Lazy path, the fresh walk under maps); c06_graph_no_lazy_on_dag (on an acyclic type graph the cycle test never fires, however often and in whatever order a type occurs), c06_graph_walk_is_spec, c06_graph_partial (= documented meaning outside the decidable deviation predicate Dev.dev) hold for all environments and all finite values; Gen/TagGraph.lean (type graphs by reflection + verdicts) is proved equal to the model on every probe (c06_graph_table_is_model) and hence to the documented meaning (c06_graph_table_partial). Histories: Rules.Code.accepts / Rules.Spec.accepts are functions of the tag text (c06_history_independent, c06_tag_ws_verdict, c06_tag_meaning_partial), tied by building families of near-identical tags in several orders in fresh child processes.",
   note="Trusted: Lean kernel; axioms propext/Classical.choice/Quot.sound only; Go's rune decoding of the tag (the model starts from []rune(tag)); unicode.IsSpace table as transcribed; the harness, the generators in vlib/c06.py and the comparer. The rule matrix is finite: the listed field types, one parameter per rule, pairs of rules, boundary probes only. Format rules (email/url/uuid/regex) are judged on blatant members/non-members. Type graphs: finite acyclic VALUES only (no cyclic pointer structures); probes are single corruptions of one valid value per root, recursion unfolded twice (thorough: three times); the graph world has one scalar field `V int min=3` per struct and edge tags `required` / `max=2` / none. Histories: string fields, rules enum/includes/startswith/endswith/min/max/length/required. The documented meaning is this check's reading of docs/tags.md (required = presence; an untagged field is not validated; a nil slice/map is the absent container).",
   design="DESIGN.md §5 C06")

MODULES = ["Gozod.Proofs.C06", "Gozod.Proofs.C06G", "Gozod.Proofs.C06H", "Gozod.Proofs.C06S", "Gozod.Proofs.C06M", "Gozod.Proofs.C06T", "Gozod.Proofs.C06R"]
THEOREMS = [
    "Gozod.C06.c06_no_panic", "Gozod.C06.c06_legacy_panics", "Gozod.C06.c06_parse_ws", "Gozod.C06.c06_rule_ws",
    "Gozod.C06.c06_parts_ws", "Gozod.C06.accept_pair", "Gozod.C06.accept_comm",
    "Gozod.C06.c06_table_covers_matrix", "Gozod.C06.c06_no_silent_noop_partial", "Gozod.C06.c06_pairs_partial",
    "Gozod.C06.c06_order_independent",
    "Gozod.C06.c06_no_silent_noop", "Gozod.C06.c06_pairs", "Gozod.C06.c06_order_independent_all",
    # type graphs (Proofs/C06G.lean)
    "Gozod.C06.c06_graph_no_lazy_on_dag", "Gozod.C06.c06_graph_walk_is_spec", "Gozod.C06.c06_graph_partial",
    "Gozod.C06.c06_graph_recursive_unchecked", "Gozod.C06.c06_graph_recursive_required_nil",
    "Gozod.C06.c06_graph_nil_slice_rejected", "Gozod.C06.c06_graph_full_false", "Gozod.C06.c06_graph_map_recursion_builds",
    "Gozod.C06.c06_graph_table_is_model", "Gozod.C06.c06_graph_table_partial", "Gozod.C06.c06_graph_table_covers",
    # the schema is a function of the struct's own tags (Proofs/C06H.lean)
    "Gozod.C06.c06_history_independent", "Gozod.C06.c06_history_prefix_stable", "Gozod.C06.c06_tag_ws_verdict",
    "Gozod.C06.c06_rules_perm", "Gozod.C06.c06_accept_perm", "Gozod.C06.c06_tag_meaning_partial", "Gozod.C06.c06_tag_meaning_full_false",
    # the static table of type switches (Proofs/C06S.lean over Gen/TagSwitches.lean)
    "Gozod.C06.c06_switches_reach_partial", "Gozod.C06.c06_switches_reach", "Gozod.C06.c06_switches_cover", "Gozod.C06.c06_unreached_is_dropped",
    "Gozod.C06.c06_tableX_shape",
    # the meaning of a tag for every value and field kind (Proofs/C06M.lean), and the table reduced to the tie (Proofs/C06T.lean)
    "Gozod.C06.c06_tag_meaning", "Gozod.C06.c06_code_perm", "Gozod.C06.c06_spec_perm", "Gozod.C06.c06_meaning_ws",
    "Gozod.C06.c06_tag_meaning_all_false",
    "Gozod.C06.c06_table_is_model", "Gozod.C06.c06_table_side", "Gozod.C06.c06_table_documented", "Gozod.C06.c06_specs_agree",
    "Gozod.C06.c06_matrix_tags_parse",
    # whitespace independence on the raw tag string (Proofs/C06R.lean)
    "Gozod.C06.c06_tag_ws", "Gozod.C06.c06_tag_ws_rules", "Gozod.C06.outs_join",
]
# witnesses that the known-finding region is exact; they stop checking when the library is repaired
W_MODULES = ["Gozod.Proofs.C06W"]
W_THEOREMS = [
    "Gozod.C06W.c06_no_silent_noop_witnesses", "Gozod.C06W.c06_pairs_witnesses", "Gozod.C06W.c06_order_witnesses",
    "Gozod.C06W.c06_graph_table_witnesses", "Gozod.C06W.c06_graph_table_full_false",
]

# ------------------------------------------------------------------------------------------------
# the matrix: documented rules (docs/tags.md) x field types

BASES = [  # token, Go type, class
    ("string", "string", "str"),
    ("int", "int", "sint"), ("int8", "int8", "sint"), ("int16", "int16", "sint"), ("int32", "int32", "sint"), ("int64", "int64", "sint"),
    ("uint", "uint", "uint"), ("uint8", "uint8", "uint"), ("uint16", "uint16", "uint"), ("uint32", "uint32", "uint"), ("uint64", "uint64", "uint"),
    ("float32", "float32", "float"), ("float64", "float64", "float"),
    ("bool", "bool", "bool"),
    ("slice_string", "[]string", "slice"), ("slice_int", "[]int", "slice"), ("slice_int64", "[]int64", "slice"),
    ("slice_float64", "[]float64", "slice"), ("slice_bool", "[]bool", "slice"), ("slice_int32", "[]int32", "slice"),
    ("slice_uint8", "[]uint8", "slice"), ("slice_slice_string", "[][]string", "slice"), ("slice_struct", "[]InnerT", "slice"),
    ("slice_ptr_string", "[]*string", "slice"),
    ("map_string_string", "map[string]string", "map"), ("map_string_int", "map[string]int", "map"),
    ("map_string_any", "map[string]any", "map"), ("map_string_float64", "map[string]float64", "map"),
    ("struct", "Inner", "struct"), ("structT", "InnerT", "structT"),
]

# documented rule name -> instance token used in the matrix, per docs table
DOC_TABLES = {"String Validation": "str", "Numeric Validation": "num", "Array/Slice Validation": "slice"}
INSTANCES = {
    "str": {"required": "required", "min=N": "min=20", "max=N": "max=30", "length=N": "length=25", "email": "email",
            "url": "url", "uuid": "uuid", "regex=pattern": "regex=^aa*$"},
    "num": {"min=N": "min=3", "max=N": "max=5", "positive": "positive", "negative": "negative",
            "nonnegative": "nonnegative", "nonpositive": "nonpositive"},
    "slice": {"min=N": "min=2", "max=N": "max=4", "length=N": "length=3", "nonempty": "nonempty"},
}
EXTRA_SINGLES = {"str": ["min=37"]}
EXTRA_PAIRS = {"str": [("min=37", "uuid")]}   # a valid UUID has 36 bytes: only min>36 can expose a dropped min

# NON-PROPERTY cells: rule names types/struct.go implements but docs/tags.md does not list in its rule tables.  They get
# their own struct types (X<k>: a tag that makes FromStruct panic must not poison the documented block) and their own
# table Gen/TagTableX.lean — the verdicts FromStruct gives, with no documented-meaning oracle and no C06 theorem; C13
# (gozodgen vs FromStruct) reads it.
EXTRA_RULES = {
    "str": ["includes=aaa", "startswith=aa", "endswith=aa", "nilable", "coerce", "default=dflt", "prefault=dflt",
            "enum=aaaaaaaaaaaaaaaaaaaa zzzzzzzzzzzzzzzzzzzzz", "literal=aaaaaaaaaaaaaaaaaaaa", "ipv4", "iso_date", "jwt"],
    "sint": ["finite", "multipleof=2", "nilable", "coerce", "default=4", "prefault=4", "enum=2 4", "literal=4"],
    "uint": ["finite", "multipleof=2", "nilable", "coerce", "default=4", "prefault=4", "enum=2 4", "literal=4"],
    "float": ["finite", "multipleof=2", "nilable", "coerce", "default=4", "prefault=4", "enum=2 4", "literal=4"],
    "bool": ["nilable", "coerce", "default=true", "literal=true"],
    "slice": ["nilable"],
    "map": ["nilable", "min=1", "max=1", "nonempty"],
}

def documented_rules(repo):
    """Rule names per class from the tables of docs/tags.md. Returns (dict, error)."""
    path = os.path.join(repo, "docs", "tags.md")
    try:
        txt = open(path).read()
    except OSError as e:
        return None, "cannot read %s: %s" % (path, e)
    out = {}
    for title, cls in DOC_TABLES.items():
        m = re.search(r"^### %s\s*\n(.*?)(?=^#|^---)" % re.escape(title), txt, re.S | re.M)
        if not m:
            return None, "docs/tags.md: table '%s' not found" % title
        names = re.findall(r"^\| `([^`]+)` \|", m.group(1), re.M)
        if not names:
            return None, "docs/tags.md: table '%s' lists no rules" % title
        out[cls] = names
    return out, ""

INT_BITS = {"int": 64, "int8": 8, "int16": 16, "int32": 32, "int64": 64, "uint": 64, "uint8": 8, "uint16": 16, "uint32": 32, "uint64": 64}
SMALL_CMP = ["gt=3", "gte=3", "lt=5", "lte=5"]      # implemented by applyParameterizedRule; meaning by name

def extra_singles(tok, cls):
    """large / type-boundary parameters for the numeric rules, per integer width (single-rule cells only)"""
    if cls == "float": return list(SMALL_CMP)
    if cls not in ("sint", "uint"): return []
    b = INT_BITS[tok]; big = 2 ** 53 + 1
    if cls == "sint":
        hi, lo = 2 ** (b - 1) - 1, -2 ** (b - 1)
        if b == 64:
            ps = ["min=%d" % big, "max=%d" % big, "min=%d" % hi, "max=%d" % hi, "min=%d" % lo, "max=%d" % lo]
            ps += ["gt=%d" % big, "gte=%d" % big, "lt=%d" % big, "lte=%d" % big]
        else:
            ps = ["min=%d" % hi, "max=%d" % hi, "min=%d" % lo, "max=%d" % lo]
    else:
        hi = 2 ** b - 1
        if b == 64:
            ps = []
            for B in (big, 2 ** 63 - 1, hi): ps += ["min=%d" % B, "max=%d" % B]
            ps += ["gt=%d" % big, "gte=%d" % big, "lt=%d" % big, "lte=%d" % big]
        else:
            ps = ["min=%d" % hi, "max=%d" % hi]
    return ps + SMALL_CMP

def extra_probes(tok, cls):
    if cls not in ("sint", "uint"): return []
    b = INT_BITS[tok]; big = 2 ** 53 + 1
    if cls == "sint":
        hi, lo = 2 ** (b - 1) - 1, -2 ** (b - 1)
        vs = ([big - 1, big, big + 1] if b == 64 else []) + [hi - 1, hi, lo, lo + 1]
    else:
        hi = 2 ** b - 1
        vs = ([big - 1, big, big + 1, 2 ** 63 - 2, 2 ** 63 - 1, 2 ** 63] if b == 64 else []) + [hi - 1, hi]
    return ["i:%d" % v for v in vs]

def instances_for(cls, doc):
    if cls == "str":
        names = doc["str"]
    elif cls in ("sint", "uint", "float"):
        names = ["required"] + doc["num"]
        cls = "num"
    elif cls == "slice":
        names = ["required"] + doc["slice"]
    else:
        return ["required"], None
    inst = []
    for n in names:
        tok = "required" if n == "required" else INSTANCES[cls].get(n)
        if tok is None:
            return None, "docs/tags.md documents rule `%s` for %s fields; the C06 matrix has no instance for it (extend INSTANCES and Spec.ruleHolds)" % (n, cls)
        inst.append(tok)
    return inst, None

def probes_for(cls, ptr):
    if cls == "str":
        ps = ["s:%s:%d" % (k, n) for k in ("plain", "other", "email", "url") for n in (19, 20, 21, 25, 26, 30, 31, 36, 37)] + ["s:uuid:36"]
    elif cls == "sint":
        ps = ["n:%d" % t for t in (-4, -2, 0, 2, 4, 6, 8, 10, 12)]
    elif cls == "uint":
        ps = ["n:%d" % t for t in (0, 2, 4, 6, 8, 10, 12)]
    elif cls == "float":
        ps = ["n:%d" % t for t in (-4, -2, -1, 0, 1, 2, 4, 5, 6, 7, 8, 10, 11, 12)]
    elif cls == "bool":
        ps = ["b:0", "b:1"]
    elif cls == "slice":
        ps = ["e:%d" % n for n in range(6)]
    elif cls == "map":
        ps = ["e:0", "e:1", "e:2"]
    elif cls == "struct":
        ps = ["in:1"]
    elif cls == "structT":
        ps = ["in:1", "in:0"]
    return (["nil"] if ptr else []) + ps

def build_matrix(repo):
    doc, err = documented_rules(repo)
    if doc is None: return None, err
    blocks = []
    for ptr in (False, True):
        for tok, gotype, cls in BASES:
            inst, err = instances_for(cls, doc)
            if inst is None: return None, err
            pairs = [(inst[i], inst[j]) for i in range(len(inst)) for j in range(i + 1, len(inst))]
            pairs += EXTRA_PAIRS.get(cls, [])
            inst = inst + EXTRA_SINGLES.get(cls, []) + extra_singles(tok, cls)
            blocks.append(dict(fty=("ptr_" if ptr else "") + tok, gotype=("*" if ptr else "") + gotype, cls=cls, ptr=ptr,
                               probes=probes_for(cls, ptr) + extra_probes(tok, cls), singles=inst, pairs=pairs,
                               extras=EXTRA_RULES.get(cls, [])))
    return blocks, ""

def go_matrix(blocks):
    q = json.dumps
    L = ["// Code generated by vlib/c06.py from docs/tags.md; DO NOT EDIT.", "", "package main", "",
         "type Inner struct{ A string }", "type InnerT struct {\n\tA string `gozod:\"max=5\"`\n}", ""]
    reg = ["var matrix = []blockDef{"]
    for k, b in enumerate(blocks):
        L.append("type M%d struct {" % k)
        n = 0
        def field(rules):
            nonlocal n
            name = "F%d" % n; n += 1
            tag = ",".join(rules)
            L.append("\t%s %s `gozod:%s`" % (name, b["gotype"], q(tag)))
            return "{Field: %s, Rules: %s, Tag: %s}" % (q(name), q("+".join(rules)), q(tag))
        singles = [field([r]) for r in b["singles"]]
        pairs = ["{%s, %s}" % (field([a, c]), field([c, a])) for a, c in b["pairs"]]
        L.append("}"); L.append("")
        L.append("type X%d struct {" % k)
        L.append("\tF0 %s `gozod:\"required\"`" % b["gotype"])       # keeps the struct tagged when there are no extras
        n = 1
        extras = [field([r]) for r in b.get("extras", [])]
        L.append("}"); L.append("")
        reg.append("\t{Fty: %s, GoType: %s, Struct: %d, Probes: []string{%s},\n\t\tSingles: []cellDef{%s},\n\t\tPairs: [][2]cellDef{%s},\n\t\tExtras: []cellDef{%s}}," % (
            q(b["fty"]), q(b["gotype"]), k, ", ".join(q(p) for p in b["probes"]), ", ".join(singles), ", ".join(pairs), ", ".join(extras)))
    reg.append("}"); reg.append("")
    reg.append("var runners = []func() runner{%s}" % ", ".join("mk[M%d]" % k for k in range(len(blocks))))
    reg.append("var xrunners = []func() runner{%s}" % ", ".join("mk[X%d]" % k for k in range(len(blocks))))
    return "\n".join(L + reg) + "\n"

def write_if_changed(path, content):
    try:
        if open(path).read() == content: return False
    except OSError:
        pass
    os.makedirs(os.path.dirname(path), exist_ok=True)
    with open(path, "w") as f: f.write(content)
    return True

# ------------------------------------------------------------------------------------------------
# type graphs: root struct types whose type graph reaches tagged struct types through nested fields
# (value, pointer, slice element, slice of pointers, map value, map of pointers, embedded), the same
# type several times (siblings, T and *T and []T, under two branches), and recursive types (Lazy path).
# Python only writes the Go declarations; the harness reads the type graph back by reflection
# (`c06 genv`), and Gen/TagGraph.lean is rendered from what the harness observed.

G_WRAPS = ["val", "ptr", "slice", "sliceptr", "map", "mapptr", "emb"]
G_GO = {"val": "%s", "ptr": "*%s", "slice": "[]%s", "sliceptr": "[]*%s", "map": "map[string]%s", "mapptr": "map[string]*%s"}
G_TAGS = {"val": ["required", None], "emb": ["required", None], "ptr": ["required", None], "map": ["required", None],
          "mapptr": ["required", None], "slice": ["required", "max=2", None], "sliceptr": ["required", "max=2", None]}
G_DEFTAG = {"val": "required", "emb": "required", "ptr": "required", "map": "required", "mapptr": "required",
            "slice": "max=2", "sliceptr": "max=2"}
LEAF = ("min=3", [])
PLAIN = (None, [])

def graph_roots():
    """[(name, {local type name: (tag of V or None, [(field, wrap, target, tag)])}, crashes)] — the root is type "R"."""
    out = []
    def add(name, types, crash=False): out.append((name, types, crash))
    for w in G_WRAPS:
        for t in G_TAGS[w]:
            add("single_%s_%s" % (w, (t or "untagged").replace("=", "")), {"R": ("min=3", [("X", w, "L", t)]), "L": LEAF})
    for w in ("val", "ptr", "slice", "map"):
        add("plain_%s" % w, {"R": ("min=3", [("X", w, "P", G_DEFTAG[w])]), "P": PLAIN})
    for w1 in G_WRAPS:
        for w2 in G_WRAPS:
            if w1 == "emb" and w2 == "emb": continue
            add("twice_%s_%s" % (w1, w2), {"R": ("min=3", [("X", w1, "L", G_DEFTAG[w1]), ("Y", w2, "L", G_DEFTAG[w2])]), "L": LEAF})
    for ws in [("val", "val", "val"), ("val", "ptr", "slice"), ("ptr", "ptr", "ptr"), ("slice", "sliceptr", "map"),
               ("emb", "val", "ptr"), ("map", "mapptr", "val"), ("sliceptr", "ptr", "val")]:
        add("thrice_" + "_".join(ws), {"R": ("min=3", [("XYZ"[i], w, "L", G_DEFTAG[w]) for i, w in enumerate(ws)]), "L": LEAF})
    # the same type under two branches
    add("diamond_val", {"R": ("min=3", [("X", "val", "M", "required"), ("Y", "val", "M", "required")]),
                        "M": ("min=3", [("L", "val", "L", "required")]), "L": LEAF})
    add("diamond_ptr_slice", {"R": (None, [("X", "ptr", "M", "required"), ("Y", "slice", "M", "max=2")]),
                              "M": ("min=3", [("L", "ptr", "L", "required"), ("K", "slice", "L", "max=2")]), "L": LEAF})
    add("branches_two_mids", {"R": ("min=3", [("X", "val", "M1", "required"), ("Y", "val", "M2", "required")]),
                              "M1": ("min=3", [("L", "val", "L", "required")]), "M2": (None, [("L", "ptr", "L", "required")]), "L": LEAF})
    add("deep_then_shallow", {"R": ("min=3", [("X", "val", "A", "required"), ("Y", "val", "L", "required")]),
                              "A": ("min=3", [("B", "val", "B", "required")]), "B": ("min=3", [("L", "val", "L", "required")]), "L": LEAF})
    add("shallow_then_deep", {"R": ("min=3", [("Y", "val", "L", "required"), ("X", "val", "A", "required")]),
                              "A": ("min=3", [("B", "ptr", "B", "required")]), "B": ("min=3", [("L", "slice", "L", "max=2")]), "L": LEAF})
    add("mids_in_containers", {"R": ("min=3", [("X", "slice", "M", "max=2"), ("Y", "map", "M", "required"), ("Z", "val", "M", "required")]),
                               "M": ("min=3", [("L", "val", "L", "required"), ("K", "sliceptr", "L", "max=2")]), "L": LEAF})
    add("untagged_branch", {"R": ("min=3", [("X", "val", "M", None), ("Y", "val", "M", "required")]),
                            "M": ("min=3", [("L", "val", "L", "required")]), "L": LEAF})
    # recursive types (the Lazy path)
    add("rec_ptr_required", {"R": ("min=3", [("Next", "ptr", "R", "required")])})
    add("rec_ptr_untagged", {"R": ("min=3", [("Next", "ptr", "R", None)])})
    add("rec_sliceptr", {"R": ("min=3", [("Kids", "sliceptr", "R", "max=2")])})
    add("rec_slice", {"R": ("min=3", [("Kids", "slice", "R", "max=2")])})
    add("rec_slice_required", {"R": ("min=3", [("Kids", "slice", "R", "required")])})
    add("rec_with_siblings", {"R": ("min=3", [("Kids", "sliceptr", "R", "max=2"), ("L1", "val", "L", "required"), ("L2", "ptr", "L", "required")]), "L": LEAF})
    add("rec_mutual_slice", {"R": ("min=3", [("Bs", "slice", "B", "max=2")]), "B": ("min=3", [("As", "slice", "R", "max=2")])})
    add("rec_mutual_ptr", {"R": ("min=3", [("B", "ptr", "B", "required")]), "B": ("min=3", [("A", "ptr", "R", "required"), ("Ks", "slice", "B", "max=2")])})
    add("rec_below_root", {"R": ("min=3", [("X", "val", "T", "required"), ("Y", "val", "T", "required")]),
                           "T": ("min=3", [("Kids", "slice", "T", "max=2")])})
    # one self-referential type referred to by several fields with DIFFERENT tags (one object schema per type since a41c851)
    add("rec_refs_mixed", {"R": ("min=3", [("A", "ptr", "R", "required"), ("B", "sliceptr", "R", "max=2"), ("C", "slice", "R", "required"), ("D", "ptr", "R", None)])})
    add("rec_shared_below", {"R": ("min=3", [("X", "val", "T", "required"), ("Y", "ptr", "T", "required"), ("Z", "slice", "T", "max=2")]),
                             "T": ("min=3", [("Kids", "sliceptr", "T", "max=2"), ("Next", "ptr", "T", "required"), ("More", "slice", "T", "required")])})
    # recursion through a map value / a map of pointers (FromStruct did not return before d766956)
    add("rec_map", {"R": ("min=3", [("M", "map", "R", "required")])}, True)
    add("rec_mapptr", {"R": ("min=3", [("M", "mapptr", "R", "required")])}, True)
    add("rec_map_below", {"R": ("min=3", [("X", "val", "T", "required")]), "T": ("min=3", [("M", "map", "T", "required")])}, True)
    return out

def go_graph(roots):
    q = json.dumps
    L = ["// Code generated by vlib/c06.py (type graphs of nested / repeated / recursive struct types); DO NOT EDIT.", "", "package main", ""]
    reg = ["var graphRoots = []graphRoot{"]
    for k, (name, types, crash) in enumerate(roots):
        gn = lambda loc: "G%d%s" % (k, loc)
        for loc, (vtag, fields) in types.items():
            L.append("type %s struct {" % gn(loc))
            L.append("\tV int" + (" `gozod:%s`" % q(vtag) if vtag else ""))
            for fname, wrap, target, tag in fields:
                t = (" `gozod:%s`" % q(tag)) if tag else ""
                if wrap == "emb":
                    L.append("\t%s%s" % (gn(target), t))
                else:
                    L.append("\t%s %s%s" % (fname, G_GO[wrap] % gn(target), t))
            L.append("}")
        L.append("")
        reg.append("\t{Name: %s, Crash: %s, Mk: mkGraph[%s]}," % (q(name), "true" if crash else "false", gn("R")))
    reg.append("}")
    return "\n".join(L + reg) + "\n"

GEN_GO_GRAPH = os.path.join(C.HARNESS, "cmd", "c06", "zz_graph.go")
GEN_LEAN_GRAPH = os.path.join(C.LEAN, "Gozod", "Gen", "TagGraph.lean")

def lean_env(tok):
    """`m3;val:1:r;ptr:1:r/m3` -> Lean literal of Tags.Graph.Env"""
    ds = []
    for d in tok.split("/"):
        parts = d.split(";")
        v = parts[0]
        vmin = "none" if v == "u" else "some %s" % v[1:]
        es = []
        for e in parts[1:]:
            w, t, tag = e.split(":")
            tg = {"r": ".required", "n": ".none"}.get(tag) or (".maxLen %s" % tag[1:])
            es.append("⟨.%s, %s, %s⟩" % (w, t, tg))
        ds.append("⟨%s, [%s]⟩" % (vmin, ", ".join(es)))
    return "[" + ", ".join(ds) + "]"

def lean_gval(toks):
    """prefix tokens -> (Lean literal, rest)"""
    t = toks[0]
    if t == "nil": return ".nil", toks[1:]
    if t == "node":
        v, n = int(toks[1]), int(toks[2]); rest = toks[3:]; kids = []
        for _ in range(n):
            k, rest = lean_gval(rest); kids.append(k)
        return ".node %s [%s]" % (v if v >= 0 else "(%d)" % v, ", ".join(kids)), rest
    if t == "list":
        n = int(toks[1]); rest = toks[2:]; xs = []
        for _ in range(n):
            k, rest = lean_gval(rest); xs.append(k)
        return ".list [%s]" % ", ".join(xs), rest
    raise ValueError(toks[:3])

def graph_table_from(ops, impl):
    rows, order = {}, []
    for o, i in zip(ops, impl):
        t = C.op_body(o).split(" ")
        if len(t) < 3 or t[0] != "c06": continue
        if t[1] == "genv":
            rows[t[2]] = dict(env=i, built=None, probes=[]); order.append(t[2])
        elif t[1] == "gbuild":
            rows[t[2]]["built"] = (i == "built")
        elif t[1] == "graph":
            g, rest = lean_gval(t[4:])
            rows[t[2]]["probes"].append("(%s, %s)" % (g, {"1": ".acc", "0": ".rej"}.get(i, ".fail")))
    L = ["-- REGENERATED on every `./check C06` run by vlib/c06.py: type graphs read back by reflection from the generated",
         "-- Go struct types, and the verdict of gozod.FromStruct[Root]().Parse on every probe value. DO NOT EDIT.",
         "import Gozod.Model.TagGraph", "namespace Gozod.Gen", "open Gozod.Tags.Graph", ""]
    for k, name in enumerate(order):
        r = rows[name]
        L.append("def graphRow%d : GRow where" % k)
        L.append("  name := %s" % json.dumps(name))
        L.append("  env := %s" % lean_env(r["env"]))
        L.append("  built := %s" % ("true" if r["built"] else "false"))
        L.append("  probes := [")
        L.append(",\n".join("    " + p for p in r["probes"]))
        L.append("  ]")
        L.append("")
    L.append("def graphTable : List GRow := [%s]" % ", ".join("graphRow%d" % k for k in range(len(order))))
    L.append("")
    L.append("end Gozod.Gen")
    return "\n".join(L) + "\n"

# ------------------------------------------------------------------------------------------------
# histories of FromStruct calls: families of struct types with ONE field of the same Go type whose tags
# are near-identical — the same rule with a multi-word parameter unquoted / quoted / re-spaced /
# re-ordered, the same two rules in both orders and with white space — built one after the other in a
# fresh child process, in several orders.  The verdict of each struct must not depend on the history.

TWIN_FAMILIES = [
    # (name, Go field type, [tags], [probe strings])
    ("enum2", "string", ["enum=read write", "enum='read write'", "enum= read  write ", "enum=write read", "enum=read", "enum=read write admin", "enum='read' 'write'"],
     ["read", "write", "read write", "write read", "admin", "", "readwrite"]),
    ("enum3", "string", ["enum=a b c", "enum='a b' c", "enum=a 'b c'", "enum='a b c'", "enum=c b a"],
     ["a", "b", "c", "a b", "b c", "a b c", ""]),
    ("includes", "string", ["includes=ab cd", "includes='ab cd'", "includes= ab cd", "includes=cd ab", "includes=ab"],
     ["ab", "cd", "ab cd", "xab cdx", "xcdx", "", "a b"]),
    ("startswith", "string", ["startswith=ab cd", "startswith='ab cd'", "startswith=cd ab", "startswith=ab"],
     ["ab", "cd", "ab cd", "ab cdx", "abx", "cdab", ""]),
    ("endswith", "string", ["endswith=ab cd", "endswith='ab cd'", "endswith=cd ab", "endswith=cd"],
     ["ab", "cd", "ab cd", "xab cd", "xcd", "xab", ""]),
    ("minmax", "string", ["min=3,max=5", "max=5,min=3", " min = 3 , max = 5 ", "min=3", "max=5", "min=5,max=3", "length=4", "min=4,max=4", "min='3',max='5'"],
     ["", "aa", "aaa", "aaaa", "aaaaa", "aaaaaa"]),
    ("required", "string", ["required", "required,min=3", "min=3,required", " required , min=3 ", "required,enum=aaa bbb", "enum=aaa bbb,required"],
     ["", "aa", "aaa", "bbb", "aaa bbb"]),
]

def twin_histories(nvar, tier, seed):
    """orders in which the variants of one family are built in one fresh process"""
    ident = list(range(nvar))
    hs = [ident, ident[::-1], ident + ident]
    for k in range(1, nvar): hs.append(ident[k:] + ident[:k])
    import random
    rnd = random.Random(seed * 7919 + nvar)
    for _ in range(3 if tier == "quick" else 20):
        h = ident[:]; rnd.shuffle(h); hs.append(h)
    out = []
    for h in hs:
        if h not in out: out.append(h)
    return out

def go_twins(fams):
    q = json.dumps
    L = ["// Code generated by vlib/c06.py (families of near-identical tags on one field type, for histories of FromStruct calls); DO NOT EDIT.", "", "package main", ""]
    reg = ["var twinFamilies = []twinFamily{"]
    for f, (name, gotype, tags, probes) in enumerate(fams):
        vs = []
        for i, tag in enumerate(tags):
            L.append("type T%d_%d struct {\n\tF %s `gozod:%s`\n}" % (f, i, gotype, q(tag)))
            vs.append("{Tag: %s, Mk: mkTwin[T%d_%d]}" % (q(tag), f, i))
        L.append("")
        reg.append("\t{Name: %s, Probes: []string{%s}, Variants: []twinVariant{%s}}," % (q(name), ", ".join(q(p) for p in probes), ", ".join(vs)))
    reg.append("}")
    return "\n".join(L + reg) + "\n"

GEN_GO_TWINS = os.path.join(C.HARNESS, "cmd", "c06", "zz_twins.go")

# ------------------------------------------------------------------------------------------------
# Gen/TagTable.lean

def lean_rule(tok):
    name, _, par = tok.partition("=")
    if name in ("min", "max", "gt", "gte", "lt", "lte"): return ".%s %s" % (name, par if int(par) >= 0 else "(%s)" % par)
    if name == "length": return ".length %s" % par
    if name == "regex": return ".regex"
    return "." + name

def lean_probe(tok):
    p = tok.split(":")
    if p[0] == "nil": return ".nil"
    if p[0] == "n": return ".num %s" % (p[1] if int(p[1]) >= 0 else "(%s)" % p[1])
    if p[0] == "i": return ".num %s" % (str(2 * int(p[1])) if int(p[1]) >= 0 else "(%d)" % (2 * int(p[1])))
    if p[0] == "s": return ".str .%s %s" % (p[1], p[2])
    if p[0] == "e": return ".elems %s" % p[1]
    if p[0] == "b": return ".flag %s" % ("true" if p[1] == "1" else "false")
    if p[0] == "in": return ".inner %s" % ("true" if p[1] == "1" else "false")
    raise ValueError(tok)

def lean_bools(bs):
    return "[" + ", ".join("true" if b else "false" for b in bs) + "]"

def lean_table(blocks, obs):
    """obs[(fty, rules, probe)] -> impl observation string."""
    L = ["-- REGENERATED on every `./check C06|C13` run by vlib/c06.py from the behaviour of gozod.FromStruct. DO NOT EDIT.",
         "import Gozod.Model.Tags", "namespace Gozod.Gen", "open Gozod.Tags", ""]
    names = []
    for k, b in enumerate(blocks):
        def row(rules):
            return lean_bools([obs[(b["fty"], "+".join(rules), p)] == "1" for p in b["probes"]])
        base = b["fty"][4:] if b["ptr"] else b["fty"]
        L.append("def tagBlock%d : Block where" % k)
        L.append("  fty := ⟨%s, .%s⟩" % ("true" if b["ptr"] else "false", base))
        L.append("  probes := [%s]" % ", ".join(lean_probe(p) for p in b["probes"]))
        L.append("  singles := [")
        L.append(",\n".join("    (%s, %s)" % (lean_rule(r), row([r])) for r in b["singles"]))
        L.append("  ]")
        L.append("  pairs := [")
        L.append(",\n".join("    (%s, %s, %s, %s)" % (lean_rule(a), lean_rule(c), row([a, c]), row([c, a])) for a, c in b["pairs"]))
        L.append("  ]")
        L.append("")
        names.append("tagBlock%d" % k)
    L.append("def tagTable : List Block := [%s]" % ", ".join(names))
    L.append("")
    L.append("end Gozod.Gen")
    return "\n".join(L) + "\n"

# ------------------------------------------------------------------------------------------------
# Gen/TagSwitches.lean — the STATIC table: go/ast extraction (harness/cmd/c06sw, source only) of the case
# lists of every type switch / type assertion a rule name can reach in types/struct.go, and of the schema
# constructor chosen per reflect.Kind x pointer-ness; rendered with names interned as indices.

SW_RULES = ["min", "max", "length", "email", "url", "uuid", "regex", "positive", "negative", "nonnegative",
            "nonpositive", "nonempty", "gt", "gte", "lt", "lte"]
# rule names the code implements but docs/tags.md does not list in its rule tables: a second, NON-PROPERTY table
# (`Gen.tagFactsX`, same shape) — C06's statement speaks of documented rules only; C13 compares gozodgen with
# FromStruct on these and can read which (rule, field type) cells the reflection path reaches at all.
SW_RULES_X = ["enum", "literal", "default", "prefault", "nilable", "finite", "coerce", "multipleof", "includes", "startswith",
              "endswith", "ipv4", "ipv6", "cidrv4", "cidrv6", "cuid", "cuid2", "jwt", "iso_datetime", "iso_date", "iso_time",
              "iso_duration", "time"]
GO_KIND = {"string": "String", "int": "Int", "int8": "Int8", "int16": "Int16", "int32": "Int32", "int64": "Int64",
           "uint": "Uint", "uint8": "Uint8", "uint16": "Uint16", "uint32": "Uint32", "uint64": "Uint64",
           "float32": "Float32", "float64": "Float64", "bool": "Bool"}
GEN_LEAN_SW = os.path.join(C.LEAN, "Gozod", "Gen", "TagSwitches.lean")

def switch_facts(repo):
    """Run the go/ast extractor on repo/types. Returns (facts, error)."""
    with C.Lock("go"):
        binp = os.path.join(C.BUILD, "bin", "c06sw")
        os.makedirs(os.path.dirname(binp), exist_ok=True)
        rc, out = C.run(["go", "build", "-o", binp, "./cmd/c06sw"], cwd=C.HARNESS, env=C.goenv(), timeout=900)
    if rc != 0: return None, "c06sw does not build: " + out[-800:]
    rc, out = C.run([binp, "-repo", repo, "-rules", ",".join(SW_RULES + SW_RULES_X)])
    if rc != 0: return None, "c06sw failed (the tag-application functions of types/struct.go were not found): " + out[-800:]
    try:
        return json.loads(out), ""
    except ValueError as e:
        return None, "c06sw output is not JSON: %r" % (e,)

def _norm_ty(t):
    return t.replace("interface{}", "any").replace("interface {}", "any").replace(" ", "")

def _split_ty(t):
    """'*ZodSlice[int64,[]int64]' -> ('ZodSlice', 'int64,[]int64'); an identifier -> (name, None)"""
    t = _norm_ty(t)
    m = re.match(r"^\*?([A-Za-z_][A-Za-z_0-9]*)\[(.*)\]$", t)
    if m: return m.group(1), m.group(2)
    return t.lstrip("*"), None

def _ctor_result(facts, expr):
    """result type text of a constructor call expression `Name[targs](…)` / `Name(…)`; None when unknown"""
    m = re.match(r"^([A-Za-z_][A-Za-z_0-9]*)(?:\[([^\]]*)\])?\(", expr)
    if not m: return None
    c = facts["ctors"].get(m.group(1))
    if c is None: return None
    res = c["result"]
    targs = [a.strip() for a in m.group(2).split(",")] if m.group(2) else []
    for tp, ta in zip(c.get("tparams") or [], targs):
        res = re.sub(r"\b%s\b" % re.escape(tp), ta, res)
    return res

def schema_type_of(facts, gotype):
    """the schema type createSchemaFromTypeWithInfo starts with for a field of Go type `gotype` (None: not derived)"""
    ptr = gotype.startswith("*")
    base = gotype[1:] if ptr else gotype
    def kind_expr(kind):
        rows = [k for k in facts["kinds"] if k["kind"] == kind and k["ptr"] == ptr and not k["coerce"]]
        return rows[0]["expr"] if rows else None
    if base in GO_KIND:
        e = kind_expr(GO_KIND[base])
        return _ctor_result(facts, e) if e else None
    if base.startswith("[]"):
        el = base[2:]
        if el in ("Inner", "InnerT"):
            # struct elements: createSchemaFromTypeWithCycleDetection builds Slice[any](schema) itself
            return _ctor_result(facts, "Slice[any](schema)")
        e = kind_expr("Slice")
        if e is None: return None
        m = re.match(r"^(create\w+)\(", e)
        if not m: return _ctor_result(facts, e)
        ek = GO_KIND.get(el) or ("Slice" if el.startswith("[]") else "Pointer" if el.startswith("*") else None)
        rows = [r for r in facts["elems"] if r["func"] == m.group(1) and r["kind"] == ek] or \
               [r for r in facts["elems"] if r["func"] == m.group(1) and r["kind"] == "default"]
        return _ctor_result(facts, rows[0]["expr"]) if rows else None
    return None

def lean_switches(facts, blocks):
    names, idx = [], {}
    def intern(n):
        if n not in idx:
            idx[n] = len(names); names.append(n)
        return idx[n]
    sty, missing = [], []
    for b in blocks:
        if b["cls"] not in ("str", "sint", "uint", "float", "slice"): continue
        t = schema_type_of(facts, b["gotype"])
        if t is None:
            missing.append(b["gotype"]); continue
        h, a = _split_ty(t)
        base = b["fty"][4:] if b["ptr"] else b["fty"]
        sty.append("    (⟨%s, .%s⟩, %d, %d)" % ("true" if b["ptr"] else "false", base, intern(h), intern(a or "")))
    if missing: return None, "no schema constructor derived for field types %s" % ", ".join(missing)
    ifaces = []
    for i, heads in sorted(facts["ifaces"].items()):
        hs = list(heads) + sorted(w for w, e in facts["embeds"].items() if e in heads)
        ifaces.append("    (%d, [%s])" % (intern(i), ", ".join(str(intern(h)) for h in hs)))
    rows = []
    for r in SW_RULES:
        for tl in facts["rules"].get(r, []):
            cs = []
            for t in tl["types"]:
                h, a = _split_ty(t)
                if a is None and h not in facts["ifaces"]:
                    continue       # a case that is neither an instantiation nor a dispatch interface (e.g. `nil`)
                cs.append("⟨%d, %s⟩" % (intern(h), "none" if a is None else "some %d" % intern(a)))
            rows.append("    ⟨.%s, %d, %d, [%s]⟩" % (r, intern(tl["func"]), tl["line"], ", ".join(cs)))
    rowsx = []
    for r in SW_RULES_X:
        for tl in facts["rules"].get(r, []):
            cs = []
            for t in tl["types"]:
                h, a = _split_ty(t)
                if a is None and h not in facts["ifaces"]: continue
                cs.append("⟨%d, %s⟩" % (intern(h), "none" if a is None else "some %d" % intern(a)))
            rowsx.append("    ⟨%s, %d, %d, [%s]⟩" % (json.dumps(r), intern(tl["func"]), tl["line"], ", ".join(cs)))
    L = ["-- REGENERATED on every `./check C06` run by vlib/c06.py from harness/cmd/c06sw (go/ast over types/*.go). DO NOT EDIT.",
         "import Gozod.Model.TagSwitch", "namespace Gozod.Gen", "open Gozod.Tags Gozod.Tags.Sw", "",
         "def tagFacts : Facts where",
         "  names := [%s]" % ", ".join(json.dumps(n) for n in names),
         "  schemaTy := [", ",\n".join(sty), "  ]",
         "  rows := [", ",\n".join(rows), "  ]",
         "  ifaces := [", ",\n".join(ifaces), "  ]",
         "",
         "/-- NON-PROPERTY table: the rule names types/struct.go implements but docs/tags.md does not list; same indices into",
         "    `tagFacts.names`; `(rule name, function, line, cases)`.  Read by C13 (gozodgen vs FromStruct); no C06 theorem. -/",
         "def tagSwitchesX : List (String × Nat × Nat × List CaseTy) := [", ",\n".join(rowsx), "  ]",
         "", "end Gozod.Gen"]
    return "\n".join(L) + "\n", ""

def static_unreached(facts, blocks):
    """Python mirror of Sw.reaches, for the evidence and for aiming: the documented (rule, field type) cells no case reaches,
    with the switches the rule name leads to."""
    out = []
    impl = {i: set(hs) | {w for w, e in facts["embeds"].items() if e in hs} for i, hs in facts["ifaces"].items()}
    for b in blocks:
        if b["cls"] not in ("str", "sint", "uint", "float", "slice"): continue
        t = schema_type_of(facts, b["gotype"])
        if t is None: continue
        h, a = _split_ty(t)
        seen = set()
        for r in b["singles"]:
            name = r.split("=")[0]
            if name == "required" or name in seen or name not in SW_RULES: continue
            seen.add(name)
            hit = False
            for tl in facts["rules"].get(name, []):
                for c in tl["types"]:
                    ch, ca = _split_ty(c)
                    if (ca is not None and ch == h and ca == a) or (ca is None and h in impl.get(ch, ())): hit = True
            if not hit:
                where = ", ".join(sorted({"%s:%d" % (tl["func"], tl["line"]) for tl in facts["rules"].get(name, [])})) or "no switch handles this rule name"
                out.append("%s on %s: no case for *%s[%s] (%s)" % (name, b["gotype"], h, a, where))
    return out

GEN_LEAN_X = os.path.join(C.LEAN, "Gozod", "Gen", "TagTableX.lean")

def lean_table_x(blocks, ops, impl):
    obs = {}
    for o, i in zip(ops, impl):
        t = C.op_body(o).split(" ")
        if len(t) >= 5 and t[1] == "xcell": obs[(t[2], t[3], t[4])] = i
    L = ["-- REGENERATED on every `./check C06` run by vlib/c06.py from the behaviour of gozod.FromStruct. DO NOT EDIT.",
         "-- NON-PROPERTY table: rule names the code implements but docs/tags.md does not list in its rule tables",
         "-- (C06's statement speaks of documented rules only).  (field type, probes, [(tag, verdict per probe)]);",
         "-- verdict 1 = the field raised no issue, 0 = it did, 2 = FromStruct / Parse panicked or failed otherwise.",
         "-- No oracle, no C06 theorem: read by C13, which compares gozodgen with FromStruct on these rules.",
         "import Gozod.Model.Tags", "namespace Gozod.Gen", "open Gozod.Tags", "",
         "def tagTableX : List (FTy × List Probe × List (String × List Nat)) := ["]
    rows = []
    for b in blocks:
        if not b.get("extras"): continue
        base = b["fty"][4:] if b["ptr"] else b["fty"]
        cells = []
        for r in b["extras"]:
            tok = r.replace(" ", "~")
            vs = [{"1": "1", "0": "0"}.get(obs.get((b["fty"], tok, p), "?"), "2") for p in b["probes"]]
            cells.append("(%s, [%s])" % (json.dumps(r), ", ".join(vs)))
        rows.append("  (⟨%s, .%s⟩, [%s],\n    [%s])" % ("true" if b["ptr"] else "false", base,
                    ", ".join(lean_probe(p) for p in b["probes"]), ",\n     ".join(cells)))
    L.append(",\n".join(rows)); L.append("]"); L.append(""); L.append("end Gozod.Gen")
    return "\n".join(L) + "\n"

GEN_GO = os.path.join(C.HARNESS, "cmd", "c06", "zz_matrix.go")
GEN_LEAN = os.path.join(C.LEAN, "Gozod", "Gen", "TagTable.lean")

def run_harness(res, prop="C06"):
    """Generate the matrix source, build + run the harness. Returns (ops, impl, stats, blocks) or (None, err)."""
    blocks, err = build_matrix(C.REPO)
    if blocks is None: return None, err
    write_if_changed(GEN_GO, go_matrix(blocks))
    write_if_changed(GEN_GO_GRAPH, go_graph(graph_roots()))
    write_if_changed(GEN_GO_TWINS, go_twins(TWIN_FAMILIES))
    ok, out = C.build_harness(prop)
    if not ok: return None, "harness does not build against the current tree:\n" + out[-4000:]
    rundir = os.path.join(C.BUILD, "run", "%s-%s-%d" % (prop, res.tier, os.getpid()))
    shutil.rmtree(rundir, ignore_errors=True); os.makedirs(rundir)
    env = C.goenv(); env["GOMEMLIMIT"] = "8GiB"
    with open(os.path.join(rundir, "histories.txt"), "w") as f:
        for name, _, tags, _ in TWIN_FAMILIES:
            for h in twin_histories(len(tags), res.tier, res.seed):
                f.write("%s %s\n" % (name, ",".join(map(str, h))))
    rc, out = C.run([C.harness_bin(prop), "-seed", str(res.seed), "-tier", res.tier, "-out", rundir,
                     "-histories", os.path.join(rundir, "histories.txt")], env=env, timeout=3600)
    if rc != 0: return None, "harness failed (rc=%d):\n%s" % (rc, out[-4000:])
    ops = open(os.path.join(rundir, "ops.txt")).read().split("\n")
    impl = open(os.path.join(rundir, "impl.txt")).read().split("\n")
    if ops and ops[-1] == "": ops.pop()
    if impl and impl[-1] == "": impl.pop()
    stats = json.load(open(os.path.join(rundir, "stats.json")))
    return (ops, impl, stats, blocks, rundir), ""

def table_from(ops, impl, blocks):
    obs = {}
    for o, i in zip(ops, impl):
        t = C.op_body(o).split(" ")
        if len(t) >= 5 and t[1] == "cell": obs[(t[2], t[3], t[4])] = i
    return lean_table(blocks, obs)

FORMAT_FIRST = ["email", "url", "uuid", "regex", "required", "min", "max", "length", "positive", "negative",
                "nonnegative", "nonpositive", "nonempty", "gt", "gte", "lt", "lte"]

def make_key(ops, impl, model):
    """Failure-class key.  A failing probe of a two-rule cell is attributed to a single-rule cell
    (cell:rule=R,fty=T) when the pair's verdict equals the conjunction of the two single-rule
    verdicts observed in this run (then some single rule R is itself wrong on that probe);
    otherwise it is an interaction of the two rules (pair:rules=A+B,fty=T, format rules first)."""
    obs, spec = {}, {}
    for o, i, m in zip(ops, impl, model):
        t = C.op_body(o).split(" ")
        if len(t) >= 5 and t[1] == "cell":
            obs[(t[2], t[3], t[4])] = i
            spec[(t[2], t[3], t[4])] = m.split(" ")[0]
    def key(op, im, M, S):
        t = C.op_body(op).split(" ")
        if t[1] == "cell":
            fty, rules, probe = t[2], t[3].split("+"), t[4]
            names = [r.split("=")[0] for r in rules]
            # gt/gte/lt/lte work on int/int64 fields for small bounds and are rounded above 2^53: own class
            names = [n + "@above2^53" if (n in ("gt", "gte", "lt", "lte") and fty in ("int", "int64") and abs(int(r.split("=")[1])) > 2 ** 53) else n
                     for n, r in zip(names, rules)]
            if not (im in ("0", "1")):
                return "cell-%s:rule=%s,fty=%s" % (re.split(r"[:_]", im)[0], "+".join(names), fty)
            if len(rules) == 1:
                return "cell:rule=%s,fty=%s" % (names[0], fty)
            singles = [obs.get((fty, r, probe)) for r in rules]
            if all(x in ("0", "1") for x in singles):
                conj = "1" if all(x == "1" for x in singles) else "0"
                if conj == im:
                    for r, n, x in zip(rules, names, singles):
                        if x != spec.get((fty, r, probe)):
                            return "cell:rule=%s,fty=%s" % (n, fty)
            a, b = sorted(names, key=lambda n: FORMAT_FIRST.index(n.split("@")[0]) if n.split("@")[0] in FORMAT_FIRST else 99)
            return "pair:rules=%s+%s,fty=%s" % (a, b, fty)
        if t[1] == "graph":
            # accepted/rejected by the implementation; which corruption; under which kind of edge (fwd / back / untagged)
            return "graph:%s:%s" % ({"1": "accepted", "0": "rejected"}.get(im, re.split(r"[:_]", im)[0]), t[3])
        if t[1] == "graphagain":
            # same classes as the first pass; a verdict that differs from the first pass is its own class
            if im.startswith("changed"): return "graph-history:changed:%s" % t[3]
            return "graph:%s:%s" % ({"1": "accepted", "0": "rejected"}.get(im, re.split(r"[:_]", im)[0]), t[3])
        if t[1] == "gbuild":
            return "gbuild:%s:%s" % (im, t[2])
        if t[1] == "hist":
            # family, rule names of the tag; `first` = the struct is the first one built in its process
            return "hist:%s:%s:%s" % (t[2], "first" if t[4] == "0" else "later", {"1": "accepted", "0": "rejected"}.get(im, re.split(r"[:_]", im)[0]))
        if t[1] == "stype":
            return "static:schema-type:%s" % t[2]
        if t[1] == "tag":
            if im.startswith("panic"): return "tagparser:panic"
            if im.endswith("ws=0"): return "tagparser:whitespace"
            return "tagparser:model-mismatch"
        return t[1]
    return key

def describe(op):
    t = C.op_body(op).split(" ")
    if t[1] == "cell":
        return "type M struct{ F <type> `gozod:\"<tag>\"` }; gozod.FromStruct[M]().Parse(M{F: <probe>}) — type/tag in the op comment; probe n:<2*value> s:<kind>:<bytes> e:<elements> nil; 1 = no issue on F"
    if t[1] == "hist":
        return "fresh process; FromStruct of the struct types of family %s (harness/cmd/c06/zz_twins.go) in the order %s; then the Parse in the op comment on struct #%s of that order" % (t[2], t[3], t[4])
    if t[1] == "stype":
        return "the concrete schema type of a field of this Go type, by reflection on FromStruct's Shape (expression in the op comment) vs. the go/ast derivation in Gen/TagSwitches.lean"
    if t[1] in ("graph", "graphagain", "gbuild", "genv"):
        return "the Go expression in the op comment (struct types: harness/cmd/c06/zz_graph.go, root %s); value tokens: nil | node <V> <n> kid*n | list <n> elem*n" % t[2]
    return "tagparser.New().ParseTagString(<tag in the op comment>)"

def witness_audit(res, proofs_ok):
    """Witness theorems (known-finding region is exact, full statements are false) are built apart:
    when the library is repaired they stop checking, which is reported, not alarmed."""
    cov = res.coverage
    cov["obligations"] = cov.get("obligations", 0) + len(W_THEOREMS)
    cov["theorems"] = cov.get("theorems", []) + W_THEOREMS
    if not proofs_ok: return
    okw, out = C.lake_build(W_MODULES)
    if okw:
        ax, raw = C.audit_axioms(W_MODULES, W_THEOREMS)
        bad = {t: a for t, a in ax.items() if a is None or not set(a) <= C.ALLOWED_AXIOMS}
        cov["discharged"] = cov.get("discharged", 0) + len(W_THEOREMS) - len(bad)
        if bad: res.notes.append("witness theorems failed the axiom audit: %r" % bad)
    else:
        res.notes.append("witness module %s no longer checks: some known finding no longer reproduces (the known region in Model/TagsKnown.lean should shrink)" % W_MODULES[0])
        print("NOTE property=%s witness theorems no longer check (a known finding no longer reproduces)" % res.prop)

def run(res):
    with C.Lock("c06-gen"):
        return _run(res)

def _run(res):
    got, err = run_harness(res)
    if got is None:
        C.tie_broken(res, "correspondence C06/matrix+tagparser", err)
        return res.finish()
    ops, impl, stats, blocks, rundir = got
    changed = write_if_changed(GEN_LEAN, table_from(ops, impl, blocks))
    if changed: res.notes.append("Gen/TagTable.lean changed and was rewritten")
    try:
        gtxt = graph_table_from(ops, impl)
    except (ValueError, KeyError, IndexError) as e:
        C.tie_broken(res, "translator C06/TagGraph", "cannot render Gen/TagGraph.lean from the harness output: %r" % (e,))
        return res.finish()
    if write_if_changed(GEN_LEAN_GRAPH, gtxt): res.notes.append("Gen/TagGraph.lean changed and was rewritten")
    if write_if_changed(GEN_LEAN_X, lean_table_x(blocks, ops, impl)): res.notes.append("Gen/TagTableX.lean (non-property) changed and was rewritten")
    # the static table: case lists of the type switches of types/struct.go (go/ast), regenerated
    facts, err = switch_facts(C.REPO)
    if facts is None:
        C.tie_broken(res, "translator C06/TagSwitches", err)
        return res.finish()
    stxt, err = lean_switches(facts, blocks)
    if stxt is None:
        C.tie_broken(res, "translator C06/TagSwitches", err)
        return res.finish()
    if write_if_changed(GEN_LEAN_SW, stxt): res.notes.append("Gen/TagSwitches.lean changed and was rewritten")
    unreached = static_unreached(facts, blocks)
    res.coverage["static_switch_table"] = dict(
        rows=sum(len(v) for v in facts["rules"].values()), rule_names=len(SW_RULES),
        constructor_branches=len(facts["kinds"]) + len(facts["elems"]), dispatch_interfaces=sorted(facts["ifaces"]),
        unreached_cells=len(unreached), unreached_sample=unreached[:12])
    ok, detail = C.prove(res, MODULES, THEOREMS)
    # the driver (spec oracle + parser model) is needed even when a proof over the table broke
    if not ok:
        C.lake_build(["driver_c06"])
    with open(os.path.join(rundir, "ops.txt")) as fin, open(os.path.join(rundir, "model.txt"), "w") as fout:
        rc, _ = C.run([C.driver_bin("C06")], stdin=fin, stdout=fout, timeout=3600)
    model = open(os.path.join(rundir, "model.txt")).read().split("\n")
    if model and model[-1] == "": model.pop()
    shutil.rmtree(rundir, ignore_errors=True)
    if rc != 0 or len(model) != len(ops):
        C.tie_broken(res, "correspondence C06/driver", "driver rc=%s lines=%d ops=%d\n%s" % (rc, len(model), len(ops), detail))
        return res.finish()
    # tag lines: the driver gives the model's observation; the property oracle on the implementation
    # (no panic, ws=1) is in the observation itself.  Property holds on impl -> spec := impl (a
    # difference from the model is then drift); property fails on impl -> spec := model.
    for i, o in enumerate(ops):
        if o.startswith("c06 tag"):
            m = model[i].split("\t")[0]
            good = (not impl[i].startswith("panic")) and impl[i].endswith("ws=1")
            model[i] = m + "\t" + (impl[i] if good else m)
        elif o.startswith("c06 tablesum") or o.startswith("c06 genv"):
            model[i] = model[i].split("\t")[0] + "\t" + impl[i]      # a difference is drift of the regenerated table
        elif o.startswith("c06 xcell"):
            model[i] = impl[i] + "\t" + impl[i]      # non-property cells: recorded into Gen/TagTableX.lean, never judged
        elif o.startswith("c06 stype"):
            m = model[i].split("\t")[0]
            # field types no rule switch applies to (bool, maps, nested structs) are not in the static table
            model[i] = (impl[i] if m == "-" else m) + "\t" + impl[i]  # a difference: the static derivation of the schema type is wrong
    C.decide(res, "C06", (ops, impl, model, stats), make_key(ops, impl, model), "C06/matrix+tagparser", describe=describe)
    if not ok and not res.violations:
        C.tie_broken(res, "proof Gozod.Proofs.C06", detail)
    witness_audit(res, ok)
    res.coverage["rule"] = ("matrix: every rule documented in docs/tags.md for the field's class (string/numeric/slice; `required` everywhere) x "
        "%d field types (string, 10 int widths, 2 floats, bool, 10 slice types, 4 map types, 2 nested structs, and a pointer to each) x "
        "single rule and both orders of every pair x boundary probes (value-1/value/value+1 of every bound, sign boundaries, halves for floats, "
        "nil for pointers, member/non-member strings of 5 kinds at 9 lengths); exhaustive and deterministic in both tiers. "
        "tag parser: corpus + every string of length <= 3 (thorough 4) over 15 special bytes + 20000 (thorough 400000) random fragment/byte strings. "
        "type graphs: %d generated root struct types (single nested field of every wrap x tag; every ordered pair of wraps as siblings of one tagged type; triples; diamonds and two branches; recursive, mutually recursive and map-recursive types), valid base value + every single corruption (invalid V at every node, nil at every pointer, nil/empty/too long at every slice, nil/empty at every map). "
        "histories: %d families of near-identical tags on one string field x identity/reverse/doubled/rotated/3 seeded random (thorough 20) build orders, each in a fresh child process, all probes after each build and again at the end. "
        "distinct = distinct op lines." % (len(blocks), len(graph_roots()), len(TWIN_FAMILIES)))
    res.assumptions += [
        "docs/tags.md tables are the documented rule set; `required` is read as presence (pointer non-nil)",
        "string length is len() in bytes",
        "Go decodes the tag into runes as `for range` does (the parser model starts from the rune list)",
        "one parameter value per rule and tags of at most two rules represent the rule x type x order matrix",
        "a field without a gozod tag is not validated (the statement quantifies over tagged fields); a nil slice / map in a field that is not `required` is the absent (empty) container and is acceptable",
        "finite acyclic values only: cyclic pointer structures are not generated",
    ]
    return res.finish()
