// Command harness drives the real gozod code (from /repo via the module replace) and
// writes, per property, the op lines for the Lean driver and the implementation's
// observations.  Usage: harness <prop> -seed N -tier quick|thorough -out DIR [-replay FILE]
package main

import (
	"flag"
	"fmt"
	"os"
	"strings"
)

type config struct {
	seed   uint64
	tier   string
	outDir string
	replay string
	args   []string
}

var props = map[string]func(config) error{}

func main() {
	if len(os.Args) < 2 {
		fmt.Fprintln(os.Stderr, "usage: harness <prop> [flags]")
		os.Exit(2)
	}
	prop := strings.ToLower(os.Args[1])
	fs := flag.NewFlagSet(prop, flag.ExitOnError)
	var c config
	fs.Uint64Var(&c.seed, "seed", 1, "PRNG seed")
	fs.StringVar(&c.tier, "tier", "quick", "quick|thorough")
	fs.StringVar(&c.outDir, "out", "", "output directory")
	fs.StringVar(&c.replay, "replay", "", "replay file")
	fs.Parse(os.Args[2:])
	c.args = fs.Args()
	f, ok := props[prop]
	if !ok {
		fmt.Fprintln(os.Stderr, "unknown property", prop)
		os.Exit(2)
	}
	if err := f(c); err != nil {
		fmt.Fprintln(os.Stderr, "harness error:", err)
		os.Exit(3)
	}
}
