"""C04 — Parse is total: nil error on success, else a well-formed ZodError, never a panic."""
from . import common as C

MANIFEST = dict(
   technique="Lean 4 proof that every error the container model builds is well-formed relative to its members (>= 1 issue, known code, message, non-nil path; creators + FinalizeIssue modelled as smart constructors), + correspondence: (m) container cases where the model predicts the outcome shape, (x) the schema-type x Go-kind cross product with every call under recover(), judged on the implementation alone",
   text="c04_error_wf: for every container, member environment whose own errors are well-formed, Cfg with the intersection path patch and input, the model returns ok or an error with at least one issue, each with a known code, a message and a non-nil path (by induction: any nesting depth); c04_ok_no_error; witness c04_inter_nil_path for today's code. PARTIAL: panic-freedom cannot be a theorem about a total Lean model; it is decided by the tie: 75 hand-picked + generated schemas (every schema type, modifiers, coercion, compositions, recursion through Lazy; no user callbacks) x 118 values of every Go kind (nil, typed nils, **T, NaN/Inf/-0, complex, unhashable map values, funcs, chans, unsafe.Pointer, structs with interface fields, reflect.Value, deep nesting) x Parse/ParseAny/StrictParse under recover(); observation total | panic:<class> | malformed:<why>.",
   note="PARTIAL (DESIGN §8): the theorem covers the SHAPE of errors built by composites from their members' errors; it does not cover primitives' own creators (coordinator's C01 model) nor panics. Panic-freedom and error shape over the cross product are observed on the implementation under recover(), i.e. tested on an enumerated cross product, not proved for all inputs. Trusted: Lean kernel; axioms propext/Classical.choice/Quot.sound only; the Go harness, errors.As, comparer. Schemas with user callbacks (Refine/Transform/Overwrite/Check/DefaultFunc) are outside the statement and not generated.",
   design="DESIGN.md §5 C04; notes/C04.md")

MODULES = ["Gozod.Proofs.C04"]
THEOREMS = ["Gozod.C04." + t for t in [
    "c04_error_wf", "c04_ok_no_error", "c04_inter_nil_path", "mergeUnrec_wf", "engine_wf",
    "sliceElems_wf", "objectFields_wf", "recordValues_wf",
]]

def split(line):
    f = line.split("\t")
    return f[0], None          # the model column is the prediction; the statement itself is the oracle

def key(op, impl, M, S):
    c = C.op_comment(op).split(" ")
    kind = c[1] if len(c) > 1 else "?"
    return "%s:%s" % (impl.replace("err(malformed:", "malformed:").rstrip(")"), kind)

def describe(op):
    return C.op_comment(op).strip()

def run(res):
    ok, detail = C.prove(res, MODULES, THEOREMS)
    if not ok:
        C.tie_broken(res, "proof Gozod.Proofs.C04", detail)
    data, err = C.correspond(res, "C04")
    if data is None:
        C.tie_broken(res, "correspondence C04/totality", err)
        return res.finish()
    ops, impl, model, stats = data
    # the statement's oracle on the observation: conforming outcomes are ok / err(wf) / total
    conforming = {"ok", "err(wf)", "total"}
    ops2, impl2, model2 = [], [], []
    drift = []
    for i, (o, im, ml) in enumerate(zip(ops, impl, model)):
        M = ml.split("\t")[0]
        if im in conforming and M != im:
            drift.append(i)                      # impl conforms to the statement but the model predicted otherwise
        ops2.append(o); impl2.append(im)
        # statement violated → class key; else agreement is model == impl
        model2.append(M if im in conforming else "predicted:" + M)
    C.decide(res, "C04", (ops2, impl2, model2, stats), key, "C04/totality", split=split, describe=describe)
    res.coverage["rule"] = ("x: 75 schemas (every schema type, modifier, coercion, composition; recursive Lazy) + 60 (600 thorough) generated nestings x 118 Go values of every kind "
        "x Parse/ParseAny/StrictParse (StrictParse only where the value is assignable to the parameter type); m: 12 (120) generated schemas per container kind x valid / "
        "corrupted / 38 wrong-shape inputs with the Lean model predicting ok | err(wf) | err(malformed). distinct = distinct op lines. cfg = " + str(stats.get("cfg")))
    res.assumptions += [
        "PARTIAL: panic-freedom is observed under recover() on the enumerated cross product; it is not a theorem",
        "well-formedness of primitives' own errors is a hypothesis of c04_error_wf (checked on the implementation for every case, not proved here)",
    ]
    return res.finish()
