"""C14 — schemas, the registry and global config are safe under concurrent use (PARTIAL)."""
import json, os, shutil
from . import common as C

MANIFEST = dict(
   technique="Lean 4 proof over access sets: (a) lock-sets of all process-wide / lazily written state extracted from the sources by a go/ast translator (regenerated into Gozod/Gen/LockSets.lean on every run) and proved race-free by evaluation of the whole table; (b) the C08/C12/C15 frame theorems: every schema operation writes only locations it allocated. Failing-schedule search: the harness built with -race, goroutines x operation classes on shared schemas, results cross-checked with run-alone results",
   text="c14_racefree: any two accesses in the regenerated table to one location are both reads, both atomic, ordered by one sync.Once, or inside critical sections of one mutex (writers in W mode) — registry map, config pointer, modifier priority counter, regex caches. c14_schema_ops_read_only: chaining calls, ToJSONSchema and default-resolving Parse leave every pre-existing store location untouched (writes go to locations allocated by the call), so concurrent operations on shared schemas conflict on no schema location. Witnesses locales_unsynchronised and lazy_cache_unsynchronised: the two locations excluded (open known findings), both confirmed by the race detector.",
   note="PARTIAL. The Go memory model, the sync primitives, the scheduler and deadlock freedom are not modelled; 'every result equals the run-alone result' is only checked by the -race runs (9 scenarios, 8 goroutines; thorough 16), which observe only the schedules that happen. The lock-set translator is a syntactic approximation (locks held = Lock/RLock seen earlier in the same function and not yet released; shared objects = package-level maps, map fields of structs carrying a mutex, atomics, fields assigned inside once.Do) over 7 files; accesses reached through other files are not listed. Meta() on non-string types writes the registry under its lock (race-free) but changes the receiver (C08 finding). Trusted: Lean kernel, axioms propext/Classical.choice/Quot.sound, go/ast translator, Go race detector.",
   design="DESIGN.md §5 C14", category="proof")

MODULES = ["Gozod.Proofs.C14"]
THEOREMS = [
    "Gozod.C14.c14_racefree", "Gozod.C14.c14_racefree_table", "Gozod.C14.c14_schema_ops_read_only",
    "Gozod.C14.locales_unsynchronised", "Gozod.C14.lazy_cache_unsynchronised",
]
GEN = os.path.join(C.LEAN, "Gozod", "Gen", "LockSets.lean")
EXPECTED_LOCS = ["core.Registry.meta", "core.globalConfig", "core.modifierPriorityCounter", "regex.macCache",
                 "types.ZodLazyInternals.innerType", "locales.DefaultLocales"]


def key(op, impl, M, S):
    return "race:" + C.op_body(op).split(" ")[2] if impl.startswith("RACE") else impl.split(" ")[0] + ":" + C.op_body(op).split(" ")[2]


def regenerate(res):
    ok, out = C.build_harness("C14X")
    if not ok:
        return "translator does not build:\n" + out[-2000:]
    d = os.path.join(C.BUILD, "run", "c14x-%d" % os.getpid())
    shutil.rmtree(d, ignore_errors=True); os.makedirs(d)
    rc, out = C.run([C.harness_bin("C14X"), "-repo", C.REPO, "-out", d], timeout=300)
    if rc != 0:
        return "translator failed: " + out[-2000:]
    new = open(os.path.join(d, "LockSets.lean")).read()
    shutil.rmtree(d, ignore_errors=True)
    missing = [l for l in EXPECTED_LOCS if '"%s"' % l not in new]
    if missing:
        return "translator no longer finds the shared objects %r (renamed or restructured?)" % missing
    old = open(GEN).read() if os.path.exists(GEN) else ""
    if new != old:
        with open(GEN, "w") as f: f.write(new)
        res.notes.append("Gen/LockSets.lean regenerated (content changed)")
    res.coverage["lockset_rows"] = new.count("⟨")
    return None


def race_run(res):
    ok, out = C.build_harness("C14", race=True)
    if not ok:
        return None, "race harness does not build:\n" + out[-3000:]
    rundir = os.path.join(C.BUILD, "run", "C14-%s-%d" % (res.tier, os.getpid()))
    shutil.rmtree(rundir, ignore_errors=True); os.makedirs(rundir)
    rc, out = C.run([C.harness_bin("C14") + "-race", "-seed", str(res.seed), "-tier", res.tier, "-out", rundir],
                    env=C.goenv(), timeout=3600)
    if rc != 0:
        return None, "race harness failed rc=%d:\n%s" % (rc, out[-3000:])
    with open(os.path.join(rundir, "ops.txt")) as fin, open(os.path.join(rundir, "model.txt"), "w") as fout:
        rc, _ = C.run([C.driver_bin("C14")], stdin=fin, stdout=fout, timeout=600)
    if rc != 0:
        return None, "driver failed"
    rd = lambda n: [l for l in open(os.path.join(rundir, n)).read().split("\n") if l != ""]
    ops, impl, model = rd("ops.txt"), rd("impl.txt"), rd("model.txt")
    stats = json.load(open(os.path.join(rundir, "stats.json")))
    # keep the race detector's reports next to the evidence
    keep = os.path.join(C.EVDIR, "replay")
    os.makedirs(keep, exist_ok=True)
    for f in os.listdir(rundir):
        if f.startswith("race-") or f.startswith("crash-"):
            shutil.copyfile(os.path.join(rundir, f), os.path.join(keep, "C14-%s-%s" % (res.seed, f)))
    shutil.rmtree(rundir, ignore_errors=True)
    if not (len(ops) == len(impl) == len(model)):
        return None, "stream length mismatch"
    return (ops, impl, model, stats), ""


def describe(op):
    return ("scenario %s of harness/cmd/c14 (built with -race); the race detector's report of this run is kept as "
            "evidence/replay/C14-<seed>-race-<scenario>.txt" % C.op_body(op).split(" ")[2])


def run(res):
    err = regenerate(res)
    if err:
        C.tie_broken(res, "translator C14/lock-sets", err)
        return res.finish()
    ok, detail = C.prove(res, MODULES, THEOREMS)
    if not ok:
        C.tie_broken(res, "proof Gozod.Proofs.C14 (regenerated lock-set table)", detail)
    data, err = race_run(res)
    if data is None:
        C.tie_broken(res, "correspondence C14/race-scenarios", err)
        return res.finish()
    C.decide(res, "C14", data, key, "C14/race-scenarios", describe=describe)
    res.coverage["rule"] = ("9 scenarios (shared Parse/StrictParse; chaining incl. Record.Partial; ToJSONSchema+Parse+chaining on relatives; registry "
        "Add/Get/Has/Remove/Range + Meta/Describe; SetConfig/Config + Parse; first use of a lazy schema vs chaining (40 fresh schemas); regex-cache "
        "backed formats; RegisterLocale vs formatters; every schema type: probe-set parse + ToJSONSchema + Optional + Describe), each in its own "
        "process under the race detector, 8 goroutines x 60 iterations x rounds (thorough: 16 x 400), every result compared with the run-alone result "
        "of a twin family. distinct = scenarios.")
    res.assumptions += [
        "Go memory model, sync.Mutex/RWMutex/Once and sync/atomic behave as documented (not modelled)",
        "the race detector only sees the schedules that occur in the run",
        "lock-sets are extracted syntactically from 7 files (core/registry.go, core/config.go, core/interfaces.go, types/lazy.go, pkg/regex/{networks,primitives}.go, locales/locales.go)",
    ]
    return res.finish()
