package main

import (
	"fmt"
	"go/ast"
	"go/parser"
	"go/token"
	"os"
	"path/filepath"
	"regexp"
	"sort"
	"strconv"
	"strings"

	"github.com/kaptinlin/gozod"
	"github.com/kaptinlin/gozod/core"
	"github.com/kaptinlin/gozod/jsonschema"
	"github.com/kaptinlin/gozod/pkg/regex"
	"github.com/kaptinlin/gozod/pkg/validate"
)

// format describes one C20 schema: how the public constructor is obtained, which check factory
// (internal/checks/format.go) it attaches, and the direct pkg/validate entry point.
type format struct {
	name     string                 // op-line name, Lean suffix
	checkFn  string                 // function in internal/checks/format.go that builds the check
	mk       func() core.ZodSchema  // fresh schema from the public constructor
	validate func(v any) bool       // pkg/validate function the check is expected to call
	delim    string                 // MAC delimiter
	extraRe  []string               // regex.<Name> the public constructor adds through String.Regex (types/ids.go)
	family   string                 // option family ("dto", "tmo"): variants are run interleaved in one process
	dtOpts   *regex.DatetimeOptions // options of regex.Datetime for an IsoDateTime(options) variant
	tmOpts   *regex.TimeOptions     // options of regex.Time for an IsoTime(options) variant
}

// precisions of the option families: label -> *int
var precLabels = []string{"n", "m", "0", "1", "2", "3", "9"}

func precOf(label string) *int {
	switch label {
	case "n":
		return nil
	case "m":
		v := -1
		return &v
	}
	v := int(label[0] - '0')
	return &v
}

func init() {
	for _, pl := range precLabels {
		for _, off := range []bool{false, true} {
			for _, loc := range []bool{false, true} {
				p, off, loc := precOf(pl), off, loc
				name := fmt.Sprintf("dto_%s_%s_%s", pl, b01(off), b01(loc))
				formats = append(formats, format{name: name, checkFn: "ISODateTimeWithOptions", family: "dto",
					mk: func() core.ZodSchema {
						return gozod.IsoDateTime(gozod.IsoDatetimeOptions{Precision: p, Offset: off, Local: loc})
					},
					validate: func(v any) bool {
						return validate.ISODateTimeWithOptions(v, validate.ISODateTimeOptions{Precision: p, Offset: off, Local: loc})
					},
					dtOpts: &regex.DatetimeOptions{Precision: p, Offset: off, Local: loc}})
			}
		}
	}
	for _, pl := range precLabels {
		p := precOf(pl)
		formats = append(formats, format{name: "tmo_" + pl, checkFn: "ISOTimeWithOptions", family: "tmo",
			mk:       func() core.ZodSchema { return gozod.IsoTime(gozod.IsoTimeOptions{Precision: p}) },
			validate: func(v any) bool { return validate.ISOTimeWithOptions(v, validate.ISOTimeOptions{Precision: p}) },
			tmOpts:   &regex.TimeOptions{Precision: p}})
	}
	formats = append(formats,
		format{name: "macdot", checkFn: "MACWithOptions", mk: func() core.ZodSchema { return gozod.MAC(".") },
			validate: func(v any) bool { return validate.MACWithOptions(v, validate.MACOptions{Delimiter: "."}) }, delim: "."},
		format{name: "uuidp6", checkFn: "UUID", mk: func() core.ZodSchema { return gozod.UUID("v6") },
			validate: func(v any) bool { return validate.UUID(v) && validate.Regex(v, regex.UUID6) }, extraRe: []string{"UUID6"}},
		format{name: "uuidp7", checkFn: "UUID", mk: func() core.ZodSchema { return gozod.UUID("v7") },
			validate: func(v any) bool { return validate.UUID(v) && validate.Regex(v, regex.UUID7) }, extraRe: []string{"UUID7"}},
	)
}

func b01(b bool) string {
	if b {
		return "1"
	}
	return "0"
}

var formats = []format{
	{name: "ipv4", checkFn: "IPv4", mk: func() core.ZodSchema { return gozod.IPv4() }, validate: validate.IPv4},
	{name: "ipv6", checkFn: "IPv6", mk: func() core.ZodSchema { return gozod.IPv6() }, validate: validate.IPv6},
	{name: "cidrv4", checkFn: "CIDRv4", mk: func() core.ZodSchema { return gozod.CIDRv4() }, validate: validate.CIDRv4},
	{name: "cidrv6", checkFn: "CIDRv6", mk: func() core.ZodSchema { return gozod.CIDRv6() }, validate: validate.CIDRv6},
	{name: "mac", checkFn: "MACWithOptions", mk: func() core.ZodSchema { return gozod.MAC() }, validate: validate.MAC, delim: ":"},
	{name: "macdash", checkFn: "MACWithOptions", mk: func() core.ZodSchema { return gozod.MACWithDelimiter("-") },
		validate: func(v any) bool { return validate.MACWithOptions(v, validate.MACOptions{Delimiter: "-"}) }, delim: "-"},
	{name: "base64", checkFn: "Base64", mk: func() core.ZodSchema { return gozod.Base64() }, validate: validate.Base64},
	{name: "base64url", checkFn: "Base64URL", mk: func() core.ZodSchema { return gozod.Base64URL() }, validate: validate.Base64URL},
	{name: "hex", checkFn: "Hex", mk: func() core.ZodSchema { return gozod.Hex() }, validate: validate.Hex},
	{name: "uuid", checkFn: "UUID", mk: func() core.ZodSchema { return gozod.UUID() }, validate: validate.UUID},
	{name: "uuidv4", checkFn: "UUIDv4", mk: func() core.ZodSchema { return gozod.UUIDv4() },
		validate: func(v any) bool { return validate.Regex(v, regex.UUID4) }},
	{name: "uuidv6", checkFn: "UUID6", mk: func() core.ZodSchema { return gozod.UUIDv6() },
		validate: func(v any) bool { return validate.Regex(v, regex.UUID6) }},
	{name: "uuidv7", checkFn: "UUID7", mk: func() core.ZodSchema { return gozod.UUIDv7() },
		validate: func(v any) bool { return validate.Regex(v, regex.UUID7) }},
	{name: "uuidp4", checkFn: "UUID", mk: func() core.ZodSchema { return gozod.UUID("v4") },
		validate: func(v any) bool { return validate.UUID(v) && validate.Regex(v, regex.UUID4) }, extraRe: []string{"UUID4"}},
	{name: "guid", checkFn: "GUID", mk: func() core.ZodSchema { return gozod.GUID() }, validate: validate.GUID},
	{name: "isodate", checkFn: "ISODate", mk: func() core.ZodSchema { return gozod.IsoDate() }, validate: validate.ISODate},
	{name: "isodatetime", checkFn: "ISODateTime", mk: func() core.ZodSchema { return gozod.IsoDateTime() }, validate: validate.ISODateTime},
	{name: "e164", checkFn: "E164", mk: func() core.ZodSchema { return gozod.E164() }, validate: validate.E164},
	// the default IsoTime() (no options): checks.ISOTime, validator validate.ISOTime
	{name: "isotime", checkFn: "ISOTime", mk: func() core.ZodSchema { return gozod.IsoTime() }, validate: validate.ISOTime},
}

// localRegex: package-level `name = regexp.MustCompile(<literal>)` variables of pkg/validate/validate.go (filled by scanSources);
// a validator that matches one of them uses "regex.local:<name>".
var localRegex = map[string]string{}

// regexByName resolves the `regex.<Name>` selectors found in the source to the live objects.
func regexByName(name string, f format) *regexp.Regexp {
	delim := f.delim
	if strings.HasPrefix(name, "local:") {
		if src, ok := localRegex[strings.TrimPrefix(name, "local:")]; ok {
			if re, err := regexp.Compile(src); err == nil {
				return re
			}
		}
		return nil
	}
	switch name {
	case "Datetime":
		if f.dtOpts != nil {
			return regex.Datetime(*f.dtOpts)
		}
		return nil
	case "Time":
		if f.tmOpts != nil {
			return regex.Time(*f.tmOpts)
		}
		return nil
	case "DefaultTime":
		return regex.DefaultTime
	case "IPv4":
		return regex.IPv4
	case "IPv6":
		return regex.IPv6
	case "CIDRv4":
		return regex.CIDRv4
	case "CIDRv6":
		return regex.CIDRv6
	case "MAC":
		return regex.MAC(delim)
	case "Base64":
		return regex.Base64
	case "Base64URL":
		return regex.Base64URL
	case "Hex":
		return regex.Hex
	case "UUID":
		return regex.UUID
	case "UUID4":
		return regex.UUID4
	case "UUID6":
		return regex.UUID6
	case "UUID7":
		return regex.UUID7
	case "GUID":
		return regex.GUID
	case "Date":
		return regex.Date
	case "DefaultDatetime":
		return regex.DefaultDatetime
	case "E164":
		return regex.E164
	}
	return nil
}

// exportedPatterns returns the pattern strings a fresh schema exports to JSON Schema.
func exportedPatterns(f format) ([]string, string, error) {
	js, err := jsonschema.ToJSONSchema(f.mk())
	if err != nil {
		return nil, "", err
	}
	var ps []string
	if js.Pattern != nil {
		ps = append(ps, *js.Pattern)
	}
	for _, a := range js.AllOf {
		if a != nil && a.Pattern != nil {
			ps = append(ps, *a.Pattern)
		}
	}
	fm := ""
	if js.Format != nil {
		fm = *js.Format
	}
	if len(ps) == 0 {
		return nil, fm, fmt.Errorf("format %s: no pattern exported to JSON Schema", f.name)
	}
	return ps, fm, nil
}

// ---- source scan: which validator a check factory calls, and what that validator uses ----

type srcInfo struct {
	validator string   // pkg/validate function named by the check factory ("" for buildUUIDCheck: validate.Regex on the pattern)
	patternRe string   // regex.<Name> the factory exports
	uses      []string // what the validator function (transitively, inside pkg/validate) relies on: "regex.X", "net.ParseCIDR", "time.Parse", ...
	foreign   []string // calls of plain identifiers that are not functions of pkg/validate (builtins, conversions), transitively
	fp        []string // structure fingerprint of the validator (transitively): every call `x.Sel(...)` and every basic literal
}

// fingerprintOf lists the calls through a selector (`pkg.Fn`, `v.Method`, `.Method` on an expression) and the basic
// literals (strings, numbers) of a function body, in source order.
func fingerprintOf(n ast.Node) []string {
	var out []string
	ast.Inspect(n, func(x ast.Node) bool {
		switch e := x.(type) {
		case *ast.CallExpr:
			if se, ok := e.Fun.(*ast.SelectorExpr); ok {
				if id, ok := se.X.(*ast.Ident); ok {
					out = append(out, id.Name+"."+se.Sel.Name)
				} else {
					out = append(out, "."+se.Sel.Name)
				}
			}
		case *ast.BasicLit:
			out = append(out, e.Value)
		}
		return true
	})
	return out
}

func parseFile(path string) (*ast.File, error) {
	return parser.ParseFile(token.NewFileSet(), path, nil, 0)
}

func funcDecls(f *ast.File) map[string]*ast.FuncDecl {
	m := map[string]*ast.FuncDecl{}
	for _, d := range f.Decls {
		if fd, ok := d.(*ast.FuncDecl); ok && fd.Recv == nil {
			m[fd.Name.Name] = fd
		}
	}
	return m
}

// selectors lists pkg.Name selector expressions in order of appearance.
func selectors(n ast.Node, pkg string) []string {
	var out []string
	ast.Inspect(n, func(x ast.Node) bool {
		if se, ok := x.(*ast.SelectorExpr); ok {
			if id, ok := se.X.(*ast.Ident); ok && id.Name == pkg && se.Sel.Name != "DatetimeOptions" && se.Sel.Name != "TimeOptions" {
				out = append(out, se.Sel.Name)
			}
		}
		return true
	})
	return out
}

func localCalls(n ast.Node) []string {
	var out []string
	ast.Inspect(n, func(x ast.Node) bool {
		if ce, ok := x.(*ast.CallExpr); ok {
			if id, ok := ce.Fun.(*ast.Ident); ok {
				out = append(out, id.Name)
			}
		}
		return true
	})
	return out
}

func scanSources(repo string) (map[string]srcInfo, error) {
	cf, err := parseFile(filepath.Join(repo, "internal", "checks", "format.go"))
	if err != nil {
		return nil, err
	}
	vf, err := parseFile(filepath.Join(repo, "pkg", "validate", "validate.go"))
	if err != nil {
		return nil, err
	}
	cfn, vfn := funcDecls(cf), funcDecls(vf)
	for k := range localRegex {
		delete(localRegex, k)
	}
	for _, d := range vf.Decls { // var ( name = regexp.MustCompile(`...`) )
		gd, ok := d.(*ast.GenDecl)
		if !ok || gd.Tok != token.VAR {
			continue
		}
		for _, sp := range gd.Specs {
			vs, ok := sp.(*ast.ValueSpec)
			if !ok || len(vs.Names) != 1 || len(vs.Values) != 1 {
				continue
			}
			ce, ok := vs.Values[0].(*ast.CallExpr)
			if !ok || len(ce.Args) != 1 {
				continue
			}
			se, ok := ce.Fun.(*ast.SelectorExpr)
			if !ok || se.Sel.Name != "MustCompile" {
				continue
			}
			if bl, ok := ce.Args[0].(*ast.BasicLit); ok && bl.Kind == token.STRING {
				if src, err := strconv.Unquote(bl.Value); err == nil {
					localRegex[vs.Names[0].Name] = src
				}
			}
		}
	}
	var usesOf func(name string, depth int, seen map[string]bool) []string
	usesOf = func(name string, depth int, seen map[string]bool) []string {
		fd := vfn[name]
		if fd == nil || seen[name] || depth > 4 {
			return nil
		}
		seen[name] = true
		var out []string
		for _, s := range selectors(fd.Body, "regex") {
			out = append(out, "regex."+s)
		}
		for _, p := range []string{"net", "netip", "time", "strings"} {
			for _, s := range selectors(fd.Body, p) {
				out = append(out, p+"."+s)
			}
		}
		ast.Inspect(fd.Body, func(x ast.Node) bool { // package-level compiled patterns of pkg/validate
			if id, ok := x.(*ast.Ident); ok {
				if _, ok := localRegex[id.Name]; ok {
					out = append(out, "regex.local:"+id.Name)
				}
			}
			return true
		})
		for _, c := range localCalls(fd.Body) {
			if c == "matchString" {
				continue
			}
			out = append(out, usesOf(c, depth+1, seen)...)
		}
		return out
	}
	var fpOf func(name string, depth int, seen map[string]bool) []string
	fpOf = func(name string, depth int, seen map[string]bool) []string {
		fd := vfn[name]
		if fd == nil || seen[name] || depth > 4 {
			return nil
		}
		seen[name] = true
		out := []string{"func " + name}
		out = append(out, fingerprintOf(fd.Body)...)
		for _, c := range localCalls(fd.Body) {
			if c == "matchString" {
				continue
			}
			out = append(out, fpOf(c, depth+1, seen)...)
		}
		return out
	}
	// calls of a plain identifier that is not a function of pkg/validate: builtins and conversions (len, min, string, ...)
	var foreignOf func(name string, depth int, seen map[string]bool) []string
	foreignOf = func(name string, depth int, seen map[string]bool) []string {
		fd := vfn[name]
		if fd == nil || seen[name] || depth > 4 {
			return nil
		}
		seen[name] = true
		var out []string
		for _, c := range localCalls(fd.Body) {
			if c == "matchString" {
				continue
			}
			if vfn[c] == nil {
				out = append(out, c)
			}
			out = append(out, foreignOf(c, depth+1, seen)...)
		}
		return out
	}
	res := map[string]srcInfo{}
	for _, f := range formats {
		fd := cfn[f.checkFn]
		if fd == nil {
			return nil, fmt.Errorf("internal/checks/format.go: func %s not found", f.checkFn)
		}
		var si srcInfo
		if vs := selectors(fd.Body, "validate"); len(vs) > 0 {
			for _, v := range vs { // skip type names such as validate.MACOptions
				if vfn[v] != nil {
					si.validator = v
					break
				}
			}
		}
		if rs := selectors(fd.Body, "regex"); len(rs) > 0 {
			si.patternRe = rs[0]
		}
		if si.validator != "" {
			u := usesOf(si.validator, 0, map[string]bool{})
			sort.Strings(u)
			si.uses = dedupStrings(u)
			si.fp = fpOf(si.validator, 0, map[string]bool{})
			si.foreign = foreignOf(si.validator, 0, map[string]bool{})
		} else if si.patternRe != "" { // buildUUIDCheck(checkID, regex.X): validate.Regex(v, pattern)
			si.uses = []string{"regex." + si.patternRe}
		}
		res[f.name] = si
	}
	return res, nil
}

func dedupStrings(xs []string) []string {
	var out []string
	for i, x := range xs {
		if i == 0 || xs[i-1] != x {
			out = append(out, x)
		}
	}
	return out
}

// validatorKind: "regex:<Name>" when the validator only matches one regex, else "parser:<calls>".
func (si srcInfo) kind() string {
	var rx, other []string
	for _, u := range si.uses {
		if strings.HasPrefix(u, "regex.") {
			rx = append(rx, strings.TrimPrefix(u, "regex."))
		} else {
			other = append(other, u)
		}
	}
	if len(other) == 0 && len(rx) == 1 {
		return "regex:" + rx[0]
	}
	return "parser:" + strings.Join(append(other, rx...), "+")
}

// guards: the regexes a parser-based validator additionally matches.
func (si srcInfo) guards() []string {
	var rx []string
	for _, u := range si.uses {
		if strings.HasPrefix(u, "regex.") {
			rx = append(rx, strings.TrimPrefix(u, "regex."))
		}
	}
	return rx
}

// ---- Gen/Regexes.lean ----

// unclassified says why the translator cannot say what the format's validator does ("" when it can):
//   - it refers to a name of pkg/regex that is not one of the compiled patterns the harness knows (a constant, a new
//     pattern, a function) — for every kind of validator;
//   - a validator that otherwise only matches one regex also calls something else (a builtin such as len, a function
//     outside pkg/validate, a method other than MatchString) or contains a numeric literal: then "matches regex X" is
//     not the whole truth about it.
//
// Such a validator is "opaque": no theorem speaks about it. The caller reports that and leaves the Gen files alone.
func (si srcInfo) unclassified(f format) string {
	var why []string
	for _, u := range si.uses {
		if rn, ok := strings.CutPrefix(u, "regex."); ok && regexByName(rn, f) == nil {
			why = append(why, "refers to regex."+rn+" which is not a compiled pattern the harness knows")
		}
	}
	if si.validator != "" && strings.HasPrefix(si.kind(), "regex:") {
		for _, c := range si.foreign {
			why = append(why, "calls "+c+" besides matching its regex")
		}
		for _, x := range si.fp {
			switch {
			case strings.HasPrefix(x, "func "), plainRegexCalls[x], strings.HasSuffix(x, ".MatchString"), strings.HasPrefix(x, "\"") || strings.HasPrefix(x, "`"):
			case strings.Contains(x, "."):
				why = append(why, "calls "+x+" besides matching its regex")
			default:
				why = append(why, "contains the literal "+x+" besides matching its regex")
			}
		}
	}
	return strings.Join(dedupStrings(why), "; ")
}

// plainRegexCalls: the selector calls of a validator that only matches a regex.
var plainRegexCalls = map[string]bool{"reflectx.StringVal": true, "regex.MAC": true, "regex.Datetime": true, "regex.Time": true}

// genLean writes the Gen files. When some validator cannot be classified (see unclassified) it writes NO Gen file — the last
// good ones stay, so the driver and the certificates of the other formats keep working — and lists the opaque formats in
// <outDir>/opaque.txt (`<format>\t<reason>`); vlib/c20.py reports them as a broken tie and still runs the correspondence, in
// which the specification automaton (independent of this translator) judges the real validator.
func genLean(repo, dir, outDir string) error {
	info, err := scanSources(repo)
	if err != nil {
		return err
	}
	var opaque []string
	for _, f := range formats {
		if why := info[f.name].unclassified(f); why != "" {
			opaque = append(opaque, fmt.Sprintf("%s\tvalidate.%s %s", f.name, info[f.name].validator, why))
		}
	}
	if outDir != "" {
		op := filepath.Join(outDir, "opaque.txt")
		os.Remove(op)
		if len(opaque) > 0 {
			if err := os.WriteFile(op, []byte(strings.Join(opaque, "\n")+"\n"), 0o644); err != nil {
				return err
			}
		}
	}
	if len(opaque) > 0 {
		fmt.Fprintf(os.Stderr, "translator: %d validator(s) not classified (kind opaque); Gen files left as they are:\n%s\n", len(opaque), strings.Join(opaque, "\n"))
		return nil
	}
	var table, imports, tail []string
	for _, f := range formats {
		w := newLeanWriter()
		var body []string
		si := info[f.name]
		kind := si.kind()
		pats, jsFormat, err := exportedPatterns(f)
		if err != nil {
			return err
		}
		// exported pattern(s): a string must match all of them (allOf)
		var patNodes []*node
		for _, p := range pats {
			n, err := parsePattern(p)
			if err != nil {
				return err
			}
			patNodes = append(patNodes, n)
		}
		def := func(name string, n *node) {
			t := w.termTop(n, &body)
			body = append(body, "end "+f.name, fmt.Sprintf("def %s : Re := %s", name, qualify(t, f.name)), "namespace "+f.name)
		}
		body = append(body, fmt.Sprintf("/- %s: JSON Schema format=%q pattern=%s -/", f.name, jsFormat, leanComment(strings.Join(pats, "  AND  "))))
		var patNames, valNames []string
		for i, n := range patNodes {
			nm := fmt.Sprintf("pat_%s", f.name)
			if i > 0 {
				nm = fmt.Sprintf("pat_%s_%d", f.name, i+1)
			}
			def(nm, n)
			patNames = append(patNames, nm)
		}
		// regex-validated: val_<fmt> lives with the pattern (certificates are about it).
		// parser-validated: the regexes the validator additionally requires and the kind string go to
		// Regexes.lean, so that a change of the validator alone does not invalidate the pattern's certificate.
		regexKind := strings.HasPrefix(kind, "regex:")
		var rxNames []string
		if regexKind {
			rxNames = append([]string{strings.TrimPrefix(kind, "regex:")}, f.extraRe...)
			body = append(body, fmt.Sprintf("/- %s: validate.%s matches regex %v -/", f.name, si.validator, rxNames))
		} else {
			rxNames = si.guards()
			tail = append(tail, fmt.Sprintf("/- %s: validate.%s is %s; regexes it also requires to match: %v -/", f.name, si.validator, kind, rxNames))
		}
		gw := newLeanWriter()
		for i, rn := range rxNames {
			re := regexByName(rn, f)
			if re == nil {
				return fmt.Errorf("format %s: validator uses regex.%s which the harness does not know", f.name, rn)
			}
			n, err := parsePattern(re.String())
			if err != nil {
				return err
			}
			nm := fmt.Sprintf("val_%s", f.name)
			if i > 0 {
				nm = fmt.Sprintf("val_%s_%d", f.name, i+1)
			}
			if regexKind {
				body = append(body, fmt.Sprintf("/- regex.%s = %s -/", rn, leanComment(re.String())))
				def(nm, n)
			} else {
				ns := f.name + "_g"
				var gb []string
				t := gw.termTop(n, &gb)
				tail = append(tail, "namespace "+ns)
				tail = append(tail, gb...)
				tail = append(tail, "end "+ns, fmt.Sprintf("/- regex.%s = %s -/", rn, leanComment(re.String())), fmt.Sprintf("def %s : Re := %s", nm, qualify(t, ns)))
			}
			valNames = append(valNames, nm)
		}
		tail = append(tail, fmt.Sprintf("def kind_%s : String := %q", f.name, kind))
		if !regexKind {
			// structure fingerprint of a parser-based validator: compared by vlib/c20.py with the expectation recorded
			// next to its Lean transcription (Model/GoParsers.lean, lines `-- fingerprint <fmt>: ...`)
			tail = append(tail, fmt.Sprintf("def fp_%s : String := %q", f.name, strings.Join(si.fp, " ")))
		}
		table = append(table, fmt.Sprintf("  (%q, ⟨kind_%s, [%s], [%s]⟩)", f.name, f.name, strings.Join(valNames, ", "), strings.Join(patNames, ", ")))
		var sb strings.Builder
		sb.WriteString("/-\n  GENERATED by harness/cmd/c20 (translator) from the working tree of the library — do not edit.\n")
		sb.WriteString("  val_<fmt>: the regex(es) the format's validator matches; pat_<fmt>: the pattern(s) the schema exports\n  to JSON Schema; kind_<fmt>: what the pkg/validate function does (go/ast scan).\n-/\n")
		sb.WriteString("import Gozod.Model.Regex\nnamespace Gozod.Gen\nopen Gozod Gozod.Re\nnamespace " + f.name + "\n")
		for _, l := range body {
			sb.WriteString(l + "\n")
		}
		sb.WriteString("end " + f.name + "\nend Gozod.Gen\n")
		if err := writeIfChanged(filepath.Join(dir, "Re_"+f.name+".lean"), sb.String()); err != nil {
			return err
		}
		imports = append(imports, "import Gozod.Gen.Re_"+f.name)
	}
	var sb strings.Builder
	sb.WriteString("/-\n  GENERATED by harness/cmd/c20 (translator) — do not edit.  The table of all C20 formats.\n-/\n")
	sb.WriteString(strings.Join(imports, "\n") + "\nnamespace Gozod.Gen\nopen Gozod Gozod.Re\n\n" + strings.Join(tail, "\n") + "\n")
	sb.WriteString("\nstructure Entry where\n  kind : String\n  vals : List Re\n  pats : List Re\n\n")
	sb.WriteString("def table : List (String × Entry) := [\n" + strings.Join(table, ",\n") + "]\n\nend Gozod.Gen\n")
	return writeIfChanged(filepath.Join(dir, "Regexes.lean"), sb.String())
}

// qualify prefixes the shared-subterm names s<k> with the format's namespace.
func qualify(t, ns string) string {
	return sharedName.ReplaceAllString(t, ns+".$0")
}

var sharedName = regexp.MustCompile(`\bs[0-9]+\b`)

// termTop emits pending shared definitions into body, then returns the term.
func (w *leanWriter) termTop(n *node, body *[]string) string {
	before := len(w.defs)
	t := w.term(n)
	*body = append(*body, w.defs[before:]...)
	return t
}

func leanComment(s string) string {
	s = strings.ReplaceAll(s, "-/", "- /")
	return strings.ReplaceAll(s, "/-", "/ -")
}

func writeIfChanged(path, content string) error {
	if old, err := os.ReadFile(path); err == nil && string(old) == content {
		return nil
	}
	if err := os.MkdirAll(filepath.Dir(path), 0o755); err != nil {
		return err
	}
	tmp := path + ".tmp"
	if err := os.WriteFile(tmp, []byte(content), 0o644); err != nil {
		return err
	}
	return os.Rename(tmp, path)
}
