package main

// C13 — gozodgen output compiles and validates exactly like the reflection-built schema.
//
// Translation validation per generated program.  Everything happens in a temp dir
// (os.MkdirTemp, removed at exit; never under the library or the verification tree):
//
//  1. layout A: one struct type per matrix cell  `type C<k> struct { F <type> `gozod:"<tag>"` }`
//     (the C06 matrix: documented rules x field types x both orders of two rules) plus the quote
//     cells (`default=<p>` / `regex=<p>` with quotes, backslashes, commas, spaces in p);
//     gozodgen (built from the library tree) is run on it and must terminate with status 0.
//  2. every generated file is parsed with go/parser (constructor + method chain + literal
//     arguments are extracted for Gen/GenTable.lean) and type-checked by `go build -gcflags=-e`
//     against the library (module with replace => REPO); errors are attributed by file name.
//  3. layout B: one struct per field type holding one field per *type-checking* cell; gozodgen
//     again; each field's emitted expression must be textually identical to the one of layout A;
//     the package plus a generated runner is built and run:  T{}.Schema().Parse(v)  against
//     gozod.FromStruct[T]().Parse(v)  on every probe, verdict per field by issue path.
//  4. a seeded sample of layout-A cells is compiled and run one struct at a time and must agree
//     with the layout-B verdicts.
//
// Op lines:
//
//	c13 gen                                   gozodgen terminated: ok | exit:<n> | timeout
//	c13 compile <fty> <rules>                 ok | noparse | notypecheck
//	c13 cell <fty> <rules> <probe> | <chain>  g=<0|1|p> r=<0|1|p>   (generated / FromStruct verdict)
//	c13 quote <kind> <runes of p> | <runes of the parameter tagparser hands to FromStruct>
//	                                          noparse | nolit | lit=<runes of the emitted literal's value>
//	c13 sample <fty> <rules>                  same | differ    (layout A run vs layout B run)
import (
	"bytes"
	"context"
	"encoding/json"
	"flag"
	"fmt"
	"go/ast"
	"go/parser"
	"go/printer"
	"go/token"
	"os"
	"os/exec"
	"path/filepath"
	"regexp"
	"sort"
	"strconv"
	"strings"
	"time"

	"github.com/kaptinlin/gozod/pkg/tagparser"

	"verifharness/hx"
)

type cellDef struct {
	Rules string
	Tag   string
}

type blockDef struct {
	Fty     string
	GoType  string
	Probes  []string
	Singles []cellDef
	Pairs   [][2]cellDef
}

type cell struct {
	k      int
	block  int
	fty    string
	gotype string
	rules  string
	tag    string
	probes []string
	// results
	status string // ok | noparse | notypecheck
	errmsg string
	expr   string // emitted schema expression of field F (layout A)
	raw    string // … as text, exactly as written
	chain  string // token form of ctor + chain
	field  string // field name in layout B
	g, r   []string
}

type quoteCell struct {
	k      int
	kind   string // default | regex
	p      string
	tag    string
	status string
	lit    string
	hasLit bool
}

var wfacts writerFacts // structure facts of cmd/gozodgen/writer.go and analyzer.go (facts.go)

var (
	repoFlag = flag.String("repo", "/repo", "library tree")
	hdirFlag = flag.String("hdir", "", "harness module dir (for the replace of verifharness)")
	mtOnly   = flag.Bool("methodsonly", false, "write methodtable.json (the library's method table, by reflection) and exit")
)

func die(format string, a ...any) {
	fmt.Fprintf(os.Stderr, "harness error: "+format+"\n", a...)
	os.Exit(3)
}

var t0 = time.Now()

func phase(name string) {
	if os.Getenv("C13_TIMING") != "" {
		fmt.Fprintf(os.Stderr, "[%6.1fs] %s\n", time.Since(t0).Seconds(), name)
	}
}

func goRun(dir string, timeout time.Duration, name string, args ...string) (string, int, bool) {
	ctx, cancel := context.WithTimeout(context.Background(), timeout)
	defer cancel()
	cmd := exec.CommandContext(ctx, name, args...)
	cmd.Dir = dir
	var buf bytes.Buffer
	cmd.Stdout, cmd.Stderr = &buf, &buf
	err := cmd.Run()
	if ctx.Err() == context.DeadlineExceeded {
		return buf.String(), -1, true
	}
	if err != nil {
		if ee, ok := err.(*exec.ExitError); ok {
			return buf.String(), ee.ExitCode(), false
		}
		return buf.String() + err.Error(), -2, false
	}
	return buf.String(), 0, false
}

// goBuild runs `go build`; a failure without a single source diagnostic (`file.go:line:`) is the toolchain's own
// (the shared build cache was trimmed under the linker's feet by another worker: "cannot open file …/gocache/…"):
// it is retried, never reported as a property of the generated code.
func goBuild(dir string, timeout time.Duration, args ...string) (string, int, bool) {
	var out string
	var rc int
	var to bool
	for attempt := 0; attempt < 3; attempt++ {
		out, rc, to = goRun(dir, timeout, "go", args...)
		if rc == 0 || to || regexp.MustCompile(`(?m)\.go:\d+:`).MatchString(out) {
			break
		}
		time.Sleep(2 * time.Second)
	}
	return out, rc, to
}

func main() {
	c := hx.ParseFlags()
	o, err := hx.NewOut(c.OutDir)
	if err != nil {
		die("%v", err)
	}
	writeMethodTable(filepath.Join(c.OutDir, "methodtable.json"), *repoFlag)
	wfacts = writeWriterFacts(filepath.Join(c.OutDir, "writerfacts.json"), *repoFlag)
	if *mtOnly {
		o.Close(nil)
		return
	}
	rng := hx.NewRng(c.Seed)
	tmp, err := os.MkdirTemp("", "c13-")
	if err != nil {
		die("%v", err)
	}
	defer os.RemoveAll(tmp)
	hdir := *hdirFlag
	if hdir == "" {
		die("missing -hdir")
	}
	writeModule(tmp, *repoFlag, hdir)

	// gozodgen from the library tree
	gen := buildGen(*repoFlag, tmp) // + an overlaid hook file (wide.go); inert unless GOZODGEN_VERIF_RULES is set

	phase("gozodgen built")
	cells := matrixCells()
	quotes := quoteCells(rng, c.Thorough())

	// ---- layout A
	dirA := filepath.Join(tmp, "a")
	os.MkdirAll(dirA, 0o755)
	writeLayoutA(dirA, cells, quotes)
	genObs := "ok"
	{
		out, rc, timedOut := goRun(tmp, 2*time.Minute, gen, dirA)
		if timedOut {
			genObs = "timeout"
		} else if rc != 0 {
			genObs = "exit:" + strconv.Itoa(rc)
		}
		if genObs != "ok" {
			fmt.Fprintln(os.Stderr, firstN(out, 2000))
		}
	}
	for _, q := range quotes { // one package per quote struct: gozodgen gives up on a whole package at the first tag it refuses
		_, rc, timedOut := goRun(tmp, time.Minute, gen, filepath.Join(tmp, "q", strconv.Itoa(q.k)))
		if timedOut {
			q.status = "timeout"
		} else if rc != 0 {
			q.status = "generr"
		}
	}
	o.Emit("c13 gen # layout A: "+strconv.Itoa(len(cells))+" matrix structs, "+strconv.Itoa(len(quotes))+" quote structs", genObs)
	if genObs != "ok" {
		o.Close(nil)
		return
	}
	phase("generated A + quotes")
	analyseA(dirA, cells, quotes)
	typecheckA(tmp, dirA, cells, quotes)

	phase("typechecked A")
	// ---- layout B + behaviour
	dirB := filepath.Join(tmp, "b")
	os.MkdirAll(dirB, 0o755)
	runLayoutB(tmp, gen, dirB, cells)

	phase("layout B built and run")
	// ---- sample of layout A compiled and run per cell
	nSample := 12
	if c.Thorough() {
		nSample = 160
	}
	sample := sampleA(tmp, dirA, cells, rng, nSample)

	phase("sample built and run")
	// ---- emit
	for _, ce := range cells {
		o.Emit(fmt.Sprintf("c13 compile %s %s # struct C%d type=%s tag=%q expr=%s %s", ce.fty, ce.rules, ce.k, ce.gotype, ce.tag, ce.expr, ce.errmsg), ce.status)
		o.Count("compile:" + ce.status)
	}
	for _, ce := range cells { // round 4: emitted text and compile status of every matrix cell against the Lean emitter + typing judgement
		if ce.raw == "" {
			continue
		}
		o.Emit(fmt.Sprintf("c13 texpr %s %s %s C%d # type C%d struct { F %s %s } -> %s   %s", ce.gotype, ruleNames(ce.tag), runes(ce.tag), ce.k, ce.k, ce.gotype, structTag(ce.tag), ce.raw, ce.errmsg),
			"st="+ce.status+" expr="+runes(ce.raw))
		o.Count("texpr:" + ce.status)
	}
	for _, ce := range cells {
		if ce.status != "ok" || ce.g == nil {
			continue
		}
		for pi, p := range ce.probes {
			o.Emit(fmt.Sprintf("c13 cell %s %s %s | %s # type=%s tag=%q expr=%s", ce.fty, ce.rules, p, ce.chain, ce.gotype, ce.tag, ce.expr),
				"g="+ce.g[pi]+" r="+ce.r[pi])
			o.Count("cell:g" + ce.g[pi] + "r" + ce.r[pi])
		}
	}
	for _, k := range sample.order {
		ce := cells[k]
		o.Emit(fmt.Sprintf("c13 sample %s %s # struct C%d compiled and run alone", ce.fty, ce.rules, ce.k), sample.obs[k])
	}
	for _, q := range quotes {
		ref := ""
		if rs, err := safeParseTag(q.tag); err == nil && len(rs) > 0 && len(rs[0].Params) > 0 {
			ref = strings.Join(rs[0].Params, " ")
		}
		obs := q.status
		if q.status == "ok" {
			if q.hasLit {
				obs = "lit=" + runes(q.lit)
			} else {
				obs = "nolit"
			}
		}
		o.Emit(fmt.Sprintf("c13 quote %s %s | %s # F *string tag=%q", q.kind, runes(q.p), runes(ref), q.tag), obs)
		o.Count("quote:" + strings.SplitN(obs, "=", 2)[0])
	}
	writeGenTable(filepath.Join(c.OutDir, "gentable.json"), cells)
	writeKindRows(filepath.Join(c.OutDir, "kindrows.json"))
	phase("matrix emitted")
	emitSplit(o, gen, rng, c.Thorough())
	phase("splitter correspondence")
	emitTerm(o, tmp, gen, rng, c.Thorough())
	phase("termination cases")
	runWide(o, tmp, gen, rng, c.Thorough())
	phase("wide programs")
	emitMultiName(o, tmp, gen, rng, c.Thorough())
	emitBuildFiles(o, tmp, gen)
	emitRegen(o, tmp, gen)
	phase("multi-name fields, files outside the default build")
	if err := o.Close(nil); err != nil {
		die("%v", err)
	}
}

func safeParseTag(tag string) (rs []tagparser.TagRule, err error) {
	if p := hx.Safely(func() { rs, err = tagparser.New().ParseTagString(tag) }); p != "" {
		return nil, fmt.Errorf("panic")
	}
	return
}

func runes(s string) string {
	if s == "" {
		return "-"
	}
	var sb strings.Builder
	for i, r := range []rune(s) {
		if i > 0 {
			sb.WriteByte('.')
		}
		sb.WriteString(strconv.Itoa(int(r)))
	}
	return sb.String()
}

func writeModule(tmp, repo, hdir string) {
	mod := "module c13tmp\n\ngo 1.26\n\nrequire github.com/kaptinlin/gozod v0.0.0\nrequire verifharness v0.0.0\n\nreplace github.com/kaptinlin/gozod => " + repo + "\nreplace verifharness => " + hdir + "\n"
	os.WriteFile(filepath.Join(tmp, "go.mod"), []byte(mod), 0o644)
	if b, err := os.ReadFile(filepath.Join(repo, "go.sum")); err == nil {
		os.WriteFile(filepath.Join(tmp, "go.sum"), b, 0o644)
	}
}

func matrixCells() []*cell {
	var cells []*cell
	for bi, b := range matrix {
		add := func(cd cellDef) {
			cells = append(cells, &cell{k: len(cells), block: bi, fty: b.Fty, gotype: b.GoType, rules: cd.Rules, tag: cd.Tag, probes: b.Probes})
		}
		for _, s := range b.Singles {
			add(s)
		}
		for _, p := range b.Pairs {
			add(p[0])
			add(p[1])
		}
	}
	return cells
}

var quoteCorpus = []string{
	"hello", "he\"llo", "he\\llo", "a\\\"b", "\"", "\\", "a b", "a,b", "a, b", "it's", "'q'", "'a,b'", "a\\,b", "tab\\t", "x\\n", "%s", "%d%%",
	"[a", "{a", "a]", "[a,b]", "{\"k\":\"v\"}", "a\"b\"c", "\\\\", "\\\"", "é\"ü", "a=b", "a\"+\"b", "\");panic(\"x", "`", "a`b",
}

func quoteCells(rng *hx.Rng, thorough bool) []*quoteCell {
	var qs []*quoteCell
	add := func(kind, p string) {
		if strings.TrimSpace(p) == "" {
			return // gozodgen refuses an empty parameter with an error message (not a crash)
		}
		qs = append(qs, &quoteCell{k: len(qs), kind: kind, p: p, tag: kind + "=" + p})
	}
	for _, p := range quoteCorpus {
		add("default", p)
		add("regex", p)
	}
	alpha := []string{"a", "b", "\"", "\\", ",", " ", "'", "%", "[", "{", "]"}
	n := 60
	if thorough {
		n = 600
	}
	for i := 0; i < n; i++ {
		var sb strings.Builder
		k := 1 + rng.Intn(5)
		for j := 0; j < k; j++ {
			sb.WriteString(hx.Pick(rng, alpha))
		}
		if rng.Bool() {
			add("default", sb.String())
		} else {
			add("regex", sb.String())
		}
	}
	return qs
}

const preamble = "type Inner struct{ A string }\n\ntype InnerT struct {\n\tA string `gozod:\"max=5\"`\n}\n\n"

func structTag(tag string) string {
	// a conventional struct tag: key:"value" with the value a Go interpreted string
	t := "gozod:" + strconv.Quote(tag)
	if strings.Contains(t, "`") {
		return strconv.Quote(t)
	}
	return "`" + t + "`"
}

func writeLayoutA(dir string, cells []*cell, quotes []*quoteCell) {
	var sb strings.Builder
	sb.WriteString("package main\n\n" + preamble)
	for _, ce := range cells {
		fmt.Fprintf(&sb, "type C%d struct {\n\tF %s %s\n}\n\n", ce.k, ce.gotype, structTag(ce.tag))
	}
	if err := os.WriteFile(filepath.Join(dir, "cells.go"), []byte(sb.String()), 0o644); err != nil {
		die("%v", err)
	}
	for _, q := range quotes {
		d := filepath.Join(filepath.Dir(dir), "q", strconv.Itoa(q.k))
		os.MkdirAll(d, 0o755)
		src := fmt.Sprintf("package main\n\ntype Q%d struct {\n\tF *string %s\n}\n", q.k, structTag(q.tag))
		if err := os.WriteFile(filepath.Join(d, "cells.go"), []byte(src), 0o644); err != nil {
			die("%v", err)
		}
	}
}

// fieldExpr parses a generated file and returns the schema expression of the given key.
func fieldExprs(path string) (map[string]ast.Expr, *token.FileSet, error) {
	fset := token.NewFileSet()
	f, err := parser.ParseFile(fset, path, nil, 0)
	if err != nil {
		return nil, nil, err
	}
	res := map[string]ast.Expr{}
	ast.Inspect(f, func(n ast.Node) bool {
		cl, ok := n.(*ast.CompositeLit)
		if !ok {
			return true
		}
		if se, ok := cl.Type.(*ast.SelectorExpr); !ok || se.Sel.Name != "StructSchema" {
			return true
		}
		for _, el := range cl.Elts {
			if kv, ok := el.(*ast.KeyValueExpr); ok {
				if bl, ok := kv.Key.(*ast.BasicLit); ok {
					if k, err := strconv.Unquote(bl.Value); err == nil {
						res[k] = kv.Value
					}
				}
			}
		}
		return false
	})
	return res, fset, nil
}

func exprString(fset *token.FileSet, e ast.Expr) string {
	var buf bytes.Buffer
	printer.Fprint(&buf, fset, e)
	return strings.Join(strings.Fields(buf.String()), "")
}

// chainOf flattens  ctor(args).M1(a).M2()  into tokens  ctor;M1:a;M2  (arguments printed, spaces removed).
func chainOf(fset *token.FileSet, e ast.Expr) (string, []ast.Expr) {
	var calls []string
	var lits []ast.Expr
	for {
		ce, ok := e.(*ast.CallExpr)
		if !ok {
			return "?" + exprString(fset, e), lits
		}
		se, ok := ce.Fun.(*ast.SelectorExpr)
		if ok {
			if id, ok := se.X.(*ast.Ident); ok && id.Name == "gozod" {
				// constructor
				ctor := exprString(fset, ce)
				out := append([]string{ctor}, calls...)
				return strings.Join(out, ";"), lits
			}
			args := make([]string, len(ce.Args))
			for i, a := range ce.Args {
				args[i] = exprString(fset, a)
			}
			lits = append(lits, ce.Args...)
			tok := se.Sel.Name
			if len(args) > 0 {
				tok += ":" + strings.Join(args, ",")
			}
			calls = append([]string{tok}, calls...)
			e = se.X
			continue
		}
		// generic constructor gozod.FromStruct[T]()
		ctor := exprString(fset, ce)
		out := append([]string{ctor}, calls...)
		return strings.Join(out, ";"), lits
	}
}

func snake(name string) string {
	var sb strings.Builder
	for i, r := range name {
		if r >= 'A' && r <= 'Z' {
			if i > 0 {
				sb.WriteByte('_')
			}
			sb.WriteRune(r - 'A' + 'a')
		} else {
			sb.WriteRune(r)
		}
	}
	return sb.String()
}

func analyseA(dir string, cells []*cell, quotes []*quoteCell) {
	for _, ce := range cells {
		path := filepath.Join(dir, fmt.Sprintf("c%d_gen.go", ce.k))
		ce.raw = rawExprs(path)["F"]
		exprs, fset, err := fieldExprs(path)
		if err != nil {
			ce.status, ce.errmsg = "noparse", "err="+strconv.Quote(firstLine(err.Error()))
			continue
		}
		e, ok := exprs["F"]
		if !ok {
			ce.status, ce.errmsg = "noparse", "err=\"no schema for field F\""
			continue
		}
		ce.status = "ok"
		ce.expr = exprString(fset, e)
		ce.chain, _ = chainOf(fset, e)
	}
	for _, q := range quotes {
		if q.status != "" {
			continue
		}
		path := filepath.Join(filepath.Dir(dir), "q", strconv.Itoa(q.k), fmt.Sprintf("q%d_gen.go", q.k))
		exprs, fset, err := fieldExprs(path)
		if err != nil {
			q.status = "noparse"
			continue
		}
		q.status = "ok"
		e, ok := exprs["F"]
		if !ok {
			continue
		}
		_, lits := chainOf(fset, e)
		// the literal handed to Default(...) / regexp.MustCompile(...)
		for _, l := range lits {
			ast.Inspect(l, func(n ast.Node) bool {
				if bl, ok := n.(*ast.BasicLit); ok && bl.Kind == token.STRING && !q.hasLit {
					if s, err := strconv.Unquote(bl.Value); err == nil {
						q.lit, q.hasLit = s, true
					}
				}
				return true
			})
		}
	}
}

func firstLine(s string) string {
	if i := strings.IndexByte(s, '\n'); i >= 0 {
		s = s[:i]
	}
	if len(s) > 160 {
		s = s[:160]
	}
	return s
}

var errLine = regexp.MustCompile(`(?m)^(?:\./)?(?:qa/|a/)?([cq]\d+)_gen\.go:\d+:\d+: (.*)$`)

// typecheckA type-checks layout A file by file: `go build -gcflags=-e` reports every type error
// with its file; files that do not parse are set aside first (they would hide all other errors).
func typecheckA(tmp, dir string, cells []*cell, quotes []*quoteCell) {
	aside := filepath.Join(tmp, "aside")
	os.MkdirAll(aside, 0o755)
	for _, ce := range cells {
		if ce.status == "noparse" {
			os.Rename(filepath.Join(dir, fmt.Sprintf("c%d_gen.go", ce.k)), filepath.Join(aside, fmt.Sprintf("c%d_gen.go", ce.k)))
		}
	}
	qa := filepath.Join(tmp, "qa")
	os.MkdirAll(qa, 0o755)
	var qb strings.Builder
	qb.WriteString("package main\n\nfunc main() {}\n\n")
	for _, q := range quotes {
		if q.status == "ok" {
			fmt.Fprintf(&qb, "type Q%d struct {\n\tF *string %s\n}\n\n", q.k, structTag(q.tag))
			src, _ := os.ReadFile(filepath.Join(tmp, "q", strconv.Itoa(q.k), fmt.Sprintf("q%d_gen.go", q.k)))
			os.WriteFile(filepath.Join(qa, fmt.Sprintf("q%d_gen.go", q.k)), src, 0o644)
		}
	}
	os.WriteFile(filepath.Join(qa, "cells.go"), []byte(qb.String()), 0o644)
	// a deliberate type error of our own: the compiler reports every type error of the package
	// (-gcflags=-e) and stops before code generation, which is all that is wanted here
	stop := []byte("package main\n\nvar zzStopAfterTypeCheck int = \"type-check only\"\n")
	os.WriteFile(filepath.Join(qa, "zz_stop.go"), stop, 0o644)
	os.WriteFile(filepath.Join(dir, "zz_stop.go"), stop, 0o644)
	defer os.Remove(filepath.Join(dir, "zz_stop.go"))
	// inner_gen.go / inner_t_gen.go belong to the package as well
	os.WriteFile(filepath.Join(dir, "main.go"), []byte("package main\n\nfunc main() {}\n"), 0o644)
	out, rc, _ := goRun(tmp, 20*time.Minute, "go", "build", "-gcflags=-e", "-o", os.DevNull, "./a")
	out2, rc2, _ := goRun(tmp, 20*time.Minute, "go", "build", "-gcflags=-e", "-o", os.DevNull, "./qa")
	if rc == 0 || rc2 == 0 {
		die("type-check-only build unexpectedly succeeded")
	}
	out += out2
	bad := map[string]string{}
	for _, m := range errLine.FindAllStringSubmatch(out, -1) {
		if _, seen := bad[m[1]]; !seen {
			bad[m[1]] = m[2]
		}
	}
	for _, line := range strings.Split(out, "\n") { // every error must be ours or attributed to a generated file
		if strings.Contains(line, ".go:") && !strings.Contains(line, "zz_stop.go") && !errLine.MatchString(line) {
			die("layout A: an error could not be attributed to a generated file: %s", line)
		}
	}
	for _, ce := range cells {
		if msg, ok := bad[fmt.Sprintf("c%d", ce.k)]; ok && ce.status == "ok" {
			ce.status, ce.errmsg = "notypecheck", "err="+strconv.Quote(firstLine(msg))
		}
	}
	for _, q := range quotes {
		if _, ok := bad[fmt.Sprintf("q%d", q.k)]; ok && q.status == "ok" {
			q.status = "notypecheck"
		}
	}
}

func firstN(s string, n int) string {
	if len(s) > n {
		return s[:n]
	}
	return s
}

// ---------------------------------------------------------------------------------------------
// layout B: grouped structs of the type-checking cells, compiled and run

func runLayoutB(tmp, gen, dir string, cells []*cell) {
	byBlock := map[int][]*cell{}
	for _, ce := range cells {
		if ce.status == "ok" {
			ce.field = fmt.Sprintf("F%d", ce.k)
			byBlock[ce.block] = append(byBlock[ce.block], ce)
		}
	}
	var blocks []int
	for b := range byBlock {
		blocks = append(blocks, b)
	}
	sort.Ints(blocks)
	var sb strings.Builder
	sb.WriteString("package main\n\n" + preamble)
	for _, b := range blocks {
		fmt.Fprintf(&sb, "type M%d struct {\n", b)
		for _, ce := range byBlock[b] {
			fmt.Fprintf(&sb, "\t%s %s %s\n", ce.field, ce.gotype, structTag(ce.tag))
		}
		sb.WriteString("}\n\n")
	}
	os.WriteFile(filepath.Join(dir, "cells.go"), []byte(sb.String()), 0o644)
	if out, rc, _ := goRun(tmp, 2*time.Minute, gen, dir); rc != 0 {
		die("gozodgen failed on layout B:\n%s", firstN(out, 2000))
	}
	normaliseStamps(dir)
	// identical expressions?
	for _, b := range blocks {
		exprs, fset, err := fieldExprs(filepath.Join(dir, fmt.Sprintf("m%d_gen.go", b)))
		if err != nil {
			die("layout B file for block %d does not parse: %v", b, err)
		}
		for _, ce := range byBlock[b] {
			e, ok := exprs[ce.field]
			if !ok || exprString(fset, e) != ce.expr {
				die("layout B emits a different expression for %s %s: %q vs %q", ce.fty, ce.rules, ce.expr, exprString(fset, e))
			}
		}
	}
	// runner
	var rb strings.Builder
	rb.WriteString(runnerHead)
	rb.WriteString("func main() {\n")
	for _, b := range blocks {
		var fields, probes []string
		for _, ce := range byBlock[b] {
			fields = append(fields, strconv.Quote(ce.field))
		}
		for _, p := range byBlock[b][0].probes {
			probes = append(probes, strconv.Quote(p))
		}
		fmt.Fprintf(&rb, "\trunBlock[M%d](%d, []string{%s}, []string{%s})\n", b, b, strings.Join(fields, ", "), strings.Join(probes, ", "))
	}
	rb.WriteString("}\n")
	os.WriteFile(filepath.Join(dir, "runner.go"), []byte(rb.String()), 0o644)
	bin := filepath.Join(tmp, "runnerB")
	if out, rc, _ := goBuild(tmp, 30*time.Minute, "build", "-trimpath", "-o", bin, "./b"); rc != 0 {
		die("layout B (only cells that type-check one by one) does not build:\n%s", firstN(out, 3000))
	}
	out, rc, _ := goRun(tmp, 10*time.Minute, bin)
	if rc != 0 {
		die("layout B runner failed:\n%s", firstN(out, 3000))
	}
	byField := map[string]*cell{}
	for _, ce := range cells {
		if ce.field != "" {
			byField[ce.field] = ce
			ce.g = make([]string, len(ce.probes))
			ce.r = make([]string, len(ce.probes))
		}
	}
	for _, line := range strings.Split(out, "\n") {
		t := strings.Fields(line)
		if len(t) != 4 {
			continue
		}
		ce := byField[t[0]]
		pi, _ := strconv.Atoi(t[1])
		if ce == nil || pi >= len(ce.probes) {
			die("unexpected runner line %q", line)
		}
		ce.g[pi], ce.r[pi] = t[2], t[3]
	}
	for _, ce := range byField {
		for pi := range ce.probes {
			if ce.g[pi] == "" {
				die("runner reported nothing for %s %s probe %d", ce.fty, ce.rules, pi)
			}
		}
	}
}

var stampRe = regexp.MustCompile(`(?m)^// Generated at: .*$`)

// normaliseStamps rewrites the "// Generated at: <time>" comment of the generated files that are
// compiled and run, so that the Go build cache can reuse the compiled package across runs.  The
// files that are parsed and type-checked (layout A) are left exactly as gozodgen wrote them.
func normaliseStamps(dir string) {
	ms, _ := filepath.Glob(filepath.Join(dir, "*_gen.go"))
	for _, m := range ms {
		if src, err := os.ReadFile(m); err == nil {
			os.WriteFile(m, stampRe.ReplaceAll(src, []byte("// Generated at: -")), 0o644)
		}
	}
}

const runnerHead = `// Code generated by the C13 harness. DO NOT EDIT.
package main

import (
	"fmt"
	"reflect"

	"github.com/kaptinlin/gozod"

	"verifharness/hx"
)

type schemaer[T any] interface {
	Schema() *gozod.ZodStruct[T, T]
}

func verdicts[T any](s *gozod.ZodStruct[T, T], v T) (map[string]bool, string) {
	bad := map[string]bool{}
	fail := ""
	p := hx.Safely(func() {
		_, err := s.Parse(v)
		if err == nil {
			return
		}
		ze, ok := err.(*gozod.ZodError)
		if !ok {
			fail = "e"
			return
		}
		for _, is := range ze.Issues {
			if len(is.Path) == 0 {
				fail = "e"
				return
			}
			bad[fmt.Sprint(is.Path[0])] = true
		}
	})
	if p != "" {
		fail = "p"
	}
	return bad, fail
}

func b01(bad map[string]bool, fail, f string) string {
	if fail != "" {
		return fail
	}
	if bad[f] {
		return "0"
	}
	return "1"
}

func runBlock[T schemaer[T]](block int, fields, probes []string) {
	var zero T
	var g, r *gozod.ZodStruct[T, T]
	if p := hx.Safely(func() { g = zero.Schema() }); p != "" {
		g = nil
	}
	if p := hx.Safely(func() { r = gozod.FromStruct[T]() }); p != "" {
		r = nil
	}
	for pi, probe := range probes {
		v := reflect.New(reflect.TypeFor[T]()).Elem()
		for _, f := range fields {
			if err := hx.SetProbe(v.FieldByName(f), probe); err != nil {
				panic(err)
			}
		}
		gb, gf := map[string]bool{}, "p"
		if g != nil {
			gb, gf = verdicts(g, v.Interface().(T))
		}
		rb, rf := map[string]bool{}, "p"
		if r != nil {
			rb, rf = verdicts(r, v.Interface().(T))
		}
		for _, f := range fields {
			fmt.Println(f, pi, b01(gb, gf, f), b01(rb, rf, f))
		}
	}
}
`

// ---------------------------------------------------------------------------------------------
// sample of layout A compiled per cell

type sampleRes struct {
	order []int
	obs   map[int]string
}

func sampleA(tmp, dirA string, cells []*cell, rng *hx.Rng, n int) sampleRes {
	res := sampleRes{obs: map[int]string{}}
	var ok []*cell
	for _, ce := range cells {
		if ce.status == "ok" && ce.g != nil {
			ok = append(ok, ce)
		}
	}
	if len(ok) == 0 {
		return res
	}
	picked := map[int]bool{}
	for len(picked) < n && len(picked) < len(ok) {
		picked[ok[rng.Intn(len(ok))].k] = true
	}
	dir := filepath.Join(tmp, "s")
	os.MkdirAll(dir, 0o755)
	var sb, rb strings.Builder
	sb.WriteString("package main\n\n" + preamble)
	rb.WriteString(strings.Replace(runnerHead, "func runBlock", "func runBlockUnused", 1))
	rb.WriteString(`
func runCell[T schemaer[T]](k int, probes []string) {
	var zero T
	g := zero.Schema()
	r := gozod.FromStruct[T]()
	for pi, probe := range probes {
		v := reflect.New(reflect.TypeFor[T]()).Elem()
		if err := hx.SetProbe(v.FieldByName("F"), probe); err != nil {
			panic(err)
		}
		gb, gf := verdicts(g, v.Interface().(T))
		rb, rf := verdicts(r, v.Interface().(T))
		fmt.Println(k, pi, b01(gb, gf, "F"), b01(rb, rf, "F"))
	}
}

func main() {
`)
	for _, ce := range cells {
		if !picked[ce.k] {
			continue
		}
		res.order = append(res.order, ce.k)
		fmt.Fprintf(&sb, "type C%d struct {\n\tF %s %s\n}\n\n", ce.k, ce.gotype, structTag(ce.tag))
		src, err := os.ReadFile(filepath.Join(dirA, fmt.Sprintf("c%d_gen.go", ce.k)))
		if err != nil {
			die("%v", err)
		}
		os.WriteFile(filepath.Join(dir, fmt.Sprintf("c%d_gen.go", ce.k)), stampRe.ReplaceAll(src, []byte("// Generated at: -")), 0o644) // the file gozodgen wrote, timestamp comment normalised
		var probes []string
		for _, p := range ce.probes {
			probes = append(probes, strconv.Quote(p))
		}
		fmt.Fprintf(&rb, "\trunCell[C%d](%d, []string{%s})\n", ce.k, ce.k, strings.Join(probes, ", "))
	}
	rb.WriteString("}\n")
	for _, f := range []string{"inner_gen.go", "inner_t_gen.go"} {
		if src, err := os.ReadFile(filepath.Join(dirA, f)); err == nil {
			os.WriteFile(filepath.Join(dir, f), src, 0o644)
		}
	}
	os.WriteFile(filepath.Join(dir, "cells.go"), []byte(sb.String()), 0o644)
	os.WriteFile(filepath.Join(dir, "runner.go"), []byte(rb.String()), 0o644)
	bin := filepath.Join(tmp, "runnerS")
	if out, rc, _ := goBuild(tmp, 30*time.Minute, "build", "-trimpath", "-o", bin, "./s"); rc != 0 {
		die("sampled layout A cells (each type-checks) do not build:\n%s", firstN(out, 3000))
	}
	out, rc, _ := goRun(tmp, 10*time.Minute, bin)
	if rc != 0 {
		die("sample runner failed:\n%s", firstN(out, 3000))
	}
	diff := map[int]bool{}
	for _, line := range strings.Split(out, "\n") {
		t := strings.Fields(line)
		if len(t) != 4 {
			continue
		}
		k, _ := strconv.Atoi(t[0])
		pi, _ := strconv.Atoi(t[1])
		if cells[k].g[pi] != t[2] || cells[k].r[pi] != t[3] {
			diff[k] = true
		}
	}
	for _, k := range res.order {
		if diff[k] {
			res.obs[k] = "differ"
		} else {
			res.obs[k] = "same"
		}
	}
	return res
}

// ---------------------------------------------------------------------------------------------
// gentable.json: what vlib/c13.py renders as Gen/GenTable.lean

func writeGenTable(path string, cells []*cell) {
	type row struct {
		Fty    string   `json:"fty"`
		Rules  string   `json:"rules"`
		Status string   `json:"status"`
		Chain  []string `json:"chain"`
		Raw    string   `json:"raw"` // the text of the schema expression as written in the generated file
	}
	rows := make([]row, 0, len(cells))
	for _, ce := range cells {
		r := row{Fty: ce.fty, Rules: ce.rules, Status: ce.status, Raw: ce.raw}
		if ce.status != "noparse" {
			r.Chain = strings.Split(ce.chain, ";")
		}
		rows = append(rows, r)
	}
	b, _ := json.Marshal(rows)
	os.WriteFile(path, b, 0o644)
}
