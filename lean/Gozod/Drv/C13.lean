/-
  Line handlers for C13.
    gen | compile … | sample …             → "ok ok" / "same same"  (the property demands success)
    cell <fty> <rules> <probe> | <chain>   → "<denote> <documented>"  verdict of the chain `GenSem.emitCell` builds from the
                                              cell's INPUT under `GenSem.denoteChain` (`?` = not judged), and the documented verdict
    term … / tconv …                       → termination (`C13.c13_term`) and the RESULT of the live conversion (`GenTerm.convV`)
    quote <kind> <runes p> | <runes ref>   → noparse | lit=<runes>   value of the literal the transcribed
                                              formatting function emits for parameter p
-/
import Gozod.Model.GenChain
import Gozod.Model.GenSplit
import Gozod.Model.GenEmit
import Gozod.Model.GenTyped
import Gozod.Gen.MethodTable
import Gozod.Model.GenTerm
import Gozod.Model.GenSem
namespace Gozod.Drv.C13
open Gozod Gozod.Tags Gozod.GenChain

def b2s (b : Bool) : String := if b then "1" else "0"

def parseRunes (s : String) : Option (List Nat) :=
  if s == "-" then some [] else (s.splitOn ".").mapM String.toNat?

def renderRunes (s : List Nat) : String := if s.isEmpty then "-" else ".".intercalate (s.map toString)

def parseRules (s : String) : Option (List TRule) := (s.splitOn "+").mapM TRule.ofString?

/-! round 2: the generator's own tag parser, and the text it emits for a field -/

def renderList (xs : List (List Nat)) : String :=
  if xs.isEmpty then "~" else ";".intercalate (xs.map renderRunes)

def renderRule (r : TagParser.Rule) : String :=
  renderRunes r.name ++ ":" ++ (match r.params with | none => "~" | some ps => "/".intercalate (ps.map renderRunes))

def renderRules : Except String (List TagParser.Rule) → String
  | .error e => "err:" ++ e
  | .ok rs => if rs.isEmpty then "~" else ";".intercalate (rs.map renderRule)

/-- SPEC side (written over the tagparser model only): gozodgen documents that it refuses a rule with `=`
    and a blank parameter ("rule requires a parameter") or a blank name; the first such part decides. -/
def specRefuses (tag : List Nat) : Option String :=
  if tag.isEmpty then none else
  (TagParser.splitParts tag).findSome? fun part =>
    let part := TagParser.trimSpace part
    let (name, raw, ok) := TagParser.cutEq part
    if part.isEmpty || !ok then none
    else if (TagParser.trimSpace raw).isEmpty then some "err:param"
    else if (TagParser.trimSpace name).isEmpty then some "err:name"
    else none

def parseTy (s : String) : Option GenEmit.Ty := GenEmit.parseTy s

/-- PINNED: the writer of /repo HEAD (all twelve decisions in the landed variant). What go/ast finds in the tree
    (`Gen.writerFacts`) is an expectation proved equal to it (`C13.c13_writer_pinned`), never a selector. -/
def WF : GenEmit.WriterFacts := .head

/-- predicted status of the file written for a one-field struct: the expression is well typed against the regenerated
    method table and every import written is used; with the reason when it is not (`GenTyped.whyChain`) -/
def statusOf (rs : List TagParser.Rule) (c : GenEmit.Chain) : String :=
  let ti := GenTyped.timeImported WF [rs] [c]
  match GenTyped.wellTyped Gen.methodTable ti c with
  | some true => if GenTyped.importsUsed WF [rs] [c] then "ok" else "notypecheck"
  | some false => "notypecheck"
  | none => if GenTyped.importsUsed WF [rs] [c] then "?" else "notypecheck"

def whyOf (rs : List TagParser.Rule) (c : GenEmit.Chain) : String :=
  match GenTyped.whyChain Gen.methodTable WF rs c with
  | .ok => "ok" | .unjudged => "?" | .ill cls => cls

/-- prefix syntax of harness/cmd/c13/term.go: B P<t> S<t> A<t> M<k><v> N<i>. T I -/
def parseGT : Nat → List Char → Option (GenTerm.GT × List Char)
  | 0, _ => none
  | f + 1, cs =>
    match cs with
    | 'B' :: r => some (.basic, r)
    | 'T' :: r => some (.time, r)
    | 'I' :: r => some (.iface, r)
    | 'P' :: r => (parseGT f r).map fun (t, r) => (.pointer t, r)
    | 'S' :: r => (parseGT f r).map fun (t, r) => (.slice t, r)
    | 'A' :: r => (parseGT f r).map fun (t, r) => (.array t, r)
    | 'M' :: r =>
      match parseGT f r with
      | some (k, r) => (parseGT f r).map fun (v, r) => (.map k v, r)
      | none => none
    | 'N' :: r =>
      let ds := r.takeWhile Char.isDigit
      match (String.ofList ds).toNat?, r.drop ds.length with
      | some n, '.' :: r => some (.named n, r)
      | _, _ => none
    | _ => none

def parseGT1 (s : String) : Option GenTerm.GT :=
  match parseGT (s.length + 1) s.toList with
  | some (t, []) => some t
  | _ => none

/-- the program of a `term` op: environment (struct entries `R:f,f`) and every field that is converted -/
def parseProg (fields env : String) : Option GenTerm.Prog :=
  let entries := if env == "-" then [] else env.splitOn ";"
  let envT : Option (List GenTerm.GT) := entries.mapM fun e => if e.startsWith "R:" then some .struct else parseGT1 e
  let structFields : List String := entries.flatMap fun e => if e.startsWith "R:" then (e.drop 2).toString.splitOn "," else []
  match envT, (fields.splitOn "," ++ structFields).mapM parseGT1 with
  | some env, some fs => some ⟨env, fs⟩
  | _, _ => none

def handle : List String → String
  | ["split", s, "|", ref] =>
    match parseRunes s with
    | some s =>
      let parts := "parts=" ++ renderList (GenSplit.genSplit s)
      let m := parts ++ " rules=" ++ renderRules (GenSplit.genParseTag s)
      -- the tagparser model must read what the real tagparser read (cross-check of C06's tie)
      let drift := if renderRules (TagParser.parseTag false s) == ref then "" else " !tagparser-model-drift"
      let sp := parts ++ " rules=" ++ (specRefuses s).getD ref
      m ++ drift ++ "\t" ++ sp ++ "\t" ++ GenSplit.parseReason s
    | none => "bad-op"
  | ["wcompile", _, _, tag] =>
    -- the file must parse, type-check and its Schema() must not panic; third column: why the two tag parsers read the
    -- tag differently (`none` inside parseRegion) — a failure outside the region is attributed to that known class
    match parseRunes tag with
    | some tag => "ok\tok\t" ++ GenSplit.parseReason tag
    | none => "bad-op"
  | ["wsame", _, _, _] => "same same"
  | ["wbuild"] => "ok ok"
  | ["wexpr", gotype, _, tag] =>
    match parseRunes tag, parseTy gotype with
    | some tag, some t =>
      match GenEmit.emitField WF t [] tag with
      | some e => "expr=" ++ renderRunes e
      | none => "?"
    | _, _ => "?"
  | ["texpr", gotype, _, tag, sn] =>
    match parseRunes tag, parseTy gotype with
    | some tag, some t =>
      match GenSplit.genParseTag tag with
      | .ok rs =>
        match GenEmit.emitChain WF t (GenEmit.asc sn) rs with
        | some c => "st=" ++ statusOf rs c ++ " expr=" ++ renderRunes c.render ++ "\t" ++ whyOf rs c
        | none => "?"
      | .error _ => "?"
    | _, _ => "?"
  | ["wcell", _, _, tag, _, "|", _] =>
    match parseRunes tag with
    | some tag => GenSplit.parseReason tag
    | none => "bad-op"
  | ["term", fields, "|", env] =>
    -- "gozodgen terminates normally": `C13.c13_term` — for EVERY program the live conversion (`convS`, the transcription
    -- with the stack of named types) returns; there is no input on which the model predicts anything else
    match parseProg fields env with
    | some _ => "ok ok"
    | none => "bad-op"
  | ["tconv", fields, "|", env] =>
    -- the RESULT of the live conversion for every converted field (`GenTerm.analyzeV` = `convV`; by `c13_term` this is what
    -- `convS` returns): a named type met again on the way down has become `any`. Compared with the reflect.Type the real
    -- analyzer built (model-vs-implementation: the spec column is filled in by vlib/c13.py)
    match parseProg fields env with
    | some p => "types=" ++ ";".intercalate ((GenTerm.analyzeV p).map GenTerm.RT.render)
    | none => "bad-op"
  | ["mname", names] =>
    -- model: the keys the analyzer of /repo HEAD writes (0bbda6e: every name its own key — pinned), the file type-checks iff they are
    -- distinct; spec: one key per name, the name itself (what FromStruct uses), the file type-checks
    let ns := names.splitOn ","
    let ks := (GenEmit.fieldKeys true (ns.map GenEmit.asc)).map fun k => String.ofList (k.map Char.ofNat)
    "keys=" ++ ",".intercalate ks ++ " st=" ++ (if ks.eraseDups.length == ks.length then "ok" else "notypecheck") ++ "\t" ++ "keys=" ++ names ++ " st=ok"
  | ["bfile", kind] =>
    let k : GenEmit.SrcKind := if kind == "plain" || kind == "second-file" then .plain else if kind == "test-file" then .testFile else .constrained
    (if GenEmit.packageStillBuilds true k then "ok" else "nobuild") ++ "\tok"
  | ["regen", _] => "same same"      -- a second run over its own output writes the same files (the writer is a function of the source)
  | ["gen"] => "ok ok"
  | ["compile", _, _] => "ok ok"
  | ["sample", _, _] => "same same"
  | ["cell", fty, rules, probe, "|", _chain] =>
    -- from the INPUT of the cell: the chain the writer model emits (its text = the file's text: texpr op of the same cell,
    -- theorem c13_gen_is_emit), judged by the partial semantics; `?` = some call / constructor / argument is not known
    match FTy.ofString? fty, parseRules rules, Probe.ofString? probe with
    | some t, some rs, some p =>
      let d := match GenSem.emitCell t rs with
        | some ch => (match GenSem.denoteChain ch p with | some b => b2s b | none => "?")
        | none => "?"
      s!"{d} {b2s (Spec.accept rs p)}"
    | _, _, _ => "bad-op"
  | ["quote", kind, p, "|", _ref] =>
    match parseRunes p with
    | some p =>
      -- `default=`: the code after 8c56087 (strconv.Quote); "?" = quoting of some rune not modelled
      let emitted : Option (List Nat) := if kind == "regex" then some (emitRegex p) else emitDefaultFixed p
      match emitted with
      | none => "?"
      | some e =>
        match goStringLit e with
        | none => "noparse"
        | some s => "lit=" ++ renderRunes s
    | none => "bad-op"
  | _ => "bad-op"

end Gozod.Drv.C13
