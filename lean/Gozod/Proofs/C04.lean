/-
  C04 — a failure is a well-formed ZodError: at least one issue, each with a known issue code, a
  non-empty message and a non-nil path.

  Model: `Gozod.Model.Containers`.  Issues carry `code`, `hasMsg` (Message ≠ ""), `hasPath`
  (Path ≠ nil); the creators + `FinalizeIssue` are the smart constructors `mk`, `prepend`,
  `replacePath`, `dropPath` (FinalizeIssue sets path `[]` when nil and a default message when empty).
  The theorem is relative to the members: IF every member's own error is well-formed THEN so is
  every error a composite builds from them — by induction this covers any nesting depth.

  PARTIAL: panic-freedom has no counterpart in a total Lean model; it is decided by the
  correspondence (harness/cmd/c04: schema × Go-kind cross product under recover()).
-/
import Gozod.Model.Containers
import Gozod.Proofs.C05

namespace Gozod.C04
open Gozod.Cont

def Issue.wf (i : Issue) : Bool := i.code.known && i.hasMsg && i.hasPath

/-- the shape the statement demands of an outcome. -/
def Res.wf : Res → Bool
  | .ok => true
  | .err is => !is.isEmpty && is.all Issue.wf

abbrev AllWf (is : List Issue) : Prop := is.all Issue.wf = true

theorem wf_prepend (s : Seg) (c : Issue) (h : Issue.wf c = true) : Issue.wf (prepend s c) = true := by
  simp only [Issue.wf, prepend, Bool.and_eq_true] at h ⊢; simp [h.1.1]

theorem wf_replace (s : Seg) (c : Issue) (h : Issue.wf c = true) : Issue.wf (replacePath s c) = true := by
  simp only [Issue.wf, replacePath, Bool.and_eq_true] at h ⊢; simp [h.1.1]

theorem wf_drop (c : Issue) (h : Issue.wf c = true) : Issue.wf (dropPath c) = true := by
  simp only [Issue.wf, dropPath, Bool.and_eq_true] at h ⊢; simp [h.1.1]

theorem allWf_map (f : Issue → Issue) (hf : ∀ c, Issue.wf c = true → Issue.wf (f c) = true) (is : List Issue)
    (h : AllWf is) : AllWf (is.map f) := by
  simp only [AllWf, List.all_eq_true, List.mem_map] at h ⊢
  rintro _ ⟨c, hc, rfl⟩; exact hf c (h c hc)

theorem allWf_append {a b : List Issue} (ha : AllWf a) (hb : AllWf b) : AllWf (a ++ b) := by
  simp only [AllWf, List.all_append, Bool.and_eq_true] at *; exact ⟨ha, hb⟩

theorem allWf_nil : AllWf [] := rfl

theorem sizeIssues_wf (cs : List SizeCk) (n : Nat) : AllWf (sizeIssues cs n) := by
  induction cs with
  | nil => rfl
  | cons c cs ih =>
    simp only [sizeIssues]
    refine allWf_append ?_ ih
    by_cases h : c.holds n = true
    · simp [h, AllWf]
    · simp only [h, Bool.false_eq_true, ↓reduceIte]
      cases c with
      | min k => rfl
      | max k => rfl
      | eq k =>
        simp only [SizeCk.issue]
        split <;> rfl
      | custom b => rfl
      | overwrite => rfl

section
variable (cfg : Cfg) (env : Env) (hm : ∀ m x, AllWf (errs env m x))
include hm

theorem sliceElems_wf (e : Mid) (k : Nat) (xs : List V) : AllWf (sliceElems cfg env e k xs) := by
  induction xs generalizing k with
  | nil => rfl
  | cons x xs ih =>
    simp only [sliceElems]
    refine allWf_append ?_ (ih _)
    cases cfg.slicePrepend
    · exact allWf_map _ (wf_replace _) _ (hm e x)
    · exact allWf_map _ (wf_prepend _) _ (hm e x)

theorem arrayElems_wf (k : Nat) (ms : List Mid) (r : Option Mid) (xs : List V) :
    AllWf (arrayElems env k ms r xs) := by
  induction xs generalizing k ms with
  | nil => cases ms <;> rfl
  | cons x xs ih =>
    cases ms with
    | cons m ms =>
      simp only [arrayElems]
      refine allWf_append ?_ (ih _ _)
      split <;> rfl
    | nil =>
      cases r with
      | none => rfl
      | some r =>
        simp only [arrayElems]
        refine allWf_append ?_ (ih _ _)
        split <;> rfl

theorem tupleElems_wf (k : Nat) (ms : List Mid) (r : Option Mid) (xs : List V) :
    AllWf (tupleElems env k ms r xs) := by
  induction xs generalizing k ms with
  | nil => cases ms <;> rfl
  | cons x xs ih =>
    cases ms with
    | cons m ms =>
      simp only [tupleElems]
      exact allWf_append (allWf_map _ (wf_prepend _) _ (hm m x)) (ih _ _)
    | nil =>
      cases r with
      | none => rfl
      | some r =>
        simp only [tupleElems]
        exact allWf_append (allWf_map _ (wf_prepend _) _ (hm r x)) (ih _ _)

theorem optErrs_wf (m : Option Mid) (x : V) : AllWf (optErrs env m x) := by
  cases m with
  | none => rfl
  | some m => exact hm m x

theorem mapEntries_wf (km vm : Option Mid) (es : List (V × V)) : AllWf (mapEntries env km vm es) := by
  induction es with
  | nil => rfl
  | cons e es ih =>
    obtain ⟨k, x⟩ := e
    simp only [mapEntries]
    exact allWf_append (allWf_append (allWf_map _ (wf_prepend _) _ (optErrs_wf env hm km k))
      (allWf_map _ (wf_prepend _) _ (optErrs_wf env hm vm x))) ih

theorem setElems_wf (m : Mid) (xs : List V) : AllWf (setElems env m xs) := by
  induction xs with
  | nil => rfl
  | cons x xs ih =>
    simp only [setElems]
    exact allWf_append (allWf_map _ (wf_prepend _) _ (hm m x)) ih

theorem recordSchemaKeys_wf (m : Mid) (loose : Bool) (es : List (V × V)) :
    AllWf (recordSchemaKeys cfg env m loose es) := by
  induction es with
  | nil => rfl
  | cons e es ih =>
    obtain ⟨k, x⟩ := e
    simp only [recordSchemaKeys]
    refine allWf_append ?_ ih
    cases loose
    · simp only [Bool.false_eq_true, ↓reduceIte]
      cases cfg.recordKeyPath
      · exact allWf_map _ wf_drop _ (hm m k)
      · exact allWf_map _ (wf_prepend _) _ (hm m k)
    · rfl

theorem recordValues_wf (ks : KeySpec) (vm : Mid) (loose : Bool) (es : List (V × V)) :
    ∀ is, recordValues cfg env ks vm loose es = some is → is ≠ [] ∧ AllWf is := by
  induction es with
  | nil => intro is h; simp [recordValues] at h
  | cons e es ih =>
    obtain ⟨k, x⟩ := e
    intro is h
    simp only [recordValues] at h
    split at h
    · exact ih is h
    · cases he : env vm x with
      | ok r => simp only [he] at h; exact ih is h
      | err a t =>
        simp only [he, Option.some.injEq] at h
        subst h
        refine ⟨by simp, ?_⟩
        have := hm vm x
        simp only [errs, he] at this
        cases cfg.recordKeyPath
        · simpa [AllWf] using this
        · exact allWf_map _ (wf_prepend _) _ this

theorem objectFields_wf (p : Partial) (es : List (V × V)) (shape : List Field) :
    AllWf (objectFields env p es shape).1 := by
  induction shape with
  | nil => rfl
  | cons f rest ih =>
    simp only [objectFields]
    revert ih
    generalize objectFields env p es rest = rec
    obtain ⟨is, n⟩ := rec
    intro ih
    cases hk : lookupKey f.name es with
    | none =>
      simp only
      refine allWf_append ?_ ih
      split <;> rfl
    | some x =>
      simp only
      split
      · simp only [AllWf, List.all_cons, Bool.and_eq_true]; exact ⟨rfl, ih⟩
      · cases he : env f.m x with
        | ok r => exact ih
        | err a t =>
          simp only
          have := hm f.m x
          simp only [errs, he] at this
          exact allWf_append (allWf_map _ (wf_prepend _) _ this) ih

theorem unkIssues_wf (shape : List Field) (mode : Mode) (c : Option Mid) (es : List (V × V)) :
    AllWf (C05.unkIssues env shape mode c es) := by
  induction es with
  | nil => rfl
  | cons e es ih =>
    obtain ⟨k, x⟩ := e
    simp only [C05.unkIssues]
    refine allWf_append ?_ ih
    split
    · rfl
    · split
      · next cm => exact allWf_map _ (wf_prepend _) _ (hm cm x)
      · next cm => exact allWf_map _ (wf_prepend _) _ (hm cm x)
      · rfl

theorem structFields_wf (fs : List (Nat × V)) (shape : List Field) : AllWf (structFields env fs shape) := by
  induction shape with
  | nil => rfl
  | cons f rest ih =>
    simp only [structFields]
    refine allWf_append ?_ ih
    cases lookupField f.name fs with
    | none => simp only; split <;> rfl
    | some x => exact allWf_map _ (wf_prepend _) _ (hm f.m x)

end

theorem recordEnumKeys_wf (allowed : List Nat) (p : Bool) (es : List (V × V)) :
    AllWf (recordEnumKeys allowed p es) := by
  unfold recordEnumKeys
  refine allWf_append ?_ ?_
  · split <;> rfl
  · split
    · rfl
    · simp [AllWf, List.all_map, mk, Issue.wf, Code.known]

theorem ofIssues_wf {is : List Issue} (h : AllWf is) : Res.wf (ofIssues is) = true := by
  cases is with
  | nil => rfl
  | cons i is => simpa [ofIssues, Res.wf] using h

theorem err_wf_of {i : Issue} {is : List Issue} (h : AllWf (i :: is)) : Res.wf (.err (i :: is)) = true := by
  simpa [Res.wf] using h

theorem engine_wf {α : Type} (m : Mods) (ex : V → Option α) (va : α → Res) (v : V)
    (h : ∀ a, Res.wf (va a) = true) : Res.wf (engine m ex va v) = true := by
  unfold engine
  split
  · unfold nilPath; repeat' split
    all_goals rfl
  · cases ex v with
    | none => rfl
    | some a => exact h a

/-- the merged intersection issue is well-formed exactly when it is built with a path. -/
theorem mergeUnrec_wf (cfg : Cfg) (hp : cfg.interPath = true) (l r : List Issue) (hl : AllWf l) (hr : AllWf r) :
    AllWf (mergeUnrec cfg l r) := by
  unfold mergeUnrec
  refine allWf_append (allWf_append ?_ ?_) ?_
  · simp only [AllWf, List.all_eq_true, List.mem_filter] at hl ⊢; exact fun x hx => hl x hx.1
  · simp only [AllWf, List.all_eq_true, List.mem_filter] at hr ⊢; exact fun x hx => hr x hx.1
  · split
    · rfl
    · simp [AllWf, Issue.wf, Code.known, hp]

/-- **C04 (error shape)**: whatever the members answer — as long as their own errors are well-formed —
    every composite returns `ok` or an error with at least one issue, each with a known code, a
    message and a non-nil path.  Needs the C04-inter-nil-path patch (`interPath`). -/
theorem c04_error_wf (cfg : Cfg) (env : Env) (n : Node) (v : V) (hp : cfg.interPath = true)
    (hm : ∀ m x, AllWf (errs env m x)) : Res.wf (run cfg env n v) = true := by
  cases n with
  | slice m t e cs =>
    exact engine_wf _ _ _ _ fun xs =>
      ofIssues_wf (allWf_append (sizeIssues_wf cs _) (sliceElems_wf cfg env hm e 0 xs))
  | array m items rest cs =>
    refine engine_wf _ _ _ _ fun xs => ?_
    unfold validateArray
    split
    · next a b hs => exact err_wf_of (hs ▸ sizeIssues_wf cs xs.length)
    · repeat' split
      all_goals first
        | rfl
        | exact ofIssues_wf (arrayElems_wf env hm 0 items rest xs)
  | tuple m items req rest cs =>
    refine engine_wf _ _ _ _ fun xs => ?_
    unfold validateTuple
    repeat' split
    all_goals first
      | rfl
      | exact ofIssues_wf (sizeIssues_wf cs _)
      | skip
    next a b ht => exact err_wf_of (ht ▸ tupleElems_wf env hm 0 items rest xs)
  | map m km vm cs =>
    refine engine_wf _ _ _ _ fun es => ?_
    unfold validateMap
    split
    · next a b hs => exact err_wf_of (hs ▸ sizeIssues_wf cs es.length)
    · exact ofIssues_wf (mapEntries_wf env hm km vm es)
  | record m ks vm loose part cs =>
    refine engine_wf _ _ _ _ fun es => ?_
    cases ks with
    | none =>
      simp only [validateRecord]
      split
      · next a b hs => exact err_wf_of (hs ▸ sizeIssues_wf cs es.length)
      · split
        · next is hr =>
          obtain ⟨hne, hw⟩ := recordValues_wf cfg env hm .none vm loose es is hr
          cases is with
          | nil => exact absurd rfl hne
          | cons a b => exact err_wf_of hw
        · rfl
    | enum al km =>
      simp only [validateRecord]
      split
      · next a b hs => exact err_wf_of (hs ▸ sizeIssues_wf cs es.length)
      · split
        · next is hr =>
          obtain ⟨hne, hw⟩ := recordValues_wf cfg env hm (.enum al km) vm loose es is hr
          cases is with
          | nil => exact absurd rfl hne
          | cons a b => exact err_wf_of hw
        · exact ofIssues_wf (recordEnumKeys_wf al part es)
    | schema km =>
      simp only [validateRecord]
      split
      · next a b hs => exact err_wf_of (hs ▸ sizeIssues_wf cs es.length)
      · split
        · next is hr =>
          obtain ⟨hne, hw⟩ := recordValues_wf cfg env hm (.schema km) vm loose es is hr
          cases is with
          | nil => exact absurd rfl hne
          | cons a b => exact err_wf_of hw
        · exact ofIssues_wf (recordSchemaKeys_wf cfg env hm km loose es)
  | set m t e cs =>
    refine engine_wf _ _ _ _ fun xs => ?_
    unfold validateSet
    split
    · next a b hs => exact err_wf_of (hs ▸ sizeIssues_wf cs xs.length)
    · exact ofIssues_wf (setElems_wf env hm e xs)
  | object m shape mode c p cs =>
    refine engine_wf _ _ _ _ fun es => ?_
    unfold validateObject
    have hF := objectFields_wf env hm p es shape
    have hU : AllWf (objectUnknown env shape mode c es).1 := by
      rw [C05.objectUnknown_fst]; exact unkIssues_wf env hm shape mode c es
    revert hF hU
    generalize objectFields env p es shape = rf
    generalize objectUnknown env shape mode c es = ru
    obtain ⟨fi, fn⟩ := rf
    obtain ⟨ui, un, unN⟩ := ru
    intro hF hU
    refine ofIssues_wf (allWf_append (allWf_append (allWf_append hF hU) ?_) (sizeIssues_wf cs _))
    split <;> rfl
  | struct m ptrC sid shape =>
    exact engine_wf _ _ _ _ fun fs => ofIssues_wf (structFields_wf env hm fs shape)
  | union m opts =>
    simp only [run]
    refine engine_wf _ _ _ _ fun a => ?_
    unfold validateUnion; repeat' split
    all_goals rfl
  | xor m opts =>
    simp only [run]
    refine engine_wf _ _ _ _ fun a => ?_
    unfold validateXor; repeat' split
    all_goals rfl
  | inter m l r =>
    simp only [run]
    refine engine_wf _ _ _ _ fun a => ?_
    unfold validateInter
    split
    · next x y hmu =>
      refine err_wf_of (hmu ▸ mergeUnrec_wf cfg hp _ _ ?_ ?_)
      · rw [C05.mresIssues_eq]; exact hm l a
      · rw [C05.mresIssues_eq]; exact hm r a
    · split <;> rfl
  | du m disc dmap opts =>
    simp only [run]
    unfold parseDU
    split
    · rfl
    · split
      · next es _ =>
        dsimp only
        cases lookupKey disc (es.getD []) with
        | none => rfl
        | some dv =>
          dsimp only
          cases lookupDisc dv dmap with
          | some t =>
            dsimp only
            cases he : env t (.map .str .any es) with
            | ok r => rfl
            | err a b =>
              have := hm t (.map .str .any es)
              simp only [errs, he] at this
              exact err_wf_of this
          | none => dsimp only; split <;> rfl
      · rfl
  | lazy m direct t =>
    simp only [run]
    unfold parseLazy
    split
    · repeat' split
      all_goals rfl
    · unfold lazyAsk
      by_cases h : (cfg.lazyWrap || direct) = true
      · rw [if_pos h]
        cases he : env t v with
        | ok r => rfl
        | err a b =>
          dsimp only
          split
          · rfl
          · have := hm t v
            simp only [errs, he] at this
            exact err_wf_of this
      · rw [if_neg h]
        dsimp only
        have hph : ([lazyPlaceholder].any (fun x => x.code == .invalidType && x.expLazy)) = true := by decide
        rw [if_pos hph]
        rfl

/-- a success carries no error: `ok` is the only accepting outcome (`Res.isOk` ↔ no issues). -/
theorem c04_ok_no_error (cfg : Cfg) (env : Env) (n : Node) (v : V) (h : (run cfg env n v).isOk = true) :
    (run cfg env n v).issues = [] := by
  cases hr : run cfg env n v with
  | ok => rfl
  | err is => rw [hr] at h; cases h

def c04_error_wf_full : Prop :=
  ∀ (cfg : Cfg) (env : Env) (n : Node) (v : V), (∀ m x, AllWf (errs env m x)) → Res.wf (run cfg env n v) = true

/-- Today (`interPath = false`): `Intersection(StrictObject{a}, StrictObject{b}).Parse({a, b, c})`
    yields an unrecognized_keys issue whose Path is nil. -/
theorem c04_inter_nil_path : ¬ c04_error_wf_full := by
  intro h
  have := h { interPath := false }
    (fun _ _ => .err { code := .unrecognizedKeys, path := [], keys := [3] } []) (.inter {} 0 1)
    (.map .str .any (some [])) (by intro m x; rfl)
  revert this; decide

example : Res.wf (run {} (fun _ _ => .err (mk .invalidType []) []) (.slice {} .any 0 [.min 3])
    (.slice .any (some [.nil]))) = true := by decide

/-! ## any nesting depth: induction over the fuel of `parseF`

`c04_error_wf` is ONE level: it assumes the members' errors are well-formed (`hm`).  The statement for whole schema
trees follows by induction over `Cont.parseF` (a composite runs its validator over the parses of its members one level
down; leaves answer from `env`): only the LEAVES' errors are assumed well-formed. -/

/-- **C04 (error shape, any nesting depth)**: for every schema table `defs`, fuel `k` (nesting depth unfolded), schema
    `id` and input: if the leaves' own errors are well-formed then so is every error of the nested parse. -/
theorem c04_error_wf_nested (cfg : Cfg) (defs : Mid → Def) (env : Env) (resv : Mid → V → V)
    (hp : cfg.interPath = true) (hleaf : ∀ m x, AllWf (errs env m x)) :
    ∀ (k : Nat) (id : Mid) (v : V), AllWf (errs (parseF cfg defs env resv k) id v) := by
  intro k
  induction k with
  | zero => intro id v; exact hleaf id v
  | succ n ih =>
    intro id v
    have e : parseF cfg defs env resv (n + 1) id v =
        (match defs id with
         | .leaf => env id v
         | .node nd =>
           match run cfg (parseF cfg defs env resv n) nd v with
           | .ok => .ok (resv id v)
           | .err [] => .ok (resv id v)
           | .err (i :: is) => .err i is) := rfl
    cases hd : defs id with
    | leaf =>
      have : parseF cfg defs env resv (n + 1) id v = env id v := by rw [e, hd]
      unfold errs; rw [this]; exact hleaf id v
    | node nd =>
      have hw := c04_error_wf cfg (parseF cfg defs env resv n) nd v hp ih
      cases hr : run cfg (parseF cfg defs env resv n) nd v with
      | ok =>
        have : parseF cfg defs env resv (n + 1) id v = .ok (resv id v) := by rw [e, hd]; simp only [hr]
        unfold errs; rw [this]; rfl
      | err is =>
        cases is with
        | nil =>
          have : parseF cfg defs env resv (n + 1) id v = .ok (resv id v) := by rw [e, hd]; simp only [hr]
          unfold errs; rw [this]; rfl
        | cons i t =>
          have : parseF cfg defs env resv (n + 1) id v = .err i t := by rw [e, hd]; simp only [hr]
          unfold errs; rw [this]
          rw [hr] at hw
          simp only [Res.wf, Bool.and_eq_true] at hw
          exact hw.2

/-- the outcome of the nested parse is `ok` or an error with at least one issue (by the shape of `MRes`), all well-formed -/
theorem c04_nested_outcome (cfg : Cfg) (defs : Mid → Def) (env : Env) (resv : Mid → V → V)
    (hp : cfg.interPath = true) (hleaf : ∀ m x, AllWf (errs env m x)) (k : Nat) (id : Mid) (v : V) :
    (∃ r, parseF cfg defs env resv k id v = .ok r) ∨
    (∃ i t, parseF cfg defs env resv k id v = .err i t ∧ AllWf (i :: t)) := by
  have h := c04_error_wf_nested cfg defs env resv hp hleaf k id v
  unfold errs at h
  cases hr : parseF cfg defs env resv k id v with
  | ok r => exact Or.inl ⟨r, rfl⟩
  | err i t => rw [hr] at h; exact Or.inr ⟨i, t, rfl, h⟩

/-- hypotheses inhabited, two levels deep: a slice of slices over a failing leaf -/
example : AllWf (errs (parseF {} (fun id => if id = 0 then .node (.slice {} .any 1 []) else if id = 1 then .node (.slice {} .any 2 [.min 1]) else .leaf)
    (fun _ _ => .err (mk .invalidType []) []) (fun _ v => v) 3) 0 (.slice .any (some [.slice .any (some [.nil])]))) := by decide

end Gozod.C04
