/-
  Gozod.Model.Modifiers — nil handling: `internal/engine/modifiers.go:processModifiersCore`,
  the `handled` branches of `ParsePrimitive`/`ParseComplex` (parser.go:23-72, 109-145) and the
  modifier methods (`Optional/Nilable/Nullish/NonOptional/Default/DefaultFunc/Prefault/
  PrefaultFunc`) as each type implements them on `core.ZodTypeInternals` (interfaces.go:160-217).

  Values are abstract here: a default / prefault argument is characterised by whether it
  satisfies the schema's own checks (`valid`), because that is all the nil outcome depends on.
  Two further schema features matter because today's code consults them on the nil path:
  * an *overwrite* check (`Trim`, `Overwrite(f)`): `processModifiersCore` still hands the default value to the
    overwrite checks — and, since 4f7c1d7, to them only (modifiers.go:53-61; before, ALL checks ran on it:
    `legacyNilOutcome`);
  * *refine* checks: before 7db47f1, for Optional/Nilable schemas `filterNilChecks` ran overwrite/refine/custom
    checks on the nil value; whether a refine wrapper accepts nil is fixed when it is attached (string: the
    receiver's type was already `*string`; integer/float/bool: the receiver was already Nilable — types/string.go:414,
    types/integer.go:447). Since 7db47f1 an accepted nil is handed to the overwrite checks only (and, for the Nil type,
    to every nil-capable check): `legacyNilOutcome` keeps the old behaviour for the witnesses.
-/
namespace Gozod.Mods

/-- Modifier (and check-attaching) calls of a derivation history. -/
inductive Op where
  | optional | nilable | nullish | nonOptional
  | dflt (valid : Bool) | dfltFn (valid : Bool)
  | prefault (valid : Bool) | prefaultFn (valid : Bool)
  | overwrite            -- attach an (identity) overwrite check
  | refine               -- attach an always-true refinement
  deriving DecidableEq, Repr

/-- How a type's `Refine` wrapper decides about a nil payload at attachment time. -/
inductive RefineRule where
  | ptrTy        -- string: accepts nil iff the receiver's constraint type is already a pointer
  | nilableFlag  -- integer/float/bool: accepts nil iff the receiver is already Nilable
  deriving DecidableEq, Repr

structure I where
  optional : Bool := false
  nilable : Bool := false
  nonOptional : Bool := false
  dv : Option Bool := none       -- DefaultValue (some valid?)
  df : Option Bool := none       -- DefaultFunc
  pv : Option Bool := none       -- PrefaultValue
  pf : Option Bool := none       -- PrefaultFunc
  hasOverwrite : Bool := false
  refines : List Bool := []      -- per attached refine: does its wrapper accept nil?
  ptrTy : Bool := false          -- constraint type is a pointer (`String().Optional()` is a ZodString[*string])
  typedNilFromOw : Bool := false -- an overwrite attached to a `*string` schema turns the nil payload into a typed
                                 -- nil pointer, which every later refine wrapper rejects (types/string.go:553,414)
  deriving DecidableEq, Repr

def apply (rule : RefineRule) (i : I) : Op → I
  | .optional => { i with optional := true, ptrTy := true }
  | .nilable => { i with nilable := true, ptrTy := true }
  | .nullish => { i with optional := true, nilable := true, ptrTy := true }
  | .nonOptional => { i with optional := false, nonOptional := true, ptrTy := false }
  | .dflt v => { i with dv := some v }
  | .dfltFn v => { i with df := some v }
  | .prefault v => { i with pv := some v }
  | .prefaultFn v => { i with pf := some v }
  | .overwrite => { i with hasOverwrite := true,
                            typedNilFromOw := i.typedNilFromOw || (match rule with | .ptrTy => i.ptrTy | .nilableFlag => false) }
  | .refine => { i with refines := i.refines ++
      [match rule with | .ptrTy => i.ptrTy && !i.typedNilFromOw | .nilableFlag => i.nilable] }

def applyAll (rule : RefineRule) (i : I) (h : List Op) : I := h.foldl (apply rule) i

/-- What `Parse(nil)` / `Parse((*T)(nil))` yields, as a class. -/
inductive Outcome where
  | dflt (fromFunc : Bool)       -- the default value, unchecked (DefaultValue / DefaultFunc)
  | prefaultOk (fromFunc : Bool) -- the prefault value, having passed the full pipeline
  | checkError                   -- issues from the schema's own checks (on a default / prefault value)
  | nonOptional                  -- the "nonoptional" error
  | nil                          -- nil is returned
  | typeError                    -- invalid_type
  | refineError                  -- a refinement reported an issue on the nil value
  deriving DecidableEq, Repr

/-- `processModifiersCore` + the handled branches of `ParsePrimitive`/`ParseComplex`, on a nil
    input, for a schema whose base Go type is not a pointer (`isPtr = false`).
    `admitsNil`: the type code is `unknown` (modifiers.go:89). -/
def nilOutcome (admitsNil : Bool) (i : I) : Outcome :=
  match i.dv, i.df with
  | some _, _ => .dflt false                          -- resolveDefault: DefaultValue first; no validating check runs on it
  | none, some _ => .dflt true
  | none, none =>
    match i.pv, i.pf with
    | some valid, _ => if valid then .prefaultOk false else .checkError
    | none, some valid => if valid then .prefaultOk true else .checkError
    | none, none =>
      if i.nonOptional then .nonOptional
      else if i.optional || i.nilable then .nil             -- an accepted nil: no refinement runs on it (7db47f1)
      else if admitsNil then .nil
      else .typeError

/-- The nil pass before 4f7c1d7 / 7db47f1 (kept for the witnesses `c03_legacy_witness_*`): with an overwrite check
    attached ALL checks ran on the default value, so a default that does not satisfy them was an error; and for
    Optional/Nilable schemas the refinements ran on the nil value (`filterNilChecks`). -/
def legacyNilOutcome (admitsNil : Bool) (i : I) : Outcome :=
  match i.dv, i.df with
  | some valid, _ => if i.hasOverwrite && !valid then .checkError else .dflt false
  | none, some valid => if i.hasOverwrite && !valid then .checkError else .dflt true
  | none, none =>
    match i.pv, i.pf with
    | some valid, _ => if valid then .prefaultOk false else .checkError
    | none, some valid => if valid then .prefaultOk true else .checkError
    | none, none =>
      if i.nonOptional then .nonOptional
      else if i.optional || i.nilable then (if i.refines.all id then .nil else .refineError)
      else if admitsNil then .nil
      else .typeError

/-- Does a check callback of the schema run on the nil path although a default is set? Today: the overwrite checks do
    (`if ow := overwriteChecks(internals.Checks); len(ow) > 0 { ApplyChecks(v, ow, ctx) }`, modifiers.go:56-59) — pinned by
    TestComplex_Overwrite / TestStringBool_Overwrite "default value interaction". -/
def overwriteRunsOnDefault (i : I) : Bool := (i.dv.isSome || i.df.isSome) && i.hasOverwrite

/-! ### The documented meaning, computed from the history alone -/

def isDefaultOp : Op → Bool
  | .dflt _ | .dfltFn _ => true
  | _ => false
def isPrefaultOp : Op → Bool
  | .prefault _ | .prefaultFn _ => true
  | _ => false
def isNonOptionalOp : Op → Bool
  | .nonOptional => true
  | _ => false
def isCheckOp : Op → Bool
  | .overwrite | .refine => true
  | _ => false
def isOptionalOp : Op → Bool
  | .optional | .nilable | .nullish => true
  | _ => false

/-- Last default of each kind in the history. -/
def lastDv : List Op → Option Bool
  | [] => none
  | .dflt v :: r => (lastDv r).orElse fun _ => some v
  | _ :: r => lastDv r
def lastDf : List Op → Option Bool
  | [] => none
  | .dfltFn v :: r => (lastDf r).orElse fun _ => some v
  | _ :: r => lastDf r
def lastPv : List Op → Option Bool
  | [] => none
  | .prefault v :: r => (lastPv r).orElse fun _ => some v
  | _ :: r => lastPv r
def lastPf : List Op → Option Bool
  | [] => none
  | .prefaultFn v :: r => (lastPf r).orElse fun _ => some v
  | _ :: r => lastPf r

/-- The statement's outcome for a nil input after history `h` — as a *set* of admissible
    outcomes when both a value default and a function default (or both prefault kinds) were set:
    the statement does not rank them, so either is accepted (lenient reading, DESIGN §3.6). -/
def specNil (admitsNil : Bool) (h : List Op) (o : Outcome) : Bool :=
  if h.any isDefaultOp then
    (match o with
     | .dflt false => (lastDv h).isSome
     | .dflt true => (lastDf h).isSome
     | _ => false)
  else if h.any isPrefaultOp then
    (match o with
     | .prefaultOk false => lastPv h == some true
     | .prefaultOk true => lastPf h == some true
     | .checkError => lastPv h == some false || lastPf h == some false
     | _ => false)
  else if h.any isNonOptionalOp then o == .nonOptional
  else if h.any isOptionalOp then o == .nil
  else if admitsNil then o == .nil
  else o == .typeError

def allOutcomes : List Outcome :=
  [.dflt false, .dflt true, .prefaultOk false, .prefaultOk true, .checkError, .nonOptional, .nil, .typeError, .refineError]

/-! ### Wrappers: `core/transform.go` — `ZodTransform` and `ZodPipe` around a modified schema

  `S.Transform(f₁)` is `NewZodTransform(S, f₁)`; further `.Transform(fᵢ)` / `.Pipe(T)` calls on the
  result are `ZodTransform.Transform`, `ZodTransform.Pipe`, `ZodPipe.Transform`, `ZodPipe.Pipe`. Every
  constructor stores `source` and a **clone of the source's internals** (transform.go:112,184,199,219),
  and `ZodTransform.Parse` decides its short-circuit by reading `t.source.Internals()` on every call
  (transform.go:45-46). Callbacks are positional sentinels: the wrapper attached as number `i` (counting
  from the base) calls `fᵢ`, which logs its argument and returns the tagged value `fᵢ(arg)`; a pipe
  target logs its argument and returns it unchanged. -/

/-- One wrapper call: `.Transform(f)` or `.Pipe(target)`. -/
inductive W where
  | tf | pipe
  deriving DecidableEq, Repr

/-- The input given to `Parse`. -/
inductive In where
  | nil       -- untyped nil or a nil pointer (`isNilInput`)
  | valid     -- a non-nil value the base schema accepts
  | invalid   -- a non-nil value the base schema rejects
  deriving DecidableEq, Repr

def In.isNil : In → Bool
  | .nil => true
  | _ => false

/-- Values flowing through the wrappers (symbolic: who produced it, which callbacks it went through). -/
inductive V where
  | src (o : Outcome)       -- what the base schema produced on its nil path, as a class (default / prefault / nil)
  | inp                     -- the non-nil input as validated by the base schema
  | app (i : Nat) (v : V)   -- `fᵢ v`
  deriving DecidableEq, Repr

/-- One entry of the callback log. -/
structure Call where
  pipe : Bool     -- pipe target (true) or transform function (false)
  id : Nat
  arg : V
  deriving DecidableEq, Repr

/-- Result of a `Parse`. -/
inductive R where
  | ok (v : V)
  | err (o : Outcome)
  deriving DecidableEq, Repr

/-- The base schema's `Parse(nil)` as a result: `nilOutcome` with the successful classes as values. -/
def baseNil (admitsNil : Bool) (i : I) : R :=
  match nilOutcome admitsNil i with
  | .dflt k => .ok (.src (.dflt k))
  | .prefaultOk k => .ok (.src (.prefaultOk k))
  | .nil => .ok (.src .nil)
  | o => .err o

/-- The base schema's `Parse`. A non-nil input never consults the modifier fields
    (`processModifiersCore` returns "not handled", modifiers.go:48). -/
def parseBase (admitsNil : Bool) (i : I) : In → R
  | .nil => baseNil admitsNil i
  | .valid => .ok .inp
  | .invalid => .err .checkError

/-- `si.DefaultValue != nil || si.DefaultFunc != nil` (transform.go:46, parser.go:45). -/
def hasDefault (i : I) : Bool := i.dv.isSome || i.df.isSome

/-- A wrapped schema as the constructors build it. -/
inductive WS where
  | base (i : I)
  | tf (source : WS) (id : Nat) (internals : I)
  | pipe (source : WS) (id : Nat) (internals : I)
  deriving Repr

def WS.internals : WS → I
  | .base i => i
  | .tf _ _ i => i
  | .pipe _ _ i => i

/-- `NewZodTransform` / `ZodTransform.Transform` / `ZodPipe.Transform`, resp. `NewZodPipe`:
    `internals: source.Internals().Clone()` (`Clone` copies the modifier fields). -/
def WS.attach (s : WS) (id : Nat) : W → WS
  | .tf => .tf s id s.internals
  | .pipe => .pipe s id s.internals

/-- Attach the wrappers `ws` (innermost first) with ids `n, n+1, …`. -/
def WS.wrapFrom (s : WS) (n : Nat) : List W → WS
  | [] => s
  | w :: ws => (s.attach n w).wrapFrom (n + 1) ws

def wrap (i : I) (ws : List W) : WS := (WS.base i).wrapFrom 1 ws

/-- `ZodTransform.Parse` (transform.go:44-70) and `ZodPipe.Parse` (transform.go:135-141): result and
    callback log. -/
def WS.parse (admitsNil : Bool) (inp : In) : WS → R × List Call
  | .base i => (parseBase admitsNil i inp, [])
  | .tf s id _ =>
    if inp.isNil && hasDefault s.internals then
      s.parse admitsNil inp          -- `hasDefault`: return `source.Parse(input)` as it is (`Out` = any: the assertion holds)
    else
      match s.parse admitsNil inp with
      | (.ok v, log) => (.ok (.app id v), log ++ [⟨false, id, v⟩])
      | (.err o, log) => (.err o, log)
  | .pipe s id _ =>
    match s.parse admitsNil inp with
    | (.ok v, log) => (.ok v, log ++ [⟨true, id, v⟩])      -- `targetFn(intermediate)`: the logging target returns its input
    | (.err o, log) => (.err o, log)

/-! ### The documented meaning for wrapped schemas (independent of `WS.parse`) -/

/-- Every wrapper runs exactly once, in attachment order, each on the previous one's output. -/
def runAll (v : V) (n : Nat) : List W → V × List Call
  | [] => (v, [])
  | .tf :: ws => let (r, l) := runAll (.app n v) (n + 1) ws; (r, ⟨false, n, v⟩ :: l)
  | .pipe :: ws => let (r, l) := runAll v (n + 1) ws; (r, ⟨true, n, v⟩ :: l)

/-- What a base result becomes under the wrappers when nothing is short-circuited. -/
def extend (r : R) (n : Nat) (ws : List W) : R × List Call :=
  match r with
  | .ok v => let (r', l) := runAll v n ws; (.ok r', l)
  | .err o => (.err o, [])

/-- A default that short-circuited: the Transform callbacks of the chain are skipped; a Pipe target
    is a second schema that receives whatever its source stage returns (C10: a pipe "hands the first
    schema's result to the second"), so it runs — on the default itself, since nothing changed it. -/
def runPipesOnly (v : V) (n : Nat) : List W → List Call
  | [] => []
  | .tf :: ws => runPipesOnly v (n + 1) ws
  | .pipe :: ws => ⟨true, n, v⟩ :: runPipesOnly v (n + 1) ws

/-- The statement for a nil input, given the class `o` the statement assigns to the bare schema:
    the default is returned as it is and *none of the schema's Transform callbacks runs* (pipe targets
    receive it); every other successful class goes through all wrappers; an error stays that error and
    no callback runs. -/
def specWrapped (o : Outcome) (ws : List W) : R × List Call :=
  match o with
  | .dflt k => (.ok (.src (.dflt k)), runPipesOnly (.src (.dflt k)) 1 ws)
  | .prefaultOk k => extend (.ok (.src (.prefaultOk k))) 1 ws
  | .nil => extend (.ok (.src .nil)) 1 ws
  | o => (.err o, [])

/-- Admissible observations for a nil input after history `h` under wrappers `ws`. -/
def specNilW (admitsNil : Bool) (h : List Op) (ws : List W) (obs : R × List Call) : Bool :=
  allOutcomes.any fun o => specNil admitsNil h o && obs == specWrapped o ws

/-- A non-nil input: as the base schema (without modifiers), then all wrappers. -/
def specValW (valid : Bool) (ws : List W) : R × List Call :=
  extend (if valid then .ok .inp else .err .checkError) 1 ws

/-! ### The parse context as explicit state: histories of *parses* through one `*core.ParseContext`

  Every entry point takes `ctx ...*core.ParseContext`; `getOrCreateContext` (core/parsing.go:32) uses the caller's
  context when one is given and a new `&ParseContext{}` otherwise, and containers hand their one context to every
  child (`schema.ParseAny(arr[i], ctx)`: types/tuple.go `validateTupleForEngine`, types/object.go `validateField`,
  types/array.go `validateElement`). So a context lives through a *sequence* of nil parses — of different schemas —
  and whatever a parse leaves on it is seen by the next. The statement of C03 makes the nil outcome a function of
  the modifier history and the input; it therefore must not depend on what the context has been through. -/

/-- `core.ParseContext` (core/parsing.go:10-14). -/
structure Ctx where
  errMap : Bool := false             -- `Error != nil` (custom message generator)
  reportInput : Bool := false
  isPrefaultContext : Bool := false  -- exported, documented "whether parsing a prefault value"
  deriving DecidableEq, Repr

/-- What a nil parse needs to know of a schema: its type's nil admission and its modifier internals. -/
structure Sch where
  admitsNil : Bool
  i : I
  deriving DecidableEq, Repr

/-- What `processModifiersCore` returns (`(value, handled, err)`, modifiers.go:42-91). -/
inductive PM where
  | notHandled                              -- `nil, false, nil`: a non-nil input
  | prefault (fromFunc : Bool) (valid : Bool)  -- `prefault, false, nil`: the caller parses it as the new input
  | handled (r : R)                         -- `…, true, …`
  deriving DecidableEq, Repr

/-- `processModifiersCore(input, internals, expectedType, ctx)` with the context threaded explicitly. The code
    as it is hands `ctx` on to `ApplyChecks`, `CreateNonOptionalError`, `CreateInvalidTypeError` (which read
    `ctx.Error` / `ctx.ReportInput` for the message and the attached input, never for the verdict or the code) and
    writes no field of it; `IsPrefaultContext` is never read. Branch order as in the source. -/
def processModifiersCtx (c : Ctx) (s : Sch) (inp : In) : Ctx × PM :=
  if !inp.isNil then (c, .notHandled) else
  match s.i.dv, s.i.df with
  | some _, _ => (c, .handled (.ok (.src (.dflt false))))
  | none, some _ => (c, .handled (.ok (.src (.dflt true))))
  | none, none =>
    match s.i.pv, s.i.pf with
    | some valid, _ => (c, .prefault false valid)
    | none, some valid => (c, .prefault true valid)
    | none, none =>
      if s.i.nonOptional then (c, .handled (.err .nonOptional))
      else if s.i.optional || s.i.nilable then (c, .handled (.ok (.src .nil)))
      else if s.admitsNil then (c, .handled (.ok (.src .nil)))
      else (c, .handled (.err .typeError))

/-- One parse through a context — `ParsePrimitive` / `ParseComplex` (parser.go:23-72, 109-145): `pc :=
    getOrCreateContext(ctx...)`, `processModifiers(…, pc)`, a prefault becomes the new input of
    `parsePrimitiveValue(…, pc)` under the same context. Returns the context as the parse leaves it. -/
def ctxStep (c : Ctx) (s : Sch) (inp : In) : Ctx × R :=
  match processModifiersCtx c s inp with
  | (c', .handled r) => (c', r)
  | (c', .prefault k valid) => (c', if valid then .ok (.src (.prefaultOk k)) else .err .checkError)
  | (c', .notHandled) => (c', match inp with | .invalid => .err .checkError | _ => .ok .inp)

/-- A sequence of parses through one context (a caller reusing its context; the children of one container). -/
def runSeq (stp : Ctx → Sch → In → Ctx × R) (c : Ctx) : List (Sch × In) → Ctx × List R
  | [] => (c, [])
  | (s, inp) :: ps =>
    let (c1, r) := stp c s inp
    let (c2, rs) := runSeq stp c1 ps
    (c2, r :: rs)

/-- A ctxStep function of the kind C03 forbids, kept as a foil for `c03_ctx_history` (it is NOT the code): the
    prefault is parsed inside the modifier pass under a flag on the context that is restored only when that parse
    succeeds, and a set flag suppresses prefault resolution. -/
def stepLeaky (c : Ctx) (s : Sch) (inp : In) : Ctx × R :=
  if !inp.isNil then (c, match inp with | .invalid => .err .checkError | _ => .ok .inp) else
  let noPre : Sch := { s with i := { s.i with pv := none, pf := none } }
  if c.isPrefaultContext then ctxStep c noPre inp else
  match (ctxStep c s inp).2, s.i.dv, s.i.df, s.i.pv, s.i.pf with
  | .err .checkError, none, none, some _, _ => ({ c with isPrefaultContext := true }, .err .checkError)
  | .err .checkError, none, none, none, some _ => ({ c with isPrefaultContext := true }, .err .checkError)
  | r, _, _, _, _ => (c, r)

/-- The documented outcome of one parse of a sequence, from that parse's own history and input alone. -/
def specStep (admitsNil : Bool) (h : List Op) (inp : In) (r : R) : Bool :=
  match inp, r with
  | .valid, .ok .inp => true
  | .invalid, .err .checkError => true
  | .nil, .ok (.src o) => (match o with | .dflt _ | .prefaultOk _ | .nil => specNil admitsNil h o | _ => false)
  | .nil, .err o => (match o with | .dflt _ | .prefaultOk _ | .nil => false | _ => specNil admitsNil h o)
  | _, _ => false

/-! ### The last clause: a non-nil input is validated exactly as by the schema without the modifiers

  A schema type keeps, beside the embedded `core.ZodTypeInternals` (modifier state, checks), its own configuration
  (`ZodRecordInternals{KeyType, ValueType, Loose}`, `ZodStructInternals{Shape, IsPartial, PartialExceptions}`,
  `ZodObjectInternals{Shape, Catchall, UnknownKeys, IsPartial, …}`, …). Every modifier method clones the embedded part
  and builds a NEW type-local internals struct around it; the value parser a non-nil input reaches reads that
  configuration. `Cfg` is that configuration (any type), `validate` the type's value parser (any function of the
  configuration and the input): the frame statement is about the modifier methods and the nil pass, whatever the parser. -/

/-- Rows of the harness table by what their modifier methods did with the type's own configuration before
    66ed2d6 / ef151cb (kept so that the regenerated table `Gen.C03Tables.cfgDrops` is compared row by row). -/
inductive Kind where
  | plain      -- every modifier method carries every configuration field
  | record     -- before 66ed2d6 `ZodRecord.NonOptional` rebuilt the internals with `Def` and `ValueType` only
  | structp    -- before ef151cb `ZodStruct.NonOptional` rebuilt them with `Def` and `Shape` only
  deriving DecidableEq, Repr

/-- Does the method for `op` on a schema of this kind rebuild the type's internals WITHOUT its configuration?
    The code as it is: never (tied to the code by `c03_cfg_drops_as_modelled` over the regenerated table). -/
def dropsCfg : Kind → Op → Bool := fun _ _ => false

/-- The table before the two fixes (for the witnesses `c03_legacy_frame_witness_*`). -/
def legacyDropsCfg : Kind → Op → Bool
  | .record, .nonOptional => true
  | .structp, .nonOptional => true
  | _, _ => false

/-- A schema with its type-local configuration. -/
structure SchC (Cfg : Type) where
  cfg : Cfg
  admitsNil : Bool
  i : I

/-- A modifier method: the embedded internals as `apply`, the configuration copied field by field — or left at its
    zero value where the method's composite literal omits it. -/
def applyC {Cfg : Type} (drops : Kind → Op → Bool) (k : Kind) (rule : RefineRule) (zero : Cfg) (s : SchC Cfg) (op : Op) : SchC Cfg :=
  { s with cfg := if drops k op then zero else s.cfg, i := apply rule s.i op }

def applyAllC {Cfg : Type} (drops : Kind → Op → Bool) (k : Kind) (rule : RefineRule) (zero : Cfg) (s : SchC Cfg) (h : List Op) : SchC Cfg :=
  h.foldl (applyC drops k rule zero) s

/-- Result of a parse with the value parser's answer kept. -/
inductive RX (Y : Type) where
  | nilPath (r : R)      -- decided by the modifier pass (`handled`, or the prefault): what `ctxStep` yields
  | accepted (y : Y)     -- the value parser's result for a non-nil input
  | rejected             -- the value parser's issues
  deriving DecidableEq, Repr

/-- One `ParsePrimitive`/`ParseComplex` call with the type's value parser explicit: `none` = a nil input (untyped or
    a nil pointer), `some x` = a non-nil input. `processModifiersCtx` is asked first, as in the code
    (parser.go:33, 120); `.valid` stands for "some non-nil input" there — it reads nothing but `isNil`. -/
def ctxStepX {Cfg X Y : Type} (validate : Cfg → X → Option Y) (c : Ctx) (s : SchC Cfg) : Option X → Ctx × RX Y
  | none => ((ctxStep c ⟨s.admitsNil, s.i⟩ .nil).1, .nilPath (ctxStep c ⟨s.admitsNil, s.i⟩ .nil).2)
  | some x =>
    match processModifiersCtx c ⟨s.admitsNil, s.i⟩ .valid with
    | (c', .notHandled) => (c', match validate s.cfg x with | some y => .accepted y | none => .rejected)
    | (c', .prefault k valid) => (c', .nilPath (if valid then .ok (.src (.prefaultOk k)) else .err .checkError))
    | (c', .handled r) => (c', .nilPath r)

/-! ### Structure fingerprints: what the transcriptions above depend on, as the translator extracts it from the
    sources (`harness/cmd/c03 gen` → `Gozod/Gen/C03Tables.lean`; compared in `Proofs/C03.lean`) -/

/-- The fields `Ctx` mirrors (core/parsing.go `type ParseContext struct`). -/
def ctxFieldsExpected : List String := ["Error", "ReportInput", "IsPrefaultContext"]

/-- `processModifiersCore`'s top-level statements in source order — the branch order `nilOutcome` /
    `processModifiersCtx` transcribe (Default > Prefault > NonOptional > Optional/Nilable/pointer > unknown > type error). -/
def pmcBranchesExpected : List String := [
  "if !isNilInput(input)",
  "if v := resolveDefault(internals); v != nil",
  "if internals.PrefaultValue != nil",
  "if internals.PrefaultFunc != nil",
  "isPtr := reflect.TypeFor[T]().Kind() == reflect.Pointer",
  "if internals.NonOptional && !isPtr",
  "if internals.Optional || internals.Nilable || isPtr",
  "if expectedType == core.ZodTypeUnknown",
  -- since /repo 6d3c407 the schema is handed on so that its own message is consulted (the error class is unchanged)
  "return nil, true, issues.CreateInvalidTypeErrorWithInst(expectedType, input, ctx, internals)"]

/-- `processModifiersCore`'s FIRST statement in full (round 4c, audit A M10): the non-nil branch. `ctxStepX` /
    `processModifiersCtx` answer a non-nil input without reading the modifier state (`processModifiers_nonNil` is
    `rfl`) — that is the code's structure only if the real first statement is this one: its condition mentions the
    input alone, its body is the bare "not handled" return, it has no else. -/
def pmcFirstCondExpected : String := "!isNilInput(input)"
def pmcFirstBodyExpected : List String := ["return nil, false, nil"]

/-- Identifiers through which the non-nil branch (or `isNilInput`) could reach the modifier state or the context. -/
def stateIdent (i : String) : Bool := i == "internals" || i == "ctx" || i == "expectedType"

/-- Where internal/engine may read a modifier field (`Optional`, `Nilable`, `NonOptional`, `ExactOptional`,
    `DefaultValue/Func`, `PrefaultValue/Func`, or through `IsOptional()` …): in `processModifiersCore` after the
    non-nil return; under a conjunct `isNilInput(input)`; in `resolveDefault` (called by `processModifiersCore` only:
    `resolveDefaultCallers`); in `MergeInternalsState` (builds a schema, parses nothing); and ONE listed read on a
    non-nil path — `ParsePrimitiveStrict`'s fast-path test `!isNilInput(input) && no checks && no transform && no
    modifier`, which only selects between returning the input at once and the general path (which, for a schema without
    checks and transform, returns the input too: decided by the run, StrictParse steps). -/
def modifierReadAllowed (file fn _field guard : String) : Bool :=
  guard == "pmc-after-nonnil-return" || guard == "nil-guarded" ||
  (file == "internal/engine/modifiers.go" && fn == "resolveDefault") ||
  (file == "internal/engine/types.go" && fn == "MergeInternalsState") ||
  (file == "internal/engine/parser.go" && fn == "ParsePrimitiveStrict" && guard == "nonnil-guarded")

/-- `processModifiers` and `processModifiersStrict` are that one call and nothing else (no state kept around it). -/
def processModifiersBodyExpected : String := "return processModifiersCore[T](input, internals, expectedType, ctx)"

/-- Where the library may name a ParseContext state field: the constructors of *new* contexts in core/context.go
    (they copy `ReportInput` into the context they return) and `FinalizeIssue`, which reads `ReportInput` to decide
    whether the raw input is attached to the finished issue. No verdict, code or value depends on either. -/
def ctxSiteAllowed (file fn field kind : String) : Bool :=
  field == "ReportInput" &&
  ((file == "core/context.go" && (kind == "init" || kind == "read")) ||
   (file == "internal/issues/finalize.go" && fn == "FinalizeIssue" && kind == "read"))

/-- Row kinds and modifier calls by the names the harness table / the regenerated table use. -/
def kindOfName : String → Kind
  | "record" => .record
  | "structp" => .structp
  | _ => .plain

def modOpOfName : String → Option Op
  | "Optional" => some .optional | "Nilable" => some .nilable | "Nullish" => some .nullish
  | "NonOptional" => some .nonOptional
  | "Default:v" => some (.dflt true) | "Default:i" => some (.dflt false)
  | "DefaultFunc:v" => some (.dfltFn true) | "DefaultFunc:i" => some (.dfltFn false)
  | "Prefault:v" => some (.prefault true) | "Prefault:i" => some (.prefault false)
  | "PrefaultFunc:v" => some (.prefaultFn true) | "PrefaultFunc:i" => some (.prefaultFn false)
  | _ => none

/-- `dropsCfg` by names: does the model say that calling `op` on a row of this kind loses configuration? -/
def cfgDropModelled (kind op : String) : Bool :=
  match modOpOfName op with
  | some o => dropsCfg (kindOfName kind) o
  | none => false

end Gozod.Mods
