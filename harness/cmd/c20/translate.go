package main

// Translator: a Go regular expression (as compiled by pkg/regex: regexp.MustCompile = Perl flags
// + Simplify) to a Lean `Re` term over bytes (lean/Gozod/Model/Regex.lean).
//
// The pattern must be anchored on both sides in every alternative (then MatchString is a full
// match), use only ASCII positive classes and literals, and no other zero-width assertions.
// Anything else is an error: the tie is broken and the check says so.

import (
	"fmt"
	"regexp/syntax"
	"sort"
	"strings"
)

// node is the intermediate form: kinds cls, eps, seq, alt, star (binary seq/alt are n-ary here).
type node struct {
	kind string // "cls" "eps" "seq" "alt" "star"
	rs   [][2]int
	sub  []*node
}

func (n *node) size() int {
	s := 1
	for _, c := range n.sub {
		s += c.size()
	}
	return s
}

// key is a canonical text of the node (also its Lean text without sharing).
func (n *node) key() string {
	switch n.kind {
	case "cls":
		p := make([]string, len(n.rs))
		for i, r := range n.rs {
			p[i] = fmt.Sprintf("(%d,%d)", r[0], r[1])
		}
		return "(.cls [" + strings.Join(p, ",") + "])"
	case "eps":
		return ".eps"
	case "star":
		return "(.star " + n.sub[0].key() + ")"
	default:
		p := make([]string, len(n.sub))
		for i, c := range n.sub {
			p[i] = c.key()
		}
		f := "seqs"
		if n.kind == "alt" {
			f = "altsOf"
		}
		return "(" + f + " [" + strings.Join(p, ", ") + "])"
	}
}

func parsePattern(src string) (*node, error) {
	re, err := syntax.Parse(src, syntax.Perl)
	if err != nil {
		return nil, err
	}
	re = re.Simplify()
	re, err = stripBegin(re)
	if err != nil {
		return nil, fmt.Errorf("pattern %q: %v", src, err)
	}
	re, err = stripEnd(re)
	if err != nil {
		return nil, fmt.Errorf("pattern %q: %v", src, err)
	}
	return conv(re, src)
}

var epsRe = &syntax.Regexp{Op: syntax.OpEmptyMatch}

// stripBegin removes the leading ^ of every alternative; error if some alternative has none.
func stripBegin(re *syntax.Regexp) (*syntax.Regexp, error) {
	switch re.Op {
	case syntax.OpBeginText:
		return epsRe, nil
	case syntax.OpCapture:
		return stripBegin(re.Sub[0])
	case syntax.OpConcat:
		if len(re.Sub) == 0 {
			break
		}
		h, err := stripBegin(re.Sub[0])
		if err != nil {
			return nil, err
		}
		c := *re
		c.Sub = append([]*syntax.Regexp{h}, re.Sub[1:]...)
		return &c, nil
	case syntax.OpAlternate:
		c := *re
		c.Sub = nil
		for _, s := range re.Sub {
			t, err := stripBegin(s)
			if err != nil {
				return nil, err
			}
			c.Sub = append(c.Sub, t)
		}
		return &c, nil
	}
	return nil, fmt.Errorf("not anchored at the start (%s)", re.String())
}

func stripEnd(re *syntax.Regexp) (*syntax.Regexp, error) {
	switch re.Op {
	case syntax.OpEndText:
		return epsRe, nil
	case syntax.OpCapture:
		return stripEnd(re.Sub[0])
	case syntax.OpConcat:
		if len(re.Sub) == 0 {
			break
		}
		l, err := stripEnd(re.Sub[len(re.Sub)-1])
		if err != nil {
			return nil, err
		}
		c := *re
		c.Sub = append(append([]*syntax.Regexp{}, re.Sub[:len(re.Sub)-1]...), l)
		return &c, nil
	case syntax.OpAlternate:
		c := *re
		c.Sub = nil
		for _, s := range re.Sub {
			t, err := stripEnd(s)
			if err != nil {
				return nil, err
			}
			c.Sub = append(c.Sub, t)
		}
		return &c, nil
	}
	return nil, fmt.Errorf("not anchored at the end (%s)", re.String())
}

func byteCls(lo, hi int) *node { return &node{kind: "cls", rs: [][2]int{{lo, hi}}} }

func conv(re *syntax.Regexp, src string) (*node, error) {
	bad := func(what string) (*node, error) {
		return nil, fmt.Errorf("pattern %q: unsupported %s (%s)", src, what, re.String())
	}
	switch re.Op {
	case syntax.OpEmptyMatch:
		return &node{kind: "eps"}, nil
	case syntax.OpNoMatch:
		return &node{kind: "cls"}, nil
	case syntax.OpLiteral:
		if re.Flags&syntax.FoldCase != 0 {
			return bad("case folding")
		}
		var subs []*node
		for _, r := range re.Rune {
			if r >= 0x80 {
				return bad("non-ASCII literal")
			}
			subs = append(subs, byteCls(int(r), int(r)))
		}
		if len(subs) == 1 {
			return subs[0], nil
		}
		return &node{kind: "seq", sub: subs}, nil
	case syntax.OpCharClass:
		n := &node{kind: "cls"}
		for i := 0; i+1 < len(re.Rune); i += 2 {
			lo, hi := int(re.Rune[i]), int(re.Rune[i+1])
			if hi >= 0x80 {
				return bad("non-ASCII class")
			}
			n.rs = append(n.rs, [2]int{lo, hi})
		}
		sort.Slice(n.rs, func(i, j int) bool { return n.rs[i][0] < n.rs[j][0] })
		return n, nil
	case syntax.OpCapture:
		return conv(re.Sub[0], src)
	case syntax.OpStar, syntax.OpPlus, syntax.OpQuest:
		if re.Flags&syntax.NonGreedy != 0 {
			// greediness does not change the language
		}
		s, err := conv(re.Sub[0], src)
		if err != nil {
			return nil, err
		}
		switch re.Op {
		case syntax.OpStar:
			return &node{kind: "star", sub: []*node{s}}, nil
		case syntax.OpPlus:
			return &node{kind: "seq", sub: []*node{s, {kind: "star", sub: []*node{s}}}}, nil
		default:
			return &node{kind: "alt", sub: []*node{s, {kind: "eps"}}}, nil
		}
	case syntax.OpConcat, syntax.OpAlternate:
		k := "seq"
		if re.Op == syntax.OpAlternate {
			k = "alt"
		}
		n := &node{kind: k}
		for _, s := range re.Sub {
			c, err := conv(s, src)
			if err != nil {
				return nil, err
			}
			if k == "seq" && c.kind == "eps" {
				continue
			}
			if c.kind == k { // flatten
				n.sub = append(n.sub, c.sub...)
			} else {
				n.sub = append(n.sub, c)
			}
		}
		if len(n.sub) == 0 {
			if k == "seq" {
				return &node{kind: "eps"}, nil
			}
			return &node{kind: "cls"}, nil
		}
		if len(n.sub) == 1 {
			return n.sub[0], nil
		}
		return n, nil
	case syntax.OpRepeat:
		return bad("repeat left after Simplify")
	case syntax.OpBeginText, syntax.OpEndText, syntax.OpBeginLine, syntax.OpEndLine, syntax.OpWordBoundary, syntax.OpNoWordBoundary:
		return bad("zero-width assertion inside the pattern")
	case syntax.OpAnyChar, syntax.OpAnyCharNotNL:
		return bad("any-char")
	}
	return bad("operator")
}

// leanWriter prints nodes as Lean definitions with sharing of repeated subterms.
type leanWriter struct {
	names map[string]string
	defs  []string
}

func newLeanWriter() *leanWriter { return &leanWriter{names: map[string]string{}} }

// term returns a Lean expression for n, introducing `s<k>` definitions for big subterms.
func (w *leanWriter) term(n *node) string {
	switch n.kind {
	case "cls", "eps":
		return n.key()
	}
	k := n.key()
	if name, ok := w.names[k]; ok {
		return name
	}
	var body string
	if n.kind == "star" {
		body = "(.star " + w.term(n.sub[0]) + ")"
	} else {
		p := make([]string, len(n.sub))
		for i, c := range n.sub {
			p[i] = w.term(c)
		}
		f := "seqs"
		if n.kind == "alt" {
			f = "altsOf"
		}
		body = "(" + f + " [" + strings.Join(p, ", ") + "])"
	}
	if n.size() < 6 {
		return body
	}
	name := fmt.Sprintf("s%d", len(w.defs)+1)
	w.names[k] = name
	w.defs = append(w.defs, fmt.Sprintf("def %s : Re := %s", name, body))
	return name
}
