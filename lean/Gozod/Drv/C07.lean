/-
  Line handlers for C07 (see harness/cmd/c07/ast.go for the grammar).
    doc  <S>       → "<wf> <canonical JSON of toDoc s>"
    inst <S> <J>   → "<P> <VR> <VI>"   P = accepts, VR = jsValid (toDoc s) (out s x) ("-" if ¬P), VI = jsValid (toDoc s) x
-/
import Gozod.Model.JsonSchema
import Gozod.Model.JsonSchemaLazy
import Gozod.Model.JsonSchemaRec
import Gozod.Model.JsonSchemaRefs
import Gozod.Gen.ToJsonCases
namespace Gozod.Drv.C07
open Gozod.Jsc

/-! ### decoding -/

def decStr (t : String) : Option Str :=
  if t.startsWith "s:" then
    let body := (t.drop 2).toString
    if body.isEmpty then some [] else (body.splitOn ".").mapM (fun p => p.toNat?)
  else none

abbrev P (α : Type) := List String → Option (α × List String)

def pNat : P Nat
  | t :: ts => t.toNat?.map (·, ts)
  | [] => none

def pInt : P Int
  | t :: ts => t.toInt?.map (·, ts)
  | [] => none

def expect (tok : String) : P Unit
  | t :: ts => if t == tok then some ((), ts) else none
  | [] => none

partial def pMany {α} (p : P α) (ts : List String) : Option (List α × List String) :=
  match ts with
  | ")" :: rest => some ([], rest)
  | _ => do
    let (a, ts) ← p ts
    let (as, ts) ← pMany p ts
    pure (a :: as, ts)

def pStrCk : P StrCk
  | "lower" :: ts => some (.lower, ts)
  | "upper" :: ts => some (.upper, ts)
  | "trim" :: ts => some (.trim, ts)
  | "(" :: op :: v :: ")" :: ts =>
    match op with
    | "min" => v.toNat?.map (fun n => (.min n, ts))
    | "max" => v.toNat?.map (fun n => (.max n, ts))
    | "len" => v.toNat?.map (fun n => (.len n, ts))
    | "sw" => (decStr v).map (fun s => (.sw s, ts))
    | "ew" => (decStr v).map (fun s => (.ew s, ts))
    | "inc" => (decStr v).map (fun s => (.inc s, ts))
    | "re" => (match v with
        | "lw" => some Rx.lw | "dg" => some Rx.dg | "hd" => some Rx.hd | "ab" => some Rx.ab | "nx" => some Rx.nx
        | _ => none).map (fun r => (.re r, ts))
    | _ => none
  | _ => none

def pNumCk : P NumCk
  | "(" :: op :: v :: ")" :: ts =>
    match op, v.toInt? with
    | "gt", some n => some (.gt n, ts)
    | "gte", some n => some (.gte n, ts)
    | "lt", some n => some (.lt n, ts)
    | "lte", some n => some (.lte n, ts)
    | "mul", some n => some (.mul n, ts)
    | _, _ => none
  | _ => none

def pSzCk : P SzCk
  | "(" :: op :: v :: ")" :: ts =>
    match op, v.toNat? with
    | "min", some n => some (.min n, ts)
    | "max", some n => some (.max n, ts)
    | "len", some n => some (.len n, ts)
    | _, _ => none
  | _ => none

def pKind : String → Option IntKind
  | "int" => some .int | "i8" => some .i8 | "i16" => some .i16 | "i32" => some .i32 | "i64" => some .i64
  | "uint" => some .uint | "u8" => some .u8 | "u16" => some .u16 | "u32" => some .u32 | "u64" => some .u64
  | _ => none

def pMode : String → Option Mode
  | "strip" => some .strip | "strict" => some .strict | "loose" => some .loose | _ => none

def pPrim : P Prim
  | "n" :: ts => some (.null, ts)
  | "t" :: ts => some (.bool true, ts)
  | "f" :: ts => some (.bool false, ts)
  | t :: ts =>
    if t.startsWith "q" then (t.drop 1).toString.toInt?.map (fun q => (.num q, ts))
    else (decStr t).map (fun s => (.str s, ts))
  | [] => none

def slistOf : List S → SList
  | [] => .nil
  | s :: ss => .cons s (slistOf ss)

def shapeOf : List (Str × S) → Shape
  | [] => .nil
  | (k, s) :: r => .cons k s (shapeOf r)

mutual
partial def pS : P S
  | "bool" :: ts => some (.bool, ts)
  | "nil" :: ts => some (.nil, ts)
  | "any" :: ts => some (.any, ts)
  | "never" :: ts => some (.never, ts)
  | "(" :: "str" :: ts => do let (cs, ts) ← pMany pStrCk ts; pure (.str cs, ts)
  | "(" :: "int" :: k :: ts => do
      let k ← pKind k
      let (cs, ts) ← pMany pNumCk ts
      pure (.int k cs, ts)
  | "(" :: "flt" :: ts => do let (cs, ts) ← pMany pNumCk ts; pure (.flt cs, ts)
  | "(" :: "enum" :: ts => do
      let (vs, ts) ← pMany (fun ts => match ts with | t :: ts => (decStr t).map (·, ts) | [] => none) ts
      pure (.enum vs, ts)
  | "(" :: "lit" :: ts => do let (vs, ts) ← pMany pPrim ts; pure (.lit vs, ts)
  | "(" :: "opt" :: ts => do let (s, ts) ← pS ts; let (_, ts) ← expect ")" ts; pure (.opt s, ts)
  | "(" :: "nul" :: ts => do let (s, ts) ← pS ts; let (_, ts) ← expect ")" ts; pure (.nul s, ts)
  -- a registry ID does not change what the schema accepts or (after inlining the `$ref`) what its document says
  | "(" :: "id" :: _ :: ts => do let (s, ts) ← pS ts; let (_, ts) ← expect ")" ts; pure (s, ts)
  | "(" :: "obj" :: m :: ts => do
      let m ← pMode m
      let (ca, ts) ← pSOpt ts
      let (part, ts) ← (match ts with | "p" :: ts => some (true, ts) | "P" :: ts => some (true, ts) | "-" :: ts => some (false, ts) | _ => none)
      let (_, ts) ← expect "(" ts
      let (_, ts) ← expect "cks" ts
      let (cs, ts) ← pMany pSzCk ts
      let (fs, ts) ← pMany pField ts
      pure (.obj m ca part cs (shapeOf fs), ts)
  | "(" :: "slice" :: ts => do
      let (e, ts) ← pS ts
      let (cs, ts) ← pMany pSzCk ts
      pure (.slice e cs, ts)
  | "(" :: "arr" :: ts => do
      let (rest, cs, items, ts) ← pSeq ts
      pure (.arr rest cs (slistOf items), ts)
  | "(" :: "tup" :: ts => do
      let (rest, cs, items, ts) ← pSeq ts
      pure (.tup rest cs (slistOf items), ts)
  | "(" :: "rec" :: ts => do
      let (k, ts) ← pS ts
      let (v, ts) ← pS ts
      let (cs, ts) ← pMany pSzCk ts
      pure (.record k v cs, ts)
  | "(" :: "union" :: ts => do let (ms, ts) ← pMany pS ts; pure (.union (slistOf ms), ts)
  | "(" :: "xor" :: ts => do let (ms, ts) ← pMany pS ts; pure (.xor (slistOf ms), ts)
  | "(" :: "and" :: ts => do
      let (l, ts) ← pS ts
      let (r, ts) ← pS ts
      let (_, ts) ← expect ")" ts
      pure (.and l r, ts)
  | _ => none

partial def pSOpt : P SOpt
  | "-" :: ts => some (.none, ts)
  | ts => do let (s, ts) ← pS ts; pure (.some s, ts)

partial def pField : P (Str × S)
  | "(" :: k :: ts => do
      let k ← decStr k
      let (s, ts) ← pS ts
      let (_, ts) ← expect ")" ts
      pure ((k, s), ts)
  | _ => none

partial def pSeq (ts : List String) : Option (SOpt × List SzCk × List S × List String) := do
  let (rest, ts) ← pSOpt ts
  let (_, ts) ← expect "(" ts
  let (_, ts) ← expect "cks" ts
  let (cs, ts) ← pMany pSzCk ts
  let (items, ts) ← pMany pS ts
  pure (rest, cs, items, ts)
end

mutual
partial def pJ : P Json
  | "n" :: ts => some (.null, ts)
  | "t" :: ts => some (.bool true, ts)
  | "f" :: ts => some (.bool false, ts)
  | "(" :: "a" :: ts => do let (xs, ts) ← pMany pJ ts; pure (.arr (JsonList.ofList xs), ts)
  | "(" :: "o" :: ts => do let (fs, ts) ← pMany pJField ts; pure (.obj (JsonFields.ofList fs), ts)
  | t :: ts =>
    if t.startsWith "q" then (t.drop 1).toString.toInt?.map (fun q => (.num q, ts))
    else (decStr t).map (fun s => (.str s, ts))
  | [] => none

partial def pJField : P (Str × Json)
  | "(" :: k :: ts => do
      let k ← decStr k
      let (v, ts) ← pJ ts
      let (_, ts) ← expect ")" ts
      pure ((k, v), ts)
  | _ => none
end

/-- `( part STR* )` = Partial(keys…), `( req STR* )` = Required(keys…) -/
def pObjOp : P ObjOp
  | "(" :: "part" :: ts => do
      let (ks, ts) ← pMany (fun ts => match ts with | t :: ts => (decStr t).map (·, ts) | [] => none) ts
      pure (.part ks, ts)
  | "(" :: "req" :: ts => do
      let (ks, ts) ← pMany (fun ts => match ts with | t :: ts => (decStr t).map (·, ts) | [] => none) ts
      pure (.req ks, ts)
  | _ => none

/-- `( objF MODE CATCH ( ops OP* ) ( cks SZ* ) ( STR S )* )`: an object with a Partial / Required call history. -/
def pObjF (ts : List String) : Option (X × List String) := do
  let (m, ts) ← (match ts with | m :: ts => (pMode m).map (·, ts) | [] => none)
  let (ca, ts) ← pSOpt ts
  let (_, ts) ← expect "(" ts
  let (_, ts) ← expect "ops" ts
  let (ops, ts) ← pMany pObjOp ts
  let (_, ts) ← expect "(" ts
  let (_, ts) ← expect "cks" ts
  let (cs, ts) ← pMany pSzCk ts
  let (fs, ts) ← pMany pField ts
  pure (.objF m ca ops cs (shapeOf fs), ts)

def pMapOf (ts : List String) : Option (X × List String) := do
  let (kcs, ts) ← pMany pStrCk ts
  let (v, ts) ← pS ts
  let (cs, ts) ← pMany pSzCk ts
  pure (.mapOf kcs v cs, ts)

/-- `( lazy FLAGS X )` with FLAGS ∈ {--, o-, -n, on} (Optional / Nilable applied to the lazy schema), else a base schema. -/
partial def pX : P X
  | "(" :: "lazy" :: fl :: ts => do
      let (o, n) ← (match fl with
        | "--" => some (false, false) | "o-" => some (true, false) | "-n" => some (false, true) | "on" => some (true, true)
        | _ => none)
      let (x, ts) ← pX ts
      let (_, ts) ← expect ")" ts
      pure (.lazy o n x, ts)
  | "(" :: "objF" :: ts => pObjF ts
  -- `( mapF ( str CK* ) S SZ* )` = Map(String()<CK*>, S)<SZ*>
  | "(" :: "mapF" :: "(" :: "str" :: ts => pMapOf ts
  | ts => do let (s, ts) ← pS ts; pure (.base s, ts)

/-! ### rendering the model's document as canonical JSON (sorted keys, exact numbers) -/

def hex4 (n : Nat) : String :=
  let d := fun (k : Nat) => String.ofList (Nat.toDigits 16 k)
  let s := d n
  "".pushn '0' (4 - s.length) ++ s

def quote (s : Str) : String :=
  let body := s.foldl (fun acc c =>
    if c == 34 then acc ++ "\\\""
    else if c == 92 then acc ++ "\\\\"
    else if c == 10 then acc ++ "\\n"
    else if c == 13 then acc ++ "\\r"
    else if c == 9 then acc ++ "\\t"
    else if c < 32 then acc ++ "\\u" ++ hex4 c
    else acc.push (Char.ofNat c)) ""
  "\"" ++ body ++ "\""

/-- quarters → integer or reduced fraction (`big.Rat` text). -/
def qText (q : Int) : String :=
  if q % 4 == 0 then toString (q / 4)
  else if q % 2 == 0 then toString (q / 2) ++ "/2"
  else toString q ++ "/4"

def metaChars : List Nat := "\\.+*?()|[]{}^$".toList.map Char.toNat

def quoteMeta (s : Str) : Str := s.foldr (fun c acc => if metaChars.contains c then 92 :: c :: acc else c :: acc) []

def lit (s : String) : Str := s.toList.map Char.toNat

def patRegex : Pat → Str
  | .pre s => lit "^" ++ quoteMeta s ++ lit ".*"
  | .suf s => lit ".*" ++ quoteMeta s ++ lit "$"
  | .has s => quoteMeta s
  | .noUp => lit "^[^A-Z]*$"
  | .noLow => lit "^[^a-z]*$"
  | .rx .lw => lit "^[a-z]+$"
  | .rx .dg => lit "^[0-9]*$"
  | .rx .hd => lit "[0-9]"
  | .rx .ab => lit "^(a|b)"
  | .rx .nx => lit "^[^x]*$"

def primText : Prim → String
  | .null => "null"
  | .bool b => if b then "true" else "false"
  | .num q => qText q
  | .str s => quote s

def typeText : TypeName → String
  | .string => "string" | .integer => "integer" | .number => "number" | .boolean => "boolean"
  | .null => "null" | .object => "object" | .array => "array"

def insertBy {α} (lt : α → α → Bool) (x : α) : List α → List α
  | [] => [x]
  | y :: ys => if lt y x then y :: insertBy lt x ys else x :: y :: ys

def sortBy {α} (lt : α → α → Bool) (xs : List α) : List α := xs.foldr (insertBy lt) []

def jarr (xs : List String) : String := "[" ++ ",".intercalate xs ++ "]"

def jobj (kvs : List (Str × String)) : String :=
  "{" ++ ",".intercalate ((sortBy (fun a b => strLt a.1 b.1) kvs).map (fun kv => quote kv.1 ++ ":" ++ kv.2)) ++ "}"

mutual
partial def renderJS : JS → String
  | .bool b => if b then "true" else "false"
  | .node kws => jobj (renderKws kws)

partial def renderKws : KwList → List (Str × String)
  | .nil => []
  | .cons k ks => renderKw k :: renderKws ks

partial def renderKw : Kw → Str × String
  | .type t => (lit "type", "\"" ++ typeText t ++ "\"")
  | .minLength n => (lit "minLength", toString n)
  | .maxLength n => (lit "maxLength", toString n)
  | .pattern p => (lit "pattern", quote (patRegex p))
  | .minimum q => (lit "minimum", qText q)
  | .maximum q => (lit "maximum", qText q)
  | .exclusiveMinimum q => (lit "exclusiveMinimum", qText q)
  | .exclusiveMaximum q => (lit "exclusiveMaximum", qText q)
  | .multipleOf q => (lit "multipleOf", qText q)
  | .enum vs => (lit "enum", jarr (vs.map primText))
  | .const v => (lit "const", primText v)
  | .items j => (lit "items", renderJS j)
  | .prefixItems js => (lit "prefixItems", jarr (renderList js))
  | .minItems n => (lit "minItems", toString n)
  | .maxItems n => (lit "maxItems", toString n)
  | .properties ps => (lit "properties", jobj (renderProps ps))
  | .required ks => (lit "required", jarr ((sortBy (fun a b => strLt b a) ks).map quote))
  | .additionalProperties j => (lit "additionalProperties", renderJS j)
  | .propertyNames j => (lit "propertyNames", renderJS j)
  | .minProperties n => (lit "minProperties", toString n)
  | .maxProperties n => (lit "maxProperties", toString n)
  | .anyOf js => (lit "anyOf", jarr (renderList js))
  | .oneOf js => (lit "oneOf", jarr (renderList js))
  | .allOf js => (lit "allOf", jarr (renderList js))
  | .not j => (lit "not", renderJS j)
  | .types ts => (lit "type", jarr (ts.map (fun t => "\"" ++ typeText t ++ "\"")))
  | .format n _ => (lit "format", quote n)
  | .ref j => (lit "$ref", renderJS j)
  | .other n => (n, "true")

partial def renderList : JSList → List String
  | .nil => []
  | .cons j js => renderJS j :: renderList js

partial def renderProps : JSProps → List (Str × String)
  | .nil => []
  | .cons k j ps => (k, renderJS j) :: renderProps ps
end

def b2s (b : Bool) : String := if b then "1" else "0"

/-! ### why a case lies outside the proved fragment (named as in known-findings.txt) -/

def ifNot (c : Bool) (r : String) : List String := if c then [] else [r]

mutual
partial def reasons (lg top spine : Bool) : S → List String
  | .str cks => ifNot (strLenOK cks) "str-length-overwrites" ++ ifNot (noTrim cks) "str-trim-before-check"
  | .int k cks => ifNot (intKindOK top k cks) "int-kind-range-missing" ++ numReasons cks
  | .flt cks => numReasons cks
  | .enum vs => ifNot (!vs.isEmpty) "empty-enum"
  | .lit vs => ifNot (litHomog vs) "literal-mixed-kinds"
  | .opt s => ifNot s.docNullable "optional-accepts-null" ++ reasons lg top false s
  | .nul s => reasons lg top false s
  | .obj mode ca part cks shape =>
      (match mode with | .strip => ifNot spine "nested-strip-object" | _ => [])
      ++ ifNot (!(lg && part)) "partial-keeps-required"   -- lg is always false since /repo 792c820 (the converter asks the object)
      ++ (match mode, ca with | .strict, .some _ => ["strict-ignores-catchall"] | _, _ => [])
      ++ ifNot (szSimple cks) "size-check-overwrites"
      ++ (match mode, ca with | .strip, .some _ => ifNot cks.isEmpty "strip-size-after-strip" | _, _ => [])
      ++ reasonsCa lg ca ++ reasonsShape lg shape
  | .slice e cks => ifNot (szSimple cks) "size-check-overwrites" ++ reasons lg false false e
  | .arr rest cks items =>
      ifNot cks.isEmpty "array-length-keyword"
      ++ (match rest with
          | .none => ifNot (items.length != 1) "array-single-item"
          | .some _ => ifNot (items.length == 0) "rest-without-min-items")
      ++ reasonsCa lg rest ++ reasonsList lg items
  | .tup rest cks items =>
      ifNot cks.isEmpty "array-length-keyword"
      ++ (match rest with
          | .none => []
          | .some _ => ifNot (reqCount items == 0) "rest-without-min-items")
      ++ reasonsCa lg rest ++ reasonsList lg items
  | .record key val cks =>
      (match key with
       | .enum _ => ["record-enum-exhaustive"]
       | .str _ => []
       | _ => ["record-key-kind"])
      ++ reasons lg false false key ++ ifNot (szSimple cks) "size-check-overwrites" ++ reasons lg false false val
  | .union ms => reasonsMembers lg ms
  | .xor ms => reasonsMembers lg ms
  | .and l r =>
      ifNot (!l.acceptsNull && !r.acceptsNull) "union-nil-member"
      ++ ifNot (!l.isStrictObj && !r.isStrictObj) "intersection-strict-objects"
      ++ reasons lg false false l ++ reasons lg false false r
  | _ => []

partial def numReasons (cks : List NumCk) : List String :=
  ifNot (numFoldOK {} cks) "num-bound-merge"

partial def reasonsCa (lg : Bool) : SOpt → List String
  | .none => []
  | .some s => reasons lg false false s

partial def reasonsList (lg : Bool) : SList → List String
  | .nil => []
  | .cons s ss => reasons lg false false s ++ reasonsList lg ss

partial def reasonsMembers (lg : Bool) : SList → List String
  | .nil => []
  | .cons s ss => ifNot (!s.acceptsNull) "union-nil-member" ++ reasons lg false false s ++ reasonsMembers lg ss

partial def reasonsShape (lg : Bool) : Shape → List String
  | .nil => []
  | .cons _ s rest => reasons lg false false s ++ reasonsShape lg rest
end

mutual
partial def instReasons : Json → List String
  | .num q => ifNot (decide (-(2 ^ 53) < q) && decide (q < 2 ^ 53)) "big-number"
  | .str s => ifNot (asciiStr s) "non-ascii-string"
  | .arr xs => (xs.toList.map instReasons).flatten
  | .obj fs => (fs.toList.map (fun kv => ifNot (asciiStr kv.1) "non-ascii-string" ++ instReasons kv.2)).flatten
  | _ => []
end

/-! ### regions where the model knowingly does not mirror the code (outside `reprP` coherence) -/

mutual
/-- every node at or below `s` (children before parents does not matter here). -/
partial def nodes : S → List S
  | .opt s => .opt s :: nodes s
  | .nul s => .nul s :: nodes s
  | .obj m ca p cks shape => .obj m ca p cks shape :: (nodesCa ca ++ nodesShape shape)
  | .slice e cks => .slice e cks :: nodes e
  | .arr rest cks items => .arr rest cks items :: (nodesCa rest ++ nodesList items)
  | .tup rest cks items => .tup rest cks items :: (nodesCa rest ++ nodesList items)
  | .record k v cks => .record k v cks :: (nodes k ++ nodes v)
  | .union ms => .union ms :: nodesList ms
  | .xor ms => .xor ms :: nodesList ms
  | .and l r => .and l r :: (nodes l ++ nodes r)
  | s => [s]
partial def nodesCa : SOpt → List S
  | .none => []
  | .some s => nodes s
partial def nodesList : SList → List S
  | .nil => []
  | .cons s ss => nodes s ++ nodesList ss
partial def nodesShape : Shape → List S
  | .nil => []
  | .cons _ s rest => nodes s ++ nodesShape rest
end

/-- intersection.go `mergeUnrecognizedKeysIssues` ignores issue paths: an `unrecognized_keys` issue raised by a
    strict object NESTED anywhere inside one side is dropped unless the other side reports the same key name.
    `accepts (.and l r)` is the plain conjunction, so such schemas are outside what the model mirrors. -/
def andStrictNested (s : S) : Bool :=
  (nodes s).any (fun n => match n with
    | .and l r => ((nodes l).drop 1 ++ (nodes r).drop 1).any (fun m => m.isStrictObj)
    | _ => false)

def dedup (xs : List String) : List String := xs.foldl (fun acc x => if acc.contains x then acc else acc ++ [x]) []

/-- `io=…,unrep=…,reused=…,cycles=…,target=…,meta=…,dup=0|1` -/
def pOpts (tok : String) : Option (Opts × Bool) :=
  let kv := (tok.splitOn ",").map (fun f => match f.splitOn "=" with | [k, v] => (k, v) | _ => ("", ""))
  let get := fun k => (kv.find? (fun p => p.1 == k)).map (·.2)
  match get "io", get "unrep", get "reused", get "cycles", get "target", get "meta", get "dup" with
  | some io, some un, some re, some cy, some ta, some me, some du =>
      if ["-", "input", "output"].contains io && ["-", "any", "throw"].contains un && ["-", "ref", "inline"].contains re
         && ["-", "throw", "ref"].contains cy && ["-", "draft-07", "draft-2020-12"].contains ta
         && ["global", "private"].contains me && ["0", "1"].contains du then
        some ({ ioInput := io == "input", unrepAny := un == "any", reusedRef := re == "ref", cyclesThrow := cy == "throw",
                draft07 := ta == "draft-07", privateMeta := me == "private" }, du == "1")
      else none
  | _, _, _, _, _, _, _ => none

def docLine (d : Option JS) : String :=
  match d with
  | some j => b2s (wfJS j) ++ " " ++ renderJS j
  | none => "error"

/-- why a case lies outside `reprXTop` (class names as in known-findings.txt).  `lm` = the tree's convertMap drops the key
    schema (before the fix C07-map-key-schema).  The converter is modelled as asking the object which fields may be
    absent (/repo 792c820): a tree that does not is a model ≠ implementation violation. -/
partial def xReasons (lm top : Bool) : X → List String
  | .base s => reasons false top top s
  | .lazy o n x =>
      ifNot x.consults "lazy-typed-inner-unvalidated"
      ++ ifNot (if n then true else !o && !acceptsX x .null) "lazy-null"
      ++ xReasons lm false x
  | .objF mode ca _ cks shape =>
      (match mode with | .strip => ifNot top "nested-strip-object" | _ => [])
      ++ (match mode, ca with | .strict, .some _ => ["strict-ignores-catchall"] | _, _ => [])
      ++ ifNot (szSimple cks) "size-check-overwrites"
      ++ (match mode, ca with | .strip, .some _ => ifNot cks.isEmpty "strip-size-after-strip" | _, _ => [])
      ++ reasonsCa false ca ++ reasonsShape false shape
  | .mapOf kcks val cks =>
      ifNot (!(lm && !kcks.isEmpty)) "map-key-schema-dropped"
      ++ reasons false false false (.str kcks) ++ ifNot (szSimple cks) "size-check-overwrites" ++ reasons false false false val

/-- the document of the tree under test: the fixed converters', or the one whose convertMap drops the key schema. -/
def docX (lm : Bool) (x : X) : JS := if lm then toDocL false true x else toDocX x

def instLineX (lg : Bool) (x : X) (v : Json) : String :=
  let j := docX lg x
  let p := acceptsX x v
  let rs := dedup (xReasons lg true x ++ instReasons v)
  -- self-check: the itemised reasons are empty exactly when the theorems' hypotheses hold (`c07_x_sound` / `_complete`;
  -- on a tree with the old convertMap `c07_legacy_sound` / `_complete` with eo = false, em = true)
  let hyp := reprXTop x && legacyOK false lg x && instOK v
  let coherent := rs.isEmpty == hyp
  let rs := rs ++ (match x with | .base s => ifNot (!andStrictNested s) "intersection-strict-nested" | _ => [])
  b2s p ++ " " ++ (if p then b2s (jsValid j (outX x v)) else "-") ++ " " ++ b2s (jsValid j v)
    ++ "\t" ++ (if coherent then "" else "INCOHERENT,") ++ ",".intercalate rs

/-- one call on a (possibly lazy) schema: Cycles:"throw" on an instance met twice is an error, no other option changes
    the inlined document (`convertO` for base schemas). -/
def convertX (lg : Bool) (o : Opts) (dup : Bool) (x : X) : Option JS :=
  if o.cyclesThrow && dup then none else some (docX lg x)

/-- the converters of objects (/repo 792c820) and maps (/repo 39b1e2e) are modelled as fixed: no legacy document. -/
def isLegacy (_ts : List String) : Bool := false

/-! ### the recursive family `( recV WRAP LEAF )` (Model/JsonSchemaRec.lean); the converter is modelled with `lazyRef`
    (/repo 16f278d): a cycle that does not close at the root gets its own `$defs` entry -/

def pWrap : String → Option Wrap
  | "root" => some .root | "field" => some .field | "slice" => some .slice | _ => none

def pRec : List String → Option (Bool × Wrap × S × List String)
  | "(" :: tag :: w :: ts =>
    if tag == "recV" then do
      let w ← pWrap w
      let (leaf, ts) ← pS ts
      let (_, ts) ← expect ")" ts
      pure (false, w, leaf, ts)
    else none
  | _ => none

/-- V's document: `anyOf [leaf, {type: array, items: {$ref}}]` (canonical text). -/
def vDoc (leafJ ref : String) : String :=
  "{\"anyOf\":[" ++ leafJ ++ ",{\"items\":{\"$ref\":\"" ++ ref ++ "\"},\"type\":\"array\"}]}"

/-- the whole document as emitted (recursive definitions are not inlined by the harness). -/
def recDoc (lg : Bool) (w : Wrap) (leaf : S) : String :=
  let leafJ := renderJS (toJS false false false leaf)
  let ref := if lg then "#" else "#/$defs/def1"
  let defs := if lg then "" else "\"$defs\":{\"def1\":" ++ vDoc leafJ ref ++ "},"
  match w with
  | .root => vDoc leafJ "#"
  | .field => "{" ++ defs ++ "\"additionalProperties\":false,\"properties\":{\"val\":" ++ vDoc leafJ ref
                ++ "},\"required\":[\"val\"],\"type\":\"object\"}"
  | .slice => "{" ++ defs ++ "\"items\":" ++ vDoc leafJ ref ++ ",\"type\":\"array\"}"

def recInstLine (lg : Bool) (w : Wrap) (leaf : S) (v : Json) : String :=
  let valid := fun x => if lg then validTL w leaf x else validTF w leaf x
  let p := acceptsT w leaf v
  let rs := dedup (ifNot (!(lg && w != .root)) "lazy-ref-root" ++ ifNot (!leaf.acceptsNull) "union-nil-member"
                   ++ reasons false false false leaf ++ instReasons v)
  let coherent := rs.isEmpty == (reprRec leaf && (!lg || w == .root) && instOK v)
  b2s p ++ " " ++ (if p then b2s (valid v) else "-") ++ " " ++ b2s (valid v)
    ++ "\t" ++ (if coherent then "" else "INCOHERENT,") ++ ",".intercalate rs

def recDocOp (ts : List String) : Option String :=
  match pRec ts with
  | some (lg, w, leaf, []) => some ("1 " ++ recDoc lg w leaf)
  | _ => none

def recInstOp (ts : List String) : Option String :=
  match pRec ts with
  | some (lg, w, leaf, rest) => (match pJ rest with
      | some (v, []) => some (recInstLine lg w leaf v)
      | _ => none)
  | none => none

def handleRec : List String → Option String
  | "doc" :: ts => recDocOp ts
  | "inst" :: ts => recInstOp ts
  | "hdoc" :: _k :: _o :: ts => recDocOp ts       -- the harness converts this family with default options only
  | "hinst" :: _k :: _o :: ts => recInstOp ts
  | _ => none

def handleBase : List String → String
  | "doc" :: ts =>
    match pX ts with
    | some (x, []) => docLine (convertX (isLegacy ts) {} false x)
    | _ => "bad-op"
  | "inst" :: ts =>
    match pX ts with
    | some (x, rest) =>
      match pJ rest with
      | some (v, []) => instLineX (isLegacy ts) x v
      | _ => "bad-op"
    | none => "bad-op"
  -- the k-th call of a history: `runHistory` gives every call the document `convertO` gives it alone
  | "hdoc" :: _k :: o :: ts =>
    match pOpts o, pX ts with
    | some (o, dup), some (x, []) => docLine (convertX (isLegacy ts) o dup x)
    | _, _ => "bad-op"
  | "hinst" :: _k :: o :: ts =>
    match pOpts o, pX ts with
    | some (o, dup), some (x, rest) =>
      match pJ rest, convertX (isLegacy ts) o dup x with
      | some (v, []), some _ => instLineX (isLegacy ts) x v
      | _, _ => "bad-op"
    | _, _ => "bad-op"
  | _ => "bad-op"

/-! ### `refs OPTS ROOT ( n I B ID O N TYPE NILT LAZY K* )*`: the reference bookkeeping of ONE real call, replayed by the
    model (`Refs.convertTop`, the function `c07_refs_resolve` is about) on the instance graph the harness read off the live
    schema; the `$defs` names and `$ref` targets must be those of the real document. -/

/-- `isCompositeType`, from the table regenerated out of jsonschema/to.go (`compositeTypes`). -/
def isComposite (typeName : String) : Bool :=
  Gozod.Gen.ToJsonCases.compositeTypes.any (fun c => (reprStr c).endsWith ("." ++ typeName) || reprStr c == typeName)

partial def pNats : List String → Option (List Nat × List String)
  | ")" :: ts => some ([], ts)
  | t :: ts => do
      let n ← t.toNat?
      let (ns, ts) ← pNats ts
      pure (n :: ns, ts)
  | [] => none

partial def pNodes : List String → Option (List (Nat × Refs.Node))
  | [] => some []
  | "(" :: "n" :: i :: b :: id :: o :: n :: ty :: nt :: lz :: ts => do
      let i ← i.toNat?
      let b ← b.toNat?
      let (kids, ts) ← pNats ts
      let rest ← pNodes ts
      let idv := if id.startsWith "i:" then some (id.drop 2).toString else none
      pure ((i, { base := b, id := idv, optional := o == "1", nilable := n == "1", composite := isComposite ty,
                  nilType := nt == "1", isLazy := lz == "1", kids := kids }) :: rest)
  | _ => none

def graphOf (nodes : List (Nat × Refs.Node)) : Refs.Graph :=
  fun n => match nodes.lookup n with
    | some nd => nd
    | none => { base := n }

def sortDedup (xs : List String) : List String :=
  (sortBy (fun a b => decide (a < b)) xs).foldr (fun x acc => match acc with
    | y :: _ => if x == y then acc else x :: acc
    | [] => [x]) []

def handleRefs : List String → Option String
  | "refs" :: o :: root :: ts =>
    match pOpts o, root.toNat?, pNodes ts with
    | some (o, _), some root, some nodes =>
      let ro : Refs.Opts := { reusedRef := o.reusedRef, cyclesThrow := o.cyclesThrow }
      match Refs.convertTop (graphOf nodes) ro (2 * nodes.length + 10) root with
      | some st => some ("defs=" ++ ",".intercalate (sortDedup st.defs) ++ ";refs=" ++ ",".intercalate (sortDedup st.out))
      | none => some "error"
    | _, _, _ => some "bad-op"
  | _ => none

/-- `( cyc NAME )`: a self-referential schema (the Lazy resolves to a schema that holds the Lazy / FromStruct of a
    self-referential struct type).  The statement asks for a document: finite, compiling, references resolving — judged on the
    implementation alone (the harness converts it in a process of its own; `crash` = that process died). -/
def handleCyc : List String → Option String
  | ["doc", "(", "cyc", _, ")"] => some "1 finite-document"
  | _ => none

/-- schema types without a model (`c07_unmodelled_gap`): the run judges them on the implementation alone. -/
def handleUnmodelled : List String → Option String
  | "udoc" :: _ => some "unmodelled"
  | "uinst" :: _ => some "unmodelled"
  | _ => none

def handle (ts : List String) : String :=
  match handleUnmodelled ts with
  | some r => r
  | none =>
  match handleRefs ts with
  | some r => r
  | none =>
  match handleCyc ts with
  | some r => r
  | none =>
  match handleRec ts with
  | some r => r
  | none => handleBase ts

end Gozod.Drv.C07
