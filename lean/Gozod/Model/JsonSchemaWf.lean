/-
  C07 — well-formedness of the emitted document beyond "the schema arrays are non-empty" (`wfJS`): the Draft 2020-12
  metaschema constraints on the keyword VALUES that the typed AST does not enforce by construction.

  By construction (types of `Kw`): `type` is one of the seven names; `minLength` / `maxLength` / `minItems` / `maxItems` /
  `minProperties` / `maxProperties` are non-negative integers (`Nat`); `required` / `enum` are arrays; `const` is a value;
  `items` / `additionalProperties` / `propertyNames` / `not` / `properties` values are schemas.
  Checked here (`xwfJS`), recursively through every subschema:
    * `multipleOf` is strictly positive                                   (metaschema: exclusiveMinimum 0)
    * `required` has no duplicate                                          (uniqueItems)
    * `properties` has no duplicate key                                    (a JSON object)
    * `prefixItems`, `anyOf`, `oneOf`, `allOf` are non-empty schema arrays (schemaArray: minItems 1)
    * no keyword outside the vocabulary (`Kw.other`) and no inlined reference (`Kw.ref`: C11's input side) occurs.
  References by NAME (`$ref` / `$defs`) are not in this AST (Model/JsonSchema.lean is shared with C11); that every name the
  converter emits is defined is `c07_refs_resolve`, about `Refs.convertTop`, which the driver executes against every real
  document (`c07 refs` ops).  Core-only.
-/
import Gozod.Model.JsonSchema
namespace Gozod.Jsc

def nodupStr : List Str → Bool
  | [] => true
  | x :: xs => !xs.contains x && nodupStr xs

mutual
def xwfJS : JS → Bool
  | .bool _ => true
  | .node kws => xwfKws kws
def xwfKws : KwList → Bool
  | .nil => true
  | .cons k ks => xwfKw k && xwfKws ks
def xwfKw : Kw → Bool
  | .multipleOf q => decide (0 < q)
  | .required ks => nodupStr ks
  | .items j => xwfJS j
  | .prefixItems js => xwfList js && decide (0 < js.length)
  | .properties ps => xwfProps ps && nodupStr ps.keys
  | .additionalProperties j => xwfJS j
  | .propertyNames j => xwfJS j
  | .anyOf js => xwfList js && decide (0 < js.length)
  | .oneOf js => xwfList js && decide (0 < js.length)
  | .allOf js => xwfList js && decide (0 < js.length)
  | .not j => xwfJS j
  | .ref _ => false
  | .other _ => false
  | .types ts => !ts.isEmpty
  | _ => true
def xwfList : JSList → Bool
  | .nil => true
  | .cons j js => xwfJS j && xwfList js
def xwfProps : JSProps → Bool
  | .nil => true
  | .cons _ j ps => xwfJS j && xwfProps ps
end

mutual
/-- the field names of every object shape are distinct (they are the keys of a Go map). -/
def keysOK : S → Bool
  | .opt s => keysOK s
  | .nul s => keysOK s
  | .obj _ ca _ _ sh => nodupStr sh.keys && keysOKO ca && keysOKSh sh
  | .slice e _ => keysOK e
  | .arr r _ items => keysOKO r && keysOKL items
  | .tup r _ items => keysOKO r && keysOKL items
  | .record k v _ => keysOK k && keysOK v
  | .union ms => keysOKL ms
  | .xor ms => keysOKL ms
  | .and l r => keysOK l && keysOK r
  | _ => true
def keysOKO : SOpt → Bool
  | .none => true
  | .some s => keysOK s
def keysOKL : SList → Bool
  | .nil => true
  | .cons s ss => keysOK s && keysOKL ss
def keysOKSh : Shape → Bool
  | .nil => true
  | .cons _ s r => keysOK s && keysOKSh r
end

end Gozod.Jsc
