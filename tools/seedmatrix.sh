#!/bin/bash
# tools/seedmatrix.sh [tier] [ids...]: run each seeded change in /verif/seeded/<dir>/patch.diff against the check of the
# property it breaks (meta.json "property"), in a scratch worktree of /repo; prints one line per seed: caught / MISSED.
# PROP=Cyy overrides the property whose check is run (cross-detection). A seed is "caught" only if the check exits 1 AND prints a VIOLATION line.
set +u
TIER=${1:-quick}; shift
IDS=${@:-$(ls /verif/seeded)}
export GOFLAGS=-mod=mod GOPROXY=off
OUT=/tmp/seedmatrix; mkdir -p $OUT
one() {
  d=$1
  prop=${PROP:-$(python3 -c "import json;print(json.load(open('/verif/seeded/$d/meta.json'))['property'])")}
  wt=/tmp/sm-$d-$prop
  git -C /repo worktree remove --force $wt >/dev/null 2>&1; rm -rf $wt
  git -C /repo worktree add -q --detach $wt HEAD >/dev/null 2>&1 || { echo "$d worktree failed"; return; }
  if ! git -C $wt apply /verif/seeded/$d/patch.diff 2>$OUT/$d-$prop.apply; then echo "$d ($prop) PATCH-DOES-NOT-APPLY"; git -C /repo worktree remove --force $wt; return; fi
  s=$(date +%s)
  (cd /verif && VERIF_REPO=$wt timeout 3000 ./check $prop $TIER > $OUT/$d-$prop.log 2>&1); rc=$?
  v=$(grep -c '^VIOLATION' $OUT/$d-$prop.log); nf=$(grep -c 'no-failing-input-found' $OUT/$d-$prop.log)
  if [ $rc -eq 1 ] && [ $v -gt 0 ]; then r="caught (violations=$v, without-input=$nf)"; else r="MISSED rc=$rc"; fi
  echo "$d ($prop) $TIER: $r $(( $(date +%s)-s ))s"
  git -C /repo worktree remove --force $wt >/dev/null 2>&1; rm -rf $wt
  rm -rf /verif/.build/harness-$(python3 -c "import hashlib;print(hashlib.sha1('$wt'.encode()).hexdigest()[:8])") /verif/.build/bin-$(python3 -c "import hashlib;print(hashlib.sha1('$wt'.encode()).hexdigest()[:8])")
}
export -f one; export TIER OUT PROP
printf "%s\n" $IDS | xargs -P 4 -I{} bash -c 'one {}'
git -C /repo worktree prune
