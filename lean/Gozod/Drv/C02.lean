/-
  Line handler for C02: `c02 CFG NODE V TABLE` → "<model verdict>\t<spec verdict>\t<reason>"
  (verdict = ok | err; reason = failure-class hint used when the two differ).
  model: the container over what it SEES of its members (`c.env`); spec: the law over the members' OWN verdicts (`c.own`).
-/
import Gozod.Model.Containers
import Gozod.Model.ContainersSpec
import Gozod.Drv.ContParse
namespace Gozod.Drv.C02
open Gozod.Cont Gozod.Drv.ContParse

def verdict (b : Bool) : String := if b then "ok" else "err"

def insertDm (e : Nat × Nat) : List (Nat × Nat) → List (Nat × Nat)
  | [] => [e]
  | x :: xs => if e.1 < x.1 then e :: x :: xs else x :: insertDm e xs

def sortDm (dm : List (Nat × Nat)) : List (Nat × Nat) := dm.foldl (fun a e => insertDm e a) []

def handle (ts : List String) : String :=
  match parseCase ts with
  | none => "bad-op"
  | some c =>
    match c.du with
    | some (md, disc, os) =>
      -- discriminated union: the model builds the index from what the options declare (`buildDiscMap`) and prints it
      -- (the harness prints the index the real constructor built); the law is stated over the option list
      let m := (parseDUDecl c.env md disc os c.input).isOk
      let s := Spec.acceptsDU c.own md disc os c.input
      let dm := match buildDiscMap os with
        | none => "-"
        | some dm => ",".intercalate ((sortDm dm).map (fun (e : Nat × Nat) => s!"{e.1}:{e.2}"))
      s!"{verdict m} dm={dm}\t{verdict s} dm={dm}\tother"
    | none =>
    let m := (runOw c.cfg c.env c.node c.input).isOk
    let s := Spec.accepts c.own c.written c.input
    -- a member the container cannot call, whose own verdict would have changed the composite's
    let why := if c.hasReq && Spec.accepts c.own c.node c.input != s then "required-does-not-require"
               else if !c.skip.isEmpty && Spec.accepts c.env c.node c.input != s then "member-schema-never-asked"
               else Spec.reason c.own c.written c.input
    s!"{verdict m}\t{verdict s}\t{why}"

end Gozod.Drv.C02
