// C10 harness: sequences of built-in checks, overwrites and refinements (± abort, ± when) on real
// string schemas (value and pointer constructors), followed by chains of Transform and Pipe.
// Every user callback logs (kind, schema tag, check position, argument); every check carries the
// message "m<tag>.<pos>" so that reported issues identify their check. The observation is
//
//	(ok <hex> | err <tag>:<pos,…>);<events>
package main

import (
	"encoding/hex"
	"errors"
	"flag"
	"fmt"
	"os"
	"regexp"
	"strconv"
	"strings"

	"github.com/kaptinlin/gozod"
	"github.com/kaptinlin/gozod/core"

	"verifharness/hx"
)

type chk struct {
	kind  string // min max len sw ew inc lc uc ref trim lower upper ow
	n     int
	s     string
	k     int
	abort bool
	when  int // -1 = none
	api   int // refinements on non-string schemas: 0 = Refine, 1 = RefineAny
}

type pipe struct {
	kind string // B T P
	tag  int
	cs   []chk
	id   int
	k    int
	a, b *pipe
	ptr  bool // base built with StringPtr()
	vk   string  // universal domain: value kind of a base (s, i, l, o); "" on the string-only lines
	rng  *hx.Rng // universal domain: which alias of a built-in is called (Min/Gte)
	mp   bool // the Pipe is built with the first schema's own Pipe method (c10u: ZodIntegerTyped.Pipe)
}

func hexs(s string) string {
	if s == "" {
		return "-"
	}
	return hex.EncodeToString([]byte(s))
}

func (c chk) tokens() string {
	switch c.kind {
	case "min", "max", "len":
		return c.kind + " " + strconv.Itoa(c.n)
	case "sw", "ew", "inc":
		return c.kind + " " + hexs(c.s)
	case "ref":
		w := "-"
		if c.when >= 0 {
			w = strconv.Itoa(c.when)
		}
		return fmt.Sprintf("ref %d %s %s", c.k, hx.B01(c.abort), w)
	case "ow":
		return "ow " + strconv.Itoa(c.k)
	}
	return c.kind
}

func (p *pipe) tokens() string {
	switch p.kind {
	case "B":
		parts := []string{"B", strconv.Itoa(p.tag), hx.B01(p.ptr), strconv.Itoa(len(p.cs))}
		for _, c := range p.cs {
			parts = append(parts, c.tokens())
		}
		return strings.Join(parts, " ")
	case "T":
		return fmt.Sprintf("T %d %d %s", p.id, p.k, p.a.tokens())
	}
	return "P " + p.a.tokens() + " " + p.b.tokens()
}

func (p *pipe) how() string {
	switch p.kind {
	case "B":
		if p.ptr {
			return "StringPtr"
		}
		return "String"
	case "T":
		return "T(" + p.a.how() + ")"
	}
	return "P(" + p.a.how() + "," + p.b.how() + ")"
}

// the fixed callback family (mirrored in lean/Gozod/Model/Str.lean)
func customPred(k int, s string) bool {
	switch k % 6 {
	case 0:
		return len(s)%2 == 0
	case 1:
		return strings.IndexByte(s, 'x') >= 0
	case 2:
		return false
	case 3:
		return true
	case 4:
		return len(s) >= 3
	}
	return len(s) > 0 && s[0] == 'a'
}

func reverse(s string) string {
	b := []byte(s)
	for i, j := 0, len(b)-1; i < j; i, j = i+1, j-1 {
		b[i], b[j] = b[j], b[i]
	}
	return string(b)
}

func customOw(k int, s string) string {
	switch k % 4 {
	case 0:
		return s + "!"
	case 1:
		if len(s) == 0 {
			return s
		}
		return s[1:]
	case 2:
		return reverse(s)
	}
	return s + " "
}

func customTr(k int, s string) string {
	switch k % 3 {
	case 0:
		return s + "#a"
	case 1:
		return ">" + s
	}
	return reverse(s)
}

// logger collects the callback events of ONE observed parse. hist != nil selects the parse-in-the-middle history:
// every prefix of a check chain (and every inner stage of a pipeline) is PARSED, muted, with each of the hist inputs
// right after it is built and before the next check / overwrite / refinement / transform is attached to it.
type logger struct {
	evs       []string
	mute      bool
	hist      []func() any
	warmPanic string
}

func (l *logger) raw(s string) {
	if !l.mute {
		l.evs = append(l.evs, s)
	}
}

// warm parses the schema built so far with every history input; callbacks are muted, results dropped: the only
// thing that may survive is state the library keeps in the schema, which the derived schemas must not see.
func warm[T any](l *logger, s core.ZodType[T]) {
	if l.hist == nil {
		return
	}
	l.mute = true
	for _, mk := range l.hist {
		if pm := hx.Safely(func() { _, _ = s.Parse(mk()) }); pm != "" && l.warmPanic == "" {
			l.warmPanic = pm
		}
	}
	l.mute = false
}

// fresh: a deep copy of an input (pointer inputs are written through by overwrites).
func fresh(v any) any {
	switch x := v.(type) {
	case *string:
		c := *x
		return &c
	case *int:
		c := *x
		return &c
	case []int:
		return cloneInts(x)
	case *[]int:
		c := cloneInts(*x)
		return &c
	case map[string]any:
		c := map[string]any{}
		for k, e := range x {
			c[k] = e
		}
		return c
	case *map[string]any:
		c := map[string]any{}
		for k, e := range *x {
			c[k] = e
		}
		return &c
	}
	return v
}

func cloneInts(x []int) []int {
	if x == nil {
		return nil
	}
	c := make([]int, len(x))
	copy(c, x)
	return c
}

func (l *logger) add(kind string, tag, pos int, v any) {
	if l.mute {
		return
	}
	l.evs = append(l.evs, fmt.Sprintf("%s%d.%d=%s", kind, tag, pos, anyHex(v)))
}

func anyHex(v any) string {
	switch x := v.(type) {
	case string:
		return hexs(x)
	case *string:
		if x == nil {
			return "nilptr"
		}
		return hexs(*x)
	}
	return fmt.Sprintf("?%T", v)
}

// anyAdapter makes a typed string schema usable as a Pipe target (core.ZodType[any]).
type anyAdapter[T any] struct {
	inner core.ZodType[T]
	tag   int
}

// stageTypeErr: the stage numbered tag answered with a lone invalid_type issue that is not one of its checks' — its
// type dispatch rejected the value it was handed (observed at the stage boundary, independent of message texts).
type stageTypeErr struct {
	tag int
	err error
}

func (e *stageTypeErr) Error() string { return e.err.Error() }
func (e *stageTypeErr) Unwrap() error { return e.err }

func (a anyAdapter[T]) Parse(input any, ctx ...*core.ParseContext) (any, error) {
	r, err := a.inner.Parse(input, ctx...)
	if err != nil {
		var ze *gozod.ZodError
		if errors.As(err, &ze) && len(ze.Issues) == 1 && ze.Issues[0].Code == core.InvalidType && msgRe.FindStringSubmatch(ze.Issues[0].Message) == nil {
			return r, &stageTypeErr{tag: a.tag, err: err}
		}
	}
	return r, err
}
func (a anyAdapter[T]) MustParse(input any, ctx ...*core.ParseContext) any {
	r, err := a.Parse(input, ctx...)
	if err != nil {
		panic(err)
	}
	return r
}
func (a anyAdapter[T]) Internals() *core.ZodTypeInternals { return a.inner.Internals() }
func (a anyAdapter[T]) IsOptional() bool                  { return a.inner.IsOptional() }
func (a anyAdapter[T]) IsNilable() bool                   { return a.inner.IsNilable() }

func msg(tag, pos int) string { return fmt.Sprintf("m%d.%d", tag, pos) }

// tyMsg: the schema's own message. It reaches the invalid_type issue of THIS stage's type dispatch, so that the
// observation names the stage that rejected a value of another type ("err <tag>:999999").
func tyMsg(tag int) string { return fmt.Sprintf("ty%d", tag) }

func buildBaseVal(p *pipe, l *logger) core.ZodType[string] {
	s := gozod.String(tyMsg(p.tag))
	warm[string](l, s)
	for pos, c := range p.cs {
		pos, c := pos, c
		m := msg(p.tag, pos)
		prev := s
		// after this step: a decoy sibling is derived from the step's parent. Deriving must not change the
		// chain's schema (a check slice shared between parent and child would let the decoy take the child's slot).
		defer func() { _ = prev.StartsWith("\x00decoy", "decoy") }()
		switch c.kind {
		case "min":
			s = s.Min(c.n, m)
		case "max":
			s = s.Max(c.n, m)
		case "len":
			s = s.Length(c.n, m)
		case "sw":
			s = s.StartsWith(c.s, m)
		case "ew":
			s = s.EndsWith(c.s, m)
		case "inc":
			s = s.Includes(c.s, m)
		case "lc":
			s = s.Lowercase(m)
		case "uc":
			s = s.Uppercase(m)
		case "trim":
			s = s.Trim()
		case "lower":
			s = s.ToLowerCase()
		case "upper":
			s = s.ToUpperCase()
		case "ow":
			s = s.Overwrite(func(v string) string { l.add("o", p.tag, pos, v); return customOw(c.k, v) })
		case "ref":
			cp := core.CustomParams{Error: m, Abort: c.abort}
			if c.when >= 0 {
				cp.When = func(pl *core.ParsePayload) bool {
					l.add("w", p.tag, pos, pl.Value())
					return customPred(c.when, asString(pl.Value()))
				}
			}
			s = s.Refine(func(v string) bool { l.add("c", p.tag, pos, v); return customPred(c.k, v) }, cp)
		case "chk":
			s = s.Check(func(v string, pl *core.ParsePayload) { pushIssues(p, pos, c, l, v, pl) }, customParams(p, pos, c, l, false))
		}
		warm[string](l, s)
	}
	return s
}

func buildBasePtr(p *pipe, l *logger) core.ZodType[*string] {
	s := gozod.StringPtr(tyMsg(p.tag))
	warm[*string](l, s)
	deref := func(v *string) string {
		if v == nil {
			return ""
		}
		return *v
	}
	for pos, c := range p.cs {
		pos, c := pos, c
		m := msg(p.tag, pos)
		prev := s
		// after this step: a decoy sibling is derived from the step's parent. Deriving must not change the
		// chain's schema (a check slice shared between parent and child would let the decoy take the child's slot).
		defer func() { _ = prev.StartsWith("\x00decoy", "decoy") }()
		switch c.kind {
		case "min":
			s = s.Min(c.n, m)
		case "max":
			s = s.Max(c.n, m)
		case "len":
			s = s.Length(c.n, m)
		case "sw":
			s = s.StartsWith(c.s, m)
		case "ew":
			s = s.EndsWith(c.s, m)
		case "inc":
			s = s.Includes(c.s, m)
		case "lc":
			s = s.Lowercase(m)
		case "uc":
			s = s.Uppercase(m)
		case "trim":
			s = s.Trim()
		case "lower":
			s = s.ToLowerCase()
		case "upper":
			s = s.ToUpperCase()
		case "ow":
			s = s.Overwrite(func(v *string) *string {
				l.add("o", p.tag, pos, v)
				r := customOw(c.k, deref(v))
				return &r
			})
		case "ref":
			cp := core.CustomParams{Error: m, Abort: c.abort}
			if c.when >= 0 {
				cp.When = func(pl *core.ParsePayload) bool {
					l.add("w", p.tag, pos, pl.Value())
					switch x := pl.Value().(type) {
					case string:
						return customPred(c.when, x)
					case *string:
						return customPred(c.when, deref(x))
					}
					return false
				}
			}
			s = s.Refine(func(v *string) bool { l.add("c", p.tag, pos, v); return customPred(c.k, deref(v)) }, cp)
		case "chk":
			s = s.Check(func(v *string, pl *core.ParsePayload) { pushIssues(p, pos, c, l, v, pl) }, customParams(p, pos, c, l, false))
		}
		warm[*string](l, s)
	}
	return s
}

// build returns a parser for the whole pipeline: input → (result string, error).
func build(p *pipe, l *logger) core.ZodType[any] {
	switch p.kind {
	case "B":
		if p.ptr {
			return anyAdapter[*string]{buildBasePtr(p, l), p.tag}
		}
		return anyAdapter[string]{buildBaseVal(p, l), p.tag}
	case "T":
		src := build(p.a, l)
		warm[any](l, src)
		return core.NewZodTransform[any, any](src, func(in any, _ *core.RefinementContext) (any, error) {
			s := asString(in)
			l.raw(fmt.Sprintf("t%d=%s", p.id, hexs(s)))
			return customTr(p.k, s), nil
		})
	}
	src := build(p.a, l)
	dst := build(p.b, l)
	warm[any](l, src)
	warm[any](l, dst)
	return core.NewZodPipe[any, any](src, dst, func(in any, pc *core.ParseContext) (any, error) {
		return dst.Parse(in, pc)
	})
}

func asString(v any) string {
	switch x := v.(type) {
	case string:
		return x
	case *string:
		if x != nil {
			return *x
		}
	}
	return ""
}

var msgRe = regexp.MustCompile(`^m(\d+)\.(\d+)$`)
var tyRe = regexp.MustCompile(`^ty(\d+)$`)

// observe: the observation of the pipeline built in one go and, when hist != nil, also of the pipeline built with
// the parse-in-the-middle history. Whether an ancestor was parsed before a schema is derived from it is not an input
// of the model (a schema is its check list): both must be the same observation — judged here, on the implementation
// alone; the history's observation is what is compared with the model of the FULL chain.
func observe(p *pipe, mk func() any, hist []func() any, one func(*pipe, any, []func() any) string) string {
	plain := one(p, mk(), nil)
	if hist == nil {
		return plain
	}
	h := one(p, mk(), hist)
	if h != plain {
		return h + " ?history-dependent:built-in-one-go=" + strings.ReplaceAll(plain, " ", "_")
	}
	return h
}

func observe1(p *pipe, input any, hist []func() any) string {
	l := &logger{hist: hist}
	var head string
	pm := hx.Safely(func() {
		sch := build(p, l)
		res, err := sch.Parse(input)
		if err == nil {
			head = "ok " + anyHex(res)
			return
		}
		head = errHead(err)
	})
	if pm != "" {
		return "panic " + strings.ReplaceAll(pm, "\n", " ")
	}
	if l.warmPanic != "" {
		return "panic in-a-history-parse " + strings.ReplaceAll(l.warmPanic, "\n", " ")
	}
	return head + ";" + strings.Join(l.evs, ",")
}

func errHead(err error) string {
	var st *stageTypeErr
	if errors.As(err, &st) {
		// a stage's own message (tyMsg) must name the same stage whenever the library attaches it
		var ze *gozod.ZodError
		if errors.As(st.err, &ze) && len(ze.Issues) == 1 {
			if mm := tyRe.FindStringSubmatch(ze.Issues[0].Message); mm != nil && mm[1] != strconv.Itoa(st.tag) {
				return fmt.Sprintf("err ?type-error-of-stage-%d-carries-message-of-stage-%s:999999", st.tag, mm[1])
			}
		}
		return fmt.Sprintf("err %d:999999", st.tag)
	}
	var ze *gozod.ZodError
	if !errors.As(err, &ze) {
		return "err ?notzod:" + strings.ReplaceAll(err.Error(), " ", "_")
	}
	tag := -1
	var ps []string
	if len(ze.Issues) == 1 && ze.Issues[0].Code == core.InvalidType && msgRe.FindStringSubmatch(ze.Issues[0].Message) == nil {
		// the type dispatch of a stage rejected its input: the stage's own message names it (lean: typeErrPos)
		if mm := tyRe.FindStringSubmatch(ze.Issues[0].Message); mm != nil {
			return "err " + mm[1] + ":999999"
		}
		return "err ?untagged-type-error:" + strings.ReplaceAll(ze.Issues[0].Message, " ", "_")
	}
	for _, is := range ze.Issues {
		mm := msgRe.FindStringSubmatch(is.Message)
		if mm == nil {
			ps = append(ps, "?"+strings.ReplaceAll(is.Message, " ", "_"))
			continue
		}
		t, _ := strconv.Atoi(mm[1])
		if tag == -1 {
			tag = t
		} else if tag != t {
			ps = append(ps, "?tag"+mm[1])
		}
		ps = append(ps, mm[2])
	}
	return fmt.Sprintf("err %d:%s", tag, strings.Join(ps, ","))
}

// ---- generation ----

var alphabet = []byte("aAxXbZ z\t!")

func genString(r *hx.Rng, maxLen int) string {
	n := r.Intn(maxLen + 1)
	b := make([]byte, n)
	for i := range b {
		b[i] = hx.Pick(r, alphabet)
	}
	if n > 0 && r.Chance(25) {
		b[0] = ' '
	}
	if n > 1 && r.Chance(25) {
		b[n-1] = ' '
	}
	return string(b)
}

func genCheck(r *hx.Rng, in string) chk {
	switch r.Intn(14) {
	case 0:
		return chk{kind: "min", n: nearLen(r, in)}
	case 1:
		return chk{kind: "max", n: nearLen(r, in)}
	case 2:
		return chk{kind: "len", n: nearLen(r, in)}
	case 3:
		return chk{kind: "sw", s: fragment(r, in, 0)}
	case 4:
		return chk{kind: "ew", s: fragment(r, in, 1)}
	case 5:
		return chk{kind: "inc", s: fragment(r, in, 2)}
	case 6:
		return chk{kind: "lc"}
	case 7:
		return chk{kind: "uc"}
	case 8:
		return chk{kind: "trim"}
	case 9:
		return chk{kind: hx.Pick(r, []string{"lower", "upper"})}
	case 10:
		return chk{kind: "ow", k: r.Intn(4)}
	default:
		c := chk{kind: "ref", k: r.Intn(6), abort: r.Chance(35), when: -1}
		if r.Chance(35) {
			c.when = r.Intn(6)
		}
		return c
	}
}

func nearLen(r *hx.Rng, in string) int {
	n := len(in) + r.Intn(5) - 2
	if n < 0 {
		n = 0
	}
	return n
}

func fragment(r *hx.Rng, in string, where int) string {
	if len(in) == 0 || r.Chance(20) {
		return hx.Pick(r, []string{"", "a", "x", " ", "zz"})
	}
	n := 1 + r.Intn(min(3, len(in)))
	switch where {
	case 0:
		s := in[:n]
		if r.Chance(30) {
			s = strings.ToLower(s)
		}
		return s
	case 1:
		return in[len(in)-n:]
	}
	i := r.Intn(len(in) - n + 1)
	return in[i : i+n]
}

// genHist: the inputs every prefix of the chain is parsed with in a parse-in-the-middle history: the case's own
// input by value and by pointer, other values of the type (valid for some prefixes, invalid for others), a value of
// another type and nil (rejected by the type dispatch).
func genHist(r *hx.Rng, in any, other func() any) []func() any {
	ptrOf := func(v any) any {
		switch x := fresh(v).(type) {
		case string:
			return &x
		case int:
			return &x
		case []int:
			return &x
		case map[string]any:
			return &x
		}
		return v
	}
	var hs []func() any
	if r.Chance(70) {
		hs = append(hs, func() any { return fresh(in) })
	}
	if r.Chance(50) {
		hs = append(hs, func() any { return ptrOf(in) })
	}
	for n := r.Intn(3); n > 0; n-- {
		o := other()
		if r.Chance(30) {
			hs = append(hs, func() any { return ptrOf(o) })
		} else {
			hs = append(hs, func() any { return fresh(o) })
		}
	}
	if r.Chance(15) {
		hs = append(hs, func() any { return 3.5 })
	}
	if r.Chance(10) {
		hs = append(hs, func() any { return nil })
	}
	if len(hs) == 0 {
		hs = append(hs, func() any { return fresh(in) })
	}
	return hs
}

type genState struct{ tag, tid int }

func genPipe(r *hx.Rng, depth int, in string, st *genState, maxChecks int) *pipe {
	if depth > 0 && r.Chance(45) {
		if r.Chance(50) {
			a := genPipe(r, depth-1, in, st, maxChecks)
			st.tid++
			return &pipe{kind: "T", id: st.tid, k: r.Intn(3), a: a}
		}
		a := genPipe(r, depth-1, in, st, maxChecks)
		b := genPipe(r, depth-1, in, st, maxChecks)
		return &pipe{kind: "P", a: a, b: b}
	}
	p := &pipe{kind: "B", tag: st.tag, ptr: r.Chance(30)}
	st.tag++
	n := r.Intn(maxChecks + 1)
	for i := 0; i < n; i++ {
		p.cs = append(p.cs, genCheck(r, in))
	}
	return p
}

func main() {
	repoRoot := flag.String("repo", "/repo", "library source tree (for the go/ast fingerprint of the engine loop)")
	genRaw := flag.String("gen-rawclass", "", "write Gen/RawClass.lean here and exit")
	c := hx.ParseFlags()
	if *genRaw != "" {
		src := genRawClass()
		if old, err := os.ReadFile(*genRaw); err != nil || string(old) != src {
			if err := os.WriteFile(*genRaw, []byte(src), 0o644); err != nil {
				fmt.Fprintln(os.Stderr, "gen-rawclass:", err)
				os.Exit(4)
			}
		}
		return
	}
	o, err := hx.NewOut(c.OutDir)
	if err != nil {
		fmt.Fprintln(os.Stderr, err)
		os.Exit(3)
	}
	r := hx.NewRng(c.Seed)
	n := 60000
	if c.Thorough() {
		n = 1500000
	}
	for i := 0; i < n; i++ {
		in := genString(r, 8)
		st := &genState{}
		depth := 0
		if r.Chance(40) {
			depth = 1 + r.Intn(3)
		}
		p := genPipe(r, depth, in, st, 8)
		how := p.how()
		// value and pointer schemas both accept string and *string inputs
		isPtr := r.Chance(40)
		mk := func() any {
			if isPtr {
				v := in
				return &v
			}
			return in
		}
		if isPtr {
			how += " in=*string"
		} else {
			how += " in=string"
		}
		var hist []func() any
		if r.Chance(40) {
			hist = genHist(r, in, func() any { return genString(r, 8) })
			how += " history=parse-after-every-prefix"
		}
		obs := observe(p, mk, hist, observe1)
		star := ""
		if isPtr {
			star = "*"
		}
		o.Emit(fmt.Sprintf("c10 %s | %s%s #%s", p.tokens(), hexs(in), star, how), obs)
		o.Count("depth:" + strconv.Itoa(depth))
		o.Count("outcome:" + strings.SplitN(obs, " ", 2)[0])
		o.Count("checks:" + strconv.Itoa(len(firstBase(p).cs)))
	}
	nu := 40000
	if c.Thorough() {
		nu = 1000000
	}
	runUniversal(o, r, nu)
	emitShapes(o, *repoRoot)
	if err := o.Close(map[string]any{"seed": c.Seed, "tier": c.Tier}); err != nil {
		fmt.Fprintln(os.Stderr, err)
		os.Exit(3)
	}
}

func firstBase(p *pipe) *pipe {
	for p.kind != "B" {
		p = p.a
	}
	return p
}
