"""C14 — schemas, the registry and global config are safe under concurrent use (PARTIAL)."""
import json, os, shutil
from . import common as C

MANIFEST = dict(
   technique="Lean 4 proofs over tables regenerated from every non-test file of the library by a go/ast translator on each run: (a) lock-sets of all package-level variables, mutex-guarded fields, atomics, Once-written fields and values written after they were published into shared state (Gozod/Gen/LockSets.lean), proved race-free by evaluation of the whole table; (b) the lock-order table (per locking function: acquire/release events, calls that may lock, callbacks; Gozod/Gen/LockOrder.lean) with a general deadlock-freedom theorem for disciplined threads and the discipline proved over the whole table; (c) an interleaving model of the registry and configuration protocols with a linearizability theorem and a verified linearization search that the driver runs on histories recorded from the real code (cross-checked with porcupine); (d) the C08/C12/C15 frame theorems: every schema operation writes only locations it allocated. Failing-schedule search: the harness built with -race, goroutines x operation classes on shared schemas, first-use scenarios behind a start barrier, results cross-checked with run-alone results",
   text="c14_racefree: any two accesses in the regenerated table to one location are both reads, both atomic, ordered by one sync.Once, or inside critical sections of one mutex (writers in W mode). no_deadlock / progress: threads that acquire locks only in increasing rank and end holding nothing never reach a state where some thread is unfinished and none can move; lockorder_disciplined, lockorder_disciplined_any_callback, lockorder_no_nesting, cb_under_lock_sites, table_no_deadlock: every locking function of the library keeps that discipline whatever its callbacks do, no lock is taken while another is held, and no user code runs under a library lock. atomic_linearizable: calls that take effect in one atomic step between invocation and response (registry calls, Config, SetConfig(nil)) produce only linearizable histories; run_alone_key: calls about one schema return what they return in the run containing only them; reads_run_alone; search_sound/search_complete: the search run on recorded histories decides linearizability. c14_schema_ops_read_only: chaining calls, ToJSONSchema and default-resolving Parse leave every pre-existing store location untouched. Witness (open known finding, confirmed on the real code): lazy_cache_unsynchronised (data race). Witnesses about the code before the round-4 fixes (legacy definitions): locales_unsynchronised (now locales_synchronised over the regenerated table), setconfig_lost_update (SetConfig as Load then Store loses updates; the repaired CompareAndSwap version: cas_success_is_atomic / cas_failure_no_effect), range_reenter_undisciplined / range_reenter_stuck (a Range callback under the read lock that uses a chaining method deadlocks).",
   note="PARTIAL. The Go memory model, the sync primitives and the scheduler are not modelled (locks in the deadlock model are exclusive and non-re-entrant); the translator is a syntactic approximation (locks held = Lock/RLock seen earlier in the same function and not yet released; calls and fields resolved by name; mutation through methods of package-level values of foreign types only listed). 'Every result equals the run-alone result' is proved for the registry/configuration model and otherwise checked by the runs: -race scenarios (hand-written, one per shared location with callable accessors, one per conflict of the regenerated table, first-use scenarios over fresh struct types / JSON-Schema documents / 249 generated constructor calls compared with a cold run-alone process) and recorded histories, which observe only the schedules that happen. Trusted: Lean kernel, axioms propext/Classical.choice/Quot.sound, go/ast translator, Go race detector, porcupine (support).",
   design="DESIGN.md §5 C14", category="proof")

MODULES = ["Gozod.Proofs.C14", "Gozod.Proofs.C14Order", "Gozod.Proofs.C14Lin", "Gozod.Proofs.C14RW", "Gozod.Proofs.C14Schema"]
THEOREMS = [
    "Gozod.C14.c14_racefree", "Gozod.C14.c14_racefree_table", "Gozod.C14.c14_schema_ops_read_only", "Gozod.C14.conflicts_complete",
    "Gozod.C14.locales_unsynchronised", "Gozod.C14.locales_synchronised", "Gozod.C14.lazy_cache_unsynchronised",
    # lock order / deadlock freedom (Proofs/C14Order.lean)
    "Gozod.C14.progress", "Gozod.C14.wr_step", "Gozod.C14.no_deadlock", "Gozod.C14.wr_append", "Gozod.C14.wr_segments",
    "Gozod.C14.disciplined_wr", "Gozod.C14.lockorder_disciplined", "Gozod.C14.lockorder_no_nesting", "Gozod.C14.cb_under_lock_sites",
    "Gozod.C14.lockorder_disciplined_any_callback",
    "Gozod.C14.table_no_deadlock", "Gozod.C14.range_reenter_undisciplined", "Gozod.C14.range_reenter_stuck",
    # linearizability of the registry / configuration protocols (Proofs/C14Lin.lean)
    "Gozod.C14.search_sound", "Gozod.C14.search_complete", "Gozod.C14.linearizable_iff", "Gozod.C14.atomic_linearizable",
    "Gozod.C14.reads_run_alone", "Gozod.C14.run_alone_key", "Gozod.C14.store_fresh_is_atomic", "Gozod.C14.setconfig_lost_update",
    "Gozod.C14.cas_success_is_atomic", "Gozod.C14.cas_failure_no_effect",
    # sync.RWMutex against the atomic-step model and the exclusive-lock model (Proofs/C14RW.lean)
    "Gozod.C14.rw_reads_stable", "Gozod.C14.rw_section_result", "Gozod.C14.rw_run_atomic",
    "Gozod.C14.enabled_forget", "Gozod.C14.stepR_forget", "Gozod.C14.no_deadlock_rw",
    # schema operations over the regenerated C08 method table and C12 converter tables (Proofs/C14Schema.lean)
    "Gozod.C14.c14_chain_table_fresh", "Gozod.C14.c14_chain_table_recv_writes", "Gozod.C14.c14_registry_writes_locked",
    "Gozod.C14.c14_convert_table_private", "Gozod.C14.c14_schema_ops_table",
]
GEN = os.path.join(C.LEAN, "Gozod", "Gen", "LockSets.lean")
GEN_ORDER = os.path.join(C.LEAN, "Gozod", "Gen", "LockOrder.lean")
EXPECTED_LOCS = ["core.Registry.meta", "core.globalConfig", "core.modifierPriorityCounter", "regex.macCache",
                 "types.ZodLazyInternals.innerType", "locales.DefaultLocales"]


def key(op, impl, M, S):
    b = C.op_body(op).split(" ")
    if b[1] == "hist":
        return impl.split(" ")[0] + ":" + b[2]          # nonlin:config, nonlin:registry
    return "race:" + C.op_body(op).split(" ")[2] if impl.startswith("RACE") else impl.split(" ")[0] + ":" + C.op_body(op).split(" ")[2]


def build_translator():
    """harness/cmd/c14x is a module of its own (golang.org/x/tools/go/packages v0.50.0 from the module cache: the
    library is loaded with go/types); it does not import the library, so there is nothing to re-point."""
    with C.Lock("go"):
        C.trim_gocache()
        binp = C.harness_bin("C14X")
        os.makedirs(os.path.dirname(binp), exist_ok=True)
        if os.path.exists(binp): os.unlink(binp)
        rc, out = C.run(["go", "build", "-o", binp, "."], cwd=os.path.join(C.HARNESS, "cmd", "c14x"), env=C.goenv(), timeout=1800)
    return rc == 0, out


def regenerate(res):
    ok, out = build_translator()
    if not ok:
        return "translator does not build:\n" + out[-2000:]
    d = os.path.join(C.BUILD, "run", "c14x-%d" % os.getpid())
    shutil.rmtree(d, ignore_errors=True); os.makedirs(d)
    rc, out = C.run([C.harness_bin("C14X"), "-repo", C.REPO, "-out", d], env=C.goenv(), timeout=300)
    if rc == 4:
        return "translator refuses to write the tables: " + out[-2000:]
    if rc != 0:
        return "translator failed (go/packages could not load / type-check the library?): " + out[-2000:]
    new = open(os.path.join(d, "LockSets.lean")).read()
    new_order = open(os.path.join(d, "LockOrder.lean")).read()
    res._accessors_src = open(os.path.join(d, "accessors_gen.go")).read()
    res._constructors_src = open(os.path.join(d, "constructors_gen.go")).read()
    res.coverage["accessor_functions"] = res._accessors_src.count("{fn:")
    res.coverage["constructor_functions"] = res._constructors_src.count("{fn:")
    try:
        res.coverage["library_scan"] = json.load(open(os.path.join(d, "scan.json")))
    except Exception:
        pass
    shutil.rmtree(d, ignore_errors=True)
    if res.coverage.get("library_scan", {}).get("package_level_vars", 0) < 100 or res._constructors_src.count("{fn:") < 50:
        return "translator sees too little of the library (package-level vars / constructors): layout changed?"
    old_order = open(GEN_ORDER).read() if os.path.exists(GEN_ORDER) else ""
    if new_order != old_order:
        with open(GEN_ORDER, "w") as f: f.write(new_order)
        res.notes.append("Gen/LockOrder.lean regenerated (content changed)")
    res.coverage["lockorder_functions"] = new_order.count("⟨")
    missing = [l for l in EXPECTED_LOCS if '"%s"' % l not in new]
    if missing:
        return "translator no longer finds the shared objects %r (renamed or restructured?)" % missing
    old = open(GEN).read() if os.path.exists(GEN) else ""
    if new != old:
        with open(GEN, "w") as f: f.write(new)
        res.notes.append("Gen/LockSets.lean regenerated (content changed)")
    res.coverage["lockset_rows"] = new.count("⟨")
    return None


def regenerate_sibling_tables(res):
    """Proofs/C14Schema.lean states C14 over the C08 method table (Gen/MethodOps.lean) and the C12 converter tables
    (Gen/ConvAccess.lean): regenerate both from REPO with the siblings' own translators (rewritten only when changed),
    so that the C14 proof obligation belongs to the tree this run is about."""
    from . import c08, c12
    ok, err = c08.translate(res)
    if not ok:
        return "C08 method-table translator (harness/opsgen): " + err
    ok, out = C.build_harness("C12")
    if not ok:
        return "C12 harness (converter-table translator) does not build:\n" + out[-2000:]
    env = C.goenv(); env["C12_GEN"] = c12.GEN; env["VERIF_REPO"] = C.REPO
    with C.Lock("c12-gen"):
        rc, out = C.run([C.harness_bin("C12")], env=env, timeout=600)
    if rc != 0:
        return "C12 converter-table translator: " + out[-2000:]
    return None


def conflicts(res):
    """The cells of the regenerated table that falsify raceFree, computed by the Lean model itself (driver_c14
    `conflicts`): [(loc, [fn, ...])]. Empty when the table is race-free (or the driver does not build)."""
    ok, out = C.lake_build(["driver_c14"])
    if not ok:
        return []
    import subprocess
    try:
        o = subprocess.run([C.driver_bin("C14")], input="c14 conflicts\n", capture_output=True, text=True, timeout=120).stdout
    except Exception:
        return []
    line = [l for l in o.split("\n") if l.startswith("conflicts:")]
    if not line or line[0] == "conflicts:":
        return []
    return [(t.split("=")[0], t.split("=")[1].split("+")) for t in line[0][len("conflicts:"):].split(",") if "=" in t]


def build_race(gen_src, ctor_src):
    """go build -race of harness/cmd/c14 with the accessor and constructor tables regenerated from REPO's sources;
    plain build of the history recorder harness/racex (a module of its own: porcupine)."""
    with C.Lock("go"):
        C.trim_gocache()
        d = C.harness_dir()
        for name, src in (("accessors_gen.go", gen_src), ("constructors_gen.go", ctor_src)):
            p = os.path.join(d, "cmd", "c14", name)
            if not os.path.exists(p) or open(p).read() != src:
                with open(p, "w") as f: f.write(src)
        rx = os.path.join(d, "racex")
        gm = open(os.path.join(rx, "go.mod")).read()
        if C.REPO != "/repo" and "=> /repo" in gm:
            open(os.path.join(rx, "go.mod"), "w").write(gm.replace("=> /repo", "=> " + C.REPO))
        shutil.copyfile(os.path.join(C.REPO, "go.sum"), os.path.join(rx, "go.sum"))
        hb = C.harness_bin("C14") + "-hist"
        os.makedirs(os.path.dirname(hb), exist_ok=True)
        if os.path.exists(hb): os.unlink(hb)
        rc, out = C.run(["go", "build", "-o", hb, "."], cwd=rx, env=C.goenv(), timeout=1800)
        if rc != 0:
            return False, "history recorder harness/racex does not build:\n" + out
        binp = C.harness_bin("C14") + "-race"
        os.makedirs(os.path.dirname(binp), exist_ok=True)
        if os.path.exists(binp): os.unlink(binp)
        rc, out = C.run(["go", "build", "-tags", "verif", "-race", "-o", binp, "./cmd/c14"], cwd=d, env=C.goenv(), timeout=1800)
    return rc == 0, out


def race_run(res, targets):
    ok, out = build_race(res._accessors_src, res._constructors_src)
    if not ok:
        return None, "race harness does not build (accessor table regenerated from the sources):\n" + out[-3000:]
    rundir = os.path.join(C.BUILD, "run", "C14-%s-%d" % (res.tier, os.getpid()))
    shutil.rmtree(rundir, ignore_errors=True); os.makedirs(rundir)
    tg = ",".join("%s=%s" % (loc, "+".join(fns)) for loc, fns in targets)
    rc, out = C.run([C.harness_bin("C14") + "-race", "-seed", str(res.seed), "-tier", res.tier, "-out", rundir, "-targets", tg],
                    env=C.goenv(), timeout=3600)
    if rc != 0:
        return None, "race harness failed rc=%d:\n%s" % (rc, out[-3000:])
    # recorded histories of the registry and the configuration (harness/racex), appended to the same streams
    rc, out = C.run([C.harness_bin("C14") + "-hist", "-seed", str(res.seed), "-tier", getattr(res, "_hist_tier", res.tier), "-out", rundir], env=C.goenv(), timeout=1200)
    if rc != 0:
        return None, "history recorder failed rc=%d:\n%s" % (rc, out[-3000:])
    for a, b in (("hist-ops.txt", "ops.txt"), ("hist-impl.txt", "impl.txt")):
        with open(os.path.join(rundir, b), "a") as f: f.write(open(os.path.join(rundir, a)).read())
    try:
        res.coverage["histories"] = json.load(open(os.path.join(rundir, "hist-stats.json")))
    except Exception:
        pass
    with open(os.path.join(rundir, "ops.txt")) as fin, open(os.path.join(rundir, "model.txt"), "w") as fout:
        rc, _ = C.run([C.driver_bin("C14")], stdin=fin, stdout=fout, timeout=600)
    if rc != 0:
        return None, "driver failed"
    rd = lambda n: [l for l in open(os.path.join(rundir, n)).read().split("\n") if l != ""]
    ops, impl, model = rd("ops.txt"), rd("impl.txt"), rd("model.txt")
    stats = json.load(open(os.path.join(rundir, "stats.json")))
    # keep the race detector's reports next to the evidence
    keep = os.path.join(C.EVDIR, "replay")
    os.makedirs(keep, exist_ok=True)
    res._reports = {}
    for f in os.listdir(rundir):
        if f.startswith("race-") or f.startswith("crash-"):
            shutil.copyfile(os.path.join(rundir, f), os.path.join(keep, "C14-%s-%s" % (res.seed, f)))
            res._reports[f] = open(os.path.join(rundir, f), errors="replace").read()
    shutil.rmtree(rundir, ignore_errors=True)
    if not (len(ops) == len(impl) == len(model)):
        return None, "stream length mismatch"
    return (ops, impl, model, stats), ""


_SEED = [1]


def fn_in_report(fn, text):
    """does a function of the lock-set table (pkg.Func / pkg.Recv.Method) occur in a frame of a race / crash report?"""
    import re
    parts = fn.split(".")
    if len(parts) == 2:
        pat = r"/%s\.%s(\[[^\]]*\])?\(" % (re.escape(parts[0]), re.escape(parts[1]))
    else:
        pat = r"/%s\.\(\*?%s(\[[^\]]*\])?\)\.%s\(" % (re.escape(parts[0]), re.escape(parts[1]), re.escape(parts[2]))
    return re.search(pat, text) is not None


def describe(op):
    if C.op_body(op).split(" ")[1] == "hist":
        return ("history recorded by harness/racex from the real code (goroutines released together before every call; <id>/<op>/<result>/<invocation time>/<response time>; "
                "ops: A.k.v Add, G.k Get, H.k Has, R.k Remove, K Range keys, C Config(), Z SetConfig(nil), S.c.l SetConfig{CustomError:c, LocaleError:l}; 0 = nil). "
                "Observation = porcupine's verdict against the Go transcription of the sequential specification; model = Conc.linearizable against Conc.apply; the property wants `lin`.")
    sc = C.op_body(op).split(" ")[2]
    fn = sc.replace(":", "_").replace("/", "_")
    txt = ("scenario %s of harness/cmd/c14 (built with -race; `cache:<loc>` / `target:<loc>` = the callable accessor functions of that "
           "shared location from the regenerated lock-set table, hammered by the goroutines with arguments that miss and hit); re-run: "
           "<harness binary> -scenario %s. The race detector's report / the crash of this run:" % (sc, sc))
    for kind in ("race", "crash"):
        p = os.path.join(C.EVDIR, "replay", "C14-%s-%s-%s.txt" % (_SEED[0], kind, fn))
        if os.path.exists(p):
            head = open(p, errors="replace").read().split("\n")[:60]
            txt += "\n    [%s]\n    " % p + "\n    ".join(head)
    return txt


def run(res):
    _SEED[0] = res.seed
    err = regenerate(res)
    if err:
        C.tie_broken(res, "translator C14/lock-sets", err)
        return res.finish()
    err = regenerate_sibling_tables(res)
    if err:
        C.tie_broken(res, "translator C14/sibling tables (C08 method table, C12 converter tables)", err)
        return res.finish()
    # structure fingerprints of the functions Model/Conc.lean transcribes (registry, configuration): an edit aims the run —
    # the history recorder, whose histories call every one of them, runs at the thorough size
    changed = C.fingerprint(res, "C14")
    gone = [c for c in changed if c[2] == "missing"]
    if gone:
        C.tie_broken(res, "fingerprint " + gone[0][0], "the function transcribed as %s is no longer in the sources" % gone[0][1])
    res._hist_tier = "thorough" if changed else res.tier
    if changed:
        res.notes.append("modelled functions edited since the transcription was validated: " + "; ".join("%s [%s]" % (c[0], c[2]) for c in changed) + " — history recorder at thorough size")
    ok, detail = C.prove(res, MODULES, THEOREMS)
    # When the proof over the regenerated table breaks: the falsifying cells (location + functions) aim the race
    # harness — goroutines hammering exactly those functions — and a race report / crash is the concrete failing
    # execution. Only when none is found does the broken proof stand alone (no-failing-input-found).
    targets = conflicts(res) if not ok else []
    if targets:
        res.notes.append("lock-set table conflicts: " + "; ".join("%s in %s" % (l, "+".join(f)) for l, f in targets))
    data, err = race_run(res, targets)
    if data is None:
        if not ok:
            C.tie_broken(res, "proof Gozod.Proofs.C14 (regenerated lock-set table)", detail)
        C.tie_broken(res, "correspondence C14/race-scenarios", err)
        return res.finish()
    if not ok:
        locs = {l for l, _ in targets}
        fns = {f for _, fs in targets for f in fs}
        # a targeted / generic scenario of a conflicting location that races or crashes, or any scenario whose race
        # report starts in one of the conflicting functions
        def report_names_conflict(o):
            sc = C.op_body(o).split(" ")[2].replace(":", "_").replace("/", "_")
            txt = "".join(t for f, t in getattr(res, "_reports", {}).items() if f.endswith("-" + sc + ".txt"))
            return any(fn_in_report(f, txt) for f in fns)
        confirmed = [o for o, i in zip(data[0], data[1])
                     if C.op_body(o).split(" ")[1] == "race" and i != "norace ok" and (
                        C.op_body(o).split(" ")[2].partition(":")[2] in locs
                        or (i.startswith("RACE ") and i.split(" ")[1].split("/")[-1] in fns)
                        or report_names_conflict(o))]
        if confirmed:
            res.notes.append("broken lock-set proof confirmed by a concrete execution: " + ", ".join(C.op_body(o).split(" ")[2] for o in confirmed))
        else:
            C.tie_broken(res, "proof Gozod.Proofs.C14 (regenerated lock-set table)", detail)
    C.decide(res, "C14", data, key, "C14/race-scenarios", describe=describe)
    res.coverage["rule"] = ("cache:<loc> = every callable accessor function of a shared location of the regenerated table (accessors_gen.go, regenerated by c14x) hammered with fresh (miss) and fixed (hit) arguments; "
        "target:<loc> = the same restricted to the functions of a conflicting table cell, 10x longer, only when the table proof breaks; 9 hand-written scenarios (shared Parse/StrictParse; chaining incl. Record.Partial; ToJSONSchema+Parse+chaining on relatives; registry "
        "Add/Get/Has/Remove/Range + Meta/Describe; SetConfig/Config + Parse; first use of a lazy schema vs chaining (40 fresh schemas); regex-cache "
        "backed formats; RegisterLocale vs formatters; every schema type: probe-set parse + ToJSONSchema + Optional + Describe), each in its own "
        "process under the race detector, 8 goroutines x 60 iterations x rounds (thorough: 16 x 400), every result compared with the run-alone result "
        "of a twin family. first-use:<family> = every entry (struct type / JSON-Schema document / constructor the process has not used) called by all goroutines at once behind a spin barrier, "
        "rendering compared with a cold run-alone process; range-reenter = Range callback using a chaining method, 4 s watchdog. "
        "hist <kind> = histories recorded from the real registry / configuration (harness/racex: 3 goroutines x 2 calls released together before every call, + calls afterwards), "
        "all non-linearizable ones (first 5) and a sample of the linearizable ones; distinct = scenarios + histories.")
    res.assumptions += [
        "Go memory model, sync.Mutex/RWMutex/Once and sync/atomic behave as documented (not modelled)",
        "the race detector only sees the schedules that occur in the run",
        "lock-sets and lock order are extracted from every non-test file of the library outside examples/, docs/, testdata/, cmd/ by a go/ast walk over trees type-checked with go/types (callees, selected fields, sync kinds and package-level variables resolved by object, interface calls by the implementing types); locks held at a point = Lock/RLock earlier in the same function and not yet released (flow-insensitive)",
        "recorded histories: invocation/response order taken from one global atomic counter; only the schedules that occur are observed",
    ]
    return res.finish()
