/-
  C17, text sources: `strconv.ParseInt` / `ParseUint` / `FormatInt` as Lean functions
  (`Gozod.Model.ParseInt`) with the theorems that make integer-string sources part of the proof
  instead of assumptions shipped by the harness:

  * `parseInt_sound`     — `parseInt s bits = some n →` `s` is a decimal numeral denoting `n`
                           (`Denotes`, a positional reading independent of the parser's loop) and
                           `n` fits `bits` bits;
  * `parseInt_complete`  — conversely every numeral whose value fits is accepted with that value
                           (so the accepted language is exactly sign? digit+, leading zeros and a
                           leading plus included);
  * `parseInt_formatInt` — `parseInt (formatInt n) bits = some n` for every `n` of the width
                           (all of int64 for `bits = 64`); `parseUint_formatNat` likewise;
  * `formatInt_denotes`  — the text `FormatInt` writes denotes the number (ToString of integers);
  * `parseInt_rejects_underscore`, `parseInt_rejects` — `_`, blanks inside, a bare sign, the empty
                           string, a second sign are errors; range errors at every width.
-/
import Gozod.Model.ParseInt
namespace Gozod.C17P
open Gozod.ParseInt

/-! ## the digit loop against the positional value -/

theorem digitVal_dec (d : Nat) (h : d < 10) : digitVal 10 (d + 48) = some d := by
  unfold digitVal
  rw [if_pos (by omega)]
  congr 1

theorem digitVal_dec_inv (b d : Nat) (h : digitVal 10 b = some d) : b = d + 48 ∧ d < 10 := by
  unfold digitVal at h
  by_cases h1 : 48 ≤ b ∧ b ≤ 57
  · rw [if_pos h1] at h; injection h with h; omega
  · rw [if_neg h1, if_neg (by omega), if_neg (by omega)] at h; cases h

/-- The accumulator loop computes the positional value. -/
theorem digitsVal_map (ds : List Nat) : ∀ acc, (∀ d ∈ ds, d < 10) →
    digitsVal 10 (ds.map (· + 48)) acc = some (acc * 10 ^ ds.length + posVal 10 ds) := by
  induction ds with
  | nil => intro acc _; simp [digitsVal, posVal]
  | cons d ds ih =>
    intro acc h
    have hd : d < 10 := h d (List.mem_cons_self ..)
    have ht : ∀ x ∈ ds, x < 10 := fun x hx => h x (List.mem_cons_of_mem _ hx)
    simp only [List.map_cons, digitsVal, digitVal_dec d hd, ih _ ht, posVal, List.length_cons]
    congr 1
    rw [Nat.pow_succ, Nat.add_mul, Nat.mul_assoc, Nat.mul_comm 10, Nat.add_assoc]

/-- …and accepts nothing but digit strings. -/
theorem digitsVal_sound (bs : List Nat) : ∀ acc n, digitsVal 10 bs acc = some n →
    ∃ ds, bs = ds.map (· + 48) ∧ (∀ d ∈ ds, d < 10) ∧ n = acc * 10 ^ ds.length + posVal 10 ds := by
  induction bs with
  | nil => intro acc n h; simp [digitsVal] at h; exact ⟨[], rfl, by simp, by simp [posVal, h]⟩
  | cons b bs ih =>
    intro acc n h
    simp only [digitsVal] at h
    cases hb : digitVal 10 b with
    | none => rw [hb] at h; cases h
    | some d =>
      rw [hb] at h
      have ⟨hbd, hd⟩ := digitVal_dec_inv b d hb
      have ⟨ds, e, hall, hn⟩ := ih _ _ h
      refine ⟨d :: ds, by simp [e, hbd], ?_, ?_⟩
      · intro x hx
        rcases List.mem_cons.mp hx with rfl | hx
        · exact hd
        · exact hall x hx
      · rw [hn]; simp only [posVal, List.length_cons]
        rw [Nat.pow_succ, Nat.add_mul, Nat.mul_assoc, Nat.mul_comm 10, Nat.add_assoc]

theorem map_ne_nil {ds : List Nat} (h : ds ≠ []) : ds.map (· + 48) ≠ [] := by
  cases ds with
  | nil => exact absurd rfl h
  | cons _ _ => simp

/-- `ParseUint` on a digit string. -/
theorem parseUint_digits (ds : List Nat) (bits : Nat) (hne : ds ≠ []) (hall : ∀ d ∈ ds, d < 10) :
    parseUint (ds.map (· + 48)) bits = if posVal 10 ds < 2 ^ bits then some (posVal 10 ds) else none := by
  have h := digitsVal_map ds 0 hall
  simp only [Nat.zero_mul, Nat.zero_add] at h
  unfold parseUint
  rw [if_neg (map_ne_nil hne), h]

theorem parseUint_sound (bs : List Nat) (bits n : Nat) (h : parseUint bs bits = some n) :
    ∃ ds, bs = ds.map (· + 48) ∧ ds ≠ [] ∧ (∀ d ∈ ds, d < 10) ∧ n = posVal 10 ds ∧ n < 2 ^ bits := by
  unfold parseUint at h
  by_cases hne : bs = []
  · rw [if_pos hne] at h; cases h
  · rw [if_neg hne] at h
    cases hd : digitsVal 10 bs 0 with
    | none => rw [hd] at h; cases h
    | some m =>
      rw [hd] at h
      simp only [] at h
      have ⟨ds, e, hall, hm⟩ := digitsVal_sound bs 0 m hd
      by_cases hlt : m < 2 ^ bits
      · rw [if_pos hlt] at h; injection h with h; subst h
        refine ⟨ds, e, ?_, hall, by simpa using hm, hlt⟩
        intro hnil; subst hnil; exact hne e
      · rw [if_neg hlt] at h; cases h

/-! ## ParseInt -/

theorem splitSign_digits (ds : List Nat) (hne : ds ≠ []) (hall : ∀ d ∈ ds, d < 10) :
    splitSign (ds.map (· + 48)) = (false, ds.map (· + 48)) := by
  cases ds with
  | nil => exact absurd rfl hne
  | cons d ds =>
    have hd : d < 10 := hall d (List.mem_cons_self ..)
    simp only [List.map_cons]
    unfold splitSign
    split
    · rename_i e; injection e with e _; omega
    · rename_i e; injection e with e _; omega
    · rfl

/-- What `splitSign` did: nothing, or removed one leading `+` / `-`. -/
theorem splitSign_cases (bs : List Nat) :
    ((splitSign bs).1 = false ∧ (bs = (splitSign bs).2 ∨ bs = 43 :: (splitSign bs).2)) ∨
    ((splitSign bs).1 = true ∧ bs = 45 :: (splitSign bs).2) := by
  unfold splitSign
  split
  · exact Or.inl ⟨rfl, Or.inr rfl⟩
  · exact Or.inr ⟨rfl, rfl⟩
  · exact Or.inl ⟨rfl, Or.inl rfl⟩

/-- **Soundness**: whatever `ParseInt` returns is the value the text denotes, and it fits. -/
theorem parseInt_sound (bs : List Nat) (bits : Nat) (n : Int)
    (h : parseInt bs bits = some n) :
    Denotes bs n ∧ -(2 ^ (bits - 1) : Int) ≤ n ∧ n < 2 ^ (bits - 1) := by
  unfold parseInt at h
  have hsc := splitSign_cases bs
  generalize splitSign bs = p at h hsc
  obtain ⟨neg, rest⟩ := p
  simp only [] at h hsc
  cases hu : parseUint rest bits with
  | none => rw [hu] at h; cases h
  | some un =>
    rw [hu] at h
    simp only [] at h
    have ⟨ds, e, hdne, hall, hun, _⟩ := parseUint_sound _ bits un hu
    have hcast : ((2 ^ (bits - 1) : Nat) : Int) = (2 : Int) ^ (bits - 1) := by
      simp [Int.natCast_pow]
    have hpos : (0 : Int) < 2 ^ (bits - 1) := Int.pow_pos (by decide)
    rcases hsc with ⟨hneg, hbs⟩ | ⟨hneg, hbs⟩
    · subst hneg
      simp only [Bool.false_eq_true, ↓reduceIte] at h
      by_cases hc : un ≥ 2 ^ (bits - 1)
      · rw [if_pos hc] at h; cases h
      · rw [if_neg hc] at h
        injection h with h; subst h
        refine ⟨?_, by omega, by rw [← hcast]; exact Int.ofNat_lt.mpr (by omega)⟩
        rcases hbs with hbs | hbs
        · exact ⟨false, [], ds, by rw [hbs, e]; rfl, hdne, hall, Or.inl ⟨rfl, Or.inl rfl⟩, by simp [hun]⟩
        · exact ⟨false, [43], ds, by rw [hbs, e]; rfl, hdne, hall, Or.inl ⟨rfl, Or.inr rfl⟩, by simp [hun]⟩
    · subst hneg
      simp only [↓reduceIte] at h
      by_cases hc : un > 2 ^ (bits - 1)
      · rw [if_pos hc] at h; cases h
      · rw [if_neg hc] at h
        injection h with h; subst h
        refine ⟨⟨true, [45], ds, by rw [hbs, e]; rfl, hdne, hall, Or.inr ⟨rfl, rfl⟩, by simp [hun]⟩, ?_, ?_⟩
        · rw [← hcast]
          have : ((un : Nat) : Int) ≤ ((2 ^ (bits - 1) : Nat) : Int) := Int.ofNat_le.mpr (by omega)
          omega
        · omega

/-- **Completeness**: every decimal numeral whose value fits `bits` bits is accepted, with the
    value it denotes — leading zeros, a leading plus and `-2^(bits-1)` included. -/
theorem parseInt_complete (bs : List Nat) (bits : Nat) (n : Int) (hb : 1 ≤ bits)
    (hd : Denotes bs n) (hlo : -(2 ^ (bits - 1) : Int) ≤ n) (hhi : n < 2 ^ (bits - 1)) :
    parseInt bs bits = some n := by
  obtain ⟨neg, sign, ds, e, hne, hall, hsg, hn⟩ := hd
  have hcast : ((2 ^ (bits - 1) : Nat) : Int) = (2 : Int) ^ (bits - 1) := by simp [Int.natCast_pow]
  have hpow : 2 ^ bits = 2 * 2 ^ (bits - 1) := by
    have : bits = (bits - 1) + 1 := by omega
    rw [this, Nat.pow_succ, Nat.add_sub_cancel]; omega
  have hpu := parseUint_digits ds bits hne hall
  rcases hsg with ⟨hneg, hs | hs⟩ | ⟨hneg, hs⟩
  · -- no sign
    subst hneg hs
    simp only [List.nil_append, Bool.false_eq_true, ↓reduceIte] at e hn
    have hv : posVal 10 ds < 2 ^ (bits - 1) := by
      rw [hn, ← hcast] at hhi; exact Int.ofNat_lt.mp hhi
    unfold parseInt
    rw [e, splitSign_digits ds hne hall]
    simp only []
    rw [hpu, if_pos (by omega)]
    simp only [Bool.false_eq_true, ↓reduceIte]
    rw [if_neg (by omega), hn]
  · -- plus
    subst hneg hs
    simp only [Bool.false_eq_true, ↓reduceIte] at hn
    have hv : posVal 10 ds < 2 ^ (bits - 1) := by
      rw [hn, ← hcast] at hhi; exact Int.ofNat_lt.mp hhi
    rw [e]
    show parseInt (43 :: ds.map (· + 48)) bits = some n
    simp only [parseInt, splitSign]
    rw [hpu, if_pos (by omega)]
    simp only [Bool.false_eq_true, ↓reduceIte]
    rw [if_neg (by omega), hn]
  · -- minus
    subst hneg hs
    simp only [↓reduceIte] at hn
    have hv : posVal 10 ds ≤ 2 ^ (bits - 1) := by
      rw [hn, ← hcast] at hlo
      have : ((posVal 10 ds : Nat) : Int) ≤ ((2 ^ (bits - 1) : Nat) : Int) := by omega
      exact Int.ofNat_le.mp this
    rw [e]
    show parseInt (45 :: ds.map (· + 48)) bits = some n
    simp only [parseInt, splitSign]
    rw [hpu, if_pos (by omega)]
    simp only [↓reduceIte]
    rw [if_neg (by omega), hn]

/-- `ParseInt` accepts exactly the numerals whose value fits. -/
theorem parseInt_iff (bs : List Nat) (bits : Nat) (n : Int) (hb : 1 ≤ bits) :
    parseInt bs bits = some n ↔ (Denotes bs n ∧ -(2 ^ (bits - 1) : Int) ≤ n ∧ n < 2 ^ (bits - 1)) :=
  ⟨parseInt_sound bs bits n, fun ⟨hd, hlo, hhi⟩ => parseInt_complete bs bits n hb hd hlo hhi⟩

/-! ## FormatInt -/

theorem natDigitsAux_spec : ∀ (fuel n : Nat) (acc : List Nat), n < 2 ^ fuel → 0 < fuel → (∀ d ∈ acc, d < 10) →
    (∀ d ∈ natDigitsAux fuel n acc, d < 10) ∧ natDigitsAux fuel n acc ≠ [] ∧
    posVal 10 (natDigitsAux fuel n acc) = n * 10 ^ acc.length + posVal 10 acc := by
  intro fuel
  induction fuel with
  | zero => intro n acc _ h; exact absurd h (by decide)
  | succ fuel ih =>
    intro n acc hn _ hacc
    unfold natDigitsAux
    by_cases h10 : n < 10
    · rw [if_pos h10]
      refine ⟨?_, by simp, by simp [posVal]⟩
      intro d hd
      rcases List.mem_cons.mp hd with rfl | hd
      · exact h10
      · exact hacc d hd
    · rw [if_neg h10]
      have hf : 0 < fuel := by
        cases fuel with
        | zero => simp at hn; omega
        | succ _ => omega
      have hlt : n / 10 < 2 ^ fuel := by
        rw [Nat.pow_succ] at hn; omega
      have hacc' : ∀ d ∈ n % 10 :: acc, d < 10 := by
        intro d hd
        rcases List.mem_cons.mp hd with rfl | hd
        · omega
        · exact hacc d hd
      have ⟨h1, h2, h3⟩ := ih (n / 10) (n % 10 :: acc) hlt hf hacc'
      refine ⟨h1, h2, ?_⟩
      rw [h3]; simp only [posVal, List.length_cons]
      rw [Nat.pow_succ, ← Nat.add_assoc]
      congr 1
      have h := Nat.div_add_mod n 10
      calc n / 10 * (10 ^ acc.length * 10) + n % 10 * 10 ^ acc.length
          = (10 * (n / 10) + n % 10) * 10 ^ acc.length := by
            rw [Nat.add_mul, Nat.mul_comm 10 (n / 10), Nat.mul_assoc, Nat.mul_comm 10]
        _ = n * 10 ^ acc.length := by rw [h]

theorem natDigits_spec (n : Nat) :
    (∀ d ∈ natDigits n, d < 10) ∧ natDigits n ≠ [] ∧ posVal 10 (natDigits n) = n := by
  have h := natDigitsAux_spec (n.log2 + 1) n [] Nat.lt_log2_self (by omega) (by simp)
  simpa [natDigits, posVal] using h

/-- **The text `FormatInt` writes denotes the number.** -/
theorem formatInt_denotes (n : Int) : Denotes (formatInt n) n := by
  have ⟨h1, h2, h3⟩ := natDigits_spec n.natAbs
  unfold formatInt
  by_cases hneg : n < 0
  · rw [if_pos hneg]
    exact ⟨true, [45], natDigits n.natAbs, rfl, h2, h1, Or.inr ⟨rfl, rfl⟩, by simp [h3]; omega⟩
  · rw [if_neg hneg]
    exact ⟨false, [], natDigits n.natAbs, rfl, h2, h1, Or.inl ⟨rfl, Or.inl rfl⟩, by simp [h3]; omega⟩

/-- **Round trip**: `ParseInt(FormatInt(n, 10), 10, bits) = n` for every `n` of the width —
    all of int64 for `bits = 64`. -/
theorem parseInt_formatInt (bits : Nat) (n : Int) (hb : 1 ≤ bits)
    (hlo : -(2 ^ (bits - 1) : Int) ≤ n) (hhi : n < 2 ^ (bits - 1)) :
    parseInt (formatInt n) bits = some n :=
  parseInt_complete _ bits n hb (formatInt_denotes n) hlo hhi

theorem parseInt_formatInt_i64 (n : Int) (hlo : -(2 ^ 63 : Int) ≤ n) (hhi : n < 2 ^ 63) :
    parseInt (formatInt n) 64 = some n := parseInt_formatInt 64 n (by decide) hlo hhi

/-- `ParseUint(FormatUint(n, 10), 10, bits) = n` for every `n < 2^bits`. -/
theorem parseUint_formatNat (bits n : Nat) (h : n < 2 ^ bits) : parseUint (formatNat n) bits = some n := by
  have ⟨h1, h2, h3⟩ := natDigits_spec n
  unfold formatNat
  rw [parseUint_digits _ bits h2 h1, h3, if_pos h]

/-- `SetString(FormatInt(n), 10)` reads every integer back (no range). -/
theorem parseBig_formatInt (n : Int) : parseBig (formatInt n) 10 = some n := by
  have ⟨h1, h2, h3⟩ := natDigits_spec n.natAbs
  have hd := digitsVal_map (natDigits n.natAbs) 0 h1
  simp only [Nat.zero_mul, Nat.zero_add, h3] at hd
  unfold formatInt
  by_cases hneg : n < 0
  · rw [if_pos hneg]
    simp only [parseBig, splitSign, formatNat]
    rw [if_neg (map_ne_nil h2), hd]; simp; omega
  · rw [if_neg hneg]
    simp only [parseBig, formatNat, splitSign_digits _ h2 h1]
    rw [if_neg (map_ne_nil h2), hd]; simp; omega

/-- `SetString(s, 10)` accepts exactly the decimal numerals (same language as `ParseInt`, no range). -/
theorem parseBig_sound (bs : List Nat) (n : Int) (h : parseBig bs 10 = some n) : Denotes bs n := by
  unfold parseBig at h
  have hsc := splitSign_cases bs
  generalize splitSign bs = p at h hsc
  obtain ⟨neg, rest⟩ := p
  simp only [] at h hsc
  by_cases hne : rest = []
  · rw [if_pos hne] at h; cases h
  · rw [if_neg hne] at h
    cases hd : digitsVal 10 rest 0 with
    | none => rw [hd] at h; cases h
    | some m =>
      rw [hd] at h
      simp only [] at h
      injection h with h
      have ⟨ds, e, hall, hm⟩ := digitsVal_sound rest 0 m hd
      have hm' : m = posVal 10 ds := by simpa using hm
      have hdne : ds ≠ [] := by intro hnil; subst hnil; exact hne e
      rcases hsc with ⟨hneg, hbs | hbs⟩ | ⟨hneg, hbs⟩
      · subst hneg
        exact ⟨false, [], ds, by rw [hbs, e]; rfl, hdne, hall, Or.inl ⟨rfl, Or.inl rfl⟩, by simp [← h, hm']⟩
      · subst hneg
        exact ⟨false, [43], ds, by rw [hbs, e]; rfl, hdne, hall, Or.inl ⟨rfl, Or.inr rfl⟩, by simp [← h, hm']⟩
      · subst hneg
        exact ⟨true, [45], ds, by rw [hbs, e]; rfl, hdne, hall, Or.inr ⟨rfl, rfl⟩, by simp [← h, hm']⟩

/-! ## TrimSpace leaves numerals alone -/

theorem spaceAtHead_ascii (b : Nat) (rest : List Nat) (h : 33 ≤ b ∧ b ≤ 127) : spaceAtHead (b :: rest) = 0 := by
  unfold spaceAtHead
  split <;> simp_all <;> omega

theorem spaceAtEndRev_ascii (b : Nat) (rest : List Nat) (h : 33 ≤ b ∧ b ≤ 127) : spaceAtEndRev (b :: rest) = 0 := by
  unfold spaceAtEndRev
  split <;> simp_all <;> omega

theorem stripWith_zero (f : List Nat → Nat) (fuel : Nat) (bs : List Nat) (h : f bs = 0) : stripWith f fuel bs = bs := by
  cases fuel with
  | zero => rfl
  | succ k => simp [stripWith, h]

/-- Text made of printable ASCII (no blank) is its own trim. -/
theorem trimSpace_ascii (bs : List Nat) (h : ∀ b ∈ bs, 33 ≤ b ∧ b ≤ 127) : trimSpace bs = bs := by
  unfold trimSpace
  have h1 : stripWith spaceAtHead bs.length bs = bs := by
    cases bs with
    | nil => rfl
    | cons b rest => exact stripWith_zero _ _ _ (spaceAtHead_ascii b rest (h b (List.mem_cons_self ..)))
  simp only [h1]
  have h2 : stripWith spaceAtEndRev bs.length bs.reverse = bs.reverse := by
    cases hr : bs.reverse with
    | nil => cases bs.length <;> rfl
    | cons b rest =>
      have hb : b ∈ bs := by
        have : b ∈ bs.reverse := by rw [hr]; exact List.mem_cons_self ..
        exact List.mem_reverse.mp this
      exact stripWith_zero _ _ _ (spaceAtEndRev_ascii b rest (h b hb))
  rw [h2, List.reverse_reverse]

theorem formatInt_ascii (n : Int) : ∀ b ∈ formatInt n, 33 ≤ b ∧ b ≤ 127 := by
  have ⟨h1, _, _⟩ := natDigits_spec n.natAbs
  have hd : ∀ b ∈ formatNat n.natAbs, 33 ≤ b ∧ b ≤ 127 := by
    intro b hb
    unfold formatNat at hb
    obtain ⟨d, hd, rfl⟩ := List.mem_map.mp hb
    have := h1 d hd
    omega
  intro b hb
  unfold formatInt at hb
  by_cases hneg : n < 0
  · rw [if_pos hneg] at hb
    rcases List.mem_cons.mp hb with rfl | hb
    · omega
    · exact hd b hb
  · rw [if_neg hneg] at hb; exact hd b hb

theorem trimSpace_formatInt (n : Int) : trimSpace (formatInt n) = formatInt n :=
  trimSpace_ascii _ (formatInt_ascii n)

theorem denotes_ne_nil (bs : List Nat) (n : Int) (h : Denotes bs n) : bs ≠ [] := by
  obtain ⟨_, sign, ds, e, hne, _⟩ := h
  intro hnil
  rw [hnil] at e
  have := congrArg List.length e
  simp at this
  cases ds with
  | nil => exact hne rfl
  | cons _ _ => simp at this

/-! ## what is rejected -/

theorem digitsVal_rejects (base : Nat) (bs : List Nat) (b : Nat) (hb : digitVal base b = none) (hm : b ∈ bs) :
    ∀ acc, digitsVal base bs acc = none := by
  induction bs with
  | nil => cases hm
  | cons c cs ih =>
    intro acc
    simp only [digitsVal]
    cases hc : digitVal base c with
    | none => rfl
    | some d =>
      simp only []
      rcases List.mem_cons.mp hm with rfl | hm
      · rw [hb] at hc; cases hc
      · exact ih hm _

/-- A byte that is neither a digit nor a leading sign anywhere in the text is a syntax error:
    underscores (`"1_000"`), blanks inside (`"1 2"`), letters, a decimal point, an exponent. -/
theorem parseInt_rejects (bs : List Nat) (bits b : Nat) (hm : b ∈ bs) (hb : digitVal 10 b = none)
    (hs : b ≠ 43 ∧ b ≠ 45) : parseInt bs bits = none := by
  have hrest : b ∈ (splitSign bs).2 := by
    rcases splitSign_cases bs with ⟨_, h | h⟩ | ⟨_, h⟩
    · rw [← h]; exact hm
    · rw [h] at hm
      rcases List.mem_cons.mp hm with h' | h'
      · exact absurd h' hs.1
      · exact h'
    · rw [h] at hm
      rcases List.mem_cons.mp hm with h' | h'
      · exact absurd h' hs.2
      · exact h'
  have : parseUint (splitSign bs).2 bits = none := by
    unfold parseUint
    split
    · rfl
    · rw [digitsVal_rejects 10 _ b hb hrest]
  unfold parseInt
  rw [this]

theorem parseInt_rejects_underscore (bs : List Nat) (bits : Nat) (hm : 95 ∈ bs) : parseInt bs bits = none :=
  parseInt_rejects bs bits 95 hm (by decide) (by decide)

/-- Boundary instances at every width (range errors just outside, acceptance at the limits,
    leading zeros and plus, bare signs, double signs, empty). `"-128"` = [45,49,50,56]. -/
theorem parseInt_boundaries :
    parseInt [45, 49, 50, 56] 8 = some (-128) ∧ parseInt [45, 49, 50, 57] 8 = none ∧
    parseInt [49, 50, 55] 8 = some 127 ∧ parseInt [49, 50, 56] 8 = none ∧
    parseInt [43, 48, 48, 49, 50, 55] 8 = some 127 ∧
    parseInt (formatInt (2 ^ 63 - 1)) 64 = some (2 ^ 63 - 1) ∧ parseInt (formatInt (2 ^ 63)) 64 = none ∧
    parseInt (formatInt (-(2 ^ 63))) 64 = some (-(2 ^ 63)) ∧ parseInt (formatInt (-(2 ^ 63) - 1)) 64 = none ∧
    parseInt [] 64 = none ∧ parseInt [43] 64 = none ∧ parseInt [45] 64 = none ∧
    parseInt [45, 45, 49] 64 = none ∧ parseInt [43, 45, 49] 64 = none ∧
    parseUint [43, 49] 64 = none ∧ parseUint (formatNat (2 ^ 64 - 1)) 64 = some (2 ^ 64 - 1) ∧
    parseUint (formatNat (2 ^ 64)) 64 = none := by
  decide +kernel

example : Denotes [43, 48, 55] 7 ∧ parseInt [43, 48, 55] 8 = some 7 :=
  ⟨⟨false, [43], [0, 7], rfl, by simp, by decide, Or.inl ⟨rfl, Or.inr rfl⟩, by decide⟩, by decide⟩

/-! ## TrimSpace (sample; the function is driven against `strings.TrimSpace`) -/

/-- " \t7 　" → "7"; an incomplete white-space encoding is kept; all-blank → "". -/
theorem trimSpace_samples :
    trimSpace [32, 9, 55, 0xC2, 0xA0, 0xE3, 0x80, 0x80] = [55] ∧
    trimSpace [0xE2, 0x80, 55] = [0xE2, 0x80, 55] ∧ trimSpace [55, 0xC2] = [55, 0xC2] ∧
    trimSpace [32, 0xE2, 0x80, 0x8A, 10] = [] ∧ trimSpace [49, 32, 50] = [49, 32, 50] := by
  decide

end Gozod.C17P
