/-
  C08 — behaviour theorem for primitive schemas with checks (round 4c, audit A M9).

  The main theorems of Proofs/C08.lean conclude STORE-OBSERVATION equality (`obs … s = obs … s`).  "Same verdict
  and result on every input" follows from it through a bridge: Parse is a function of what `obs` reads.  For objects
  (`c08o_behaviour`: `objParse`) and holders (`c08h_behaviour`: `hAccept`) that function is written down and the
  theorem is about it.  Here the same is done for primitives with checks: the Parse of a type-correct non-nil input
  IS C10's `runChecksOn` (Model/Checks.lean, the transcription of internal/engine/checker.go:executeChecks and of the
  pointer-input paths, tied to the code by C10's own correspondence) over the schema's CHECK LIST — and the check
  list is an observed cell: the ids the slice header reads out of the store (`Obs.checks = readArr h s.checks`), each
  denoting an immutable check object (`dec`; `table_all_covered`: no chaining method calls anything on a shared check
  object).  Unchanged list ⇒ unchanged verdict, value and callback log, for EVERY input, every environment of
  callbacks and every decoding — along every history.

  For the remaining kinds (Struct, DiscriminatedUnion, Map, Set, Array, Lazy, Function, File, …) and for
  ToJSONSchema of non-object, non-holder schemas the bridge stays a NAMED ASSUMPTION (`ObsDetermines`, below), tied
  by the run's behavioural fingerprints only; `c08_behaviour_of_bridge` is the (one-line) consequence the MANIFEST
  text refers to.
-/
import Gozod.Proofs.C08
import Gozod.Model.Checks
namespace Gozod.C08
open Gozod.Store Gozod

section
variable {P O T V : Type}

/-- the checks a schema runs: the ids its slice header reads out of the store, each the immutable check object `dec` says -/
def checkList (dec : Nat → Check P O) (h : Loc → Option Cell) (s : Schema) : List (Check P O) :=
  (readArr h s.checks).map dec

/-- Parse of a primitive schema on a type-correct non-nil input (`ptrSchema`: the `…Ptr` constructor variant,
    `ptrIn`: the input is handed in as a pointer): C10's `runChecksOn` over the schema's check list -/
def primRun (env : Env P O T V) (dec : Nat → Check P O) (ptrSchema ptrIn : Bool) (h : Loc → Option Cell)
    (s : Schema) (v : V) : Run V :=
  runChecksOn env ptrSchema ptrIn (checkList dec h s) v

/-- the verdict: no check reported an issue -/
def primAccepts (env : Env P O T V) (dec : Nat → Check P O) (ptrSchema ptrIn : Bool) (h : Loc → Option Cell)
    (s : Schema) (v : V) : Bool :=
  (primRun env dec ptrSchema ptrIn h s v).issues.isEmpty

/-- the check list is part of the observation -/
theorem checkList_of_obs (dec : Nat → Check P O) (h h' : Loc → Option Cell) (s : Schema)
    (e : obs h' s = obs h s) : checkList dec h' s = checkList dec h s := by
  have hc : (obs h' s).checks = (obs h s).checks := congrArg Obs.checks e
  simp only [obs] at hc
  simp [checkList, hc]

theorem primRun_of_obs (env : Env P O T V) (dec : Nat → Check P O) (ps pi : Bool) (h h' : Loc → Option Cell)
    (s : Schema) (e : obs h' s = obs h s) (v : V) : primRun env dec ps pi h' s v = primRun env dec ps pi h s v := by
  simp [primRun, checkList_of_obs dec h h' s e]

/-- **c08p_step — one call**: whatever chaining call (of an op class the code has) is made on whatever live
    receiver, every live primitive schema — receiver, ancestors, siblings — runs exactly the same checks afterwards:
    same verdict, same resulting value, same callback log on EVERY input. -/
theorem c08p_step (cfg : Cfg) (hcfg : cfg.cloneBagAlways = true) (σ : Store) (live : List Schema)
    (recv : Schema) (op : Op) (hi : Inv σ live) (hr : recv ∈ live) (hok : Op.ok op) (hm : op.isMetaSelf = false)
    (env : Env P O T V) (dec : Nat → Check P O) (ps pi : Bool) :
    ∀ s ∈ live, ∀ v : V,
      primRun env dec ps pi (applyOp cfg σ recv op).1.heap s v = primRun env dec ps pi σ.heap s v := by
  intro s hs v
  exact primRun_of_obs env dec ps pi _ _ s ((c08_step cfg hcfg σ live recv op hi hr hok hm).2.2 s hs) v

/-- **c08p_hist — every history**: along any history of chaining calls every schema that was live at the start
    gives the same verdict, value and log on every input at the end. -/
theorem c08p_hist (cfg : Cfg) (hcfg : cfg.cloneBagAlways = true) (ops : List (Nat × Op)) (σ : Store)
    (live : List Schema) (hi : Inv σ live) (hok : opsOK ops)
    (env : Env P O T V) (dec : Nat → Check P O) (ps pi : Bool) :
    ∀ s ∈ live, ∀ v : V,
      primRun env dec ps pi (runHist cfg σ live ops).1.heap s v = primRun env dec ps pi σ.heap s v ∧
      primAccepts env dec ps pi (runHist cfg σ live ops).1.heap s v = primAccepts env dec ps pi σ.heap s v := by
  intro s hs v
  have e := (c08_hist cfg hcfg ops σ live hi hok).2.2 s hs
  have h1 := primRun_of_obs env dec ps pi σ.heap (runHist cfg σ live ops).1.heap s e v
  exact ⟨h1, by simp [primAccepts, h1]⟩

/-- "…and every schema previously derived from it": what was live after any prefix of the history behaves the
    same after the rest of it. -/
theorem c08p_hist_all (cfg : Cfg) (hcfg : cfg.cloneBagAlways = true) (a b : List (Nat × Op))
    (σ : Store) (live : List Schema) (hi : Inv σ live) (ha : opsOK a) (hb : opsOK b)
    (env : Env P O T V) (dec : Nat → Check P O) (ps pi : Bool) :
    ∀ s ∈ (runHist cfg σ live a).2, ∀ v : V,
      primRun env dec ps pi (runHist cfg σ live (a ++ b)).1.heap s v =
        primRun env dec ps pi (runHist cfg σ live a).1.heap s v := by
  intro s hs v
  exact primRun_of_obs env dec ps pi _ _ s (c08_hist_all cfg hcfg a b σ live hi ha hb s hs) v

end

/-! ### non-vacuity: a String().Min(3)-like schema, a sibling derived with one more check -/

/-- checks 16 ↦ "length ≥ 3", anything else ↦ "length ≤ 5"; values are lengths -/
def exDec : Nat → Check Nat Unit
  | 16 => .pred 3 false none
  | _ => .pred 5 false none

def exEnv : Env Nat Unit Unit Nat := ⟨fun p v => if p = 3 then decide (3 ≤ v) else decide (v ≤ 5), fun _ v => v, fun _ v => v⟩

/-- the receiver (one check, id 16) still rejects 2 and accepts 4 and 9 after a sibling with a second check (≤ 5)
    was derived from it; the sibling rejects 9 -/
example :
    let h0 : Loc → Option Cell := upd (fun _ => none) 1 (.arr [16])
    let σ0 : Store := ⟨h0, 2⟩
    let recv : Schema := ⟨0, 1, 0, ⟨1, 1, 1⟩, none, none, none, none⟩
    let r := applyOp fixed σ0 recv (.derive 1 [24] none)
    (primAccepts exEnv exDec false false r.1.heap recv 2, primAccepts exEnv exDec false false r.1.heap recv 4,
     primAccepts exEnv exDec false false r.1.heap recv 9, primAccepts exEnv exDec false false r.1.heap r.2 9,
     primAccepts exEnv exDec false false r.1.heap r.2 4)
      = (false, true, true, false, true) := by decide

/-! ### the bridge for every other kind: a named assumption -/

/-- **ASSUMPTION `ObsDetermines`** (named in the MANIFEST text): a behaviour `beh` of schemas in a store — the Parse
    verdict and result on an input, the JSON-Schema document — is a function of what the store model observes of
    the schema.  PROVED for objects (`objParse` / `objDoc`: `c08o_behaviour`), holders (`hAccept` and the document
    structure: `c08h_behaviour`) and primitives with checks (`primRun`: `primRun_of_obs` above); ASSUMED — and tied by
    the run's behavioural fingerprints (31 probes, IsOptional/IsNilable, ToJSONSchema before and after every call) — for
    Struct, DiscriminatedUnion, Map, Set, Array, Lazy, Function, File and the documents of non-object, non-holder
    schemas. -/
def ObsDetermines {B : Type} (beh : (Loc → Option Cell) → Schema → B) : Prop :=
  ∀ h h' s, obs h' s = obs h s → beh h' s = beh h s

/-- what the assumption buys: any behaviour it holds of is unchanged for every live schema by every call -/
theorem c08_behaviour_of_bridge {B : Type} (beh : (Loc → Option Cell) → Schema → B) (hb : ObsDetermines beh)
    (cfg : Cfg) (hcfg : cfg.cloneBagAlways = true) (ops : List (Nat × Op)) (σ : Store)
    (live : List Schema) (hi : Inv σ live) (hok : opsOK ops) :
    ∀ s ∈ live, beh (runHist cfg σ live ops).1.heap s = beh σ.heap s :=
  fun s hs => hb _ _ s ((c08_hist cfg hcfg ops σ live hi hok).2.2 s hs)

/-- the primitives' behaviour meets it (no assumption needed there) -/
theorem primRun_obsDetermines {P O T V : Type} (env : Env P O T V) (dec : Nat → Check P O) (ps pi : Bool) :
    ObsDetermines (fun h s => fun v : V => primRun env dec ps pi h s v) :=
  fun h h' s e => funext fun v => primRun_of_obs env dec ps pi h h' s e v

end Gozod.C08
