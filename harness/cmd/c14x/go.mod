module c14x

go 1.26.0

require golang.org/x/tools v0.50.0

require (
	golang.org/x/mod v0.41.0 // indirect
	golang.org/x/sync v0.23.0 // indirect
)
