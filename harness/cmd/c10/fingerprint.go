// Structure fingerprint of the library functions that the C10 model transcribes: for each function a
// signature line followed by one canonical line per statement of its body (pre-order, nesting depth
// as a prefix of '>' characters). The source is parsed without comments, so comments cannot influence
// the output; the layout of multi-line lists (trailing commas, line breaks) is normalised away.
package main

import (
	"bytes"
	"fmt"
	"go/ast"
	"go/parser"
	"go/printer"
	"go/token"
	"path/filepath"
	"strings"
)

// shapeFuncs lists (file relative to the repo root, function name) of the fingerprinted functions.
var shapeFuncs = []struct{ File, Func string }{
	{"internal/engine/checker.go", "executeChecks"},
	{"internal/engine/checker.go", "CheckAborted"},
	{"internal/engine/checker.go", "RunChecksOnValue"},
	{"internal/engine/parser.go", "ApplyChecks"},
	{"internal/engine/parser.go", "hasOverwriteCheck"},
	{"internal/engine/parser.go", "validatePointerWithOverwrite"},
	{"internal/engine/parser.go", "validatePointer"},
	{"internal/engine/parser.go", "validateWithChecks"},
}

// fpLayout removes what only depends on the line layout of the source: the space after an opening
// bracket and the trailing comma / space before a closing one (after whitespace has been collapsed).
var fpLayout = strings.NewReplacer(
	", )", ")", ", ]", "]", ", }", "}",
	"( ", "(", "[ ", "[", "{ ", "{",
	" )", ")", " ]", "]", " }", "}",
)

type fpWalker struct {
	fset  *token.FileSet
	lines []string
	err   error
}

// one prints a node with go/printer on a single line (whitespace runs collapsed to one space).
func (w *fpWalker) one(n ast.Node) string {
	var buf bytes.Buffer
	if err := (&printer.Config{Mode: printer.RawFormat}).Fprint(&buf, w.fset, n); err != nil && w.err == nil {
		w.err = err
	}
	return fpLayout.Replace(strings.Join(strings.Fields(buf.String()), " "))
}

func (w *fpWalker) emit(depth int, s string) {
	w.lines = append(w.lines, strings.Repeat(">", depth)+strings.TrimRight(s, " "))
}

// head renders "<kw> <init>; <rest>" (init omitted with its semicolon when absent).
func (w *fpWalker) head(kw string, init ast.Stmt, rest string) string {
	s := kw
	if init != nil {
		s += " " + w.one(init) + ";"
	}
	if rest != "" {
		s += " " + rest
	}
	return s
}

func (w *fpWalker) stmts(depth int, list []ast.Stmt) {
	for _, s := range list {
		w.stmt(depth, s)
	}
}

func (w *fpWalker) stmt(depth int, s ast.Stmt) {
	switch v := s.(type) {
	case *ast.IfStmt:
		w.emit(depth, w.head("if", v.Init, w.one(v.Cond)))
		w.stmts(depth+1, v.Body.List)
		switch e := v.Else.(type) {
		case nil:
		case *ast.BlockStmt:
			w.emit(depth, "else")
			w.stmts(depth+1, e.List)
		default: // else if
			w.emit(depth, "else")
			w.stmt(depth+1, e)
		}
	case *ast.ForStmt:
		var init, cond, post string
		if v.Init != nil {
			init = w.one(v.Init)
		}
		if v.Cond != nil {
			cond = w.one(v.Cond)
		}
		if v.Post != nil {
			post = w.one(v.Post)
		}
		w.emit(depth, "for "+init+"; "+cond+"; "+post)
		w.stmts(depth+1, v.Body.List)
	case *ast.RangeStmt:
		h := "for "
		if v.Key != nil {
			h += w.one(v.Key)
			if v.Value != nil {
				h += ", " + w.one(v.Value)
			}
			h += " " + v.Tok.String() + " "
		}
		w.emit(depth, h+"range "+w.one(v.X))
		w.stmts(depth+1, v.Body.List)
	case *ast.SwitchStmt:
		tag := ""
		if v.Tag != nil {
			tag = w.one(v.Tag)
		}
		w.emit(depth, w.head("switch", v.Init, tag))
		w.stmts(depth+1, v.Body.List)
	case *ast.TypeSwitchStmt:
		w.emit(depth, w.head("switch", v.Init, w.one(v.Assign)))
		w.stmts(depth+1, v.Body.List)
	case *ast.SelectStmt:
		w.emit(depth, "select")
		w.stmts(depth+1, v.Body.List)
	case *ast.CaseClause:
		if v.List == nil {
			w.emit(depth, "default")
		} else {
			xs := make([]string, len(v.List))
			for i, x := range v.List {
				xs[i] = w.one(x)
			}
			w.emit(depth, "case "+strings.Join(xs, ", "))
		}
		w.stmts(depth+1, v.Body)
	case *ast.CommClause:
		if v.Comm == nil {
			w.emit(depth, "default")
		} else {
			w.emit(depth, "case "+w.one(v.Comm))
		}
		w.stmts(depth+1, v.Body)
	case *ast.BlockStmt:
		w.emit(depth, "block")
		w.stmts(depth+1, v.List)
	case *ast.LabeledStmt:
		w.emit(depth, v.Label.Name+":")
		w.stmt(depth, v.Stmt)
	case *ast.EmptyStmt:
		if !v.Implicit {
			w.emit(depth, ";")
		}
	default: // assign, expr, return, branch, decl, incdec, go, defer, send: one line, func literals not descended into
		w.emit(depth, w.one(s))
	}
}

// fingerprint returns, for the named top-level function of the given file, the canonical statement lines
// of its body (pre-order, one line per statement; comments dropped), or an error if the file does not
// parse or the function is missing. Line 0 is the signature line.
func fingerprint(repoRoot, relFile, funcName string) ([]string, error) {
	fset := token.NewFileSet()
	f, err := parser.ParseFile(fset, filepath.Join(repoRoot, filepath.FromSlash(relFile)), nil, parser.SkipObjectResolution)
	if err != nil {
		return nil, fmt.Errorf("fingerprint: %w", err)
	}
	for _, d := range f.Decls {
		fd, ok := d.(*ast.FuncDecl)
		if !ok || fd.Recv != nil || fd.Name.Name != funcName {
			continue
		}
		w := &fpWalker{fset: fset}
		w.emit(0, w.one(&ast.FuncDecl{Name: fd.Name, Type: fd.Type}))
		if fd.Body != nil {
			w.stmts(0, fd.Body.List)
		}
		if w.err != nil {
			return nil, fmt.Errorf("fingerprint: %s %s: %w", relFile, funcName, w.err)
		}
		return w.lines, nil
	}
	return nil, fmt.Errorf("fingerprint: function %s not found in %s", funcName, relFile)
}

// dumpFingerprint returns the fingerprints of all shapeFuncs as text: a header line "== <file> <func>"
// followed by the function's lines; an extraction error is reported on a line "!! <error>".
func dumpFingerprint(repoRoot string) string {
	var b strings.Builder
	for _, sf := range shapeFuncs {
		fmt.Fprintf(&b, "== %s %s\n", sf.File, sf.Func)
		lines, err := fingerprint(repoRoot, sf.File, sf.Func)
		if err != nil {
			fmt.Fprintf(&b, "!! %v\n", err)
			continue
		}
		for _, l := range lines {
			b.WriteString(l + "\n")
		}
	}
	return b.String()
}
