/-
  C15 over value graphs with value-typed aggregates (`Gozod.Model.Graph`): structs and arrays held by value inside
  maps, slices, pointees and other aggregates.

    g_copyOK            deepCloneValue (aggregates cloned field by field): the copy is built in fresh cells only, looks
                        exactly like the original, and nothing that existed before is written — every graph, every depth
    g_result_fresh      Parse(nil): everything reachable from the returned default / prefault is fresh
    g_assign_frame      a caller storing ANY contents into a cell outside the schema-owned region leaves the default graph as it was
    g_hist              any interleaving of Parse(nil) calls (on any schema of a family) and caller stores into fresh cells:
                        every schema's default graph, hence every later result, looks the same
    g_input_unchanged   Parse of a by-value input (`rebuild`, for EVERY entry rewriting `rw`: strip, key canonicalisation,
                        coercion …): the input graph — contents and the cells it is made of — is as before
    bulk_agg_copy_shared   witness: copying aggregates by assignment (`copy false`) leaves the cells they refer to shared
-/
import Gozod.Model.Graph

namespace Gozod.C15
open Gozod.Graph

/-- `σ'` extends `σ` without writing any location below `n` -/
def GExt (n : Nat) (σ σ' : GStore) : Prop :=
  σ.next ≤ σ'.next ∧ ∀ l, l < n → σ'.heap l = σ.heap l

theorem GExt.refl (n : Nat) (σ : GStore) : GExt n σ σ := ⟨Nat.le_refl _, fun _ _ => rfl⟩

theorem GExt.trans {n : Nat} {a b c : GStore} (h1 : GExt n a b) (h2 : GExt n b c) : GExt n a c :=
  ⟨Nat.le_trans h1.1 h2.1, fun l hl => by rw [h2.2 l hl, h1.2 l hl]⟩

theorem GExt.mono {n m : Nat} {a b : GStore} (h : GExt n a b) (hm : m ≤ n) : GExt m a b :=
  ⟨h.1, fun l hl => h.2 l (Nat.lt_of_lt_of_le hl hm)⟩

theorem gupd_other (h : GHeap) (l x : Loc) (c : Entries) (hx : x ≠ l) : gupd h l c x = h x := by
  simp [gupd, hx]

theorem galloc_ext (n : Nat) (σ : GStore) (c : Entries) (hn : n ≤ σ.next) : GExt n σ (galloc σ c).1 := by
  refine ⟨by simp [galloc], fun l hl => ?_⟩
  simp only [galloc]
  exact gupd_other _ _ _ _ (Nat.ne_of_lt (Nat.lt_of_lt_of_le hl hn))

theorem galloc_get (σ : GStore) (c : Entries) : (galloc σ c).1.heap σ.next = some c := by simp [galloc, gupd]

theorem assign_ext (n : Nat) (σ : GStore) (l : Loc) (c : Entries) (hl : n ≤ l) : GExt n σ (assign σ l c) := by
  refine ⟨Nat.le_refl _, fun x hx => ?_⟩
  simp only [assign]
  exact gupd_other _ _ _ _ (Nat.ne_of_lt (Nat.lt_of_lt_of_le hx hl))

/-! ### what a caller sees depends only on the cells it reaches -/

theorem readG_congr {h h' : GHeap} (l : Loc) (e : h' l = h l) : readG h' l = readG h l := by
  simp [readG, e]

theorem gflatMap_congr {α β : Type} (l : List α) (f g : α → List β) (h : ∀ a ∈ l, f a = g a) :
    l.flatMap f = l.flatMap g := by
  induction l with
  | nil => rfl
  | cons a l ih =>
    simp only [List.flatMap_cons]
    rw [h a (List.mem_cons_self ..), ih (fun b hb => h b (List.mem_cons_of_mem _ hb))]

theorem g_reach_ser_congr (f : Nat) : ∀ (h h' : GHeap) (v : GVal),
    (∀ x ∈ reach f h v, h' x = h x) → reach f h' v = reach f h v ∧ ser f h' v = ser f h v := by
  induction f with
  | zero => intro h h' v _; exact ⟨rfl, rfl⟩
  | succ f ih =>
    intro h h' v e
    cases v with
    | scalar n => exact ⟨rfl, rfl⟩
    | nil => exact ⟨rfl, rfl⟩
    | ref l =>
      have hl : readG h' l = readG h l := readG_congr l (e l (by simp [reach]))
      have hk : ∀ p ∈ readG h l, reach f h' p.2 = reach f h p.2 ∧ ser f h' p.2 = ser f h p.2 := by
        intro p hp
        apply ih
        intro x hx
        apply e
        simp only [reach, List.mem_cons, List.mem_flatMap]
        exact Or.inr ⟨p, hp, hx⟩
      constructor
      · simp only [reach, hl]
        rw [gflatMap_congr _ _ _ (fun p hp => (hk p hp).1)]
      · simp only [ser, hl]
        rw [gflatMap_congr _ _ _ (fun p hp => by rw [(hk p hp).2])]
    | agg fs =>
      have hk : ∀ p ∈ fs, reach f h' p.2 = reach f h p.2 ∧ ser f h' p.2 = ser f h p.2 := by
        intro p hp
        apply ih
        intro x hx
        apply e
        simp only [reach, List.mem_flatMap]
        exact ⟨p, hp, hx⟩
      constructor
      · simp only [reach]
        rw [gflatMap_congr _ _ _ (fun p hp => (hk p hp).1)]
      · simp only [ser]
        rw [gflatMap_congr _ _ _ (fun p hp => by rw [(hk p hp).2])]

/-- frame: a store extension that writes nothing below `n` cannot change a graph lying below `n` -/
theorem g_graph_frame (f : Nat) (n : Nat) (σ σ' : GStore) (v : GVal) (he : GExt n σ σ')
    (hb : ∀ x ∈ reach f σ.heap v, x < n) :
    reach f σ'.heap v = reach f σ.heap v ∧ ser f σ'.heap v = ser f σ.heap v :=
  g_reach_ser_congr f σ.heap σ'.heap v (fun x hx => he.2 x (hb x hx))

/-! ### `deepCloneValue` returns a fresh, equal graph -/

def gstep (f : Nat) (acc : GStore × Entries) (p : Nat × GVal) : GStore × Entries :=
  ((copy true f acc.1 p.2).1, acc.2 ++ [(p.1, (copy true f acc.1 p.2).2)])

def GCopyOK (f : Nat) : Prop :=
  ∀ (σ : GStore) (v : GVal) (n : Nat), n ≤ σ.next → (∀ x ∈ reach f σ.heap v, x < n) →
    GExt σ.next σ (copy true f σ v).1 ∧
    ser f (copy true f σ v).1.heap (copy true f σ v).2 = ser f σ.heap v ∧
    (∀ x ∈ reach f (copy true f σ v).1.heap (copy true f σ v).2, σ.next ≤ x ∧ x < (copy true f σ v).1.next)

theorem g_fold_spec (f : Nat) (hc : GCopyOK f) (ps : Entries) :
    ∀ (σ : GStore) (out : Entries) (n : Nat), n ≤ σ.next →
    (∀ p ∈ ps, ∀ x ∈ reach f σ.heap p.2, x < n) →
    GExt σ.next σ (ps.foldl (gstep f) (σ, out)).1 ∧
    ∃ new, (ps.foldl (gstep f) (σ, out)).2 = out ++ new ∧
      new.flatMap (fun p => p.1 :: ser f (ps.foldl (gstep f) (σ, out)).1.heap p.2)
        = ps.flatMap (fun p => p.1 :: ser f σ.heap p.2) ∧
      ∀ q ∈ new, ∀ x ∈ reach f (ps.foldl (gstep f) (σ, out)).1.heap q.2,
        σ.next ≤ x ∧ x < (ps.foldl (gstep f) (σ, out)).1.next := by
  induction ps with
  | nil =>
    intro σ out n _ _
    exact ⟨GExt.refl _ _, [], by simp, by simp, by simp⟩
  | cons p ps ih =>
    intro σ out n hn hb
    obtain ⟨e1, s1, r1⟩ := hc σ p.2 n hn (hb p (List.mem_cons_self ..))
    have hn1 : n ≤ (copy true f σ p.2).1.next := Nat.le_trans hn e1.1
    have hb1 : ∀ p' ∈ ps, ∀ x ∈ reach f (copy true f σ p.2).1.heap p'.2, x < n := by
      intro p' hp' x hx
      have hbp := hb p' (List.mem_cons_of_mem _ hp')
      have := (g_graph_frame f n σ _ p'.2 (e1.mono hn) hbp).1
      rw [this] at hx
      exact hbp x hx
    obtain ⟨e2, new, hout, hser, hreach⟩ := ih (copy true f σ p.2).1 (out ++ [(p.1, (copy true f σ p.2).2)]) n hn1 hb1
    simp only [List.foldl_cons, gstep] at *
    refine ⟨e1.trans (e2.mono e1.1), (p.1, (copy true f σ p.2).2) :: new, ?_, ?_, ?_⟩
    · rw [hout]; simp
    · have hfr := g_graph_frame f (copy true f σ p.2).1.next (copy true f σ p.2).1 _ (copy true f σ p.2).2 e2
        (fun x hx => (r1 x hx).2)
      simp only [List.flatMap_cons]
      rw [hfr.2, s1, hser]
      congr 1
      apply gflatMap_congr
      intro p' hp'
      have hbp := hb p' (List.mem_cons_of_mem _ hp')
      rw [(g_graph_frame f n σ _ p'.2 (e1.mono hn) hbp).2]
    · intro q hq x hx
      simp only [List.mem_cons] at hq
      rcases hq with rfl | hq
      · have hfr := g_graph_frame f (copy true f σ p.2).1.next (copy true f σ p.2).1 _ (copy true f σ p.2).2 e2
          (fun x hx => (r1 x hx).2)
        simp only at hx
        rw [hfr.1] at hx
        exact ⟨(r1 x hx).1, Nat.lt_of_lt_of_le (r1 x hx).2 e2.1⟩
      · exact ⟨Nat.le_trans e1.1 (hreach q hq x hx).1, (hreach q hq x hx).2⟩

theorem copy_ref (f : Nat) (σ : GStore) (l : Loc) :
    copy true (f + 1) σ (.ref l) =
      ((galloc ((readG σ.heap l).foldl (gstep f) (σ, [])).1 ((readG σ.heap l).foldl (gstep f) (σ, [])).2).1,
       .ref ((readG σ.heap l).foldl (gstep f) (σ, [])).1.next) := by
  simp only [copy, galloc]
  rfl

theorem copy_agg (f : Nat) (σ : GStore) (fs : Entries) :
    copy true (f + 1) σ (.agg fs) = ((fs.foldl (gstep f) (σ, [])).1, .agg (fs.foldl (gstep f) (σ, [])).2) := by
  simp only [copy]
  rfl

/-- **g_copyOK**: the deep copy of any graph with aggregates, to any depth, writes nothing that existed, looks
    exactly like the original and consists of fresh cells only. -/
theorem g_copyOK (f : Nat) : GCopyOK f := by
  induction f with
  | zero =>
    intro σ v n _ _
    exact ⟨GExt.refl _ _, rfl, by simp [reach]⟩
  | succ f ih =>
    intro σ v n hn hb
    cases v with
    | scalar k => exact ⟨GExt.refl _ _, rfl, by simp [copy, reach]⟩
    | nil => exact ⟨GExt.refl _ _, rfl, by simp [copy, reach]⟩
    | ref l =>
      have hkids : ∀ p ∈ readG σ.heap l, ∀ x ∈ reach f σ.heap p.2, x < n := by
        intro p hp x hx
        apply hb
        simp only [reach, List.mem_cons, List.mem_flatMap]
        exact Or.inr ⟨p, hp, hx⟩
      obtain ⟨e1, new, hout, hser, hreach⟩ := g_fold_spec f ih (readG σ.heap l) σ [] n hn hkids
      rw [copy_ref]
      generalize hz : (readG σ.heap l).foldl (gstep f) (σ, []) = z at *
      simp only [List.nil_append] at hout
      have ea : GExt z.1.next z.1 (galloc z.1 z.2).1 := galloc_ext _ _ _ (Nat.le_refl _)
      have hnode : readG (galloc z.1 z.2).1.heap z.1.next = new := by
        simp [readG, galloc_get, hout]
      have hkid : ∀ q ∈ new, reach f (galloc z.1 z.2).1.heap q.2 = reach f z.1.heap q.2 ∧
          ser f (galloc z.1 z.2).1.heap q.2 = ser f z.1.heap q.2 :=
        fun q hq => g_graph_frame f z.1.next z.1 _ q.2 ea (fun x hx => (hreach q hq x hx).2)
      refine ⟨e1.trans (ea.mono e1.1), ?_, ?_⟩
      · simp only [ser, hnode]
        rw [gflatMap_congr new _ (fun p => p.1 :: ser f z.1.heap p.2) (fun q hq => by rw [(hkid q hq).2]), hser]
      · intro x hx
        simp only [reach, hnode, List.mem_cons, List.mem_flatMap] at hx
        rcases hx with rfl | ⟨q, hq, hx⟩
        · exact ⟨e1.1, by simp [galloc]⟩
        · rw [(hkid q hq).1] at hx
          exact ⟨(hreach q hq x hx).1, Nat.lt_of_lt_of_le (hreach q hq x hx).2 ea.1⟩
    | agg fs =>
      have hkids : ∀ p ∈ fs, ∀ x ∈ reach f σ.heap p.2, x < n := by
        intro p hp x hx
        apply hb
        simp only [reach, List.mem_flatMap]
        exact ⟨p, hp, hx⟩
      obtain ⟨e1, new, hout, hser, hreach⟩ := g_fold_spec f ih fs σ [] n hn hkids
      rw [copy_agg]
      generalize hz : fs.foldl (gstep f) (σ, []) = z at *
      simp only [List.nil_append] at hout
      refine ⟨e1, ?_, ?_⟩
      · simp only [ser, hout]
        rw [hser]
      · intro x hx
        simp only [reach, hout, List.mem_flatMap] at hx
        obtain ⟨q, hq, hx⟩ := hx
        exact hreach q hq x hx

/-- **g_result_fresh**: Parse(nil) on a schema holding the default `d` (any graph of maps, slices, pointers, structs
    and arrays): everything the caller can reach from the result was allocated by this call, it looks exactly like
    the default, and the call wrote nothing that existed before. -/
theorem g_result_fresh (σ : GStore) (d : GVal) (hw : ∀ x ∈ reach gdepth σ.heap d, x < σ.next) :
    GExt σ.next σ (parseNilG true σ d).1 ∧
    (∀ x ∈ reach gdepth (parseNilG true σ d).1.heap (parseNilG true σ d).2, σ.next ≤ x) ∧
    ser gdepth (parseNilG true σ d).1.heap (parseNilG true σ d).2 = ser gdepth σ.heap d := by
  obtain ⟨e, hs, hr⟩ := g_copyOK gdepth σ d σ.next (Nat.le_refl _) hw
  exact ⟨e, fun x hx => (hr x hx).1, hs⟩

/-! ### mutating results -/

/-- **g_assign_frame**: a caller storing any contents into a cell outside the schema-owned region `[0,n)` changes
    neither the look of the default graph nor the cells it consists of. -/
theorem g_assign_frame (n : Nat) (σ : GStore) (d : GVal) (l : Loc) (c : Entries)
    (hw : ∀ x ∈ reach gdepth σ.heap d, x < n) (hl : n ≤ l) :
    reach gdepth (assign σ l c).heap d = reach gdepth σ.heap d ∧
    ser gdepth (assign σ l c).heap d = ser gdepth σ.heap d :=
  g_graph_frame gdepth n σ _ d (assign_ext n σ l c hl) hw

/-- a caller's step: Parse(nil) on a schema of the family (holding default `d`), or a store into a cell -/
inductive GStep where
  | parse (d : GVal)
  | assign (l : Loc) (c : Entries)

def runG : GStore → List GStep → GStore
  | σ, [] => σ
  | σ, .parse d :: rest => runG (parseNilG true σ d).1 rest
  | σ, .assign l c :: rest => runG (assign σ l c) rest

/-- the defaults of all schemas of the family lie in the schema-owned region `[0,n)` -/
def OwnedBelow (n : Nat) (h : GHeap) (ds : List GVal) : Prop := ∀ d ∈ ds, ∀ x ∈ reach gdepth h d, x < n

theorem owned_frame (n : Nat) (σ σ' : GStore) (ds : List GVal) (he : GExt n σ σ') (hw : OwnedBelow n σ.heap ds) :
    OwnedBelow n σ'.heap ds := by
  intro d hd x hx
  rw [(g_graph_frame gdepth n σ σ' d he (hw d hd)).1] at hx
  exact hw d hd x hx

/-- **g_hist**: whatever the caller does — any interleaving of Parse(nil) calls on schemas of the family `ds` and
    stores of arbitrary contents into cells outside the schema-owned region (by `g_result_fresh` every cell reachable
    from a returned value is such a cell) — every default graph of the family looks the same afterwards, so every later
    Parse(nil) returns a value that looks exactly like the first one. -/
theorem g_hist (ds : List GVal) (n : Nat) (ops : List GStep) :
    ∀ (σ : GStore), n ≤ σ.next → OwnedBelow n σ.heap ds →
    (∀ o ∈ ops, match o with | .assign l _ => n ≤ l | .parse d => d ∈ ds) →
    ∀ d ∈ ds, ser gdepth (runG σ ops).heap d = ser gdepth σ.heap d ∧
      ser gdepth (parseNilG true (runG σ ops) d).1.heap (parseNilG true (runG σ ops) d).2 = ser gdepth σ.heap d := by
  induction ops with
  | nil =>
    intro σ hn hw _ d hd
    refine ⟨rfl, ?_⟩
    exact (g_result_fresh σ d (fun x hx => Nat.lt_of_lt_of_le (hw d hd x hx) hn)).2.2
  | cons o rest ih =>
    intro σ hn hw hok d hd
    have hrest : ∀ o ∈ rest, match o with | .assign l _ => n ≤ l | .parse d => d ∈ ds :=
      fun o ho => hok o (List.mem_cons_of_mem _ ho)
    cases o with
    | assign l c =>
      have hl : n ≤ l := hok (.assign l c) (List.mem_cons_self ..)
      have he : GExt n σ (assign σ l c) := assign_ext n σ l c hl
      have hw' := owned_frame n σ _ ds he hw
      have h := ih (assign σ l c) hn hw' hrest d hd
      have hs := (g_graph_frame gdepth n σ _ d he (hw d hd)).2
      simp only [runG]
      exact ⟨by rw [h.1, hs], by rw [h.2, hs]⟩
    | parse t =>
      have ht : t ∈ ds := hok (.parse t) (List.mem_cons_self ..)
      obtain ⟨he, _, _⟩ := g_result_fresh σ t (fun x hx => Nat.lt_of_lt_of_le (hw t ht x hx) hn)
      have he' : GExt n σ (parseNilG true σ t).1 := he.mono hn
      have hw' := owned_frame n σ _ ds he' hw
      have h := ih (parseNilG true σ t).1 (Nat.le_trans hn he.1) hw' hrest d hd
      have hs := (g_graph_frame gdepth n σ _ d he' (hw d hd)).2
      simp only [runG]
      exact ⟨by rw [h.1, hs], by rw [h.2, hs]⟩

/-! ### the harness history step: deep mutation of everything reachable from a result -/

theorem assignAll_ext (n : Nat) (g : GStore → Loc → Entries) (ls : List Loc) :
    ∀ (σ : GStore), (∀ l ∈ ls, n ≤ l) → GExt n σ (ls.foldl (fun σ l => assign σ l (g σ l)) σ) := by
  induction ls with
  | nil => intro σ _; exact GExt.refl _ _
  | cons l ls ih =>
    intro σ hl
    simp only [List.foldl_cons]
    exact (assign_ext n σ l _ (hl l (List.mem_cons_self ..))).trans
      (ih (assign σ l (g σ l)) (fun x hx => hl x (List.mem_cons_of_mem _ hx)))

/-- deep in-place mutation of everything reachable from a value whose cells all lie at or above `n` writes nothing below `n` -/
theorem mutateAll_ext (n : Nat) (σ : GStore) (v : GVal) (hv : ∀ x ∈ reach gdepth σ.heap v, n ≤ x) :
    GExt n σ (mutateAll σ v) :=
  assignAll_ext n (fun σ l => scrubCell (readG σ.heap l)) (reach gdepth σ.heap v) σ hv

/-- **g_parse_mutate_parse** (no side conditions beyond well-formedness): Parse(nil), then the caller changes every
    scalar of every cell it can reach from the result — at any nesting of maps, slices, pointees, structs and arrays —
    and adds an entry to each cell; the next Parse(nil) returns a value that looks exactly like the untouched default,
    and the schema's default graph still consists of the same cells with the same contents. -/
theorem g_parse_mutate_parse (σ : GStore) (d : GVal) (hw : ∀ x ∈ reach gdepth σ.heap d, x < σ.next) :
    ser gdepth (parseNilG true (mutateAll (parseNilG true σ d).1 (parseNilG true σ d).2) d).1.heap
        (parseNilG true (mutateAll (parseNilG true σ d).1 (parseNilG true σ d).2) d).2 = ser gdepth σ.heap d ∧
    ser gdepth (mutateAll (parseNilG true σ d).1 (parseNilG true σ d).2).heap d = ser gdepth σ.heap d := by
  obtain ⟨e1, hfresh, _⟩ := g_result_fresh σ d hw
  have e2 := mutateAll_ext σ.next (parseNilG true σ d).1 (parseNilG true σ d).2 hfresh
  have e : GExt σ.next σ (mutateAll (parseNilG true σ d).1 (parseNilG true σ d).2) := e1.trans e2
  have hfr := g_graph_frame gdepth σ.next σ _ d e hw
  have hw' : ∀ x ∈ reach gdepth (mutateAll (parseNilG true σ d).1 (parseNilG true σ d).2).heap d,
      x < (mutateAll (parseNilG true σ d).1 (parseNilG true σ d).2).next := by
    intro x hx
    rw [hfr.1] at hx
    exact Nat.lt_of_lt_of_le (hw x hx) e.1
  refine ⟨?_, hfr.2⟩
  rw [(g_result_fresh _ d hw').2.2, hfr.2]

/-! ### caller data: by-value inputs -/

def rstep (rw : Nat → GVal → Option (Nat × GVal)) (f : Nat) (acc : GStore × Entries) (p : Nat × GVal) : GStore × Entries :=
  match rw p.1 (rebuild rw f acc.1 p.2).2 with
  | some e => ((rebuild rw f acc.1 p.2).1, acc.2 ++ [e])
  | none => ((rebuild rw f acc.1 p.2).1, acc.2)

theorem rstep_fst (rw : Nat → GVal → Option (Nat × GVal)) (f : Nat) (acc : GStore × Entries) (p : Nat × GVal) :
    (rstep rw f acc p).1 = (rebuild rw f acc.1 p.2).1 := by
  unfold rstep
  split <;> rfl

theorem rfold_ext (rw : Nat → GVal → Option (Nat × GVal)) (f : Nat)
    (hc : ∀ (σ : GStore) (v : GVal), GExt σ.next σ (rebuild rw f σ v).1) (ps : Entries) :
    ∀ (σ : GStore) (out : Entries), GExt σ.next σ (ps.foldl (rstep rw f) (σ, out)).1 := by
  induction ps with
  | nil => intro σ out; exact GExt.refl _ _
  | cons p ps ih =>
    intro σ out
    simp only [List.foldl_cons]
    have e1 : GExt σ.next σ (rstep rw f (σ, out) p).1 := by rw [rstep_fst]; exact hc σ p.2
    have e2 := ih (rstep rw f (σ, out) p).1 (rstep rw f (σ, out) p).2
    exact e1.trans (e2.mono e1.1)

theorem rebuild_ref (rw : Nat → GVal → Option (Nat × GVal)) (f : Nat) (σ : GStore) (l : Loc) :
    rebuild rw (f + 1) σ (.ref l) =
      ((galloc ((readG σ.heap l).foldl (rstep rw f) (σ, [])).1 ((readG σ.heap l).foldl (rstep rw f) (σ, [])).2).1,
       .ref ((readG σ.heap l).foldl (rstep rw f) (σ, [])).1.next) := by
  simp only [rebuild, galloc]
  rfl

theorem rebuild_agg (rw : Nat → GVal → Option (Nat × GVal)) (f : Nat) (σ : GStore) (fs : Entries) :
    rebuild rw (f + 1) σ (.agg fs) = ((fs.foldl (rstep rw f) (σ, [])).1, .agg (fs.foldl (rstep rw f) (σ, [])).2) := by
  simp only [rebuild]
  rfl

/-- building the result writes nothing that existed before — for every rewriting of entries -/
theorem rebuild_ext (rw : Nat → GVal → Option (Nat × GVal)) (f : Nat) :
    ∀ (σ : GStore) (v : GVal), GExt σ.next σ (rebuild rw f σ v).1 := by
  induction f with
  | zero => intro σ v; exact GExt.refl _ _
  | succ f ih =>
    intro σ v
    cases v with
    | scalar k => exact GExt.refl _ _
    | nil => exact GExt.refl _ _
    | ref l =>
      rw [rebuild_ref]
      have e1 := rfold_ext rw f ih (readG σ.heap l) σ []
      exact e1.trans ((galloc_ext _ _ _ (Nat.le_refl _)).mono e1.1)
    | agg fs =>
      rw [rebuild_agg]
      exact rfold_ext rw f ih fs σ []

/-- **g_input_unchanged**: Parse of a by-value input graph (maps, slices, pointees, structs and arrays nested in any
    way), whatever the schema does to the entries on the way to the result (strip unknown keys, canonicalise keys,
    coerce members, fill defaults): afterwards every cell of the input graph holds what it held, the graph consists of
    the same cells, and it looks the same. -/
theorem g_input_unchanged (rw : Nat → GVal → Option (Nat × GVal)) (f : Nat) (σ : GStore) (v : GVal)
    (hb : ∀ x ∈ reach gdepth σ.heap v, x < σ.next) :
    (∀ x, x < σ.next → (rebuild rw f σ v).1.heap x = σ.heap x) ∧
    reach gdepth (rebuild rw f σ v).1.heap v = reach gdepth σ.heap v ∧
    ser gdepth (rebuild rw f σ v).1.heap v = ser gdepth σ.heap v :=
  ⟨(rebuild_ext rw f σ v).2, g_graph_frame gdepth σ.next σ _ v (rebuild_ext rw f σ v) hb⟩

/-! ### witnesses and non-vacuity -/

/-- default `[]Rule{ {Hosts: []string{"h"}} }`: cell 1 = the inner slice, cell 2 = the outer slice whose element 0 is an
    aggregate holding the reference to cell 1 -/
def σr : GStore :=
  { heap := gupd (gupd (fun _ => none) 1 [(0, .scalar 7)]) 2 [(0, .agg [(0, .scalar 3), (1, .ref 1)])], next := 3 }

example : ∀ x ∈ reach gdepth σr.heap (.ref 2), x < σr.next := by decide

/-- **Witness (aggregates copied by assignment)**: the result's outer slice is fresh, but the inner slice reached
    through the struct element is the schema's own cell 1; storing into it changes what the default looks like. -/
theorem bulk_agg_copy_shared :
    let r := parseNilG false σr (.ref 2)
    1 ∈ reach gdepth r.1.heap r.2 ∧
    ser gdepth (assign r.1 1 [(0, .scalar 99)]).heap (.ref 2) ≠ ser gdepth σr.heap (.ref 2) := by decide

/-- the code as it is (aggregates cloned field by field): only fresh cells, same look, and the same store into what was
    cell 1's copy leaves the default alone -/
example :
    let r := parseNilG true σr (.ref 2)
    (reach gdepth r.1.heap r.2).all (fun x => x ≥ 3) = true ∧
    ser gdepth r.1.heap r.2 = ser gdepth σr.heap (.ref 2) ∧
    ser gdepth (mutateAll r.1 r.2).heap (.ref 2) = ser gdepth σr.heap (.ref 2) := by decide

/-- a record input `{"1.0": x, "zz": [..]}` parsed with canonicalising, stripping `rw`: the input cell is as before -/
example :
    let rw : Nat → GVal → Option (Nat × GVal) := fun k v => if k = 9 then none else some (k % 5, v)
    let σ : GStore := { heap := gupd (gupd (fun _ => none) 1 [(0, .scalar 7)]) 2 [(6, .scalar 1), (9, .ref 1)], next := 3 }
    let r := rebuild rw gdepth σ (.ref 2)
    ser gdepth r.1.heap (.ref 2) = [1, 6, 0, 1, 9, 1, 0, 0, 7, 3, 3] ∧ ser gdepth r.1.heap r.2 = [1, 1, 0, 1, 3] := by
  decide

end Gozod.C15
