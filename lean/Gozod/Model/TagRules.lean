/-
  C06 — what a parsed tag means on a `string` field, as a function of the TAG TEXT.

  `rulesOf tag` is `TagParser.parseTag` (the transcription of pkg/tagparser, proved total and
  whitespace-insensitive in Proofs/C06).  On top of it:

  * `Spec.accepts` — documented / by-name meaning: the value satisfies every rule of the tag
    (`enum=a b c`: one of the members — docs/tags.md "Parameters"; `min/max/length`: bytes;
    `includes/startswith/endswith`: by name, on the rule's first parameter).
  * `Code.accepts` — transcription of `applyParsedTagRules` / `applyParameterizedRule` /
    `applyEnumConstraint` on the schema `String()`: rules are applied in tag order to a schema that is
    either a string schema with checks or — after `enum` — an enum schema, on which every later rule
    falls through the type switches.
  Both are functions of the tag alone: nothing in them can depend on which other struct types were
  handed to FromStruct before (`verdicts_history_independent`).
-/
import Gozod.Model.TagParser
namespace Gozod.Tags.Rules
open Gozod.TagParser

def digit? (c : Nat) : Option Nat := if 0x30 ≤ c ∧ c ≤ 0x39 then some (c - 0x30) else none

def digits? : Str → Option Nat
  | [] => none
  | cs => cs.foldl (fun acc c => match acc, digit? c with | some n, some d => some (10 * n + d) | _, _ => none) (some 0)

/-- `strconv.Atoi` on small decimal literals (optional sign, at least one digit) -/
def atoi? : Str → Option Int
  | 0x2D :: cs => (digits? cs).map fun n => -(n : Int)
  | 0x2B :: cs => (digits? cs).map fun n => (n : Int)
  | cs => (digits? cs).map fun n => (n : Int)

def isInfix (p s : Str) : Bool := (List.range (s.length + 1)).any fun i => (s.drop i).take p.length == p
def isPrefix (p s : Str) : Bool := s.take p.length == p
def isSuffix (p s : Str) : Bool := p.length ≤ s.length && s.drop (s.length - p.length) == p

def nm (s : String) : Str := s.toList.map Char.toNat

/-- the meaning of one parsed rule on a string value (`none`: the rule says nothing about strings) -/
def holds (r : Rule) (v : Str) : Bool :=
  match r.params with
  | none => true
  | some [] => true
  | some (p :: ps) =>
    if r.name == nm "enum" then (p :: ps).contains v
    else if r.name == nm "min" then (match atoi? p with | some n => decide (n ≤ (v.length : Int)) | none => true)
    else if r.name == nm "max" then (match atoi? p with | some n => decide ((v.length : Int) ≤ n) | none => true)
    else if r.name == nm "length" then (match atoi? p with | some n => decide ((v.length : Int) = n) | none => true)
    else if r.name == nm "includes" then isInfix p v
    else if r.name == nm "startswith" then isPrefix p v
    else if r.name == nm "endswith" then isSuffix p v
    else true

def rulesOf (tag : Str) : List Rule :=
  match parseTag false tag with
  | .ok rs => rs
  | .error _ => []

namespace Spec
/-- the value satisfies every rule of the tag -/
def accepts (tag : Str) (v : Str) : Bool := (rulesOf tag).all (holds · v)
end Spec

namespace Code
/-- the schema under construction: `String()` with the checks added so far, or an enum -/
inductive Sch
  | str (checks : List Rule)
  | enum (members : List Str)

def isEnum (r : Rule) : Bool := r.name == nm "enum"

/-- one iteration of the rule loop of `applyParsedTagRules` on a string field -/
def applyRule (s : Sch) (r : Rule) : Sch :=
  match s with
  | .enum ms => .enum ms                                   -- no switch lists *ZodEnum: the rule falls through
  | .str cs =>
    match r.params with
    | some (p :: ps) => if isEnum r then .enum (p :: ps)   -- applyEnumConstraint: EnumSlice(values) REPLACES the schema
                        else .str (cs ++ [r])
    | _ => .str cs

def Sch.accepts : Sch → Str → Bool
  | .str cs, v => cs.all (holds · v)
  | .enum ms, v => ms.contains v

def accepts (tag : Str) (v : Str) : Bool := ((rulesOf tag).foldl applyRule (.str [])).accepts v
end Code

/-- the schemas of a history of FromStruct calls: one per struct type, in the order of the calls -/
def history (tags : List Str) : List (Str → Bool) := tags.map Code.accepts

end Gozod.Tags.Rules
