/-
  C14 — the code model as a machine, over ALL interleavings (round 4b, after the audit).

  `Conc.stepC` is the code of the registry and of the configuration as atomic steps: a registry call, Config() and
  SetConfig(nil) are one step; SetConfig(cfg) is a Load and then CompareAndSwaps until one succeeds.

    runC_refines_apply     for EVERY schedule of such steps (any number of threads, any interleaving, failed swaps
                           included; no legacy `store`): the shared state at the end and the results the calls returned
                           are those of the sequential specification `apply` run over the operations that took effect,
                           in the order they took effect (`effOps`: an atomic call at its step, a SetConfig at its
                           successful swap).  Loads and failed swaps change nothing shared.
    cfgSet_persists / setconfig_no_lost_update
                           hence no update is lost: a SetConfig that set CustomError (LocaleError) and took effect is in
                           the final configuration unless a later-taking-effect SetConfig set that field again or a
                           reset came after it — over all schedules.  (Witness for the legacy Load/Store:
                           C14.setconfig_lost_update.)
    Exec / replay_sound / exec_linearizable / replay_linearizable
                           `Conc.replay` — which the driver RUNS on every recorded history — finds only genuine
                           executions of the machine within the recorded invocation/response windows, and every such
                           execution is linearizable against `apply`: the machine refines the specification.
-/
import Gozod.Model.Conc
import Gozod.Proofs.C14Lin

namespace Gozod.C14
open Gozod.Conc

/-! ### every schedule refines the sequential specification -/

theorem results_append : ∀ (a b : List Op) (σ : St), results σ (a ++ b) = results σ a ++ results (run σ a) b
  | [], b, σ => by simp [results, run]
  | o :: a, b, σ => by
    simp only [List.cons_append, results, run, List.foldl_cons]
    rw [results_append a b]
    rfl

theorem run_append (a b : List Op) (σ : St) : run σ (a ++ b) = run (run σ a) b := by
  simp [run, List.foldl_append]

/-- **runC_refines_apply** -/
theorem runC_refines_apply : ∀ (acts : List Act) (s : CState), (∀ a ∈ acts, a.isStore = false) →
    (runC s acts).1.σ = run s.σ (effOps s acts) ∧ outputs (runC s acts).2 = results s.σ (effOps s acts)
  | [], s, _ => by simp [runC, effOps, run, results, outputs]
  | a :: r, s, h => by
    have hr : ∀ x ∈ r, x.isStore = false := fun x hx => h x (List.mem_cons_of_mem _ hx)
    have ih := runC_refines_apply r (stepC s a).1 hr
    have ha := h a (by simp)
    simp only [runC, effOps]
    cases a with
    | atomic tid op =>
      simp only [stepC] at ih ⊢
      rw [run_append, results_append]
      simp only [outputs, List.filterMap_cons, id] at ih ⊢
      refine ⟨by simpa [run] using ih.1, ?_⟩
      simp only [results, run, List.foldl_cons, List.foldl_nil, List.cons_append, List.nil_append]
      exact congrArg _ ih.2
    | load tid =>
      simp only [stepC] at ih ⊢
      simp only [outputs, List.filterMap_cons, id, List.nil_append] at ih ⊢
      exact ih
    | store tid c l => simp [Act.isStore] at ha
    | casStore tid c l =>
      by_cases hc : loadedOf tid s.loaded = (s.σ.custom, s.σ.locale)
      · have e1 : (stepC s (.casStore tid c l)).1.σ = (apply s.σ (.cfgSet c l)).1 := by
          have := cas_success_is_atomic s tid c l hc
          exact (Prod.mk.inj this).1
        have e2 : (stepC s (.casStore tid c l)).2 = some (apply s.σ (.cfgSet c l)).2 := by
          have := cas_success_is_atomic s tid c l hc
          exact (Prod.mk.inj this).2
        simp only [hc, if_true]
        rw [run_append, results_append]
        simp only [outputs, List.filterMap_cons] at ih ⊢
        rw [e2]
        simp only [id, results, run, List.foldl_cons, List.foldl_nil, List.cons_append, List.nil_append]
        rw [e1] at ih
        exact ⟨ih.1, congrArg _ ih.2⟩
      · obtain ⟨e1, e2⟩ := cas_failure_no_effect s tid c l hc
        simp only [hc, if_false, List.nil_append]
        simp only [outputs, List.filterMap_cons] at ih ⊢
        rw [e2]
        rw [e1] at ih
        exact ih

/-- the hypotheses are inhabited: the interleaving of the lost-update witness, with CompareAndSwap — thread 2's first swap
    fails; three operations take effect, in the order 1, 2, 3 -/
example : effOps ⟨St.init, []⟩ [.load 1, .load 2, .casStore 1 7 0, .casStore 2 0 9, .casStore 2 0 9, .atomic 3 .cfgGet]
    = [.cfgSet 7 0, .cfgSet 0 9, .cfgGet] := by decide

/-! ### no lost update -/

/-- an operation that leaves CustomError alone -/
def keepsCustom : Op → Bool
  | .cfgReset => false
  | .cfgSet c _ => c == 0
  | _ => true

def keepsLocale : Op → Bool
  | .cfgReset => false
  | .cfgSet _ l => l == 0
  | _ => true

theorem run_keeps_custom : ∀ (ops : List Op) (σ : St), (∀ o ∈ ops, keepsCustom o = true) → (run σ ops).custom = σ.custom
  | [], _, _ => rfl
  | o :: r, σ, h => by
    have ho := h o (by simp)
    have ih := run_keeps_custom r (apply σ o).1 (fun x hx => h x (List.mem_cons_of_mem _ hx))
    simp only [run, List.foldl_cons] at ih ⊢
    rw [ih]
    cases o <;> simp_all [apply, keepsCustom, merge]

theorem run_keeps_locale : ∀ (ops : List Op) (σ : St), (∀ o ∈ ops, keepsLocale o = true) → (run σ ops).locale = σ.locale
  | [], _, _ => rfl
  | o :: r, σ, h => by
    have ho := h o (by simp)
    have ih := run_keeps_locale r (apply σ o).1 (fun x hx => h x (List.mem_cons_of_mem _ hx))
    simp only [run, List.foldl_cons] at ih ⊢
    rw [ih]
    cases o <;> simp_all [apply, keepsLocale, merge]

/-- **cfgSet_persists** (sequential): what a SetConfig set stays set until a later SetConfig sets that field again or a
    reset happens. -/
theorem cfgSet_persists (pre post : List Op) (σ : St) (c l : Nat) :
    (c ≠ 0 → (∀ o ∈ post, keepsCustom o = true) → (run σ (pre ++ .cfgSet c l :: post)).custom = c) ∧
    (l ≠ 0 → (∀ o ∈ post, keepsLocale o = true) → (run σ (pre ++ .cfgSet c l :: post)).locale = l) := by
  constructor
  · intro hc hp
    rw [run_append]
    simp only [run, List.foldl_cons]
    have := run_keeps_custom post (apply (List.foldl (fun s o => (apply s o).1) σ pre) (.cfgSet c l)).1 hp
    simp only [run] at this
    rw [this]
    simp [apply, merge, hc]
  · intro hl hp
    rw [run_append]
    simp only [run, List.foldl_cons]
    have := run_keeps_locale post (apply (List.foldl (fun s o => (apply s o).1) σ pre) (.cfgSet c l)).1 hp
    simp only [run] at this
    rw [this]
    simp [apply, merge, hl]

/-- **setconfig_no_lost_update**: over EVERY schedule of the machine (CompareAndSwap; any interleaving of loads, failed
    and successful swaps of any number of threads): if a SetConfig setting CustomError = c took effect and every
    operation that took effect after it leaves CustomError alone, the final configuration has CustomError = c
    (likewise LocaleError). -/
theorem setconfig_no_lost_update (acts : List Act) (s : CState) (hs : ∀ a ∈ acts, a.isStore = false)
    (pre post : List Op) (c l : Nat) (he : effOps s acts = pre ++ .cfgSet c l :: post) :
    (c ≠ 0 → (∀ o ∈ post, keepsCustom o = true) → (runC s acts).1.σ.custom = c) ∧
    (l ≠ 0 → (∀ o ∈ post, keepsLocale o = true) → (runC s acts).1.σ.locale = l) := by
  rw [(runC_refines_apply acts s hs).1, he]
  exact cfgSet_persists pre post s.σ c l

/-- inhabited: in the CompareAndSwap interleaving of the witness both updates survive -/
example : (runC ⟨St.init, []⟩ [.load 1, .load 2, .casStore 1 7 0, .casStore 2 0 9, .casStore 2 0 9]).1.σ.custom = 7 :=
  (setconfig_no_lost_update _ _ (by decide) [] [.cfgSet 0 9] 7 0 (by decide)).1 (by decide) (by decide)

/-! ### executions of the machine within the recorded windows are linearizable -/

/-- an execution of the machine that completes the pending calls with the recorded results, every step taken by a call
    that no unfinished call precedes in real time -/
inductive Exec : CState → List PCall → Prop
  | done (s) : Exec s []
  | ret (s : CState) (ps : List PCall) (p : PCall) (r : Res) : p ∈ ps → (∀ d ∈ ps, precedes d.c p.c = false) →
      (stepC s p.act).2 = some r → r = p.c.res → Exec (stepC s p.act).1 (ps.erase p) → Exec s ps
  | cont (s : CState) (ps : List PCall) (p : PCall) : p ∈ ps → (∀ d ∈ ps, precedes d.c p.c = false) →
      (stepC s p.act).2 = none → Exec (stepC s p.act).1 (ps.erase p ++ [{ p with loaded := true }]) → Exec s ps

/-- **replay_sound**: what the driver's search accepts is an execution of the machine. -/
theorem replay_sound : ∀ (fuel : Nat) (s : CState) (ps : List PCall), replay fuel s ps = true → Exec s ps
  | _, s, [], _ => Exec.done s
  | 0, _, _ :: _, h => by simp [replay] at h
  | fuel + 1, s, q :: qs, h => by
    simp only [replay, List.any_eq_true, Bool.and_eq_true, List.all_eq_true, Bool.not_eq_true'] at h
    obtain ⟨p, hp, hpre, hstep⟩ := h
    cases hr : (stepC s p.act).2 with
    | some r =>
      rw [hr] at hstep
      simp only [Bool.and_eq_true, beq_iff_eq] at hstep
      exact Exec.ret s _ p r hp hpre hr hstep.1 (replay_sound fuel _ _ hstep.2)
    | none =>
      rw [hr] at hstep
      exact Exec.cont s _ p hp hpre hr (replay_sound fuel _ _ hstep)

/-- a step that makes a call return is the specification's step for that call -/
theorem ret_step_is_apply (s : CState) (p : PCall) (r : Res) (h : (stepC s p.act).2 = some r) :
    (stepC s p.act).1.σ = (apply s.σ p.c.op).1 ∧ r = (apply s.σ p.c.op).2 := by
  unfold PCall.act at h ⊢
  cases hop : p.c.op with
  | cfgSet c l =>
    simp only [hop] at h ⊢
    by_cases hl : p.loaded = true
    · simp only [hl, if_true] at h ⊢
      by_cases hc : loadedOf p.c.id s.loaded = (s.σ.custom, s.σ.locale)
      · have := cas_success_is_atomic s p.c.id c l hc
        have e1 := (Prod.mk.inj this).1
        have e2 := (Prod.mk.inj this).2
        rw [e2] at h
        exact ⟨e1, (Option.some.inj h).symm⟩
      · rw [(cas_failure_no_effect s p.c.id c l hc).2] at h
        exact absurd h (by simp)
    · simp only [hl] at h
      simp [stepC] at h
  | add k v => simp only [hop] at h ⊢; simp only [stepC, Option.some.injEq] at h ⊢; exact ⟨trivial, h.symm⟩
  | get k => simp only [hop] at h ⊢; simp only [stepC, Option.some.injEq] at h ⊢; exact ⟨trivial, h.symm⟩
  | has k => simp only [hop] at h ⊢; simp only [stepC, Option.some.injEq] at h ⊢; exact ⟨trivial, h.symm⟩
  | remove k => simp only [hop] at h ⊢; simp only [stepC, Option.some.injEq] at h ⊢; exact ⟨trivial, h.symm⟩
  | rangeKeys => simp only [hop] at h ⊢; simp only [stepC, Option.some.injEq] at h ⊢; exact ⟨trivial, h.symm⟩
  | cfgGet => simp only [hop] at h ⊢; simp only [stepC, Option.some.injEq] at h ⊢; exact ⟨trivial, h.symm⟩
  | cfgReset => simp only [hop] at h ⊢; simp only [stepC, Option.some.injEq] at h ⊢; exact ⟨trivial, h.symm⟩

/-- a step that does not make the call return (a Load, a failed swap) leaves the shared state alone -/
theorem cont_step_keeps (s : CState) (p : PCall) (h : (stepC s p.act).2 = none) : (stepC s p.act).1.σ = s.σ := by
  unfold PCall.act at h ⊢
  cases hop : p.c.op with
  | cfgSet c l =>
    simp only [hop] at h ⊢
    by_cases hl : p.loaded = true
    · simp only [hl, if_true] at h ⊢
      by_cases hc : loadedOf p.c.id s.loaded = (s.σ.custom, s.σ.locale)
      · have := cas_success_is_atomic s p.c.id c l hc
        rw [(Prod.mk.inj this).2] at h
        exact absurd h (by simp)
      · exact (cas_failure_no_effect s p.c.id c l hc).1
    · simp only [hl]
      simp [stepC]
  | add k v => simp only [hop] at h; simp [stepC] at h
  | get k => simp only [hop] at h; simp [stepC] at h
  | has k => simp only [hop] at h; simp [stepC] at h
  | remove k => simp only [hop] at h; simp [stepC] at h
  | rangeKeys => simp only [hop] at h; simp [stepC] at h
  | cfgGet => simp only [hop] at h; simp [stepC] at h
  | cfgReset => simp only [hop] at h; simp [stepC] at h

theorem rtOrdered_cons_of (c : Call) (l : List Call) (h1 : ∀ d ∈ l, precedes d c = false) (h2 : rtOrdered l = true) :
    rtOrdered (c :: l) = true := by
  simp only [rtOrdered, Bool.and_eq_true, List.all_eq_true, Bool.not_eq_true']
  exact ⟨h1, h2⟩

/-- **exec_linearizable**: every execution of the machine — any interleaving of the atomic steps of the pending calls within
    their recorded windows, loads and failed swaps included — yields a linearizable history: the order in which the
    calls returned is a linearization against the sequential specification. -/
theorem exec_linearizable {s : CState} {ps : List PCall} (h : Exec s ps) :
    ∃ l : List Call, l.Perm (ps.map (·.c)) ∧ rtOrdered l = true ∧ seqValid s.σ l = true := by
  induction h with
  | done s => exact ⟨[], by simp, rfl, rfl⟩
  | ret s ps p r hp hpre hstep hres _ ih =>
    obtain ⟨l, hperm, hrt, hsv⟩ := ih
    obtain ⟨e1, e2⟩ := ret_step_is_apply s p r hstep
    refine ⟨p.c :: l, ?_, ?_, ?_⟩
    · have h1 : (p.c :: l).Perm (p.c :: (ps.erase p).map (·.c)) := List.Perm.cons _ hperm
      have h2 : (p :: ps.erase p).Perm ps := (List.perm_cons_erase hp).symm
      exact h1.trans (by simpa using h2.map (·.c))
    · refine rtOrdered_cons_of p.c l ?_ hrt
      intro d hd
      have hd' : d ∈ (ps.erase p).map (·.c) := hperm.subset hd
      obtain ⟨q, hq, rfl⟩ := List.mem_map.1 hd'
      exact hpre q (List.mem_of_mem_erase hq)
    · simp only [seqValid, Bool.and_eq_true, beq_iff_eq]
      refine ⟨by rw [← e2, hres], ?_⟩
      rw [← e1]
      exact hsv
  | cont s ps p hp hpre hstep _ ih =>
    obtain ⟨l, hperm, hrt, hsv⟩ := ih
    refine ⟨l, ?_, hrt, ?_⟩
    · have h2 : (p :: ps.erase p).Perm ps := (List.perm_cons_erase hp).symm
      have h3 : ((ps.erase p ++ [{ p with loaded := true }]).map PCall.c).Perm ((p :: ps.erase p).map PCall.c) := by
        simp only [List.map_append, List.map_cons, List.map_nil]
        exact List.perm_append_singleton _ _
      exact hperm.trans (h3.trans (h2.map (·.c)))
    · rw [cont_step_keeps s p hstep] at hsv
      exact hsv

/-- **replay_linearizable**: a recorded history the code model can produce is linearizable. -/
theorem replay_linearizable (σ : St) (h : List Call) (hr : replayable σ h = true) : Linearizable σ h := by
  obtain ⟨l, hperm, hrt, hsv⟩ := exec_linearizable (replay_sound _ _ _ hr)
  refine ⟨l, ?_, hrt, hsv⟩
  have e : (h.map (fun c => (⟨c, false⟩ : PCall))).map (·.c) = h := by
    rw [List.map_map]
    exact List.map_id' h
  rw [e] at hperm
  exact hperm

/-- inhabited: the machine produces the CompareAndSwap history of the witness's interleaving, and cannot produce the
    lost-update history of the legacy code -/
example : replayable St.init [⟨1, .cfgSet 7 0, .cfg 7 0, 0, 5⟩, ⟨2, .cfgSet 0 9, .cfg 7 9, 1, 6⟩, ⟨3, .cfgGet, .cfg 7 9, 7, 8⟩] = true ∧
    replayable St.init lostHist = false := by decide

end Gozod.C14
