package main

// Translator, part 2 (round 4b): the options struct and what the document holds by reference.
//
//	optionFields    every field of `type Options struct` of jsonschema/to.go with its class (value / registry / callback) and
//	                the functions that READ it, WRITE it, CALL it (selector expressions on `opts` / `options` / `c.opts`):
//	                a new option, or an option read at a new place, changes a proof obligation (Proofs/C12Access.lean
//	                `c12_options_modelled`, `c12_options_read_only`); the model takes each field as a parameter of the
//	                conversion step (Model/ConvOpts.lean).
//	overrideCall    what `c.opts.Override(OverrideContext{…})` is handed: per field of the context the expression, its
//	                provenance, and whether the same variable is what the function RETURNS (the live node of the document).
//	docStores       every reference-typed value stored INTO the document (fields Examples / Enum / Const.Value / Required /
//	                Type / Default / Defs of a lib.Schema, by assignment or composite literal) with the provenance of the
//	                VALUE: fresh, another document node, a plain value — or `registryEntry`: a field of the struct copy
//	                `Registry.Get` hands out (its slices are the registry's own).  The write-site table says where the
//	                converter writes; this one says what the caller (and an Override) can reach through the result.

import (
	"fmt"
	"go/ast"
	"go/token"
	"sort"
	"strings"
)

type optField struct {
	Name, Type, Class    string
	Reads, Writes, Calls []string
}

type ctxArg struct {
	Field, Expr, Origin string
	Returned            bool
}

type storeRow struct{ Func, Field, Rhs, Origin string }

var docRefFields = map[string]bool{"Examples": true, "Enum": true, "Const": true, "Value": true, "Required": true, "Type": true,
	"Default": true, "Defs": true}

func isOptsExpr(a *analyzer, x ast.Expr) bool {
	t := a.text(x)
	return t == "opts" || t == "options" || t == "c.opts"
}

// definedByRegistryGet: is `name` assigned, somewhere in fd, the result of Registry.Get or of the converter's lookupMeta
// (which returns what Registry.Get returned)?
func definedByRegistryGet(a *analyzer, fd *ast.FuncDecl, name string) bool {
	found := false
	ast.Inspect(fd.Body, func(n ast.Node) bool {
		as, ok := n.(*ast.AssignStmt)
		if !ok || len(as.Rhs) != 1 {
			return true
		}
		id, ok := as.Lhs[0].(*ast.Ident)
		if !ok || id.Name != name {
			return true
		}
		if c, ok := as.Rhs[0].(*ast.CallExpr); ok {
			f := a.text(c.Fun)
			if strings.HasSuffix(f, ".Get") || f == "c.lookupMeta" {
				found = true
			}
		}
		return true
	})
	return found
}

func (a *analyzer) valueOrigin(env *fenv, fd *ast.FuncDecl, rhs ast.Expr) string {
	if c, ok := rhs.(*ast.CallExpr); ok {
		f := a.text(c.Fun)
		if freshCalls[f] || f == "new" || f == "make" {
			return "fresh"
		}
	}
	if root, _ := rootOf(rhs); root != "" {
		if _, isSel := rhs.(*ast.SelectorExpr); isSel && definedByRegistryGet(a, fd, root) {
			return "registryEntry"
		}
	}
	return env.origin(rhs)
}

func (a *analyzer) optionFacts() (fields []optField, ctx []ctxArg, uriArgs []ctxArg, stores []storeRow, err error) {
	// the struct
	byName := map[string]*optField{}
	for _, d := range a.file.Decls {
		gd, ok := d.(*ast.GenDecl)
		if !ok || gd.Tok != token.TYPE {
			continue
		}
		for _, sp := range gd.Specs {
			ts, ok := sp.(*ast.TypeSpec)
			if !ok || ts.Name.Name != "Options" {
				continue
			}
			st, ok := ts.Type.(*ast.StructType)
			if !ok {
				continue
			}
			for _, f := range st.Fields.List {
				t := a.text(f.Type)
				cls := "value"
				switch {
				case strings.HasPrefix(t, "func"):
					cls = "callback"
				case strings.Contains(t, "Registry"):
					cls = "registry"
				case t != "string":
					cls = "other:" + t
				}
				for _, n := range f.Names {
					fields = append(fields, optField{Name: n.Name, Type: t, Class: cls})
				}
			}
		}
	}
	if len(fields) == 0 {
		return nil, nil, nil, nil, fmt.Errorf("type Options struct not found in to.go")
	}
	for i := range fields {
		byName[fields[i].Name] = &fields[i]
	}
	var names []string
	for n := range a.funcs {
		names = append(names, n)
	}
	sort.Strings(names)
	addU := func(xs []string, s string) []string {
		for _, x := range xs {
			if x == s {
				return xs
			}
		}
		return append(xs, s)
	}
	for _, fn := range names {
		fd := a.funcs[fn]
		if fd.Body == nil {
			continue
		}
		env := a.envOf(fd, false)
		written := map[ast.Expr]bool{}
		called := map[ast.Expr]bool{}
		returned := map[string]bool{}
		ast.Inspect(fd.Body, func(n ast.Node) bool {
			if r, ok := n.(*ast.ReturnStmt); ok {
				for _, x := range r.Results {
					if id, ok := x.(*ast.Ident); ok {
						returned[id.Name] = true
					}
				}
			}
			return true
		})
		ast.Inspect(fd.Body, func(n ast.Node) bool {
			switch s := n.(type) {
			case *ast.AssignStmt:
				for i, l := range s.Lhs {
					if sel, ok := l.(*ast.SelectorExpr); ok {
						if isOptsExpr(a, sel.X) {
							written[sel] = true
							if f := byName[sel.Sel.Name]; f != nil {
								f.Writes = addU(f.Writes, fn)
							}
						}
						// a reference-typed value stored into the document
						if docRefFields[sel.Sel.Name] && len(s.Rhs) == len(s.Lhs) {
							if o := env.origin(sel.X); o == "doc" || o == "fresh" {
								stores = append(stores, storeRow{fn, sel.Sel.Name, a.text(s.Rhs[i]), a.valueOrigin(env, fd, s.Rhs[i])})
							}
						}
					}
				}
			case *ast.CompositeLit:
				t := a.text(s.Type)
				if t == "lib.Schema" || t == "lib.ConstValue" {
					for _, el := range s.Elts {
						if kv, ok := el.(*ast.KeyValueExpr); ok {
							if k, ok := kv.Key.(*ast.Ident); ok && docRefFields[k.Name] {
								stores = append(stores, storeRow{fn, k.Name, a.text(kv.Value), a.valueOrigin(env, fd, kv.Value)})
							}
						}
					}
				}
			case *ast.CallExpr:
				if sel, ok := s.Fun.(*ast.SelectorExpr); ok && isOptsExpr(a, sel.X) {
					called[sel] = true
					if f := byName[sel.Sel.Name]; f != nil {
						f.Calls = addU(f.Calls, fn)
					}
					var args *[]ctxArg
					switch sel.Sel.Name {
					case "Override":
						args = &ctx
					case "URI":
						args = &uriArgs
					}
					if args != nil {
						for i, arg := range s.Args {
							if cl, ok := arg.(*ast.CompositeLit); ok {
								for _, el := range cl.Elts {
									if kv, ok := el.(*ast.KeyValueExpr); ok {
										id, _ := kv.Value.(*ast.Ident)
										*args = append(*args, ctxArg{a.text(kv.Key), a.text(kv.Value), env.origin(kv.Value), id != nil && returned[id.Name]})
									}
								}
							} else {
								id, _ := arg.(*ast.Ident)
								*args = append(*args, ctxArg{fmt.Sprintf("arg%d", i), a.text(arg), env.origin(arg), id != nil && returned[id.Name]})
							}
						}
					}
				}
			}
			return true
		})
		ast.Inspect(fd.Body, func(n ast.Node) bool {
			if sel, ok := n.(*ast.SelectorExpr); ok && isOptsExpr(a, sel.X) && !written[sel] {
				if f := byName[sel.Sel.Name]; f != nil {
					f.Reads = addU(f.Reads, fn)
				}
			}
			return true
		})
	}
	if len(ctx) == 0 {
		return nil, nil, nil, nil, fmt.Errorf("no call of opts.Override found in to.go")
	}
	sort.Slice(stores, func(i, j int) bool {
		if stores[i].Func != stores[j].Func {
			return stores[i].Func < stores[j].Func
		}
		if stores[i].Field != stores[j].Field {
			return stores[i].Field < stores[j].Field
		}
		return stores[i].Rhs < stores[j].Rhs
	})
	return
}

// mutatorCalls: every call, anywhere in to.go, of a method whose name says it mutates its receiver (Add, Remove, Set…,
// Store, Delete, Clear, Register, Insert, Reset, Swap, AddCheck, Push, Append…) on anything but the converter itself and
// the document: registries (`c.opts.Metadata`, `core.GlobalRegistry`), schemas, internals. The write-site table sees
// assignments and builtin / slices / maps calls; a method call that mutates behind an API is invisible to it.
var mutatorPrefixes = []string{"Add", "Remove", "Set", "Store", "Delete", "Clear", "Register", "Insert", "Reset", "Swap", "Push", "Append", "Put", "Update", "Merge"}

type mutRow struct{ Func, Call, Recv string }

func (a *analyzer) mutatorCalls() []mutRow {
	var out []mutRow
	var names []string
	for n := range a.funcs {
		names = append(names, n)
	}
	sort.Strings(names)
	for _, fn := range names {
		fd := a.funcs[fn]
		if fd.Body == nil {
			continue
		}
		env := a.envOf(fd, false)
		ast.Inspect(fd.Body, func(n ast.Node) bool {
			c, ok := n.(*ast.CallExpr)
			if !ok {
				return true
			}
			sel, ok := c.Fun.(*ast.SelectorExpr)
			if !ok {
				return true
			}
			isMut := false
			for _, p := range mutatorPrefixes {
				if strings.HasPrefix(sel.Sel.Name, p) {
					isMut = true
				}
			}
			if !isMut {
				return true
			}
			if id, ok := sel.X.(*ast.Ident); ok {
				if _, isVar := env.vars[id.Name]; !isVar && id.Obj == nil {
					return true // a package-level function (slices.Insert, …): the write-site table has it
				}
			}
			recv := a.text(sel.X)
			o := env.origin(sel.X)
			if strings.HasPrefix(recv, "c.opts") || strings.Contains(recv, "GlobalRegistry") || strings.HasPrefix(recv, "reg") {
				o = "registry"
			}
			if recv == "c" || o == "doc" || o == "fresh" {
				return true // the converter's own state / the document under construction
			}
			out = append(out, mutRow{fn, a.text(c.Fun), o})
			return true
		})
	}
	return out
}

func vOriginLean(o string) string {
	switch {
	case o == "fresh" || o == "zero":
		return ".fresh"
	case o == "doc":
		return ".doc"
	case o == "value":
		return ".value"
	case o == "registryEntry":
		return ".registryEntry"
	case o == "schema":
		return ".schema"
	}
	return ".other " + q(o)
}

func qlist(xs []string) string {
	var out []string
	for _, x := range xs {
		out = append(out, q(x))
	}
	return "[" + strings.Join(out, ", ") + "]"
}

func (a *analyzer) emitOptionFacts(b *strings.Builder) error {
	fields, ctx, uri, stores, err := a.optionFacts()
	if err != nil {
		return err
	}
	b.WriteString("/-- provenance of a VALUE stored into the document / handed to a callback -/\ninductive VOrigin\n  | fresh | doc | value | registryEntry | schema | other (s : String)\nderiving DecidableEq, Repr\n\n")
	b.WriteString("structure OptField where\n  name : String\n  typ : String\n  cls : String\n  reads : List String\n  writes : List String\n  calls : List String\nderiving DecidableEq, Repr\n\n")
	b.WriteString("structure CtxArg where\n  field : String\n  expr : String\n  origin : VOrigin\n  returned : Bool   -- the same variable is what the calling function returns\nderiving DecidableEq, Repr\n\n")
	b.WriteString("structure DocStore where\n  fn : String\n  field : String\n  rhs : String\n  origin : VOrigin\nderiving DecidableEq, Repr\n\n")
	b.WriteString("/-- every field of `type Options struct`, and the functions of to.go that read / write / call it -/\ndef optionFields : List OptField := [\n")
	for i, f := range fields {
		fmt.Fprintf(b, "  ⟨%s, %s, %s, %s, %s, %s⟩%s\n", q(f.Name), q(f.Type), q(f.Class), qlist(f.Reads), qlist(f.Writes), qlist(f.Calls), comma(i, len(fields)))
	}
	b.WriteString("]\n\n/-- what `c.opts.Override(OverrideContext{…})` is handed -/\ndef overrideCall : List CtxArg := [\n")
	for i, c := range ctx {
		fmt.Fprintf(b, "  ⟨%s, %s, %s, %v⟩%s\n", q(c.Field), q(c.Expr), vOriginLean(c.Origin), c.Returned, comma(i, len(ctx)))
	}
	b.WriteString("]\n\n/-- what `c.opts.URI(…)` is handed -/\ndef uriCall : List CtxArg := [\n")
	for i, c := range uri {
		fmt.Fprintf(b, "  ⟨%s, %s, %s, %v⟩%s\n", q(c.Field), q(c.Expr), vOriginLean(c.Origin), c.Returned, comma(i, len(uri)))
	}
	b.WriteString("]\n\n/-- every reference-typed value stored into the document, with the provenance of the value -/\ndef docStores : List DocStore := [\n")
	for i, s := range stores {
		fmt.Fprintf(b, "  ⟨%s, %s, %s, %s⟩%s\n", q(s.Func), q(s.Field), q(s.Rhs), vOriginLean(s.Origin), comma(i, len(stores)))
	}
	b.WriteString("]\n\n/-- every call of a mutating method (Add / Remove / Set… / Store / Delete / …) on anything but the converter and the document -/\ndef mutatorCalls : List (String × String × String) := [")
	var ms []string
	for _, m := range a.mutatorCalls() {
		ms = append(ms, fmt.Sprintf("(%s, %s, %s)", q(m.Func), q(m.Call), q(m.Recv)))
	}
	b.WriteString(strings.Join(ms, ", "))
	b.WriteString("]\n\n")
	return nil
}
