/-
  C20 — format validators accept exactly the well-formed strings of their format, and the
  pattern exported to JSON Schema matches the same strings.

  For every format: `Gen.val_<f>` is the regular expression the validator matches and `Gen.pat_<f>`
  the pattern exported to JSON Schema (both regenerated from the library on every run,
  Gen/Regexes.lean); `Fmt.<f>` is the format's definition (Model/FormatSpec.lean).

    c20_<f>          ∀ s, accepts val_<f> s = Fmt.<f>.run s        validator = definition
    c20_<f>_pattern  ∀ s, accepts pat_<f> s = Fmt.<f>.run s        exported pattern = definition

  each from a bisimulation certificate (Gen/Cert_<f>.lean) checked by the kernel, through
  `bisim_sound` (Proofs/C20Bisim.lean).  For the parser-validated formats (CIDR, ISO date,
  ISO date-time) the exported pattern has the certificate and the parser is tied to the same
  definition by the correspondence run.
-/
import Gozod.Proofs.C20Bisim
import Gozod.Model.GoParsers
import Gozod.Gen.Cert_ipv4
import Gozod.Gen.Cert_hex
import Gozod.Gen.Cert_e164
import Gozod.Gen.Cert_mac
import Gozod.Gen.Cert_macdash
import Gozod.Gen.Cert_base64
import Gozod.Gen.Cert_uuid
import Gozod.Gen.Cert_uuidv4
import Gozod.Gen.Cert_uuidv6
import Gozod.Gen.Cert_uuidv7
import Gozod.Gen.Cert_guid
import Gozod.Gen.Cert_cidrv4
import Gozod.Gen.Cert_isodate
import Gozod.Gen.Cert_isodatetime_optsec
import Gozod.Gen.Cert_isodatetime_partial
import Gozod.Gen.Cert_base64url_partial
import Gozod.Gen.Cert_macdot
import Gozod.Gen.Cert_tmo_n
import Gozod.Gen.Cert_tmo_m
import Gozod.Gen.Cert_tmo_0
import Gozod.Gen.Cert_tmo_1
import Gozod.Gen.Cert_tmo_2
import Gozod.Gen.Cert_tmo_3
import Gozod.Gen.Cert_tmo_9
import Gozod.Model.FormatSpecV6
import Gozod.Gen.Re_ipv6
import Gozod.Gen.Re_cidrv6
namespace Gozod.C20
open Gozod Gozod.Re

-- `b! "text"` is the list of the UTF-8 bytes of the literal (for examples and witnesses)
open Lean in
macro "b!" s:str : term => do
  let bs := s.getString.toUTF8.toList.map (·.toNat)
  let elems : Array (TSyntax `term) := (bs.map fun n => (Syntax.mkNumLit (toString n) : TSyntax `term)).toArray
  `([$elems,*])

/-! ## regex-validated formats: validator = definition, exported pattern = validator's regex -/

theorem c20_ipv4 : ∀ s, accepts Gen.val_ipv4 s = Fmt.ipv4.run s := bisim_sound_full _ _ Gen.cert_ipv4_ok
theorem c20_ipv4_pattern : ∀ s, accepts Gen.pat_ipv4 s = Fmt.ipv4.run s := c20_ipv4
example : Fmt.ipv4.run (b! "255.0.10.199") = true ∧ Fmt.ipv4.run (b! "256.0.0.0") = false ∧
    Fmt.ipv4.run (b! "1.2.3.04") = false ∧ Fmt.ipv4.run (b! "1.2.3.4\n") = false := by decide

theorem c20_hex : ∀ s, accepts Gen.val_hex s = Fmt.hex.run s := bisim_sound_full _ _ Gen.cert_hex_ok
theorem c20_hex_pattern : ∀ s, accepts Gen.pat_hex s = Fmt.hex.run s := c20_hex

theorem c20_e164 : ∀ s, accepts Gen.val_e164 s = Fmt.e164.run s := bisim_sound_full _ _ Gen.cert_e164_ok
theorem c20_e164_pattern : ∀ s, accepts Gen.pat_e164 s = Fmt.e164.run s := c20_e164
example : Fmt.e164.run (b! "+1234567") = true ∧ Fmt.e164.run (b! "+123456") = false ∧
    Fmt.e164.run (b! "+123456789012345") = true ∧ Fmt.e164.run (b! "+1234567890123456") = false := by decide

theorem c20_mac : ∀ s, accepts Gen.val_mac s = (Fmt.mac 58).run s := bisim_sound_full _ _ Gen.cert_mac_ok
theorem c20_mac_pattern : ∀ s, accepts Gen.pat_mac s = (Fmt.mac 58).run s := c20_mac
theorem c20_macdash : ∀ s, accepts Gen.val_macdash s = (Fmt.mac 45).run s := bisim_sound_full _ _ Gen.cert_macdash_ok
theorem c20_macdash_pattern : ∀ s, accepts Gen.pat_macdash s = (Fmt.mac 45).run s := c20_macdash
example : (Fmt.mac 58).run (b! "00:1A:2B:3C:4D:5E") = true ∧ (Fmt.mac 58).run (b! "00:1A:2b:3C:4D:5E") = false := by decide

theorem c20_base64 : ∀ s, accepts Gen.val_base64 s = Fmt.base64.run s := bisim_sound_full _ _ Gen.cert_base64_ok
theorem c20_base64_pattern : ∀ s, accepts Gen.pat_base64 s = Fmt.base64.run s := c20_base64
example : Fmt.base64.run (b! "QUI=") = true ∧ Fmt.base64.run (b! "QUI") = false ∧ Fmt.base64.run (b! "Q===") = false := by decide

theorem c20_uuid : ∀ s, accepts Gen.val_uuid s = (Fmt.uuid none).run s := bisim_sound_full _ _ Gen.cert_uuid_ok
theorem c20_uuid_pattern : ∀ s, accepts Gen.pat_uuid s = (Fmt.uuid none).run s := c20_uuid
theorem c20_uuidv4 : ∀ s, accepts Gen.val_uuidv4 s = (Fmt.uuid (some 4)).run s := bisim_sound_full _ _ Gen.cert_uuidv4_ok
theorem c20_uuidv4_pattern : ∀ s, accepts Gen.pat_uuidv4 s = (Fmt.uuid (some 4)).run s := c20_uuidv4
theorem c20_uuidv6 : ∀ s, accepts Gen.val_uuidv6 s = (Fmt.uuid (some 6)).run s := bisim_sound_full _ _ Gen.cert_uuidv6_ok
theorem c20_uuidv6_pattern : ∀ s, accepts Gen.pat_uuidv6 s = (Fmt.uuid (some 6)).run s := c20_uuidv6
theorem c20_uuidv7 : ∀ s, accepts Gen.val_uuidv7 s = (Fmt.uuid (some 7)).run s := bisim_sound_full _ _ Gen.cert_uuidv7_ok
theorem c20_uuidv7_pattern : ∀ s, accepts Gen.pat_uuidv7 s = (Fmt.uuid (some 7)).run s := c20_uuidv7
theorem c20_guid : ∀ s, accepts Gen.val_guid s = Fmt.guid.run s := bisim_sound_full _ _ Gen.cert_guid_ok
theorem c20_guid_pattern : ∀ s, accepts Gen.pat_guid s = Fmt.guid.run s := c20_guid
example : (Fmt.uuid none).run (b! "123e4567-e89b-12d3-a456-426614174000") = true ∧
    (Fmt.uuid none).run (b! "123e4567-e89b-92d3-a456-426614174000") = false ∧
    (Fmt.uuid none).run (b! "00000000-0000-0000-0000-000000000000") = true ∧
    (Fmt.uuid (some 4)).run (b! "00000000-0000-0000-0000-000000000000") = false := by decide

/-! ## parser-validated formats: the exported pattern = definition -/

theorem c20_cidrv4_pattern : ∀ s, accepts Gen.pat_cidrv4 s = Fmt.cidrv4.run s := bisim_sound_full _ _ Gen.cert_cidrv4_ok
/-- NOT a property theorem (round 4c, audit B LOW; dropped from THEOREMS): `Parsers.goCIDRv4` is the definition
    itself by `def`, and the driver does not run it.  The validator theorem is `c20_cidrv4_netip`
    (Proofs/C20Netip.lean: the transcription of netip.ParsePrefix the driver runs = the definition, all strings). -/
theorem c20_cidrv4 : ∀ s, Parsers.goCIDRv4 s = Fmt.cidrv4.run s := fun _ => rfl
example : Fmt.cidrv4.run (b! "10.0.0.0/8") = true ∧ Fmt.cidrv4.run (b! "10.0.0.0/33") = false ∧
    Fmt.cidrv4.run (b! "10.0.0.0/08") = false ∧ Fmt.cidrv4.run (b! "::ffff:1.2.3.4/120") = false := by decide

/-! ### the year of a date may be kept modulo 400 -/

theorem sim_run (S Q : Spec) (abs : S.State → Q.State) (hsup : S.support = Q.support)
    (hinit : abs S.init = Q.init) (hstep : ∀ q c, (S.step q c).map abs = Q.step (abs q) c)
    (hacc : ∀ q, S.acc q = Q.acc (abs q)) : ∀ s, S.run s = Q.run s := by
  have hg : ∀ (o : Option S.State) c, (S.gstep o c).map abs = Q.gstep (o.map abs) c := by
    intro o c
    cases o with
    | none => rfl
    | some q =>
      show (if S.support.elem c then S.step q c else none).map abs
          = (if Q.support.elem c then Q.step (abs q) c else none)
      rw [← hsup]
      by_cases h : S.support.elem c = true
      · rw [if_pos h, if_pos h]; exact hstep q c
      · rw [if_neg h, if_neg h]; rfl
  have hrun : ∀ (s : List Nat) (o : Option S.State),
      (s.foldl S.gstep o).map abs = s.foldl Q.gstep (o.map abs) := by
    intro s
    induction s with
    | nil => intro o; rfl
    | cons c s ih => intro o; simp only [List.foldl_cons]; rw [ih, hg]
  intro s
  have h := hrun s (some S.init)
  simp only [Option.map, hinit] at h
  unfold Spec.run Spec.runState
  rw [← h]
  cases s.foldl S.gstep (some S.init) with
  | none => rfl
  | some q => exact hacc q

/-- forget the year's multiples of 400 while it is being read -/
def absY (q : Fmt.DateSt) : Fmt.DateSt := if q.pos ≤ 4 then { q with y := q.y % 400 } else q

theorem isLeap_mod (y : Nat) : Fmt.isLeap (y % 400) = Fmt.isLeap y := by
  unfold Fmt.isLeap
  have h1 : y % 400 % 4 = y % 4 := by omega
  have h2 : y % 400 % 100 = y % 100 := by omega
  have h3 : y % 400 % 400 = y % 400 := by omega
  rw [h1, h2, h3]

theorem dateStep_abs (q : Fmt.DateSt) (c : Nat) :
    (Fmt.dateStep 10000 q c).map absY = Fmt.dateStep 400 (absY q) c := by
  obtain ⟨pos, y, m, d, t⟩ := q
  by_cases h4 : pos < 4
  · have e1 : (y * 10 + (c - 48)) % 10000 % 400 = (y % 400 * 10 + (c - 48)) % 400 := by omega
    have hp : pos ≤ 4 := by omega
    have hp1 : pos + 1 ≤ 4 := by omega
    simp only [Fmt.dateStep, absY, h4, hp, if_true]
    split
    · simp [Option.map, absY, hp1, e1]
    · rfl
  · by_cases h5 : pos = 4
    · subst h5
      simp only [Fmt.dateStep, absY, Nat.lt_irrefl, if_false, Nat.le_refl, if_true, isLeap_mod]
      split
      · simp [Option.map, absY]
      · rfl
    · have hp : ¬ pos ≤ 4 := by omega
      simp only [Fmt.dateStep, absY, h4, h5, hp, if_false]
      repeat' split
      all_goals simp_all [Option.map, absY]

theorem isoDate_quot : ∀ s, Fmt.isoDate.run s = Fmt.isoDateQ.run s :=
  sim_run Fmt.isoDate Fmt.isoDateQ absY rfl rfl dateStep_abs (fun q => by
    obtain ⟨pos, y, m, d, t⟩ := q
    simp only [Fmt.isoDate, Fmt.isoDateQ, absY]
    split <;> rfl)

theorem c20_isodate_pattern : ∀ s, accepts Gen.pat_isodate s = Fmt.isoDate.run s := fun s =>
  (bisim_sound_full _ _ Gen.cert_isodate_ok s).trans (isoDate_quot s).symm
example : Fmt.isoDate.run (b! "2024-02-29") = true ∧ Fmt.isoDate.run (b! "2023-02-29") = false ∧
    Fmt.isoDate.run (b! "1900-02-29") = false ∧ Fmt.isoDate.run (b! "2000-02-29") = true ∧
    Fmt.isoDate.run (b! "2024-04-31") = false ∧ Fmt.isoDate.run (b! "2024-12-06\n") = false := by decide

/-! ## ISO date-time: the exported pattern is RFC 3339 except that it lets the seconds be omitted

  `Fmt.isoDateTimeQ` keeps the year modulo 400 while reading it (`isoDate_quot` shows for the date
  part that this does not change the accepted strings). -/

/-- the full statement for the exported date-time pattern; false on the pinned tree -/
def c20_isodatetime_pattern_full : Prop :=
  ∀ s, accepts Gen.pat_isodatetime s = (Fmt.isoDateTimeQ false).run s

/-- what the pattern is: RFC 3339 with optional seconds -/
theorem c20_isodatetime_pattern_optsec : ∀ s, accepts Gen.pat_isodatetime s = (Fmt.isoDateTimeQ true).run s :=
  bisim_sound_full _ _ Gen.cert_isodatetime_optsec_ok

/-- outside the date-times written without seconds the pattern is exactly RFC 3339 -/
theorem c20_isodatetime_pattern_partial :
    ∀ s, Fmt.isoDateTimeNoSecQ.run s = false → accepts Gen.pat_isodatetime s = (Fmt.isoDateTimeQ false).run s :=
  bisim_sound _ _ Gen.cert_isodatetime_partial_ok

theorem c20_isodatetime_pattern_witness : ¬ c20_isodatetime_pattern_full := fun h =>
  absurd (h (b! "2024-12-06T15:30Z")) (by decide +kernel)

example : Fmt.isoDateTimeNoSecQ.run (b! "2024-12-06T15:30:00.5+08:00") = false ∧
    (Fmt.isoDateTimeQ false).run (b! "2024-12-06T15:30:00.5+08:00") = true ∧
    Fmt.isoDateTimeNoSecQ.run (b! "2024-12-06T15:30Z") = true ∧
    (Fmt.isoDateTimeQ false).run (b! "2024-12-06T15:30:00,5Z") = false ∧
    (Fmt.isoDateTimeQ false).run (b! "2024-12-06T1:30:00Z") = false ∧
    (Fmt.isoDateTimeQ false).run (b! "2023-02-29T00:00:00Z") = false := by decide +kernel

/-- the validator at the pinned commit (time.Parse alone) is not RFC 3339 either -/
theorem c20_isodatetime_goparse_witness :
    Parsers.goRFC3339 (b! "2024-12-06T15:30:00,5Z") = true ∧ Parsers.goRFC3339 (b! "2024-12-06T1:30:00Z") = true ∧
    Parsers.goRFC3339 (b! "2024-12-06T15:30:00+24:00") = true := by decide +kernel

/-! ## Base64URL: the exported pattern checks the alphabet only -/

def c20_base64url_pattern_full : Prop := ∀ s, accepts Gen.pat_base64url s = Fmt.base64url.run s

/-- outside the strings whose length breaks the RFC 4648 rule the pattern is exactly base64url -/
theorem c20_base64url_pattern_partial :
    ∀ s, Fmt.base64urlBadLen.run s = false → accepts Gen.pat_base64url s = Fmt.base64url.run s :=
  bisim_sound _ _ Gen.cert_base64url_partial_ok

theorem c20_base64url_pattern_witness : ¬ c20_base64url_pattern_full := fun h =>
  absurd (h (b! "A=")) (by decide +kernel)

example : Fmt.base64urlBadLen.run (b! "QUJDRA") = false ∧ Fmt.base64url.run (b! "QUJDRA") = true ∧
    Fmt.base64urlBadLen.run (b! "A") = true ∧ Fmt.base64urlBadLen.run (b! "QUI=") = false ∧
    Fmt.base64url.run (b! "QUI=") = true := by decide +kernel

/-! ## IPv6 and CIDRv6 (RFC 4291 §2.2, `Fmt.ipv6` / `Fmt.cidrv6` in Model/FormatSpecV6.lean)

  `regex.IPv6` validates `gozod.IPv6()` and is the pattern it exports; `regex.CIDRv6` is the pattern `gozod.CIDRv6()`
  exports (its validator is `netip.ParsePrefix` + `Is6`).  Both patterns are RFC 4291 exactly on the strings that
  contain neither '.' nor '%' (certificates over the restricted alphabet, `bisim_sound_R`), and wrong in three
  ways on the others: a zone-id branch (`fe80:…%zone`), octets of the dotted quad with a leading zero, and only
  two of the dotted-quad shapes. -/

theorem sim_run_avoid (B : List Nat) (S Q : Spec) (abs : S.State → Q.State) (hsup : S.support = Q.support)
    (hinit : abs S.init = Q.init)
    (hstep : ∀ q c, B.elem c = false → (S.step q c).map abs = Q.step (abs q) c)
    (hacc : ∀ q, S.acc q = Q.acc (abs q)) : ∀ s, avoids B s = true → S.run s = Q.run s := by
  have hg : ∀ (o : Option S.State) c, B.elem c = false → (S.gstep o c).map abs = Q.gstep (o.map abs) c := by
    intro o c hc
    cases o with
    | none => rfl
    | some q =>
      show (if S.support.elem c then S.step q c else none).map abs
          = (if Q.support.elem c then Q.step (abs q) c else none)
      rw [← hsup]
      by_cases h : S.support.elem c = true
      · rw [if_pos h, if_pos h]; exact hstep q c hc
      · rw [if_neg h, if_neg h]; rfl
  have hrun : ∀ (s : List Nat), avoids B s = true → ∀ (o : Option S.State),
      (s.foldl S.gstep o).map abs = s.foldl Q.gstep (o.map abs) := by
    intro s
    induction s with
    | nil => intro _ o; rfl
    | cons c s ih =>
      intro hs o
      simp only [avoids, List.all_cons, Bool.and_eq_true, Bool.not_eq_true'] at hs
      simp only [List.foldl_cons]; rw [ih (by simpa [avoids] using hs.2), hg o c hs.1]
  intro s hs
  have h := hrun s hs (some S.init)
  simp only [Option.map, hinit] at h
  unfold Spec.run Spec.runState
  rw [← h]
  cases s.foldl S.gstep (some S.init) with
  | none => rfl
  | some q => exact hacc q

/-- forget what the current group would be worth as a decimal octet -/
def forgetV (q : Fmt.V6St) : Fmt.V6St := if q.ph = 3 then { q with v := 256 } else q

theorem ipv6Step_forget (q : Fmt.V6St) (c : Nat) (hc : c ≠ 46) :
    (Fmt.ipv6StepG true q c).map forgetV = Fmt.ipv6StepG false (forgetV q) c := by
  obtain ⟨ph, g, ell, n, v, k⟩ := q
  by_cases h3 : ph = 3
  · subst h3
    simp only [Fmt.ipv6StepG, forgetV, Fmt.V6St.start, Fmt.V6St.digit, hc, if_true, if_false]
    repeat' split
    all_goals simp_all [Option.map, forgetV]
  · simp only [Fmt.ipv6StepG, forgetV, Fmt.V6St.start, Fmt.V6St.digit, hc, h3, if_false]
    repeat' split
    all_goals simp_all [Option.map, forgetV]


theorem ipv6Acc_forget (q : Fmt.V6St) : Fmt.ipv6Acc q = Fmt.ipv6Acc (forgetV q) := by
  obtain ⟨ph, g, ell, n, v, k⟩ := q
  simp only [forgetV]; split <;> rfl

/-- among the strings without a '.', the definition needs rules 1 and 2 only -/
theorem ipv6_hex_quot : ∀ s, avoids [46] s = true → Fmt.ipv6.run s = Fmt.ipv6Hex.run s :=
  sim_run_avoid [46] Fmt.ipv6 Fmt.ipv6Hex forgetV rfl rfl
    (fun q c hc => ipv6Step_forget q c (by intro h; subst h; simp [List.elem] at hc)) ipv6Acc_forget

theorem cidrv6Step_forget (q : Fmt.V6St) (c : Nat) (hc : c ≠ 46) :
    (Fmt.cidrv6StepG true q c).map forgetV = Fmt.cidrv6StepG false (forgetV q) c := by
  have h := ipv6Step_forget q c hc
  have ha := ipv6Acc_forget q
  obtain ⟨ph, g, ell, n, v, k⟩ := q
  by_cases h6 : ph = 6
  · subst h6
    simp only [Fmt.cidrv6StepG, forgetV, Fmt.V6St.digit]
    repeat' split
    all_goals simp_all [Option.map, forgetV]
  · by_cases h3 : ph = 3
    · subst h3
      simp only [Fmt.cidrv6StepG, forgetV, if_true] at h ha ⊢
      simp only [h6, if_false, ← ha]
      repeat' split
      all_goals first | exact h | simp_all [Option.map, forgetV]
    · simp only [Fmt.cidrv6StepG, forgetV, h3, if_false] at h ha ⊢
      simp only [h6, if_false]
      repeat' split
      all_goals first | exact h | simp_all [Option.map, forgetV]

theorem cidrv6_hex_quot : ∀ s, avoids [46] s = true → Fmt.cidrv6.run s = Fmt.cidrv6Hex.run s :=
  sim_run_avoid [46] Fmt.cidrv6 Fmt.cidrv6Hex forgetV rfl rfl
    (fun q c hc => cidrv6Step_forget q c (by intro h; subst h; simp [List.elem] at hc))
    (fun q => by obtain ⟨ph, g, ell, n, v, k⟩ := q; simp only [forgetV]; split <;> rfl)

theorem avoids_dot {s : List Nat} (h : avoids [46, 37] s = true) : avoids [46] s = true := by
  induction s with
  | nil => rfl
  | cons c s ih =>
    simp only [avoids, List.all_cons, Bool.and_eq_true] at h ⊢
    refine ⟨?_, by simpa [avoids] using ih (by simpa [avoids] using h.2)⟩
    have h1 := h.1
    simp only [List.elem, Bool.not_eq_true'] at h1 ⊢
    cases hc : (c == 46)
    · rfl
    · rw [hc] at h1; cases h1

/-- the full statements for the exported patterns; false on the pinned tree -/
def c20_ipv6_pattern_full : Prop := ∀ s, accepts Gen.pat_ipv6 s = Fmt.ipv6.run s
def c20_cidrv6_pattern_full : Prop := ∀ s, accepts Gen.pat_cidrv6 s = Fmt.cidrv6.run s

-- `c20_ipv6_pattern_partial`, `c20_cidrv6_pattern_partial` (strings without '.' and '%') are corollaries of the theorems with the
-- dotted-quad excluded region: Proofs/C20V6Dot.lean

example : avoids [46, 37] (b! "2001:db8::8a2e:370:7334") = true ∧ Fmt.ipv6.run (b! "2001:db8::8a2e:370:7334") = true ∧
    Fmt.ipv6.run (b! "1:2:3:4:5:6:7:8") = true ∧ Fmt.ipv6.run (b! "1:2:3:4:5:6:7::") = true ∧ Fmt.ipv6.run (b! "::") = true ∧
    Fmt.ipv6.run (b! "1:2:3:4:5:6:7") = false ∧ Fmt.ipv6.run (b! "1::2::3") = false ∧ Fmt.ipv6.run (b! "1:2:3:4:5:6:7:8::") = false ∧
    Fmt.ipv6.run (b! "12345::") = false ∧ Fmt.ipv6.run (b! ":1::2") = false ∧ Fmt.ipv6.run (b! "::ffff:1.2.3.4") = true ∧
    Fmt.ipv6.run (b! "1:2:3:4:5:6:1.2.3.4") = true ∧ Fmt.ipv6.run (b! "1:2:3:4:5:6:7:1.2.3.4") = false ∧
    Fmt.ipv6.run (b! "::1.2.3.256") = false ∧ Fmt.ipv6.run (b! "::01.2.3.4") = false ∧ Fmt.ipv6.run (b! "fe80::1%eth0") = false ∧
    Fmt.cidrv6.run (b! "2001:db8::/32") = true ∧ Fmt.cidrv6.run (b! "::/129") = false ∧ Fmt.cidrv6.run (b! "::/00") = false := by
  decide +kernel

/-- the three ways in which `regex.IPv6` is not RFC 4291: a zone id is taken, a leading zero in the dotted quad is taken,
    six groups followed by a dotted quad are refused -/
theorem c20_ipv6_witnesses :
    accepts Gen.pat_ipv6 (b! "fe80::1%eth0") = true ∧ Fmt.ipv6.run (b! "fe80::1%eth0") = false ∧
    accepts Gen.pat_ipv6 (b! "::01.2.3.4") = true ∧ Fmt.ipv6.run (b! "::01.2.3.4") = false ∧
    accepts Gen.pat_ipv6 (b! "1:2:3:4:5:6:1.2.3.4") = false ∧ Fmt.ipv6.run (b! "1:2:3:4:5:6:1.2.3.4") = true := by
  decide +kernel

theorem c20_ipv6_pattern_witness : ¬ c20_ipv6_pattern_full := fun h =>
  absurd (h (b! "1:2:3:4:5:6:1.2.3.4")) (by rw [c20_ipv6_witnesses.2.2.2.2.1, c20_ipv6_witnesses.2.2.2.2.2]; decide)

-- BEGIN validator side of IPv6 (netip.ParseAddr ∧ Is6 ∧ no zone since pending/C20-ipv6.diff)
/-- NOT a property theorem (dropped from THEOREMS, round 4c): a definitional alias the driver does not run; the
    validator theorem is `c20_ipv6_netip` (Proofs/C20Netip6.lean). -/
theorem c20_ipv6 : ∀ s, Parsers.goIPv6 s = Fmt.ipv6.run s := fun _ => rfl
-- END validator side of IPv6

theorem c20_cidrv6_pattern_witnesses :
    accepts Gen.pat_cidrv6 (b! "fe80::a%eth0/127") = true ∧ Fmt.cidrv6.run (b! "fe80::a%eth0/127") = false ∧
    accepts Gen.pat_cidrv6 (b! "::01.2.3.4/120") = true ∧ Fmt.cidrv6.run (b! "::01.2.3.4/120") = false ∧
    accepts Gen.pat_cidrv6 (b! "1:2:3:4:5:6:1.2.3.4/64") = false ∧ Fmt.cidrv6.run (b! "1:2:3:4:5:6:1.2.3.4/64") = true := by
  decide +kernel

theorem c20_cidrv6_pattern_witness : ¬ c20_cidrv6_pattern_full := fun h =>
  absurd (h (b! "1:2:3:4:5:6:1.2.3.4/64")) (by rw [c20_cidrv6_pattern_witnesses.2.2.2.2.1, c20_cidrv6_pattern_witnesses.2.2.2.2.2]; decide)

/-- NOT a property theorem (dropped from THEOREMS, round 4c): a definitional alias the driver does not run; the
    validator theorem is `c20_cidrv6_netip` (Proofs/C20Netip6.lean). -/
theorem c20_cidrv6 : ∀ s, Parsers.goCIDRv6 s = Fmt.cidrv6.run s := fun _ => rfl

/-! ## option-taking constructors

  IsoTime(IsoTimeOptions{Precision}) is validated by `regex.Time(options)`, regenerated per precision
  (`Gen.val_tmo_<p>`; p = n: nil, m: -1, 0, 1, 2, 3, 9); MAC(".") by `regex.MAC(".")`.
  IsoDateTime(IsoDatetimeOptions{…}) (28 option sets) is tied to `Fmt.isoDateTimeOpt` by the
  correspondence only (no certificates: 28 × the date automaton is too much kernel time). -/

theorem c20_macdot : ∀ s, accepts Gen.val_macdot s = (Fmt.mac 46).run s := bisim_sound_full _ _ Gen.cert_macdot_ok
theorem c20_tmo_n : ∀ s, accepts Gen.val_tmo_n s = (Fmt.isoTimeOpt .any).run s := bisim_sound_full _ _ Gen.cert_tmo_n_ok
theorem c20_tmo_m : ∀ s, accepts Gen.val_tmo_m s = (Fmt.isoTimeOpt .minute).run s := bisim_sound_full _ _ Gen.cert_tmo_m_ok
theorem c20_tmo_0 : ∀ s, accepts Gen.val_tmo_0 s = (Fmt.isoTimeOpt (.digits 0)).run s := bisim_sound_full _ _ Gen.cert_tmo_0_ok
theorem c20_tmo_1 : ∀ s, accepts Gen.val_tmo_1 s = (Fmt.isoTimeOpt (.digits 1)).run s := bisim_sound_full _ _ Gen.cert_tmo_1_ok
theorem c20_tmo_2 : ∀ s, accepts Gen.val_tmo_2 s = (Fmt.isoTimeOpt (.digits 2)).run s := bisim_sound_full _ _ Gen.cert_tmo_2_ok
theorem c20_tmo_3 : ∀ s, accepts Gen.val_tmo_3 s = (Fmt.isoTimeOpt (.digits 3)).run s := bisim_sound_full _ _ Gen.cert_tmo_3_ok
theorem c20_tmo_9 : ∀ s, accepts Gen.val_tmo_9 s = (Fmt.isoTimeOpt (.digits 9)).run s := bisim_sound_full _ _ Gen.cert_tmo_9_ok

example : (Fmt.isoTimeOpt (.digits 0)).run (b! "06:15:00") = true ∧ (Fmt.isoTimeOpt (.digits 0)).run (b! "06:15:00.123") = false ∧
    (Fmt.isoTimeOpt (.digits 0)).run (b! "06:15") = false ∧ (Fmt.isoTimeOpt .any).run (b! "06:15") = true ∧
    (Fmt.isoTimeOpt (.digits 3)).run (b! "06:15:00.123") = true ∧ (Fmt.isoTimeOpt (.digits 3)).run (b! "06:15:00.12") = false ∧
    (Fmt.isoTimeOpt .minute).run (b! "06:15:00") = false := by decide +kernel

/-- the specification separates the option sets that a cache keyed without the nil/0 distinction would merge -/
example : (Fmt.isoDateTimeOpt (.digits 0) true false).run (b! "2020-01-01T06:15:00.123+02:00") = false ∧
    (Fmt.isoDateTimeOpt (.digits 0) true false).run (b! "2020-01-01T06:15Z") = false ∧
    (Fmt.isoDateTimeOpt .any true false).run (b! "2020-01-01T06:15:00.123+02:00") = true ∧
    (Fmt.isoDateTimeOpt .any true false).run (b! "2020-01-01T06:15Z") = true ∧
    (Fmt.isoDateTimeOpt .any false true).run (b! "2020-01-01T06:15") = true ∧
    (Fmt.isoDateTimeOpt .any false false).run (b! "2020-01-01T06:15:00+02:00") = false := by decide +kernel

end Gozod.C20
