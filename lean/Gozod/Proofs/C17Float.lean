/-
  C17, float targets: value theorems (round 4c, audit M5: "`roundMag_correct` is never composed into a
  statement about `toFloat32` / `toFloat64`"; "`float64Post` / `float32Post` restate the model";
  "`toFloatF64` has no lemma `toFloatF64 = toFloat64`").

  `NearestMag p emin n k m k'` is the independent specification "the magnitude `m / 2^k'` is `n / 2^k`
  correctly rounded to the binary format with `p` significant bits and smallest subnormal `2^-emin`":
  with `2^u` the unit in the last place at that magnitude (`u = max (⌊log2 n⌋ − k − (p−1)) (−emin)`),
    * if `n / 2^k` is a multiple of `2^u` already (`k + u ≤ 0`), it is returned unchanged;
    * otherwise `m / 2^k' = q · 2^u` for an integer `q` (a multiple of the ulp), within half an ulp of
      `n / 2^k`, and `q` is even when exactly half way (ties to even).
  It speaks about values only — no `rneDiv`, no `roundMag`.

  * `roundMag_nearest`        — `roundMag` meets it (composition of `C17.roundMag_correct` and `C17.rneDiv_nearest`);
  * `toFloat32_f64_value`     — `ToFloat[float32](float64 x)`, when it succeeds, returns `x` correctly rounded to
                                float32 (same sign, `NearestMag 24 149`), finite;
  * `toFloat64_big_value`, `toFloat32_big_value` — `ToFloat64(*big.Int)` / `ToFloat[float32](*big.Int)`: the big
                                integer correctly rounded to float64 / float32 in ONE rounding, finite;
  * `toFloatF64_eq`           — `ToFloat[float64]` and `ToFloat64` are the same function on every source (so the
                                helper line `H toFloat f64` and the schema route `To[float64] → ToFloat64` agree).
-/
import Gozod.Proofs.C17
set_option exponentiation.threshold 2000
namespace Gozod.C17F
open Gozod Gozod.Coerce

/-- `ToFloat[float64]` is `ToFloat64`. -/
theorem toFloatF64_eq (s : Src) : toFloatF64 s = toFloat64 s := by
  cases s <;> rfl

/-- The independent "correctly rounded" specification (see the header). -/
def NearestMag (p emin n k m k' : Nat) : Prop :=
  ∀ u : Int, u = max (((n.log2 : Int)) - (k : Int) - ((p : Int) - 1)) (-(emin : Int)) →
    ((k : Int) + u ≤ 0 → (m, k') = (n, k)) ∧
    (0 < (k : Int) + u → ∃ q : Nat,
      m * 2 ^ k = q * 2 ^ ((k : Int) + u).toNat * 2 ^ k' ∧                        -- m/2^k' = q·2^u
      2 * (q * 2 ^ ((k : Int) + u).toNat) ≤ 2 * n + 2 ^ ((k : Int) + u).toNat ∧     -- within half an ulp, above
      2 * n ≤ 2 * (q * 2 ^ ((k : Int) + u).toNat) + 2 ^ ((k : Int) + u).toNat ∧     -- … and below
      ((2 * (q * 2 ^ ((k : Int) + u).toNat) = 2 * n + 2 ^ ((k : Int) + u).toNat ∨
        2 * n = 2 * (q * 2 ^ ((k : Int) + u).toNat) + 2 ^ ((k : Int) + u).toNat) → q % 2 = 0))   -- ties to even

/-- **`roundMag` is correctly rounded.** -/
theorem roundMag_nearest (p emin n k : Nat) (hn : n ≠ 0) :
    NearestMag p emin n k (roundMag p emin n k).1 (roundMag p emin n k).2 := by
  intro u hu
  have hu' : u = max (((n.log2 : Int) + 1) - 1 - (k : Int) - ((p : Int) - 1)) (-(emin : Int)) := by
    rw [hu]; congr 1; omega
  have h := (C17.roundMag_correct p emin n k hn).2 u hu'
  refine ⟨fun hs => h.1 hs, fun hs => ?_⟩
  have hpos : 0 < ((k : Int) + u).toNat := by omega
  have hr := C17.rneDiv_nearest n ((k : Int) + u).toNat hpos
  exact ⟨rneDiv n ((k : Int) + u).toNat, h.2 hs, hr.1, hr.2.1, hr.2.2⟩

/-- What `roundFin` returns when it does not overflow: the sign of `a`, the rounded magnitude. -/
theorem roundFin_fin (p emin emax : Nat) (a : Int) (k : Nat) (b : Int) (l : Nat)
    (h : roundFin p emin emax a k = .fin b l) :
    b = (if a < 0 then -((roundMag p emin a.natAbs k).1 : Int) else ((roundMag p emin a.natAbs k).1 : Int)) ∧
    l = (roundMag p emin a.natAbs k).2 := by
  unfold roundFin at h
  rcases hrm : roundMag p emin a.natAbs k with ⟨m, k'⟩
  rw [hrm] at h
  simp only at h
  split at h
  · split at h <;> cases h
  · injection h with h1 h2
    exact ⟨h1.symm, h2.symm⟩

/-- The value a float conversion must return for the finite source `a / 2^k`: same sign, magnitude correctly
    rounded to (`p`, `emin`). -/
def RoundedTo (p emin : Nat) (a : Int) (k : Nat) (r : F) : Prop :=
  ∃ (m k' : Nat), r = .fin (if a < 0 then -(m : Int) else (m : Int)) k' ∧ NearestMag p emin a.natAbs k m k'

theorem roundFin_value (p emin emax : Nat) (a : Int) (k : Nat) (ha : a ≠ 0) (b : Int) (l : Nat)
    (h : roundFin p emin emax a k = .fin b l) : RoundedTo p emin a k (.fin b l) := by
  have ⟨h1, h2⟩ := roundFin_fin p emin emax a k b l h
  refine ⟨(roundMag p emin a.natAbs k).1, (roundMag p emin a.natAbs k).2, ?_, roundMag_nearest p emin a.natAbs k (by omega)⟩
  rw [h1, h2]

/-- **`ToFloat[float32]` of a float64** (`toFloat32`'s tail: MaxFloat32 guard, then `float32(f)`): a success returns
    the source correctly rounded to float32 — same sign, nearest multiple of the float32 ulp at that magnitude
    (subnormals included), ties to even, unchanged when representable — and never ±Inf. -/
theorem toFloat32_f64_value (a : Int) (k : Nat) (ha : a ≠ 0) (r : F) (h : toFloat32 (.f64 (.fin a k)) = .ok r) :
    RoundedTo 24 149 a k r := by
  rw [C17.toFloat32_f64, C17.toFloat64_f64] at h
  simp only [F.isNaN, Bool.false_eq_true, ↓reduceIte, bind, Except.bind] at h
  by_cases hg : absGtMaxF32 (.fin a k) = true
  · rw [if_pos hg] at h; cases h
  · rw [if_neg hg] at h
    injection h with h
    have hfin := C17.roundFin_f32_finite a k (by simpa using hg)
    simp only [roundF32] at h
    rw [← h]
    cases hr : roundFin 24 149 128 a k with
    | fin b l => exact roundFin_value 24 149 128 a k ha b l hr
    | nan => rw [hr] at hfin; exact hfin.elim
    | pinf => rw [hr] at hfin; exact hfin.elim
    | ninf => rw [hr] at hfin; exact hfin.elim

/-- **`ToFloat64` of a big integer** (`bigIntToFloat64`): a success is the integer correctly rounded to float64 in one
    rounding (exact below 2^53: `C17S.bigToF64_exact`), finite — 2^1024 and beyond is an error, not +Inf. -/
theorem toFloat64_big_value (v : Int) (hv : v ≠ 0) (r : F) (h : toFloat64 (.big v) = .ok r) :
    RoundedTo 53 1074 v 0 r := by
  rw [C17.toFloat64_big] at h
  obtain ⟨hr, b, l, hbl⟩ := C17.finOrOverflow_ok _ _ h
  rw [hbl] at hr ⊢
  exact roundFin_value 53 1074 1024 v 0 hv b l hr.symm

/-- **`ToFloat[float32]` of a big integer** (`new(big.Float).SetInt(x).Float32()`): one rounding, straight to float32. -/
theorem toFloat32_big_value (v : Int) (hv : v ≠ 0) (r : F) (h : toFloat32 (.big v) = .ok r) :
    RoundedTo 24 149 v 0 r := by
  rw [C17.toFloat32_big] at h
  obtain ⟨hr, b, l, hbl⟩ := C17.finOrOverflow_ok _ _ h
  rw [hbl] at hr ⊢
  exact roundFin_value 24 149 128 v 0 hv b l hr.symm

/-- `ToFloat64` of a float source returns the source itself (NaN: an error) — a VALUE statement, for float32 and
    float64 sources and through either helper. -/
theorem toFloat64_float_value (x r : F) :
    (toFloat64 (.f64 x) = .ok r → r = x ∧ x ≠ .nan) ∧ (toFloat64 (.f32 x) = .ok r → r = x ∧ x ≠ .nan) ∧
    (toFloatF64 (.f64 x) = .ok r → r = x ∧ x ≠ .nan) := by
  refine ⟨?_, ?_, ?_⟩ <;> (intro h; first | rw [toFloatF64_eq] at h | skip) <;>
    (first | rw [C17.toFloat64_f64] at h | rw [C17.toFloat64_f32] at h) <;>
    (cases x <;> simp [F.isNaN] at h <;> subst h <;> simp)

/-- The hypotheses are met by realistic values: 1 + 2^-24 (a float32 tie) rounds to even (1), the float32
    double-rounding integer 2^60+2^36+1 goes to 2^60+2^37 in one step, 2^1024 is refused. -/
example : toFloat32 (.f64 (.fin (2 ^ 24 + 1) 24)) = .ok (.fin (2 ^ 23) 23) ∧
    toFloat32 (.big (2 ^ 60 + 2 ^ 36 + 1)) = .ok (.fin (2 ^ 60 + 2 ^ 37) 0) ∧
    toFloat64 (.big (2 ^ 53 + 1)) = .ok (.fin (2 ^ 53) 0) ∧
    toFloat64 (.big (2 ^ 1024)) = .error .overflow := by
  decide +kernel

end Gozod.C17F
