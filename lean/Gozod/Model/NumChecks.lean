/-
  Gozod.Model.NumChecks — the numeric checks of `internal/checks/numeric.go` as an `Env` for the
  generic check engine: a check holds iff `pkg/validate`'s comparison (the `Gozod.Model.Num`
  transcription) says so.
-/
import Gozod.Model.Checks
import Gozod.Model.Num
namespace Gozod.NumChecks
open Gozod

inductive NPred where
  | cmp (op : CmpOp) (bound : Num)       -- Gt/Gte/Lt/Lte/Min/Max/Positive/Negative/NonNegative/NonPositive
  | mult (d : Num)                       -- MultipleOf / Step with integer operands
  deriving Repr, Inhabited

def holds : NPred → Num → Bool
  | .cmp op b, v => implCmp op v b
  | .mult d, v => multipleOfInts v d

/-- The documented meaning: the mathematical relation. -/
def specHolds : NPred → Num → Bool
  | .cmp op b, v => specCmp op v b
  | .mult d, v =>
    match v, d with
    | .f _, _ => false
    | _, .f _ => false
    | v, d =>
      let iv : Num → Int := fun n => match n with | .i x => x | .u x => x | .f _ => 0
      specMultipleOfInt (iv v) (iv d)

def env : Env NPred Unit Unit Num := ⟨holds, fun _ v => v, fun _ v => v⟩
def specEnv : Env NPred Unit Unit Num := ⟨specHolds, fun _ v => v, fun _ v => v⟩

end Gozod.NumChecks
