package main

// C04 — Parse is total: nil error on success, else a well-formed ZodError, never a panic.
//
// Two streams.
//  m  the C02 container cases: the Lean model of the container code predicts, from the members'
//     recorded answers, the SHAPE of the outcome (ok | err(wf) | err(malformed:<why>)); compared
//     with what the implementation returns.
//  x  the cross product: every schema type and composition without user callbacks × values of
//     every Go kind (nil, typed nils, **T, NaN/±Inf, unhashable map values, funcs, chans, structs
//     with interface fields, deep nesting, …) × Parse / ParseAny / StrictParse, each call under
//     recover().  The statement is evaluated on the implementation alone:
//         total | panic:<class> | malformed:<why>
//     (a total Lean model cannot panic, so panic-freedom is decided here, not by a theorem).

import (
	"errors"
	"fmt"
	"math"
	"math/big"
	"os"
	"reflect"
	"strconv"
	"strings"
	"time"
	"unsafe"

	"github.com/kaptinlin/gozod"
	"github.com/kaptinlin/gozod/core"
	"github.com/kaptinlin/gozod/types"

	"verifharness/cx"
	"verifharness/hx"
	"verifharness/storex"
)

func main() {
	if from := os.Getenv("C04_FATAL_CHILD"); from != "" {
		n, _ := strconv.Atoi(from)
		fatalChild(n)
		return
	}
	c := hx.ParseFlags()
	// the FromJSONSchema stream is part of allSchemas(): the fatal-probe children must rebuild the same list
	os.Setenv("C04_SEED", strconv.FormatUint(c.Seed, 10))
	os.Setenv("C04_TIER", c.Tier)
	if err := run(c); err != nil {
		fmt.Fprintln(os.Stderr, "harness error:", err)
		os.Exit(3)
	}
}

var knownCodes = map[core.IssueCode]bool{
	core.InvalidType: true, core.InvalidValue: true, core.InvalidFormat: true, core.InvalidUnion: true,
	core.InvalidKey: true, core.InvalidElement: true, core.TooBig: true, core.TooSmall: true,
	core.NotMultipleOf: true, core.UnrecognizedKeys: true, core.Custom: true, core.InvalidSchema: true,
	core.InvalidDiscriminator: true, core.IncompatibleTypes: true, core.MissingRequired: true,
	core.TypeConversion: true, core.NilPointer: true,
}

// shape judges an error against the statement.
func shape(err error) string {
	if err == nil {
		return "ok"
	}
	var ze *gozod.ZodError
	if !errors.As(err, &ze) || ze == nil {
		return "err(malformed:not-a-ZodError)"
	}
	if len(ze.Issues) == 0 {
		return "err(malformed:no-issues)"
	}
	for _, is := range ze.Issues {
		switch {
		case !knownCodes[is.Code]:
			return "err(malformed:unknown-code)"
		case is.Message == "":
			return "err(malformed:empty-message)"
		case is.Path == nil:
			return "err(malformed:nil-path)"
		}
	}
	return "err(wf)"
}

type named struct {
	name string
	kind string
	z    core.ZodSchema
}

type iface interface{ M() }
type impl struct{ X int }

func (impl) M() {}

type withIface struct {
	A any
	B iface
	C error
	d int
}

func schemas() []named {
	obj := types.Object(core.ObjectSchema{"t": types.Literal("a"), "n": types.Int().Optional()})
	obj2 := types.Object(core.ObjectSchema{"t": types.Literal("b")})
	var rec core.ZodSchema
	recLazy := types.LazyAny(func() any { return rec })
	rec = types.Object(core.ObjectSchema{"next": recLazy.Optional(), "v": types.Int()})
	out := []named{
		{"String()", "string", types.String()}, {"String().Min(2).Optional()", "string", types.String().Min(2).Optional()},
		{"String().Default(\"d\")", "string", types.String().Default("d")}, {"CoercedString()", "string", types.CoercedString()},
		{"StringPtr().Nilable()", "string", types.StringPtr().Nilable()},
		{"Int()", "int", types.Int()}, {"Int8().Min(1)", "int", types.Int8().Min(1)}, {"Int64().Nilable()", "int", types.Int64().Nilable()},
		{"Uint8()", "int", types.Uint8()}, {"CoercedInt()", "int", types.CoercedInt()}, {"Int().MultipleOf(3)", "int", types.Int().MultipleOf(3)},
		{"Float64()", "float", types.Float64()}, {"Float32().Finite()", "float", types.Float32().Finite()}, {"CoercedFloat64()", "float", types.CoercedFloat64()},
		{"Bool()", "bool", types.Bool()}, {"CoercedBool()", "bool", types.CoercedBool()}, {"StringBool()", "stringbool", types.StringBool()},
		{"BigInt()", "bigint", types.BigInt()}, {"Complex128()", "complex", types.Complex128()}, {"Time()", "time", types.Time()},
		{"Email()", "format", types.Email()}, {"URL()", "format", types.URL()}, {"IPv4()", "format", types.IPv4()}, {"CIDRv4()", "format", types.CIDRv4()},
		{"Enum(\"a\",\"b\")", "enum", types.Enum("a", "b")}, {"Enum(1,2)", "enum", types.Enum(1, 2)},
		{"Literal(\"a\")", "literal", types.Literal("a")}, {"Literal(1.5)", "literal", types.Literal(1.5)},
		{"LiteralOf[any]([a,1,true])", "literal", types.LiteralOf([]any{"a", 1, true})},
		{"EnumSlice[any]([a,1,true])", "enum", types.EnumSlice([]any{"a", 1, true})},
		{"Enum[any](a,2.5)", "enum", types.Enum[any]("a", 2.5)},
		{"EnumSlice[any]([S1{}])", "enum", types.EnumSlice([]any{cx.S1{}, "z"})},
		{"LiteralOf[any]([S1{},nil-free])", "literal", types.LiteralOf([]any{cx.S1{A: 1}, [1]any{"q"}})},
		// literal members that cannot be compared with == (what FromJSONSchema builds for a composite const/enum member),
		// probed with inputs of the SAME dynamic type (only then does == panic)
		{"LiteralOf[any]([[]any{1},map{k:1},\"s\"])", "literal", types.LiteralOf([]any{[]any{1}, map[string]any{"k": 1}, "s"})},
		{"LiteralOf[any]([[]int{1,2},S1{A:[]int}])", "literal", types.LiteralOf([]any{[]int{1, 2}, cx.S1{A: []int{1}}})},
		{"LiteralPtrOf[any]([[]any{}])", "literal", types.LiteralPtrOf([]any{[]any{}})},
		{"Nil()", "nil", types.Nil()}, {"Any()", "any", types.Any()}, {"Unknown()", "unknown", types.Unknown()}, {"Never()", "never", types.Never()},
		{"File()", "file", types.File()}, {"Function()", "function", types.Function()},
		{"Slice[any](Int())", "slice", types.Slice[any](types.Int())}, {"Slice[int](Int()).Min(1)", "slice", types.Slice[int](types.Int()).Min(1)},
		{"Slice[string](String()).Optional()", "slice", types.Slice[string](types.String()).Optional()},
		{"SlicePtr[any](Any())", "slice", types.SlicePtr[any](types.Any())},
		{"Array([String(),Int()])", "array", types.Array([]any{types.String(), types.Int()})},
		{"Array([String()], Any())", "array", types.Array([]any{types.String()}, types.Any())},
		{"Tuple(String(),Int().Optional())", "tuple", types.Tuple(types.String(), types.Int().Optional())},
		{"TupleWithRest([],Nil())", "tuple", types.TupleWithRest(nil, types.Nil())},
		{"Map(String(),Any())", "map", types.Map(types.String(), types.Any())}, {"Map(Any(),Nil())", "map", types.Map(types.Any(), types.Nil())},
		{"Map(Int(),String()).Nilable()", "map", types.Map(types.Int(), types.String()).Nilable()},
		{"Record(String(),Any())", "record", types.Record(types.String(), types.Any())},
		{"Record(Enum(\"a\",\"b\"),Int())", "record", types.Record(types.Enum("a", "b"), types.Int())},
		{"LooseRecord(String().Min(2),Nil())", "record", types.LooseRecord(types.String().Min(2), types.Nil())},
		{"Record(Int(),String())", "record", types.Record(types.Int(), types.String())},
		{"Set[string](String())", "set", types.Set[string](types.String())}, {"Set[any](Any())", "set", types.Set[any](types.Any())},
		{"Object{t,n}", "object", obj}, {"Object{t,n}.Strict()", "object", obj.Strict()},
		{"Object{}.Passthrough().WithCatchall(Nil())", "object", types.Object(core.ObjectSchema{}).Passthrough().WithCatchall(types.Nil())},
		{"Object{a:Any()}.Partial().Min(1)", "object", types.Object(core.ObjectSchema{"a": types.Any()}).Partial().Min(1)},
		{"Struct[S1]{A:String(),B:Any(),C:Nil()}", "struct", types.Struct[cx.S1](core.StructSchema{"A": types.String(), "B": types.Any(), "C": types.Nil()})},
		{"StructPtr[S1]{A:Any()}", "struct", types.StructPtr[cx.S1](core.StructSchema{"A": types.Any()})},
		{"Struct[withIface]{A:Any(),B:Any(),C:Any()}", "struct", types.Struct[withIface](core.StructSchema{"A": types.Any(), "B": types.Any(), "C": types.Any()})},
		{"Struct[S1]()", "struct", types.Struct[cx.S1]()},
		{"Union([String(),Int(),Nil()])", "union", types.Union([]any{types.String(), types.Int(), types.Nil()})},
		{"Union([])", "union", types.Union([]any{})}, {"Union([Object,Slice]).Optional()", "union", types.Union([]any{obj, types.Slice[any](types.Any())}).Optional()},
		{"Xor([String(),Any()])", "xor", types.Xor([]any{types.String(), types.Any()})},
		{"Intersection(Object,Object2)", "inter", types.Intersection(obj, obj2)},
		{"Intersection(Strict,Strict)", "inter", types.Intersection(obj.Strict(), obj2.Strict())},
		{"Intersection(String(),Int())", "inter", types.Intersection(types.String(), types.Int())},
		{"Intersection(Slice[any],Array)", "inter", types.Intersection(types.Slice[any](types.Any()), types.Array([]any{types.Any()}, types.Any()))},
		{"DiscriminatedUnion(t,[Object,Object2])", "du", types.DiscriminatedUnion("t", []any{obj, obj2})},
		{"DiscriminatedUnion(t,[…]).Optional()", "du", types.DiscriminatedUnion("t", []any{obj, obj2}).Optional()},
		{"DiscriminatedUnion(zz,[Object])", "du", types.DiscriminatedUnion("zz", []any{obj})},
		{"LazyAny(String())", "lazy", types.LazyAny(func() any { return types.String() })},
		{"LazyAny(nil)", "lazy", types.LazyAny(func() any { return nil })},
		{"LazyAny(String()).Optional().Default(\"d\")", "lazy", types.LazyAny(func() any { return types.String() }).Optional().Default("d")},
		{"LazyAny(String()).Default(\"d\")", "lazy", types.LazyAny(func() any { return types.String() }).Default("d")},
		{"Record(String(),String().Optional().NonOptional())", "record", types.Record(types.String(), types.String().Optional().NonOptional())},
		{"Struct[withIface]()", "struct", types.Struct[withIface]()},
		{"LazyAny(Object)", "lazy", types.LazyAny(func() any { return obj })},
		{"recursive Object{next:Lazy,v:Int}", "lazy", rec},
		{"Slice[any](Map(String(),Record(String(),Union([Nil(),Slice[any](Any())]))))", "nested",
			types.Slice[any](types.Map(types.String(), types.Record(types.String(), types.Union([]any{types.Nil(), types.Slice[any](types.Any())}))))},
		{"Object{a:Tuple(Set,DU)}", "nested", types.Object(core.ObjectSchema{"a": types.Tuple(types.Set[string](types.String()), types.DiscriminatedUnion("t", []any{obj}))})},
	}
	return append(out, structSchemas()...) // structs.go: object flavours / Struct / FromStruct over embedding layouts, top level and nested
}

func deep(n int) any {
	var v any = 1
	for range n {
		v = []any{v}
	}
	return v
}

func deepMap(n int) any {
	var v any = map[string]any{"v": 1}
	for range n {
		v = map[string]any{"next": v, "v": 2}
	}
	return v
}

type val struct {
	name string
	v    any
}

// rawVals: names of values that are never deep-copied before the call (identity matters, or the value cannot be copied)
var rawVals = map[string]bool{}

func values() []val {
	i, s, f := 7, "str", 1.5
	pi := &i
	var nilIface iface
	var nilErr error
	sl := []any{1, "a", nil}
	m := map[string]any{"t": "a", "n": 1}
	big1 := big.NewInt(5)
	ch := make(chan int)
	fn := func() {}
	arr := [2]int{1, 2}
	return []val{
		{"nil", nil}, {"true", true}, {"int", 42}, {"int8", int8(-3)}, {"int64-min", int64(math.MinInt64)}, {"uint64-max", uint64(math.MaxUint64)},
		{"uint8", uint8(200)}, {"uintptr", uintptr(9)}, {"float32", float32(2.5)}, {"float64", 3.25}, {"NaN", math.NaN()}, {"+Inf", math.Inf(1)}, {"-Inf", math.Inf(-1)},
		{"-0", math.Copysign(0, -1)}, {"float32-NaN", float32(math.NaN())}, {"complex", complex(1, 2)}, {"complex-NaN", complex(math.NaN(), 0)},
		{"string", "hello"}, {"empty-string", ""}, {"string-a", "a"}, {"string-true", "true"}, {"string-1", "1"}, {"invalid-utf8", "\xff\xfe"}, {"bytes", []byte("ab")},
		{"rune", 'x'}, {"array", arr}, {"*array", &arr},
		{"[]any", sl}, {"[]any{}", []any{}}, {"[]int", []int{1, 2}}, {"[]string", []string{"a"}}, {"[][]int", [][]int{{1}, nil}}, {"[]any-nested-nil", []any{[]any(nil), map[string]any(nil), (*int)(nil)}},
		{"map[string]any", m}, {"map[string]any{}", map[string]any{}}, {"map-nil-value", map[string]any{"a": nil, "t": nil}}, {"map[any]any", map[any]any{"t": "a", 1: 2}},
		{"map[any]any-nil-value", map[any]any{"a": nil}}, {"map[int]string", map[int]string{1: "a"}}, {"map-unhashable-disc", map[string]any{"t": []int{1}}},
		{"map-map-disc", map[string]any{"t": map[string]any{}}}, {"map-func-value", map[string]any{"t": fn, "a": ch}}, {"map[string][]int", map[string][]int{"a": {1}}},
		{"map[string]struct{}", map[string]struct{}{"a": {}}}, {"map[any]struct{}", map[any]struct{}{1: {}, "a": {}}}, {"map[float64]struct{}-NaN", map[float64]struct{}{math.NaN(): {}}},
		{"S1{}", cx.S1{}}, {"S1{A:str}", cx.S1{A: "x", B: 1, C: nil}}, {"&S1{}", &cx.S1{}}, {"withIface{}", withIface{}}, {"withIface{full}", withIface{A: 1, B: impl{1}, C: errors.New("e")}},
		{"&withIface{}", &withIface{}}, {"struct{}", struct{}{}}, {"anon-struct", struct{ A int }{1}},
		{"*int", pi}, {"**int", &pi}, {"*string", &s}, {"*float64", &f}, {"*[]any", &sl}, {"*map[string]any", &m}, {"*any-nil", new(any)}, {"*any-int", func() *any { var a any = 1; return &a }()},
		{"(*int)(nil)", (*int)(nil)}, {"(**int)(nil)", (**int)(nil)}, {"(*string)(nil)", (*string)(nil)}, {"(*[]any)(nil)", (*[]any)(nil)}, {"(*map[string]any)(nil)", (*map[string]any)(nil)},
		{"(*S1)(nil)", (*cx.S1)(nil)}, {"[]any(nil)", []any(nil)}, {"[]int(nil)", []int(nil)}, {"map[string]any(nil)", map[string]any(nil)}, {"map[any]any(nil)", map[any]any(nil)},
		{"nil-iface", nilIface}, {"nil-error", nilErr}, {"error", errors.New("boom")},
		{"func", fn}, {"func(nil)", (func())(nil)}, {"chan", ch}, {"chan(nil)", (chan int)(nil)}, {"unsafe.Pointer", unsafe.Pointer(pi)},
		{"big.Int", big1}, {"big.Int-value", *big1}, {"(*big.Int)(nil)", (*big.Int)(nil)}, {"time", time.Unix(0, 0)}, {"*time", func() *time.Time { t := time.Unix(1, 0); return &t }()}, {"duration", time.Second},
		{"reflect.Value", reflect.ValueOf(1)}, {"reflect.Type", reflect.TypeFor[int]()},
		{"deep-slice-60", deep(60)}, {"deep-map-40", deepMap(40)}, {"[]any-with-func", []any{fn, ch, nil}},
		{"schema-as-value", types.String()},
		{"struct-holding-slice", struct{ X any }{[]int{1}}}, {"array-holding-map", [1]any{map[string]int{"a": 1}}},
		{"S1-holding-slice", cx.S1{A: []int{1}}}, {"S1-holding-func", cx.S1{B: fn}}, {"array-of-any-holding-S1-slice", [1]any{cx.S1{A: []any{}}}},
		{"map-disc-struct-holding-slice", map[string]any{"t": struct{ X any }{[]int{1}}}},
		{"map-disc-array-holding-map", map[string]any{"t": [1]any{map[string]int{}}}},
		{"map-disc-S1-holding-slice", map[string]any{"t": cx.S1{A: []int{1}}, "n": 1}},
		{"[]any-holding-struct-holding-slice", []any{struct{ X any }{[]int{1}}, cx.S1{A: []int{1}}}},
		{"map[any]struct{}-struct-key", map[any]struct{}{cx.S1{A: 1}: {}}},
	}
}

func classify(p string) string { return cx.PanicClass(p) }

// call invokes method `name` of schema z with input v (via reflection) under recover.
func call(z core.ZodSchema, name string, v any) (obs string, called bool) {
	m := reflect.ValueOf(z).MethodByName(name)
	if !m.IsValid() {
		return "", false
	}
	pt := m.Type().In(0)
	var arg reflect.Value
	if v == nil {
		switch pt.Kind() {
		case reflect.Interface, reflect.Pointer, reflect.Slice, reflect.Map, reflect.Chan, reflect.Func:
			arg = reflect.Zero(pt)
		default:
			return "", false
		}
	} else {
		arg = reflect.ValueOf(v)
		if !arg.Type().AssignableTo(pt) {
			return "", false
		}
	}
	var err error
	p := hx.Safely(func() {
		out := m.Call([]reflect.Value{arg})
		if e, ok := out[len(out)-1].Interface().(error); ok {
			err = e
		}
	})
	if p != "" {
		return "panic:" + classify(p), true
	}
	sh := shape(err)
	if strings.HasPrefix(sh, "err(malformed:") {
		return "malformed:" + strings.TrimSuffix(strings.TrimPrefix(sh, "err(malformed:"), ")"), true
	}
	return "total", true
}

func run(c hx.Config) error {
	o, err := hx.NewOut(c.OutDir)
	if err != nil {
		return err
	}
	r := hx.NewRng(c.Seed)
	cfg := cx.Probe()

	// ---- x: cross product ----
	vals := values()
	for _, v := range extraVals() {
		rawVals[v.name] = true
		vals = append(vals, v)
	}
	nStructs := 14
	if c.Thorough() {
		nStructs = 120
	}
	for _, v := range genStructVals(r, nStructs) { // structs.go: struct inputs built type-directedly (embedding, unexported fields, typed nils)
		rawVals[v.name] = true
		vals = append(vals, v)
	}
	for _, s := range allSchemas() {
		for _, method := range []string{"Parse", "ParseAny", "StrictParse"} {
			for _, v := range append(append([]val(nil), vals...), typedVals(s.z)...) {
				in := v.v
				if !rawVals[v.name] {
					in = cx.Clone(v.v)
				}
				if v.name == "reflect.Type" || v.name == "big.Int" || v.name == "*time" || v.name == "error" || v.name == "reflect.Value" || v.name == "chan" || v.name == "func" || v.name == "unsafe.Pointer" || v.name == "schema-as-value" {
					in = v.v
				}
				obs, called := call(s.z, method, in)
				if !called {
					o.Count("x:not-applicable:" + method)
					continue
				}
				o.Emit(fmt.Sprintf("c04 x %s %s %s # %s %s.%s(%s)", s.kind, method, strings.ReplaceAll(v.name, " ", "_"), s.kind, s.name, method, v.name), obs)
				o.Count("x:" + s.kind + ":" + strings.SplitN(obs, ":", 2)[0])
			}
		}
	}
	// every schema in nested position (object field, union option, Slice[any] element, record/map value,
	// tuple item, lazy target) × the unhashable / comparable-but-holding-unhashable value classes
	nasty := []val{}
	for _, v := range vals {
		switch v.name {
		case "[]int", "map[string]any", "func", "chan", "struct-holding-slice", "array-holding-map", "S1-holding-slice", "S1-holding-func",
			"array-of-any-holding-S1-slice", "map-unhashable-disc", "map-disc-struct-holding-slice", "map-disc-array-holding-map",
			"map-disc-S1-holding-slice", "[][]int", "nil", "string-a", "NaN":
			nasty = append(nasty, v)
		}
	}
	for _, s := range schemas() {
		inner := s.z
		wraps := []struct {
			name string
			z    core.ZodSchema
			wrap func(any) any
		}{
			{"Object{f:%s}", types.Object(core.ObjectSchema{"f": inner}), func(x any) any { return map[string]any{"f": x} }},
			{"Union([Never(),%s])", types.Union([]any{types.Never(), inner}), func(x any) any { return x }},
			{"Xor([%s,Never()])", types.Xor([]any{inner, types.Never()}), func(x any) any { return x }},
			{"Slice[any](%s)", types.Slice[any](inner), func(x any) any { return []any{x, x} }},
			{"Record(String(),%s)", types.Record(types.String(), inner), func(x any) any { return map[string]any{"k": x} }},
			{"Map(Any(),%s)", types.Map(types.Any(), inner), func(x any) any { return map[any]any{"k": x} }},
			{"Tuple(%s)", types.Tuple(inner), func(x any) any { return []any{x} }},
			{"Array([%s])", types.Array([]any{inner}), func(x any) any { return []any{x} }},
			{"LazyAny(%s)", types.LazyAny(func() any { return inner }), func(x any) any { return x }},
			{"Intersection(%s,Any())", types.Intersection(inner, types.Any()), func(x any) any { return x }},
			{"Struct[S1]{A:%s}", types.Struct[cx.S1](core.StructSchema{"A": inner}), func(x any) any { return cx.S1{A: x} }},
		}
		for _, w := range wraps {
			for _, v := range nasty {
				in := w.wrap(v.v)
				var obs string
				p := hx.Safely(func() {
					_, err := w.z.ParseAny(in)
					obs = shape(err)
				})
				switch {
				case p != "":
					obs = "panic:" + classify(p)
				case strings.HasPrefix(obs, "err(malformed:"):
					obs = "malformed:" + strings.TrimSuffix(strings.TrimPrefix(obs, "err(malformed:"), ")")
				default:
					obs = "total"
				}
				nm := fmt.Sprintf(w.name, s.name)
				o.Emit(fmt.Sprintf("c04 x %s ParseAny nested:%s # %s %s.ParseAny(<%s> wrapped)", s.kind, strings.ReplaceAll(v.name, " ", "_"), s.kind, nm, v.name), obs)
				o.Count("xnest:" + s.kind + ":" + strings.SplitN(obs, ":", 2)[0])
			}
		}
	}
	// derived schemas: every base schema type (storex.Bases) and every exported chaining method that takes no callback
	// (reflection; arguments synthesised: schemas, key lists, constants, metadata — Pipe targets, And/Or partners,
	// Default/Prefault values, Optional/Nilable/NonOptional, Describe, Partial, Pick …), one level deep for every
	// method and two levels deep for a sample, × every value of the value set × ParseAny.
	callbackFree := func(recv any, name string) bool {
		m, ok := reflect.TypeOf(recv).MethodByName(name)
		if !ok {
			return false
		}
		for i := 1; i < m.Type.NumIn(); i++ {
			t := m.Type.In(i)
			if t.Kind() == reflect.Slice {
				t = t.Elem()
			}
			if t.Kind() == reflect.Func {
				return false
			}
		}
		switch name {
		case "Transform", "Refine", "RefineAny", "Overwrite", "Check", "With", "Implement", "ImplementAsync", "DefaultFunc", "PrefaultFunc":
			return false
		}
		return true
	}
	observe := func(z any, in any) string {
		var obs string
		p := hx.Safely(func() {
			_, err, pn := storex.ParseAny(z, in)
			if pn != "" {
				panic(pn)
			}
			obs = shape(err)
		})
		switch {
		case p != "":
			return "panic:" + classify(p)
		case strings.HasPrefix(obs, "err(malformed:"):
			return "malformed:" + strings.TrimSuffix(strings.TrimPrefix(obs, "err(malformed:"), ")")
		}
		return "total"
	}
	probeWith := func(stream, label string, z any, vs []val) {
		if strings.Contains(label, "/zero") || strings.Contains(label, "/neg") || strings.Contains(label, "/big") {
			// does the schema built from extreme arguments already fail on a benign value of its own payload type?
			// then the ARGUMENT is the cause of every panic observed with it, not the particular input
			for _, tv := range typedVals(z) {
				if strings.HasPrefix(tv.name, "sample(") {
					if strings.HasPrefix(observe(z, tv.v), "panic:") {
						label += "[arg-broken]"
					}
					break
				}
			}
		}
		for _, v := range vs {
			obs := observe(z, v.v)
			o.Emit(fmt.Sprintf("c04 x %s ParseAny %s # %s %s.ParseAny(%s)", stream, strings.ReplaceAll(v.name, " ", "_"), stream, label, v.name), obs)
			o.Count("x" + stream + ":" + strings.SplitN(obs, ":", 2)[0])
		}
	}
	probeDerived := func(label string, z any) {
		probeWith("derived", label, z, vals)
		probeWith("typed", label, z, typedVals(z))
	}
	// the values a second-level schema is asked about: nil in its guises + what its payload type directs
	var nilish []val
	for _, v := range vals {
		switch v.name {
		case "nil", "string-a", "int", "float64", "NaN", "(*int)(nil)", "(*string)(nil)", "[]any(nil)", "map[string]any(nil)", "(*big.Int)(nil)", "*any-nil",
			"**big.Int->nil@1", "**time.Time->nil@1", "*any{(*int)(nil)}", "big.Int", "time", "map[string]any", "[]any", "func(nil)", "mixed{nils}":
			nilish = append(nilish, v)
		}
	}
	// bases: the hand list (full derived stream, as before) + every enumerated constructor and option-rich schema; the
	// method-level streams run once per schema GO TYPE (methods belong to the type), the base-level stream for every base
	oldBases := storex.Bases()
	bases := append(append([]storex.Base(nil), oldBases...), extraBases()...)
	seenType := map[reflect.Type]bool{}
	hasFixedParam := func(recv any, name string) bool {
		m := reflect.ValueOf(recv).MethodByName(name)
		if !m.IsValid() {
			return false
		}
		n := m.Type().NumIn()
		if m.Type().IsVariadic() {
			n--
		}
		return n > 0
	}
	nilChains := func(z any) []val {
		out := []val{{"nil", nil}}
		for _, v := range typedVals(z) {
			if strings.Contains(v.name, "nil@") || strings.Contains(v.name, "zero") {
				out = append(out, v)
			}
		}
		return out
	}
	// C04_AIM (set by vlib/c04.py when the static panic-site table names functions that are not accounted for, or the structure
	// of a file changed): schema families whose name contains one of the comma-separated words get the full derived stream and
	// the thorough second-level depth; "*" aims at every family.
	aimWords := strings.FieldsFunc(os.Getenv("C04_AIM"), func(r rune) bool { return r == ',' })
	aimed := func(name string) bool {
		for _, w := range aimWords {
			if w == "*" || strings.Contains(strings.ToLower(name), strings.ToLower(w)) {
				return true
			}
		}
		return false
	}
	for bi, b := range bases {
		base := b.Mk()
		if base == nil {
			continue
		}
		full := bi < len(oldBases) || aimed(b.Name)
		if aimed(b.Name) {
			o.Count("aimed:" + b.Name)
		}
		probeDerived(b.Name, base)
		if seenType[reflect.TypeOf(base)] && !full {
			o.Count("bases:same-type-as-an-earlier-base")
			continue
		}
		seenType[reflect.TypeOf(base)] = true
		for _, m1 := range storex.Methods(base) {
			if !callbackFree(base, m1) {
				continue
			}
			var firsts []named2
			for v1 := 0; v1 < 2; v1++ {
				d1, ok, _ := storex.Call(b.Mk(), m1, v1)
				if !ok {
					continue
				}
				label := fmt.Sprintf("%s.%s/%d", b.Name, m1, v1)
				if full {
					probeDerived(label, d1)
				} else {
					probeWith("derived", label, d1, nilish)
					probeWith("typed", label, d1, typedVals(d1))
				}
				if v1 == 1 {
					continue
				}
				if hasFixedParam(base, m1) {
					firsts = append(firsts, named2{label, d1})
				}
				for _, m2 := range storex.Methods(d1) {
					if !full || !callbackFree(d1, m2) || !(c.Thorough() || aimed(b.Name) || r.Intn(12) == 0) {
						continue
					}
					if d2, ok2, _ := storex.Call(d1, m2, r.Intn(2)); ok2 {
						probeDerived(fmt.Sprintf("%s.%s/0.%s", b.Name, m1, m2), d2)
					}
				}
			}
			// a nil-admitting modifier followed by Pipe, for EVERY schema Go type (not sampled): the pipe's source hands a nil
			// result to the type's extract*Value conversion (round 4b: Enum[any].ExactOptional().Pipe(Any()).Parse(nil))
			switch m1 {
			case "Optional", "Nilable", "Nullish", "ExactOptional", "Default", "Prefault":
				if d1, ok, _ := storex.Call(b.Mk(), m1, 0); ok {
					if d2, ok2, _ := storex.Call(d1, "Pipe", 0); ok2 {
						probeWith("derived", fmt.Sprintf("%s.%s/0.Pipe", b.Name, m1), d2, nilish)
						o.Count("niladmit-pipe:" + m1)
					}
				}
			}
			// the same method with the zero value / negative / extreme value of every parameter
			for _, mode := range []string{"zero", "neg", "big"} {
				if d1, ok := callMode(b.Mk(), m1, mode); ok {
					label := fmt.Sprintf("%s.%s/%s", b.Name, m1, mode)
					probeWith("argmode", label, d1, nilish)
					probeWith("argmode", label, d1, typedVals(d1))
					o.Count("argmode:" + mode)
					firsts = append(firsts, named2{label, d1})
				}
			}
			// second level: nil-admitting modifiers and zero defaults/prefaults over the schemas that carry a parameterised check
			for _, f := range firsts {
				for _, d2 := range secondLevel(f.z) {
					probeWith("level2", f.name+"."+d2.name, d2.z, nilChains(d2.z))
				}
			}
		}
	}
	// generated schemas × the same values (ParseAny)
	nGen := 60
	if c.Thorough() {
		nGen = 600
	}
	for i := range nGen {
		s := cx.Gen(r, 1+i%4, "")
		for _, v := range vals {
			if s.Kind == "leaf" {
				continue
			}
			in := v.v
			var obs string
			p := hx.Safely(func() {
				_, err := s.Z.ParseAny(in)
				obs = shape(err)
			})
			switch {
			case p != "":
				obs = "panic:" + classify(p)
			case strings.HasPrefix(obs, "err(malformed:"):
				obs = "malformed:" + strings.TrimSuffix(strings.TrimPrefix(obs, "err(malformed:"), ")")
			default:
				obs = "total"
			}
			o.Emit(fmt.Sprintf("c04 x %s ParseAny %s # %s %s.ParseAny(%s)", s.Kind, strings.ReplaceAll(v.name, " ", "_"), s.Kind, s.Name, v.name), obs)
			o.Count("xgen:" + s.Kind + ":" + strings.SplitN(obs, ":", 2)[0])
		}
	}

	// ---- m: container cases judged by the Lean model ----
	perKind := 12
	if c.Thorough() {
		perKind = 120
	}
	kinds := []string{"slice", "array", "tuple", "map", "record", "set", "object", "struct", "union", "xor", "inter", "du", "lazy"}
	emitM := func(s *cx.Sch, in any, how string) {
		if s.Unmodelled(in) {
			return
		}
		cs := cx.Build(cfg, s, in)
		if cs.Nondet {
			o.Count("m:skipped:member-answers-differ-between-calls")
			return
		}
		var obs string
		p := hx.Safely(func() {
			_, err := s.Z.ParseAny(cx.Clone(in))
			obs = shape(err)
		})
		if p != "" {
			obs = "panic:" + classify(p)
		}
		o.Emit("c04 m "+cs.Body+" # "+s.Kind+" "+how+" "+cx.Repro(s, in), obs)
		o.Count("m:" + s.Kind + ":" + obs)
	}
	r = hx.NewRng(c.Seed ^ 0xC04) // the m stream has its own generator: widening the x stream must not reshuffle it
	for _, kind := range kinds {
		for i := range perKind {
			depth := 1 + i%4
			s := cx.GenKind(r, depth, kind)
			v := s.Valid(r)
			emitM(s, v, "valid")
			for range 4 {
				if nv, _, ok := s.Corrupt(r, v, "", depth); ok {
					emitM(s, nv, "corrupt")
				}
			}
			for _, w := range cx.WrongShapes() {
				emitM(s, w, "shape")
			}
		}
	}
	// ---- fatal failure modes (stack overflow, non-termination): child processes ----
	if err := runFatal(o); err != nil {
		return err
	}
	return o.Close(map[string]any{"cfg": cfg.Tok(), "ctor_built": ctorRep.built, "ctor_uncallable": ctorRep.uncallable,
		"ctor_non_schema": ctorRep.nonSchema, "generic_uncovered": ctorRep.generic, "generic_listed": genericCtors, "ctor_listed": len(genCtors),
		"fjs_conv": map[string]any{"documents": fjsStats.docs, "compile_errors": fjsStats.compileErr, "conversion_errors": fjsStats.convErr,
			"conversion_panics": fjsStats.convPanic, "schemas": fjsStats.built, "panic_samples": fjsConvPanics}})
}
