"""C15 — Parse neither writes to caller data nor lets results alias schema-held state."""
from . import common as C

MANIFEST = dict(
   technique="Lean 4 proof over store models with caller-visible value graphs (cells for maps / slices / pointees, value-typed aggregate nodes for structs and arrays held by value; reach / ser / deep copy / rebuild / assign) + correspondence: a type-directed generator of Go value graphs drives (i) by-value inputs through Parse / ParseAny / StrictParse of generated schema trees with digests (contents + addresses, spare capacity included) of every cell of the input graph, (ii) typed default / prefault values through random Parse(nil) / deep-mutation histories over families of schemas sharing the value, (iii) pointers through Parse / StrictParse",
   text="For the code as it is (deepCloneValue clones maps, slices, pointees and, field by field, structs and arrays): g_copyOK (the deep copy of any graph with value-typed aggregates, to any depth, consists of fresh cells only, looks exactly like the original and writes nothing that existed), g_result_fresh (Parse(nil): everything reachable from the returned default / prefault is fresh), g_assign_frame and g_hist (any interleaving of Parse(nil) calls on a family of schemas and stores of arbitrary contents into cells outside the schema-owned region leaves every default graph, hence every later result, looking the same), g_parse_mutate_parse (Parse(nil), change every scalar of every reachable cell at any nesting and add entries, Parse(nil): same look; no side conditions), g_input_unchanged (Parse of a by-value input graph builds its result in fresh cells for EVERY rewriting of entries — strip, key canonicalisation, coercion — so every cell of the input holds what it held), plus the round-1 theorems over plain node graphs (copyOK, c15_result_fresh, c15_mut_frame, c15_hist, c15_input_unchanged, c15_same_pointer). Witnesses: bulk_agg_copy_shared (copying struct / array elements by assignment leaves the cells they refer to shared), today_nested_default_shared (one-level copy).",
   note="Graphs are followed to 16 nested levels (the harness builds at most 13). The model of by-value container parsing (`rebuild`) abstracts what each schema type does to entries into an arbitrary function rw; that the real containers only read the input is established per case by the digests, not by translation of the Go code. g_hist takes the caller's stores to be outside the schema-owned region (discharged for results by g_result_fresh; g_parse_mutate_parse has no such hypothesis). StrictParse returning the caller's pointer is checked by the correspondence. Struct fields that are unexported stay shared in a cloned default (limit of deepCloneValue, not reachable by a caller outside the package). Trusted: Lean kernel, axioms propext/Classical.choice/Quot.sound, the Go harness (reflective generator, digests, mutator, graph encoder).",
   design="DESIGN.md §3.4, §5 C15; notes/C15.md")

MODULES = ["Gozod.Proofs.C15", "Gozod.Proofs.C15Agg"]
THEOREMS = [
    "Gozod.C15.c15_result_fresh", "Gozod.C15.copyOK", "Gozod.C15.c15_mut_frame", "Gozod.C15.c15_hist",
    "Gozod.C15.c15_input_unchanged", "Gozod.C15.c15_same_pointer", "Gozod.C15.graph_frame",
    "Gozod.C15.today_nested_default_shared",
    # graphs with value-typed aggregates (structs / arrays held by value inside containers)
    "Gozod.C15.g_copyOK", "Gozod.C15.g_result_fresh", "Gozod.C15.g_assign_frame", "Gozod.C15.g_hist",
    "Gozod.C15.g_graph_frame", "Gozod.C15.rebuild_ext", "Gozod.C15.g_input_unchanged", "Gozod.C15.bulk_agg_copy_shared",
    "Gozod.C15.mutateAll_ext", "Gozod.C15.g_parse_mutate_parse",
]


def key(op, impl, M, S):
    t = C.op_body(op).split(" ")
    cm = C.op_comment(op).split(" ")
    typ = cm[-1] if cm else "?"
    how = cm[0] if cm else "?"
    variant = how.split(".", 1)[1] if "." in how else how
    if t[1] == "ptr":
        u, same = (impl.split(" ") + ["?"])[:2]
        what = "input-written" if u == "W" else "different-pointer"
        if u == "W" and "how=pointee-replaced" in cm:
            # the pointee slot was re-pointed to the newly built result (`*ptr = v`); the caller's container is intact
            return "ptr:%s:pointee-replaced:%s" % (t[2], typ)
        return "ptr:%s:%s:%s:%s" % (t[2], what, typ, variant.split("/")[0])
    if t[1] == "dflt":
        return "%s-aliased:%s:depth%s" % (t[2], typ, t[3])
    if t[1] == "val":
        # val:<entry>:input-written:<schema type>:<top-level kind of the tree>:<Go type of the first cell that changed>
        kind = how.split(":", 1)[1] if ":" in how else how
        diff = next((x[5:] for x in cm if x.startswith("diff=")), "?")
        return "val:%s:input-written:%s:%s:%s" % (t[2], typ, kind, diff)
    if t[1] == "hist":
        depth = next((x[6:] for x in cm if x.startswith("depth=")), "?")
        iv, ifr, ih = (impl.split("|") + ["", "", ""])[:3]
        sv, sfr, sh = ((S or "").split("|") + ["", "", ""])[:3]
        if iv == sv and ifr == sfr and ih != sh:
            return "%s-look:%s" % (t[2], typ)          # Parse(nil) returned something that does not look like the value
        return "%s-aliased:%s:depth%s" % (t[2], typ, depth)
    if t[1] == "own":
        # own:<what>:<schema type of the root>:<root of the modelled tree>
        iv, ifr, isw, ih = (impl.split("|") + ["", "", "", ""])[:4]
        sv, sfr, ssw, sh = ((S or "").split("|") + ["", "", "", ""])[:4]
        root = how.split(":", 1)[1].split("(")[0].split("{")[0].split("/")[0] if ":" in how else how
        if iv == sv and ifr == sfr and isw == ssw and ih != sh:
            return "own-look:%s:%s" % (typ, root)       # verdict / look of a first result differs from the model's
        what = "result-changed" if "CHANGED" in iv else ("schema-written" if isw != ssw else "aliased")
        return "own:%s:%s:%s" % (what, typ, root)
    if impl == "ALIASED":
        return "reparse-aliased:" + typ
    return "reparse-changed:" + typ


def describe(op):
    return ("after '#': <Base>.<variant> (harness/storex Bases(); variant = chaining call applied to the base), probe=<index into storex.Probes()>; "
            "ptr: a fresh pointer to the probe value goes through Parse / StrictParse; dflt: <Base>.<Default|Prefault>/<argument variant>, "
            "Parse(nil), deep mutation of the result, Parse(nil) on the schema and on schema.Describe(), mutate, Parse(nil); "
            "val: schema=<generated tree> (harness/cmd/c15/schemas.go) with the by-value input built by storex.GraphGen from seed=<hex> "
            "(the op body after '|' is the input graph: R=map/slice/pointee cell, A=struct/array by value, S=scalar, Z=nil, B=shared cell), "
            "at=<first cell of the input that differs after the call>; hist: <Base>.<Default|Prefault> given the value generated from seed=<hex> "
            "(graph after '|'), steps P = Parse(nil) on a member of the family (schema, derived schemas, a second schema given the same value), "
            "M<j> = deep in-place mutation of the j-th result; observation = <same|CHANGED per later P>|<fresh|ALIASED>|<look of the first result>")


def run(res):
    ok, detail = C.prove(res, MODULES, THEOREMS)
    if not ok:
        C.tie_broken(res, "proof Gozod.Proofs.C15", detail)
    data, err = C.correspond(res, "C15")
    if data is None:
        C.tie_broken(res, "correspondence C15/parse-aliasing", err)
        return res.finish()
    C.decide(res, "C15", data, key, "C15/parse-aliasing", describe=describe)
    res.coverage["rule"] = ("val: random schema trees (depth 1-4; Object strip/strict/loose/catchall/ptr, Record/LooseRecord/PartialRecord/RecordPtr × 14 key-schema kinds, "
        "Slice[any|string|int|map|Rule], SlicePtr, Array, Tuple(+rest), Map/MapPtr, Set[any|string|int], Struct/StructPtr/FromStruct, Union, Xor, Intersection, "
        "DiscriminatedUnion, Lazy, coercing / optional / nilable / defaulted / pointer leaves, Any/Unknown with random graphs) × generated by-value inputs (any-typed and typed "
        "maps and slices, map[any]any, structs, pointers to scalars, non-canonical numeric keys, unknown keys, duplicates, spare capacity; accepted and rejected) × "
        "{Parse, ParseAny, StrictParse}: digest of every cell of the input graph before/after; then Parse – deep mutation of the result – Parse of an identical input. "
        "hist: every schema type (storex.Bases + 40 typed / shaped bases) × {Default, Prefault} × values generated from the parameter's Go type (typed composites to 13 nested levels): "
        "P0 M0 P0 + 5-8 random steps over the family {schema, Describe, Meta, Optional, Nilable, RefineAny, NonOptional, second schema given the same value, re-defaulted schema}; "
        "per later parse same/CHANGED, address disjointness of every result from the held value and from earlier results, digest of the held value, look of the first result vs the model. "
        "ptr / dflt / reparse: the round-1 classes over storex.Probes(). distinct = distinct op bodies (graph shapes × histories).")
    res.assumptions += [
        "the reflective mutator reaches everything a caller could reach through exported maps, slices (up to cap), pointers, arrays and struct fields; values reachable only through a non-addressable copy are reached through the references they hold",
        "user callbacks (DefaultFunc/PrefaultFunc results) are the caller's own data and are not required to be copied",
        "results whose value depends on map iteration order (two input keys canonicalising to one) are left out of the reparse comparison (their inputs are still digested)",
    ]
    return res.finish()
