/-
  C13, part C — gozodgen's own tag splitter / rule parser (`Gozod.GenSplit`, transcribed from
  cmd/gozodgen/analyzer.go) against pkg/tagparser (`Gozod.TagParser`, what FromStruct uses).

  Full statement: the two parsers give the same rules for every tag.  It is FALSE for the code as it
  stands (witnesses below); proved: they agree on the decidable region `parseRegion`.
-/
import Gozod.Model.GenSplit
import Gozod.Model.GenEmit
set_option linter.unusedSimpArgs false
set_option linter.unusedVariables false

namespace Gozod.C13
open Gozod.TagParser Gozod.GenSplit

/-- lock-step relation between the generator's splitter state and tagparser's -/
structure Sim (g : GSt) (t : St) : Prop where
  parts : t.parts = g.parts
  buf : t.buf = g.cur
  brackets : t.brackets = g.inBrackets
  braces : t.braces = g.inBraces
  quoted : t.quoted = g.inQuotes
  quote : t.quoted = true → t.quote = cDQuote

theorem sim_step (g : GSt) (t : St) (ch : Nat) (rest : Str)
    (hs : Sim g t) (he : t.escaped = true → g.prevBS = true)
    (hr : splitRegionAux t.escaped g.prevBS (ch :: rest) = true) :
    Sim (gstep g ch) (step t ch (!rest.isEmpty)) ∧
    ((step t ch (!rest.isEmpty)).escaped = true → (gstep g ch).prevBS = true) ∧
    splitRegionAux (step t ch (!rest.isEmpty)).escaped (gstep g ch).prevBS rest = true := by
  obtain ⟨gp, gc, gq, gbr, gbk, gpb⟩ := g
  obtain ⟨tp, tb, tbk, tbr, tq, tqu, te⟩ := t
  obtain ⟨h1, h2, h3, h4, h5, h6⟩ := hs
  simp only at h1 h2 h3 h4 h5 h6 he hr
  subst h1 h2 h3 h4 h5
  have d1 : cBackslash ≠ cDQuote := by decide
  have d2 : cBackslash ≠ cSQuote := by decide
  have d3 : cBackslash ≠ cLBracket := by decide
  have d4 : cBackslash ≠ cRBracket := by decide
  have d5 : cBackslash ≠ cLBrace := by decide
  have d6 : cBackslash ≠ cRBrace := by decide
  have d7 : cBackslash ≠ cComma := by decide
  have e1 : cDQuote ≠ cSQuote := by decide
  have e2 : cDQuote ≠ cLBracket := by decide
  have e3 : cDQuote ≠ cRBracket := by decide
  have e4 : cDQuote ≠ cLBrace := by decide
  have e5 : cDQuote ≠ cRBrace := by decide
  have e6 : cDQuote ≠ cComma := by decide
  have f1 : cLBracket ≠ cRBracket := by decide
  have f2 : cLBracket ≠ cLBrace := by decide
  have f3 : cLBracket ≠ cRBrace := by decide
  have f4 : cLBracket ≠ cComma := by decide
  have f5 : cRBracket ≠ cLBrace := by decide
  have f6 : cRBracket ≠ cRBrace := by decide
  have f7 : cRBracket ≠ cComma := by decide
  have f8 : cLBrace ≠ cRBrace := by decide
  have f9 : cLBrace ≠ cComma := by decide
  have f10 : cRBrace ≠ cComma := by decide
  cases te with
  | true =>
    -- tagparser copies the escaped rune; the region says it is none of `[ ] { } ,`
    have hpb : gpb = true := he rfl
    subst hpb
    simp only [splitRegionAux, if_true, Bool.and_eq_true, bne_iff_ne, ne_eq] at hr
    obtain ⟨⟨⟨⟨⟨n1, n2⟩, n3⟩, n4⟩, n5⟩, hr⟩ := hr
    by_cases hq : ch = cDQuote
    · subst hq
      have dd : decide (cDQuote = cBackslash) = false := by decide
      rw [dd] at hr
      refine ⟨⟨?_, ?_, ?_, ?_, ?_, ?_⟩, ?_, ?_⟩ <;> simp_all [step, gstep, d1.symm]
    · refine ⟨⟨?_, ?_, ?_, ?_, ?_, ?_⟩, ?_, ?_⟩ <;> simp_all [step, gstep]
  | false =>
    by_cases hb : ch = cBackslash
    · subst hb
      simp only [splitRegionAux, Bool.false_eq_true, if_false, if_true] at hr
      refine ⟨⟨?_, ?_, ?_, ?_, ?_, ?_⟩, ?_, ?_⟩ <;> simp_all [step, gstep]
    · by_cases hsq : ch = cSQuote
      · subst hsq
        simp [splitRegionAux, hb] at hr
      · by_cases hq : ch = cDQuote
        · subst hq
          simp only [splitRegionAux, Bool.false_eq_true, if_false, hb, hsq, if_true, Bool.and_eq_true,
            Bool.not_eq_true'] at hr
          obtain ⟨hpb, hr⟩ := hr
          subst hpb
          cases tq <;>
          (refine ⟨⟨?_, ?_, ?_, ?_, ?_, ?_⟩, ?_, ?_⟩ <;> simp_all [step, gstep])
        · simp only [splitRegionAux, Bool.false_eq_true, if_false, hb, hsq, hq] at hr
          by_cases c1 : ch = cLBracket
          · subst c1; refine ⟨⟨?_, ?_, ?_, ?_, ?_, ?_⟩, ?_, ?_⟩ <;> simp_all [step, gstep]
          by_cases c2 : ch = cRBracket
          · subst c2; refine ⟨⟨?_, ?_, ?_, ?_, ?_, ?_⟩, ?_, ?_⟩ <;> simp_all [step, gstep]
          by_cases c3 : ch = cLBrace
          · subst c3; refine ⟨⟨?_, ?_, ?_, ?_, ?_, ?_⟩, ?_, ?_⟩ <;> simp_all [step, gstep]
          by_cases c4 : ch = cRBrace
          · subst c4; refine ⟨⟨?_, ?_, ?_, ?_, ?_, ?_⟩, ?_, ?_⟩ <;> simp_all [step, gstep]
          by_cases c5 : ch = cComma
          · subst c5
            cases tq <;> by_cases hk : tbk = 0 <;> by_cases hr' : tbr = 0 <;>
            (refine ⟨⟨?_, ?_, ?_, ?_, ?_, ?_⟩, ?_, ?_⟩ <;> simp_all [step, gstep])
          · refine ⟨⟨?_, ?_, ?_, ?_, ?_, ?_⟩, ?_, ?_⟩ <;> simp_all [step, gstep]

theorem sim_run (rest : Str) : ∀ (g : GSt) (t : St), Sim g t → (t.escaped = true → g.prevBS = true) →
    splitRegionAux t.escaped g.prevBS rest = true → Sim (grun g rest) (run t rest) := by
  induction rest with
  | nil => intro g t hs _ _; simpa [grun, run] using hs
  | cons ch rest ih =>
    intro g t hs he hr
    obtain ⟨a, b, c⟩ := sim_step g t ch rest hs he hr
    simpa [grun, run] using ih _ _ a b c

/-- Full statement: gozodgen cuts a tag into the same parts as pkg/tagparser. -/
def c13_split_full : Prop := ∀ s : Str, genSplit s = splitParts s

/-- **The two splitters agree** on every tag of the region (no apostrophe outside an escape, no
    backslash-escaped bracket/brace/comma, no `"` after an escaped backslash) — any runes, any length,
    any nesting of brackets, braces and double quotes, balanced or not. -/
theorem c13_split_partial (s : Str) (h : splitRegion s = true) : genSplit s = splitParts s := by
  have hs := sim_run s {} {} ⟨rfl, rfl, rfl, rfl, rfl, by simp⟩ (by simp) (by simpa [splitRegion] using h)
  obtain ⟨h1, h2, _, _, _, _⟩ := hs
  unfold genSplit splitParts
  simp only [h1, h2]

/-- … and not in general: one witness per excluded class. -/
theorem c13_split_witnesses :
    -- `'a,b'` : tagparser keeps the quoted comma, the generator splits at it
    genSplit [0x27, 0x61, 0x2C, 0x62, 0x27] ≠ splitParts [0x27, 0x61, 0x2C, 0x62, 0x27] ∧
    -- `a\,b` : escaped comma
    genSplit [0x61, 0x5C, 0x2C, 0x62] ≠ splitParts [0x61, 0x5C, 0x2C, 0x62] ∧
    -- `\[,a` : escaped bracket (the generator counts it and never splits again)
    genSplit [0x5C, 0x5B, 0x2C, 0x61] ≠ splitParts [0x5C, 0x5B, 0x2C, 0x61] ∧
    -- `\\",a` : a double quote after an escaped backslash
    genSplit [0x5C, 0x5C, 0x22, 0x2C, 0x61] ≠ splitParts [0x5C, 0x5C, 0x22, 0x2C, 0x61] := by decide

theorem c13_split_full_false : ¬ c13_split_full := fun h => c13_split_witnesses.1 (h _)

-- the hypothesis is satisfiable by non-trivial tags:  required,regex=^[a-z]{2,4}$,default=["a","b"]
example : splitRegion [0x72, 0x2C, 0x78, 0x3D, 0x5E, 0x5B, 0x61, 0x2D, 0x7A, 0x5D, 0x7B, 0x32, 0x2C, 0x34, 0x7D, 0x24, 0x2C,
    0x64, 0x3D, 0x5B, 0x22, 0x61, 0x22, 0x2C, 0x22, 0x62, 0x22, 0x5D] = true := by decide
example : (genSplit [0x72, 0x2C, 0x78, 0x3D, 0x5E, 0x5B, 0x61, 0x2D, 0x7A, 0x5D, 0x7B, 0x32, 0x2C, 0x34, 0x7D, 0x24, 0x2C,
    0x64, 0x3D, 0x5B, 0x22, 0x61, 0x22, 0x2C, 0x22, 0x62, 0x22, 0x5D]).length = 3 := by decide

/-! ### rule parser -/

theorem dropWhile_snoc_keep (p : Nat → Bool) (a : Str) (c : Nat) (hc : p c = false) :
    ∃ a', (a ++ [c]).dropWhile p = a' ++ [c] := by
  induction a with
  | nil => exact ⟨[], by simp [List.dropWhile, hc]⟩
  | cons x a ih =>
    by_cases hx : p x = true
    · obtain ⟨a', h⟩ := ih
      exact ⟨a', by simp [List.dropWhile, hx, h]⟩
    · exact ⟨x :: a, by simp [List.dropWhile, hx]⟩

theorem trimRight_head (c : Nat) (r : Str) (hc : isSpace c = false) : ∃ r', trimRight (c :: r) = c :: r' := by
  unfold trimRight
  obtain ⟨a', h⟩ := dropWhile_snoc_keep isSpace r.reverse c hc
  refine ⟨a'.reverse, ?_⟩
  rw [List.reverse_cons, h]; simp

theorem trimLeft_head (s : Str) : trimLeft s = [] ∨ ∃ c r, trimLeft s = c :: r ∧ isSpace c = false := by
  unfold trimLeft
  induction s with
  | nil => left; rfl
  | cons x s ih =>
    by_cases hx : isSpace x = true
    · simpa [List.dropWhile, hx] using ih
    · right; exact ⟨x, s, by simp [List.dropWhile, hx], by simpa using hx⟩

theorem trimSpace_head (s : Str) : trimSpace s = [] ∨ ∃ c r, trimSpace s = c :: r ∧ isSpace c = false := by
  unfold trimSpace
  rcases trimLeft_head s with h | ⟨c, r, h, hc⟩
  · left; rw [h]; rfl
  · right
    obtain ⟨r', h'⟩ := trimRight_head c r hc
    exact ⟨c, r', by rw [h, h'], hc⟩

/-- trimming a trimmed non-empty string leaves it non-empty -/
theorem trimSpace_trimmed_ne (s : Str) (h : trimSpace s ≠ []) : trimSpace (trimSpace s) ≠ [] := by
  rcases trimSpace_head s with h0 | ⟨c, r, hs, hc⟩
  · exact absurd h0 h
  · rw [hs]
    have hl : trimLeft (c :: r) = c :: r := by simp [trimLeft, List.dropWhile, hc]
    obtain ⟨r', h'⟩ := trimRight_head c r hc
    unfold trimSpace
    rw [hl, h']
    simp

/-- what `ParseTagString` keeps of a parsed rule -/
def keep (r : Rule) : Option Rule := if r.name ≠ [] then some r else none

theorem part_agree (p : Str) (h : partRegion p = true) :
    ∃ r, parseRule false (trimSpace p) = .ok r ∧ genParsePart p = .ok (keep r) := by
  unfold partRegion at h
  unfold genParsePart parseRule
  by_cases h0 : trimSpace p = []
  · simp [h0, keep]
  · simp only [h0, if_false] at h ⊢
    rcases hc : cutEq (trimSpace p) with ⟨name, raw, ok⟩
    rw [hc] at h
    simp only [hc]
    cases ok with
    | false =>
      have hne := trimSpace_trimmed_ne p h0
      simp [hne, keep]
    | true =>
      simp only [cSpace, ↓reduceIte, Bool.not_true, Bool.false_eq_true] at h ⊢
      simp only [Bool.and_eq_true, bne_iff_ne, ne_eq, Bool.or_eq_true, Bool.not_eq_true'] at h
      obtain ⟨⟨⟨hraw, hname⟩, hq⟩, hsp⟩ := h
      have hq2 : ∀ b : Bool, (b && hasPrefixQ (trimSpace raw) && hasSuffixQ (trimSpace raw)) = false := by
        intro b; rw [Bool.and_assoc, hq]; simp
      by_cases hsv : (trimSpace raw).contains 0x20 = true
      · rw [hsv] at hsp
        have hm : 32 ∈ trimSpace raw := by simpa using hsv
        rcases hsp with hsp | ⟨hb, hr⟩
        · simp at hsp
        · simp [hraw, hname, hq2, hr, hsv, hb, hm, keep]
      · have hm : ¬ 32 ∈ trimSpace raw := by simpa using hsv
        have hsv : (trimSpace raw).contains 0x20 = false := by simpa using hsv
        by_cases hbv : bracketed (trimSpace raw) = true
        · simp [hraw, hname, hq2, hsv, hbv, hm, keep]
        · have hbv : bracketed (trimSpace raw) = false := by simpa using hbv
          simp [hraw, hname, hq2, hsv, hbv, hm, keep]

theorem parts_agree (ps : List Str) (h : ps.all partRegion = true) :
    genParseParts ps = parseParts false ps := by
  induction ps with
  | nil => rfl
  | cons p ps ih =>
    simp only [List.all_cons, Bool.and_eq_true] at h
    obtain ⟨r, h1, h2⟩ := part_agree p h.1
    have ih := ih h.2
    simp only [genParseParts, parseParts, h1, h2, ih]
    cases parseParts false ps with
    | error e => rfl
    | ok rs => by_cases hn : r.name = [] <;> simp [keep, hn]

/-- Full statement: gozodgen reads the same rules out of a tag as pkg/tagparser (so as FromStruct). -/
def c13_parse_full : Prop := ∀ s : Str, genParseTag s = parseTag false s

/-- **The two rule parsers agree** on the region: the splitters' region, and in every part with `=`
    neither side blank, no `'…'` parameter, and a parameter with a space is neither bracketed nor a regex. -/
theorem c13_parse_partial (s : Str) (h : parseRegion s = true) : genParseTag s = parseTag false s := by
  unfold parseRegion at h
  simp only [Bool.and_eq_true] at h
  unfold genParseTag parseTag
  by_cases h0 : s = []
  · simp [h0]
  · simp only [h0, if_false]
    rw [c13_split_partial s h.1]
    exact parts_agree _ h.2

/-- … and not in general: one witness per excluded class of parts. -/
theorem c13_parse_witnesses :
    -- `regex=a b` : the generator keeps the parameter whole, tagparser cuts it into fields
    genParseTag [0x72, 0x65, 0x67, 0x65, 0x78, 0x3D, 0x61, 0x20, 0x62] ≠ parseTag false [0x72, 0x65, 0x67, 0x65, 0x78, 0x3D, 0x61, 0x20, 0x62] ∧
    -- `default=[1, 2]` : whole vs fields
    genParseTag [0x64, 0x65, 0x66, 0x61, 0x75, 0x6C, 0x74, 0x3D, 0x5B, 0x31, 0x2C, 0x20, 0x32, 0x5D] ≠ parseTag false [0x64, 0x65, 0x66, 0x61, 0x75, 0x6C, 0x74, 0x3D, 0x5B, 0x31, 0x2C, 0x20, 0x32, 0x5D] ∧
    -- `min=` : refused (error) vs a rule without parameter
    genParseTag [0x6D, 0x69, 0x6E, 0x3D] ≠ parseTag false [0x6D, 0x69, 0x6E, 0x3D] ∧
    -- `=3` : refused vs skipped
    genParseTag [0x3D, 0x33] ≠ parseTag false [0x3D, 0x33] ∧
    -- `default='a b'` : apostrophes kept (and cut into fields) vs stripped
    genParseTag [0x64, 0x65, 0x66, 0x61, 0x75, 0x6C, 0x74, 0x3D, 0x27, 0x61, 0x20, 0x62, 0x27] ≠ parseTag false [0x64, 0x65, 0x66, 0x61, 0x75, 0x6C, 0x74, 0x3D, 0x27, 0x61, 0x20, 0x62, 0x27] := by
  decide

theorem c13_parse_full_false : ¬ c13_parse_full := fun h => c13_parse_witnesses.1 (h _)

-- required,enum=a b c,regex=^[a-z]{2,4}$,default=["x","y"],min=3
example : parseRegion [0x72, 0x65, 0x71, 0x75, 0x69, 0x72, 0x65, 0x64, 0x2C, 0x65, 0x6E, 0x75, 0x6D, 0x3D, 0x61, 0x20, 0x62, 0x20, 0x63, 0x2C, 0x72, 0x65, 0x67, 0x65, 0x78, 0x3D, 0x5E, 0x5B, 0x61, 0x2D, 0x7A, 0x5D, 0x7B, 0x32, 0x2C, 0x34, 0x7D, 0x24, 0x2C, 0x64, 0x65, 0x66, 0x61, 0x75, 0x6C, 0x74, 0x3D, 0x5B, 0x22, 0x78, 0x22, 0x2C, 0x22, 0x79, 0x22, 0x5D, 0x2C, 0x6D, 0x69, 0x6E, 0x3D, 0x33] = true := by decide +kernel
-- enum=a b,min=3
example : genParseTag [0x65, 0x6E, 0x75, 0x6D, 0x3D, 0x61, 0x20, 0x62, 0x2C, 0x6D, 0x69, 0x6E, 0x3D, 0x33] =
    .ok [⟨[0x65, 0x6E, 0x75, 0x6D], some [[0x61], [0x62]]⟩, ⟨[0x6D, 0x69, 0x6E], some [[0x33]]⟩] := by decide

/-- Inside the region the text gozodgen writes for a field is a function of the rules pkg/tagparser (so
    FromStruct) reads from the tag: the generator's own parser adds nothing and loses nothing. -/
theorem c13_emit_reads_tagparser (W : GenEmit.WriterFacts) (t : GenEmit.Ty) (sn : Str) (s : Str) (rs : List Rule)
    (h : parseRegion s = true) (hp : parseTag false s = .ok rs) :
    GenEmit.emitField W t sn s = GenEmit.emitRules W t sn rs := by
  unfold GenEmit.emitField
  rw [c13_parse_partial s h, hp]

/-- consequence for order: two tags of the region that tagparser reads as the same rule list are
    emitted identically (white space around rules and around `=` never reaches the generated code) -/
theorem c13_emit_ws_invariant (W : GenEmit.WriterFacts) (t : GenEmit.Ty) (sn : Str) (s₁ s₂ : Str)
    (h₁ : parseRegion s₁ = true) (h₂ : parseRegion s₂ = true) (hp : parseTag false s₁ = parseTag false s₂) :
    GenEmit.emitField W t sn s₁ = GenEmit.emitField W t sn s₂ := by
  unfold GenEmit.emitField
  rw [c13_parse_partial s₁ h₁, c13_parse_partial s₂ h₂, hp]

end Gozod.C13
