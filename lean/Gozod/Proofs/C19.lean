/-
  C19 — error formatters lose nothing: every issue appears once at its own path.
  Theorems about the model in Gozod/Model/Issues.lean (see notes/C19.md for the reading decisions).
-/
import Gozod.Model.Issues
import Gozod.Model.IssuesSpec
import Std.Data.String.ToNat
namespace Gozod.C19
open Gozod.Issues

/-! ## FlattenError -/

/-- the field an issue belongs to: `fmt.Sprintf("%v", issue.Path[0])` -/
def headKey (i : Issue) : Option String := i.path.head?.map Seg.render

theorem fieldTotal_addField (k m : String) (fs : List (String × List String)) :
    fieldTotal (addField k m fs) = fieldTotal fs + 1 := by
  induction fs with
  | nil => simp [addField, fieldTotal]
  | cons h r ih =>
    obtain ⟨k', ms⟩ := h
    by_cases hk : k' = k
    · simp [addField, fieldTotal, hk]; omega
    · simp [addField, fieldTotal, hk, ih]; omega

theorem fieldAt_addField (k' k m : String) (fs : List (String × List String)) :
    fieldAt k' (addField k m fs) = if k' = k then fieldAt k fs ++ [m] else fieldAt k' fs := by
  induction fs with
  | nil =>
    by_cases h : k' = k
    · simp [addField, fieldAt, h]
    · have h' : ¬ k = k' := fun e => h e.symm
      simp [addField, fieldAt, h, h']
  | cons hd r ih =>
    obtain ⟨k₀, ms⟩ := hd
    by_cases h0 : k₀ = k
    · subst h0
      by_cases h : k' = k₀
      · simp [addField, fieldAt, h]
      · have h' : ¬ k₀ = k' := fun e => h e.symm
        simp [addField, fieldAt, h, h']
    · by_cases h : k' = k
      · subst h
        simp [addField, fieldAt, h0, ih]
      · by_cases h1 : k₀ = k'
        · simp [addField, fieldAt, h, h1]
        · simp [addField, fieldAt, h0, h, h1, ih]

theorem flattenStep_count (f : Flat) (i : Issue) : (flattenStep f i).count = f.count + 1 := by
  unfold flattenStep
  split
  · simp [Flat.count]; omega
  · simp [Flat.count, fieldTotal_addField]; omega

theorem foldl_flatten_count (is : List Issue) (f : Flat) :
    (is.foldl flattenStep f).count = f.count + is.length := by
  induction is generalizing f with
  | nil => simp
  | cons i r ih => simp [List.foldl, ih, flattenStep_count]; omega

/-- **Flatten loses nothing**: formErrors plus all fieldErrors lists hold exactly one message per issue. -/
theorem c19_flatten_count (is : List Issue) : (flatten is).count = is.length := by
  have h := foldl_flatten_count is ⟨[], []⟩
  simpa [flatten, Flat.count, fieldTotal] using h

theorem foldl_flatten_form (is : List Issue) (f : Flat) :
    (is.foldl flattenStep f).form = f.form ++ (is.filter (fun i => i.path.isEmpty)).map Issue.msg := by
  induction is generalizing f with
  | nil => simp
  | cons i r ih =>
    simp only [List.foldl, ih]
    unfold flattenStep
    cases hp : i.path with
    | nil => simp [List.filter, hp]
    | cons s t => simp [List.filter, hp]

theorem foldl_flatten_field (k : String) (is : List Issue) (f : Flat) :
    fieldAt k (is.foldl flattenStep f).fields
      = fieldAt k f.fields ++ (is.filter (fun i => headKey i == some k)).map Issue.msg := by
  induction is generalizing f with
  | nil => simp
  | cons i r ih =>
    simp only [List.foldl, ih]
    unfold flattenStep
    cases hp : i.path with
    | nil => simp [List.filter, headKey, hp]
    | cons s t =>
      by_cases h : s.render = k
      · simp [List.filter, headKey, hp, fieldAt_addField, h]
      · have h' : ¬ k = s.render := fun e => h e.symm
        have hb : (s.render == k) = false := by simp [h]
        simp [List.filter, headKey, hp, fieldAt_addField, h', hb]

/-- **Flatten files every message where its path says** (and nothing else): formErrors is exactly
    the messages of the issues with an empty path, in order … -/
theorem c19_flatten_form (is : List Issue) :
    (flatten is).form = (is.filter (fun i => i.path.isEmpty)).map Issue.msg := by
  simp [flatten, foldl_flatten_form]

/-- … and `fieldErrors[k]` is exactly the messages of the issues whose first path element renders to `k`. -/
theorem c19_flatten_field (k : String) (is : List Issue) :
    fieldAt k (flatten is).fields = (is.filter (fun i => headKey i == some k)).map Issue.msg := by
  simp [flatten, foldl_flatten_field, fieldAt]

/-- membership form of the placement theorem -/
theorem c19_flatten_place (is : List Issue) (i : Issue) (hi : i ∈ is) :
    match i.path with
    | [] => i.msg ∈ (flatten is).form
    | s :: _ => i.msg ∈ fieldAt s.render (flatten is).fields := by
  cases hp : i.path with
  | nil =>
    simp only [c19_flatten_form]
    exact List.mem_map.mpr ⟨i, List.mem_filter.mpr ⟨hi, by simp [hp]⟩, rfl⟩
  | cons s t =>
    simp only [c19_flatten_field]
    exact List.mem_map.mpr ⟨i, List.mem_filter.mpr ⟨hi, by simp [headKey, hp]⟩, rfl⟩

example : (flatten [.mk .custom [.key "a", .idx 1] "m1" [] [], .mk .invalidUnion [] "m2" [] [],
    .mk .tooBig [.key "a"] "m3" [] []]) = ⟨["m2"], [("a", ["m1", "m3"])]⟩ := by decide

/-! ## TreeifyError -/

theorem Tree.count_empty : Tree.empty.count = 0 := by
  simp [Tree.empty, Tree.count, countProps, countItems]

theorem Tree.count_addErr (m : String) (t : Tree) : (t.addErr m).count = t.count + 1 := by
  cases t; simp [Tree.addErr, Tree.count]; omega

theorem countProps_updProp (k : String) (f : Tree → Tree) (hf : ∀ t, (f t).count = t.count + 1)
    (ps : List (String × Tree)) : countProps (updProp k f ps) = countProps ps + 1 := by
  induction ps with
  | nil => simp [updProp, countProps, hf, Tree.count_empty]
  | cons h r ih =>
    obtain ⟨k', t⟩ := h
    by_cases hk : k' = k
    · simp [updProp, countProps, hk, hf]; omega
    · simp [updProp, countProps, hk, ih]; omega

theorem countItems_updItem (f : Tree → Tree) (hf : ∀ t, (f t).count = t.count + 1)
    (n : Nat) (ts : List Tree) : countItems (updItem f n ts) = countItems ts + 1 := by
  induction n generalizing ts with
  | zero => cases ts <;> simp [updItem, countItems, hf, Tree.count_empty]; omega
  | succ n ih =>
    cases ts with
    | nil => simp [updItem, countItems, ih, Tree.count_empty]
    | cons t r => simp [updItem, countItems, ih]; omega

theorem Tree.count_insert (p : List Seg) (m : String) (t : Tree) :
    (t.insert p m).count = t.count + 1 := by
  induction p generalizing t with
  | nil => simp [Tree.insert, Tree.count_addErr]
  | cons s r ih =>
    cases t with
    | node e ps ts =>
      cases s with
      | key k => simp [Tree.insert, Tree.count, countProps_updProp k _ ih]; omega
      | idx n => simp [Tree.insert, Tree.count, countItems_updItem _ ih]; omega

theorem foldl_tree_count (is : List Issue) (t : Tree) :
    (is.foldl (fun t i => t.insert i.path i.msg) t).count = t.count + is.length := by
  induction is generalizing t with
  | nil => simp
  | cons i r ih => simp [List.foldl, ih, Tree.count_insert]; omega

/-- **Treeify loses nothing**: the tree holds exactly one message per issue. -/
theorem c19_tree_count (is : List Issue) : (treeify is).count = is.length := by
  simp [treeify, foldl_tree_count, Tree.count_empty]

theorem Tree.at_empty (p : List Seg) : Tree.empty.at p = [] := by
  induction p with
  | nil => simp [Tree.at, Tree.empty]
  | cons s r ih =>
    cases s with
    | key k => simpa [Tree.at, Tree.empty, propAt] using ih
    | idx n => simpa [Tree.at, Tree.empty] using ih

theorem propAt_updProp (k' k : String) (f : Tree → Tree) (ps : List (String × Tree)) :
    (propAt k' (updProp k f ps)).getD Tree.empty
      = if k' = k then f ((propAt k ps).getD Tree.empty) else (propAt k' ps).getD Tree.empty := by
  induction ps with
  | nil =>
    by_cases h : k' = k
    · simp [updProp, propAt, h]
    · have h' : ¬ k = k' := fun e => h e.symm
      simp [updProp, propAt, h, h']
  | cons hd r ih =>
    obtain ⟨k₀, t⟩ := hd
    by_cases h0 : k₀ = k
    · subst h0
      by_cases h : k' = k₀
      · simp [updProp, propAt, h]
      · have h' : ¬ k₀ = k' := fun e => h e.symm
        simp [updProp, propAt, h, h']
    · by_cases h : k' = k
      · subst h
        simp [updProp, propAt, h0, ih]
      · by_cases h1 : k₀ = k'
        · simp [updProp, propAt, h, h1]
        · simp [updProp, propAt, h0, h, h1, ih]

theorem getD_updItem (f : Tree → Tree) (n j : Nat) (ts : List Tree) :
    (updItem f n ts).getD j Tree.empty
      = if j = n then f (ts.getD n Tree.empty) else ts.getD j Tree.empty := by
  induction n generalizing j ts with
  | zero =>
    cases ts with
    | nil => cases j <;> simp [updItem]
    | cons t r => cases j <;> simp [updItem]
  | succ n ih =>
    cases ts with
    | nil =>
      cases j with
      | zero => simp [updItem]
      | succ j => have := ih j []; simp [updItem] at this ⊢; exact this
    | cons t r =>
      cases j with
      | zero => simp [updItem]
      | succ j => have := ih j r; simp [updItem] at this ⊢; exact this

theorem Tree.at_insert (q : List Seg) (m : String) (p : List Seg) (t : Tree) :
    (t.insert q m).at p = if p = q then t.at p ++ [m] else t.at p := by
  induction q generalizing p t with
  | nil =>
    cases t with
    | node e ps ts =>
      cases p with
      | nil => simp [Tree.insert, Tree.addErr, Tree.at]
      | cons s r => cases s <;> simp [Tree.insert, Tree.addErr, Tree.at]
  | cons s q' ih =>
    cases t with
    | node e ps ts =>
      cases s with
      | key k =>
        cases p with
        | nil => simp [Tree.insert, Tree.at]
        | cons s' p' =>
          cases s' with
          | key k' =>
            simp only [Tree.insert, Tree.at, propAt_updProp]
            by_cases hk : k' = k
            · subst hk; simp [ih]
            · simp [hk]
          | idx n' => simp [Tree.insert, Tree.at]
      | idx n =>
        cases p with
        | nil => simp [Tree.insert, Tree.at]
        | cons s' p' =>
          cases s' with
          | key k' => simp [Tree.insert, Tree.at]
          | idx n' =>
            simp only [Tree.insert, Tree.at, getD_updItem]
            by_cases hn : n' = n
            · subst hn; simp [ih]
            · simp [hn]

theorem foldl_tree_at (p : List Seg) (is : List Issue) (t : Tree) :
    (is.foldl (fun t i => t.insert i.path i.msg) t).at p
      = t.at p ++ (is.filter (fun i => i.path == p)).map Issue.msg := by
  induction is generalizing t with
  | nil => simp
  | cons i r ih =>
    simp only [List.foldl, ih, Tree.at_insert]
    by_cases h : p = i.path
    · subst h; simp [List.filter]
    · have h' : ¬ i.path = p := fun e => h e.symm
      have hb : (i.path == p) = false := by simp [h']
      simp [List.filter, h, hb]

/-- **Treeify files every message at the node its typed path denotes** (string key → Properties,
    int → Items), and nothing else: the node at `p` holds exactly the messages of the issues whose
    path is `p`, in order. -/
theorem c19_tree_place (p : List Seg) (is : List Issue) :
    (treeify is).at p = (is.filter (fun i => i.path == p)).map Issue.msg := by
  simp [treeify, foldl_tree_at, Tree.at_empty]

/-- in particular typed segments are not conflated: the key "0" and the index 0 are different nodes -/
example : (treeify [.mk .custom [.key "0"] "m1" [] [], .mk .custom [.idx 0] "m2" [] []]).at [.idx 0] = ["m2"] := by
  decide
example : (treeify [.mk .custom [.idx 3, .key "_errors"] "m1" [] []]).count = 1 := by decide

/-! ## FormatError -/

open Gozod.Issues.Spec (Entry leavesIssue leavesIssues leavesBranches)

mutual
/-- the number of messages FormatError carries for an issue: one, or — for a wrapper issue with
    nested issues (invalid_union with branch errors, invalid_key / invalid_element with
    sub-issues) — one per nested leaf -/
def leafCount : Issue → Nat
  | .mk code _ _ errors issues =>
    match code with
    | .invalidUnion => if anyNonEmpty errors then leafCountBranches errors else 1
    | .invalidKey => match issues with | [] => 1 | i :: r => leafCountIssues (i :: r)
    | .invalidElement => match issues with | [] => 1 | i :: r => leafCountIssues (i :: r)
    | _ => 1
def leafCountIssues : List Issue → Nat
  | [] => 0
  | i :: r => leafCount i + leafCountIssues r
def leafCountBranches : List (List Issue) → Nat
  | [] => 0
  | b :: bs => leafCountIssues b + leafCountBranches bs
end

/-- filing a list of (path, message) entries one after the other -/
def fileAll (es : List Entry) (t : Fmt) : Fmt :=
  es.foldl (fun t e => Fmt.fileAt (e.1.map Seg.render) e.2 t) t

theorem fileAll_append (a b : List Entry) (t : Fmt) : fileAll (a ++ b) t = fileAll b (fileAll a t) := by
  simp [fileAll, List.foldl_append]

theorem leavesIssue_ne_nil (pre : List Seg) (i : Issue) : leavesIssue pre i ≠ [] := by
  cases i with
  | mk code path msg errors issues =>
    cases code <;> simp [leavesIssue] <;> split <;> simp_all

theorem leavesIssues_cons_ne_nil (pre : List Seg) (i : Issue) (r : List Issue) :
    leavesIssues pre (i :: r) ≠ [] := by
  simp [leavesIssues, leavesIssue_ne_nil]

theorem leavesBranches_isEmpty (pre : List Seg) (bs : List (List Issue)) :
    (leavesBranches pre bs).isEmpty = !anyNonEmpty bs := by
  induction bs with
  | nil => simp [leavesBranches, anyNonEmpty]
  | cons b r ih =>
    cases b with
    | nil => simpa [leavesBranches, leavesIssues, anyNonEmpty] using ih
    | cons i is =>
      have := leavesIssues_cons_ne_nil pre i is
      simp [leavesBranches, anyNonEmpty, this]

mutual
theorem fmtIssue_eq : ∀ (i : Issue) (pre : List Seg) (t : Fmt),
    fmtIssue pre i t = fileAll (leavesIssue pre i) t
  | .mk code path msg errors issues, pre, t => by
    cases code
    case invalidUnion =>
      have hb := leavesBranches_isEmpty (pre ++ path) errors
      cases hne : anyNonEmpty errors
      · simp [hne] at hb
        simp [fmtIssue, leavesIssue, hne, hb, fileAll]
      · simp [hne] at hb
        simp [fmtIssue, leavesIssue, hne, hb, fmtBranches_eq errors (pre ++ path) t]
    case invalidKey =>
      cases issues with
      | nil => simp [fmtIssue, leavesIssue, leavesIssues, fileAll]
      | cons i r =>
        have := leavesIssues_cons_ne_nil (pre ++ path) i r
        simp [fmtIssue, leavesIssue, this, fmtIssues_eq (i :: r) (pre ++ path) t]
    case invalidElement =>
      cases issues with
      | nil => simp [fmtIssue, leavesIssue, leavesIssues, fileAll]
      | cons i r =>
        have := leavesIssues_cons_ne_nil (pre ++ path) i r
        simp [fmtIssue, leavesIssue, this, fmtIssues_eq (i :: r) (pre ++ path) t]
    all_goals simp [fmtIssue, leavesIssue, fileAll]
theorem fmtIssues_eq : ∀ (is : List Issue) (pre : List Seg) (t : Fmt),
    fmtIssues pre is t = fileAll (leavesIssues pre is) t
  | [], pre, t => by simp [fmtIssues, leavesIssues, fileAll]
  | i :: r, pre, t => by
    simp [fmtIssues, leavesIssues, fileAll_append, fmtIssue_eq i pre t, fmtIssues_eq r pre]
theorem fmtBranches_eq : ∀ (bs : List (List Issue)) (pre : List Seg) (t : Fmt),
    fmtBranches pre bs t = fileAll (leavesBranches pre bs) t
  | [], pre, t => by simp [fmtBranches, leavesBranches, fileAll]
  | b :: r, pre, t => by
    simp [fmtBranches, leavesBranches, fileAll_append, fmtIssues_eq b pre t, fmtBranches_eq r pre]
end

/-- **FormatError is "file every leaf"**: the report is obtained by filing, in order, one message
    per leaf issue at prefix ++ path.  (`leavesIssues` is the specification's notion of the leaves
    of an error, IssuesSpec.lean.) -/
theorem formatError_eq (is : List Issue) : formatError is = fileAll (leavesIssues [] is) Fmt.empty :=
  fmtIssues_eq is [] Fmt.empty

mutual
theorem leavesIssue_length : ∀ (i : Issue) (pre : List Seg), (leavesIssue pre i).length = leafCount i
  | .mk code path msg errors issues, pre => by
    cases code
    case invalidUnion =>
      have hb := leavesBranches_isEmpty (pre ++ path) errors
      cases hne : anyNonEmpty errors
      · simp [hne] at hb; simp [leavesIssue, leafCount, hne, hb]
      · simp [hne] at hb; simp [leavesIssue, leafCount, hne, hb, leavesBranches_length errors (pre ++ path)]
    case invalidKey =>
      cases issues with
      | nil => simp [leavesIssue, leavesIssues, leafCount]
      | cons i r =>
        have := leavesIssues_cons_ne_nil (pre ++ path) i r
        simp [leavesIssue, leafCount, this, leavesIssues_length (i :: r) (pre ++ path)]
    case invalidElement =>
      cases issues with
      | nil => simp [leavesIssue, leavesIssues, leafCount]
      | cons i r =>
        have := leavesIssues_cons_ne_nil (pre ++ path) i r
        simp [leavesIssue, leafCount, this, leavesIssues_length (i :: r) (pre ++ path)]
    all_goals simp [leavesIssue, leafCount]
theorem leavesIssues_length : ∀ (is : List Issue) (pre : List Seg), (leavesIssues pre is).length = leafCountIssues is
  | [], pre => by simp [leavesIssues, leafCountIssues]
  | i :: r, pre => by simp [leavesIssues, leafCountIssues, leavesIssue_length i pre, leavesIssues_length r pre]
theorem leavesBranches_length : ∀ (bs : List (List Issue)) (pre : List Seg), (leavesBranches pre bs).length = leafCountBranches bs
  | [], pre => by simp [leavesBranches, leafCountBranches]
  | b :: r, pre => by simp [leavesBranches, leafCountBranches, leavesIssues_length b pre, leavesBranches_length r pre]
end

/-! ### what filing one message does -/

theorem Fmt.count_empty : Fmt.empty.count = 0 := by simp [Fmt.empty, Fmt.count, countKids]

theorem Fmt.count_addErr (m : String) (t : Fmt) : (t.addErr m).count = t.count + 1 := by
  cases t; simp [Fmt.addErr, Fmt.count]; omega

theorem countKids_updKid (k : String) (f : Fmt → Fmt) (hf : ∀ t, (f t).count = t.count + 1)
    (ks : List (String × Fmt)) : countKids (updKid k f ks) = countKids ks + 1 := by
  induction ks with
  | nil => simp [updKid, countKids, hf, Fmt.count_empty]
  | cons h r ih =>
    obtain ⟨k', t⟩ := h
    by_cases hk : k' = k
    · simp [updKid, countKids, hk, hf]; omega
    · simp [updKid, countKids, hk, ih]; omega

/-- a path without the reserved key gets its message filed: the report grows by exactly one -/
theorem Fmt.count_fileAt (ks : List String) (hk : errorsKey ∉ ks) (m : String) (t : Fmt) :
    (t.fileAt ks m).count = t.count + 1 := by
  induction ks generalizing t with
  | nil => simp [Fmt.fileAt, Fmt.count_addErr]
  | cons k r ih =>
    cases t with
    | node e kids =>
      have hk1 : ¬ k = errorsKey := fun h => hk (by simp [h])
      have hr : errorsKey ∉ r := fun h => hk (by simp [h])
      simp [Fmt.fileAt, hk1, Fmt.count, countKids_updKid k _ (ih hr)]; omega

/-- whatever the path — reserved segments included — the message is filed: the report grows by exactly one -/
theorem Fmt.count_fileAt_all (ks : List String) (m : String) (t : Fmt) :
    (t.fileAt ks m).count = t.count + 1 := by
  induction ks generalizing t with
  | nil => simp [Fmt.fileAt, Fmt.count_addErr]
  | cons k r ih =>
    cases t with
    | node e kids =>
      by_cases hk : k = errorsKey
      · simp [Fmt.fileAt, hk, ih]
      · simp [Fmt.fileAt, hk, Fmt.count, countKids_updKid k _ ih]; omega

theorem Fmt.at_empty (p : List String) : Fmt.empty.at p = [] := by
  induction p with
  | nil => simp [Fmt.at, Fmt.empty]
  | cons s r ih => simpa [Fmt.at, Fmt.empty, kidAt] using ih

theorem kidAt_updKid (k' k : String) (f : Fmt → Fmt) (ps : List (String × Fmt)) :
    (kidAt k' (updKid k f ps)).getD Fmt.empty
      = if k' = k then f ((kidAt k ps).getD Fmt.empty) else (kidAt k' ps).getD Fmt.empty := by
  induction ps with
  | nil =>
    by_cases h : k' = k
    · simp [updKid, kidAt, h]
    · have h' : ¬ k = k' := fun e => h e.symm
      simp [updKid, kidAt, h, h']
  | cons hd r ih =>
    obtain ⟨k₀, t⟩ := hd
    by_cases h0 : k₀ = k
    · subst h0
      by_cases h : k' = k₀
      · simp [updKid, kidAt, h]
      · have h' : ¬ k₀ = k' := fun e => h e.symm
        simp [updKid, kidAt, h, h']
    · by_cases h : k' = k
      · subst h
        simp [updKid, kidAt, h0, ih]
      · by_cases h1 : k₀ = k'
        · simp [updKid, kidAt, h, h1]
        · simp [updKid, kidAt, h0, h, h1, ih]

/-- … and it is filed at the node the chain of keys denotes, leaving every other node as it was -/
theorem Fmt.at_fileAt (q : List String) (hq : errorsKey ∉ q) (m : String) (p : List String) (t : Fmt) :
    (t.fileAt q m).at p = if p = q then t.at p ++ [m] else t.at p := by
  induction q generalizing p t with
  | nil =>
    cases t with
    | node e kids =>
      cases p with
      | nil => simp [Fmt.fileAt, Fmt.addErr, Fmt.at]
      | cons s r => simp [Fmt.fileAt, Fmt.addErr, Fmt.at]
  | cons k q' ih =>
    cases t with
    | node e kids =>
      have hk1 : ¬ k = errorsKey := fun h => hq (by simp [h])
      have hr : errorsKey ∉ q' := fun h => hq (by simp [h])
      cases p with
      | nil => simp [Fmt.fileAt, hk1, Fmt.at]
      | cons k' p' =>
        simp only [Fmt.fileAt, hk1, if_false, Fmt.at, kidAt_updKid]
        by_cases hk : k' = k
        · subst hk; simp [ih hr]
        · simp [hk]

/-- for ANY path: the message is filed at the node the path denotes once its reserved segments are
    dropped, and every other node is left as it was -/
theorem Fmt.at_fileAt_strip (q : List String) (m : String) (p : List String) (hp : errorsKey ∉ p) (t : Fmt) :
    (t.fileAt q m).at p = if p = stripReserved q then t.at p ++ [m] else t.at p := by
  induction q generalizing p t with
  | nil =>
    cases t with
    | node e kids =>
      cases p with
      | nil => simp [Fmt.fileAt, Fmt.addErr, Fmt.at, stripReserved]
      | cons s r => simp [Fmt.fileAt, Fmt.addErr, Fmt.at, stripReserved]
  | cons k q' ih =>
    cases t with
    | node e kids =>
      by_cases hk : k = errorsKey
      · simp only [Fmt.fileAt, hk, if_true, stripReserved]
        exact ih p hp _
      · cases p with
        | nil => simp [Fmt.fileAt, hk, Fmt.at, stripReserved]
        | cons k' p' =>
          have hp' : errorsKey ∉ p' := fun h => hp (by simp [h])
          simp only [Fmt.fileAt, hk, if_false, Fmt.at, kidAt_updKid, stripReserved]
          by_cases hkk : k' = k
          · subst hkk; simp [ih p' hp']
          · simp [hkk]

/-! ### the reserved key -/

/-- no effective path of the error (prefix ++ path of a leaf) has a segment that renders to
    `"_errors"` — the region in which FormatError is proved to lose nothing -/
def reservedFree (is : List Issue) : Bool :=
  (leavesIssues [] is).all (fun e => !(e.1.map Seg.render).contains errorsKey)

theorem fileAll_count (es : List Entry) (h : ∀ e ∈ es, errorsKey ∉ e.1.map Seg.render) (t : Fmt) :
    (fileAll es t).count = t.count + es.length := by
  induction es generalizing t with
  | nil => simp [fileAll]
  | cons e r ih =>
    have h1 := h e (by simp)
    have h2 : ∀ e ∈ r, errorsKey ∉ e.1.map Seg.render := fun e he => h e (by simp [he])
    have := ih h2 (Fmt.fileAt (e.1.map Seg.render) e.2 t)
    simp [fileAll] at this ⊢
    rw [this, Fmt.count_fileAt _ (by simpa using h1)]; omega

theorem fileAll_at (es : List Entry) (h : ∀ e ∈ es, errorsKey ∉ e.1.map Seg.render) (p : List String) (t : Fmt) :
    (fileAll es t).at p = t.at p ++ (es.filter (fun e => e.1.map Seg.render == p)).map (·.2) := by
  induction es generalizing t with
  | nil => simp [fileAll]
  | cons e r ih =>
    have h1 := h e (by simp)
    have h2 : ∀ e ∈ r, errorsKey ∉ e.1.map Seg.render := fun e he => h e (by simp [he])
    have := ih h2 (Fmt.fileAt (e.1.map Seg.render) e.2 t)
    simp only [fileAll, List.foldl] at this ⊢
    rw [this, Fmt.at_fileAt _ (by simpa using h1)]
    by_cases hp : p = e.1.map Seg.render
    · subst hp; simp [List.filter]
    · have hp' : ¬ e.1.map Seg.render = p := fun x => hp x.symm
      have hb : (e.1.map Seg.render == p) = false := by simp [hp']
      simp [List.filter, hp, hb]

theorem fileAll_count_all (es : List Entry) (t : Fmt) : (fileAll es t).count = t.count + es.length := by
  induction es generalizing t with
  | nil => simp [fileAll]
  | cons e r ih =>
    have := ih (Fmt.fileAt (e.1.map Seg.render) e.2 t)
    simp [fileAll] at this ⊢
    rw [this, Fmt.count_fileAt_all]; omega

theorem fileAll_at_strip (es : List Entry) (p : List String) (hp : errorsKey ∉ p) (t : Fmt) :
    (fileAll es t).at p
      = t.at p ++ (es.filter (fun e => stripReserved (e.1.map Seg.render) == p)).map (·.2) := by
  induction es generalizing t with
  | nil => simp [fileAll]
  | cons e r ih =>
    have := ih (Fmt.fileAt (e.1.map Seg.render) e.2 t)
    simp only [fileAll, List.foldl] at this ⊢
    rw [this, Fmt.at_fileAt_strip _ _ _ hp]
    by_cases hq : p = stripReserved (e.1.map Seg.render)
    · subst hq; simp [List.filter]
    · have hq' : ¬ stripReserved (e.1.map Seg.render) = p := fun x => hq x.symm
      have hb : (stripReserved (e.1.map Seg.render) == p) = false := by simp [hq']
      simp [List.filter, hq, hb]

theorem reservedFree_iff (is : List Issue) :
    reservedFree is = true ↔ ∀ e ∈ leavesIssues [] is, errorsKey ∉ e.1.map Seg.render := by
  simp [reservedFree, List.all_eq_true]

/-- **FormatError loses nothing — FULL statement**: for every error, whatever its paths (reserved
    segments included), the report carries exactly one message per issue, or per nested leaf issue
    for wrapper issues. -/
theorem c19_format_count (is : List Issue) : (formatError is).count = leafCountIssues is := by
  rw [formatError_eq, fileAll_count_all, Fmt.count_empty, leavesIssues_length]; omega

/-- legacy witness: before cef00ff a reserved last segment dropped the only message of the error -/
theorem legacy_fileAt_drops_reserved :
    (Fmt.fileAtLegacy ["a", "_errors"] "m1" Fmt.empty).count = 0 ∧
    (Fmt.fileAt ["a", "_errors"] "m1" Fmt.empty).at ["a"] = ["m1"] := by decide

/-- **FormatError files every message at the node its rendered path denotes**, and nothing else
    (outside the reserved-key region): the node reached by the chain of keys `p` holds exactly the
    messages of the leaves whose prefix ++ path renders to `p`, in order. -/
theorem c19_format_place_partial (is : List Issue) (h : reservedFree is = true) (p : List String) :
    (formatError is).at p
      = ((leavesIssues [] is).filter (fun e => e.1.map Seg.render == p)).map (·.2) := by
  rw [formatError_eq, fileAll_at _ ((reservedFree_iff is).mp h), Fmt.at_empty]; simp

/-- **FormatError files every message at the node its rendered path denotes once reserved segments
    are dropped** — for every error: the node reached by a chain of keys `p` holds exactly the
    messages of the leaves whose rendered prefix ++ path, reserved segments skipped, is `p`. -/
theorem c19_format_place_strip (is : List Issue) (p : List String) (hp : errorsKey ∉ p) :
    (formatError is).at p
      = ((leavesIssues [] is).filter (fun e => stripReserved (e.1.map Seg.render) == p)).map (·.2) := by
  rw [formatError_eq, fileAll_at_strip _ _ hp, Fmt.at_empty]; simp

/-- witness: a reserved segment in the middle is skipped, so the message is filed one level up -/
theorem c19_format_place_full_false :
    (formatError [.mk .custom [.key "_errors", .key "z"] "m1" [] []]).at ["z"] = ["m1"] ∧
    (formatError [.mk .custom [.key "_errors", .key "z"] "m1" [] []]).at ["_errors", "z"] = [] := by
  decide

example : reservedFree [.mk .invalidUnion [.key "u"] "m0" [[.mk .tooBig [.idx 1] "m1" [] []], []] [],
    .mk .invalidElement [.idx 0] "m2" [] []] = true := by decide
example : (formatError [.mk .invalidUnion [.key "u"] "m0" [[.mk .tooBig [.idx 1] "m1" [] []], []] [],
    .mk .invalidElement [.idx 0] "m2" [] []]).at ["u", "1"] = ["m1"] := by decide

/-! ### the code before the patch (pending/C19-format-wrappers.diff) -/

/-- a real `Union([String(),Int()]).Parse(true)` error: one invalid_union issue, no branch errors -/
theorem legacy_format_drops_union : (formatLegacy [.mk .invalidUnion [] "m1" [] []]).count = 0 := by decide
/-- a real `Array(String()).Parse([]any{1})`-shaped issue without sub-issues -/
theorem legacy_format_drops_element : (formatLegacy [.mk .invalidElement [.idx 0] "m1" [] []]).count = 0 := by decide
theorem legacy_format_drops_unknown_code : (formatLegacy [.mk (.other "my_code") [.key "a"] "m1" [] []]).count = 0 := by decide
/-- the sub-issue of element 1 was filed at the root instead of under "1" -/
theorem legacy_format_misfiles_nested :
    (formatLegacy [.mk .invalidElement [.idx 1] "m0" [] [.mk .invalidType [] "m1" [] []]]).at [] = ["m1"] ∧
    (formatError [.mk .invalidElement [.idx 1] "m0" [] [.mk .invalidType [] "m1" [] []]]).at ["1"] = ["m1"] := by decide

/-! ## PrettifyError -/

/-- **Prettify loses nothing**: the report is the "; "-join of exactly one segment per issue … -/
theorem c19_prettify_count (is : List Issue) (h : is ≠ []) :
    prettify is = "; ".intercalate (is.map prettySeg) ∧ (is.map prettySeg).length = is.length := by
  cases is with
  | nil => exact absurd rfl h
  | cons i r => simp [prettify, prettySegs]

/-- … and the segment of an issue is its message, preceded by its path in dot notation when the
    path is not empty. -/
theorem c19_prettify_place (i : Issue) :
    prettySeg i = if i.path = [] then i.msg else dotPathEsc i.path ++ ": " ++ i.msg := by
  unfold prettySeg
  cases h : i.path <;> simp

/-- the full statement about the position, for ToDotPath BEFORE c7ce73a (`dotPath`): the dot
    notation identifies the path.  For the code as it stands (`dotPathEsc`) the full statement is
    the theorem `c19_dotpath_esc_injective` of Proofs/C19Dot.lean. -/
def c19_dotpath_injective_full : Prop := ∀ p q : List Seg, dotPath p = dotPath q → p = q

/-- legacy witness (code before c7ce73a): it did not — a key was copied between `["` and `"]` without escaping, and an empty
    first key renders to nothing -/
theorem c19_dotpath_injective_full_false : ¬ c19_dotpath_injective_full := by
  intro h
  have := h [.key "-a\"][\"-b"] [.key "-a", .key "-b"] (by decide)
  revert this; decide

theorem dotpath_empty_key : dotPath [.key ""] = dotPath [] := by decide

/-- the code before pending/C19-dotpath-first-segment.diff wrote segment 0 verbatim:
    `["a.b"]` and `["a","b"]` were the same text; now they differ -/
theorem legacy_dotpath_conflates :
    dotPathLegacy [.key "a.b"] = dotPathLegacy [.key "a", .key "b"] ∧
    dotPath [.key "a.b"] ≠ dotPath [.key "a", .key "b"] := by decide

example : prettify [.mk .tooBig [.key "users", .idx 0, .key "first-name"] "m1" [] [], .mk .custom [] "m2" [] []]
    = "users[0][\"first-name\"]: m1; m2" := by decide

/-! ### ToDotPath identifies the path — on paths of plain segments -/

/-- a key that ToDotPath writes verbatim: a non-empty identifier that does not start with a digit -/
def plainKey (s : String) : Bool := !s.toList.isEmpty && !needsBracket s

def plainSeg : Seg → Bool
  | .key s => plainKey s
  | .idx _ => true

/-- the excluded region of the injectivity theorem is its complement: some key is empty, starts
    with a digit, or has a character outside [A-Za-z0-9_] (it is then copied between `["` and `"]`
    without escaping) -/
def plainPath (p : List Seg) : Bool := p.all plainSeg

/-- "empty, or starts with a segment delimiter" -/
def delimited : List Char → Prop
  | [] => True
  | c :: _ => c = '.' ∨ c = '['

theorem ident_ne_delim {c : Char} (h : isIdentChar c = true) : c ≠ '.' ∧ c ≠ '[' := by
  constructor <;> (intro e; subst e; revert h; decide)

theorem digit_ne_close {c : Char} (h : c.isDigit = true) : c ≠ ']' := by
  intro e; subst e; revert h; decide

/-- an identifier followed by a delimiter (or the end) can be read back in one way only -/
theorem ident_split : ∀ (a b u v : List Char), (∀ c ∈ a, isIdentChar c = true) → (∀ c ∈ b, isIdentChar c = true) →
    delimited u → delimited v → a ++ u = b ++ v → a = b ∧ u = v
  | [], [], u, v, _, _, _, _, h => ⟨rfl, by simpa using h⟩
  | [], c :: b, u, v, _, hb, hu, _, h => by
    have hc := ident_ne_delim (hb c (by simp))
    cases u with
    | nil => simp at h
    | cons d u' =>
      simp at h
      obtain ⟨e, _⟩ := h
      subst e
      cases hu with
      | inl x => exact absurd x hc.1
      | inr x => exact absurd x hc.2
  | c :: a, [], u, v, ha, _, _, hv, h => by
    have hc := ident_ne_delim (ha c (by simp))
    cases v with
    | nil => simp at h
    | cons d v' =>
      simp at h
      obtain ⟨e, _⟩ := h
      subst e
      cases hv with
      | inl x => exact absurd x hc.1
      | inr x => exact absurd x hc.2
  | c :: a, d :: b, u, v, ha, hb, hu, hv, h => by
    simp at h
    obtain ⟨e, h'⟩ := h
    subst e
    have := ident_split a b u v (fun x hx => ha x (by simp [hx])) (fun x hx => hb x (by simp [hx])) hu hv h'
    exact ⟨by rw [this.1], this.2⟩

/-- digits followed by `]` can be read back in one way only -/
theorem digits_split : ∀ (a b u v : List Char), (∀ c ∈ a, c.isDigit = true) → (∀ c ∈ b, c.isDigit = true) →
    a ++ ']' :: u = b ++ ']' :: v → a = b ∧ u = v
  | [], [], u, v, _, _, h => ⟨rfl, by simpa using h⟩
  | [], c :: b, u, v, _, hb, h => by
    simp at h
    exact absurd h.1.symm (digit_ne_close (hb c (by simp)))
  | c :: a, [], u, v, ha, _, h => by
    simp at h
    exact absurd h.1 (digit_ne_close (ha c (by simp)))
  | c :: a, d :: b, u, v, ha, hb, h => by
    simp at h
    obtain ⟨e, h'⟩ := h
    subst e
    have := digits_split a b u v (fun x hx => ha x (by simp [hx])) (fun x hx => hb x (by simp [hx])) h'
    exact ⟨by rw [this.1], this.2⟩

theorem repr_digits (n : Nat) : ∀ c ∈ (toString n).toList, c.isDigit = true := by
  intro c hc
  rw [Nat.toString_eq_repr, Nat.toList_repr] at hc
  exact Nat.isDigit_of_mem_toDigits (by decide) (by decide) hc

theorem repr_toList_inj {n m : Nat} (h : (toString n).toList = (toString m).toList) : n = m := by
  have := String.toList_injective h
  simp only [Nat.toString_eq_repr] at this
  exact Nat.repr_injective this

/-- what a plain key looks like -/
theorem plainKey_chars {s : String} (h : plainKey s = true) :
    s.toList ≠ [] ∧ (∀ c ∈ s.toList, isIdentChar c = true) ∧ needsBracket s = false := by
  unfold plainKey at h
  simp only [Bool.and_eq_true, Bool.not_eq_true'] at h
  obtain ⟨h1, h2⟩ := h
  refine ⟨by intro e; simp [e] at h1, ?_, h2⟩
  unfold needsBracket at h2
  cases hs : s.toList with
  | nil => simp
  | cons c cs =>
    rw [hs] at h2
    simp only [needsBracketChars, Bool.or_eq_false_iff] at h2
    intro x hx
    have := h2.2
    simp only [List.any_eq_false] at this
    have := this x hx
    simpa using this

theorem segDot_delimited (s : Seg) (hs : plainSeg s = true) (u : List Char) : delimited (segDot false s ++ u) := by
  cases s with
  | idx n => simp [segDot, delimited]
  | key k =>
    have := (plainKey_chars hs).2.2
    simp [segDot, this, delimited]

theorem dotRest_delimited (p : List Seg) (hp : plainPath p = true) : delimited (dotRest p) := by
  cases p with
  | nil => simp [dotRest, delimited]
  | cons s r =>
    simp only [plainPath, List.all_cons, Bool.and_eq_true] at hp
    exact segDot_delimited s hp.1 _

/-- one segment can be read back in one way only -/
theorem segDot_split (first : Bool) (s t : Seg) (hs : plainSeg s = true) (ht : plainSeg t = true)
    (u v : List Char) (hu : delimited u) (hv : delimited v)
    (h : segDot first s ++ u = segDot first t ++ v) : s = t ∧ u = v := by
  cases s with
  | idx n =>
    cases t with
    | idx m =>
      simp only [segDot, List.cons_append, List.append_assoc, List.cons.injEq, true_and] at h
      have := digits_split _ _ _ _ (repr_digits n) (repr_digits m) (by simpa using h)
      exact ⟨by rw [repr_toList_inj this.1], this.2⟩
    | key k =>
      obtain ⟨hne, hid, hnb⟩ := plainKey_chars ht
      cases first
      · simp [segDot, hnb] at h
      · simp only [segDot, hnb] at h
        cases hk : k.toList with
        | nil => exact absurd hk hne
        | cons c cs =>
          rw [hk] at h
          simp at h
          have := (ident_ne_delim (hid c (by simp [hk]))).2
          exact absurd h.1.symm this
  | key k =>
    obtain ⟨hne, hid, hnb⟩ := plainKey_chars hs
    cases t with
    | idx m =>
      cases first
      · simp [segDot, hnb] at h
      · simp only [segDot, hnb] at h
        cases hk : k.toList with
        | nil => exact absurd hk hne
        | cons c cs =>
          rw [hk] at h
          simp at h
          have := (ident_ne_delim (hid c (by simp [hk]))).2
          exact absurd h.1 this
    | key k' =>
      obtain ⟨hne', hid', hnb'⟩ := plainKey_chars ht
      have key : k.toList ++ u = k'.toList ++ v := by
        cases first <;> simpa [segDot, hnb, hnb'] using h
      have := ident_split _ _ _ _ hid hid' hu hv key
      exact ⟨by rw [String.toList_injective this.1], this.2⟩

theorem dotRest_injective : ∀ (p q : List Seg), plainPath p = true → plainPath q = true →
    dotRest p = dotRest q → p = q
  | [], [], _, _, _ => rfl
  | [], t :: q, _, hq, h => by
    simp only [plainPath, List.all_cons, Bool.and_eq_true] at hq
    cases t with
    | idx m => simp [dotRest, segDot] at h
    | key k => have := (plainKey_chars hq.1).2.2; simp [dotRest, segDot, this] at h
  | s :: p, [], hp, _, h => by
    simp only [plainPath, List.all_cons, Bool.and_eq_true] at hp
    cases s with
    | idx m => simp [dotRest, segDot] at h
    | key k => have := (plainKey_chars hp.1).2.2; simp [dotRest, segDot, this] at h
  | s :: p, t :: q, hp, hq, h => by
    simp only [plainPath, List.all_cons, Bool.and_eq_true] at hp hq
    have := segDot_split false s t hp.1 hq.1 _ _ (dotRest_delimited p hp.2) (dotRest_delimited q hq.2) h
    rw [this.1, dotRest_injective p q hp.2 hq.2 this.2]

theorem segDot_first_ne_nil (s : Seg) (hs : plainSeg s = true) (u : List Char) : segDot true s ++ u ≠ [] := by
  cases s with
  | idx n => simp [segDot]
  | key k =>
    obtain ⟨hne, _, hnb⟩ := plainKey_chars hs
    simp [segDot, hnb, hne]

/-- the full statement is `c19_dotpath_injective_full` (false, see the witness); this is the
    region where it holds: **on plain paths the dot notation identifies the path**, so
    PrettifyError's "path: message" segments name the position unambiguously there. -/
theorem c19_dotpath_injective_partial (p q : List Seg) (hp : plainPath p = true) (hq : plainPath q = true)
    (h : dotPath p = dotPath q) : p = q := by
  have h := String.ofList_injective h
  cases p with
  | nil =>
    cases q with
    | nil => rfl
    | cons t q =>
      simp only [plainPath, List.all_cons, Bool.and_eq_true] at hq
      exact absurd h.symm (segDot_first_ne_nil t hq.1 _)
  | cons s p =>
    cases q with
    | nil =>
      simp only [plainPath, List.all_cons, Bool.and_eq_true] at hp
      exact absurd h (segDot_first_ne_nil s hp.1 _)
    | cons t q =>
      simp only [plainPath, List.all_cons, Bool.and_eq_true] at hp hq
      have := segDot_split true s t hp.1 hq.1 _ _ (dotRest_delimited p hp.2) (dotRest_delimited q hq.2) h
      rw [this.1, dotRest_injective p q hp.2 hq.2 this.2]

example : plainPath [.key "users", .idx 12, .key "first_name"] = true := by decide
example : plainPath [.key "a.b"] = false := by decide

/-! ## A non-empty error never formats to an empty report -/

theorem leafCountIssues_pos (i : Issue) (r : List Issue) : 0 < leafCountIssues (i :: r) := by
  have h := leavesIssues_cons_ne_nil [] i r
  rw [← leavesIssues_length (i :: r) []]
  exact List.length_pos_iff.mpr h

/-! ### the "; "-join as a list of characters (used for PrettifyError here and in Proofs/C19Go.lean, C19Pretty.lean) -/

theorem intercalate_cons2 (sep : List Char) (a b : List Char) (r : List (List Char)) :
    sep.intercalate (a :: b :: r) = a ++ sep ++ sep.intercalate (b :: r) := by
  simp [List.intercalate, List.intersperse]

/-- a join with a non-empty separator is empty only for no segment, or one empty segment -/
theorem intercalate_eq_nil_iff (sep : List Char) (hs : sep ≠ []) (xs : List (List Char)) :
    sep.intercalate xs = [] ↔ xs = [] ∨ xs = [[]] := by
  match xs with
  | [] => simp [List.intercalate]
  | [a] => simp [List.intercalate]
  | a :: b :: r => rw [intercalate_cons2]; simp [hs]

theorem semi_intercalate_eq_empty_iff (xs : List String) :
    "; ".intercalate xs = "" ↔ xs = [] ∨ xs = [""] := by
  rw [← String.toList_inj, String.toList_intercalate]
  have h := intercalate_eq_nil_iff "; ".toList (by decide) (xs.map String.toList)
  simp only [String.toList_empty] at *
  rw [h]
  constructor
  · rintro (h | h)
    · exact Or.inl (List.map_eq_nil_iff.mp h)
    · right
      cases xs with
      | nil => simp at h
      | cons x r =>
        simp only [List.map_cons, List.cons.injEq, List.map_eq_nil_iff] at h
        have : x = "" := String.toList_inj.mp (by simpa using h.1)
        rw [this, h.2]
  · rintro (h | h) <;> subst h <;> simp

/-- **the exact region in which PrettifyError's report is the empty string**: one issue, filed at the
    root, whose message (what the mapper / formatter returned for it) is empty.  Never for the
    reports of the library's own formatter (its messages are non-empty: Proofs/C04Creators.lean
    `default_message_nonempty`, and the run asks for every report of the default mapper to be non-empty). -/
theorem c19_prettify_empty_iff (is : List Issue) :
    prettify is = "" ↔ ∃ i, is = [i] ∧ i.path = [] ∧ i.msg = "" := by
  unfold prettify
  rw [semi_intercalate_eq_empty_iff]
  cases is with
  | nil => simp [prettySegs]
  | cons i r =>
    have hseg : prettySeg i = "" ↔ i.path = [] ∧ i.msg = "" := by
      unfold prettySeg
      cases hp : i.path with
      | nil => simp
      | cons s p =>
        simp only [reduceCtorEq, false_and, iff_false]
        intro h
        have := congrArg String.toList h
        simp at this
    cases r with
    | nil => simp [prettySegs, hseg]
    | cons j r => simp [prettySegs]

/-- **c19_nonempty — a non-empty error never formats to an empty report**: Flatten, Treeify and
    FormatError carry at least one message, for every error; PrettifyError's report is not the empty
    string when no message is (HYPOTHESIS `msg ≠ ""`: `Issue.msg` stands for mapper(issue), and a
    user-supplied formatter may return ""; the full statement without it is false:
    `c19_prettify_nonempty_full_false`; the exact region is `c19_prettify_empty_iff`). -/
theorem c19_nonempty (is : List Issue) (h : is ≠ []) :
    0 < (flatten is).count ∧ 0 < (treeify is).count ∧ ((∀ i ∈ is, i.msg ≠ "") → prettify is ≠ "") ∧
    0 < (formatError is).count := by
  cases is with
  | nil => exact absurd rfl h
  | cons i r =>
    refine ⟨by simp [c19_flatten_count], by simp [c19_tree_count], ?_, ?_⟩
    · intro hm he
      obtain ⟨j, hj, _, hmsg⟩ := (c19_prettify_empty_iff _).mp he
      exact hm j (by rw [hj]; simp) hmsg
    · rw [c19_format_count]; exact leafCountIssues_pos i r

example : (∀ i ∈ [Issue.mk .tooBig [.key "a"] "m1" [] [], .mk .custom [] "m2" [] []], i.msg ≠ "") := by
  intro i hi; simp at hi; rcases hi with rfl | rfl <;> decide

/-- the full statement for PrettifyError, without the hypothesis on the messages -/
def c19_prettify_nonempty_full : Prop := ∀ is : List Issue, is ≠ [] → prettify is ≠ ""

/-- witness: `PrettifyErrorWithFormatter(&ZodError{Issues: {{Code: custom}}}, f)` with `f` returning ""
    is the empty string (re-derived on the real code by the run: entry-point variant `blank-formatter`) -/
theorem c19_prettify_nonempty_full_false : ¬ c19_prettify_nonempty_full := by
  intro h
  exact h [.mk .custom [] "" [] []] (by simp) (by decide)

/-- before the patch the error of a real failed `Union([String(),Int()]).Parse(true)` formatted to `{"_errors":[]}` -/
theorem legacy_nonempty_false :
    ∃ is : List Issue, is ≠ [] ∧ reservedFree is = true ∧ (formatLegacy is).count = 0 :=
  ⟨[.mk .invalidUnion [] "m1" [] []], by simp, by decide, by decide⟩

end Gozod.C19
