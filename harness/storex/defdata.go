package storex

// Definition-held reference data (C12, round 4).
//
// Besides core.ZodTypeInternals (Checks, Bag, Values) a schema's DEFINITION holds reference-typed data: the member
// list of a literal (ZodLiteralDef.Values — and with T = any every member may itself be a slice or a map), the entry
// map of an enum, the shape map of an object, the option list of a union, the item list of a tuple/array.  One Def
// pointer is shared by a schema and everything derived from it, and accessor methods (Values(), Options(), Shape(),
// Items(), Enum(), …) hand that data to the JSON-Schema converter — some as a copy, some by reference.
//
//	DefBases        schema kinds × definition data chosen adversarially (repeats, nested slices, maps, shared member
//	                instances, typed and any-typed member lists)
//	AccessorState   what every slice/map-returning accessor of a schema hands out, plus the content of the definition
//	                itself (unexported fields, through the Def pointer): part of "the schema is unchanged"
//	MemberProbes    parse inputs derived from the definition data (deep copies taken when the schema joins a
//	                history): every member, every element of a member, the member list — so that a changed member
//	                list changes a parse verdict
//	DefCode         the literal/enum member list as a value-graph code for the Lean model (Model/DefData.lean)
//	AccessorAliases behavioural classification of an accessor: does mutating what it returned show in the schema?

import (
	"encoding/json"
	"fmt"
	"reflect"
	"sort"
	"strings"
	"sync"

	"github.com/kaptinlin/gozod/core"
	"github.com/kaptinlin/gozod/types"

	"verifharness/hx"
)

type defBase struct {
	name string
	mk   func() any
}

func defBaseList() []defBase {
	sharedObj := func() *types.ZodObject[map[string]any, map[string]any] {
		return types.Object(core.ObjectSchema{"x": types.String()})
	}
	return []defBase{
		// literal member lists: any-typed with repeats, a single slice member (flattened by the converter), nesting, maps
		{"LitAnyRepeat", func() any { return types.LiteralOf([]any{"a", "b", "a"}) }},
		{"LitAnyFlat", func() any { return types.Literal[any]([]any{"x", "y", "x"}) }},
		{"LitAnyFlatInts", func() any { return types.Literal[any]([]any{1, 2, 2, 1}) }},
		{"LitAnyNested", func() any {
			return types.LiteralOf([]any{[]any{1, 2, 1}, []any{1, 2, 1}, "z", map[string]any{"k": []any{1, 1}}, "z"})
		}},
		{"LitAnyMapMember", func() any { return types.Literal[any](map[string]any{"k": []any{"p", "p"}, "l": "p"}) }},
		{"LitAnyMixed", func() any { return types.LiteralOf([]any{"a", 1, true, 1.5, "a", 1}) }},
		{"LitAnyTypedSlice", func() any { return types.Literal[any]([]string{"x", "y", "x"}) }},
		{"LitArrayMember", func() any { return types.Literal([3]string{"x", "y", "x"}) }},
		{"LitStrRepeat", func() any { return types.LiteralOf([]string{"a", "b", "a"}) }},
		{"LitIntRepeat", func() any { return types.LiteralOf([]int{1, 2, 1, 2}) }},
		{"LitBoolRepeat", func() any { return types.LiteralOf([]bool{true, true}) }},
		{"LitPtrOfAny", func() any { return types.LiteralPtrOf([]any{"a", "b", "a"}) }},
		// enum entry maps / value sets
		{"EnumRepeat", func() any { return types.EnumSlice([]string{"a", "b", "a"}) }},
		{"EnumMapRepeat", func() any { return types.EnumMap(map[string]string{"K1": "v", "K2": "v", "K3": "w"}) }},
		{"EnumInts", func() any { return types.Enum(3, 1, 2, 10) }},
		{"EnumFloats", func() any { return types.Enum(1.5, 10.5, 2.5) }},
		{"EnumBools", func() any { return types.Enum(true, false) }},
		{"EnumInt8", func() any { return types.Enum[int8](1, 2, 3) }},
		{"EnumAnyStrings", func() any { return types.Enum[any]("b", "a", "b") }},
		{"EnumAnyMixed", func() any { return types.Enum[any]("a", 1) }},
		// member schemas held in maps / slices: the same instance more than once, several composite members
		{"ObjSharedMember", func() any {
			in := sharedObj()
			return types.Object(core.ObjectSchema{"a": in, "b": in, "c": in.Optional(), "s": types.String()})
		}},
		{"ObjTwoComposites", func() any {
			return types.Object(core.ObjectSchema{"a": sharedObj(), "b": types.Slice[int](types.Int()), "c": types.Int()})
		}},
		{"ObjLiteralMembers", func() any {
			return types.Object(core.ObjectSchema{"t": types.LiteralOf([]any{"x", "y", "x"}), "u": types.Literal[any]([]any{"x", "y", "x"}),
				"e": types.EnumSlice([]string{"a", "b", "a"})})
		}},
		{"UnionRepeat", func() any { s := types.String().Min(2); return types.Union([]any{s, s, types.Int()}) }},
		{"UnionLiterals", func() any {
			l := types.LiteralOf([]any{"a", "b", "a"})
			return types.Union([]any{l, types.Literal[any]([]any{"x", "y", "x"}), l})
		}},
		{"XorRepeat", func() any { s := types.String().Min(2); return types.Xor([]any{s, types.Int(), s}) }},
		{"TupleRepeat", func() any { s := types.String().Min(2); return types.Tuple(s, s, types.LiteralOf([]any{1, 2, 1})) }},
		{"ArrayRepeat", func() any { s := types.String().Min(2); return types.Array(s, s) }},
		{"IntersectionShared", func() any { in := sharedObj(); return types.Intersection(in, in) }},
		{"MapShared", func() any { s := types.String(); return types.Map(s, s) }},
		{"RecordEnumRepeat", func() any { return types.Record(types.EnumSlice([]string{"a", "b", "a"}), types.String()) }},
		{"SliceOfLiteral", func() any { return types.Slice[any](types.LiteralOf([]any{"a", "b", "a"})) }},
		{"LazyLiteral", func() any {
			l := types.Literal[any]([]any{"x", "y", "x"})
			return types.LazyAny(func() any { return l })
		}},
		{"DiscUnionLiteralOf", func() any {
			return types.DiscriminatedUnion("t", []any{
				types.Object(core.ObjectSchema{"t": types.LiteralOf([]string{"x", "x2", "x"}), "a": types.String()}),
				types.Object(core.ObjectSchema{"t": types.Literal("y"), "b": types.Int()}),
			})
		}},
	}
}

// DefBases lists the constructors above that construct (a constructor that panics on its arguments is dropped and
// counted by the caller through the length).
func DefBases() []Base {
	var out []Base
	for _, d := range defBaseList() {
		d := d
		ok := false
		if p := hx.Safely(func() { _, ok = d.mk().(Schema) }); p != "" || !ok {
			continue
		}
		out = append(out, Base{Name: d.name, Mk: d.mk})
	}
	return out
}

// ---------------------------------------------------------------------------------------------
// what the accessors hand out, and the definition's own content

func isEnumLike(rv reflect.Value) bool { return rv.MethodByName("Enum").IsValid() }

// accessorNames: exported methods without parameters whose single result is a slice or a map.
func accessorNames(rv reflect.Value) []string {
	var out []string
	t := rv.Type()
	for i := 0; i < t.NumMethod(); i++ {
		m := t.Method(i)
		if m.Type.NumIn() != 1 || m.Type.NumOut() != 1 {
			continue
		}
		if k := m.Type.Out(0).Kind(); k != reflect.Slice && k != reflect.Map {
			continue
		}
		out = append(out, m.Name)
	}
	return out
}

func renderAcc(rv reflect.Value, name string, res reflect.Value) string {
	if res.Kind() == reflect.Slice && name == "Options" && isEnumLike(rv) && !res.IsNil() {
		// ZodEnum.Options() walks a map: a set
		var parts []string
		for i := 0; i < res.Len(); i++ {
			var b strings.Builder
			localVal(&b, res.Index(i), 1)
			parts = append(parts, b.String())
		}
		sort.Strings(parts)
		return "set[" + strings.Join(parts, ",") + "]"
	}
	var b strings.Builder
	localVal(&b, res, 0)
	return b.String()
}

// defState renders the slice/map fields behind the `Def` pointer of the schema's internals.
func defState(s any) string {
	v := reflect.ValueOf(s)
	for v.IsValid() && (v.Kind() == reflect.Ptr || v.Kind() == reflect.Interface) {
		if v.IsNil() {
			return ""
		}
		v = v.Elem()
	}
	if !v.IsValid() || v.Kind() != reflect.Struct {
		return ""
	}
	in := v.FieldByName("internals")
	for in.IsValid() && (in.Kind() == reflect.Ptr || in.Kind() == reflect.Interface) {
		if in.IsNil() {
			return ""
		}
		in = in.Elem()
	}
	if !in.IsValid() || in.Kind() != reflect.Struct {
		return ""
	}
	d := in.FieldByName("Def")
	for d.IsValid() && (d.Kind() == reflect.Ptr || d.Kind() == reflect.Interface) {
		if d.IsNil() {
			return ""
		}
		d = d.Elem()
	}
	if !d.IsValid() || d.Kind() != reflect.Struct {
		return ""
	}
	var parts []string
	for i := 0; i < d.NumField(); i++ {
		f := d.Type().Field(i)
		if k := d.Field(i).Kind(); f.Anonymous || (k != reflect.Map && k != reflect.Slice) {
			continue
		}
		var b strings.Builder
		localVal(&b, d.Field(i), 0)
		parts = append(parts, "Def."+f.Name+"="+b.String())
	}
	return strings.Join(parts, ";")
}

// AccessorState renders what every accessor of s hands out (member schemas by identity, values by content), the
// type-local reference fields and the definition's slice/map fields.
func AccessorState(s any) string {
	rv := reflect.ValueOf(s)
	var parts []string
	for _, n := range accessorNames(rv) {
		var r string
		if p := hx.Safely(func() { r = renderAcc(rv, n, rv.MethodByName(n).Call(nil)[0]) }); p != "" {
			r = "panic"
		}
		parts = append(parts, n+"()="+r)
	}
	return strings.Join(parts, ";") + "|" + LocalState(s) + "|" + defState(s)
}

// ---------------------------------------------------------------------------------------------
// member-derived probes

func cloneVal(v reflect.Value, d int) reflect.Value {
	if !v.IsValid() || d > 8 {
		return v
	}
	switch v.Kind() {
	case reflect.Interface:
		if v.IsNil() {
			return v
		}
		out := reflect.New(v.Type()).Elem()
		out.Set(cloneVal(v.Elem(), d+1))
		return out
	case reflect.Slice:
		if v.IsNil() {
			return v
		}
		out := reflect.MakeSlice(v.Type(), v.Len(), v.Len())
		for i := 0; i < v.Len(); i++ {
			out.Index(i).Set(cloneVal(v.Index(i), d+1))
		}
		return out
	case reflect.Map:
		if v.IsNil() {
			return v
		}
		out := reflect.MakeMapWithSize(v.Type(), v.Len())
		it := v.MapRange()
		for it.Next() {
			out.SetMapIndex(it.Key(), cloneVal(it.Value(), d+1))
		}
		return out
	}
	return v // scalars, arrays of scalars, structs: copied by value; pointers (member schemas) stay as they are
}

func isSchemaVal(v reflect.Value) bool {
	_, ok := AsSchema(v)
	return ok
}

// MemberProbes: deep copies of the values the accessors of s hand out — each member, each element of a slice/array
// member, and the whole list. Member schemas are not values and are skipped.
func MemberProbes(s any) []any {
	rv := reflect.ValueOf(s)
	var out []any
	add := func(v reflect.Value) {
		if !v.IsValid() || isSchemaVal(v) {
			return
		}
		for v.Kind() == reflect.Interface && !v.IsNil() {
			v = v.Elem()
		}
		if !v.IsValid() || !v.CanInterface() {
			return
		}
		out = append(out, cloneVal(v, 0).Interface())
	}
	for _, n := range accessorNames(rv) {
		var res reflect.Value
		if p := hx.Safely(func() { res = rv.MethodByName(n).Call(nil)[0] }); p != "" || !res.IsValid() {
			continue
		}
		if res.Kind() == reflect.Map {
			keys := res.MapKeys()
			sort.Slice(keys, func(i, j int) bool { return Canon(keys[i].Interface()) < Canon(keys[j].Interface()) })
			for _, k := range keys {
				add(k)
				add(res.MapIndex(k))
			}
			continue
		}
		if res.Len() > 0 && isSchemaVal(res.Index(0)) {
			continue
		}
		var members []reflect.Value
		for i := 0; i < res.Len(); i++ {
			members = append(members, res.Index(i))
		}
		if n == "Options" && isEnumLike(rv) {
			sort.Slice(members, func(i, j int) bool { return Canon(members[i].Interface()) < Canon(members[j].Interface()) })
		} else {
			add(res) // the list itself
		}
		for _, m := range members {
			add(m)
			e := m
			for e.Kind() == reflect.Interface && !e.IsNil() {
				e = e.Elem()
			}
			if e.Kind() == reflect.Slice || e.Kind() == reflect.Array {
				for j := 0; j < e.Len(); j++ {
					add(e.Index(j))
				}
				if e.Len() > 1 { // a proper prefix: accepted only if the member shrank
					add(e.Slice(0, e.Len()-1))
				}
			}
		}
	}
	// distinct by rendering
	seen := map[string]bool{}
	var uniq []any
	for _, p := range out {
		k := fmt.Sprintf("%T|%s", p, Canon(p))
		if !seen[k] {
			seen[k] = true
			uniq = append(uniq, p)
		}
	}
	return uniq
}

// VerdictsOn renders the outcome of parsing the given inputs.
func VerdictsOn(s any, probes []any) string {
	var b strings.Builder
	for i, p := range probes {
		out, err, pn := ParseAny(s, p)
		switch {
		case pn != "":
			fmt.Fprintf(&b, "m%d:P;", i)
		case err != nil:
			fmt.Fprintf(&b, "m%d:E%x;", i, hash(ErrCanon(err)))
		default:
			fmt.Fprintf(&b, "m%d:%x;", i, hash(Canon(out)))
		}
	}
	return b.String()
}

// ---------------------------------------------------------------------------------------------
// the member list as the Lean model sees it

// Interner numbers canonical renderings (1, 2, …; 0 is nil / JSON null).
type Interner struct{ ids map[string]int }

func NewInterner() *Interner { return &Interner{ids: map[string]int{}} }

func (t *Interner) id(c string) int {
	if c == "nil" {
		return 0
	}
	if n, ok := t.ids[c]; ok {
		return n
	}
	n := len(t.ids) + 1
	t.ids[c] = n
	return n
}

// graphCode: scalar → its id; slice/array → `[c,c,…]`; anything else (maps, structs) is an opaque scalar.
// Numbers are rendered the way JSON round-trips them, so that 1 (int) and 1 (a JSON number) get the same id.
func (t *Interner) graphCode(v reflect.Value, d int) string {
	for v.IsValid() && (v.Kind() == reflect.Interface || v.Kind() == reflect.Ptr) {
		if v.IsNil() {
			return "0"
		}
		v = v.Elem()
	}
	if !v.IsValid() {
		return "0"
	}
	if (v.Kind() == reflect.Slice || v.Kind() == reflect.Array) && d < 6 {
		if v.Kind() == reflect.Slice && v.IsNil() {
			return "0"
		}
		parts := make([]string, v.Len())
		for i := range parts {
			parts[i] = t.graphCode(v.Index(i), d+1)
		}
		return "[" + strings.Join(parts, ",") + "]"
	}
	if v.CanInterface() {
		if b, err := json.Marshal(v.Interface()); err == nil {
			var back any
			if json.Unmarshal(b, &back) == nil {
				return fmt.Sprint(t.id(Canon(back)))
			}
		}
	}
	return fmt.Sprint(t.id(Canon(v.Interface())))
}

// DefCode: for a literal `L<A|C><graph of Values()>`, for an enum `E<A|C><sorted member ids as a list>`, else "0".
// A/C: whether the accessor the converter calls hands out the definition's own memory (AccessorAliases, decided once
// per schema type on `scratch` — a schema of the same type that is not part of any history).
func (t *Interner) DefCode(s, scratch any) string {
	rv := reflect.ValueOf(s)
	in, ok := s.(Schema)
	if !ok {
		return "0"
	}
	switch in.Internals().Type {
	case core.ZodTypeLiteral:
		m := rv.MethodByName("Values")
		if !m.IsValid() {
			return "0"
		}
		var res reflect.Value
		if p := hx.Safely(func() { res = m.Call(nil)[0] }); p != "" || res.Kind() != reflect.Slice {
			return "0"
		}
		return "L" + accLetter(scratch, "Values") + t.graphCode(res, 0)
	case core.ZodTypeEnum:
		m := rv.MethodByName("Options")
		if !m.IsValid() {
			return "0"
		}
		var res reflect.Value
		if p := hx.Safely(func() { res = m.Call(nil)[0] }); p != "" || res.Kind() != reflect.Slice {
			return "0"
		}
		var ids []int
		for i := 0; i < res.Len(); i++ {
			var n int
			fmt.Sscan(t.graphCode(res.Index(i), 1), &n)
			ids = append(ids, n)
		}
		sort.Ints(ids)
		return "E" + accLetter(scratch, "Options") + "[" + idx(ids) + "]"
	}
	return "0"
}

// DocMembers extracts the member list the document shows for a literal/enum (`enum`, or `const` as a one-element
// list; through an anyOf-with-null wrapper) as a graph code; "-" when the document has neither.
func (t *Interner) DocMembers(doc string, sorted bool) string {
	var d any
	if json.Unmarshal([]byte(doc), &d) != nil {
		return "-"
	}
	var find func(x any, depth int) (any, bool)
	find = func(x any, depth int) (any, bool) {
		m, ok := x.(map[string]any)
		if !ok || depth > 2 {
			return nil, false
		}
		if e, ok := m["enum"]; ok {
			return e, true
		}
		if c, ok := m["const"]; ok {
			return []any{c}, true
		}
		if a, ok := m["anyOf"].([]any); ok && len(a) > 0 {
			return find(a[0], depth+1)
		}
		return nil, false
	}
	e, ok := find(d, 0)
	if !ok {
		return "-"
	}
	l, ok := e.([]any)
	if !ok {
		return "-"
	}
	if sorted {
		var ids []int
		for _, x := range l {
			var n int
			fmt.Sscan(t.graphCode(reflect.ValueOf(&x).Elem(), 1), &n)
			ids = append(ids, n)
		}
		sort.Ints(ids)
		return "[" + idx(ids) + "]"
	}
	return t.graphCode(reflect.ValueOf(l), 0)
}

// ---------------------------------------------------------------------------------------------
// behavioural classification of accessors

var (
	accCache = map[string]string{}
	accMu    sync.Mutex
)

func accLetter(s any, name string) string {
	k := fmt.Sprintf("%T.%s", s, name)
	accMu.Lock()
	defer accMu.Unlock()
	if v, ok := accCache[k]; ok {
		return v
	}
	v := "C"
	if AccessorAliases(s, name) {
		v = "A"
	}
	accCache[k] = v
	return v
}

// AccessorAliases decides behaviourally whether s.<name>() hands out memory the schema keeps using: every element /
// entry of the returned slice/map is overwritten with the zero value (never on a schema that is part of a history —
// the caller passes a scratch schema, or accepts that s is spent) and the accessor is asked again.
func AccessorAliases(s any, name string) bool {
	rv := reflect.ValueOf(s)
	m := rv.MethodByName(name)
	if !m.IsValid() {
		return false
	}
	aliased := false
	hx.Safely(func() {
		res := m.Call(nil)[0]
		before := renderAcc(rv, name, res)
		switch res.Kind() {
		case reflect.Slice:
			if res.Len() == 0 {
				return
			}
			saved := reflect.MakeSlice(res.Type(), res.Len(), res.Len())
			reflect.Copy(saved, res)
			for i := 0; i < res.Len(); i++ {
				res.Index(i).Set(reflect.Zero(res.Type().Elem()))
			}
			after := renderAcc(rv, name, m.Call(nil)[0])
			aliased = after != before
			reflect.Copy(res, saved) // put it back
		case reflect.Map:
			if res.Len() == 0 {
				return
			}
			saved := map[any]reflect.Value{}
			for _, k := range res.MapKeys() {
				saved[k.Interface()] = res.MapIndex(k)
				res.SetMapIndex(k, reflect.Zero(res.Type().Elem()))
			}
			after := renderAcc(rv, name, m.Call(nil)[0])
			aliased = after != before
			for k, v := range saved {
				res.SetMapIndex(reflect.ValueOf(k), v)
			}
		}
	})
	return aliased
}
