/-
  C12 — the document level of `jsonschema.ToJSONSchema` and the store effect of a conversion, both with the tables
  REGENERATED from /repo's jsonschema/to.go (`Gen/ConvAccess.lean`) as their input.  Everything here is executed by the
  driver (`Drv/C12.lean`) on op lines the harness produces from the real code.

  Part 1 — `docOf`: from the annotated Bag (the map `annotatedInternals` hands to the converter) to the bag-settable keywords
  of the document node.  Transcribes (jsonschema/to.go, /repo HEAD, after d72e9e7):
      toFloat                      `toFloat` (the dynamic types it accepts)
      applyPatterns, applyLoop,
      applySize, applyBag          `(*converter).applyBag`: pattern / patterns first; then the keys of the Bag in the order the
                                   regenerated row says (`sortedKeys`: `slices.Sorted(maps.Keys(bag))`; `map`: the enumeration
                                   order of the Go map), every key assigning the fields the regenerated row lists for it — so with
                                   sorted keys the later key of minLength/minSize, maxLength/maxSize, contentMediaType/mime wins;
                                   `size` after the loop
      applyStringBag               `(*converter).applyStringBag` (dedupes and deletes `patterns`)
      rangeDefaults, applyRange    `numericRangeDefaults`, `applyNumericRangeDefaults` at depth 1
      convertFile                  `(*converter).convertFile` (single mime; several mimes: the fields it clears, the keys it deletes)
      doConvert                    the leaf cases of `(*converter).doConvert`'s type switch; the structural cases (`partialKinds`)
                                   are predicted only on the fields `applyBag` assigns last; wrappers / pipes: no prediction
  A Go map has no order: the Bag arrives as SOME enumeration (`Bag`, unique keys), lookups go through `get`, and the only place an
  order can enter is `visit`.

  Part 2 — `runTrace`: a conversion as a sequence of executions of write sites of the regenerated `writeSites` table.  A site
  writes where its `origin` says: memory the conversion made (`sitePrivate`: a location at or above the allocation pointer
  the conversion started from) or a cell of the live schema.  Purity (`Proofs/C12Doc.lean`, `c12_trace_pure`) is then a theorem
  about the WHOLE regenerated table, not a definitional unfolding.
-/
import Gozod.Model.Store
import Gozod.Gen.ConvAccess
namespace Gozod.ConvDoc
open Gozod.Store Gozod.Gen.ConvAccess

/-! ## Part 1: the document -/

/-- a value stored in a Bag (`map[string]any`) as the converter can tell it apart -/
inductive BV
  | num (ty : String) (repr : String)    -- a Go numeric value: dynamic type, and float64(x) printed with %g
  | str (s : String)
  | strs (l : List String)               -- []string
  | other (ty : String)
deriving DecidableEq, Repr

/-- some enumeration of a Go map: unique keys, arbitrary order -/
abbrev Bag := List (String × BV)

def ins (p : String × BV) : Bag → Bag
  | [] => [p]
  | q :: r => if p.1 ≤ q.1 then p :: q :: r else q :: ins p r

/-- the entries by sorted key: `slices.Sorted(maps.Keys(bag))` -/
def canon : Bag → Bag
  | [] => []
  | p :: r => ins p (canon r)

def get (b : Bag) (k : String) : Option BV := (b.find? (fun p => p.1 == k)).map (·.2)
def del (b : Bag) (k : String) : Bag := b.filter (fun p => p.1 != k)

/-- the dynamic types `toFloat` converts -/
def floatTypes : List String := ["int", "int32", "int64", "uint", "uint32", "uint64", "float32", "float64"]

def toFloat : BV → Option String
  | .num ty r => if floatTypes.contains ty then some r else none
  | _ => none

inductive KV
  | num (r : String)
  | str (s : String)
deriving DecidableEq, Repr

abbrev Kw := List (String × KV)

def kset (d : Kw) (f : String) (v : KV) : Kw :=
  if d.any (fun p => p.1 == f) then d.map (fun p => if p.1 == f then (f, v) else p) else d ++ [(f, v)]

def kdel (d : Kw) (f : String) : Kw := d.filter (fun p => p.1 != f)

/-- the node under construction: pointer fields of `lib.Schema` that a Bag can set (Go field names), `Pattern`, and the
    patterns of the `{pattern}` members of `AllOf` (`none` = nil slice) -/
structure Doc where
  kw : Kw
  pattern : Option String
  allOf : Option (List String)
deriving DecidableEq, Repr

def Doc.empty : Doc := ⟨[], none, none⟩

/-- `applyBag`, first part: `pattern`, then `patterns` -/
def applyPatterns (b : Bag) (d : Doc) : Doc :=
  let d1 : Doc := match get b "pattern" with
    | some (.str p) =>
      (match d.pattern with
       | none => { d with pattern := some p }
       | some old => { d with allOf := some ((match d.allOf with | none => [old] | some a => a) ++ [p]), pattern := none })
    | _ => d
  match get b "patterns" with
  | some (.strs ps) =>
    if ps.isEmpty then d1 else
    let d2 : Doc := match d1.pattern with
      | some old => { d1 with allOf := some ((d1.allOf.getD []) ++ [old]), pattern := none }
      | none => d1
    if ps.length == 1 && d2.allOf.isNone then { d2 with pattern := ps.head? }
    else { d2 with allOf := some ((d2.allOf.getD []) ++ ps) }
  | _ => d1

def strKeys : List String := ["format", "contentEncoding", "contentMediaType"]

/-- the guard and conversion of one `case` of the loop's switch -/
def convKey (k : String) (v : BV) : Option KV :=
  if k == "mime" then (match v with | .strs [m] => some (.str m) | _ => none)
  else if strKeys.contains k then (match v with | .str s => some (.str s) | _ => none)
  else (toFloat v).map .num

/-- the fields the regenerated row lists for Bag key `k` -/
def fieldsOfKey (effs : List Effect) (k : String) : List String :=
  effs.filterMap (fun e => match e with
    | .field f k' => if k' == k then some f else none
    | _ => none)

/-- the order in which the loop of range row `r` visits the entries of the enumeration `b` -/
def visit (r : MapRange) (b : Bag) : Bag := if r.cls == "sortedKeys" then canon b else b

def applyLoop (r : MapRange) (b : Bag) (kw : Kw) : Kw :=
  (visit r b).foldl (fun kw p =>
    match convKey p.1 p.2 with
    | some x => (fieldsOfKey r.effects p.1).foldl (fun kw f => kset kw f x) kw
    | none => kw) kw

def applySize (b : Bag) (kw : Kw) : Kw :=
  match (get b "size").bind toFloat with
  | some r => kset (kset kw "MinLength" (.num r)) "MaxLength" (.num r)
  | none => kw

/-- `(*converter).applyBag` -/
def applyBag (r : MapRange) (b : Bag) (d : Doc) : Doc :=
  let d1 := applyPatterns b d
  { d1 with kw := applySize b (applyLoop r b d1.kw) }

/-- first occurrences, in order (`uniquePatterns`) -/
def dedupe : List String → List String → List String
  | _, [] => []
  | seen, p :: ps => if seen.contains p then dedupe seen ps else p :: dedupe (p :: seen) ps

/-- `(*converter).applyStringBag`: the node and the Bag afterwards (`delete(internals.Bag, "patterns")` on the scratch copy) -/
def applyStringBag (b : Bag) (d : Doc) : Doc × Bag :=
  let (d1, b1) : Doc × Bag := match get b "patterns" with
    | some (.strs ps) =>
      if ps.isEmpty then (d, b) else
      let u := dedupe [] ps
      ((if u.length == 1 then { d with pattern := u.head? } else { d with allOf := some u }), del b "patterns")
    | _ => (d, b)
  let kw := d1.kw
  let kw := match get b1 "format" with | some (.str s) => kset kw "Format" (.str s) | _ => kw
  let kw := match (get b1 "minLength").bind toFloat with | some r => kset kw "MinLength" (.num r) | none => kw
  let kw := match (get b1 "maxLength").bind toFloat with | some r => kset kw "MaxLength" (.num r) | none => kw
  let kw := match get b1 "contentEncoding" with | some (.str s) => kset kw "ContentEncoding" (.str s) | _ => kw
  let kw := match get b1 "contentMediaType" with | some (.str s) => kset kw "ContentMediaType" (.str s) | _ => kw
  ({ d1 with kw := kw }, b1)

/-- `numericRangeDefaults` (float64 values printed with %g) -/
def rangeDefaults : List (String × String × String) := [
  ("int", "-9.223372036854776e+18", "9.223372036854776e+18"),
  ("integer", "-9.223372036854776e+18", "9.223372036854776e+18"),
  ("int8", "-128", "127"),
  ("int16", "-32768", "32767"),
  ("int32", "-2.147483648e+09", "2.147483647e+09"),
  ("int64", "-9.223372036854776e+18", "9.223372036854776e+18"),
  ("uint", "0", "1.8446744073709552e+19"),
  ("uint8", "0", "255"),
  ("uint16", "0", "65535"),
  ("uint32", "0", "4.294967295e+09"),
  ("uint64", "0", "1.844674407371e+19"),
  ("float32", "-3.4028234663852886e+38", "3.4028234663852886e+38"),
  ("float64", "-1.7976931348623157e+308", "1.7976931348623157e+308")]

def boundKeys : List String := ["minimum", "exclusiveMinimum", "maximum", "exclusiveMaximum"]

/-- `applyNumericRangeDefaults` at depth 1 (the node of the converted schema itself) on a node without bounds -/
def applyRange (ty : String) (b : Bag) (d : Doc) : Doc :=
  if boundKeys.any (fun k => (get b k).isSome) then d else
  match rangeDefaults.find? (fun p => p.1 == ty) with
  | some (_, lo, hi) => { d with kw := kset (kset d.kw "Minimum" (.num lo)) "Maximum" (.num hi) }
  | none => d

/-- `(*converter).convertFile`: the node and the Bag afterwards -/
def convertFile (r : MapRange) (b : Bag) : Doc × Bag :=
  let d := applyBag r b ⟨[("Format", .str "binary"), ("ContentEncoding", .str "binary")], none, none⟩
  match get b "mime" with
  | some (.strs ms) =>
    if ms.length > 1 then
      ({ d with kw := ["Format", "ContentEncoding", "ContentMediaType", "MinLength", "MaxLength"].foldl kdel d.kw },
       del (del (del b "minSize") "maxSize") "size")
    else (d, b)
  | _ => (d, b)

def stringKinds : List String := ["string", "ipv4", "ipv6", "hostname", "mac", "e164", "cidrv4", "cidrv6", "url"]
def intKinds : List String :=
  ["int", "integer", "int8", "int16", "int32", "int64", "uint", "uint8", "uint16", "uint32", "uint64", "uintptr"]
def plainKinds : List String := ["float", "bool", "nil", "any", "unknown", "number"]
def formatKinds : List (String × String) :=
  [("date", "date-time"), ("email", "email"), ("time", "time"), ("iso_datetime", "date-time"), ("iso", "date-time"),
   ("iso_date", "date"), ("iso_time", "time"), ("iso_duration", "duration")]
/-- the cases whose node is built by a structural converter (members, `$defs`: not modelled) or is `{}` / `{not: {}}`:
    `applyBag` runs last on it -/
def partialKinds : List String :=
  ["never", "union", "xor", "discriminated_union", "intersection", "record", "object", "struct", "slice", "array", "tuple",
   "enum", "literal", "lazy", "map", "nan", "stringbool", "function", "custom", "complex64", "complex128", "nonoptional"]

inductive Pred
  | full (d : Doc)        -- every bag-settable keyword of the node
  | part (d : Doc)        -- only the fields `applyBag` assigned (`written`) are predicted
  | nothing                -- wrappers, pipes, transforms, errors: the node is another schema's, or there is none
deriving DecidableEq, Repr

/-- the leaf cases of `(*converter).doConvert` for the node of the converted schema (depth 1) -/
def doConvert (r : MapRange) (ty : String) (b : Bag) : Pred :=
  if stringKinds.contains ty then
    let (d, b1) := applyStringBag b Doc.empty
    .full (applyBag r b1 d)
  else if intKinds.contains ty || ty == "float32" || ty == "float64" then .full (applyBag r b (applyRange ty b Doc.empty))
  else if plainKinds.contains ty then .full (applyBag r b Doc.empty)
  else if ty == "file" then
    let (d, b1) := convertFile r b
    .full (applyBag r b1 d)
  else match formatKinds.find? (fun p => p.1 == ty) with
    | some (_, f) => .full (applyBag r b ⟨[("Format", .str f)], none, none⟩)
    | none => if partialKinds.contains ty then .part (applyBag r b Doc.empty) else .nothing

/-- the fields the loop and `size` assign for this Bag (what a `part` prediction speaks about) -/
def written (r : MapRange) (b : Bag) : List String :=
  (b.filter (fun p => (convKey p.1 p.2).isSome)).flatMap (fun p => fieldsOfKey r.effects p.1) ++
  (match (get b "size").bind toFloat with | some _ => ["MinLength", "MaxLength"] | none => [])

/-- the row of the regenerated table that describes the loop of `applyBag` -/
def applyBagRow : MapRange :=
  (mapRanges.find? (fun r => r.fn == "applyBag")).getD ⟨"applyBag", "absent", "map", []⟩

/-- **the document-level prediction**: the keywords of the node of a schema of type `ty` whose annotated Bag is enumerated as `b` -/
def docOf (ty : String) (b : Bag) : Pred := doConvert applyBagRow ty b

/-! ## Part 2: the store effect of a conversion, over the regenerated write sites -/

def sitePrivate : Origin → Bool
  | .fresh | .doc | .converter | .scratch | .value => true
  | _ => false

/-- one execution of a write site: which site of the table, which of the candidate cells, what is written -/
structure Exec where
  site : Nat
  slot : Nat
  payload : Cell

/-- the cell of the live schema a non-private write site reaches (`schema.Internals()` fields, what an accessor hands out) -/
def liveLoc (σ0 : Store) (s : Schema) (slot : Nat) : Loc :=
  let ls := locs σ0.heap s
  ls.getD (slot % ls.length) s.self

/-- one write: a private site writes a location the conversion allocated itself (allocating it when it does not exist yet),
    any other site writes a cell of the schema as it was when the conversion started -/
def execSite (sites : List WriteSite) (σ0 : Store) (s : Schema) (σ : Store) (e : Exec) : Store :=
  match sites[e.site]? with
  | none => σ
  | some w =>
    if sitePrivate w.origin then
      (if σ0.next + e.slot < σ.next then write σ (σ0.next + e.slot) e.payload else (alloc σ e.payload).1)
    else write σ (liveLoc σ0 s e.slot) e.payload

/-- a conversion, as far as the store is concerned: any sequence of executions of sites of the table (loops, recursion into
    members, callbacks of checks on the scratch copy: every write they perform is a site of the table) -/
def runTrace (sites : List WriteSite) (σ0 : Store) (s : Schema) (tr : List Exec) : Store :=
  tr.foldl (execSite sites σ0 s) σ0

/-- an observable rewrite of a cell (the canonical payload of the driver's trace) -/
def scribble : Option Cell → Cell
  | some (.arr cs) => .arr (cs.map (· + 1))
  | some (.bag kv) => .bag (kv ++ [(7, .num 1)])
  | some (.vals vs) => .vals (vs ++ [99])
  | some (.shape fs) => .shape (fs ++ [(99, 0)])
  | some (.reg m) => .reg (some (m.getD 0 + 1))
  | some (.node kv) => .node (kv ++ [(99, .scalar 1)])
  | none => .node []

/-- the driver's trace: every site of the table once, in table order; a non-private site rewrites every cell the schema's
    observation depends on -/
def canonicalTrace (sites : List WriteSite) (σ0 : Store) (s : Schema) : List Exec :=
  (List.range sites.length).flatMap (fun i =>
    match sites[i]? with
    | some w =>
      if sitePrivate w.origin then [⟨i, i, .node []⟩]
      else (List.range (locs σ0.heap s).length).map (fun j => ⟨i, j, scribble (σ0.heap (liveLoc σ0 s j))⟩)
    | none => [])

/-- `jsonschema.ToJSONSchema(s)`: the store afterwards (the fold of the regenerated table's write sites) and the keywords
    of the node, a function of what is READ: the type and the annotated Bag -/
def convertT (σ : Store) (s : Schema) (tr : List Exec) (ty : String) (annotated : Bag) : Store × Pred :=
  (runTrace writeSites σ s tr, docOf ty annotated)

end Gozod.ConvDoc
