/-
  C12 — conversion options (`Model/ConvOpts.lean`): purity, determinism and histories for EVERY option set.

  `convertO cfg copy o g σ s` is one node of `ToJSONSchema(s, o)` with the options as parameters: the value-typed fields, the
  metadata registry, the `URI` callback (a function of the id) and the `Override` callback (user code that may assign the
  node's value keywords and rewrite in place the memory the node holds — see the header of the model file for what user code
  is allowed).  `copy` = whether `applyMeta` clones `meta.Examples` (the code since /repo 8997831) or stores the registry
  entry's own slice in the document (the code before it: legacy, kept for the witness).

    c12_opts_ext             with the clone: for every option set — every Override — the conversion only ALLOCATES …
    c12_opts_pure            … hence every allocated schema (the converted one, ancestors, siblings) is observed as before,
    c12_opts_entries_kept    … and `Registry.Get` of every schema answers as before
    c12_opts_deterministic   the shown document is a function of (options, observation, entry): the same in every extension
                             of the store — twice (`c12_opts_twice`), after any conversions of any schemas under any options
                             (`c12_opts_after_others`)
    c12_opts_hist            along every interleaving of chaining calls, conversions under any options, and parses, every live
                             schema keeps its observation
    c12_override_members_ext / c12_override_members_def_kept
                             the member list of an enum / literal in the document is a cell the conversion allocated: rewriting
                             it in place leaves the definition (shared by the family) as it was
    c12_opts_partial         the legacy code (no clone): the same held for every option set WITHOUT an Override …
    override_edits_registry_examples / c12_opts_full_false
                             … and is false with one: an Override that rewrites `ctx.JSONSchema.Examples[0]` rewrites the
                             registry entry; the next conversion (no Override) shows the rewritten example.
-/
import Gozod.Proofs.C12
import Gozod.Proofs.C12Def
import Gozod.Model.ConvOpts

namespace Gozod.C12Opts
open Gozod.Store Gozod.DefData Gozod.ConvOpts Gozod.C12Def Gozod.C08 Gozod.C12

/-! ### the steps only allocate, or write what they allocated -/

theorem write_ext (n : Nat) (σ : Store) (l : Loc) (c : Cell) (h : n ≤ l) : ExtFrom n σ (write σ l c) :=
  ⟨Nat.le_refl _, fun _ hx => upd_other _ _ _ _ (Nat.ne_of_lt (Nat.lt_of_lt_of_le hx h))⟩

theorem takeExamples_ext (copy : Bool) (σ : Store) (e : Option REntry) : ExtFrom σ.next σ (takeExamples copy σ e).1 := by
  unfold takeExamples
  split
  · exact ExtFrom.refl _ _
  · split
    · exact ExtFrom.refl _ _
    · split
      · exact shallow_ext σ _
      · exact ExtFrom.refl _ _

/-- with the clone the list behind `Examples` is a cell the conversion allocated -/
theorem takeExamples_fresh (σ : Store) (e : Option REntry) (l : Loc) (h : (takeExamples true σ e).2 = some l) :
    σ.next ≤ l := by
  unfold takeExamples at h
  split at h
  · cases h
  · split at h
    · cases h
    · simp only [shallow, alloc, ↓reduceIte, Option.some.injEq] at h
      exact Nat.le_of_eq h

theorem overrideWrites_ext (n : Nat) (σ : Store) (x : Option Loc) (f : List (Nat × UVal) → List (Nat × UVal))
    (h : ∀ l, x = some l → n ≤ l) : ExtFrom n σ (overrideWrites σ x f) := by
  cases hx : x with
  | none => exact ExtFrom.refl _ _
  | some l => exact write_ext n σ l _ (h l hx)

theorem convert_scratch (cfg : Cfg) (h : cfg.convScratch = true) (σ : Store) (s : Schema) :
    convert cfg σ s = (σ, s, entriesOf (obs σ.heap s)) := by
  simp [convert, h]

/-- **c12_opts_ext**: with the clone, `ToJSONSchema` under ANY options writes no location that existed before the call. -/
theorem c12_opts_ext (cfg : Cfg) (h : cfg.convScratch = true) (o : Opts) (g : Reg) (σ : Store) (s : Schema) :
    ExtFrom σ.next σ (convertO cfg true o g σ s).1 := by
  unfold convertO
  rw [convert_scratch cfg h]
  simp only
  cases o.override with
  | none => exact takeExamples_ext true σ _
  | some ov =>
    simp only
    exact ExtFrom.trans (takeExamples_ext true σ _)
      (overrideWrites_ext σ.next _ _ _ (fun l hl => takeExamples_fresh σ _ l hl))

/-- **c12_opts_pure**: every allocated schema is observed after the conversion exactly as before — for every option set. -/
theorem c12_opts_pure (cfg : Cfg) (h : cfg.convScratch = true) (o : Opts) (g : Reg) (σ : Store) (s t : Schema)
    (hw : WfS σ t) : obs (convertO cfg true o g σ s).1.heap t = obs σ.heap t :=
  obs_frame t hw (c12_opts_ext cfg h o g σ s)

/-- entries whose example lists are allocated -/
def RegBelow (σ : Store) (r : Reg) : Prop := ∀ t e l, r t = some e → e.examples = some l → l < σ.next

/-- **c12_opts_entries_kept**: `Registry.Get(t)` shows the same entry (examples serialised) after the conversion. -/
theorem c12_opts_entries_kept (cfg : Cfg) (h : cfg.convScratch = true) (o : Opts) (g r : Reg) (σ : Store) (s : Schema)
    (hc : NodeClosed σ) (hr : RegBelow σ r) (t : Loc) :
    entryObs (convertO cfg true o g σ s).1.heap (r t) = entryObs σ.heap (r t) := by
  cases he : r t with
  | none => rfl
  | some e =>
    simp only [entryObs, Option.map_some]
    cases hx : e.examples with
    | none => rfl
    | some l =>
      simp only [Option.map_some]
      rw [frame_ser (c12_opts_ext cfg h o g σ s) hc (.ref l) (hr t e l he hx)]

/-! ### determinism -/

def serNode (f : Nat) (h : Loc → Option Cell) (kv : List (Nat × UVal)) : List Nat :=
  [1] ++ kv.flatMap (fun p => p.1 :: ser f h p.2) ++ [3]

theorem ser_ref (f : Nat) (h : Loc → Option Cell) (l : Loc) : ser (f + 1) h (.ref l) = serNode f h (readNode h l) := rfl

/-- what an Override may put into the list: scalars, or values the list already held -/
def OvOK (ov : Override) : Prop :=
  ∀ ob kv p, p ∈ ov.rewrite ob kv → (∃ n, p.2 = .scalar n) ∨ ∃ q ∈ kv, q.2 = p.2

def OptsOK (o : Opts) : Prop := ∀ ov, o.override = some ov → OvOK ov

theorem serNode_frame {σ τ : Store} (he : ExtFrom σ.next σ τ) (hc : NodeClosed σ) (f : Nat) (kv : List (Nat × UVal))
    (hb : ∀ p ∈ kv, below σ p.2) : serNode f τ.heap kv = serNode f σ.heap kv := by
  unfold serNode
  rw [C15.flatMap_congr' _ _ _ (fun p hp => by rw [frame_ser he hc p.2 (hb p hp) f])]

theorem readNode_write_same (σ : Store) (l : Loc) (kv : List (Nat × UVal)) : readNode (write σ l (.node kv)).heap l = kv := by
  simp [readNode, write, upd]

/-- the registry the conversion reads, and the entry's example list if it has one to show -/
def shownList (o : Opts) (g : Reg) (σ : Store) (s : Schema) : Option Loc :=
  match ((o.metadata.getD g) s.self).bind (·.examples) with
  | none => none
  | some l => if (readNode σ.heap l).isEmpty then none else some l

/-- the examples a conversion in store `σ` shows, in closed form: the entry's list, rewritten by the Override -/
theorem shown_examples (cfg : Cfg) (h : cfg.convScratch = true) (o : Opts) (hok : OptsOK o) (g : Reg) (σ : Store) (s : Schema)
    (hc : NodeClosed σ) (hr : RegBelow σ (o.metadata.getD g)) (hw : WfS σ s) :
    (render (convertO cfg true o g σ s)).examples =
      (shownList o g σ s).map (fun l =>
        serNode 5 σ.heap (match o.override with
                          | none => readNode σ.heap l
                          | some ov => ov.rewrite (obs σ.heap s) (readNode σ.heap l))) := by
  unfold render convertO shownList
  rw [convert_scratch cfg h]
  simp only
  cases he : (o.metadata.getD g) s.self with
  | none => cases o.override <;> simp [takeExamples, overrideWrites]
  | some e =>
    cases hx : e.examples with
    | none => cases o.override <;> simp [takeExamples, hx, overrideWrites]
    | some l =>
      have hl : l < σ.next := hr s.self e l he hx
      by_cases hemp : (readNode σ.heap l).isEmpty = true
      · cases o.override <;> simp [takeExamples, hx, hemp, overrideWrites]
      · have hbelow : ∀ p ∈ readNode σ.heap l, below σ p.2 := readNode_below σ hc l
        cases hov : o.override with
        | none =>
          simp only [takeExamples, hx, Option.bind_some, hemp, Bool.false_eq_true, ↓reduceIte, Option.map_some]
          show some (ser (5 + 1) (shallow σ l).1.heap (.ref (shallow σ l).2)) = _
          rw [ser_shallow σ hc l 5, ser_ref]
        | some ov =>
          simp only [takeExamples, hx, Option.bind_some, hemp, Bool.false_eq_true, ↓reduceIte, Option.map_some, overrideWrites]
          rw [obs_frame s hw (shallow_ext σ l), shallow_read]
          generalize hkv : ov.rewrite (obs σ.heap s) (readNode σ.heap l) = kv'
          show some (ser (5 + 1) (write (shallow σ l).1 (shallow σ l).2 (.node kv')).heap (.ref (shallow σ l).2)) = _
          rw [ser_ref, readNode_write_same]
          have hF : ExtFrom σ.next σ (write (shallow σ l).1 (shallow σ l).2 (.node kv')) :=
            ExtFrom.trans (shallow_ext σ l) (write_ext σ.next _ _ _ (by simp [shallow, alloc]))
          have hb : ∀ p ∈ kv', below σ p.2 := by
            intro p hp
            rw [← hkv] at hp
            rcases hok ov hov _ _ p hp with ⟨n, hn⟩ | ⟨q, hq, hqe⟩
            · rw [hn]; trivial
            · rw [← hqe]; exact hbelow q hq
          rw [serNode_frame hF hc 5 kv' hb]

/-- the value keywords of the node before the Override: title / description from the entry, `$ref` through `URI` -/
def baseVals (o : Opts) (g : Reg) (s : Schema) : DocVals :=
  let e := (o.metadata.getD g) s.self
  let id := (e.map (·.id)).getD 0
  ⟨(e.map (·.title)).getD 0, (e.map (·.descr)).getD 0, if id = 0 then none else some ((o.uri.map (fun u => u id)).getD id), 0⟩

theorem shown_rest (cfg : Cfg) (h : cfg.convScratch = true) (o : Opts) (g : Reg) (σ : Store) (s : Schema) (hw : WfS σ s) :
    (render (convertO cfg true o g σ s)).optv = o.vals ∧
    (render (convertO cfg true o g σ s)).kw = entriesOf (obs σ.heap s) ∧
    (render (convertO cfg true o g σ s)).vals =
      (match o.override with
       | none => baseVals o g s
       | some ov => ov.edit (obs σ.heap s) (baseVals o g s)) := by
  unfold render convertO
  rw [convert_scratch cfg h]
  simp only
  cases hov : o.override with
  | none => exact ⟨rfl, rfl, rfl⟩
  | some ov =>
    refine ⟨?_, ?_, ?_⟩ <;> simp [obs_frame s hw (takeExamples_ext true σ _), baseVals]

theorem shown_ext (a b : Shown) (h1 : a.optv = b.optv) (h2 : a.kw = b.kw) (h3 : a.vals = b.vals) (h4 : a.examples = b.examples) :
    a = b := by
  cases a; cases b; simp_all

theorem regBelow_mono {σ σ' : Store} {r : Reg} (h : RegBelow σ r) (hn : σ.next ≤ σ'.next) : RegBelow σ' r :=
  fun t e l he hx => Nat.lt_of_lt_of_le (h t e l he hx) hn

/-- **c12_opts_deterministic**: for every option set the shown document is the same in every extension of the store — it is
    a function of the options, the schema's observation and the registry entry, not of what was allocated in between. -/
theorem c12_opts_deterministic (cfg : Cfg) (h : cfg.convScratch = true) (o : Opts) (hok : OptsOK o) (g : Reg) (σ σ' : Store)
    (s : Schema) (hc : NodeClosed σ) (hc' : NodeClosed σ') (he : ExtFrom σ.next σ σ')
    (hr : RegBelow σ (o.metadata.getD g)) (hw : WfS σ s) :
    render (convertO cfg true o g σ' s) = render (convertO cfg true o g σ s) := by
  have hw' : WfS σ' s := wfs_frame s hw he
  have hr' := regBelow_mono hr he.1
  have ho : obs σ'.heap s = obs σ.heap s := obs_frame s hw he
  obtain ⟨a1, a2, a3⟩ := shown_rest cfg h o g σ s hw
  obtain ⟨b1, b2, b3⟩ := shown_rest cfg h o g σ' s hw'
  refine shown_ext _ _ (by rw [a1, b1]) (by rw [a2, b2, ho]) (by rw [a3, b3, ho]) ?_
  rw [shown_examples cfg h o hok g σ s hc hr hw, shown_examples cfg h o hok g σ' s hc' hr' hw', ho]
  unfold shownList
  cases hx : ((o.metadata.getD g) s.self).bind (·.examples) with
  | none => rfl
  | some l =>
    have hl : l < σ.next := by
      cases he' : (o.metadata.getD g) s.self with
      | none => simp [he'] at hx
      | some e => simp [he'] at hx; exact hr s.self e l he' hx
    have hrd : readNode σ'.heap l = readNode σ.heap l := by simp [readNode, he.2 l hl]
    simp only [hrd]
    by_cases hemp : (readNode σ.heap l).isEmpty = true
    · simp [hemp]
    · simp only [hemp, Bool.false_eq_true, ↓reduceIte, Option.map_some, Option.some.injEq]
      have hbelow : ∀ p ∈ readNode σ.heap l, below σ p.2 := readNode_below σ hc l
      simp only [hrd]
      apply serNode_frame he hc
      cases hov : o.override with
      | none => exact hbelow
      | some ov =>
        intro p hp
        rcases hok ov hov _ _ p hp with ⟨n, hn⟩ | ⟨q, hq, hqe⟩
        · rw [hn]; trivial
        · rw [← hqe]; exact hbelow q hq

/-! ### closed heaps stay closed; twice, and after any conversions under any options -/

theorem takeExamples_closed (copy : Bool) (σ : Store) (hc : NodeClosed σ) (e : Option REntry) :
    NodeClosed (takeExamples copy σ e).1 := by
  unfold takeExamples
  split
  · exact hc
  · split
    · exact hc
    · split
      · exact shallow_closed σ hc _
      · exact hc

theorem overrideWrites_closed (σ : Store) (hc : NodeClosed σ) (x : Option Loc) (f : List (Nat × UVal) → List (Nat × UVal))
    (hf : ∀ kv p, p ∈ f kv → (∃ n, p.2 = .scalar n) ∨ ∃ q ∈ kv, q.2 = p.2) : NodeClosed (overrideWrites σ x f) := by
  cases x with
  | none => exact hc
  | some l =>
    intro y kv hy p hp m hm
    simp only [overrideWrites, write, upd] at hy
    show m < σ.next
    split at hy
    · simp only [Option.some.injEq, Cell.node.injEq] at hy
      rw [← hy] at hp
      rcases hf _ p hp with ⟨n, hn⟩ | ⟨q, hq, hqe⟩
      · rw [hn] at hm; cases hm
      · have := readNode_below σ hc l q hq
        rw [hqe, hm] at this
        exact this
    · exact hc y kv hy p hp m hm

theorem convertO_closed (cfg : Cfg) (h : cfg.convScratch = true) (o : Opts) (hok : OptsOK o) (g : Reg) (σ : Store) (s : Schema)
    (hc : NodeClosed σ) : NodeClosed (convertO cfg true o g σ s).1 := by
  unfold convertO
  rw [convert_scratch cfg h]
  simp only
  cases hov : o.override with
  | none => exact takeExamples_closed true σ hc _
  | some ov =>
    simp only
    exact overrideWrites_closed _ (takeExamples_closed true σ hc _) _ _ (fun kv p hp => hok ov hov _ kv p hp)

/-- conversions of any schemas under any options, one after the other -/
def convAllO (cfg : Cfg) (g : Reg) : Store → List (Opts × Schema) → Store
  | σ, [] => σ
  | σ, (o, s) :: rest => convAllO cfg g (convertO cfg true o g σ s).1 rest

theorem convAllO_spec (cfg : Cfg) (h : cfg.convScratch = true) (g : Reg) (ops : List (Opts × Schema)) :
    ∀ (σ : Store), NodeClosed σ → (∀ p ∈ ops, OptsOK p.1) →
      ExtFrom σ.next σ (convAllO cfg g σ ops) ∧ NodeClosed (convAllO cfg g σ ops) := by
  induction ops with
  | nil => intro σ hc _; exact ⟨ExtFrom.refl _ _, hc⟩
  | cons p rest ih =>
    intro σ hc hok
    obtain ⟨o, s⟩ := p
    have e1 := c12_opts_ext cfg h o g σ s
    have c1 := convertO_closed cfg h o (hok (o, s) (List.mem_cons_self ..)) g σ s hc
    obtain ⟨e2, c2⟩ := ih _ c1 (fun q hq => hok q (List.mem_cons_of_mem _ hq))
    exact ⟨ExtFrom.trans e1 (e2.mono e1.1), c2⟩

/-- **c12_opts_after_others**: after any number of conversions of any schemas under any option sets (Overrides included),
    converting `s` under `o` shows the same document as before them. -/
theorem c12_opts_after_others (cfg : Cfg) (h : cfg.convScratch = true) (o : Opts) (hok : OptsOK o) (g : Reg) (σ : Store)
    (s : Schema) (others : List (Opts × Schema)) (hoks : ∀ p ∈ others, OptsOK p.1)
    (hc : NodeClosed σ) (hr : RegBelow σ (o.metadata.getD g)) (hw : WfS σ s) :
    render (convertO cfg true o g (convAllO cfg g σ others) s) = render (convertO cfg true o g σ s) := by
  obtain ⟨e, c⟩ := convAllO_spec cfg h g others σ hc hoks
  exact c12_opts_deterministic cfg h o hok g σ _ s hc c e hr hw

/-- **c12_opts_twice** -/
theorem c12_opts_twice (cfg : Cfg) (h : cfg.convScratch = true) (o : Opts) (hok : OptsOK o) (g : Reg) (σ : Store) (s : Schema)
    (hc : NodeClosed σ) (hr : RegBelow σ (o.metadata.getD g)) (hw : WfS σ s) :
    render (convertO cfg true o g (convertO cfg true o g σ s).1 s) = render (convertO cfg true o g σ s) :=
  c12_opts_after_others cfg h o hok g σ s [(o, s)] (by intro p hp; simp at hp; rw [hp]; exact hok) hc hr hw

/-! ### histories -/

theorem takeExamples_bagClosed (copy : Bool) (σ : Store) (hc : BagClosed σ) (e : Option REntry) :
    BagClosed (takeExamples copy σ e).1 := by
  unfold takeExamples
  split
  · exact hc
  · split
    · exact hc
    · split
      · exact bagClosed_alloc σ _ hc trivial
      · exact hc

theorem convertO_bagClosed (cfg : Cfg) (h : cfg.convScratch = true) (copy : Bool) (o : Opts) (g : Reg) (σ : Store) (s : Schema)
    (hc : BagClosed σ) : BagClosed (convertO cfg copy o g σ s).1 := by
  unfold convertO
  rw [convert_scratch cfg h]
  simp only
  cases o.override with
  | none => exact takeExamples_bagClosed copy σ hc _
  | some ov =>
    simp only [overrideWrites]
    split
    · exact takeExamples_bagClosed copy σ hc _
    · exact bagClosed_write _ _ _ (takeExamples_bagClosed copy σ hc _) trivial

def hopsOKO (ops : List HOpO) : Prop :=
  ∀ o ∈ ops, match o with | .chain _ op => Op.ok op ∧ op.isMetaSelf = false | _ => True

/-- **c12_opts_hist**: along every interleaving of chaining calls, conversions under ANY options and parses over a derivation
    family, every live schema keeps its observation (so it parses as before and, by `c12_opts_deterministic`, converts to the
    same document as before under every option set). -/
theorem c12_opts_hist (cfg : Cfg) (h1 : cfg.cloneBagAlways = true) (h2 : cfg.convScratch = true) (g : Reg) (ops : List HOpO) :
    ∀ (σ : Store) (live : List Schema), Inv σ live → hopsOKO ops →
    Inv (runHO cfg true g σ live ops).1 (runHO cfg true g σ live ops).2 ∧ live <+: (runHO cfg true g σ live ops).2 ∧
    ∀ s ∈ live, obs (runHO cfg true g σ live ops).1.heap s = obs σ.heap s := by
  induction ops with
  | nil => intro σ live hi _; exact ⟨hi, List.prefix_refl _, fun s _ => rfl⟩
  | cons o rest ih =>
    intro σ live hi hok
    have hrest : hopsOKO rest := fun q hq => hok q (List.mem_cons_of_mem _ hq)
    cases o with
    | parse i => simp only [runHO]; exact ih σ live hi hrest
    | conv i o =>
      simp only [runHO]
      cases hl : live[i]? with
      | none => exact ih σ live hi hrest
      | some s =>
        simp only
        have he := c12_opts_ext cfg h2 o g σ s
        have hi' : Inv (convertO cfg true o g σ s).1 live :=
          ⟨convertO_bagClosed cfg h2 true o g σ s hi.closed, fun t ht => wfs_frame t (hi.wf t ht) he⟩
        obtain ⟨a, b, c⟩ := ih _ live hi' hrest
        exact ⟨a, b, fun t ht => by rw [c t ht, obs_frame t (hi.wf t ht) he]⟩
    | chain i op =>
      simp only [runHO]
      cases hl : live[i]? with
      | none => exact ih σ live hi hrest
      | some recv =>
        have hr : recv ∈ live := List.mem_of_getElem? hl
        have hop := hok (.chain i op) (List.mem_cons_self ..)
        obtain ⟨hi', _, hobs⟩ := c08_step cfg h1 σ live recv op hi hr hop.1 hop.2
        obtain ⟨hi2, hp2, ho2⟩ := ih _ _ hi' hrest
        refine ⟨hi2, List.IsPrefix.trans (List.prefix_append _ _) hp2, fun s hs => ?_⟩
        rw [ho2 s (List.mem_append_left _ hs), hobs s hs]

/-! ### the code before /repo 8997831: `jsonSchema.Examples = meta.Examples` -/

/-- The full statement, for a given `applyMeta`: under every option set the conversion writes nothing that existed before. -/
def c12_opts_full (copy : Bool) : Prop :=
  ∀ (cfg : Cfg), cfg.convScratch = true → ∀ (o : Opts) (g : Reg) (σ : Store) (s : Schema),
    ExtFrom σ.next σ (convertO cfg copy o g σ s).1

theorem c12_opts_full_with_clone : c12_opts_full true := fun cfg h o g σ s => c12_opts_ext cfg h o g σ s

/-- **c12_opts_partial**: without the clone the statement holds for every option set that carries no Override (every value
    option, every registry, every `URI`): the conversion does not touch the store at all. -/
theorem c12_opts_partial (cfg : Cfg) (h : cfg.convScratch = true) (o : Opts) (hno : o.override = none) (g : Reg) (σ : Store)
    (s : Schema) : (convertO cfg false o g σ s).1 = σ := by
  unfold convertO
  rw [convert_scratch cfg h]
  simp only [hno, takeExamples]
  split
  · rfl
  · split <;> rfl

/-- non-vacuity of the partial statement: an option set with a registry, a `URI` callback and no Override -/
example : (⟨⟨1, 2, 3, 4, 5⟩, some (fun _ => none), some (fun n => n + 1), none⟩ : Opts).override = none := rfl

/-- `GlobalRegistry` holds `{Examples: [7, 8]}` for the schema with identity 5; the list is the cell at 1. -/
def σw : Store := { heap := fun l => if l = 1 then some (.node [(0, .scalar 7), (1, .scalar 8)]) else none, next := 6 }
def gw : Reg := fun t => if t = 5 then some ⟨0, 0, 0, some 1⟩ else none
def sw : Schema := { dummy with self := 5 }

/-- an Override that assigns `ctx.JSONSchema.Examples[0] = 99` -/
def ovw : Override := ⟨fun _ v => v, fun _ kv => setKey kv 0 (.scalar 99)⟩

theorem ovw_ok : OvOK ovw := by
  intro ob kv p hp
  simp only [ovw, setKey] at hp
  split at hp
  · obtain ⟨q, hq, rfl⟩ := List.mem_map.1 hp
    by_cases hk : (q.1 == 0) = true
    · left; exact ⟨99, by simp [hk]⟩
    · right; exact ⟨q, hq, by simp [hk]⟩
  · rcases List.mem_append.1 hp with hp | hp
    · right; exact ⟨p, hp, rfl⟩
    · left; simp at hp; exact ⟨99, by rw [hp]⟩

/-- **Witness (legacy code, before 8997831)**: the Override's assignment lands in the registry entry — `GlobalRegistry.Get(s)` shows
    example 99 instead of 7 afterwards — and the next conversion, without any Override, shows it too; with the clone neither. -/
theorem override_edits_registry_examples :
    entryObs (convertO fixed false ⟨⟨0, 0, 0, 0, 0⟩, none, none, some ovw⟩ gw σw sw).1.heap (gw 5) ≠ entryObs σw.heap (gw 5) ∧
    (render (convertO fixed false noOpts gw (convertO fixed false ⟨⟨0, 0, 0, 0, 0⟩, none, none, some ovw⟩ gw σw sw).1 sw)).examples
      ≠ (render (convertO fixed false noOpts gw σw sw)).examples ∧
    entryObs (convertO fixed true ⟨⟨0, 0, 0, 0, 0⟩, none, none, some ovw⟩ gw σw sw).1.heap (gw 5) = entryObs σw.heap (gw 5) ∧
    (render (convertO fixed true noOpts gw (convertO fixed true ⟨⟨0, 0, 0, 0, 0⟩, none, none, some ovw⟩ gw σw sw).1 sw)).examples
      = (render (convertO fixed true noOpts gw σw sw)).examples := by decide

theorem c12_opts_full_false : ¬ c12_opts_full false := by
  intro hf
  have := (hf fixed rfl ⟨⟨0, 0, 0, 0, 0⟩, none, none, some ovw⟩ gw σw sw).2 1 (by decide)
  revert this
  decide

/-! ### the member list of an enum / literal (`Enum`, `Const.Value`): level 1 is the conversion's own -/

theorem shallow_loc (σ : Store) (l : Loc) : (shallow σ l).2 = σ.next := rfl

theorem shallow_next (σ : Store) (l : Loc) : (shallow σ l).1.next = σ.next + 1 := rfl

/-- the list `convertLiteral` puts into the document (`values` after boxing and flattening) is a cell the conversion
    allocated, whether the accessor aliases the definition or copies it -/
theorem convLiteral_fresh (a : Acc) (σ : Store) (l : Loc) : σ.next ≤ (convLiteral a σ l).2 := by
  have h1 : σ.next ≤ (access a σ l).1.next := (access_ext a σ l).1
  unfold convLiteral
  simp only [box, flatten]
  split
  · rw [shallow_loc, shallow_next]; exact Nat.le_succ_of_le h1
  · rw [shallow_loc]; exact h1

/-- **c12_override_members_ext**: an Override (or the caller) rewriting in place the member list the document shows writes
    nothing that existed before the conversion — the definition's own slice (`ZodLiteral.Values()` hands it out by reference)
    is out of its reach at level 1. -/
theorem c12_override_members_ext (a : Acc) (σ : Store) (l : Loc) (f : List (Nat × UVal) → List (Nat × UVal)) :
    ExtFrom σ.next σ (overrideWrites (convLiteral a σ l).1 (some (convLiteral a σ l).2) f) :=
  ExtFrom.trans (convLiteral_ext a σ l)
    (overrideWrites_ext σ.next _ _ f (fun x hx => by cases hx; exact convLiteral_fresh a σ l))

/-- … hence the definition serialises as before (to any depth), for the family that shares it -/
theorem c12_override_members_def_kept (a : Acc) (σ : Store) (hc : NodeClosed σ) (l : Loc) (hl : l < σ.next)
    (f : List (Nat × UVal) → List (Nat × UVal)) (d : Nat) :
    ser d (overrideWrites (convLiteral a σ l).1 (some (convLiteral a σ l).2) f).heap (.ref l) = ser d σ.heap (.ref l) :=
  frame_ser (c12_override_members_ext a σ l f) hc (.ref l) hl d

/-- The shape the theorem excludes (seeded/C12c: boxing fast path + in-place de-duplication): there the list in the document IS
    the definition's, and rewriting it rewrites the definition. -/
theorem inplace_members_not_fresh : ¬ (σRepeat.next ≤ (convLiteralInPlace σRepeat lRepeat).2.1) := by decide

end Gozod.C12Opts
