package storex

// Catalogue of check VALUES (core.ZodCheck) obtainable through the public API, for every parameter of type
// core.ZodCheck / ...core.ZodCheck / []core.ZodCheck (Tuple.Check, Tuple.With, Internals().AddCheck):
//
//	static part   gozod.Describe / gozod.Meta (the exported check factories) with GlobalMeta variants whose Examples
//	              hold every JSON kind (null, bool, number, string, slice, map, nested, typed slices and maps);
//	              user-defined checks (core.ZodCheckInternals literals) with and without OnAttach callbacks
//	harvested     every check value that any exported chaining method of any base schema appends to its result
//	              (all of internal/checks' factories as the public methods instantiate them: length, numeric,
//	              string, format, overwrite, custom/refine, property, file-size and MIME checks); a check is taken
//	              from result.Internals().Checks — an exported field — and can be attached to another schema
//
// Every spec builds a fresh value on each call, so a replayed twin family never shares a check with the original.

import (
	"fmt"
	"reflect"
	"sort"
	"strings"
	"sync"

	gozod "github.com/kaptinlin/gozod"
	"github.com/kaptinlin/gozod/core"

	"verifharness/hx"
)

// CheckSpec is one entry of the catalogue.
type CheckSpec struct {
	Name string
	Mk   func() core.ZodCheck
	Meta *core.GlobalMeta // content written to the registry by the check's OnAttach (Describe/Meta checks only)
	Desc bool             // built by Describe (assigns the description even when empty) rather than Meta
	// MkWith (Meta checks): the check together with the very GlobalMeta value handed to gozod.Meta — the check keeps its
	// Examples slice (and the registry entry, and the document, get the same backing array), so the content a check
	// writes is read off this value when the step is coded, not off a copy made beforehand.
	MkWith func() (core.ZodCheck, core.GlobalMeta)
}

// MetaContent is what a registry-writing check writes: Meta(m) or Describe(m.Description).
type MetaContent struct {
	M        core.GlobalMeta
	Describe bool
}

// Code renders the content for the Lean model: `D<descr>` or `M<id>.<title>.<descr>.<examples>`.
func (c MetaContent) Code() string {
	if c.Describe {
		internMu.Lock()
		defer internMu.Unlock()
		return fmt.Sprintf("D%d", strCode(c.M.Description))
	}
	return "M" + MetaCode(c.M)
}

// ExampleValues builds one example value of every JSON kind (fresh values on every call).
func ExampleValues() []any {
	return []any{
		nil, true, 7, 1.5, "s",
		[]any{"a", 1},
		[]any{1, []any{2, []any{}}},
		map[string]any{"k": "v"},
		map[string]any{"k": []any{1, map[string]any{"z": nil}}, "n": 2},
		[]string{"x", "y"},
		map[string]int{"q": 1},
		[]any{},
		map[string]any{},
	}
}

func metaVariants() []core.GlobalMeta {
	ex := ExampleValues
	return []core.GlobalMeta{
		{Title: "T1"},
		{ID: "I1", Title: "T2", Description: "D2"},
		{},
		{Examples: []any{"s", 7, true}},               // comparable examples only
		{Examples: []any{ex()[5]}},                    // one slice (the shape of a tuple example)
		{Examples: []any{ex()[7]}},                    // one map (the shape of an object example)
		{Title: "T3", Examples: ex()},                 // every JSON kind
		{Examples: []any{ex()[6], ex()[8], "s", nil}}, // nested composites mixed with scalars
		{Description: "D3", Examples: []any{ex()[9], ex()[10]}},
		{Examples: []any{ex()[11], ex()[12]}}, // empty composites
		{ID: "I2", Examples: []any{"s", "s", ex()[5], ex()[5]}},
	}
}

type userCheck struct{ in *core.ZodCheckInternals }

func (u *userCheck) Zod() *core.ZodCheckInternals { return u.in }

// bagOf is what a user-written OnAttach callback can reach of its target through exported API.
func bagOf(schema any) map[string]any {
	s, ok := schema.(interface{ Internals() *core.ZodTypeInternals })
	if !ok || s.Internals() == nil {
		return nil
	}
	in := s.Internals()
	if in.Bag == nil {
		in.Bag = map[string]any{}
	}
	return in.Bag
}

func staticChecks() []CheckSpec {
	var out []CheckSpec
	for i, d := range []string{"d1", "", "another description"} {
		d := d
		out = append(out, CheckSpec{Name: fmt.Sprintf("Describe/%d", i), Mk: func() core.ZodCheck { return gozod.Describe(d) },
			Meta: &core.GlobalMeta{Description: d}, Desc: true})
	}
	for i := range metaVariants() {
		i := i
		m := metaVariants()[i]
		out = append(out, CheckSpec{Name: fmt.Sprintf("Meta/%d", i), Mk: func() core.ZodCheck { return gozod.Meta(metaVariants()[i]) }, Meta: &m,
			MkWith: func() (core.ZodCheck, core.GlobalMeta) { v := metaVariants()[i]; return gozod.Meta(v), v }})
	}
	noop := func(*core.ParsePayload) {}
	out = append(out,
		CheckSpec{Name: "User/plain", Mk: func() core.ZodCheck {
			return &core.ZodCheckInternals{Def: &core.ZodCheckDef{Check: "custom"}, Check: noop}
		}},
		CheckSpec{Name: "User/nodef", Mk: func() core.ZodCheck {
			return &userCheck{&core.ZodCheckInternals{Def: &core.ZodCheckDef{Check: "user"}, Check: noop}}
		}},
		CheckSpec{Name: "User/bag-set", Mk: func() core.ZodCheck {
			return &userCheck{&core.ZodCheckInternals{Def: &core.ZodCheckDef{Check: "user_min"}, Check: noop,
				OnAttach: []func(any){func(s any) {
					if b := bagOf(s); b != nil {
						b["minimum"] = 3
						b["format"] = "user"
					}
				}}}}
		}},
		CheckSpec{Name: "User/bag-append", Mk: func() core.ZodCheck {
			return &userCheck{&core.ZodCheckInternals{Def: &core.ZodCheckDef{Check: "user_pat"}, Check: noop,
				OnAttach: []func(any){func(s any) {
					if b := bagOf(s); b != nil {
						ps, _ := b["patterns"].([]string)
						b["patterns"] = append(ps, "^u$")
					}
				}, nil}}}
		}},
		CheckSpec{Name: "User/when-abort", Mk: func() core.ZodCheck {
			return &core.ZodCheckInternals{Def: &core.ZodCheckDef{Check: "custom", Abort: true}, Check: noop,
				When: func(*core.ParsePayload) bool { return false }}
		}},
	)
	return out
}

var (
	catOnce   sync.Once
	catStatic []CheckSpec
	catAll    []CheckSpec
	catReady  bool
)

// harvest lists the checks appended by every exported chaining method of every base (argument variants 0 and 1).
func harvest() []CheckSpec {
	var out []CheckSpec
	seen := map[string]bool{}
	for _, b := range Bases() {
		b := b
		probe := b.Mk()
		names := Methods(probe)
		sort.Strings(names)
		for _, m := range names {
			for v := 0; v < 2; v++ {
				m, v := m, v
				take := func() []core.ZodCheck {
					recv := b.Mk().(Schema)
					n := len(recv.Internals().Checks)
					res, ok := callUnlocked(recv, m, v)
					if !ok || any(res) == any(recv) {
						return nil
					}
					cs := res.Internals().Checks
					if len(cs) <= n {
						return nil
					}
					return cs[n:]
				}
				cs := take()
				for j, c := range cs {
					if c == nil || c.Zod() == nil {
						continue
					}
					kind := "?"
					if d := c.Zod().Def; d != nil {
						kind = d.Check
					}
					// one spec per (schema type, check kind, variant): the same factory reached through aliases adds nothing
					key := fmt.Sprintf("%s/%s/%d/%d", shortType(probe), kind, v, len(c.Zod().OnAttach))
					if seen[key] {
						continue
					}
					seen[key] = true
					j := j
					out = append(out, CheckSpec{Name: fmt.Sprintf("%s.%s/%d#%d:%s", b.Name, m, v, j, kind), Mk: func() core.ZodCheck {
						if cs := take(); j < len(cs) {
							return cs[j]
						}
						return nil
					}})
				}
			}
		}
	}
	return out
}

// CheckCatalogue is the whole catalogue: the static part first, then the harvested checks.
func CheckCatalogue() []CheckSpec {
	catOnce.Do(func() {
		catStatic = staticChecks()
		_ = catStatic
		catAll = append(append([]CheckSpec{}, catStatic...), harvest()...)
		catReady = true
	})
	return catAll
}

// NStaticChecks counts the static part (Describe / Meta / user-defined checks).
func NStaticChecks() int { return len(staticChecks()) }

// CheckVariantBase: argument variants from here on select catalogue entry (variant - CheckVariantBase) of the whole
// catalogue (call CheckCatalogue() once before using them); smaller variants select among the static part.
const CheckVariantBase = 1000

func checkFor(variant int) CheckSpec {
	if variant < 0 {
		variant = -variant
	}
	if variant < CheckVariantBase || !catReady {
		if catStatic == nil {
			return staticChecks()[variant%NStaticChecks()]
		}
		return catStatic[variant%len(catStatic)]
	}
	return catAll[(variant-CheckVariantBase)%len(catAll)]
}

// callUnlocked is Call without the synthesis lock, for use while that lock is already held (a harvested check is
// built while the arguments of an outer Call are being synthesised) or before any concurrency starts.
func callUnlocked(recv any, name string, variant int) (Schema, bool) {
	rv := reflect.ValueOf(recv)
	m := rv.MethodByName(name)
	if !m.IsValid() {
		return nil, false
	}
	saved := anySample
	anySample = "x"
	if strings.Contains(rv.Type().String(), "Discriminated") {
		anySample = map[string]any{"t": "x", "a": "s"}
	}
	var args []reflect.Value
	ps := hx.Safely(func() { args = SynthArgs(rv, name, m.Type(), variant) })
	anySample = saved
	if ps != "" {
		return nil, false
	}
	var outs []reflect.Value
	if p := hx.Safely(func() { outs = m.Call(args) }); p != "" {
		return nil, false
	}
	for _, o := range outs {
		if o.Type().Implements(reflect.TypeOf((*error)(nil)).Elem()) && !o.IsNil() {
			return nil, false
		}
	}
	for _, o := range outs {
		if s, isS := AsSchema(o); isS {
			return s, true
		}
	}
	return nil, false
}

var tZodCheck = reflect.TypeOf((*core.ZodCheck)(nil)).Elem()

// metaRegistry remembers, for the check values handed out, what their OnAttach writes to the registry.
var metaOfCheck sync.Map // identity of the check value -> metaEntry

type metaEntry struct {
	keep    core.ZodCheck
	content MetaContent
}

// MakeCheck builds the check of catalogue entry `variant` and remembers its registry content.
func MakeCheck(variant int) core.ZodCheck {
	sp := checkFor(variant)
	if sp.MkWith != nil {
		c, m := sp.MkWith()
		if c != nil {
			metaOfCheck.Store(ifaceData(c), metaEntry{c, MetaContent{M: m, Describe: sp.Desc}})
		}
		return c
	}
	c := sp.Mk()
	if c != nil && sp.Meta != nil {
		// the check value is kept with its content: its address is the key and must never be reused for another check
		metaOfCheck.Store(ifaceData(c), metaEntry{c, MetaContent{M: *sp.Meta, Describe: sp.Desc}})
	}
	return c
}

// checkArg synthesises an argument of a check-typed parameter (nil when t is not one).
func checkArg(t reflect.Type, variant int) (reflect.Value, bool) {
	switch {
	case t == tZodCheck:
		v := reflect.New(t).Elem()
		if c := MakeCheck(variant); c != nil {
			v.Set(reflect.ValueOf(c))
		}
		return v, true
	case t.Kind() == reflect.Slice && t.Elem() == tZodCheck:
		s := reflect.MakeSlice(t, 0, 2)
		for k := 0; k < 1+variant%2; k++ {
			if c := MakeCheck(variant + k); c != nil {
				s = reflect.Append(s, reflect.ValueOf(c))
			}
		}
		return s, true
	}
	return reflect.Value{}, false
}

// CheckMethods lists the exported methods of recv that take a check value (core.ZodCheck, ...core.ZodCheck or
// []core.ZodCheck) and can return a schema.
func CheckMethods(recv any) []string {
	rt := reflect.TypeOf(recv)
	var out []string
	for _, n := range Methods(recv) {
		m, ok := rt.MethodByName(n)
		if !ok {
			continue
		}
		for i := 1; i < m.Type.NumIn(); i++ {
			t := m.Type.In(i)
			if t == tZodCheck || (t.Kind() == reflect.Slice && t.Elem() == tZodCheck) {
				out = append(out, n)
				break
			}
		}
	}
	return out
}

// WithAddedCheck is base b with catalogue entry idx attached through the exported Internals().AddCheck before the
// schema is used for anything (construction through exported API: the route open to every schema type).
func WithAddedCheck(b Base, idx int) Base {
	return Base{Name: fmt.Sprintf("%s+chk%d", b.Name, idx), Family: b.Family, Mk: func() any {
		s := b.Mk()
		if c := MakeCheck(idx); c != nil {
			s.(Schema).Internals().AddCheck(c)
		}
		return s
	}}
}

// MetaChecks lists the registry contents that the Describe/Meta checks of s write when their OnAttach runs, in
// check order (only for check values built by MakeCheck).
func MetaChecks(s Schema) []MetaContent {
	var out []MetaContent
	for _, c := range s.Internals().Checks {
		if c == nil {
			continue
		}
		if m, ok := metaOfCheck.Load(ifaceData(c)); ok {
			out = append(out, m.(metaEntry).content)
		}
	}
	return out
}

// ---------------------------------------------------------------------------------------------
// abstract codes of registry entries (what the Lean model computes with)

var (
	internMu  sync.Mutex
	internStr = map[string]int{"": 0}
	internEx  = map[string]int{}
)

func strCode(s string) int {
	if c, ok := internStr[s]; ok {
		return c
	}
	c := len(internStr)
	internStr[s] = c
	return c
}

// MetaCode renders a registry entry / a Meta check's content as `<id>.<title>.<descr>.<e1>+<e2>+…`: strings and
// example values interned to small numbers ("" = 0; equal canonical content = equal number).
func MetaCode(m core.GlobalMeta) string {
	internMu.Lock()
	defer internMu.Unlock()
	var es []string
	for _, e := range m.Examples {
		k := Canon(e) + fmt.Sprintf("|%T", e)
		c, ok := internEx[k]
		if !ok {
			c = len(internEx) + 1
			internEx[k] = c
		}
		es = append(es, fmt.Sprint(c))
	}
	return fmt.Sprintf("%d.%d.%d.%s", strCode(m.ID), strCode(m.Title), strCode(m.Description), strings.Join(es, "+"))
}
