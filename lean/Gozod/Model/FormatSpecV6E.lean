/-
  Gozod.Model.FormatSpecV6E — the excluded region of the `_partial` theorems about `regex.IPv6` / `regex.CIDRv6` on the
  strings that contain a dotted quad (Proofs/C20V6Dot.lean).

  `Fmt.ipv6QuadDefect` accepts the strings that

    * have the outline of an RFC 4291 address whose last 32 bits are written as a dotted quad — hex groups and at
      most one "::" as the RFC allows (six groups before the quad, or at most five with a "::"), then four
      octets of one to three decimal digits each (their VALUE is not looked at) — and
    * either contain an octet of two or more digits that begins with '0'            (defect "v4-leading-zero"),
      or whose hex part is not one of the four outlines the library's pattern knows (defect "embedded-v4"):
          "::"                         directly before the quad
          "::ffff:"                    (lower case)
          "::ffff:" zeros ":"          (one to four '0')
          one to four groups, then "::" directly before the quad.

  Outside this region (and without a zone, '%') the patterns are proved to accept exactly the RFC 4291 addresses:
  every other string with a '.', well-formed or not, is covered.  Kept in its own file: an edit here must not
  invalidate the certificates that only depend on FormatSpecV6.lean.   Core-only.
-/
import Gozod.Model.FormatSpecV6
namespace Gozod
namespace Fmt

structure V6ESt where
  /-- as in `V6St`: 0 start, 1 one leading ':', 2 just after "::", 3 inside a group, 4 after the ':' that ends a
      group, 5 inside the dotted quad, 6 inside the prefix length -/
  ph : Nat
  /-- complete groups so far -/
  g : Nat
  /-- 1 once "::" was read -/
  ell : Nat
  /-- characters of the current group / octet / prefix length -/
  n : Nat
  /-- dots read -/
  k : Nat
  /-- groups before the "::" -/
  pre : Nat
  /-- the current group consists of 'f' only / of '0' only / of decimal digits only -/
  cf : Bool
  cz : Bool
  dec : Bool
  /-- the current group / octet begins with '0' -/
  z0 : Bool
  /-- after a leading "::": the first group was "ffff", the second one was all zeros -/
  ff : Bool
  zz : Bool
  /-- a defect was seen: (set at the first '.') the outline of the hex part is not one the pattern knows;
      an octet of two or more digits began with '0' -/
  lz : Bool
  deriving DecidableEq, Repr

def V6ESt.beq (a b : V6ESt) : Bool :=
  Nat.beq a.ph b.ph && Nat.beq a.g b.g && Nat.beq a.ell b.ell && Nat.beq a.n b.n && Nat.beq a.k b.k && Nat.beq a.pre b.pre &&
  (a.cf == b.cf) && (a.cz == b.cz) && (a.dec == b.dec) && (a.z0 == b.z0) && (a.ff == b.ff) && (a.zz == b.zz) && (a.lz == b.lz)
theorem V6ESt.beq_eq (a b : V6ESt) (h : a.beq b = true) : a = b := by
  cases a; cases b; simp [V6ESt.beq] at h; simp [h]
def V6ESt.pp (q : V6ESt) : String :=
  s!"(Fmt.V6ESt.mk {q.ph} {q.g} {q.ell} {q.n} {q.k} {q.pre} {q.cf} {q.cz} {q.dec} {q.z0} {q.ff} {q.zz} {q.lz})"
def bit (b : Bool) : Nat := if b then 1 else 0
def V6ESt.code (q : V6ESt) : Nat :=
  ((((((((((((q.ph * 9 + q.g) * 2 + q.ell) * 5 + q.n) * 4 + q.k) * 9 + q.pre) * 2 + bit q.cf) * 2 + bit q.cz) * 2 + bit q.dec) * 2 + bit q.z0)
    * 2 + bit q.ff) * 2 + bit q.zz) * 2 + bit q.lz)

/-- the hex part read so far is one of the four outlines the library's pattern knows before a dotted quad -/
def V6ESt.knownOutline (q : V6ESt) : Bool :=
  q.ell = 1 && ((q.pre = 0 && (q.g = 0 || (q.g = 1 && q.ff) || (q.g = 2 && q.ff && q.zz))) ||
                (1 ≤ q.pre && q.pre ≤ 4 && q.g = q.pre))

def V6ESt.init : V6ESt := ⟨0, 0, 0, 0, 0, 0, false, false, false, false, false, false, false⟩

def V6ESt.startGroup (q : V6ESt) (c : Nat) : V6ESt :=
  { q with ph := 3, n := 1, cf := c = 102, cz := c = 48, dec := isDigit c, z0 := c = 48 }

/-- `prefixLen`: also read '/' and a prefix length of one to three digits (CIDRv6) -/
def quadDefectStep (prefixLen : Bool) (q : V6ESt) (c : Nat) : Option V6ESt :=
  if q.ph = 6 then (if isDigit c ∧ q.n < 3 then some { q with n := q.n + 1 } else none)
  else if c = 47 then (if prefixLen ∧ q.ph = 5 ∧ q.k = 3 ∧ q.n ≥ 1 then some { q with ph := 6, n := 0 } else none)
  else if q.ph = 5 then
    (if c = 46 then (if q.n ≥ 1 ∧ q.k < 3 then some { q with k := q.k + 1, n := 0, z0 := false } else none)
     else if isDigit c then
       (if q.n = 0 then some { q with n := 1, z0 := c = 48 }
        else if q.n < 3 then some { q with n := q.n + 1, lz := q.lz || q.z0 }
        else none)
     else none)
  else if c = 58 then
    (if q.ph = 0 then some { q with ph := 1 }
     else if q.ph = 1 then some { q with ph := 2, ell := 1, pre := 0 }
     else if q.ph = 3 then
       (if (q.ell = 0 ∧ q.g + 1 ≤ 7) ∨ (q.ell = 1 ∧ q.g + 1 ≤ 6) then
          some { q with ph := 4, g := q.g + 1, n := 0,
                        ff := if q.ell = 1 ∧ q.pre = 0 ∧ q.g = 0 then (q.cf && q.n = 4) else q.ff,
                        zz := if q.ell = 1 ∧ q.pre = 0 ∧ q.g = 1 then q.cz else q.zz }
        else none)
     else if q.ph = 4 then (if q.ell = 0 then some { q with ph := 2, ell := 1, pre := q.g } else none)
     else none)
  else if c = 46 then
    (if q.ph = 3 ∧ q.dec ∧ q.n ≤ 3 ∧ quadMayStart q.g q.ell then
       -- from here on only the octets matter: everything about the hex part is summed up in `lz`
       some { V6ESt.init with ph := 5, k := 1, lz := (q.z0 && q.n ≥ 2) || !q.knownOutline }
     else none)
  else if isHex c then
    (if q.ph = 0 ∨ q.ph = 4 then some (q.startGroup c)
     else if q.ph = 2 then (if q.g ≤ 6 then some (q.startGroup c) else none)
     else if q.ph = 3 then
       (if q.n < 4 then some { q with n := q.n + 1, cf := q.cf && c = 102, cz := q.cz && c = 48, dec := q.dec && isDigit c } else none)
     else none)
  else none

/-- IPv6 strings ending in a dotted quad on which `regex.IPv6` is wrong (or which are at least of a kind it is wrong on) -/
def ipv6QuadDefect : Spec where
  State := V6ESt
  beq := V6ESt.beq
  beq_eq := V6ESt.beq_eq
  init := V6ESt.init
  support := ipv6Support
  step := quadDefectStep false
  acc := fun q => q.ph = 5 && q.k = 3 && q.n ≥ 1 && q.lz
  code := V6ESt.code
  pp := V6ESt.pp

/-- the same for CIDRv6: such an address, '/', one to three digits -/
def cidrv6QuadDefect : Spec where
  State := V6ESt
  beq := V6ESt.beq
  beq_eq := V6ESt.beq_eq
  init := V6ESt.init
  support := 47 :: ipv6Support
  step := quadDefectStep true
  acc := fun q => q.ph = 6 && q.n ≥ 1 && q.lz
  code := V6ESt.code
  pp := V6ESt.pp

/-! ### the definition with the octet value kept up to what matters

  While an octet is read only this matters about its value `v` so far: is it 0 (no digit may follow), and which
  digits keep it ≤ 255 (all after 1…24, '0'–'5' after 25, none after 26…).  `octNorm` maps `v` to the least value of
  its class; `ipv6Q` / `cidrv6Q` are the definitions with `v` normalised after every step (`C20.ipv6_octet_quot`:
  they accept the same strings).  The certificates are checked against these: 8 octet values instead of 256. -/

def octNorm (v : Nat) : Nat :=
  if v ≤ 2 then v else if v ≤ 9 then 3 else if v ≤ 24 then 10 else if v = 25 then 25 else if v ≤ 99 then 26
  else if v ≤ 255 then 100 else 256

def V6St.norm (q : V6St) : V6St := if q.ph = 3 ∨ q.ph = 5 then { q with v := octNorm q.v } else q

def ipv6Q : Spec := { ipv6 with step := fun q c => (ipv6Step q c).map V6St.norm }
def cidrv6Q : Spec := { cidrv6 with step := fun q c => (cidrv6Step q c).map V6St.norm }

end Fmt
end Gozod
