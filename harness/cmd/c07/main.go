package main

// C07 — ToJSONSchema describes exactly what Parse accepts.
//
// Op lines (model side: lean/Gozod/Drv/C07.lean):
//
//	c07 doc <S>        impl: "<wf> <canonical JSON of the real ToJSONSchema output>"
//	                   wf = 1 iff the independent validator library compiles the document and every
//	                   $ref in it resolves inside the document
//	c07 inst <S> <J>   impl: "<P> <VR> <VI>"
//	                   P  = real Parse verdict on the schema-directed embedding of J (1/0; a panic counts as 0)
//	                   VR = independent validator (kaptinlin/jsonschema, compiled from the REAL emitted
//	                        document) on the value Parse RETURNED (1/0, "-" when P≠1)
//	                   VI = independent validator on the input instance J (1/0)
//
// The property on the implementation alone: P=1 ⇒ VR=1 (sound), VI=1 ⇒ P=1 (complete), wf=1.

import (
	"bytes"
	"encoding/json"
	"fmt"
	"math/big"
	"os"
	"sort"
	"strings"

	"github.com/kaptinlin/gozod"
	"github.com/kaptinlin/gozod/core"
	lib "github.com/kaptinlin/jsonschema"

	"verifharness/hx"
)

func main() {
	if err := runC07(hx.ParseFlags()); err != nil {
		fmt.Fprintln(os.Stderr, "harness error:", err)
		os.Exit(3)
	}
}

// canonical JSON: sorted keys, no spaces, numbers as integers or exact fractions "n/d".
func canon(v any, b *strings.Builder) {
	switch x := v.(type) {
	case nil:
		b.WriteString("null")
	case bool:
		if x {
			b.WriteString("true")
		} else {
			b.WriteString("false")
		}
	case json.Number:
		r, ok := new(big.Rat).SetString(string(x))
		if !ok {
			b.WriteString("NaN:" + string(x))
		} else if r.IsInt() {
			b.WriteString(r.Num().String())
		} else {
			b.WriteString(r.Num().String() + "/" + r.Denom().String())
		}
	case string:
		b.WriteString(jq(x))
	case []any:
		b.WriteByte('[')
		for i, e := range x {
			if i > 0 {
				b.WriteByte(',')
			}
			canon(e, b)
		}
		b.WriteByte(']')
	case map[string]any:
		keys := make([]string, 0, len(x))
		for k := range x {
			keys = append(keys, k)
		}
		sort.Strings(keys)
		b.WriteByte('{')
		for i, k := range keys {
			if i > 0 {
				b.WriteByte(',')
			}
			b.WriteString(jq(k))
			b.WriteByte(':')
			canon(x[k], b)
		}
		b.WriteByte('}')
	default:
		fmt.Fprintf(b, "?%T", v)
	}
}

// jq: JSON string literal without HTML escaping.
func jq(s string) string {
	var buf bytes.Buffer
	e := json.NewEncoder(&buf)
	e.SetEscapeHTML(false)
	_ = e.Encode(s)
	return strings.TrimRight(buf.String(), "\n")
}

func canonBytes(doc []byte) (string, any, error) {
	d := json.NewDecoder(bytes.NewReader(doc))
	d.UseNumber()
	var v any
	if err := d.Decode(&v); err != nil {
		return "", nil, err
	}
	var b strings.Builder
	canon(v, &b)
	return b.String(), v, nil
}

// refsResolve: every "$ref" is "#" or "#/$defs/<name>" with <name> present in the root's $defs.
func refsResolve(root any) bool {
	defs := map[string]any{}
	if m, ok := root.(map[string]any); ok {
		if d, ok := m["$defs"].(map[string]any); ok {
			defs = d
		}
	}
	ok := true
	var walk func(v any)
	walk = func(v any) {
		switch x := v.(type) {
		case []any:
			for _, e := range x {
				walk(e)
			}
		case map[string]any:
			if r, has := x["$ref"]; has {
				rs, isStr := r.(string)
				switch {
				case !isStr:
					ok = false
				case rs == "#":
				case strings.HasPrefix(rs, "#/$defs/"):
					if _, has := defs[strings.TrimPrefix(rs, "#/$defs/")]; !has {
						ok = false
					}
				default:
					ok = false
				}
			}
			for k, e := range x {
				if k == "const" || k == "enum" || k == "default" || k == "examples" {
					continue
				}
				walk(e)
			}
		}
	}
	walk(root)
	return ok
}

type compiled struct {
	doc   string // canonical
	raw   []byte
	wf    bool
	v     *lib.Schema
	err   string
	real  core.ZodSchema
	panic string
}

func convertReal(s *Sch) (c compiled) {
	c.panic = hx.Safely(func() {
		c.real = build(s)
		js, err := gozod.ToJSONSchema(c.real)
		if err != nil {
			c.err = "error"
			return
		}
		raw, err := json.Marshal(js)
		if err != nil {
			c.err = "marshal-error"
			return
		}
		c.raw = raw
		doc, tree, err := canonBytes(raw)
		if err != nil {
			c.err = "decode-error"
			return
		}
		c.doc = doc
		v, err := lib.NewCompiler().Compile(raw)
		c.wf = err == nil && refsResolve(tree)
		if err == nil {
			c.v = v
		}
	})
	return c
}

func b01(b bool) string { return hx.B01(b) }

var panics int

func runInst(s *Sch, c *compiled, j *J) string {
	var p, vr, vi string
	var ret any
	var perr error
	pm := hx.Safely(func() {
		// a fresh schema for Parse: conversion writes into the converted schema's Bag (C12's business)
		ret, perr = build(s).ParseAny(embed(s, j))
	})
	switch {
	case pm != "":
		// C07's projection: a panic is "not accepted" (the crash itself is C04's business); counted.
		p = "0"
		panics++
	case perr != nil:
		p = "0"
	default:
		p = "1"
	}
	vr = "-"
	if p == "1" {
		rb, err := json.Marshal(ret)
		if err != nil {
			vr = "unmarshalable"
		} else {
			vm := hx.Safely(func() { vr = b01(c.v.ValidateJSON(rb).IsValid()) })
			if vm != "" {
				vr = "vpanic"
			}
		}
	}
	vm := hx.Safely(func() { vi = b01(c.v.ValidateJSON([]byte(j.JSON())).IsValid()) })
	if vm != "" {
		vi = "vpanic"
	}
	return p + " " + vr + " " + vi
}

func runC07(cfg hx.Config) error {
	out, err := hx.NewOut(cfg.OutDir)
	if err != nil {
		return err
	}
	rng := hx.NewRng(cfg.Seed)
	g := &gen{r: rng, thorough: cfg.Thorough()}
	nSchemas := 700
	if cfg.Thorough() {
		nSchemas = 12000
	}
	schemas := append([]*Sch{}, corpusSchemas()...)
	for i := 0; i < nSchemas; i++ {
		schemas = append(schemas, g.schema(3, true))
	}
	// thorough tier: the raw emitted documents, one per line, for the Python metaschema check
	var rawDocs *os.File
	if p := os.Getenv("C07_RAWDOCS"); p != "" {
		rawDocs, _ = os.Create(p)
		defer rawDocs.Close()
	}
	seen := map[string]bool{}
	for _, s := range schemas {
		text := s.String()
		if seen[text] {
			continue
		}
		seen[text] = true
		c := convertReal(s)
		out.Count("schema:" + s.K)
		g.countFeatures(out, s)
		switch {
		case c.panic != "":
			out.Emit("c07 doc "+text, "panic")
			continue
		case c.err != "":
			out.Emit("c07 doc "+text, c.err)
			continue
		}
		out.Emit("c07 doc "+text, b01(c.wf)+" "+c.doc)
		if rawDocs != nil {
			fmt.Fprintf(rawDocs, "%s\t%s\n", text, c.raw)
		}
		if c.v == nil {
			continue
		}
		insts := g.instances(s)
		seenI := map[string]bool{}
		for _, j := range insts {
			jt := j.String()
			if seenI[jt] {
				continue
			}
			seenI[jt] = true
			obs := runInst(s, &c, j)
			out.Count("verdict:" + obs)
			out.Emit("c07 inst "+text+" "+jt, obs)
		}
	}
	return out.Close(map[string]any{"schemas": len(seen), "parse_panics": panics})
}
